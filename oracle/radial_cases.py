"""the translated closed-form cases and the base integrals evaluated in 40-digit arithmetic (mpmath):
tells a formula that is RIGHT but ill-conditioned in doubles from a formula with a wrong coefficient.
stdin: json lines {ijk, nbase, zeta, a, A, b, B, terms: [[coef_text, base], ...]}; stdout: value or `none`"""
import sys, json, os, re
import mpmath as mp
mp.mp.dps = 60
sys.path.insert(0, os.path.join(os.path.dirname(os.path.abspath(__file__)), "..", "translate"))
import cexpr


def ev(e, env):
    k = e[0]
    if k == "num":
        return mp.mpf(e[1])
    if k == "var":
        return env[e[1]]
    if k == "neg":
        return -ev(e[1], env)
    a, b = ev(e[1], env), ev(e[2], env)
    return a + b if k == "+" else a - b if k == "-" else a * b if k == "*" else a / b


def dawson(x):
    return mp.sqrt(mp.pi) / 2 * mp.exp(-x * x) * mp.erfi(x)


def base_integrals(Nmin, Nmax, p, P1, P2, X1, X2):
    """same recursion as compute_base_integrals, exact arithmetic"""
    P1_2, P2_2 = P1 * P1, P2 * P2
    oP1 = 1 / P1_2
    oP2 = 0 if P2 == 0 else 1 / P2_2
    o_root_p = 1 / mp.sqrt(p)
    C0 = o_root_p * mp.sqrt(mp.pi)
    vals = {}
    imax, imin, gmax, gmin = Nmax // 2, (Nmin + 1) // 2, (Nmax - 1) // 2, Nmin // 2
    P1k = P1_2 ** max(imin - 2, 0)
    P2k = P2_2 ** max(imin - 2, 0)
    for n in range(imin, imax + 1):
        ck, dk, ek = C0, P1k * X1, P2k * X2
        val = ck * (dk - ek)
        for k in range(n - 1, 1, -1):
            ck *= mp.mpf(2 * k * (2 * k - 1)) * (n - k - mp.mpf(1) / 2) / ((2 * n - 2 * k) * (2 * n - 2 * k - 1) * p)
            dk *= oP1; ek *= oP2
            val += ck * (dk - ek)
        if n > 1:
            ck *= 2 * (n - mp.mpf(3) / 2) / ((2 * n - 2) * (2 * n - 3) * p)
            val += ck * (X1 - X2)
        vals[2 * n - Nmin] = val
        P1k *= P1_2; P2k *= P2_2
    P1k = P1 * P1_2 ** max(gmin - 1, 0)
    P2k = P2 * P2_2 ** max(gmin - 1, 0)
    for n in range(gmin, gmax + 1):
        ck, dk, ek = C0, P1k * X1, P2k * X2
        val = ck * (dk - ek)
        for k in range(n - 1, 0, -1):
            ck *= mp.mpf(2 * k * (2 * k + 1)) * (n - k - mp.mpf(1) / 2) / ((2 * n - 2 * k) * (2 * n - 1 - 2 * k) * p)
            dk *= oP1; ek *= oP2
            val += ck * (dk - ek)
        vals[2 * n + 1 - Nmin] = val
        P1k *= P1_2; P2k *= P2_2
    return vals


def evaluate(d):
    zeta, a, A, b, B = (mp.mpf(d[x]) for x in ("zeta", "a", "A", "b", "B"))
    p = zeta + a + b
    x, y = a * A, b * B
    P1, P2 = (x + y) / p, (y - x) / p
    aAbB = a * A * A + b * B * B
    Kab = 1 / (16 * x * y)
    X1, X2 = mp.exp(p * P1 * P1 - aAbB) * Kab, mp.exp(p * P2 * P2 - aAbB) * Kab
    root_p = mp.sqrt(p)
    daw1, daw2 = X1 * dawson(root_p * P1), X2 * dawson(root_p * P2)
    rp = mp.sqrt(mp.pi)
    env = {"p": p, "x": x, "y": y, "x2": x * x, "y2": y * y, "p2": p * p}
    vals = base_integrals(2, 3 + d["nbase"], p, P1, P2, X1, X2)
    bases = {"G1B": 2 * rp * (daw1 - daw2), "G1A": 2 * rp * (daw1 + daw2), "H2": rp * (X1 + X2) / root_p}
    r = mp.mpf(0)
    for coef, base in d["terms"]:
        c = ev(cexpr.parse(coef), env)
        r += c * (vals[int(base.split()[1])] if base.startswith("values") else bases[base])
    return r


if __name__ == "__main__":
    for line in sys.stdin:
        line = line.strip()
        if line:
            print(mp.nstr(evaluate(json.loads(line)), 20))
            sys.stdout.flush()
