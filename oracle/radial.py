"""reference for the primitive type-2 radial integral
   I = int_0^inf r^k exp(-zeta r^2 - a (r-A)^2 - b (r-B)^2) K_l1(2 a A r) K_l2(2 b B r) dr,  K_l(z) = exp(-z) i_l(z)
by mpmath quadrature at 30 digits (independent of every library routine).
stdin: json lines {k, l1, l2, zeta, a, A, b, B}; stdout: one 20-digit number per line"""
import sys, json
import mpmath as mp
mp.mp.dps = 30


def K(l, z):
    if z == 0:
        return mp.mpf(1) if l == 0 else mp.mpf(0)
    if z < mp.mpf("1e-3"):
        # series: e^-z z^l sum_m (z^2/2)^m / (m! (2l+2m+1)!!)
        s, t = mp.mpf(0), mp.mpf(1) / mp.fac2(2 * l + 1)
        m = 0
        while True:
            s += t
            m += 1
            t = t * (z * z / 2) / m / (2 * l + 2 * m + 1)
            if abs(t) < mp.mpf(10) ** (-40) * abs(s):
                break
        return mp.exp(-z) * z ** l * s
    return mp.sqrt(mp.pi / (2 * z)) * mp.besseli(l + mp.mpf(1) / 2, z) * mp.exp(-z)


def integral(d):
    k, l1, l2 = d["k"], d["l1"], d["l2"]
    zeta, a, A, b, B = (mp.mpf(d[x]) for x in ("zeta", "a", "A", "b", "B"))
    zt = zeta + a + b
    pt = (a * A + b * B) / zt
    f = lambda r: r ** k * mp.exp(-zeta * r * r - a * (r - A) ** 2 - b * (r - B) ** 2) * K(l1, 2 * a * A * r) * K(l2, 2 * b * B * r)
    s = 1 / mp.sqrt(zt)
    pts = [mp.mpf(0)] + [p for p in (pt - 6 * s, pt - 2 * s, pt, pt + 2 * s, pt + 6 * s, pt + 14 * s) if p > 0] + [pt + 40 * s]
    pts = sorted(set(pts))
    return mp.quad(f, pts)


if __name__ == "__main__":
    for line in sys.stdin:
        line = line.strip()
        if not line:
            continue
        print(mp.nstr(integral(json.loads(line)), 20))
        sys.stdout.flush()
