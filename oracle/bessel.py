"""reference for K_l(z) = exp(-z) i_l(z): mpmath's modified Bessel function of half-integer order, 40 digits.
stdin: one line per request `lmax z-hex`; stdout: `z-hex v0 v1 ...` as decimal strings with 25 digits"""
import sys, struct
import mpmath as mp
mp.mp.dps = 40


def K(l, z):
    z = mp.mpf(z)
    if z == 0:
        return mp.mpf(1) if l == 0 else mp.mpf(0)
    return mp.sqrt(mp.pi / (2 * z)) * mp.besseli(l + mp.mpf(1) / 2, z) * mp.exp(-z)


if __name__ == "__main__":
    for line in sys.stdin:
        t = line.split()
        if len(t) != 2:
            continue
        lmax = int(t[0])
        z = struct.unpack(">d", bytes.fromhex(t[1]))[0]
        print(t[1], " ".join(mp.nstr(K(l, z), 25) for l in range(lmax + 1)))
        sys.stdout.flush()
