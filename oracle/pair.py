"""Independent oracle for one shell-pair block: brute-force quadrature of the DEFINING integral
      <phi_A | U_L(r) + sum_{l<L} sum_m |S_lm> U_l(r) <S_lm| | phi_B>
in spherical coordinates about the ECP centre (Gauss-Legendre panels in r, Gauss-Legendre in cos(theta), trapezoid in
phi; harmonics from scipy's associated Legendre functions).  Nothing of the library's algorithm (no Bessel expansion,
no binomial shift, no angular tables) is used.  Each request is evaluated on two grids; the answer carries the
difference so that the caller can discard requests the oracle itself cannot resolve.

stdin : one JSON object per line {"ecp": {"c":[..], "prims":[[n,l,a,d],..]}, "A": {"l":..,"c":[..],"prims":[[e,c],..]}, "B": {...}}
        (n in the user convention: U_l(r) = sum d r^(n-2) exp(-a r^2); the local part is the largest l present)
stdout: one JSON object per line {"nA":..,"nB":..,"v":[row-major block],"err": max |grid1 - grid2|}
"""
import json, math, sys
import numpy as np
from scipy.special import lpmv


def cart(L):
    return [(x, y, L - x - y) for x in range(L, -1, -1) for y in range(L - x, -1, -1)]


def real_harmonics(lmax, ct, phi):
    """orthonormal real spherical harmonics S[l][m+l] on the given directions (any real orthonormal basis of each l
    gives the same projector, so no sign convention matters here)"""
    out = []
    for l in range(lmax + 1):
        rows = np.zeros((2 * l + 1, ct.size))
        for m in range(0, l + 1):
            N = math.sqrt((2 * l + 1) / (4 * math.pi) * math.factorial(l - m) / math.factorial(l + m))
            P = lpmv(m, l, ct)
            if m == 0:
                rows[l] = N * P
            else:
                rows[l + m] = math.sqrt(2) * N * P * np.cos(m * phi)
                rows[l - m] = math.sqrt(2) * N * P * np.sin(m * phi)
        out.append(rows)
    return out


def shell_values(sh, C, pts):
    """values of every Cartesian component of the contracted shell at points pts (3, n) given relative to the ECP centre"""
    c = np.array(sh["c"]) - np.array(C)
    d = pts - c[:, None]
    r2 = (d * d).sum(axis=0)
    rad = np.zeros_like(r2)
    for e, co in sh["prims"]:
        rad += co * np.exp(-e * r2)
    comps = cart(sh["l"])
    pw = [[np.ones_like(r2)] for _ in range(3)]
    for q in range(3):
        for k in range(sh["l"]):
            pw[q].append(pw[q][-1] * d[q])
    return np.array([pw[0][x] * pw[1][y] * pw[2][z] * rad for (x, y, z) in comps])


def block(req, nth, nr):
    U = req["ecp"]
    C = U["c"]
    prims = U["prims"]
    L = max(p[1] for p in prims)
    sA, sB = req["A"], req["B"]
    # angular grid
    ct, wt = np.polynomial.legendre.leggauss(nth)
    nph = 2 * nth
    ph = (np.arange(nph) + 0.5) * (2 * math.pi / nph)
    CT, PH = np.meshgrid(ct, ph, indexing="ij")
    WT = (wt[:, None] * np.full((1, nph), 2 * math.pi / nph)).ravel()
    CT = CT.ravel(); PH = PH.ravel()
    ST = np.sqrt(np.maximum(0.0, 1 - CT * CT))
    dirs = np.array([ST * np.cos(PH), ST * np.sin(PH), CT])
    S = real_harmonics(max(L - 1, 0), CT, PH)
    # radial range: the envelope exp(-a_min |r-A|^2 - b_min |r-B|^2) decides where the integrand lives
    dA = np.linalg.norm(np.array(sA["c"]) - np.array(C)); dB = np.linalg.norm(np.array(sB["c"]) - np.array(C))
    amin = min(e for e, _ in sA["prims"]); bmin = min(e for e, _ in sB["prims"])
    zmin = min(p[2] for p in prims)
    Rmax = max(dA + 9.0 / math.sqrt(amin), dB + 9.0 / math.sqrt(bmin))
    Rmax = min(Rmax, max(dA, dB) + 9.0 / math.sqrt(amin + bmin + zmin) + 12.0 / math.sqrt(min(amin, bmin) + zmin))
    amax = max(e for e, _ in sA["prims"]); bmax = max(e for e, _ in sB["prims"])
    # panels: finer around the shell distances where the tightest primitives vary fastest
    edges = sorted(set([0.0, Rmax] + [min(max(x, 0.0), Rmax) for x in (dA - 4 / math.sqrt(amax), dA, dA + 4 / math.sqrt(amax), dB - 4 / math.sqrt(bmax), dB, dB + 4 / math.sqrt(bmax))]))
    xs, ws = np.polynomial.legendre.leggauss(nr)
    rr, rw = [], []
    for lo, hi in zip(edges[:-1], edges[1:]):
        if hi - lo < 1e-12:
            continue
        rr.append(0.5 * (hi - lo) * xs + 0.5 * (hi + lo)); rw.append(0.5 * (hi - lo) * ws)
    rr = np.concatenate(rr); rw = np.concatenate(rw)
    nA, nB = len(cart(sA["l"])), len(cart(sB["l"]))
    V = np.zeros((nA, nB))
    def Ul(l, r):
        v = np.zeros_like(r)
        for n, ll, a, d in prims:
            if ll == l:
                v += d * r ** (n - 2) * np.exp(-a * r * r)
        return v
    for r, w in zip(rr, rw):
        pts = dirs * r
        fa = shell_values(sA, C, pts)       # (nA, nang)
        fb = shell_values(sB, C, pts)
        base = w * r * r
        uL = Ul(L, np.array([r]))[0]
        if uL != 0.0:
            V += base * uL * (fa * WT) @ fb.T
        for l in range(L):
            ul = Ul(l, np.array([r]))[0]
            if ul == 0.0:
                continue
            pa = (fa * WT) @ S[l].T         # (nA, 2l+1)
            pb = (fb * WT) @ S[l].T
            V += base * ul * pa @ pb.T
    return V


def main():
    for line in sys.stdin:
        line = line.strip()
        if not line:
            continue
        req = json.loads(line)
        g = req.get("grid", [72, 64])
        v1 = block(req, g[0], g[1])
        v2 = block(req, int(g[0] * 4 / 3) + 1, int(g[1] * 5 / 4) + 3)
        print(json.dumps({"nA": v1.shape[0], "nB": v1.shape[1], "v": v2.ravel().tolist(), "err": float(np.abs(v1 - v2).max())}), flush=True)


if __name__ == "__main__":
    main()
