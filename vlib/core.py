"""Common plumbing of the checks: Lean build + audit, evidence, replays, known findings."""
import fcntl, hashlib, json, os, re, subprocess, sys, time

HERE = os.path.dirname(os.path.abspath(__file__))
VERIF = os.path.dirname(HERE)
LEAN = os.path.join(VERIF, "lean")
REPO = os.environ.get("VERIF_REPO", "/repo")
DRIVER = os.path.join(LEAN, ".lake", "build", "bin", "driver")
STD_AXIOMS = {"propext", "Classical.choice", "Quot.sound"}
FORBIDDEN = re.compile(r"\b(sorry|admit|native_decide|bv_decide|implemented_by)\b|^\s*axiom\s|\bunsafe\s|maxHeartbeats\s+0\b")

TRUSTED_BASE = [
    "Lean 4.33.0 kernel (thorough tier re-checks the compiled module with leanchecker)",
    "axioms per theorem as printed by #print axioms; allowed: propext, Classical.choice, Quot.sound",
    "no sorry/admit/native_decide/bv_decide/implemented_by/unsafe/own axioms (grep audit of lean/ on every run)",
]


def sh(cmd, **kw):
    kw.setdefault("stdout", subprocess.PIPE)
    kw.setdefault("stderr", subprocess.STDOUT)
    kw.setdefault("text", True)
    return subprocess.run(cmd, **kw)


class LeanLock:
    def __enter__(self):
        os.makedirs(os.path.join(VERIF, ".cache"), exist_ok=True)
        self.fh = open(os.path.join(VERIF, ".cache", ".lean.lock"), "w")
        fcntl.flock(self.fh, fcntl.LOCK_EX)
        return self

    def __exit__(self, *a):
        self.fh.close()


def write_if_changed(path, text):
    """Gen files are rewritten only when their text changes so lake does not rebuild needlessly"""
    try:
        if open(path).read() == text:
            return False
    except OSError:
        pass
    os.makedirs(os.path.dirname(path), exist_ok=True)
    with open(path, "w") as f:
        f.write(text)
    return True


def lake_build(targets):
    with LeanLock():
        r = sh(["lake", "build"] + list(targets), cwd=LEAN)
    return r.returncode == 0, r.stdout


def strip_comments(text):
    # remove /- ... -/ (nested not handled beyond one level, good enough for an audit) and -- comments
    out = []
    depth = 0
    i = 0
    while i < len(text):
        if text.startswith("/-", i):
            depth += 1
            i += 2
        elif text.startswith("-/", i) and depth > 0:
            depth -= 1
            i += 2
        elif depth > 0:
            if text[i] == "\n":
                out.append("\n")
            i += 1
        elif text.startswith("--", i):
            while i < len(text) and text[i] != "\n":
                i += 1
        else:
            out.append(text[i])
            i += 1
    return "".join(out)


def grep_audit():
    hits = []
    for root, dirs, files in os.walk(LEAN):
        if ".lake" in root:
            continue
        for f in files:
            if f.endswith(".lean"):
                p = os.path.join(root, f)
                for n, line in enumerate(strip_comments(open(p).read()).split("\n"), 1):
                    if FORBIDDEN.search(line):
                        hits.append("%s:%d: %s" % (os.path.relpath(p, VERIF), n, line.strip()[:120]))
    return hits


DECL = re.compile(r"^\s*(?:@\[[^\]]*\]\s*)?(?:private\s+|protected\s+)?(theorem|lemma)\s+([A-Za-z_][\w'.]*)", re.M)


def theorems_of(lean_file):
    """[(name, first_line, last_line)] of theorem declarations in a file (by text)"""
    txt = open(lean_file).read()
    clean = strip_comments(txt)
    ns = []
    # namespaces: track `namespace X` / `end X` textually
    decls = []
    lines = clean.split("\n")
    stack = []
    starts = []
    for n, line in enumerate(lines, 1):
        m = re.match(r"^\s*namespace\s+([\w.]+)", line)
        if m:
            stack.append(m.group(1))
            continue
        m = re.match(r"^\s*end\s+([\w.]+)\s*$", line)
        if m and stack and stack[-1] == m.group(1):
            stack.pop()
            continue
        m = DECL.match(line)
        if m:
            starts.append((n, ".".join(stack + [m.group(2)])))
    anydecl = re.compile(r"^\s*(?:@\[[^\]]*\]\s*)?(?:private\s+|protected\s+|noncomputable\s+)*(theorem|lemma|def|abbrev|example|instance|structure|inductive|namespace|end|section|open|#print|#eval)\b")
    for idx, (n, name) in enumerate(starts):
        last = len(lines)
        for k in range(n, len(lines)):
            if anydecl.match(lines[k]):
                last = k
                break
        decls.append((name, n, last))
    return decls


def error_lines(log, relfile):
    """line numbers of errors reported for a given file (path relative to lean/)"""
    out = []
    for m in re.finditer(r"error: (?:\./)?%s:(\d+):(\d+)" % re.escape(relfile), log):
        out.append(int(m.group(1)))
    return out


def print_axioms(module, names):
    """returns {name: [axioms]} via `lake env lean` on a scratch file; {} if the module has no olean"""
    scratch = os.path.join(VERIF, ".cache", "audit_%s_%d.lean" % (module.replace(".", "_"), os.getpid()))
    with open(scratch, "w") as f:
        f.write("import %s\n" % module)
        for n in names:
            f.write("#print axioms %s\n" % n)
    with LeanLock():
        r = sh(["lake", "env", "lean", scratch], cwd=LEAN)
    os.unlink(scratch)
    res = {}
    txt = r.stdout.replace("\n  ", " ").replace("\n ", " ")
    for m in re.finditer(r"'(\S+)' depends on axioms: \[([^\]]*)\]", txt):
        res[m.group(1)] = [a.strip() for a in m.group(2).split(",") if a.strip()]
    for m in re.finditer(r"'(\S+)' does not depend on any axioms", txt):
        res[m.group(1)] = []
    return res, r.stdout


def run_driver(lines, timeout=600):
    r = subprocess.run([DRIVER], input="\n".join(lines) + "\n", stdout=subprocess.PIPE, stderr=subprocess.PIPE,
                       text=True, timeout=timeout)
    if r.returncode != 0:
        raise RuntimeError("Lean driver failed: " + r.stderr[-2000:])
    return r.stdout.split("\n")


class DriverSession:
    """a Lean driver process kept alive across batches of multi-line requests: its engine cache (the (5,5) angular tables take
    20 s to build) then serves every batch of a check, not only one.  Responses are complete when as many `end` lines have come
    back as `begin` lines went in."""
    def __init__(self):
        self.p = None

    def _start(self):
        self.p = subprocess.Popen([DRIVER], stdin=subprocess.PIPE, stdout=subprocess.PIPE, stderr=subprocess.PIPE, text=True, bufsize=1)

    def run(self, lines, timeout=7200):
        import threading
        if self.p is None or self.p.poll() is not None:
            self._start()
        n = sum(1 for l in lines if l.startswith("begin "))
        p = self.p
        def feed():
            try:
                p.stdin.write("\n".join(lines) + "\n"); p.stdin.flush()
            except BrokenPipeError:
                pass
        th = threading.Thread(target=feed, daemon=True); th.start()
        out, ends, t0 = [], 0, time.time()
        while ends < n:
            l = p.stdout.readline()
            if not l:
                err = p.stderr.read()[-2000:] if p.stderr else ""
                self.p = None
                raise RuntimeError("Lean driver ended after %d of %d requests: %s" % (ends, n, err))
            l = l.rstrip("\n")
            out.append(l)
            if l == "end":
                ends += 1
            if time.time() - t0 > timeout:
                p.kill(); self.p = None
                raise RuntimeError("Lean driver timed out")
        th.join()
        return out

    def close(self):
        if self.p is not None and self.p.poll() is None:
            try:
                self.p.stdin.close(); self.p.wait(timeout=5)
            except Exception:
                self.p.kill()
        self.p = None


def known_findings():
    p = os.path.join(VERIF, "known_findings.json")
    if not os.path.exists(p):
        return {"findings": [], "fixed": []}
    return json.load(open(p))


class ImplCrash(Exception):
    """the real code crashed (signal / abort) on a concrete input; payload identifies it"""
    def __init__(self, msg, payload):
        Exception.__init__(self, msg)
        self.payload = payload


class Ctx:
    def __init__(self, pid, tier=None, seed=None):
        self.pid = pid
        self.tier = tier or os.environ.get("VERIF_TIER", "quick")
        if self.tier not in ("quick", "thorough"):
            self.tier = "quick"
        self.seed = int(seed if seed is not None else os.environ.get("VERIF_SEED", "0") or 0)
        self.t0 = time.time()
        self.obligations = []  # (name, ok, detail)
        self.coverage = {}
        self.samples = []
        self.assumptions = []
        self.trusted = list(TRUSTED_BASE)
        self.violations = []  # dicts
        self.known_lines = []
        self.broken = []  # names of theorems / ties that no longer check
        self.checker_cmds = []
        self.notes = []

    # ---- bookkeeping
    def log(self, *a):
        print("[%s %6.1fs]" % (self.pid, time.time() - self.t0), *a, flush=True)

    def obligation(self, name, ok, detail=""):
        self.obligations.append((name, bool(ok), detail))
        if not ok:
            self.broken.append(name)
            self.log("OBLIGATION FAILED:", name, detail[:300])

    def sample(self, s):
        if len(self.samples) < 12:
            self.samples.append(s)

    def count(self, key, n=1):
        self.coverage[key] = self.coverage.get(key, 0) + n

    # ---- Lean
    def lean_props(self, module, extra_targets=("driver",), extra_modules=()):
        """build Ecpint.Props.<module>, record one obligation per theorem, audit axioms.
        returns True when everything in the module checks."""
        relfile = "Ecpint/Props/%s.lean" % module
        full = "Ecpint.Props.%s" % module
        t = time.time()
        ok, log = lake_build([full] + list(extra_targets))
        self.checker_cmds.append("cd /verif/lean && lake build %s" % full)
        self.log("lake build %s: %s (%.1fs)" % (full, "ok" if ok else "FAILED", time.time() - t))
        decls = theorems_of(os.path.join(LEAN, relfile))
        errs = error_lines(log, relfile)
        # theorems of sub-modules the property module imports (e.g. Props/C12Cases/Part3.lean) are obligations too
        extra_decls = []
        for em in extra_modules:
            rf = em.replace(".", "/") + ".lean"
            ee = error_lines(log, rf)
            for name, a, bb in theorems_of(os.path.join(LEAN, rf)):
                extra_decls.append((name, rf, any(a <= e <= bb for e in ee)))
        other_fail = (not ok) and not errs and not any(error_lines(log, em.replace(".", "/") + ".lean") for em in extra_modules)
        if not ok:
            self.lean_log = log
            self.log(log[-3000:])
        names = [d[0] for d in decls] + [d[0] for d in extra_decls]
        ax = {}
        if ok:
            ax, raw = print_axioms(full, names)
            self.checker_cmds.append("lake env lean <#print axioms of every theorem in %s>" % full)
        good = True
        for name, a, b in decls:
            bad_here = any(a <= e <= b for e in errs) or other_fail
            detail = ""
            if bad_here:
                detail = "does not elaborate (see build log)" if not other_fail else "a dependency of the module does not build"
            elif ok:
                if name not in ax:
                    bad_here, detail = True, "no #print axioms output"
                elif not set(ax[name]) <= STD_AXIOMS:
                    bad_here, detail = True, "non-standard axioms: %s" % ax[name]
                else:
                    detail = "axioms: %s" % (", ".join(ax[name]) or "none")
            else:
                # the module failed elsewhere: this theorem elaborated but is not in an olean
                detail = "elaborated; module has errors elsewhere"
            self.obligation("theorem %s" % name, not bad_here, detail)
            good = good and not bad_here
        for name, rf, bad_here in extra_decls:
            detail = ""
            if bad_here or other_fail:
                bad_here, detail = True, "does not elaborate (see build log)" if bad_here else "the module does not build"
            elif ok:
                if name not in ax:
                    bad_here, detail = True, "no #print axioms output"
                elif not set(ax[name]) <= STD_AXIOMS:
                    bad_here, detail = True, "non-standard axioms: %s" % ax[name]
                else:
                    detail = "axioms: %s" % (", ".join(ax[name]) or "none")
            else:
                detail = "elaborated; another file of the module has errors"
            self.obligation("theorem %s (%s)" % (name, rf), not bad_here, detail)
            good = good and not bad_here
        if not ok and not errs and not any(d[2] for d in extra_decls):
            self.obligation("lake build %s" % full, False, log[-1500:])
            good = False
        elif not ok:
            # errors outside any theorem span (defs, examples)
            outside = [e for e in errs if not any(a <= e <= b for _, a, b in decls)]
            if outside:
                self.obligation("non-theorem declarations of %s" % relfile, False, "errors at lines %s" % outside)
            good = False
        hits = grep_audit()
        self.obligation("grep audit: no sorry/admit/axiom/native_decide/bv_decide/implemented_by/unsafe", not hits, "; ".join(hits[:5]))
        if self.tier == "thorough" and ok:
            with LeanLock():
                r = sh(["lake", "env", "leanchecker", full], cwd=LEAN)
            self.checker_cmds.append("lake env leanchecker %s" % full)
            self.obligation("leanchecker %s" % full, r.returncode == 0, r.stdout[-500:])
            good = good and r.returncode == 0
        return good and not hits

    # ---- violations
    def violation(self, kind, what, payload, found_input):
        """kind: failing-input | theorem-broken | translator-broken | correspondence-broken"""
        body = {"property": self.pid, "kind": kind, "what": what, "tier": self.tier, "seed": self.seed,
                "failing_input_found": bool(found_input), "no_longer_checks": list(self.broken),
                "replay_cmd": "cd /verif && ./check %s --replay <this file>" % self.pid}
        body.update(payload)
        txt = json.dumps(body, indent=1, sort_keys=True, default=str)
        h = hashlib.sha256(txt.encode()).hexdigest()[:12]
        d = os.path.join(VERIF, "replays", self.pid)
        os.makedirs(d, exist_ok=True)
        path = os.path.join(d, "%s.json" % h)
        with open(path, "w") as f:
            f.write(txt)
        self.violations.append({"path": path, "found": bool(found_input), "what": what})
        return path

    def known(self, text):
        self.known_lines.append(text)

    def finish(self, level="proof", extra_cov=None):
        n_ob = len(self.obligations)
        n_ok = sum(1 for o in self.obligations if o[1])
        cov = dict(self.coverage)
        cov.update({
            "obligations": n_ob, "discharged": n_ok,
            "checker_cmd": " ; ".join(dict.fromkeys(self.checker_cmds)) or "none",
            "trusted_base": self.trusted,
            "obligation_list": [{"name": o[0], "ok": o[1], "detail": o[2][:400]} for o in self.obligations],
            "samples": self.samples or ["(none)"],
        })
        if extra_cov:
            cov.update(extra_cov)
        # one line per LISTED finding of this property: those this run's sample hit (with counts and an example), and those it
        # did not hit (said so; the recorded example is in known_findings.json).  Nothing is ever added to the file here.
        if not self.violations or True:
            listed = [f for f in known_findings().get("findings", []) if f.get("property") == self.pid]
            for f in listed:
                if not any(k.startswith(f["id"]) or (f["id"] in k.split(":")[0]) for k in self.known_lines):
                    self.known_lines.append("%s: listed finding, not hit by this run's sample (seed %s, tier %s); recorded example: %s" % (
                        f["id"], self.seed, self.tier, " ".join(f.get("text", "").split())[-260:]))
        ev = {"property_id": self.pid, "tier": self.tier, "seed": self.seed, "level": level,
              "coverage": cov, "assumptions": self.assumptions, "wall_s": round(time.time() - self.t0, 2),
              "violations": len(self.violations), "known_findings_reported": self.known_lines,
              "notes": self.notes}
        if not getattr(self, "replay", None):
            os.makedirs(os.path.join(VERIF, "evidence"), exist_ok=True)
            with open(os.path.join(VERIF, "evidence", "%s.json" % self.pid), "w") as f:
                json.dump(ev, f, indent=1, default=str)
        for k in self.known_lines:
            print("KNOWN-FINDING: property=%s %s" % (self.pid, k))
        for v in self.violations:
            print("VIOLATION property=%s replay=%s%s" % (self.pid, v["path"], "" if v["found"] else " no-failing-input-found"))
        sys.stdout.flush()
        if self.violations:
            return 1
        print("OK property=%s tier=%s obligations=%d/%d wall=%.1fs" % (self.pid, self.tier, n_ok, n_ob, time.time() - self.t0))
        return 0
