"""Shared machinery of the shell-pair checks (C01, C06, C07, C08, C09): translators feeding the pair model, the
correspondence run (real compute_shell_pair vs the Lean pipeline model, bit for bit, with counterfactual switch
settings answered by the model only), generators for shells / ECPs / geometries, and the brute-force oracle."""
import json, math, os, random, struct, subprocess, sys
from . import core, build

sys.path.insert(0, core.VERIF)
from translate import constants, powfns, radialcases, qclasses, gammatable
from translate.util import TranslateError

PAIR_LINK = ["-Wl,--wrap=erf", "-Wl,--wrap=_ZN8Faddeeva6DawsonEd"]
DEFAULT_SW = "1 1 1 1 1 0"
# counterfactual settings of the model (tailCut closedForms radialScreen pairScreen prescreen finest)
SW = {
    "code": DEFAULT_SW,
    "no-tail-cut": "0 1 1 1 1 0",
    "no-screens": "1 1 0 0 0 0",           # every screen off (closed forms keep their place: they are not screens)
    "no-radial-screen": "1 1 0 1 1 0",
    "no-pair-screen": "1 1 1 0 1 0",
    "no-prescreen": "1 1 1 1 0 0",
    "no-radial-screen+no-pair-screen": "1 1 0 0 1 0",
    "no-radial-screen+no-prescreen": "1 1 0 1 0 0",
    "no-pair-screen+no-prescreen": "1 1 1 0 0 0",
    "no-tail-cut-no-screens": "0 1 0 0 0 0",
    "finest-level": "1 1 1 1 1 1",          # adaptive quadratures never accept a level early (radial tolerance 0)
    "no-tail-cut-finest-level": "0 1 1 1 1 1",
    "no-tail-cut+no-radial-screen": "0 1 0 1 1 0",
    "quadrature-only-finest": "0 0 0 1 1 1",  # every recorded radial finding switched off at once
    "quadrature-only": "0 0 0 1 1 0",       # every primitive radial integral by quadrature (no closed forms, no tail cut, no radial screen)
}


def unhex(s):
    return struct.unpack(">d", bytes.fromhex(s))[0]


def regen(ctx, b):
    """run every translator the pair model depends on; returns (ok, classes)"""
    ok, classes = True, None
    for label, fn, gen in (("radialcases.py", lambda: radialcases.translate(), "RadialCases.lean"),
                           ("constants.py", lambda: constants.translate(), "Constants.lean"),
                           ("powfns.py", lambda: powfns.translate(), "PowFns.lean"),
                           ("gammatable.py", lambda: gammatable.translate(), "GammaTable.lean"),
                           ("qclasses.py (generated classes of the working tree's build)", lambda: qclasses.translate(b, 5), "QClasses.lean")):
        try:
            r = fn()
            core.write_if_changed(os.path.join(core.LEAN, "Ecpint", "Gen", gen), r[0])
            if gen == "QClasses.lean":
                classes = r[2]
                core.write_if_changed(os.path.join(core.LEAN, "Ecpint", "Gen", "QTerms.lean"), classes["__terms_lean__"])
            ctx.obligation("translator " + label, True, json.dumps(r[1])[:200] if len(r) > 1 else "")
        except TranslateError as e:
            ctx.obligation("translator " + label, False, str(e))
            ok = False
    return ok, classes


# ---------------------------------------------------------------- inputs

def fmt_ecp(U):
    return "ecp %r %r %r %d %s" % (U["c"][0], U["c"][1], U["c"][2], len(U["prims"]), " ".join("%d %d %r %r" % tuple(p) for p in U["prims"]))


def fmt_shell(s):
    return "shell %d %r %r %r %d %s" % (s["l"], s["c"][0], s["c"][1], s["c"][2], len(s["prims"]), " ".join("%r %r" % tuple(p) for p in s["prims"]))


def fmt_case(c):
    return "pair %d %d %d %d %d | %s | %s | %s" % (c["maxLB"], c["maxLU"], c.get("deriv", 0), c.get("sa", 0), c.get("sb", 0), fmt_ecp(c["ecp"]), fmt_shell(c["A"]), fmt_shell(c["B"]))


def rand_dir(rng):
    while True:
        v = [rng.gauss(0, 1) for _ in range(3)]
        n = math.sqrt(sum(x * x for x in v))
        if n > 1e-3:
            return [x / n for x in v]


def rand_shell(rng, l, centre, nprim=None, lo=0.08, hi=6.0):
    n = nprim or rng.choice([1, 1, 2, 3])
    prims = []
    for _ in range(n):
        e = math.exp(rng.uniform(math.log(lo), math.log(hi)))
        c = rng.choice([-1, 1]) * math.exp(rng.uniform(math.log(0.05), math.log(2.0)))
        prims.append([e, c])
    return {"l": l, "c": list(centre), "prims": prims}


def rand_ecp(rng, L, centre, lo=0.1, hi=8.0, local=True, per_l=None):
    prims = []
    for l in range(L + 1):
        k = per_l or rng.choice([1, 1, 2])
        for _ in range(k):
            n = rng.choice([0, 1, 2, 2])
            a = math.exp(rng.uniform(math.log(lo), math.log(hi)))
            d = rng.choice([-1, 1]) * math.exp(rng.uniform(math.log(0.2), math.log(20.0)))
            if l == L and not local:
                d = 0.0
            prims.append([n, l, a, d])
    return {"c": list(centre), "prims": prims}


def place(rng, centre, kind, rmin=0.2, rmax=2.5):
    """a shell centre relative to the ECP centre: `on` (coincident), `axis` (on a coordinate axis), `plane`, `general`"""
    if kind == "on":
        return list(centre)
    if kind == "near":     # between the on-centre threshold (1e-6) and ordinary distances
        r = 10 ** rng.uniform(-6, -2) * rng.choice([1.0, 1.0, 1.0, 0.5])
        d = rand_dir(rng)
        return [centre[i] + r * d[i] for i in range(3)]
    r = math.exp(rng.uniform(math.log(rmin), math.log(rmax)))
    if kind == "zaxis":    # on the z axis through the ECP: polar cosines are +-1 up to rounding, azimuths undefined
        return [centre[0], centre[1], centre[2] + rng.choice([-1, 1]) * math.exp(rng.uniform(math.log(rmin), math.log(rmax)))]
    if kind in ("nearz", "nearaxis"):
        # ALMOST on a coordinate axis through the ECP (1e-7 .. 1e-3 rad off): where a shortcut for "on the axis" with a tolerance
        # fires although the transverse components still matter
        ax = 2 if kind == "nearz" else rng.randrange(3)
        eps = 10 ** rng.uniform(-7, -3)
        ph = rng.uniform(0, 2 * math.pi)
        d = [eps * math.cos(ph), eps * math.sin(ph), eps * math.cos(ph)]
        d[ax] = rng.choice([-1.0, 1.0])
        d[(ax + 1) % 3], d[(ax + 2) % 3] = eps * math.cos(ph), eps * math.sin(ph)
        return [centre[i] + r * d[i] for i in range(3)]
    if kind == "zplane":   # exactly in the plane z = z(ECP) (a planar molecule in the xy plane): the z component of the offset is 0.0
        ph = rng.uniform(0, 2 * math.pi)
        return [centre[0] + r * math.cos(ph), centre[1] + r * math.sin(ph), centre[2]]
    if kind == "axis":
        ax = rng.randrange(3); s = rng.choice([-1, 1])
        d = [0.0, 0.0, 0.0]; d[ax] = s
    elif kind == "plane":
        ax = rng.randrange(3); d = rand_dir(rng); d[ax] = 0.0
        n = math.sqrt(sum(x * x for x in d)) or 1.0
        d = [x / n for x in d]
    else:
        d = rand_dir(rng)
    return [centre[i] + r * d[i] for i in range(3)]


# ---------------------------------------------------------------- running

class PairRun:
    def __init__(self, case, req, nA, nB, bits):
        self.case, self.req, self.nA, self.nB, self.bits = case, req, nA, nB, bits
        self.vals = [unhex(x) for x in bits]
        self.model = {}        # switch name -> list of bit strings
        self.warn = (0, 0)
        self.screens = None    # per-l screening estimates of the real estimate_type2 (bit strings)
        self.screens_model = None
        self.screens_differ = False

    def maxabs(self):
        return max([abs(v) for v in self.vals] + [0.0])

    def coef_scale(self):
        c = self.case
        return sum(abs(p[1]) for p in c["A"]["prims"]) * sum(abs(p[1]) for p in c["B"]["prims"]) * max(sum(abs(p[3]) for p in c["ecp"]["prims"]), 0.0)


def pair_driver(b, variant_extra=()):
    return build.compile_driver(b, "corr_pair.cpp", extra=PAIR_LINK + list(variant_extra))


def run_real(drv, cases, env=None, noscreen=False):
    res = subprocess.run([drv], input=("noscreen 1\n" if noscreen else "") + "\n".join(fmt_case(c) for c in cases) + "\n", stdout=subprocess.PIPE, stderr=subprocess.PIPE, text=True, env=env)
    if res.returncode != 0:
        done = sum(1 for l in res.stdout.split("\n") if l.startswith("< V"))
        if done < len(cases):
            c = cases[done]
            raise core.ImplCrash("compute_shell_pair crashed (exit %d) on LA=%d, LB=%d, ECP L=%d, %s: %s" % (
                res.returncode, c["A"]["l"], c["B"]["l"], max(p[1] for p in c["ecp"]["prims"]), "/".join(map(str, c.get("kind", []))), res.stderr[-300:]),
                {"case": c, "request": fmt_case(c), "noscreen": noscreen})
        raise RuntimeError("corr_pair crashed (%d): %s" % (res.returncode, res.stderr[-800:]))
    runs, cur = [], []
    i = 0
    warn = (0, 0)
    scr = None
    for l in res.stdout.split("\n"):
        if l.startswith("> "):
            cur.append(l[2:])
        elif l.startswith("< S"):
            scr = l.split()[2:]
        elif l.startswith("< W"):
            t = l.split()
            warn = (int(t[2]), int(t[3]))
        elif l.startswith("< V"):
            t = l.split()
            runs.append(PairRun(cases[i], cur, int(t[2]), int(t[3]), t[4:]))
            # how often the library itself reported a quadrature that did not converge during this call
            # (type 1: "Failed to converge"; type 2 on-centre: "Failed at second attempt")
            runs[-1].warn = warn
            runs[-1].screens = scr
            scr = None
            warn = (0, 0)
            cur = []; i += 1
    if len(runs) != len(cases):
        raise RuntimeError("corr_pair answered %d of %d requests" % (len(runs), len(cases)))
    return runs


_SESSION = core.DriverSession()
import atexit
atexit.register(_SESSION.close)


def run_model(runs, switches=("code",), timeout=7200):
    """ask the Lean driver for the block of every run under every named switch setting.  One driver process serves every call of a
    check (core.DriverSession): the driver is single-threaded and building the (5,5) engine costs 20 s, which several processes
    side by side would each pay again."""
    return _run_model_chunk(list(runs), switches, timeout)


def _run_model_chunk(runs, switches=("code",), timeout=7200):
    lines = []
    for r in runs:
        for l in r.req:
            if l.startswith("sw "):
                for s in switches:
                    lines.append("sw " + (l[3:] if s == "as-run" else SW[s]))
            else:
                lines.append(l)
    out = [l for l in _SESSION.run(lines, timeout=timeout) if l.startswith("V ") or l.startswith("bad") or l.startswith("S ") or l == "S"]
    k = 0
    for r in runs:
        if "screens" in r.req and k < len(out) and out[k].startswith("S"):
            r.screens_model = out[k].split()[1:]
            r.screens_differ = r.screens is not None and not same_bits(r.screens, r.screens_model)
            k += 1
        for s in switches:
            if k >= len(out) or not out[k].startswith("V "):
                r.model[s] = None
                if k < len(out) and out[k].startswith("bad"):
                    k += 1
                    break
            else:
                t = out[k].split()
                r.model[s] = t[3:] if (int(t[1]), int(t[2])) == (r.nA, r.nB) else None
                # the model as the code runs it must also reproduce the screening estimates bit for bit
                if r.screens_differ and s in ("code", "as-run"):
                    r.model[s] = None
                k += 1
    return runs


def same_bits(a, b):
    if a is None or b is None or len(a) != len(b):
        return False
    for x, y in zip(a, b):
        if x != y:
            fx, fy = unhex(x), unhex(y)
            if not (fx != fx and fy != fy) and not (fx == 0.0 and fy == 0.0):
                return False
    return True


# ---------------------------------------------------------------- oracle

def run_oracle(reqs, nproc=14, grid=None):
    """reqs: list of cases (dicts with ecp/A/B); returns list of (block list, err) or None"""
    if not reqs:
        return []
    py = "python3-vt"
    chunks = [reqs[i::nproc] for i in range(nproc)]
    procs = []
    for ch in chunks:
        if not ch:
            procs.append(None); continue
        p = subprocess.Popen([py, os.path.join(core.VERIF, "oracle", "pair.py")], stdin=subprocess.PIPE, stdout=subprocess.PIPE, stderr=subprocess.PIPE, text=True,
                             env=dict(os.environ, OMP_NUM_THREADS="1", OPENBLAS_NUM_THREADS="1", MKL_NUM_THREADS="1"))
        procs.append(p)
    outs = []
    import threading
    results = [None] * len(chunks)
    def work(i, p, ch):
        inp = "\n".join(json.dumps(dict({"ecp": c["ecp"], "A": c["A"], "B": c["B"]}, **({"grid": grid} if grid else {}))) for c in ch) + "\n"
        o, e = p.communicate(inp)
        if p.returncode != 0:
            raise RuntimeError("pair oracle failed: " + e[-500:])
        results[i] = [json.loads(l) for l in o.split("\n") if l.strip()]
    th = []
    for i, (p, ch) in enumerate(zip(procs, chunks)):
        if p is not None:
            t = threading.Thread(target=work, args=(i, p, ch)); t.start(); th.append(t)
    for t in th:
        t.join()
    out = [None] * len(reqs)
    for i, ch in enumerate(chunks):
        if results[i] is None and ch:
            raise RuntimeError("pair oracle produced no output")
        for j, r in enumerate(results[i] or []):
            out[i + j * nproc] = r
    return out


def lazy_attribute(items, attribution, usable=True):
    """Attribute deviations to recorded findings with counterfactual runs of the bit-exact model, one switch setting at a time and only
    for the items still unexplained (the settings are ordered so that the common findings come first).
    items: dicts with "runs" (tuple of PairRun), "defect" (function: list of blocks, one per run, as float lists -> float), "tol".
    Sets item["fid"] (finding id(s) joined by + or None) and item["table"] (setting -> defect).  Nothing is attributed when `usable` is
    false (a theorem or the correspondence is broken in this run: the model then says nothing about the code)."""
    for it in items:
        it["fid"], it["table"] = None, {}
    if not usable:
        return items
    for fid, sw in attribution:
        todo = [it for it in items if it["fid"] is None]
        if not todo:
            break
        flat = [r for it in todo for r in it["runs"]]
        flat.sort(key=lambda r: (r.case["maxLB"], r.case["maxLU"]))
        run_model(flat, (sw,))
        for it in todo:
            blocks = [r.model.get(sw) for r in it["runs"]]
            if any(b is None for b in blocks):
                continue
            d = it["defect"]([[unhex(x) for x in b] for b in blocks])
            it["table"][sw] = d
            if d <= it["tol"]:
                it["fid"] = fid
    return items
