"""Writes /verif/MANIFEST.json from the table below (single place to edit)."""
import json, os
HERE = os.path.dirname(os.path.abspath(__file__))
VERIF = os.path.dirname(HERE)

CHECKS = {
 "C02": dict(
    text="Lean theorems (Props/C02.lean + Lemmas/Deriv.lean) over Model/Deriv.lean for EVERY angular momentum, over any commutative ring: the Cartesian loops enumerate x^k y^l z^m with row N_INDEX(l,m); left_shell_derivative returns -a_q Q-[a-e_q] + 2 Q+[a+e_q] for every component, every row it reads is in range and a clamped row only meets a zero multiplier; compute_shell_pair_derivative's nine matrices in each centre-coincidence branch, the translational sum rule A+B+C=0 in every branch and additivity at coincident centres; the calculus identity d/dA[(x-A)^k exp(-a(x-A)^2)] (Mathlib HasDerivAt). N_INDEX is re-extracted from the header every run; the model is tied to the code by assembling the real engine's shifted-shell blocks in the compiled Lean driver and comparing QA, QB and the nine matrices with the real routines for all (LA,LB) <= 4 and all five branches (agreement is bitwise on the clean tree). Search: finite differences of compute_shell_pair w.r.t. each centre (median of three steps), sum rule.",
    note="Partial: the accuracy of the shifted-shell blocks themselves is C01's subject, and differentiation under the integral sign is taken from analysis; what is proved is that the routine combines the blocks as the derivative formula requires, for all L. Trusted: Lean kernel, translate/indexmaps.py, harness/corr_deriv.cpp (re-fetches the blocks through the public shift arguments with the documented coefficient scaling).",
    technique="Lean 4 proof of the derivative assembly for all L + translator-fed model + bitwise differential correspondence",
    design="3/C02"),
 "C03": dict(
    text="Lean theorems (Props/C03.lean) for EVERY angular momentum over any commutative ring: left_shell_second_derivative and mixed_second_derivative return the l-2/l/l+2 resp. (lA+-1, lB+-1) combinations for every component with every guard, clamp and zero-filled stand-in block only ever meeting a zero multiplier; the 45-matrix layout (jaas/jbbs from the source), the translational sum rules AC=-(AA+AB), BC=-(BB+BA), CC=AA+AB+BA+BB, irrelevance of the CC write order, and the conventions returned with a shell on the ECP centre (exactly the hypothesis C04's assembly theorem needs). Tie: indexmaps translator + correspondence of QAA, QBB, QAB and all 45 matrices for all (LA,LB) <= 3, five branches (bitwise on the clean tree). Search: finite differences of the analytic gradient, sum rules, symmetry of mixed partials.",
    note="Partial as C02: block accuracy is C01's subject. Trusted: Lean kernel, translate/indexmaps.py, harness/corr_deriv.cpp.",
    technique="Lean 4 proof of the second-derivative assembly for all L + translator-fed model + bitwise differential correspondence",
    design="3/C03"),
 "C10": dict(
    text="Lean theorems (Props/C10.lean + Lemmas/Conc.lean): Bernstein's theorem over a thread/memory model with an UNBOUNDED number of threads, arbitrary program lengths and ARBITRARY schedules - if no thread writes a location another reads or writes, no interleaving contains a conflicting pair of accesses, and after any finishing schedule every thread has read exactly what it reads alone (its result is bit-for-bit the serial one); the serial run is one of the schedules. `decide` over the extracted effect table shows the API operations (engine construction, the three const compute routines) are pairwise compatible and the compute routines have no write back door; a lemma carries the table to Bernstein's condition. The table is regenerated on every run from the linker's inventory of writable static storage, clang's AST of every library TU and a scan of the generated code. Dynamically, a ThreadSanitizer build of the working tree is driven by 2-16 threads sharing one engine and constructing private ones; results are compared bit for bit with a serial run.",
    note="Trusted: Lean kernel; translate/effects.py (pattern-based AST walk, cross-checked with nm); C++ const semantics and std::call_once/static-init semantics (one atomic step that happens-before later uses); ThreadSanitizer's happens-before analysis covers all schedules of the accesses that were executed. Performance/starvation and I/O interleaving on std::cerr are outside the model.",
    technique="Lean 4 proof of schedule independence (Bernstein) + decide over a translator-extracted effect table + ThreadSanitizer correspondence",
    design="3/C10"),
 "C12": dict(
    text="PARTIAL. The 63 closed-form `case` bodies, the generated classes' radial requests, the constants and the power functions are re-translated from the working tree on every run; the Lean radial model (closed forms, base-integral recursion, windowed 127-point quadrature with the early tail cut on top of the Bessel and quadrature models, the screening estimate) run at Float agrees BIT FOR BIT with the real RadialIntegral on value, estimate, quadrature and base integrals for every requested (N,l1,l2) x ECP power over the parameter regimes of the property (both sides of a*b = 0.002, small aA/bB, P2 = 0). Lean decides dispatch facts on the regenerated tables. The values themselves are checked against the mpmath integral of the definition (1e-6 rel + 1e-9 abs); every deviation is attributed with the bit-exact model's own trace (path, tail-cut index, arg-max) and counterfactuals (no tail cut, finest quadrature level, the translated formula in 60-digit arithmetic) to one of four recorded findings - anything else is a violation. This machinery found, and the repository now carries the repair of, a wrong closed-form case (10110).",
    note="Not proved: recurrences = integrals (literature); conditioning and quadrature accuracy in doubles (recorded findings tailcut-left-end, closed-form-conditioning, estimate-not-a-bound, quadrature-premature-acceptance). Dawson and erf are external functions whose values the harness hands to the model. Trusted: Lean kernel, the four translators, harness/corr_radial.cpp, oracle/radial.py and oracle/radial_cases.py (mpmath).",
    technique="translator-regenerated Lean model, bitwise correspondence at Float, mpmath oracle with trace-predicate known findings; Lean decide on dispatch tables",
    design="3/C12"),
 "C13": dict(
    text="PARTIAL. The Lean model of uklm/Pijk/makeW/makeOmega (entry by entry, including which of the four overlapping symmetric stores of makeOmega writes last) and of realSphericalHarmonics, run at Float, agrees BIT FOR BIT with the real tables: every stored entry for small (LB,LE), parity-aware samples (tens of thousands, mostly non-zero entries) for the large ones up to (5,5), harmonics at poles, axes and random directions up to l = 12. Lean proves parity/structure facts of the model. That the entries ARE the sphere integrals is checked on the implementation against an independent product quadrature (Gauss-Legendre x trapezoid, scipy Legendre functions; exact for these polynomial degrees) at 1e-12, together with orthonormality of the evaluator's harmonics.",
    note="Not proved in Lean: identification of the tables with the sphere integrals (the monomial formula is classical). Trusted: Lean kernel, harness/corr_angular.cpp, numpy/scipy.",
    technique="bitwise model/implementation correspondence at Float + independent sphere-quadrature oracle; Lean structural lemmas",
    design="3/C13"),
 "C14": dict(
    text="PARTIAL. Lean theorems (Props/C14.lean) on the structure of the evaluators: the regimes partition the arguments; the table row exists and the Taylor step is at most half a spacing; the all-orders and the single-order evaluator compute the same thing in the large-argument and table regimes and known closed forms (which differ for l>=2, below 1e-7^l) in the small regime; both large-argument loops are the asymptotic polynomial; the derivative tables use the coefficients of the Bessel recurrence; the Taylor remainder budget holds for TAYLOR_CUT and the table size as they are now (constants re-extracted every run). The Lean model, run at Float in the compiled driver, agrees BIT FOR BIT with the real BesselFunction on table rows, both evaluators and upper_bound at grid nodes, midpoints, both sides of 1e-7 and 16 and random arguments for l <= 15 - so the theorems are about the function the code computes. Accuracy itself (abs 1e-12 against mpmath's I_{l+1/2} at 40 digits) is checked on the implementation, not proved.",
    note="Not proved: that the series/recurrence/asymptotic form ARE e^{-z} i_l(z) and the derivative bound in the budget (Mathlib has no Bessel functions); rounding. Trusted: Lean kernel, translate/constants.py, harness/corr_bessel.cpp, oracle/bessel.py (mpmath), the platform libm's exp being the same in both drivers.",
    technique="Lean 4 structural theorems + bitwise model/implementation correspondence at Float + mpmath oracle",
    design="3/C14"),
 "C15": dict(
    text="PARTIAL. Lean theorems (Props/C15.lean) for every grid size: the trigonometric recurrence yields sin/cos of the equally spaced angles and mirrored nodes are consistent (so the grid is the Perez-Jorda rule); sumTerms visits, at each level of the one-point scheme, exactly the odd multiples of the stride - the new nodes of the doubled rule - and the levels plus the midpoint use every node once; the two-point scheme visits the multiples = +-1 mod 6; all indices are in range; the linear window map is the change of variables it claims and the half-line map has the derivative put on the weights. The Lean model run at Float agrees BIT FOR BIT with the real GCQuadrature (abscissae, weights, both transforms, value and convergence flag, every admissible grid size, both schemes, sub-ranges). Whether 'converged' implies the stated accuracy is checked on the implementation against mpmath, not proved; the one way it fails on the unchanged tree is a recorded finding (premature-acceptance) recognised by a trace predicate with counterfactual.",
    note="Not proved: Perez-Jorda's acceptance heuristic implies the error bound. Tolerance used: sqrt(tol|I|)+1e-12 as stated plus 1e-13|I| for unavoidable rounding of the node sum. Grid sizes below 7 are not generated (maxN=1 makes integrate read an unset local; the library never asks for it). Trusted: Lean kernel, harness/corr_quad.cpp, mpmath.",
    technique="Lean 4 structural theorems + bitwise model/implementation correspondence at Float + mpmath oracle with known-finding trace predicate",
    design="3/C15"),
 "C16": dict(
    text="Kernel-checked (decide +kernel, no axioms) over the WHOLE shipped table - 6 sets, 121 element definitions, 2144 primitives, exact decimals: every XML file is exactly the MOLPRO-convention reading of its raw source (elements, ncore, maxl, per shell lval/nexp, per primitive n/x/c; local part first at l=maxl; spin-orbit blocks dropped) and is well formed for the build. The data, the pow_n functions and the constants are regenerated from /repo on every run. Every shipped element is loaded by the real addECP_from_file and compared with the Lean loader/evaluator model (fields exact, evaluator 1e-13 at 10 radii per l) and, independently, with a Python oracle built straight from the raw files.",
    note="Trusted: Lean kernel; translate/ecpdata.py (own MOLPRO tokenizer, xml.etree), powfns.py, constants.py; harness/corr_ecp.cpp; pugixml/stod deliver the attribute values correctly rounded; std::sort modelled as any l-ordered permutation.",
    technique="Lean 4 decide +kernel over the complete regenerated data table + loader/evaluator model + exhaustive differential correspondence",
    design="3/C16"),
 "C04": dict(
    text="Lean theorems (Props/C04.lean, 56 obligations) over the assembly model Model/Api.lean, generic in the block type, for EVERY number of atoms and every placement of (shell A, shell B, ECP) on atoms: H_START packs the Hessian exactly as documented (closed form, bounds, injectivity); matrix 3n+q of the first-derivative list receives exactly the derivatives of the centres on atom n; the matrix at the documented position of (a,b,p,q) receives exactly the sum over centres X on a, Y on b of d2/dX_p dY_q - all five branches, ixes/back_ixes/jxes, transposed reads. H_START and the index arrays are re-extracted from the source on every run; the model is tied to the code by assembling the real engine's per-triple blocks in the compiled Lean driver and comparing with ECPIntegrator's own matrices at 1e-13 over systems reaching every coincidence pattern in both orders. Atom numbering, list lengths, shape and symmetry are checked on the implementation directly; finite differences w.r.t. moving whole atoms are the fallback search.",
    note="Trusted: Lean kernel; translate/indexmaps.py; harness/corr_api.cpp (restates the distance-screen threshold to tell the model which (shell,ECP) pairs are kept); block-wise action of the element loops on disjoint index ranges is validated by the correspondence, not proved. The values of the per-triple blocks are inputs (C01-C03). Generated systems keep atoms >= 1 bohr apart with bit-identical centres per atom.",
    technique="Lean 4 proof of the scatter/packing for all atom counts + translator-fed model + differential correspondence at 1e-13",
    design="3/C04"),
 "C17": dict(
    text="Lean theorems (Props/C17.lean) over an object/heap machine whose copy operations are defined from a table extracted from the class definitions by clang's AST on every run: (i) every copy operation of GaussianShell carries every attribute and re-points a local centre (decide on the table); (ii) the invariant 'a local-centre shell points at its own storage' holds in every heap reachable by ANY operation sequence; (iii) under it an operation on one object changes nothing observable of another and nothing dangles; (iv) copies show what the source shows; (v) the value classes have no raw-pointer member and every copy op mentions every member. Tied to the code by the translator and by driving real objects (address-level pointer classification, std::vector algorithms, value-class round trips; ASan+UBSan in the thorough tier).",
    note="Trusted: Lean kernel; translate/copysem.py (pattern walk over clang-14 JSON AST); harness/corr_copy.cpp. std::vector/std::sort are modelled as arbitrary compositions of element copy/assign/destroy; sharing a caller-owned buffer between copies of an external-pointer shell is by design; the integrator's shared_ptr engine is immutable after init().",
    technique="Lean 4 invariant proof by induction over operation sequences + clang-AST translator + differential correspondence",
    design="3/C17"),
 "C05": dict(
    text="Lean theorems (Props/C05.lean): for every call history the three result containers refine an abstract machine that only remembers the coordinates of the last compute; hence history independence, documented lengths and idempotent recompute for ALL histories. The container-preparation modes the theorems are about are re-extracted from api.cpp on every run, and the model's formal sums are compared with a real integrator driven through the same histories (exhaustive to length 3 quick / 5 thorough over 6-9 operations, random to length 40).",
    note="Trusted: Lean kernel; translate/apiinit.py; harness/corr_history.cpp and its comparison. Assumes coordinate updates keep the atom partition fixed at init(). The numbers a compute produces are abstracted to 'the fresh result at the current coordinates' (their content is C04).",
    technique="Lean 4 refinement proof (induction over histories) + translator-regenerated model + differential correspondence",
    design="3/C05"),
}

NOT_YET = "check not built yet (work in progress; see DESIGN.md section 3 for the plan)"

def main():
    props = [json.loads(l) for l in open(os.path.join(VERIF, "properties.jsonl"))]
    checks = []
    for pid, c in CHECKS.items():
        checks.append({
            "property_id": pid,
            "quick_cmd": "./check %s --tier quick" % pid,
            "thorough_cmd": "./check %s --tier thorough" % pid,
            "evidence_file": "/verif/evidence/%s.json" % pid,
            "replay_cmd_template": "./check %s --replay {path}" % pid,
            "engine": "lean-ecpint",
            "level_claimed": {"category": "proof", "text": c["text"], "design_ref": "DESIGN.md section " + c["design"]},
            "level_note": c["note"],
            "technique": c["technique"],
        })
    m = {
        "version": 1,
        "setup_cmd": "./setup.sh",
        "hooks": {"guard": "LIBECPINT_VERIF",
                  "enable": "vlib/build.py copies /repo's working tree and configures it with -DCMAKE_CXX_FLAGS='-O1 -DLIBECPINT_VERIF' (plus sanitizer flags per variant)",
                  "baseline_off_cmd": "cmake -G Ninja -S /repo -B /repo/_build && cmake --build /repo/_build && ctest --test-dir /repo/_build -j8 --timeout 900",
                  "source_commits": [], "add_only": True},
        "engines": [
            {"name": "lean-ecpint", "path": "/verif/lean", "serves_properties": sorted(CHECKS), "kind_free_text": "Lean 4 models (Ecpint/Model), translator output (Ecpint/Gen), property theorems (Ecpint/Props), compiled model driver (Driver)"},
            {"name": "corr-harness", "path": "/verif/harness", "serves_properties": sorted(CHECKS), "kind_free_text": "C++ drivers linked against a fresh build of /repo's working tree; line protocol shared with the Lean driver"},
            {"name": "translators", "path": "/verif/translate", "serves_properties": sorted(CHECKS), "kind_free_text": "source -> Lean data (Python)"},
        ],
        "checks": checks,
        "not_applicable": [{"property_id": p["id"], "reason": NOT_YET} for p in props if p["id"] not in CHECKS],
        "notes": "Every check: translators regenerate lean/Ecpint/Gen from /repo, lake build of the property module, axiom + grep audit, correspondence run against a fresh build of the working tree, failing-input search, known-findings filter (known_findings.json).",
    }
    json.dump(m, open(os.path.join(VERIF, "MANIFEST.json"), "w"), indent=1)

if __name__ == "__main__":
    main()
