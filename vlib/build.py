"""Build /repo's *current working tree* out of tree, cached by content hash.

The code generator of libecpint writes `qgen.hpp` into the *source* include
directory, so we never run cmake against /repo itself: the working tree is
copied (sources only, a few MB) into the cache and built there.

Variants:
  plain  : -O1 -g0 -DLIBECPINT_VERIF                      (correspondence drivers)
  asan   : -O0 -g1 -fsanitize=address,undefined           (C11, C17)
  tsan   : -O0 -g1 -fsanitize=thread                      (C10)
  (the unrolled generated files take 7-15 MINUTES each to compile with a sanitizer at -O1, seconds at -O0)
  nohook : -O1 -g0   (guard off; only used by self tests)
Extra cmake cache entries (MAX_L / MAX_UNROL) give further variants for C09.
"""
import hashlib, os, shutil, subprocess, sys, time, fcntl, json

HERE = os.path.dirname(os.path.abspath(__file__))
VERIF = os.path.dirname(HERE)
REPO = os.environ.get("VERIF_REPO", "/repo")
CACHE = os.path.join(VERIF, ".cache")
GUARD = "LIBECPINT_VERIF"

SRC_DIRS = ["src", "include", "external", "share", "cmake", "CMakeLists.txt"]

FLAGS = {
    "plain": "-O1 -g0 -D%s" % GUARD,
    "nohook": "-O1 -g0",
    "asan": "-O0 -g1 -fno-omit-frame-pointer -fsanitize=address,undefined -fno-sanitize-recover=all -D%s -D%s_BOUNDS" % (GUARD, GUARD),
    "tsan": "-O0 -g1 -fsanitize=thread -D%s" % GUARD,
}


def _files():
    out = []
    for d in SRC_DIRS:
        p = os.path.join(REPO, d)
        if os.path.isfile(p):
            out.append(p)
        else:
            for root, dirs, files in os.walk(p):
                dirs.sort()
                for f in sorted(files):
                    out.append(os.path.join(root, f))
    return out


def src_hash():
    h = hashlib.sha256()
    for f in _files():
        h.update(os.path.relpath(f, REPO).encode())
        h.update(b"\0")
        with open(f, "rb") as fh:
            h.update(fh.read())
        h.update(b"\0")
    return h.hexdigest()[:16]


class Build:
    def __init__(self, variant, srcdir, bdir, flags):
        self.variant = variant
        self.src = srcdir
        self.dir = bdir
        self.flags = flags
        self.lib = os.path.join(bdir, "src", "libecpint.a")
        self.faddeeva = os.path.join(bdir, "external", "Faddeeva", "libFaddeeva.a")
        self.gen_dir = os.path.join(bdir, "src", "generated")
        self.includes = [os.path.join(srcdir, "include"),
                         os.path.join(srcdir, "include", "libecpint"),
                         os.path.join(bdir, "include", "libecpint")]

    def cxx_args(self):
        return self.flags.split() + ["-std=gnu++17", "-DHAS_PUGIXML", "-fno-access-control"] + ["-I" + i for i in self.includes]

    def link_args(self):
        return [self.lib, self.faddeeva, "-lpugixml", "-lpthread"]


def _lock():
    os.makedirs(CACHE, exist_ok=True)
    fh = open(os.path.join(CACHE, ".lock"), "w")
    fcntl.flock(fh, fcntl.LOCK_EX)
    return fh


def _prune(keep_hash):
    """keep at most 3 source hashes (most recently used) in the cache"""
    root = os.path.join(CACHE, "build")
    if not os.path.isdir(root):
        return
    ents = []
    for d in os.listdir(root):
        p = os.path.join(root, d)
        try:
            ents.append((os.path.getmtime(os.path.join(p, ".used")), d))
        except OSError:
            ents.append((0, d))
    hashes = []
    for _, d in sorted(ents, reverse=True):
        h = d.rsplit("-", 1)[-1]
        if h not in hashes:
            hashes.append(h)
    keep = set(hashes[:3]) | {keep_hash}
    for _, d in ents:
        if d.rsplit("-", 1)[-1] not in keep:
            shutil.rmtree(os.path.join(root, d), ignore_errors=True)
    sroot = os.path.join(CACHE, "src")
    if os.path.isdir(sroot):
        for d in os.listdir(sroot):
            if d not in keep:
                shutil.rmtree(os.path.join(sroot, d), ignore_errors=True)


def build(variant="plain", max_l=None, max_unrol=None, log=None, base_dir=None):
    """returns a Build for the current working tree of /repo; raises on build failure"""
    h = src_hash()
    flags = FLAGS[variant]
    tag = variant
    cm = []
    if max_l is not None:
        tag += "_L%d" % max_l
        cm.append("-DLIBECPINT_MAX_L=%d" % max_l)
    if max_unrol is not None:
        tag += "_U%d" % max_unrol
        cm.append("-DLIBECPINT_MAX_UNROL=%d" % max_unrol)
    root = base_dir or CACHE
    # a configuration other than the default rewrites include/libecpint/qgen.hpp of its
    # source copy, so every (tag) gets its own source copy when max_l is given
    srcdir = os.path.join(root, "src", h if max_l is None else h + "_" + tag)
    bdir = os.path.join(root, "build", "%s-%s" % (tag, h))
    lk = _lock()
    try:
        b = Build(variant, srcdir, bdir, flags)
        stamp = os.path.join(bdir, ".ok")
        if os.path.exists(stamp) and os.path.exists(b.lib):
            open(os.path.join(bdir, ".used"), "w").write(str(time.time()))
            chk = os.path.join(bdir, "verif_checked_multiarr.hpp")
            if "_BOUNDS" in flags and os.path.exists(chk):
                b.flags = flags + " -D_GLIBCXX_ASSERTIONS -include " + chk
            return b
        if base_dir is None:
            _prune(h)
        if not os.path.isdir(srcdir):
            tmp = srcdir + ".tmp%d" % os.getpid()
            shutil.rmtree(tmp, ignore_errors=True)
            os.makedirs(tmp)
            for d in SRC_DIRS:
                s = os.path.join(REPO, d)
                if os.path.isdir(s):
                    shutil.copytree(s, os.path.join(tmp, d))
                else:
                    shutil.copy2(s, os.path.join(tmp, d))
            os.rename(tmp, srcdir)
        shutil.rmtree(bdir, ignore_errors=True)
        os.makedirs(bdir)
        t0 = time.time()
        if "_BOUNDS" in flags:
            # per-dimension index checks: a checked copy of multiarr.hpp regenerated from the working tree, force-included
            sys.path.insert(0, VERIF)
            from translate import boundscheck
            txt, _ = boundscheck.translate()
            chk = os.path.join(bdir, "verif_checked_multiarr.hpp")
            open(chk, "w").write(txt)
            flags = flags + " -D_GLIBCXX_ASSERTIONS -include " + chk
            b.flags = flags
        cmd = ["cmake", "-G", "Ninja", "-S", srcdir, "-B", bdir,
               "-DCMAKE_BUILD_TYPE=None", "-DCMAKE_CXX_FLAGS=" + flags,
               "-DCMAKE_C_FLAGS=-O1",
               "-DLIBECPINT_BUILD_TESTS=OFF", "-DLIBECPINT_BUILD_DOCS=OFF"] + cm
        lg = open(os.path.join(bdir, "build.log"), "w")
        r = subprocess.run(cmd, stdout=lg, stderr=subprocess.STDOUT)
        if r.returncode == 0:
            r = subprocess.run(["cmake", "--build", bdir, "-j", str(os.cpu_count() or 8)],
                               stdout=lg, stderr=subprocess.STDOUT)
        lg.close()
        if r.returncode != 0:
            tail = open(os.path.join(bdir, "build.log")).read()[-4000:]
            raise RuntimeError("build of /repo working tree failed (variant %s):\n%s" % (tag, tail))
        open(stamp, "w").write(json.dumps({"wall_s": time.time() - t0, "hash": h}))
        open(os.path.join(bdir, ".used"), "w").write(str(time.time()))
        return b
    finally:
        lk.close()


def compile_driver(b, source, extra=(), name=None):
    """compile a harness driver against build b, cached on (source text, lib hash, flags)"""
    src = os.path.join(VERIF, "harness", source) if not os.path.isabs(source) else source
    txt = open(src, "rb").read()
    hh = hashlib.sha256()
    hh.update(txt)
    # headers of the harness directory take part in the key
    for f in sorted(os.listdir(os.path.join(VERIF, "harness"))):
        if f.endswith(".hpp"):
            hh.update(open(os.path.join(VERIF, "harness", f), "rb").read())
    hh.update(b.dir.encode())
    hh.update(" ".join(extra).encode())
    key = hh.hexdigest()[:12]
    out = os.path.join(b.dir, "drv_%s_%s" % (name or os.path.splitext(os.path.basename(src))[0], key))
    if os.path.exists(out):
        return out
    cmd = ["g++"] + b.cxx_args() + ["-I" + os.path.join(VERIF, "harness")] + list(extra) + [src, "-o", out + ".tmp"] + b.link_args()
    r = subprocess.run(cmd, stdout=subprocess.PIPE, stderr=subprocess.STDOUT, text=True)
    if r.returncode != 0:
        raise RuntimeError("driver %s failed to compile against the working tree:\n%s" % (source, r.stdout[-4000:]))
    os.rename(out + ".tmp", out)
    return out


if __name__ == "__main__":
    v = sys.argv[1] if len(sys.argv) > 1 else "plain"
    t = time.time()
    b = build(v)
    print(b.dir, "%.1fs" % (time.time() - t))
