"""C12 - primitive radial integrals equal their defining one-dimensional integral.

proof   : lean/Ecpint/Props/C12.lean (dispatch totality over the requested triples, base-integral indexing, the
          closed-form cases against the recurrence).  PARTIAL: recurrences = integrals is literature; conditioning
          and quadrature accuracy in doubles are checked, not proved.
tie     : translators radialcases.py (the 63 `case` bodies), qclasses.py (what every generated class requests),
          constants.py, powfns.py - every run; correspondence: the Lean model at Float (closed forms, base integrals,
          windowed quadrature with tail cut, estimate) against the real RadialIntegral, BIT FOR BIT.
search  : mpmath integral of the definition (30 digits), tolerance 1e-6 rel + 1e-9 abs; every deviation is attributed
          with the model's own trace (path taken, tail-cut index, arg-max of the tabulated integrand) and
          counterfactuals (quadrature without the tail cut; the translated formula in 60-digit arithmetic).
"""
import json, math, os, random, struct, subprocess, sys
from concurrent.futures import ThreadPoolExecutor
sys.path.insert(0, os.path.join(os.path.dirname(os.path.abspath(__file__)), ".."))
from vlib import core, build
from translate import radialcases, qclasses, constants, powfns
from translate.util import TranslateError

REL, ABS = 1e-6, 1e-9


def unhex(s):
    return struct.unpack(">d", bytes.fromhex(s))[0]


def sample_params(rng, regime):
    lu = lambda lo, hi: 10 ** rng.uniform(math.log10(lo), math.log10(hi))
    if regime == "moderate":
        return dict(zeta=lu(0.1, 10), a=lu(0.05, 10), A=lu(0.3, 6), b=lu(0.05, 10), B=lu(0.3, 6))
    if regime == "full":
        return dict(zeta=lu(5e-2, 2e3), a=lu(1e-2, 1e4), A=lu(1e-6, 30), b=lu(1e-2, 1e4), B=lu(1e-6, 30))
    if regime == "switch":   # both sides of a*b = MIN_EXP
        a = lu(1e-2, 1)
        b = 0.002 / a * rng.choice([0.999, 1.001, 0.9, 1.1])
        return dict(zeta=lu(0.1, 5), a=a, A=lu(0.5, 8), b=max(b, 1e-2), B=lu(0.5, 8))
    if regime == "smallxy":  # a*A or b*B small
        return dict(zeta=lu(0.1, 50), a=lu(1e-2, 0.5), A=lu(1e-3, 0.5), b=lu(0.05, 5), B=lu(0.1, 3))
    if regime == "p2zero":   # P2 = (bB - aA)/p = 0
        a, A = lu(0.1, 5), lu(0.3, 4)
        b = lu(0.1, 5)
        return dict(zeta=lu(0.1, 10), a=a, A=A, b=b, B=a * A / b)
    if regime == "p2near":   # |P2| between 1e-9 and 1e-3: both sides of the |P2| < 1e-7 guard of the base integrals
        a, A = lu(0.1, 5), lu(0.3, 4)
        b = lu(0.1, 5)
        zeta = lu(0.1, 10)
        delta = rng.choice([-1, 1]) * lu(1e-9, 1e-3)
        return dict(zeta=zeta, a=a, A=A, b=b, B=max((a * A + delta * (zeta + a + b)) / b, 1e-6))
    if regime == "hardquad":  # quadrature path whose 127-point sequence runs out without meeting its absolute tolerance
        return dict(zeta=lu(0.05, 0.5), a=lu(0.3, 3), A=lu(2, 8), b=lu(0.3, 3), B=lu(2, 8))
    raise ValueError(regime)


def run_oracle(script, lines, nproc=16):
    chunks = [lines[i::nproc] for i in range(nproc)]
    def one(c):
        if not c:
            return []
        r = subprocess.run(["python3-vt", os.path.join(core.VERIF, "oracle", script)], input="\n".join(c) + "\n", stdout=subprocess.PIPE, stderr=subprocess.PIPE, text=True)
        out = r.stdout.split()
        if len(out) != len(c):
            raise RuntimeError("oracle %s failed: %s" % (script, r.stderr[-400:]))
        return out
    with ThreadPoolExecutor(nproc) as ex:
        res = list(ex.map(one, chunks))
    out = [None] * len(lines)
    for i, r in enumerate(res):
        for j, v in enumerate(r):
            out[i + j * nproc] = v
    return out


def explore(ctx):
    rng = random.Random(ctx.seed * 9001 + 12)
    quick = ctx.tier == "quick"
    b = build.build("plain")
    tr_ok = True
    cases = classes = None
    info = {}
    for label, fn, gen in (("radialcases.py (the closed-form `case` bodies)", lambda: radialcases.translate(), "RadialCases.lean"),
                           ("constants.py", lambda: constants.translate(), "Constants.lean"),
                           ("powfns.py", lambda: powfns.translate(), "PowFns.lean"),
                           ("qclasses.py (generated classes of the working tree)", lambda: qclasses.translate(b, 5), "QClasses.lean")):
        try:
            r = fn()
            core.write_if_changed(os.path.join(core.LEAN, "Ecpint", "Gen", gen), r[0])
            ctx.obligation("translator " + label, True, json.dumps(r[1])[:300])
            if gen == "RadialCases.lean":
                cases = r[2]
            if gen == "QClasses.lean":
                classes = r[2]
            if gen == "Constants.lean":
                info = r[1]
        except TranslateError as e:
            ctx.obligation("translator " + label, False, str(e))
            tr_ok = False
    case_modules = ["Ecpint.Props.C12Cases"] + ["Ecpint.Props.C12Cases.Part%d" % i for i in range(1, 10)] + ["Ecpint.Props.C12Cases.Closed"]
    proofs_ok = ctx.lean_props("C12All", extra_modules=["Ecpint.Props.C12"] + case_modules + ["Ecpint.Props.C12b"]) if tr_ok else False
    drv = build.compile_driver(b, "corr_radial.cpp", extra=["-I" + os.path.join(b.src, "external", "Faddeeva")])
    # what any generated class requests
    if classes is None:
        classes = qclasses.load(b)
    requested = {}
    for ck, c in classes.items():
        if ck == "__terms_lean__":
            continue
        for t in c["triplesA"] + c["triplesB"]:
            requested[t] = max(requested.get(t, 0), c["nbase"])
    trip = sorted(requested)
    case_keys = set(cases) if cases else set()
    reqs, meta = [], []
    def add(t, un, P, regime):
        N, l1, l2 = t
        reqs.append("prim %d %d %r %r %r %r %r %d %d %d" % (requested[t], un, P["zeta"], P["a"], P["A"], P["b"], P["B"], N, l1, l2))
        meta.append(dict(P, k=N + un + 2, l1=l1, l2=l2, N=N, un=un, nbase=requested[t], regime=regime))
    # every closed-form case at least once per run, every requested triple with every power in the thorough tier
    regimes = ["moderate", "p2near", "moderate", "full", "switch", "smallxy", "p2zero"]
    for t in trip:
        for un in (0, -1, -2):
            ijk = t[1] * 10000 + t[2] * 100 + t[0] + un + 2
            is_case = ijk in case_keys
            n = (2 if is_case else (1 if (hash((t, un, ctx.seed)) % 3 == 0) else 0)) if quick else (6 if is_case else 3)
            for r in range(n):
                reg = regimes[(r + t[0] + t[1] + ctx.seed) % len(regimes)]
                add(t, un, sample_params(rng, reg), reg)
    # large powers of r with diffuse ECP primitives a few bohr out: values of order 1..1e4 for which the primitive quadrature uses
    # all of its 127 points and still reports no convergence (the exhausted exit of the nested sequence); compared with the model
    # only - their accuracy is what the recorded findings are about
    hard = [t for t in trip if t[0] + 2 >= 8][-24:]
    n_main = len(reqs)
    for t in hard:
        add(t, 0, sample_params(rng, "hardquad"), "hardquad")
    res = subprocess.run([drv], input="\n".join(reqs) + "\n", stdout=subprocess.PIPE, stderr=subprocess.PIPE, text=True)
    if res.returncode != 0:
        raise RuntimeError("corr_radial crashed: %s" % res.stderr[-500:])
    L = res.stdout.split("\n")
    mreq = [l[2:] for l in L if l.startswith("> ")]
    real_blocks, cur = [], []
    for l in L:
        if l.startswith("< end"):
            real_blocks.append(cur); cur = []
        elif l.startswith("< "):
            cur.append(l[2:].split())
    model_blocks = []
    if os.path.exists(core.DRIVER):
        cur = []
        for l in core.run_driver(mreq, timeout=3600):
            if l == "end":
                model_blocks.append(cur); cur = []
            elif l:
                cur.append(l.split())
    corr_bad, n_cmp = [], 0
    paths = {}
    mismatch = set()     # requests on which model and code disagree: the model's trace says nothing about the code there
    for i, (rb, mb) in enumerate(zip(real_blocks, model_blocks)):
        rd = {x[0]: x for x in rb}
        md = {x[0]: x for x in mb}
        paths[md["R"][2]] = paths.get(md["R"][2], 0) + 1
        for key in ("R", "E", "Q", "V"):
            n = len(rd[key])
            n_cmp += n - 1
            if rd[key][:n] != md[key][:n]:
                # NaN payloads may differ; compare as numbers
                same = all(x == y or (len(x) == 16 and len(y) == 16 and unhex(x) != unhex(x) and unhex(y) != unhex(y)) for x, y in zip(rd[key][1:n], md[key][1:n]))
                if not same:
                    mismatch.add(i)
                    if len(corr_bad) < 5:
                        corr_bad.append({"request": reqs[i], "line": key, "code": rd[key][1:3], "model": md[key][1:3]})
    if model_blocks and len(model_blocks) != len(real_blocks):
        corr_bad.append({"what": "model answered %d of %d requests" % (len(model_blocks), len(real_blocks))})
    ctx.obligation("correspondence: Lean radial model = real RadialIntegral, bit for bit (value, estimate, quadrature, base integrals)", not corr_bad, json.dumps(corr_bad[:2]))
    # oracle on a subset
    n_or = min(n_main, 260 if quick else 6000)
    idx = sorted(rng.sample(range(n_main), n_or))
    refs = run_oracle("radial.py", [json.dumps({k: meta[i][k] for k in ("k", "l1", "l2", "zeta", "a", "A", "b", "B")}) for i in idx])
    fails = []
    for i, ref in zip(idx, refs):
        ref = float(ref)
        rd = {x[0]: x for x in real_blocks[i]}
        val = unhex(rd["R"][1])
        tol = REL * abs(ref) + ABS
        if not (abs(val - ref) <= tol):
            md = {x[0]: x for x in model_blocks[i]} if i < len(model_blocks) else {}
            f = dict(meta[i], request=reqs[i], returned=val, exact=ref, error=abs(val - ref), allowed=tol)
            if md and i not in mismatch:
                f.update(path=md["R"][2], cut=int(md["R"][3]) if md["R"][2] == "quad" else int(md["Q"][3]), nocut_value=unhex(md["N"][1]), nocut_converged=md["N"][2] == "1",
                         argmax=int(md["N"][3]), quad_value=unhex(md["Q"][1]), estimate=unhex(md["E"][1]), finest_value=unhex(md["F"][1]))
            f["what"] = "radial integral (k=%d, l1=%d, l2=%d; zeta=%.6g a=%.6g A=%.6g b=%.6g B=%.6g) returned %r, the defining integral is %r (path: %s)" % (
                f["k"], f["l1"], f["l2"], f["zeta"], f["a"], f["A"], f["b"], f["B"], val, ref, f.get("path"))
            fails.append(f)
    # 60-digit evaluation of the translated formula for the closed-path deviations
    cl = [f for f in fails if f.get("path") == "closed" and cases]
    if cl:
        lines = []
        for f in cl:
            ijk = f["l1"] * 10000 + f["l2"] * 100 + f["k"]
            lines.append(json.dumps({"ijk": ijk, "nbase": f["nbase"], "zeta": f["zeta"], "a": f["a"], "A": f["A"], "b": f["b"], "B": f["B"],
                                     "terms": [[t[3], t[2]] for t in cases[ijk]]}))
        for f, v in zip(cl, run_oracle("radial_cases.py", lines)):
            f["formula_60_digits"] = float(v)
    ctx.coverage.update({"requested_triples": len(trip), "closed_form_cases": len(case_keys), "primitive_requests": len(reqs),
                         "values_compared_bitwise": n_cmp, "traces_validated_against_impl": n_cmp, "paths": paths,
                         "oracle_integrals": len(idx), "oracle_deviations": len(fails)})
    ctx.sample({"request": reqs[0]})
    ctx.sample({"request": reqs[-1]})
    return fails, proofs_ok, corr_bad


def within(v, f):
    return v == v and abs(v - f["exact"]) <= f["allowed"]


def matches(k, f):
    """trace predicates + counterfactuals of the recorded findings (see known_findings.json)"""
    kid = k.get("id")
    if "path" not in f:
        return False
    if kid == "tailcut-left-end":
        # the early-termination rule of integrate_small fired BEFORE the largest tabulated value, and the very same
        # quadrature without that rule (counterfactual, run in the bit-exact model) is accurate
        return f["path"] == "quad" and f["cut"] <= f["argmax"] and (within(f["nocut_value"], f) or within(f["finest_value"], f))
    if kid == "closed-form-conditioning":
        # the closed form was used, its translated formula is RIGHT in 60-digit arithmetic, and the other branch
        # (quadrature, no tail cut) is accurate: the deviation is cancellation in doubles, not a wrong coefficient
        return f["path"] == "closed" and "formula_60_digits" in f and within(f["formula_60_digits"], f) and (within(f["nocut_value"], f) or within(f["finest_value"], f))
    if kid == "quadrature-premature-acceptance":
        # C15's recorded finding seen from here: the 127-point nested sequence was accepted at a coarse level; the tail cut is
        # not involved (it fired after the largest value) and the finest level of the same grid (tolerance 0) is accurate
        return f["path"] == "quad" and f["cut"] > f["argmax"] and not within(f["nocut_value"], f) and within(f["finest_value"], f)
    if kid == "estimate-not-a-bound":
        # the primitive was screened out by estimate_type2 <= tolerance although the integral is not negligible, and
        # forcing the quadrature (no tail cut) gives the accurate value
        return f["path"] == "screened" and abs(f["exact"]) > f["allowed"] and (within(f["nocut_value"], f) or within(f["finest_value"], f))
    return False


def main(ctx):
    fails, proofs_ok, corr_bad = explore(ctx)
    kf = [k for k in core.known_findings().get("findings", []) if k.get("property") == "C12"]
    new, attributed = [], {}
    for f in fails:
        m = next((k for k in kf if matches(k, f)), None)
        if m:
            attributed.setdefault(m["id"], []).append(f)
        else:
            new.append(f)
    for kid, fs in sorted(attributed.items()):
        ctx.known("%s: %d of the sampled integrals, e.g. %s" % (kid, len(fs), fs[0]["request"]))
    ctx.coverage["attributed_to_known_findings"] = {k: len(v) for k, v in attributed.items()}
    if new:
        new.sort(key=lambda f: -f["error"] / f["allowed"])
        ctx.violation("failing-input", new[0]["what"], {"input": new[0], "n_failing": len(new), "replay_note": "echo '<request>' | harness/corr_radial.cpp"}, True)
    elif ctx.broken:
        ctx.violation("theorem-broken" if not proofs_ok else "correspondence-broken", "C12 is no longer shown to hold: %s" % "; ".join(ctx.broken[:4]),
                      {"first_disagreement": corr_bad[:1]}, False)
    ctx.assumptions += ["the recurrences of Shaw & Hill (2017) hold for the defining integrals (literature)",
                        "Faddeeva::Dawson and std::erf are external functions whose values the harness passes to the model"]
    ctx.trusted += ["translate/radialcases.py, qclasses.py, constants.py, powfns.py; harness/corr_radial.cpp; oracle/radial.py and oracle/radial_cases.py (mpmath)"]
    return ctx.finish("proof")
