"""C01 - shell-pair ECP integrals equal the exact matrix elements.

proof   : lean/Ecpint/Props/C01.lean - structure of compute_shell_pair in the pipeline model: Cartesian enumeration,
          binomial shift (makeC) = (x - A)^a, loop index sets of the three contractions, parity strides, the closed
          form of the both-on-centre branch against the Gaussian moment integral, dependence on centre differences only.
          PARTIAL: that the published expansion equals the 3-D integral is literature; accuracy of the numerical
          stages in doubles is inherited from C12-C15 and checked, not proved.
tie     : translators radialcases / constants / powfns / gammatable / qclasses (every run); correspondence: the Lean
          pipeline model at Float (everything from the Bessel tables to the block) against the real
          ECPIntegral::compute_shell_pair, BIT FOR BIT, over every (LA, LB) pair, on/off-centre and axis geometries.
search  : oracle/pair.py - brute-force 3-D quadrature of the DEFINING integral (no expansion), with the property's own
          tolerance 2e-5 max|block| + 1e-9 sum|cA| sum|cB| sum|d|.  Every deviation is attributed with counterfactual
          runs of the bit-exact model (tail cut off, finest quadrature level, screens off, quadrature only).
"""
import json, math, os, random, sys
sys.path.insert(0, os.path.join(os.path.dirname(os.path.abspath(__file__)), ".."))
from vlib import core, build, pairlib as pl

REL, ABS = 2e-5, 1e-9
KINDS = [("general", "general"), ("on", "general"), ("general", "on"), ("on", "on"), ("axis", "plane"), ("plane", "axis"), ("axis", "axis"),
         ("near", "general"), ("general", "near"), ("near", "on"), ("zaxis", "zaxis"), ("on", "zaxis"),
         ("nearz", "general"), ("nearz", "nearz"), ("plane", "nearaxis"), ("nearz", "on"),
         ("general", "zplane"), ("zplane", "general"), ("zplane", "zplane")]
# counterfactuals tried in this order; the first that brings the block within tolerance names the finding(s)
ATTRIBUTION = [
    ("tailcut-left-end", "no-tail-cut"),
    ("closed-form-conditioning", "quadrature-only"),
    ("quadrature-premature-acceptance", "finest-level"),
    ("estimate-not-a-bound", "no-radial-screen"),
    ("tailcut-left-end+quadrature-premature-acceptance", "no-tail-cut-finest-level"),
    ("tailcut-left-end+estimate-not-a-bound", "no-tail-cut+no-radial-screen"),
    ("tailcut-left-end+closed-form-conditioning+estimate-not-a-bound+quadrature-premature-acceptance", "quadrature-only-finest"),
]


def tol_of(run):
    return REL * run.maxabs() + ABS * run.coef_scale()


def gen_cases(rng, quick, maxl):
    cases = []
    pairs = [(a, b) for a in range(maxl + 1) for b in range(maxl + 1)]
    reps = 1 if quick else 4
    for rep in range(reps):
        for (LA, LB) in pairs:
            L = 1 + (LA * 7 + LB * 3 + rep + rng.randrange(maxl)) % maxl if maxl > 0 else 0
            kind = KINDS[(LA + 2 * LB + rep + rng.randrange(len(KINDS))) % len(KINDS)]
            C = [rng.uniform(-1.5, 1.5) for _ in range(3)]
            U = pl.rand_ecp(rng, L, C, local=rng.random() < 0.85)
            A = pl.rand_shell(rng, LA, pl.place(rng, C, kind[0]))
            B = pl.rand_shell(rng, LB, pl.place(rng, C, kind[1]))
            cases.append(dict(maxLB=maxl, maxLU=maxl, ecp=U, A=A, B=B, kind=list(kind)))
    # smaller engines (other table sizes), same shell on both sides, far / tight / diffuse shells
    for (mb, mu) in ((2, 3), (3, 1)) if quick else ((1, 1), (2, 3), (3, 1), (3, 5), (4, 2)):
        for i_ in range(3 if quick else 8):
            LA, LB = rng.randint(0, mb), rng.randint(0, mb)
            C = [rng.uniform(-1, 1) for _ in range(3)]
            kind = rng.choice(KINDS)
            if i_ == 0:
                # the largest pair the engine supports, both shells off the ECP: the local part then needs Bessel orders up to LA + LB,
                # beyond maxLB + maxLU when the ECP's own angular momentum is small (tables sized from the wrong sum show only here)
                LA, LB, kind = mb, mb, ("general", "general")
            cases.append(dict(maxLB=mb, maxLU=mu, ecp=pl.rand_ecp(rng, rng.randint(1, mu), C), A=pl.rand_shell(rng, LA, pl.place(rng, C, kind[0])),
                              B=pl.rand_shell(rng, LB, pl.place(rng, C, kind[1])), kind=list(kind)))
    for _ in range(6 if quick else 40):
        LA, LB = rng.randint(0, min(3, maxl)), rng.randint(0, min(3, maxl))
        C = [0.0, 0.0, 0.0]
        U = pl.rand_ecp(rng, rng.randint(1, min(3, maxl)), C, lo=0.05, hi=30.0)
        A = pl.rand_shell(rng, LA, pl.place(rng, C, "general", 0.05, 4.0), lo=0.03, hi=20.0)
        B = pl.rand_shell(rng, LB, pl.place(rng, C, rng.choice(["general", "plane"]), 0.05, 4.0), lo=0.03, hi=20.0)
        cases.append(dict(maxLB=maxl, maxLU=maxl, ecp=U, A=A, B=B, kind=["wide", "wide"]))
    # mirror images about the ECP with a common exponent (X-M-X): the Gaussian product centre of that primitive pair is exactly the
    # ECP centre although neither shell is on it (dyadic coordinates, so that A - C = -(B - C) bit for bit)
    for _ in range(4 if quick else 24):
        LA, LB = rng.randint(0, min(3, maxl)), rng.randint(0, min(3, maxl))
        C = [round(rng.uniform(-1.5, 1.5) * 8) / 8 for _ in range(3)]
        d = [round(x * 1024) / 1024 for x in pl.place(rng, [0.0, 0.0, 0.0], rng.choice(["general", "axis", "zaxis"]))]
        U = pl.rand_ecp(rng, rng.randint(1, min(3, maxl)), C)
        A = pl.rand_shell(rng, LA, [C[i] + d[i] for i in range(3)])
        B = pl.rand_shell(rng, LB, [C[i] - d[i] for i in range(3)])
        B["prims"][0][0] = A["prims"][0][0]
        cases.append(dict(maxLB=maxl, maxLU=maxl, ecp=U, A=A, B=B, kind=["mirror", "mirror"]))
    # one shell exactly on the ECP, the other 1-3 bohr away with a tight primitive: the on-centre radial quadrature does not converge
    # on its small grid and falls back to the big one (a branch ordinary exponents never reach), in both argument orders
    for i_ in range(2 if quick else 12):
        LA, LB = rng.randint(0, min(2, maxl)), rng.randint(0, min(3, maxl))
        C = [rng.uniform(-1, 1) for _ in range(3)]
        U = pl.rand_ecp(rng, rng.randint(1, min(3, maxl)), C)
        on = pl.rand_shell(rng, LA, list(C))
        off = pl.rand_shell(rng, LB, pl.place(rng, C, "general", 1.0, 3.0))
        off["prims"][0][0] = 10 ** rng.uniform(1.3, 2.3)
        A, B = (on, off) if i_ % 2 == 0 else (off, on)
        cases.append(dict(maxLB=maxl, maxLU=maxl, ecp=U, A=A, B=B, kind=["on", "tight"] if i_ % 2 == 0 else ["tight", "on"]))
    cases.sort(key=lambda c: (c["maxLB"], c["maxLU"]))
    return cases


def oracle_ok(c):
    """the brute-force quadrature resolves exp(2 zeta A r cos) only up to moderate arguments: keep the oracle to inputs
    it can do (the rest of the range is covered by correspondence + the lower-level oracles of C12-C15)"""
    for s in (c["A"], c["B"]):
        d = math.sqrt(sum((s["c"][i] - c["ecp"]["c"][i]) ** 2 for i in range(3)))
        for e, _ in s["prims"]:
            if 2 * e * d * (d + 2.5 / math.sqrt(e)) > 45:
                return False
    return True


def attribute(run, ref, tol):
    """returns (finding id or None, table of errors per counterfactual)"""
    table = {}
    for fid, sw in ATTRIBUTION:
        m = run.model.get(sw)
        if m is None:
            continue
        err = max(abs(pl.unhex(x) - y) for x, y in zip(m, ref))
        table[sw] = err
    for fid, sw in ATTRIBUTION:
        if sw in table and table[sw] <= tol:
            return fid, table
    return None, table


def explore(ctx, cases=None):
    rng = random.Random(ctx.seed * 7919 + 1)
    quick = ctx.tier == "quick"
    b = build.build("plain")
    tr_ok, classes = pl.regen(ctx, b)
    proofs_ok = ctx.lean_props("C01", extra_modules=["Ecpint.Props.C01a", "Ecpint.Props.C01b", "Ecpint.Props.C01c", "Ecpint.Props.C01d", "Ecpint.Props.C01e", "Ecpint.Props.C01f", "Ecpint.Props.C01g", "Ecpint.Props.C12Cases"] + ["Ecpint.Props.C12Cases.Part%d" % i for i in range(1, 10)]) if tr_ok else False
    drv = pl.pair_driver(b)
    maxl = 5
    try:
        import re
        maxl = int(re.search(r"LIBECPINT_MAX_L\s*:?=?\s*(\d+)", open(os.path.join(core.LEAN, "Ecpint", "Gen", "Constants.lean")).read()).group(1))
    except Exception:
        pass
    if cases is None:
        cases = gen_cases(rng, quick, maxl)
    runs = pl.run_real(drv, cases)
    nonfinite = [r for r in runs if any(v != v or abs(v) == float("inf") for v in r.vals)]
    corr_bad = []
    if os.path.exists(core.DRIVER):
        pl.run_model(runs, ("code",))
        for r in runs:
            if not pl.same_bits(r.bits, r.model.get("code")):
                m = r.model.get("code")
                nd = sum(1 for x, y in zip(r.bits, m or []) if x != y)
                corr_bad.append({"case": pl.fmt_case(r.case), "differing_entries": nd if m else "model gave no block",
                                 "max_difference": max([abs(pl.unhex(x) - pl.unhex(y)) for x, y in zip(r.bits, m)] + [0]) if m else None})
    ctx.obligation("correspondence: Lean pipeline model = real compute_shell_pair, bit for bit (%d blocks, %d values)" % (len(runs), sum(len(r.bits) for r in runs)),
                   not corr_bad, json.dumps(corr_bad[:2]))
    ctx.coverage.update({"blocks": len(runs), "values_compared_bitwise": sum(len(r.bits) for r in runs),
                         "classes_LA_LB": len({(r.case["A"]["l"], r.case["B"]["l"]) for r in runs}),
                         "geometry_kinds": sorted({"/".join(r.case.get("kind", ["?"])) for r in runs}),
                         "traces_validated_against_impl": len(runs)})
    # oracle
    cand = [r for r in runs if oracle_ok(r.case)]
    if quick and len(cand) > 60:
        keep = set(rng.sample(range(len(cand)), 60))
        cand = [r for i, r in enumerate(cand) if i in keep]
    refs = pl.run_oracle([r.case for r in cand])
    fails, unresolved = [], 0
    for r, o in zip(cand, refs):
        tol = tol_of(r)
        if o["err"] > 0.05 * tol:
            unresolved += 1
            continue
        err = max(abs(x - y) for x, y in zip(r.vals, o["v"]))
        if not (err <= tol):
            fails.append((r, o, err, tol))
    ctx.coverage.update({"blocks_against_oracle": len(cand) - unresolved, "oracle_unresolved": unresolved, "deviations": len(fails)})
    out = []
    if fails:
        items = [{"runs": (r,), "tol": tol, "defect": (lambda ref: (lambda blocks: max(abs(x - y) for x, y in zip(blocks[0], ref))))(o["v"]), "r": r, "o": o, "err": err}
                 for r, o, err, tol in fails]
        pl.lazy_attribute(items, ATTRIBUTION, usable=bool(proofs_ok and not corr_bad))
        for it in items:
            r, o, err, tol, fid, table = it["r"], it["o"], it["err"], it["tol"], it["fid"], it["table"]
            if fid is None and r.warn[0] > 0 and proofs_ok and not corr_bad:
                # the library itself reported that its type-1 (local part) quadrature did not converge on this input and carried on
                fid = "type1-quadrature-unconverged"
            i = max(range(len(r.vals)), key=lambda j: abs(r.vals[j] - o["v"][j]))
            out.append({"case": r.case, "request": pl.fmt_case(r.case), "error": err, "allowed": tol, "block_max": r.maxabs(), "worst_element": i,
                        "returned": r.vals[i], "exact": o["v"][i], "attributed_to": fid, "library_reported_unconverged_quadratures": list(r.warn), "counterfactual_errors": table,
                        "what": "block (LA=%d, LB=%d, ECP L=%d, %s) deviates from the defining integral by %.3g (allowed %.3g; element %d: returned %r, integral %r)" % (
                            r.case["A"]["l"], r.case["B"]["l"], max(p[1] for p in r.case["ecp"]["prims"]), "/".join(r.case.get("kind", [])), err, tol, i, r.vals[i], o["v"][i])})
    for r in nonfinite:
        out.append({"case": r.case, "request": pl.fmt_case(r.case), "error": float("inf"), "allowed": 0.0, "attributed_to": None, "counterfactual_errors": {},
                    "what": "block contains a non-finite value"})
    return out, proofs_ok, corr_bad


def main(ctx, cases=None):
    fails, proofs_ok, corr_bad = explore(ctx, cases)
    kf = {k["id"] for k in core.known_findings().get("findings", []) if k.get("property") == "C01"}
    new, attributed = [], {}
    for f in fails:
        ids = f["attributed_to"].split("+") if f["attributed_to"] else []
        if ids and all(i in kf for i in ids):
            for i in ids:
                attributed.setdefault(i, []).append(f)
        else:
            new.append(f)
    for kid, fs in sorted(attributed.items()):
        ctx.known("%s: %d of the sampled blocks, e.g. %s" % (kid, len(fs), fs[0]["what"]))
    ctx.coverage["attributed_to_known_findings"] = {k: len(v) for k, v in attributed.items()}
    if new:
        new.sort(key=lambda f: -(f["error"] / f["allowed"] if f["allowed"] else float("inf")))
        ctx.violation("failing-input", new[0]["what"], {"input": new[0], "n_failing": len(new), "replay_note": "echo '<request>' | <harness/corr_pair.cpp driver>; oracle: oracle/pair.py"}, True)
    elif ctx.broken:
        ctx.violation("theorem-broken" if not proofs_ok else "correspondence-broken", "C01 is no longer shown to hold: %s" % "; ".join(ctx.broken[:4]),
                      {"first_disagreement": corr_bad[:1]}, False)
    ctx.assumptions += ["the expansion of the semi-local ECP matrix element in Bessel functions, harmonics and angular integrals (Shaw & Hill 2017, Flores-Moreno 2006) equals the 3-D integral (literature)",
                        "Faddeeva::Dawson and std::erf are external functions whose values the harness passes to the model"]
    ctx.trusted += ["translate/{radialcases,qclasses,constants,powfns,gammatable}.py; harness/corr_pair.cpp; oracle/pair.py (numpy/scipy brute-force quadrature, two grids)"]
    return ctx.finish("proof")


def replay(ctx, path):
    body = json.load(open(path))
    case = body.get("input", {}).get("case")
    return main(ctx, [case] if case else None)
