"""C11 - memory-safe, UB-free and finite for every supported class and derivative order.

proof   : lean/Ecpint/Props/C11.lean - index arithmetic: the 7-index flattening maps in-range tuples into the data vector and
          is injective on them (no in-range-by-accident access); the hand-formed offsets of rolled_up are in-range tuples
          whenever shell, projector and loop variables respect the engine's limits; compute_base_integrals writes exactly the
          indices 0..nbase+1; decide over the regenerated tables: every closed-form case any class can dispatch reads only
          base integrals that class's nbase provides; GAMMA / FAST_POW / FAC indices of the on-centre branch and of calcC are
          inside the fixed-size tables up to second derivatives of MAX_L shells.  PARTIAL: absence of undefined arithmetic,
          of uninitialised reads and of non-finite results in general floating point is NOT proved.
tie     : translators qclasses / radialcases / constants (every run); translate/boundscheck.py regenerates from the working
          tree's multiarr.hpp a copy whose accessors check EACH index against ITS dimension, force-included in an
          ASan + UBSan (-fno-sanitize-recover) + _GLIBCXX_ASSERTIONS build of the working tree.
search  : the instrumented build driven over (LA, LB, lambda_max, derivative order 0/1/2, A on/off centre, B on/off centre)
          - exhaustive in the thorough tier (1848 combinations: shells up to MAX_L - derivative order, which the engine asserts), a stratified sample in the quick tier - with random
          exponents 1e-3..1e6, distances 0..60 bohr, ECP powers 0..2; every returned number must be finite; valgrind
          memcheck (uninitialised values) on a slice in the thorough tier.
"""
import json, math, os, random, subprocess, sys
sys.path.insert(0, os.path.join(os.path.dirname(os.path.abspath(__file__)), ".."))
from vlib import core, build, pairlib as pl
from translate import boundscheck
from translate.util import TranslateError


def make_case(rng, cid, LA, LB, lmax, deriv, a_on, b_on, tight_engine=True):
    C = [rng.uniform(-2, 2) for _ in range(3)]
    # a third of the cases are collinear along one coordinate axis through the ECP (where cosines reach +-1 and azimuths are
    # undefined: the arguments of sqrt / acos / atan2 sit on the edge of their domains, up to rounding)
    common_axis = rng.randrange(3) if rng.random() < 0.34 else None
    def centre(on):
        if on:
            return list(C)
        r = 10 ** rng.uniform(-2, math.log10(60.0)) if rng.random() < 0.6 else rng.uniform(0.2, 3.0)
        d = pl.rand_dir(rng)
        if common_axis is not None:
            d = [0.0, 0.0, 0.0]; d[common_axis] = rng.choice([-1.0, 1.0])
        elif rng.random() < 0.25:       # on a coordinate axis
            d = [0.0, 0.0, 0.0]; d[rng.randrange(3)] = rng.choice([-1.0, 1.0])
        return [C[i] + r * d[i] for i in range(3)]
    def shell(l, on):
        n = rng.choice([1, 1, 2, 3]) if common_axis is None else rng.choice([2, 3, 4])
        return {"l": l, "c": centre(on), "prims": [[10 ** rng.uniform(-3, 6) if rng.random() < 0.5 else 10 ** rng.uniform(-1.5, 1.5), rng.choice([-1, 1]) * 10 ** rng.uniform(-2, 0.5)] for _ in range(n)]}
    prims = []
    for l in range(lmax + 1):
        for _ in range(rng.choice([1, 2])):
            prims.append([rng.choice([0, 1, 2]), l, 10 ** rng.uniform(-1.3, 3.3), rng.choice([-1, 1]) * 10 ** rng.uniform(-2, 1.5)])
    A_, B_ = shell(LA, a_on), shell(LB, b_on)
    if not a_on and not b_on and rng.random() < 0.12:
        # mirror images about the ECP with a common exponent: the Gaussian product centre of that primitive pair is EXACTLY the ECP
        # centre although neither shell is on it (X-M-X molecules); anything that divides by |P| must guard it per primitive pair
        # (dyadic coordinates, so that A - C = -(B - C) holds bit for bit)
        for i in range(3):
            C[i] = round(C[i] * 8) / 8
        d = [round((A_["c"][i] - C[i]) * 1024) / 1024 for i in range(3)]
        if not any(d):
            d[2] = 0.5
        A_["c"] = [C[i] + d[i] for i in range(3)]
        B_["c"] = [C[i] - d[i] for i in range(3)]
        B_["prims"][0][0] = A_["prims"][0][0]
    mb = max(LA, LB) if tight_engine else 5
    return dict(id=cid, maxLB=mb, maxLU=lmax if tight_engine else 5, deriv=deriv, ecp={"c": C, "prims": prims}, A=A_, B=B_,
                combo=[LA, LB, lmax, deriv, int(a_on), int(b_on)])


def fmt(c):
    return "case %s %d %d %d | %s | %s | %s" % (c["id"], c["maxLB"], c["maxLU"], c["deriv"], pl.fmt_ecp(c["ecp"]), pl.fmt_shell(c["A"]), pl.fmt_shell(c["B"]))


def run_chunk(drv, chunk, timeout):
    """returns (done: {id: (n, bad)}, crash: None | {id, stderr})"""
    env = dict(os.environ, ASAN_OPTIONS="detect_leaks=0:abort_on_error=0:allocator_may_return_null=1", UBSAN_OPTIONS="print_stacktrace=1:halt_on_error=1")
    try:
        r = subprocess.run([drv], input="\n".join(fmt(c) for c in chunk) + "\n", stdout=subprocess.PIPE, stderr=subprocess.PIPE, text=True, env=env, timeout=timeout)
        out, err, rc = r.stdout, r.stderr, r.returncode
    except subprocess.TimeoutExpired as e:
        out, err, rc = (e.stdout or b"").decode() if isinstance(e.stdout, bytes) else (e.stdout or ""), "timeout after %ds" % timeout, -9
    done, started = {}, None
    for l in out.split("\n"):
        t = l.split()
        if len(t) == 2 and t[0] == "start":
            started = t[1]
        elif len(t) == 4 and t[0] == "done":
            done[t[1]] = (int(t[2]), int(t[3]))
            started = None
    crash = None
    if rc != 0:
        # library chatter ("Quadrature failed", ...) goes to stdout/stderr too: keep the sanitizer / bounds report
        keep = [l for l in err.split("\n") if any(k in l for k in ("ERROR", "VERIF-BOUNDS", "runtime error", "SUMMARY", "Assertion", "timeout", "#0", "#1", "#2", "#3"))]
        crash = {"id": started, "returncode": rc, "report": "\n".join(keep[:14]) or err[-600:]}
    return done, crash


def main(ctx, cases=None):
    rng = random.Random(ctx.seed * 86028121 + 11)
    quick = ctx.tier == "quick"
    b0 = build.build("plain")
    tr_ok, classes = pl.regen(ctx, b0)
    try:
        _, st = boundscheck.translate()
        ctx.obligation("translator boundscheck.py (per-dimension checks in every accessor of multiarr.hpp)", True, json.dumps(st))
    except TranslateError as e:
        ctx.obligation("translator boundscheck.py (per-dimension checks in every accessor of multiarr.hpp)", False, str(e))
        tr_ok = False
    proofs_ok = ctx.lean_props("C11", extra_modules=["Ecpint.Props.C11b"]) if tr_ok else False
    b = build.build("asan")
    drv = build.compile_driver(b, "corr_safety.cpp")
    if cases is None:
        # the engine supports shells up to MAX_L - derivative order (its constructor asserts maxLB + deriv <= MAX_L)
        combos = [(LA, LB, lm, dv, ao, bo) for dv in range(3) for LA in range(6 - dv) for LB in range(6 - dv) for lm in range(6) for ao in (0, 1) for bo in (0, 1)]
        if quick:
            # stratified: every (LA, LB) pair once, every (lmax, deriv, on/off pattern) several times
            rng.shuffle(combos)
            seen_pair, seen_rest, pick = set(), {}, []
            for cb in combos:
                kp, kr = (cb[0], cb[1]), cb[2:]
                if kp not in seen_pair or seen_rest.get(kr, 0) < 1:
                    pick.append(cb); seen_pair.add(kp); seen_rest[kr] = seen_rest.get(kr, 0) + 1
                if len(pick) >= 90:
                    break
            combos = pick
        cases = [make_case(rng, "c%d" % i, *cb) for i, cb in enumerate(combos)]
    # group by engine so each chunk builds few engines
    cases.sort(key=lambda c: (c["deriv"], c["maxLB"], c["maxLU"]))
    nproc = 14
    chunks = [cases[i::nproc] for i in range(nproc)]
    from concurrent.futures import ThreadPoolExecutor
    results, crashes = {}, []
    def work(ch):
        pending = list(ch)
        out, cr = {}, []
        while pending:
            done, crash = run_chunk(drv, pending, 7200)
            out.update(done)
            if crash is None:
                break
            cr.append(crash)
            # skip the crashing case and continue with the rest
            ids = [c["id"] for c in pending]
            k = ids.index(crash["id"]) + 1 if crash["id"] in ids else len(ids)
            pending = pending[k:]
        return out, cr
    with ThreadPoolExecutor(nproc) as ex:
        for out, cr in ex.map(work, [ch for ch in chunks if ch]):
            results.update(out); crashes += cr
    byid = {c["id"]: c for c in cases}
    nonfinite = [byid[i] for i, (n, bad) in results.items() if bad > 0]
    ctx.coverage.update({"combinations_run": len(results), "values_checked_finite": sum(n for n, _ in results.values()), "crashes": len(crashes), "nonfinite_results": len(nonfinite),
                         "derivative_orders": sorted({c["deriv"] for c in cases}), "classes_LA_LB": len({(c["A"]["l"], c["B"]["l"]) for c in cases}),
                         "sanitizers": "ASan + UBSan (-fno-sanitize-recover=all) + _GLIBCXX_ASSERTIONS + per-dimension index checks"})
    # valgrind slice (uninitialised values) in the thorough tier
    vg_bad = []
    if not quick:
        drv0 = build.compile_driver(b0, "corr_safety.cpp")
        sl = [c for c in cases if c["deriv"] <= 1 and max(c["A"]["l"], c["B"]["l"]) <= 3][:24]
        r = subprocess.run(["valgrind", "--error-exitcode=99", "--track-origins=no", "-q", drv0], input="\n".join(fmt(c) for c in sl) + "\n", stdout=subprocess.PIPE, stderr=subprocess.PIPE, text=True)
        ctx.coverage["valgrind_cases"] = len(sl)
        if r.returncode == 99:
            vg_bad.append({"report": r.stderr[-1500:]})
        ctx.obligation("valgrind memcheck on a slice of %d cases: no use of uninitialised values, no invalid access" % len(sl), not vg_bad, json.dumps(vg_bad)[:600])
    fails = []
    for cr in crashes:
        c = byid.get(cr["id"])
        fails.append({"case": c, "request": fmt(c) if c else None, "report": cr["report"],
                      "what": "sanitizer / index check abort on (LA, LB, lambda_max, deriv, A on, B on) = %s: %s" % (c["combo"] if c else "?", cr["report"].split("\n")[0][:200])})
    for c in nonfinite:
        fails.append({"case": c, "request": fmt(c), "what": "non-finite value returned for (LA, LB, lambda_max, deriv, A on, B on) = %s" % c["combo"]})
    kf = [k for k in core.known_findings().get("findings", []) if k.get("property") == "C11"]
    new = []
    for f in fails:
        m = next((k for k in kf if k.get("match") and k["match"] in (f.get("report", "") + f["what"])), None)
        if m:
            ctx.known("%s: %s" % (m["id"], f["what"][:200]))
        else:
            new.append(f)
    ctx.known_lines = sorted(set(ctx.known_lines))[:8]
    if new:
        ctx.violation("failing-input", new[0]["what"], {"input": new[0], "n_failing": len(new)}, True)
    elif vg_bad:
        ctx.violation("failing-input", "valgrind reports an error", {"input": vg_bad[0]}, True)
    elif ctx.broken:
        ctx.violation("theorem-broken", "C11 is no longer shown to hold: %s" % "; ".join(ctx.broken[:4]), {}, False)
    ctx.assumptions += ["absence of undefined arithmetic / uninitialised reads / non-finite results is searched (sanitizers over the class enumeration), not proved"]
    ctx.trusted += ["translate/boundscheck.py; harness/corr_safety.cpp; clang/gcc sanitizer runtimes; valgrind"]
    return ctx.finish("proof")


def replay(ctx, path):
    body = json.load(open(path))
    case = body.get("input", {}).get("case")
    return main(ctx, [case] if case else None)
