"""C15 - adaptive quadrature reports convergence only with an accurate value.

proof   : lean/Ecpint/Props/C15.lean (index sets of the nested rules, grid sizes, transforms).  PARTIAL: that the
          acceptance tests imply the error bound is Perez-Jorda's heuristic, not a theorem.
tie     : correspondence: the Lean model at Float builds the same grids (every admissible size, both schemes, both
          transforms) and runs the same nested integration on the same tabulated integrand - BIT FOR BIT
          (abscissae, weights, value, convergence flag).
search  : polynomial x Gaussian integrands against mpmath (30 digits) with the property's tolerance
          sqrt(tol*|I|) + 1e-12 whenever the code reports convergence.
"""
import json, math, os, random, struct, subprocess, sys
sys.path.insert(0, os.path.join(os.path.dirname(os.path.abspath(__file__)), ".."))
from vlib import core, build


def hx(x):
    return struct.pack(">d", x).hex()


def unhex(s):
    return struct.unpack(">d", bytes.fromhex(s))[0]


def sizes():
    one = [2 ** n - 1 for n in range(2, 11)]
    two = [3 * 2 ** n - 1 for n in range(1, 9)]
    return one, two


def gen_cases(rng, quick):
    one, two = sizes()
    cases = []
    tols = [1e-8, 1e-10, 1e-12, 1e-15]
    def add(t, pts, tr, k, zeta, c, rng_=(-1, -1)):
        cases.append({"type": t, "points": pts, "tr": tr, "k": k, "zeta": zeta, "c": c, "range": rng_, "tols": tols})
    # corpus: the recorded example of the known finding premature-acceptance runs first, every time
    add(0, 511, ("rminmax", 151.38, 0.0), 8, 151.38, 0.0)
    reps = 1 if quick else 6
    for rep in range(reps):
        for t, szs in ((0, one), (1, two)):
            for n in szs:
                if n < 7:
                    continue
                pts = rng.choice([n, n, n + rng.randint(0, n // 2)])
                kind = rng.choice(["none", "rminmax", "rminmax", "zeroinf"])
                k = rng.choice([0, 1, 2, 3, 4, 6, 8, 12, 16, 20])
                if kind == "none":
                    add(t, pts, ("none",), k if k < 7 else 2, 10 ** rng.uniform(-1, 1.3), rng.uniform(-0.8, 0.8))
                elif kind == "rminmax":
                    zeta = 10 ** rng.uniform(-2, 4)
                    c = rng.choice([0.0, rng.uniform(0, 30), 10 ** rng.uniform(-3, 1)])
                    add(t, pts, ("rminmax", zeta, c), k, zeta, c)
                else:
                    zeta = 10 ** rng.uniform(-1.5, 1.5)
                    add(t, pts, ("zeroinf",), min(k, 8), zeta, rng.uniform(0, 3) / math.sqrt(zeta))
    # the grids the library itself uses
    for pts, t in ((128, 0), (256, 1), (1024, 0)):
        for _ in range(3 if quick else 20):
            zeta = 10 ** rng.uniform(-1.5, 3.3)
            c = rng.uniform(0, 12)
            if t == 1:
                add(t, pts, ("zeroinf",), rng.choice([0, 2, 4]), 10 ** rng.uniform(-1, 1), rng.uniform(0, 2))
            else:
                add(t, pts, ("rminmax", zeta, c), rng.choice([0, 2, 5, 9]), zeta, c)
    # diffuse envelopes centred far out: the window's lower limit is clipped at 0 only because of its width
    for _ in range(6 if quick else 40):
        zeta = 10 ** rng.uniform(-2, -0.3)
        c = rng.uniform(3, 30)
        add(rng.choice([0, 0, 1]), rng.choice([127, 255, 383, 511]), ("rminmax", zeta, c), rng.choice([0, 1, 2, 7]), zeta, c)
    # half-line grids with the mass of the integrand well away from r = 0 (what a prescreened sub-range is for)
    for _ in range(6 if quick else 40):
        zeta = 10 ** rng.uniform(-1.5, 0.5)
        add(rng.choice([0, 1]), rng.choice([63, 127, 255, 191, 383]), ("zeroinf",), rng.choice([8, 12, 16, 20]), zeta, rng.uniform(0, 1.5) / math.sqrt(zeta))
    # sub-ranges (start/end clipping): only compared with the model
    for _ in range(6 if quick else 60):
        t = rng.choice([0, 1])
        n = rng.choice(one[3:] if t == 0 else two[2:])
        a = rng.randint(0, n // 2)
        b = rng.randint(a + 1, n - 1)
        zeta = 10 ** rng.uniform(-1, 2)
        add(t, n, ("rminmax", zeta, 2.0), 2, zeta, 2.0, (a, b))
    # nearly flat integrands (envelope much wider than the window), whole range given explicitly so that only the model is asked:
    # with the harness's tolerance ladder these are the inputs on which the FIRST acceptance test of either scheme decides, i.e. where the
    # seeds of the recursion (T_1, "4 T_0", T_2) matter; peaked integrands never pass it
    for i in range(16 if quick else 80):
        t = i % 2
        n = rng.choice(one[2:] if t == 0 else two[1:])
        z = 10 ** rng.uniform(-1, 2)
        add(t, n, ("rminmax", z, rng.uniform(0, 5)) if i % 4 < 2 else ("none",), 0, (z if i % 4 < 2 else 1.0) * 10 ** rng.uniform(-4, -1.5), rng.uniform(0, 1), (0, n - 1))
    return cases


def case_line(c):
    tr = " ".join(repr(x) if not isinstance(x, str) else x for x in c["tr"])
    return "case %d %d %s %d %r %r %d %s %d %d" % (c["type"], c["points"], tr, c["k"], c["zeta"], c["c"], len(c["tols"]), " ".join(repr(t) for t in c["tols"]), c["range"][0], c["range"][1])


ORACLE = r'''
import sys, json
import mpmath as mp
mp.mp.dps = 30
for line in sys.stdin:
    d = json.loads(line)
    k, zeta, c, a, b = d["k"], mp.mpf(d["zeta"]), mp.mpf(d["c"]), d["a"], d["b"]
    f = lambda r: r**k * mp.exp(-zeta*(r-c)**2)
    hi = mp.inf if b is None else mp.mpf(b)
    lo = mp.mpf(a)
    w = 6/mp.sqrt(zeta)
    pts = sorted(set([lo] + [p for p in (c-w, c, c+w) if lo < p < hi] + [hi]))
    if hi == mp.inf:
        pts = [p for p in pts if p != mp.inf] + [max(c + 4*w, lo + 1), mp.inf]
        pts = sorted(set(pts))
    print(mp.nstr(mp.quad(f, pts), 20)); sys.stdout.flush()
'''


def explore(ctx):
    rng = random.Random(ctx.seed * 6007 + 15)
    quick = ctx.tier == "quick"
    proofs_ok = ctx.lean_props("C15All", extra_modules=["Ecpint.Props.C15", "Ecpint.Props.C15b", "Ecpint.Props.C15c"])
    b = build.build("plain")
    drv = build.compile_driver(b, "corr_quad.cpp")
    cases = gen_cases(rng, quick)
    r = subprocess.run([drv], input="\n".join(case_line(c) for c in cases) + "\n", stdout=subprocess.PIPE, stderr=subprocess.PIPE, text=True)
    if r.returncode != 0:
        raise RuntimeError("corr_quad failed: " + r.stderr[-500:])
    L = r.stdout.split("\n")
    req = [l[2:] for l in L if l.startswith("> ")]
    real_blocks, cur, windows, traces = [], [], [], []
    for l in L:
        if l.startswith("< end"):
            real_blocks.append(cur); cur = []
        elif l.startswith("< "):
            cur.append(l[2:])
        elif l.startswith("# T"):
            t = l.split()
            k = t.index("finest")
            traces.append({"evals": [int(x) for x in t[2:k]], "finest": unhex(t[k + 1]), "finest_evals": int(t[k + 2])})
        elif l.startswith("# "):
            t = l.split()
            windows.append((unhex(t[1]), unhex(t[2]), int(t[3]), int(t[4]), int(t[5])))
    corr_bad, n_cmp = [], 0
    if os.path.exists(core.DRIVER):
        ml = core.run_driver(req)
        model_blocks, cur = [], []
        for l in ml:
            if l == "end":
                model_blocks.append(cur); cur = []
            elif l:
                cur.append(l)
        if len(model_blocks) != len(real_blocks):
            corr_bad.append({"what": "model answered %d requests, code %d" % (len(model_blocks), len(real_blocks))})
        for c, rb, mb in zip(cases, real_blocks, model_blocks):
            n_cmp += sum(len(x.split()) - 1 for x in rb)
            if rb != mb and len(corr_bad) < 5:
                k = next((i for i, (x, y) in enumerate(zip(rb, mb)) if x != y), None)
                corr_bad.append({"case": case_line(c), "first_differing_line": (rb[k][:60], mb[k][:60]) if k is not None else (len(rb), len(mb))})
    ctx.obligation("correspondence: Lean quadrature model = real GCQuadrature, bit for bit (grids, transforms, value, flag)", not corr_bad, json.dumps(corr_bad[:2]))
    # oracle
    oreq, omap = [], []
    for ci, (c, w) in enumerate(zip(cases, windows)):
        if c["range"] != (-1, -1):
            continue
        if c["tr"][0] == "none":
            a, bnd = -1.0, 1.0
        elif c["tr"][0] == "rminmax":
            osz = 1.0 / math.sqrt(c["tr"][1])
            a, bnd = max(0.0, c["tr"][2] - 7.0 * osz), c["tr"][2] + 9.0 * osz
        else:
            a, bnd = 0.0, None
        oreq.append(json.dumps({"k": c["k"], "zeta": c["zeta"], "c": c["c"], "a": a, "b": bnd}))
        omap.append(ci)
    orc = subprocess.run(["python3-vt", "-c", ORACLE], input="\n".join(oreq) + "\n", stdout=subprocess.PIPE, stderr=subprocess.PIPE, text=True)
    refs = [float(x) for x in orc.stdout.split()]
    if len(refs) != len(oreq):
        raise RuntimeError("oracle failed: " + orc.stderr[-400:])
    fails, n_conv, n_notconv, worst_ratio = [], 0, 0, 0.0
    for ci, ref in zip(omap, refs):
        c = cases[ci]
        res = [l.split() for l in real_blocks[ci] if l.startswith("I ")]
        for tol, rr in zip(c["tols"], res):
            val, conv = unhex(rr[1]), rr[2] == "1"
            if not conv:
                n_notconv += 1
                continue
            n_conv += 1
            # the property's tolerance, plus what summing a few hundred doubles cannot avoid (relative 1e-13)
            allowed = math.sqrt(tol * abs(ref)) + 1e-12 + 1e-13 * abs(ref)
            err = abs(val - ref)
            worst_ratio = max(worst_ratio, err / allowed)
            if err > allowed:
                ti = c["tols"].index(tol)
                fails.append({"case": case_line(c), "tolerance": tol, "returned": val, "exact": ref, "error": err, "allowed": allowed, "grid": windows[ci][4],
                              "evals_at_acceptance": traces[ci]["evals"][ti], "finest_level_value": traces[ci]["finest"], "finest_level_evals": traces[ci]["finest_evals"],
                              "finest_level_error": abs(traces[ci]["finest"] - ref),
                              "what": "converged=true with value %r, exact integral %r: error %.3g exceeds sqrt(tol*|I|)+1e-12 = %.3g (tol %g, %s scheme, %d points, transform %s, r^%d exp(-%g (r-%g)^2))"
                                      % (val, ref, err, allowed, tol, "one-point" if c["type"] == 0 else "two-point", windows[ci][4], c["tr"][0], c["k"], c["zeta"], c["c"])})
    # second pass: the same integrals over the sub-range [first, last] of grid points where the integrand is not negligible
    # (what the library's prescreening passes as start/end); skipping negligible points must not change the answer
    sub, subref = [], []
    refmap = dict(zip(omap, refs))
    for ci, c in enumerate(cases):
        if ci not in refmap or c["tr"][0] == "none":
            continue
        xs = next(([unhex(h) for h in l.split()[1:]] for l in real_blocks[ci] if l.startswith("X ")), None)
        if not xs:
            continue
        fv = []
        for x in xs:
            try:
                fv.append(abs(x) ** c["k"] * math.exp(-c["zeta"] * (x - c["c"]) ** 2) if x != 0 or c["k"] > 0 else math.exp(-c["zeta"] * c["c"] ** 2))
            except OverflowError:
                fv.append(float("inf"))
        fm = max(fv)
        if not (fm > 0) or fm == float("inf"):
            continue
        keep = [i for i, v in enumerate(fv) if v > 1e-26 * fm]
        if not keep or (keep[0] == 0 and keep[-1] == len(xs) - 1):
            continue
        d = dict(c); d["range"] = (keep[0], keep[-1])
        sub.append(d); subref.append(refmap[ci])
    n_sub = 0
    if sub:
        r2 = subprocess.run([drv], input="\n".join(case_line(c) for c in sub) + "\n", stdout=subprocess.PIPE, stderr=subprocess.PIPE, text=True)
        if r2.returncode != 0:
            raise RuntimeError("corr_quad failed on the sub-range pass: " + r2.stderr[-500:])
        blocks2, cur, tr2 = [], [], []
        for l in r2.stdout.split("\n"):
            if l.startswith("< end"):
                blocks2.append(cur); cur = []
            elif l.startswith("< "):
                cur.append(l[2:])
            elif l.startswith("# T"):
                t = l.split(); k = t.index("finest")
                tr2.append({"evals": [int(x) for x in t[2:k]], "finest": unhex(t[k + 1]), "finest_evals": int(t[k + 2])})
        for c, ref, blk, trc in zip(sub, subref, blocks2, tr2):
            res = [l.split() for l in blk if l.startswith("I ")]
            for ti, (tol, rr) in enumerate(zip(c["tols"], res)):
                val, conv = unhex(rr[1]), rr[2] == "1"
                if not conv:
                    continue
                n_sub += 1
                allowed = math.sqrt(tol * abs(ref)) + 1e-12 + 1e-13 * abs(ref)
                err = abs(val - ref)
                if err > allowed:
                    fails.append({"case": case_line(c), "tolerance": tol, "returned": val, "exact": ref, "error": err, "allowed": allowed, "grid": c["points"],
                                  "evals_at_acceptance": trc["evals"][ti], "finest_level_value": trc["finest"], "finest_level_evals": trc["finest_evals"],
                                  "finest_level_error": abs(trc["finest"] - ref),
                                  "what": "sub-range [%d, %d] that skips only negligible grid points: converged=true with value %r, exact integral %r (error %.3g, allowed %.3g; %s scheme, %d points, transform %s, r^%d exp(-%g (r-%g)^2))"
                                          % (c["range"][0], c["range"][1], val, ref, err, allowed, "one-point" if c["type"] == 0 else "two-point", c["points"], c["tr"][0], c["k"], c["zeta"], c["c"])})
    ctx.coverage["sub_range_results_checked_against_oracle"] = n_sub
    ctx.coverage.update({"cases": len(cases), "values_compared_bitwise": n_cmp, "traces_validated_against_impl": n_cmp,
                         "oracle_integrals": len(refs), "converged_results_checked": n_conv, "not_converged": n_notconv,
                         "worst_error_over_allowed": worst_ratio, "grid_sizes": sorted({w[4] for w in windows})})
    ctx.sample({"case": case_line(cases[0])})
    ctx.sample({"case": case_line(cases[-1])})
    return fails, proofs_ok, corr_bad


def finish(ctx, fails, proofs_ok, corr_bad):
    kf = [f for f in core.known_findings().get("findings", []) if f.get("property") == "C15"]
    new = []
    for f in fails:
        m = next((k for k in kf if matches(k, f)), None)
        if m:
            ctx.known("%s (e.g. %s)" % (m["id"], f["case"]))
        else:
            new.append(f)
    ctx.known_lines = sorted(set(ctx.known_lines))[:6]
    if new:
        new.sort(key=lambda f: -f["error"] / f["allowed"])
        ctx.violation("failing-input", new[0]["what"], {"input": new[0], "n_failing": len(new), "replay_note": "echo '<case>' | harness/corr_quad.cpp"}, True)
    elif ctx.broken:
        ctx.violation("theorem-broken" if not proofs_ok else "correspondence-broken", "C15 is no longer shown to hold: %s" % "; ".join(ctx.broken[:4]),
                      {"first_disagreement": corr_bad[:1]}, False)
    ctx.assumptions += ["Perez-Jorda's acceptance tests bound the error for the integrand family (heuristic; checked by the oracle run, not proved)"]
    ctx.trusted += ["harness/corr_quad.cpp (reads private grid members with -fno-access-control; tabulates the integrand once for both sides); mpmath quad at 30 digits"]
    return ctx.finish("proof")


def matches(k, f):
    """trace predicate of the recorded finding `premature-acceptance`: the nested sequence was accepted BEFORE its finest level
    although the finest level of the very same grid is accurate - i.e. postponing the acceptance (the counterfactual, run by the
    harness with tolerance 0) makes the failure disappear.  A wrong node, weight, index or transform also spoils the finest
    level and does not match."""
    if k.get("id") != "premature-acceptance":
        return False
    return (f["evals_at_acceptance"] < f["finest_level_evals"]) and (f["finest_level_error"] <= f["allowed"])


def main(ctx):
    fails, proofs_ok, corr_bad = explore(ctx)
    return finish(ctx, fails, proofs_ok, corr_bad)
