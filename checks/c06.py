"""C06 - prescreening never discards a contribution that matters.

proof   : lean/Ecpint/Props/C06.lean - in the pipeline model every screen is term dropping: a screened block is the
          unscreened computation with some additive contributions left out, each of which had its estimate at or below the
          threshold; if no estimate is at or below its threshold the screens change nothing; the budget lemma bounds the
          effect of dropping n terms each below kappa * threshold.  PARTIAL: that an estimate bounds its term (|term| <=
          kappa * estimate) is NOT proved - it is what the differential below measures.
tie     : hook libecpint::verif::no_screening in /repo (guard LIBECPINT_VERIF) switches the four screening sites off at run
          time; correspondence: the Lean pipeline model with its screen switches off reproduces the hooked code BIT FOR BIT,
          and with them on the unhooked code - so the model's switches and the hook mean the same thing.
search  : same build, same input, screening on vs off, inputs biased to the screening boundary (distances 4..40 bohr,
          tight exponents, small coefficients, high angular momentum); allowed difference 1e-9 * sum|cA| sum|cB| sum|d|.
          Integrator level (distance screen): integrals with the hook on and off.
"""
import json, math, os, random, subprocess, sys
sys.path.insert(0, os.path.join(os.path.dirname(os.path.abspath(__file__)), ".."))
from translate.util import TranslateError
from vlib import core, build, pairlib as pl

ALLOW = 1e-9
ROUND = 1e-12
SITE = {"no-radial-screen": "estimate-not-a-bound", "no-pair-screen": "pair-estimate-not-a-bound", "no-prescreen": "type1-window"}
# screen sites switched off in the model, smallest subsets first: the first subset that reproduces the unscreened block names the
# site(s) whose estimate let a contribution go that matters
SUBSETS = ["no-radial-screen", "no-pair-screen", "no-prescreen", "no-radial-screen+no-pair-screen", "no-radial-screen+no-prescreen",
           "no-pair-screen+no-prescreen", "no-screens"]


def gen_cases(rng, quick, maxl=5):
    cases = []
    n = 70 if quick else 600
    for i in range(n):
        LA, LB = rng.randint(0, maxl), rng.randint(0, maxl)
        if i % 3 == 0:
            LA, LB = rng.randint(max(0, maxl - 2), maxl), rng.randint(0, maxl)
        L = rng.randint(1, maxl)
        C = [0.0, 0.0, 0.0]
        U = pl.rand_ecp(rng, L, C, lo=0.05, hi=50.0)
        if rng.random() < 0.4:   # small coefficients
            for p in U["prims"]:
                p[3] *= 10 ** rng.uniform(-6, -2)
        mode = i % 5
        if mode == 0:    # far shells, diffuse enough to reach
            rA, rB = rng.uniform(4, 40), rng.uniform(4, 40)
            lo, hi = 0.01, 0.5
        elif mode == 1:  # one far, one near
            rA, rB = rng.uniform(4, 25), rng.uniform(0.2, 3)
            lo, hi = 0.02, 5.0
        elif mode == 2:  # tight exponents at moderate distance
            rA, rB = rng.uniform(1, 6), rng.uniform(1, 6)
            lo, hi = 1.0, 200.0
        elif mode == 4:  # very tight shells a few bohr out: the shell-pair estimate exponentiates large arguments
            rA, rB = rng.uniform(1.5, 8), rng.uniform(0.3, 8)
            lo, hi = 30.0, 5000.0
        else:            # ordinary
            rA, rB = rng.uniform(0.3, 4), rng.uniform(0.3, 4)
            lo, hi = 0.05, 10.0
        dA, dB = pl.rand_dir(rng), pl.rand_dir(rng)
        if rng.random() < 0.3:   # both on the same side: the integrand is not killed by the angular separation
            dB = dA
        A = pl.rand_shell(rng, LA, [rA * x for x in dA], lo=lo, hi=hi)
        B = pl.rand_shell(rng, LB, [rB * x for x in dB], lo=lo, hi=hi)
        cases.append(dict(maxLB=maxl, maxLU=maxl, ecp=U, A=A, B=B, kind=["mode%d" % mode, "%.1f/%.1f" % (rA, rB)]))
    return cases


def api_systems(rng, quick):
    out = []
    for _ in range(4 if quick else 30):
        nat = rng.randint(2, 4)
        scale = rng.choice([3.0, 8.0, 15.0, 30.0])
        g = [rng.uniform(-scale, scale) for _ in range(3 * nat)]
        # geometry 1: the same system blown up about atom 0 (the ECP), where the distance screen drops most (shell, ECP) pairs
        far = [g[i % 3] + 6.0 * (g[i] - g[i % 3]) for i in range(3 * nat)]
        lines = ["reset", "atoms %d" % nat, "geom 0 " + " ".join("%r" % x for x in g), "geom 1 " + " ".join("%r" % x for x in far)]
        coefs = []
        for a in range(nat):
            for _ in range(rng.randint(1, 2)):
                l = rng.randint(0, 3); np_ = rng.randint(1, 2)
                pr = [(10 ** rng.uniform(-2, 1), rng.uniform(0.2, 1.5)) for _ in range(np_)]
                coefs.append(sum(abs(c) for _, c in pr))
                lines.append("shell %d %d %d %s" % (a, l, np_, " ".join("%r %r" % p for p in pr)))
        prims = [(rng.choice([0, 1, 2]), l, 10 ** rng.uniform(-1.3, 1), rng.choice([-1, 1]) * rng.uniform(0.5, 8.0)) for l in range(rng.randint(1, 3) + 1)]
        if len(out) % 2 == 0:
            # as the shipped library lists them: the local part (highest l) FIRST, and tighter than the projectors - the order in which the
            # primitives arrive must not matter to the smallest exponent the distance screen uses
            top = prims[-1]
            prims = [(top[0], top[1], top[2] * 10.0 + 2.0, top[3])] + prims[:-1]
        lines.append("ecp 0 %d %s" % (len(prims), " ".join("%d %d %r %r" % p for p in prims)))
        out.append((lines, max(coefs) ** 2 * sum(abs(p[3]) for p in prims)))
    # compact shells 4-6 bohr from an ECP whose local part is tight and listed first while its projectors are diffuse: the pair is well
    # inside the range of the projectors; the distance screen must take the smallest exponent of the WHOLE ECP, in whatever order it came
    for _ in range(3 if quick else 12):
        r = rng.uniform(4.0, 6.0)
        d = pl.rand_dir(rng)
        g = [0.0, 0.0, 0.0] + [r * x for x in d]
        lines = ["reset", "atoms 2", "geom 0 " + " ".join("%r" % x for x in g), "geom 1 " + " ".join("%r" % (6.0 * x) for x in g)]
        sh = [(0, rng.uniform(1.5, 4.0), rng.uniform(0.5, 1.2)), (1, rng.uniform(1.5, 3.0), rng.uniform(0.5, 1.2))]
        for l, e, c in sh:
            lines.append("shell 1 %d 1 %r %r" % (l, e, c))
        prims = [(2, 2, rng.uniform(3.0, 6.0), rng.uniform(0.5, 2.0)), (2, 0, rng.uniform(0.2, 0.4), rng.uniform(2.0, 8.0)), (2, 1, rng.uniform(0.4, 0.8), rng.uniform(2.0, 8.0))]
        lines.append("ecp 0 %d %s" % (len(prims), " ".join("%d %d %r %r" % p for p in prims)))
        out.append((lines, max(c for _, _, c in sh) ** 2 * sum(abs(p[3]) for p in prims)))
    return out


def main(ctx, cases=None):
    rng = random.Random(ctx.seed * 49979687 + 6)
    quick = ctx.tier == "quick"
    b = build.build("plain")
    tr_ok, classes = pl.regen(ctx, b)
    proofs_ok = ctx.lean_props("C06All", extra_modules=["Ecpint.Props.C06", "Ecpint.Props.C06b"]) if tr_ok else False
    # "screening is a pure optimisation" presupposes that a screening decision is a function of the call's own arguments: the effect
    # table of the working tree (translate/effects.py: linker inventory + clang AST of every library TU) must show no compute routine
    # writing static storage - an estimate parked in a static would let one call's decision depend on another thread's or call's pair
    try:
        from translate import effects
        _, einfo = effects.translate(b)
        wr = {o["name"]: o["globalWrites"] for o in einfo["ops"] if o["name"].startswith("compute") and o["globalWrites"]}
        ctx.obligation("screening decisions use per-call state only: no compute routine writes static storage (effect table)", not wr, json.dumps(wr)[:600])
    except TranslateError as e:
        ctx.obligation("screening decisions use per-call state only: no compute routine writes static storage (effect table)", False, str(e)[:600])
    drv = pl.pair_driver(b)
    if cases is None:
        cases = gen_cases(rng, quick)
    on = pl.run_real(drv, cases)
    off = pl.run_real(drv, cases, noscreen=True)
    hook_works = any(r.req != s.req for r, s in zip(on, off))
    ctx.obligation("hook: the build carries libecpint::verif::no_screening and the harness can switch it", hook_works, "requests of the screened and the unscreened run are identical - hook not compiled in?")
    corr_bad = []
    if os.path.exists(core.DRIVER):
        sub_on = on if not quick else on[::2]
        sub_off = off if not quick else off[1::2]
        pl.run_model(sub_on, ("code",))
        pl.run_model(sub_off, ("as-run",))
        for r in sub_on:
            if not pl.same_bits(r.bits, r.model.get("code")):
                corr_bad.append({"case": pl.fmt_case(r.case), "screens": "on"})
        for r in sub_off:
            if not pl.same_bits(r.bits, r.model.get("as-run")):
                corr_bad.append({"case": pl.fmt_case(r.case), "screens": "off (hook) vs model switches off"})
        ctx.coverage["traces_validated_against_impl"] = len(sub_on) + len(sub_off)
    ctx.obligation("correspondence: model with screens on = code, model with its screen switches off = code with the hook set, bit for bit", not corr_bad, json.dumps(corr_bad[:2]))
    fails, worst, n_changed = [], 0.0, 0
    for r, s in zip(on, off):
        d = max([abs(x - y) for x, y in zip(r.vals, s.vals)] + [0.0])
        scale = r.coef_scale()
        if d > 0:
            n_changed += 1
        if scale > 0:
            worst = max(worst, d / scale)
        # the property's allowance, plus what re-ordering / re-windowing sums of doubles cannot avoid (1e-12 of the block maximum)
        allowed = ALLOW * scale + ROUND * max(r.maxabs(), s.maxabs())
        if not (d <= allowed):
            fails.append((r, s, d, allowed))
    ctx.coverage.update({"pairs_screened_vs_unscreened": len(on), "pairs_where_screening_changed_a_value": n_changed, "worst_difference_over_coefficient_product": worst})
    out = []
    if fails:
        # counterfactuals are run on the UNSCREENED run's request: it carries the value of every external function (erf, Dawson) any
        # setting can need - the screened run logged none for what it skipped
        attribution = [("+".join(SITE[x] for x in (sw.split("+") if sw != "no-screens" else list(SITE))), sw) for sw in SUBSETS]
        items = [{"runs": (s,), "tol": tol, "defect": (lambda ref: (lambda blocks: max([abs(x - y) for x, y in zip(blocks[0], ref)] + [0.0])))(s.vals), "f": (r, s, d, tol)}
                 for r, s, d, tol in fails]
        pl.lazy_attribute(items, attribution, usable=bool(proofs_ok and not corr_bad))
        for it in items:
            r, s, d, tol = it["f"]
            fid, table = it["fid"], it["table"]
            if fid and "type1-window" in fid.split("+") and (r.warn[0] > 0 or s.warn[0] > 0):
                # the window changes the result because the type-1 quadrature did not converge at all (the library says so itself):
                # screened and unscreened are both unconverged values
                fid = "+".join("type1-quadrature-unconverged" if x == "type1-window" else x for x in fid.split("+"))
            i = max(range(len(r.vals)), key=lambda j: abs(r.vals[j] - s.vals[j]))
            out.append({"case": r.case, "request": pl.fmt_case(r.case), "error": d, "allowed": tol, "attributed_to": fid, "difference_to_unscreened_with_one_screen_off": table,
                        "screened": r.vals[i], "unscreened": s.vals[i],
                        "what": "block (LA=%d, LB=%d, ECP L=%d, shells %s bohr from the ECP): screened and unscreened evaluation differ by %.3g (allowed %.3g; element %d: %r vs %r)" % (
                            r.case["A"]["l"], r.case["B"]["l"], max(p[1] for p in r.case["ecp"]["prims"]), r.case.get("kind", ["", "?"])[1], d, tol, i, r.vals[i], s.vals[i])})
    # integrator level: the distance screen alone.  `assemble` prints every (shell, shell, ECP) block computed by the real
    # engine whether or not compute_integrals keeps the pair; summing them all is the integral matrix without the distance
    # screen (pair-level screens unchanged), to be compared with what compute_integrals returns
    api = build.compile_driver(b, "corr_api.cpp")
    n_api, api_bad, n_dropped_pairs = 0, [], 0
    # every system twice: a fresh integrator at the geometry, and an integrator that was first used at the blown-up geometry (most
    # pairs screened) and then moved to the geometry with the coordinate-update calls (a screening decision that outlives the move shows)
    for (lines, scale), cmd in [(sysl, c) for sysl in api_systems(rng, quick) for c in ("assemble 0 0", "assemble_moved 1 0 0")]:
        rr = subprocess.run([api], input="\n".join(lines + [cmd]) + "\n", stdout=subprocess.PIPE, stderr=subprocess.PIPE, text=True)
        if rr.returncode != 0:
            raise RuntimeError("corr_api crashed: " + rr.stderr[-300:])
        nc, blocks, kept, I = [], {}, set(), None
        for l in rr.stdout.split("\n"):
            t = l.split()
            if len(t) >= 6 and t[0] == ">" and t[1] == "shell":
                nc.append(int(t[5]))
            elif len(t) > 6 and t[0] == ">" and t[1] == "i":
                blocks[(int(t[2]), int(t[3]), int(t[4]))] = (int(t[5]), int(t[6]), [pl.unhex(x) for x in t[7:]])
            elif len(t) == 4 and t[0] == ">" and t[1] == "kept":
                kept.add((int(t[2]), int(t[3])))
            elif len(t) > 3 and t[0] == "<" and t[1] == "I":
                I = (int(t[2]), [pl.unhex(x) for x in t[3:]])
        if I is None or not blocks:
            continue
        off_ = [sum(nc[:i]) for i in range(len(nc))]
        n = I[0]
        full = [0.0] * (n * n)
        for (s1, s2, u), (nA, nB, v) in blocks.items():
            for a_ in range(nA):
                for b_ in range(nB):
                    full[(off_[s1] + a_) * n + off_[s2] + b_] += v[a_ * nB + b_]
                    if s1 != s2:
                        full[(off_[s2] + b_) * n + off_[s1] + a_] += v[a_ * nB + b_]
        d = max([abs(x - y) for x, y in zip(full, I[1])] + [0.0])
        n_api += 1
        n_dropped_pairs += sum(1 for (s1, s2, u) in blocks if (s1, u) not in kept)
        if not (d <= ALLOW * scale):
            api_bad.append({"difference": d, "allowed": ALLOW * scale, "system": lines + [cmd]})
    ctx.coverage["shell_ecp_pairs_dropped_by_the_distance_screen"] = n_dropped_pairs
    # the pair-level findings show through the integrator as well; only a difference no pair-level finding explains is new here
    ctx.coverage["integrator_systems_screened_vs_unscreened"] = n_api
    kf = {k["id"] for k in core.known_findings().get("findings", []) if k.get("property") == "C06"}
    new, attributed = [], {}
    for f in out:
        ids = f["attributed_to"].split("+") if f["attributed_to"] else []
        if ids and all(i in kf for i in ids):
            for i in ids:
                attributed.setdefault(i, []).append(f)
        else:
            new.append(f)
    for kid, fs in sorted(attributed.items()):
        ctx.known("%s: %d of the sampled pairs, e.g. %s" % (kid, len(fs), fs[0]["what"]))
    ctx.coverage["attributed_to_known_findings"] = {k: len(v) for k, v in attributed.items()}
    ctx.obligation("integrator: the distance screen of compute_integrals drops nothing that matters (%d systems, sum of all pair blocks vs the returned matrix)" % n_api, not api_bad, json.dumps(api_bad[:1])[:500])
    if new:
        new.sort(key=lambda f: -f["error"] / max(f["allowed"], 1e-300))
        ctx.violation("failing-input", new[0]["what"], {"input": new[0], "n_failing": len(new)}, True)
    elif api_bad:
        ctx.violation("failing-input", "the distance screen of compute_integrals drops contributions of %.3g (allowed %.3g)" % (api_bad[0]["difference"], api_bad[0]["allowed"]), {"input": api_bad[0]}, True)
    elif ctx.broken:
        ctx.violation("theorem-broken" if not proofs_ok else "correspondence-broken", "C06 is no longer shown to hold: %s" % "; ".join(ctx.broken[:4]),
                      {"first_disagreement": corr_bad[:1]}, False)
    ctx.assumptions += ["|term| <= kappa * estimate for the dropped terms is not proved (validated by the on/off differential)"]
    ctx.trusted += ["the hook commit in /repo (MANIFEST.hooks); harness/corr_pair.cpp, corr_api.cpp; translators as C01"]
    return ctx.finish("proof")


def replay(ctx, path):
    body = json.load(open(path))
    case = body.get("input", {}).get("case")
    return main(ctx, [case] if case else None)
