"""C09 - results do not depend on the code-generation configuration.

proof   : lean/Ecpint/Props/C09.lean - over any commutative semiring, executing the lines the generator emits for a class
          (`unroll`: every (na, nb, a, b, lam1, lam2, mu, mu1, mu2) of the expansion that survives its pruning test, with
          coefficient prefac*omega*omega) gives exactly what the generic rolled_up routine computes from the same tables
          (unroll_correct); the order of the lines and lines with a zero coefficient do not matter; the |C| > 1e-15 shortcut
          of rolled_up drops only terms that carry the tested factor.
tie     : translator qclasses.py parses every Q*.cpp the working tree's generator produced (triple lists, nbase, rolled or
          unrolled, every emitted line with its literal coefficient) into Gen/QClasses.lean + Gen/QTerms.lean; TRANSLATION
          VALIDATION every run: the Lean model of generate_lists, run at Float on the model's angular tables, must
          reproduce for EVERY class the triple lists and nbase, and for every unrolled class every line - same indices,
          coefficient bit for bit - and the pruning test must have dropped only combinations whose angular factors are
          exactly zero (the hypothesis of unroll_correct).  Pair correspondence as C01 on classes of both kinds.
search  : the same driver linked against builds of the same tree with MAX_UNROL in {0,1} (quick) x MAX_L in {3,4,5}
          (thorough); every block both builds can compute compared at 1e-11 of its largest element.
"""
import json, math, os, random, subprocess, sys
sys.path.insert(0, os.path.join(os.path.dirname(os.path.abspath(__file__)), ".."))
from vlib import core, build, pairlib as pl
from checks import c01

TOL = 1e-11


def gen_cases(rng, maxl, n_extra):
    cases = []
    for LA in range(maxl + 1):
        for LB in range(maxl + 1):
            if LA > 2 and LB > 2 and rng.random() < 0.5:
                continue
            C = [rng.uniform(-1, 1) for _ in range(3)]
            L = rng.randint(1, maxl)
            cases.append(dict(maxLB=maxl, maxLU=maxl, ecp=pl.rand_ecp(rng, L, C, per_l=1), A=pl.rand_shell(rng, LA, pl.place(rng, C, "general"), nprim=1),
                              B=pl.rand_shell(rng, LB, pl.place(rng, C, "general"), nprim=1), kind=["general", "general"]))
    for _ in range(n_extra):   # the unrolled classes (s and p shells) with every lambda
        LA, LB = rng.randint(0, 1), rng.randint(0, 1)
        C = [rng.uniform(-1, 1) for _ in range(3)]
        kind = rng.choice(c01.KINDS)
        cases.append(dict(maxLB=maxl, maxLU=maxl, ecp=pl.rand_ecp(rng, maxl, C, per_l=1), A=pl.rand_shell(rng, LA, pl.place(rng, C, kind[0])),
                          B=pl.rand_shell(rng, LB, pl.place(rng, C, kind[1])), kind=list(kind)))
    # blocks that are tiny in absolute terms (both shells several bohr out): the property's tolerance is relative to the block,
    # so absolute cut-offs inside one of the two code paths show here and nowhere else
    for _ in range(n_extra):
        LA, LB = rng.randint(0, 2), rng.randint(0, 2)
        C = [rng.uniform(-1, 1) for _ in range(3)]
        U = pl.rand_ecp(rng, rng.randint(1, 4), C, per_l=1, lo=0.3, hi=3.0)
        A = pl.rand_shell(rng, LA, pl.place(rng, C, "general", 4.5, 9.0), nprim=1, lo=0.4, hi=2.5)
        B = pl.rand_shell(rng, LB, pl.place(rng, C, "general", 4.5, 9.0), nprim=1, lo=0.4, hi=2.5)
        cases.append(dict(maxLB=maxl, maxLU=maxl, ecp=U, A=A, B=B, kind=["far", "far"]))
    # shells exactly in a coordinate plane through the ECP (planar molecules): a vanishing component of the offset makes binomial
    # coefficients exactly 0, which the two code paths skip in different ways
    for (LA, LB) in ((0, 1), (1, 1), (1, 0), (0, 2), (2, 1), (1, 2)):
        if max(LA, LB) <= maxl:
            C = [rng.uniform(-1, 1) for _ in range(3)]
            kinds = rng.choice([("general", "zplane"), ("zplane", "general"), ("zplane", "zplane"), ("plane", "plane")])
            cases.append(dict(maxLB=maxl, maxLU=maxl, ecp=pl.rand_ecp(rng, min(2, maxl), C, per_l=1), A=pl.rand_shell(rng, LA, pl.place(rng, C, kinds[0]), nprim=1),
                              B=pl.rand_shell(rng, LB, pl.place(rng, C, kinds[1]), nprim=1), kind=list(kinds)))
    # an engine of another shape used FIRST in the same process (cases are run sorted by engine): nothing the generic contraction
    # derives from one engine's table layout may survive into the next engine
    if maxl >= 3:
        for (LA, LB) in ((2, 2), (2, 1)):
            C = [rng.uniform(-1, 1) for _ in range(3)]
            cases.insert(0, dict(maxLB=2, maxLU=2, ecp=pl.rand_ecp(rng, 2, C, per_l=1), A=pl.rand_shell(rng, LA, pl.place(rng, C, "general"), nprim=1),
                              B=pl.rand_shell(rng, LB, pl.place(rng, C, "general"), nprim=1), kind=["small-engine", "first"]))
    return cases


def main(ctx, cases=None):
    rng = random.Random(ctx.seed * 32452843 + 9)
    quick = ctx.tier == "quick"
    b = build.build("plain")
    tr_ok, classes = pl.regen(ctx, b)
    proofs_ok = ctx.lean_props("C09All", extra_modules=["Ecpint.Props.C09", "Ecpint.Props.C09b"]) if tr_ok else False
    # ---- translation validation of the generated code against the generator model
    val_bad = []
    n_classes = n_terms = 0
    pruned_max = lost_max = 0.0
    if os.path.exists(core.DRIVER) and classes:
        keys = sorted(k for k in classes if k != "__terms_lean__")
        lines = ["begin pair", "engine 5 5 0"] + ["gencheck %d %d %d" % (classes[k]["LA"], classes[k]["LB"], classes[k]["lam"]) for k in keys] + ["end"]
        out = [l for l in core.run_driver(lines, timeout=3600) if l.startswith("G ")]
        if len(out) != len(keys):
            val_bad.append({"what": "driver answered %d of %d gencheck requests" % (len(out), len(keys))})
        for l in out:
            t = l.split()
            f = dict(x.split("=", 1) for x in t[4:] if "=" in x)
            n_classes += 1
            n_terms += int(f.get("nterms", "0"))
            # combinations the generator's pruning test dropped: harmless for a rolled class as long as the triple is requested by
            # some other combination (`lost` = 0); an unrolled class omits the lines, so there they must be exact zeros (`pruned`)
            pm = pl.unhex(f["pruned"]) if "pruned" in f else float("nan")
            lm = pl.unhex(f["lost"]) if "lost" in f else float("nan")
            is_unrolled = f.get("terms") != "none"
            if is_unrolled:
                pruned_max = max(pruned_max, pm) if pm == pm else float("nan")
            lost_max = max(lost_max, lm) if lm == lm else float("nan")
            if f.get("triples") != "ok" or f.get("nbase") != "ok" or f.get("terms") not in ("ok", "none") or not (lm <= 1e-15) or (is_unrolled and not (pm <= 1e-15)):
                val_bad.append({"class": t[1:4], "result": l})
        unrolled = sum(1 for k in keys if classes[k].get("unrolled"))
        ctx.coverage.update({"classes_validated": n_classes, "unrolled_classes": unrolled, "generated_lines_validated": n_terms, "largest_pruned_angular_product_in_unrolled_classes": pruned_max, "largest_angular_product_of_a_triple_nobody_requested": lost_max})
    ctx.obligation("translation validation: generator model reproduces triple lists, nbase and every emitted line (coefficients bit for bit) of all %d classes; pruning dropped only exact zeros" % n_classes,
                   not val_bad and n_classes > 0, json.dumps(val_bad[:3])[:600])
    # ---- pair correspondence (model = code) on classes of both kinds
    drv = pl.pair_driver(b)
    if cases is None:
        cases = gen_cases(rng, 5, 12 if quick else 60)
    runs = pl.run_real(drv, cases)
    corr_bad = []
    if os.path.exists(core.DRIVER):
        sub = runs if not quick else [r for i, r in enumerate(runs) if r.case["A"]["l"] <= 1 and r.case["B"]["l"] <= 1 or i % 3 == 0 or r.case.get("kind") == ["far", "far"] or "zplane" in r.case.get("kind", []) or r.case.get("kind", [""])[0] in ("small-engine", "plane")]
        pl.run_model(sub, ("code",))
        for r in sub:
            if not pl.same_bits(r.bits, r.model.get("code")):
                corr_bad.append({"case": pl.fmt_case(r.case)})
        ctx.coverage["traces_validated_against_impl"] = len(sub)
    ctx.obligation("correspondence: Lean pipeline model (unrolled classes evaluated from the regenerated term lists) = real compute_shell_pair, bit for bit", not corr_bad, json.dumps(corr_bad[:2]))
    # ---- differential between builds of the same tree
    configs = [(None, 0)] if quick else [(None, 0), (4, 1), (4, 0), (3, 1), (3, 0)]
    fails, n_cmp, worst = [], 0, 0.0
    for (ml, mu) in configs:
        b2 = build.build("plain", max_l=ml, max_unrol=mu)
        d2 = pl.pair_driver(b2)
        lim = ml if ml is not None else 5
        sel = [r for r in runs if r.case["A"]["l"] <= lim and r.case["B"]["l"] <= lim and max(p[1] for p in r.case["ecp"]["prims"]) <= lim]
        c2 = [dict(r.case, maxLB=min(r.case["maxLB"], lim), maxLU=min(r.case["maxLU"], lim)) for r in sel]
        base = sel
        if ml is not None:
            # engines of different size: recompute the reference with the same (smaller) engine in the default build
            base = pl.run_real(drv, c2)
        other = pl.run_real(d2, c2)
        for r, o in zip(base, other):
            m = max(r.maxabs(), o.maxabs())
            d = max([abs(x - y) for x, y in zip(r.vals, o.vals)] + [0.0])
            n_cmp += 1
            if m > 0:
                worst = max(worst, d / m)
            # the property's 1e-11 of the block maximum; blocks below 1e-12 of the coefficient product (smaller than the library's own
            # screening thresholds; sums that cancel by ten or more digits) cannot agree better than ~1e-9 between two summation orders
            tol_rel = TOL if m >= 1e-12 * max(r.coef_scale(), 1e-300) else 1e-9
            if not (d <= tol_rel * m + 1e-300):
                fails.append({"case": r.case, "request": pl.fmt_case(r.case), "config": "MAX_L=%s MAX_UNROL=%s" % (ml if ml is not None else "default", mu), "error": d, "allowed": tol_rel * m,
                              "what": "block (LA=%d, LB=%d, ECP L=%d) differs between the default build and a build with %s by %.3g (largest element %.3g, allowed %.3g)" % (
                                  r.case["A"]["l"], r.case["B"]["l"], max(p[1] for p in r.case["ecp"]["prims"]), "MAX_L=%s MAX_UNROL=%s" % (ml if ml is not None else "default", mu), d, m, tol_rel * m)})
    ctx.coverage.update({"configurations_compared": ["MAX_L=%s,MAX_UNROL=%s" % (a if a is not None else "default", u) for a, u in configs], "blocks_compared_between_builds": n_cmp,
                         "worst_relative_difference_between_builds": worst})
    if fails:
        fails.sort(key=lambda f: -f["error"] / max(f["allowed"], 1e-300))
        ctx.violation("failing-input", fails[0]["what"], {"input": fails[0], "n_failing": len(fails)}, True)
    elif ctx.broken:
        ctx.violation("theorem-broken" if not proofs_ok else "correspondence-broken", "C09 is no longer shown to hold: %s" % "; ".join(ctx.broken[:4]),
                      {"first_disagreement": (val_bad or corr_bad)[:1]}, False)
    ctx.assumptions += ["the generator ran on the same angular tables as the model (AngularIntegral(maxL, maxL); C13 ties the model's tables to the code's bit for bit)",
                        "MAX_UNROL >= 2 is not built (20 MB translation units)"]
    ctx.trusted += ["translate/qclasses.py (regex parse of the generated Q*.cpp); harness/corr_pair.cpp; cmake builds of the same tree under /verif/.cache"]
    return ctx.finish("proof")


def replay(ctx, path):
    body = json.load(open(path))
    case = body.get("input", {}).get("case")
    return main(ctx, [case] if case else None)
