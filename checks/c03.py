"""C03 - analytic second derivatives of a shell pair equal the geometric Hessian of the integrals.
proof: lean/Ecpint/Props/C03.lean over Model/Deriv.lean; tie: indexmaps translator (jaas, jbbs, N_INDEX) +
corr_deriv correspondence of all 45 matrices and the intermediates; search: finite differences of the analytic
gradient w.r.t. each centre, translational sum rules, symmetry of mixed partials."""
import os, sys
sys.path.insert(0, os.path.join(os.path.dirname(os.path.abspath(__file__)), ".."))
from checks import c02, deriv_common as dc

FD_TOL = 1e-3


def second_oracle_case(drv, case, order):
    r = dc.one_case((drv, case, 2))
    if "crash" in r:
        return [{"what": "routine crashed: " + r["crash"], "hard": True}], 0.0
    return dc.second_oracle(drv, case, r["real"], FD_TOL)


def main(ctx):
    return c02.main(ctx, order=2, pid="C03", tags=("QAA", "QBB", "QAB", "R2"), maxl=3, props="C03All", oracle=second_oracle_case,
                    extra_modules=["Ecpint.Props.C03", "Ecpint.Props.C03b"])
