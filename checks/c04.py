"""C04 - the integrator assembles per-atom integrals, gradients and Hessians as documented.

proof   : lean/Ecpint/Props/C04.lean over lean/Ecpint/Model/Api.lean (generic in the block type).
tie     : translate/indexmaps.py (H_START, ixes, back_ixes, jxes re-extracted every run) +
          correspondence: the real engine's low-level blocks are assembled by the Lean model (compiled
          driver, Float) and compared with ECPIntegrator's own matrices at 1e-13.
search  : finite differences (Richardson) of the integrator's own integrals / first derivatives with
          respect to moving whole atoms, against the documented list positions.
"""
import json, math, os, random, struct, subprocess, sys, itertools
from concurrent.futures import ThreadPoolExecutor
sys.path.insert(0, os.path.join(os.path.dirname(os.path.abspath(__file__)), ".."))
from vlib import core, build
from translate import indexmaps
from translate.util import TranslateError

REL = 1e-13
# the finite-difference oracle differentiates *computed* integrals, whose own error (C01, C12) is amplified by 1/h;
# with small steps and a median over three step sizes the oracle agrees to ~1e-7 on the clean tree; a misplaced,
# transposed, dropped or doubled block is an O(1) error
FD_TOL = 1e-3


def unhex(s):
    return struct.unpack(">d", bytes.fromhex(s))[0]


def gen_system(rng, natoms, nshells, necps, lmax=1, far=False, screened=False):
    """random arrangement of shells and ECPs over atoms; every atom carries at least one of them"""
    # every atom must carry a shell or an ECP: there have to be at least as many of them as atoms (found by the soak run at seed 3,
    # which drew 4 atoms for 2 shells + 1 ECP and never left the rejection loop below)
    if nshells + necps < natoms:
        nshells = natoms - necps
    while True:
        sh = [rng.randrange(natoms) for _ in range(nshells)]
        ec = [rng.randrange(natoms) for _ in range(necps)]
        if screened:
            # shells grouped by atom, two or three per atom, so that a tight shell is followed by a diffuse one on the same atom (and
            # the other way round): a screening decision taken for one shell must not be reused for its neighbours on the atom
            sh = [a for a in range(natoms) for _ in range(rng.choice([2, 3]))]
            ec = [rng.randrange(natoms) for _ in range(necps)]
        if len(set(sh) | set(ec)) == natoms:
            break
    pos = []
    while len(pos) < natoms:
        p = tuple(round(rng.uniform(-2.2, 2.2) * (3.0 if far and len(pos) == natoms - 1 else 1.0) * (3.5 if screened else 1.0), 3) for _ in range(3))
        if all(sum((a - b) ** 2 for a, b in zip(p, q)) > 1.2 for q in pos):
            pos.append(p)
    lines = ["reset", "atoms %d" % natoms, "geom 0 " + " ".join(repr(x) for p in pos for x in p)]
    shells = []
    for a in sh:
        l = rng.choice([0, 0, 1, 1, 1, 2] if lmax >= 2 else [0, 1, 1])
        l = min(l, lmax)
        np_ = rng.choice([1, 1, 2])
        if screened:
            # atoms 7-10 bohr apart carrying tight AND diffuse shells (in either order): the shell/ECP distance screen of
            # compute_integrals keeps some (shell, ECP) pairs of an atom and drops others
            np_ = 1
            k = len(shells)
            first_on_atom = k == 0 or sh[k - 1] != a
            tight_first = (a + natoms) % 2 == 0
            ex = 10 ** rng.uniform(1.2, 1.9) if first_on_atom == tight_first else rng.choice([10 ** rng.uniform(-1.0, -0.4), 10 ** rng.uniform(-0.2, 0.5)])
            prims = "%r %r" % (round(ex, 4), round(rng.choice([-1, 1]) * rng.uniform(0.3, 1.2), 4))
        else:
            prims = " ".join("%r %r" % (round(10 ** rng.uniform(-0.4, 0.7), 4), round(rng.choice([-1, 1]) * rng.uniform(0.3, 1.2), 4)) for _ in range(np_))
        lines.append("shell %d %d %d %s" % (a, l, np_, prims))
        shells.append((a, l))
    for a in ec:
        L = rng.choice([1, 2])
        prims = []
        for l in range(L + 1):
            for _ in range(rng.choice([1, 1, 2])):
                prims.append("%d %d %r %r" % (rng.choice([2, 2, 1, 0]), l, round(10 ** rng.uniform(-0.3, 0.6), 4), round(rng.uniform(-3, 5), 4)))
        if screened and len(prims) > 1:
            # local part first and tighter than the projectors (the order of the shipped library)
            t = prims[-1].split()
            prims = ["%s %s %r %s" % (t[0], t[1], round(float(t[2]) * 10.0 + 2.0, 4), t[3])] + [q for q in prims[:-1] if q.split()[1] != t[1]]
        lines.append("ecp %d %d %s" % (a, len(prims), " ".join(prims)))
    return {"lines": lines, "natoms": natoms, "shell_atoms": sh, "ecp_atoms": ec, "pos": pos, "shells": shells}


def expected_ids(sysd):
    """the documented rule: atoms numbered by first appearance among the shells, then the ECPs"""
    order = []
    for a in sysd["shell_atoms"] + sysd["ecp_atoms"]:
        if a not in order:
            order.append(a)
    return [order.index(a) for a in sysd["shell_atoms"]], [order.index(a) for a in sysd["ecp_atoms"]], order


def pattern(a, b, c):
    if a == b == c:
        return "A=B=C"
    if a == c:
        return "A=C" + ("<B" if a < b else ">B")
    if b == c:
        return "B=C" + ("<A" if b < a else ">A")
    if a == b:
        return "A=B" + ("<C" if a < c else ">C")
    return "distinct:" + "".join(x for _, x in sorted(zip((a, b, c), "ABC")))


def run(drv, text):
    r = subprocess.run([drv], input=text, stdout=subprocess.PIPE, stderr=subprocess.PIPE, text=True)
    return r.returncode, r.stdout, r.stderr


def parse_results(lines):
    out = {"D": {}, "H": {}}
    for l in lines:
        t = l.split()
        if not t:
            continue
        if t[0] == "ids":
            s = " ".join(t[1:]).split("|")
            out["ids"] = ([int(x) for x in s[0].split()], [int(x) for x in s[1].split()], int(s[2]))
        elif t[0] == "I":
            out["I"] = [unhex(x) for x in t[2:]]
            out["ncart"] = int(t[1])
        elif t[0] in ("D", "H"):
            out[t[0]][int(t[1])] = [unhex(x) for x in t[2:]]
    return out


def maxdiff(a, b):
    if a is None or b is None or len(a) != len(b):
        return float("inf"), 0.0
    sc = max([abs(x) for x in a] + [abs(x) for x in b] + [0.0])
    return max([abs(x - y) for x, y in zip(a, b)] + [0.0]), sc


def hpos(a, b, p, q, N):
    """documented position: blocks AA AB AC .. BB BC .. ; 6 comps (xx xy xz yy yz zz) on the diagonal, 9 off it"""
    assert a <= b
    start = sum(6 + 9 * (N - 1 - x) for x in range(a))
    if a == b:
        assert p <= q
        return start + {(0, 0): 0, (0, 1): 1, (0, 2): 2, (1, 1): 3, (1, 2): 4, (2, 2): 5}[(p, q)]
    return start + 6 + 9 * (b - a - 1) + 3 * p + q


HS = (1e-4, 3e-4, 1e-3)


def fd_oracle(drv, sysd, base):
    """central differences with respect to moving whole atoms (in the integrator's numbering).
    The computed integrals have isolated glitches as a function of geometry (C01/C12 findings), so each
    derivative is the element-wise MEDIAN of three step sizes: one bad evaluation cannot move it."""
    sid, eid, order = expected_ids(sysd)
    N = len(order)
    lines = list(sysd["lines"])
    gid = 1
    geoms = {}
    for n in range(N):
        atom = order[n]
        for q in range(3):
            for hi, h in enumerate(HS):
                for sgn in (1, -1):
                    pos = [list(p) for p in sysd["pos"]]
                    pos[atom][q] += sgn * h
                    lines.append("geom %d " % gid + " ".join(repr(x) for p in pos for x in p))
                    geoms[(n, q, hi, sgn)] = gid
                    gid += 1
    req = lines + ["results %d 1" % g for g in geoms.values()]
    rc, out, err = run(drv, "\n".join(req) + "\n")
    if rc != 0:
        return [{"what": "integrator crashed at a displaced geometry: " + err[-300:]}], 0.0
    blocks, cur = [], []
    for l in out.split("\n"):
        if l.startswith("< end"):
            blocks.append(parse_results(cur)); cur = []
        elif l.startswith("< "):
            cur.append(l[2:])
    res = dict(zip(geoms.keys(), blocks))
    fails, worst = [], 0.0

    def med(f, n, q):
        ds = [[(a - b) / (2 * h) for a, b in zip(f(res[(n, q, hi, 1)]), f(res[(n, q, hi, -1)]))] for hi, h in enumerate(HS)]
        return [sorted(t)[1] for t in zip(*ds)]
    scale1 = max([max(abs(x) for x in v) for v in base["D"].values()] + [1e-300])
    for n in range(N):
        for q in range(3):
            fd = med(lambda r: r["I"], n, q)
            d, _ = maxdiff(fd, base["D"].get(3 * n + q))
            worst = max(worst, d / scale1)
            if d > FD_TOL * scale1 + 1e-7:
                fails.append({"what": "first_derivs[%d] (atom %d, coordinate %d) differs from the finite difference of the integral matrix with respect to moving that atom by %.3g (largest derivative element %.3g)" % (3 * n + q, n, q, d, scale1)})
    if base["H"]:
        scale2 = max([max(abs(x) for x in v) for v in base["H"].values()] + [1e-300])
        if len(base["H"]) != 3 * N * (3 * N + 1) // 2:
            fails.append({"what": "second_derivs has %d matrices, documented %d" % (len(base["H"]), 3 * N * (3 * N + 1) // 2)})
        for a in range(N):
            for b in range(a, N):
                for p in range(3):
                    for q in range(3):
                        if a == b and p > q:
                            continue
                        fd = med(lambda r: r["D"][3 * a + p], b, q)
                        d, _ = maxdiff(fd, base["H"].get(hpos(a, b, p, q, N)))
                        worst = max(worst, d / scale2)
                        if d > FD_TOL * scale2 + 1e-7:
                            fails.append({"what": "second_derivs[%d] (atoms %d,%d coordinates %d,%d) differs from the finite difference of first_derivs[%d] with respect to atom %d coordinate %d by %.3g (largest element %.3g)" % (hpos(a, b, p, q, N), a, b, p, q, 3 * a + p, b, q, d, scale2)})
    return fails, worst


def one_system(args):
    drv, sysd, deriv = args
    rc, out, err = run(drv, "\n".join(sysd["lines"] + ["assemble 0 %d" % deriv]) + "\n")
    if rc != 0:
        return {"crash": err[-500:]}
    req = [l[2:] for l in out.split("\n") if l.startswith("> ")]
    real = parse_results([l[2:] for l in out.split("\n") if l.startswith("< ")])
    model = None
    if os.path.exists(core.DRIVER):
        ml = core.run_driver(req)
        model = parse_results(ml)
    return {"real": real, "model": model, "nblocks": sum(1 for l in req if l[:2] in ("i ", "d ", "h "))}


def main(ctx):
    rng = random.Random(ctx.seed * 65537 + 4)
    quick = ctx.tier == "quick"
    try:
        text, info = indexmaps.translate()
        core.write_if_changed(os.path.join(core.LEAN, "Ecpint", "Gen", "IndexMaps.lean"), text)
        ctx.obligation("translator indexmaps.py reads the index macros and arrays", True, json.dumps(info))
        tr_ok = True
    except TranslateError as e:
        ctx.obligation("translator indexmaps.py reads the index macros and arrays", False, str(e))
        tr_ok = False
    proofs_ok = ctx.lean_props("C04") if tr_ok else False
    b = build.build("plain")
    drv = build.compile_driver(b, "corr_api.cpp")
    # systems: hand-picked arrangements that reach every assembly branch in both orders, then random ones
    systems = []
    fixed = [(1, 2, 1), (2, 2, 1), (2, 3, 2), (3, 3, 2), (3, 4, 3), (3, 3, 3), (4, 4, 3), (4, 6, 3), (2, 1, 2), (3, 2, 3)]
    for na, ns, ne in fixed:
        systems.append(gen_system(rng, na, ns, ne, lmax=1))
    n_rand = 14 if quick else 60
    for i in range(n_rand):
        na = rng.randint(1, 4)
        systems.append(gen_system(rng, na, rng.randint(max(1, na - 2), 6 if not quick else 4), rng.randint(1, 3), lmax=2 if i % 5 == 0 else 1, far=(i % 7 == 3)))
    for i in range(8 if quick else 30):
        na = rng.randint(2, 3)
        systems.append(gen_system(rng, na, rng.randint(na + 1, 6), rng.randint(1, 2), lmax=1, screened=True))
    with ThreadPoolExecutor(16) as ex:
        results = list(ex.map(one_system, [(drv, s, 2) for s in systems]))
    corr_fail, prop_fail = [], []
    pats = {}
    nblocks = 0
    for sysd, r in zip(systems, results):
        if "crash" in r:
            prop_fail.append({"system": sysd["lines"], "what": "integrator crashed: " + r["crash"]})
            continue
        real, model = r["real"], r["model"]
        nblocks += r["nblocks"]
        sid, eid, order = expected_ids(sysd)
        for s1 in range(len(sid)):
            for s2 in range(s1 + 1):
                for u in eid:
                    k = pattern(sid[s1], sid[s2], u)
                    pats[k] = pats.get(k, 0) + 1
        # documented numbering and lengths: checked on the implementation directly
        if real.get("ids") != (sid, eid, len(order)):
            prop_fail.append({"system": sysd["lines"], "what": "atom ids %s, documented rule (first appearance among shells, then ECPs) gives %s" % (real.get("ids"), (sid, eid, len(order)))})
        N = len(order)
        if len(real["D"]) != 3 * N or len(real["H"]) != 3 * N * (3 * N + 1) // 2:
            prop_fail.append({"system": sysd["lines"], "what": "list lengths %d/%d, documented %d/%d" % (len(real["D"]), len(real["H"]), 3 * N, 3 * N * (3 * N + 1) // 2)})
        nc = real.get("ncart", 0)
        for name, m in [("integrals", real.get("I"))] + [("first_derivs[%d]" % k, v) for k, v in real["D"].items()] + [("second_derivs[%d]" % k, v) for k, v in real["H"].items()]:
            if m is None or len(m) != nc * nc:
                prop_fail.append({"system": sysd["lines"], "what": "%s is not ncart x ncart" % name}); break
            sc = max(abs(x) for x in m) if m else 0
            if any(abs(m[i * nc + j] - m[j * nc + i]) > 1e-9 * sc + 1e-14 for i in range(nc) for j in range(i)):
                prop_fail.append({"system": sysd["lines"], "what": "%s is not symmetric" % name}); break
        if model is None:
            continue
        bad = None
        if model.get("ids") != real.get("ids"):
            bad = "ids: model %s code %s" % (model.get("ids"), real.get("ids"))
        d, sc = maxdiff(model.get("I"), real.get("I"))
        if d > REL * sc + 1e-300:
            bad = "integrals differ by %.3g (scale %.3g)" % (d, sc)
        for key in ("D", "H"):
            if set(model[key]) != set(real[key]):
                bad = "%s list: model has %d matrices, code %d" % (key, len(model[key]), len(real[key]))
                continue
            for k in real[key]:
                d, sc = maxdiff(model[key][k], real[key][k])
                if d > REL * sc + 1e-300:
                    bad = "%s[%d] differs by %.3g (scale %.3g)" % (key, k, d, sc); break
        if bad:
            corr_fail.append({"system": sysd["lines"], "where": bad})
    ctx.obligation("correspondence: Lean assembly of the engine's blocks = ECPIntegrator matrices (rel 1e-13)", not corr_fail, json.dumps(corr_fail[:2])[:1500])
    # finite-difference search: full budget when something no longer checks, a smoke pass otherwise
    need_search = bool(ctx.broken) or bool(corr_fail)
    n_fd = (6 if quick else 40) if not need_search else (14 if quick else 60)
    fd_fail, worst = [], 0.0
    cand = [(s, r) for s, r in zip(systems, results) if "real" in r]
    if need_search and corr_fail:
        bad_lines = [c["system"] for c in corr_fail]
        cand.sort(key=lambda sr: 0 if sr[0]["lines"] in bad_lines else 1)
    with ThreadPoolExecutor(16) as ex:
        outs = list(ex.map(lambda sr: fd_oracle(drv, sr[0], sr[1]["real"]), cand[:n_fd]))
    for (s, r), (fails, w) in zip(cand[:n_fd], outs):
        worst = max(worst, w)
        for f in fails:
            f["system"] = s["lines"]
            fd_fail.append(f)
    ctx.coverage.update({"systems": len(systems), "low_level_blocks_assembled": nblocks, "coincidence_patterns_reached": pats,
                         "traces_validated_against_impl": len(systems) - len([r for r in results if "crash" in r]),
                         "fd_oracle_systems": min(n_fd, len(cand)), "fd_oracle_worst_relative_deviation": worst})
    ctx.sample({"system": systems[0]["lines"]})
    ctx.sample({"system": systems[-1]["lines"]})
    if prop_fail:
        ctx.violation("failing-input", prop_fail[0]["what"], {"input": prop_fail[0], "n_failing": len(prop_fail)}, True)
    elif corr_fail and proofs_ok:
        # the Lean model is proved equal to the documented assembly (Props/C04.lean builds), so a system on which
        # the integrator's matrices differ from the model's assembly of the engine's own blocks IS a failing input
        f = corr_fail[0]
        ctx.violation("failing-input", "integrator output differs from the documented assembly of the engine's own per-triple blocks: " + f["where"],
                      {"input": f, "n_failing": len(corr_fail), "fd_oracle_confirms": [x["what"] for x in fd_fail[:2]],
                       "replay_note": "feed `system` + 'assemble 0 2' to harness/corr_api.cpp and its '> ' lines to lean/.lake/build/bin/driver"}, True)
    elif need_search:
        if fd_fail:
            ctx.violation("failing-input", fd_fail[0]["what"], {"input": fd_fail[0], "n_failing": len(fd_fail),
                                                               "replay_note": "feed `system` + 'assemble 0 2' to harness/corr_api.cpp; the oracle is checks/c04.py:fd_oracle"}, True)
        else:
            ctx.violation("theorem-broken" if not proofs_ok else "correspondence-broken",
                          "C04 is no longer shown to hold: %s" % "; ".join(ctx.broken[:4]),
                          {"searched_systems": len(systems), "fd_oracle_systems": n_fd, "first_disagreement": corr_fail[:1]}, False)
    elif fd_fail:
        # assembly agrees with the model and the theorems hold, yet the matrices are not the derivatives of
        # the integrals: that is a defect of the low-level routines (C01-C03), reported there, not here
        ctx.notes.append("finite-difference smoke pass deviates although the assembly corresponds: %s" % fd_fail[0]["what"])
    ctx.assumptions += ["centres that belong to one atom are bit-identical and distinct atoms are at least 1 bohr apart in the generated systems (the model takes the same 1e-4 L1 test as init())",
                        "the element loops of api.cpp act block-wise on disjoint index ranges (validated by the correspondence, not proved)"]
    ctx.trusted += ["translate/indexmaps.py, harness/corr_api.cpp (restates the shell/ECP distance-screen threshold to tell the model which pairs are kept), comparison in checks/c04.py",
                    "the per-triple blocks are inputs: their values are C01-C03's subject"]
    return ctx.finish("proof")


def replay(ctx, path):
    rp = json.load(open(path))
    inp = rp.get("input") or {}
    if not inp.get("system"):
        print("replay file records no failing input; re-running the whole check")
        return main(ctx)
    b = build.build("plain")
    drv = build.compile_driver(b, "corr_api.cpp")
    rc, out, err = run(drv, "\n".join(inp["system"] + ["results 0 2"]) + "\n")
    real = parse_results([l[2:] for l in out.split("\n") if l.startswith("< ")])
    print("recorded:", rp.get("what"))
    print("ids now:", real.get("ids"), "lists:", len(real["D"]), len(real["H"]))
    return 0
