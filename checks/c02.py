"""C02 - analytic first derivatives of a shell pair equal the geometric gradient of the integrals.
proof: lean/Ecpint/Props/C02.lean over Model/Deriv.lean; tie: indexmaps translator + corr_deriv correspondence;
search: finite differences of compute_shell_pair w.r.t. each centre, sum rule, additivity at coincident centres."""
import json, os, random, sys
from concurrent.futures import ThreadPoolExecutor
sys.path.insert(0, os.path.join(os.path.dirname(os.path.abspath(__file__)), ".."))
from vlib import core, build
from translate import indexmaps
from translate.util import TranslateError
from checks import deriv_common as dc

ORDER = 1
PID = "C02"
TAGS = ("QA", "QB", "R1")
MAXL = 4  # LA+1, LB+1 <= MAX_L = 5
FD_TOL = 1e-3


def cases_for(ctx, rng, maxl, quick):
    cases = []
    k = ctx.seed
    for LA in range(maxl + 1):
        for LB in range(maxl + 1):
            if quick:
                brs = dc.BRANCHES if max(LA, LB) <= 1 else [dc.BRANCHES[(LA * 7 + LB * 3 + k) % 5], dc.BRANCHES[(LA + LB * 2 + k + 2) % 5]]
            else:
                brs = dc.BRANCHES
            for br in dict.fromkeys(brs):
                for rep in range(1 if quick else 3):
                    cases.append(dc.make_case(rng, LA, LB, br, ecpL=None if max(LA, LB) < 4 else rng.choice([1, 2])))
            # equal-parameter coincidences: a generally contracted pair (same exponents, other coefficients) and twins
            if LA == LB and (not quick or LA <= 2):
                # ("distinct", "same"): the same contracted shell on two different atoms - what every molecule with two equal atoms has
                for br, tw in (("A=B", "exps"), ("A=B", "same"), ("distinct", "exps"), ("distinct", "same")):
                    cases.append(dc.make_case(rng, LA, LB, br, ecpL=rng.choice([1, 2]), twin=tw))
    for (LA, LB) in ((1, 0), (0, 1), (1, 1), (2, 1)):
        if max(LA, LB) <= maxl:
            cases.append(dc.make_case(rng, LA, LB, "distinct", ecpL=2, across=True))
    return cases


def main(ctx, order=ORDER, pid=PID, tags=TAGS, maxl=MAXL, props="C02All", oracle=None, extra_modules=("Ecpint.Props.C02", "Ecpint.Props.C03b")):
    rng = random.Random(ctx.seed * 7907 + order)
    quick = ctx.tier == "quick"
    try:
        text, info = indexmaps.translate()
        core.write_if_changed(os.path.join(core.LEAN, "Ecpint", "Gen", "IndexMaps.lean"), text)
        ctx.obligation("translator indexmaps.py reads the index macros and arrays", True, json.dumps(info))
        tr_ok = True
    except TranslateError as e:
        ctx.obligation("translator indexmaps.py reads the index macros and arrays", False, str(e))
        tr_ok = False
    proofs_ok = ctx.lean_props(props, extra_modules=list(extra_modules)) if tr_ok else False
    cases = cases_for(ctx, rng, maxl, quick)
    drv, res, corr_fail, crash, worst = dc.run_cases(ctx, order, cases, tags)
    ctx.obligation("correspondence: Lean assembly of the shifted-shell blocks = the real routines' matrices (rel 1e-13)",
                   not corr_fail, json.dumps(corr_fail[:2])[:1500])
    # the shifted blocks themselves: derivative engine with shifts = plain engine with genuinely shifted shells
    srng = random.Random(ctx.seed * 13 + order)
    scases = []
    for LA in range(maxl + 1):
        for LB in range(maxl + 1):
            # ECP angular momentum below, at and above the basis angular momentum
            scases.append(dc.make_case(srng, LA, LB, dc.BRANCHES[(LA + 2 * LB) % 5] if (LA + LB) % 3 else "distinct", ecpL=[1, 2, 3, 0][(LA + 2 * LB) % 4]))   # LA = LB = 1 meets a purely local ECP (engine with maxLU = 0)
    # a purely local ECP (engine built with maxLU = 0) and the largest pair of that engine in general position: table sizes that
    # forget the derivative order have no headroom left there
    for k in (1, 2):
        if k <= maxl:
            scases.append(dc.make_case(srng, k, k, "distinct", ecpL=0))
    with ThreadPoolExecutor(16) as ex:
        sres = list(ex.map(lambda c: dc.shift_check(drv, c, order), scases))
    shift_fail, shift_worst, nshift = [], 0.0, 0
    for c, r in zip(scases, sres):
        if r is None:
            crash.append({"case": c["lines"], "what": "shifted-block comparison crashed", "class": (c["LA"], c["LB"], c["branch"])})
            continue
        w, sc, n, where = r
        nshift += n
        if sc > 0:
            shift_worst = max(shift_worst, w / sc)
        if w > 1e-12 * sc + 1e-300:
            shift_fail.append({"case": c["lines"], "class": (c["LA"], c["LB"], c["branch"], c["ecpL"]),
                               "what": "compute_shell_pair with shift (%s) on an engine built for derivative order %d differs from the block a plain engine computes for the genuinely shifted shells by %.3g (largest element %.3g)" % (where, order, w, sc), "hard": True})
    ctx.obligation("shifted blocks of the derivative engine = blocks of genuinely shifted shells on a plain engine (rel 1e-12)", not shift_fail,
                   json.dumps(shift_fail[:1])[:800])
    # the shifted blocks against the PIPELINE model (Model/ShellPair.lean): the same engine configuration the derivative routines use
    # (tables sized for maxLB + derivative order) and the shifts they pass, bit for bit
    from vlib import pairlib as pl
    pb = build.build("plain")
    pl.regen(ctx, pb)
    prng = random.Random(ctx.seed * 101 + order)
    pcases = []
    shifts = [(1, 0), (0, 1), (-1, 0), (0, -1), (1, 1), (-1, 1), (1, -1)] + ([(2, 0), (0, 2), (-2, 0), (0, -2), (-1, -1)] if order == 2 else [])
    for i in range(10 if quick else 60):
        mb = prng.randint(1, 2)
        LA, LB = prng.randint(0, mb), prng.randint(0, mb)
        sa, sb = shifts[(i + ctx.seed) % len(shifts)]
        if LA + sa < 0 or LB + sb < 0:
            sa, sb = abs(sa), abs(sb)
        C = [prng.uniform(-1, 1) for _ in range(3)]
        kind = [("general", "general"), ("on", "general"), ("general", "on"), ("axis", "plane")][i % 4]
        A = pl.rand_shell(prng, LA, pl.place(prng, C, kind[0]))
        B = pl.rand_shell(prng, LB, pl.place(prng, C, kind[1])) if i % 5 else dict(A, l=LB)
        pcases.append(dict(maxLB=mb, maxLU=prng.randint(0, 3), deriv=order, sa=sa, sb=sb, ecp=pl.rand_ecp(prng, prng.randint(1, 3), C), A=A, B=B, kind=list(kind)))
    for c in pcases:
        c["ecp"]["prims"] = [p for p in c["ecp"]["prims"] if p[1] <= c["maxLU"]] or [[2, 0, 1.0, 1.0]]
    pcases.sort(key=lambda c: (c["maxLB"], c["maxLU"]))
    pruns = pl.run_real(pl.pair_driver(pb), pcases)
    pbad = []
    if os.path.exists(core.DRIVER):
        pl.run_model(pruns, ("code",))
        pbad = [{"case": pl.fmt_case(r.case)} for r in pruns if not pl.same_bits(r.bits, r.model.get("code"))]
    ctx.obligation("correspondence: Lean pipeline model = real compute_shell_pair with shifts on engines built for derivative order %d, bit for bit (%d blocks)" % (order, len(pruns)),
                   not pbad, json.dumps(pbad[:2])[:800])
    classes = {}
    for c in cases:
        classes[c["branch"]] = classes.get(c["branch"], 0) + 1
    # the property's own oracle on the implementation
    need_search = bool(ctx.broken)
    benign_rng = random.Random(ctx.seed * 31 + 7)
    n_or = (10 if quick else 60) if not need_search else (40 if quick else 150)
    ocases = []
    for i in range(n_or):
        LA, LB = benign_rng.randint(0, min(maxl, 2)), benign_rng.randint(0, min(maxl, 2))
        ocases.append(dc.make_case(benign_rng, LA, LB, dc.BRANCHES[i % 5], ecpL=benign_rng.choice([1, 2]), benign=True))
    if need_search and corr_fail:
        # put the classes on which the correspondence broke first
        bad = {tuple(c["class"]) for c in corr_fail}
        for (LA, LB, br) in list(bad)[:20]:
            ocases.insert(0, dc.make_case(benign_rng, LA, LB, br, ecpL=2, benign=True))
    orc = oracle or first_oracle_case
    with ThreadPoolExecutor(16) as ex:
        ores = list(ex.map(lambda c: orc(drv, c, order), ocases))
    or_fail, or_worst = [], 0.0
    for c, (fails, w) in zip(ocases, ores):
        or_worst = max(or_worst, w)
        for f in fails:
            f["case"] = c["lines"]; f["class"] = (c["LA"], c["LB"], c["branch"])
            or_fail.append(f)
    ctx.coverage.update({"cases": len(cases), "classes_LA_LB": (maxl + 1) ** 2, "branches": classes,
                         "traces_validated_against_impl": len(cases) - len(crash), "correspondence_worst_rel": worst,
                         "oracle_cases": len(ocases), "oracle_worst_relative_deviation": or_worst,
                         "shifted_blocks_compared": nshift, "shifted_blocks_worst_rel": shift_worst})
    ctx.sample({"case": cases[0]["lines"], "class": (cases[0]["LA"], cases[0]["LB"], cases[0]["branch"])})
    ctx.sample({"case": cases[-1]["lines"], "class": (cases[-1]["LA"], cases[-1]["LB"], cases[-1]["branch"])})
    hard = shift_fail + [f for f in or_fail if f.get("hard")]
    if crash:
        ctx.violation("failing-input", crash[0]["what"], {"input": crash[0], "n_failing": len(crash)}, True)
    elif hard:
        ctx.violation("failing-input", hard[0]["what"], {"input": hard[0], "n_failing": len(hard)}, True)
    elif corr_fail and proofs_ok:
        f = corr_fail[0]
        ctx.violation("failing-input", "the routine's output differs from the documented combination of the engine's own shifted-shell blocks: " + f["where"],
                      {"input": f, "n_failing": len(corr_fail), "oracle_confirms": [x["what"] for x in or_fail[:2]],
                       "replay_note": "feed `case` + 'deriv 0 1 0 %d' to harness/corr_deriv.cpp and its '> ' lines to the Lean driver" % order}, True)
    elif need_search:
        if or_fail:
            ctx.violation("failing-input", or_fail[0]["what"], {"input": or_fail[0], "n_failing": len(or_fail)}, True)
        else:
            ctx.violation("theorem-broken" if not proofs_ok else "correspondence-broken",
                          "%s is no longer shown to hold: %s" % (pid, "; ".join(ctx.broken[:4])),
                          {"searched_cases": len(cases), "oracle_cases": len(ocases), "first_disagreement": corr_fail[:1]}, False)
    elif or_fail:
        ctx.notes.append("finite-difference smoke pass deviates although assembly corresponds (numerical accuracy of the blocks is C01's subject): %s" % or_fail[0]["what"])
    ctx.assumptions += ["the shifted-shell blocks are inputs of the model; their accuracy is C01's subject",
                        "differentiation under the integral sign (the identity the routines implement is proved for the integrand in Props)"]
    ctx.trusted += ["translate/indexmaps.py, harness/corr_deriv.cpp (fetches the blocks through the public shift arguments with the documented coefficient scaling), comparison in checks/deriv_common.py"]
    return ctx.finish("proof")


def first_oracle_case(drv, case, order):
    r = dc.one_case((drv, case, 1))
    if "crash" in r:
        return [{"what": "routine crashed: " + r["crash"], "hard": True}], 0.0
    fails, w = dc.first_oracle(drv, case, r["real"], FD_TOL)
    for f in fails:
        if "sum rule" in f["what"]:
            f["hard"] = True   # exact algebraic statement of the property, no numerical noise involved
    return fails, w
