"""C13 - angular integral tables and real spherical harmonics are exact.

proof   : lean/Ecpint/Props/C13.lean (closed form and symmetry of the monomial sphere integrals the tables are built
          from, parity facts).  PARTIAL: the identification of the tables with sphere integrals rests on the oracle run.
tie     : correspondence: the Lean model at Float (uklm, Pijk, makeW, makeOmega including the overlap of its four
          symmetric stores, realSphericalHarmonics) against the real tables, BIT FOR BIT - every stored entry of a
          small (LB,LE) and parity-aware samples of the large ones.
search  : product Gauss-Legendre x trapezoid quadrature on the sphere with scipy's associated Legendre functions
          (exact for the polynomial degrees involved), 1e-12; orthonormality and addition theorem of the evaluator.
"""
import json, math, os, random, struct, subprocess, sys
import itertools
sys.path.insert(0, os.path.join(os.path.dirname(os.path.abspath(__file__)), ".."))
from vlib import core, build

TOL = 1e-12


def hx(x):
    return struct.pack(">d", x).hex()


def unhex(s):
    return struct.unpack(">d", bytes.fromhex(s))[0]


def dims(LB, LE):
    return max(4 * LB, 3 * LB + LE), max(2 * LB, LB + LE), LE + LB


def sample_w(rng, LB, LE, n, all_=False):
    wDim, maxL, _ = dims(LB, LE)
    out = []
    if all_:
        for k, l, m in itertools.product(range(wDim + 1), repeat=3):
            for lam in range(maxL + 1):
                for idx in range(2 * lam + 1):
                    out.append((k, l, m, lam, idx))
        return out
    while len(out) < n:
        k, l, m = (rng.randint(0, wDim) for _ in range(3))
        lam = rng.randint(0, maxL)
        if rng.random() < 0.85:   # parity-allowed entries are the non-zero ones
            lam = min(lam, k + l + m)
            if (lam - (k + l + m)) % 2:
                lam = max(lam - 1, 0) if lam > 0 else lam + 1
                if lam > maxL or lam > k + l + m:
                    continue
            mu = rng.randrange((k + l) % 2, lam + 1, 2) if lam >= (k + l) % 2 else None
            if mu is None:
                continue
            idx = lam - mu if l % 2 else lam + mu
        else:
            idx = rng.randint(0, 2 * lam)
        out.append((k, l, m, lam, idx))
    return out


def sample_o(rng, LB, LE, n, all_=False):
    _, _, lamDim = dims(LB, LE)
    out = []
    if all_:
        for k, l, m in itertools.product(range(LB + 1), repeat=3):
            for a in range(lamDim + 1):
                for ia in range(2 * a + 1):
                    for b in range(lamDim + 1):
                        for ib in range(2 * b + 1):
                            out.append((k, l, m, a, ia, b, ib))
        return out
    while len(out) < n:
        k, l, m = (rng.randint(0, LB) for _ in range(3))
        a, b = rng.randint(0, lamDim), rng.randint(0, lamDim)
        if rng.random() < 0.3:
            b = a
        out.append((k, l, m, a, rng.randint(0, 2 * a), b, rng.randint(0, 2 * b)))
    return out


ORACLE = r'''
import sys, json, math
import numpy as np
from scipy.special import lpmv, factorial
n_th, n_ph = 48, 96
xs, ws = np.polynomial.legendre.leggauss(n_th)
ph = np.arange(n_ph) * 2 * np.pi / n_ph
X, PH = np.meshgrid(xs, ph, indexing="ij")
WT = np.outer(ws, np.full(n_ph, 2 * np.pi / n_ph))
ST = np.sqrt(1 - X * X)
cx, cy, cz = ST * np.cos(PH), ST * np.sin(PH), X
def S(l, m, x, phi):
    am = abs(m)
    N = math.sqrt((2 * l + 1) / (4 * math.pi) * float(factorial(l - am, exact=True)) / float(factorial(l + am, exact=True)))
    P = lpmv(am, l, x) * (-1) ** am          # scipy includes the Condon-Shortley phase; the library's harmonics do not
    if m == 0:
        return N * P
    return math.sqrt(2) * N * P * (np.cos(am * phi) if m > 0 else np.sin(am * phi))
cache = {}
def Sg(l, m):
    if (l, m) not in cache:
        cache[(l, m)] = S(l, m, X, PH)
    return cache[(l, m)]
for line in sys.stdin:
    d = json.loads(line)
    out = []
    if d["kind"] == "W":
        for k, l, m, lam, idx in d["e"]:
            out.append(float(np.sum(WT * cx**k * cy**l * cz**m * Sg(lam, idx - lam))))
    elif d["kind"] == "O":
        for k, l, m, a, ia, b, ib in d["e"]:
            out.append(float(np.sum(WT * cx**k * cy**l * cz**m * Sg(a, ia - a) * Sg(b, ib - b))))
    elif d["kind"] == "S":
        for l, m, x, phi in d["e"]:
            out.append(float(S(l, m, x, phi)))
    elif d["kind"] == "grid":
        out = {"x": xs.tolist(), "w": ws.tolist(), "nph": n_ph}
    print(json.dumps(out)); sys.stdout.flush()
'''


def oracle(reqs):
    r = subprocess.run(["python3-vt", "-c", ORACLE], input="\n".join(json.dumps(q) for q in reqs) + "\n", stdout=subprocess.PIPE, stderr=subprocess.PIPE, text=True)
    out = [json.loads(l) for l in r.stdout.split("\n") if l]
    if len(out) != len(reqs):
        raise RuntimeError("angular oracle failed: " + r.stderr[-500:])
    return out


def run_lines(cmd, lines):
    r = subprocess.run(cmd, input="\n".join(lines) + "\n", stdout=subprocess.PIPE, stderr=subprocess.PIPE, text=True)
    if r.returncode != 0:
        raise RuntimeError("%s failed: %s" % (cmd[0], r.stderr[-500:]))
    return [l for l in r.stdout.split("\n") if l]


def main(ctx):
    rng = random.Random(ctx.seed * 7211 + 13)
    quick = ctx.tier == "quick"
    proofs_ok = ctx.lean_props("C13", extra_modules=["Ecpint.Props.C13a", "Ecpint.Props.C13b", "Ecpint.Props.C13c", "Ecpint.Props.C13d", "Ecpint.Props.C13e"])
    b = build.build("plain")
    drv = build.compile_driver(b, "corr_angular.cpp")
    # (LB, LE): LB = basis angular momentum + derivative order <= MAX_L, LE <= MAX_L
    plan = [((1, 1), True, 0, 0), ((2, 1), True, 0, 0)] + ([((3, 3), False, 6000, 12000), ((5, 5), False, 6000, 12000), ((4, 2), False, 3000, 6000), ((2, 5), False, 3000, 6000)] if quick else
                                                             [((2, 2), True, 0, 0), ((3, 3), False, 60000, 120000), ((5, 5), False, 80000, 160000)] +
                                                             [((lb, le), False, 8000, 16000) for lb in range(6) for le in range(6) if (lb, le) not in ((3, 3), (5, 5))])
    reqs, entries = [], []
    for (LB, LE), all_, nw, no in plan:
        w = sample_w(rng, LB, LE, nw, all_)
        o = sample_o(rng, LB, LE, no, all_)
        # chunk so that lines stay manageable
        for i in range(0, max(len(w), len(o)), 20000):
            wc, oc = w[i:i + 20000], o[i:i + 20000]
            reqs.append("angular %d %d W %s O %s" % (LB, LE, " ".join(" ".join(map(str, e)) for e in wc), " ".join(" ".join(map(str, e)) for e in oc)))
            entries.append(((LB, LE), wc, oc))
    # harmonics: poles, axes, random directions
    dirs = [(1.0, 0.0), (-1.0, 0.0), (0.0, 0.0), (0.0, math.pi / 2), (0.0, math.pi), (0.0, -math.pi / 2), (1.0, 1.3), (-1.0, -2.0)]
    dirs += [(rng.uniform(-1, 1), rng.uniform(-math.pi, math.pi)) for _ in range(20 if quick else 200)]
    dirs += [(math.cos(1e-9), 0.4), (1 - 1e-15, 2.0)]
    lmax = 12
    rsh_reqs = ["rsh %d %s %s" % (lm, hx(x), hx(phi)) for (x, phi) in dirs for lm in (lmax, 0, 1, 5)]
    real = run_lines([drv], reqs + rsh_reqs)
    corr_bad, n_cmp = [], 0
    if os.path.exists(core.DRIVER):
        model = [l for l in core.run_driver(reqs + rsh_reqs, timeout=3600) if l]
        if len(model) != len(real):
            corr_bad.append({"what": "model %d lines, code %d" % (len(model), len(real))})
        for a, m in zip(real, model):
            n_cmp += len(a.split()) - 1
            if a.split() != m.split() and len(corr_bad) < 5:
                ta, tm = a.split(), m.split()
                k = next((i for i, (x, y) in enumerate(zip(ta, tm)) if x != y), None)
                corr_bad.append({"line": ta[0], "position": k, "code": unhex(ta[k]) if k and len(ta[k]) == 16 else None, "model": unhex(tm[k]) if k and k < len(tm) and len(tm[k]) == 16 else None})
    ctx.obligation("correspondence: Lean angular model = real tables and harmonics, bit for bit", not corr_bad, json.dumps(corr_bad[:2]))
    # oracle: sphere quadrature
    fails, worst, n_or, n_nonzero = [], 0.0, 0, 0
    oreqs, omap = [], []
    li = 0
    for (cfg, wc, oc) in entries:
        wl, ol = real[li].split()[1:], real[li + 1].split()[1:]
        li += 2
        nsel = 1500 if quick else 20000
        wi = list(range(len(wc))) if len(wc) <= nsel else sorted(rng.sample(range(len(wc)), nsel))
        oi = list(range(len(oc))) if len(oc) <= nsel else sorted(rng.sample(range(len(oc)), nsel))
        oreqs.append({"kind": "W", "e": [wc[i] for i in wi]}); omap.append((cfg, "W", [wc[i] for i in wi], [unhex(wl[i]) for i in wi]))
        oreqs.append({"kind": "O", "e": [oc[i] for i in oi]}); omap.append((cfg, "O", [oc[i] for i in oi], [unhex(ol[i]) for i in oi]))
    # evaluator against the oracle's harmonics
    S_lines = real[li:]
    sreq, sval = [], []
    k = 0
    for (x, phi) in dirs:
        for lm in (lmax, 0, 1, 5):
            for l in range(lm + 1):
                row = S_lines[k].split()[2:]
                k += 1
                if lm != lmax:
                    continue
                for m in range(-l, l + 1):
                    sreq.append((l, m, x, phi)); sval.append(unhex(row[l + m]))
    oreqs.append({"kind": "S", "e": sreq}); omap.append((None, "S", sreq, sval))
    res = oracle(oreqs)
    for (cfg, kind, es, vals), refs in zip(omap, res):
        for e, v, r in zip(es, vals, refs):
            n_or += 1
            if abs(r) > 1e-9:
                n_nonzero += 1
            d = abs(v - r) if v == v else float("inf")
            worst = max(worst, d)
            if d > TOL:
                what = {"W": "type-1 entry (LB,LE)=%s (i,j,k,lambda,mu)=%s: stored %r, sphere integral %r" % (cfg, (e[0], e[1], e[2], e[3], e[4] - e[3]) if kind == "W" else None, v, r),
                        "O": "type-2 entry (LB,LE)=%s (i,j,k,lambda,mu,rho,sigma)=%s: stored %r, sphere integral %r" % (cfg, (e[0], e[1], e[2], e[3], e[4] - e[3], e[5], e[6] - e[5]) if kind == "O" else None, v, r),
                        "S": "harmonic evaluator S(l=%s,m=%s) at cos(theta)=%r, phi=%r returns %r, reference %r" % (e[0], e[1], e[2], e[3], v, r) if kind == "S" else None}[kind]
                fails.append({"kind": kind, "config": cfg, "entry": e, "stored": v, "reference": r, "what": what})
    # orthonormality and addition theorem from the evaluator's own values
    grid = oracle([{"kind": "grid"}])[0]
    lo = 6 if quick else 10
    greqs = []
    for x in grid["x"]:
        for j in range(grid["nph"]):
            greqs.append("rsh %d %s %s" % (lo, hx(x), hx(2 * math.pi * j / grid["nph"])))
    gl = run_lines([drv], greqs)
    import collections
    acc = collections.defaultdict(float)
    idx = 0
    for xi, (x, w) in enumerate(zip(grid["x"], grid["w"])):
        for j in range(grid["nph"]):
            vals = []
            for l in range(lo + 1):
                row = gl[idx].split()[2:]
                idx += 1
                vals += [unhex(row[l + m]) for m in range(-l, l + 1)]
            wt = w * 2 * math.pi / grid["nph"]
            for a in range(len(vals)):
                va = vals[a] * wt
                for bb in range(a, len(vals)):
                    acc[(a, bb)] += va * vals[bb]
    ortho_worst = 0.0
    for (a, bb), v in acc.items():
        d = abs(v - (1.0 if a == bb else 0.0))
        ortho_worst = max(ortho_worst, d)
        if d > 1e-11:
            fails.append({"kind": "ortho", "what": "harmonics %d and %d (flattened l,m order) are not orthonormal: overlap %r" % (a, bb, v)})
    ctx.coverage.update({"configs": [p[0] for p in plan], "entries_compared_bitwise": n_cmp, "traces_validated_against_impl": n_cmp,
                         "oracle_entries": n_or, "oracle_nonzero_entries": n_nonzero, "oracle_worst_abs_error": worst,
                         "orthonormality_worst": ortho_worst, "harmonic_directions": len(dirs), "exhaustive_configs": [p[0] for p in plan if p[1]]})
    ctx.sample({"request": reqs[0][:160]})
    if fails:
        ctx.violation("failing-input", fails[0]["what"], {"input": fails[0], "n_failing": len(fails)}, True)
    elif ctx.broken:
        ctx.violation("theorem-broken" if not proofs_ok else "correspondence-broken", "C13 is no longer shown to hold: %s" % "; ".join(ctx.broken[:4]),
                      {"first_disagreement": corr_bad[:1]}, False)
    ctx.assumptions += ["the monomial sphere-integral formula 4 pi (i-1)!!(j-1)!!(k-1)!!/(i+j+k+1)!! (classical)"]
    ctx.trusted += ["harness/corr_angular.cpp (reads the private tables with -fno-access-control); numpy/scipy (Gauss-Legendre nodes, lpmv)"]
    return ctx.finish("proof")
