"""C17 - copies of shells, ECPs, arrays and integrators are independent values.

proof   : lean/Ecpint/Props/C17.lean - heap machine defined from the copy-semantics table; invariant
          "a local-centre shell points at its own storage" for every operation sequence; independence;
          copies carry all attributes.
tie     : translate/copysem.py (clang AST of the class definitions, every run) + correspondence of the
          heap machine with real objects driven through the same operation sequences
          (harness/corr_copy.cpp; pointers classified by address).
search  : the same runs against the property's own oracle (copy shows what the source shows; an
          operation on one object changes nothing observable of another; no foreign/dangling centre),
          real std::vector algorithms against pure list semantics, copy/assign round trips of the
          value classes.
"""
import itertools, json, os, random, subprocess, sys
from concurrent.futures import ThreadPoolExecutor
sys.path.insert(0, os.path.join(os.path.dirname(os.path.abspath(__file__)), ".."))
from vlib import core, build
from translate import copysem
from translate.util import TranslateError


def enum_sequences(maxlen):
    """all structural operation sequences up to maxlen (ids are creation order)"""
    out = []
    def rec(seq, live, nxt, tok):
        if seq:
            out.append(list(seq))
        if len(seq) == maxlen:
            return
        opts = [("L%d,%d" % (tok, len(seq) % 3), "new"), ("X%d,%d" % (nxt % 2, 1), "new")]
        for s in live:
            opts += [("C%d" % s, "new"), ("M%d" % s, "new"), ("D%d" % s, "del%d" % s), ("W%d,%d" % (s, tok + 50), "")]
            for d in live:
                opts.append(("A%d,%d" % (d, s), ""))
        for o, eff in opts:
            l2, n2 = live, nxt
            if eff == "new":
                l2, n2 = live + [nxt], nxt + 1
            elif eff.startswith("del"):
                l2 = [x for x in live if x != int(eff[3:])]
            seq.append(o)
            rec(seq, l2, n2, tok + 1)
            seq.pop()
    rec([], [], 0, 1)
    return out


def random_sequence(rng, L):
    seq, live, nxt = [], [], 0
    for i in range(L):
        c = rng.random()
        if not live or c < 0.15:
            seq.append("L%d,%d" % (rng.randint(1, 90), rng.randint(0, 4))); live.append(nxt); nxt += 1
        elif c < 0.22:
            seq.append("X%d,%d" % (rng.randint(0, 5), rng.randint(0, 4))); live.append(nxt); nxt += 1
        elif c < 0.34:
            seq.append("C%d" % rng.choice(live)); live.append(nxt); nxt += 1
        elif c < 0.42:
            seq.append("M%d" % rng.choice(live)); live.append(nxt); nxt += 1
        elif c < 0.60:
            seq.append("A%d,%d" % (rng.choice(live), rng.choice(live)))
        elif c < 0.68:
            seq.append("P%d,%d,%d" % (rng.choice(live), rng.randint(1, 200), rng.randint(1, 9)))
        elif c < 0.76:
            seq.append("W%d,%d" % (rng.choice(live), rng.randint(100, 900)))
        elif c < 0.82:
            seq.append("T%d,%d" % (rng.choice(live), rng.randint(0, 9)))
        elif c < 0.86:
            seq.append("B%d,%d" % (rng.randint(0, 5), rng.randint(2000, 3000)))
        else:
            o = rng.choice(live); seq.append("D%d" % o); live.remove(o)
    return seq


def parse_objs(toks):
    d = {}
    for t in toks:
        i, rest = t.split(":", 1)
        d[int(i)] = dict(kv.split("=", 1) for kv in rest.split(";"))
    return d


def obj_match(model, real):
    for k in ("e", "c", "x", "m", "l", "p"):
        if model[k] != real[k] and model[k] != "?":
            return False
    return model["a"] == "?" or model["a"] == real["a"]


def vec_oracle(ops):
    """pure list semantics of the `vec` operations: list of attribute dicts per step for v and w"""
    def elem(a, l, ext=None):
        if ext is None:
            return {"e": str(a + 1), "c": "3", "x": str(a), "m": str(a + 1), "l": str(l), "a": str(a % 7), "p": "own"}
        return {"e": str(ext + 1), "c": "2", "x": str(1000 + ext), "m": str(ext + 1), "l": str(l), "a": "-1", "p": "ext%d" % ext}
    v, w, has_w, res = [], [], False, []
    for s in ops:
        tie = False
        if s.startswith("pushx"):
            b, l = map(int, s[5:].split(",")); v.append(elem(0, l, b))
        elif s.startswith("push"):
            a, l = map(int, s[4:].split(",")); v.append(elem(a, l))
        elif s.startswith("erase"):
            i = int(s[5:]);
            if i < len(v): del v[i]
        elif s.startswith("insert"):
            i, a, l = map(int, s[6:].split(","))
            if i <= len(v): v.insert(i, elem(a, l))
        elif s == "sort":
            v.sort(key=lambda e: (int(e["l"]), float(e["m"]))); tie = True
        elif s == "rev":
            v.reverse()
        elif s == "swapfront":
            if len(v) >= 2: v[0], v[-1] = v[-1], v[0]
        elif s == "grow":
            pass
        elif s in ("copyvec", "assignvec"):
            w, has_w = [dict(e) for e in v], True
        elif s.startswith("atom"):
            i, a = map(int, s[4:].split(","))
            if i < len(v): v[i]["a"] = str(a)
        elif s.startswith("move"):
            i, a = map(int, s[4:].split(","))
            if i < len(v) and v[i]["p"] == "own": v[i]["x"] = str(a)
        elif s == "dropv":
            v = []
        res.append(([dict(e) for e in v], [dict(e) for e in w] if has_w else None, tie))
    return res


def random_vec(rng, L):
    ops, n = [], 0
    for _ in range(L):
        c = rng.random()
        if n == 0 or c < 0.3:
            ops.append("push%d,%d" % (rng.randint(1, 60), rng.randint(0, 3))); n += 1
        elif c < 0.36:
            ops.append("pushx%d,%d" % (rng.randint(0, 5), rng.randint(0, 3))); n += 1
        elif c < 0.5:
            ops.append("erase%d" % rng.randint(0, n - 1)); n -= 1
        elif c < 0.62:
            ops.append("insert%d,%d,%d" % (rng.randint(0, n), rng.randint(1, 60), rng.randint(0, 3))); n += 1
        elif c < 0.7:
            ops.append("sort")
        elif c < 0.75:
            ops.append("rev")
        elif c < 0.8:
            ops.append("swapfront")
        elif c < 0.84:
            ops.append("grow")
        elif c < 0.9:
            ops.append(rng.choice(["copyvec", "assignvec"]))
        elif c < 0.95:
            ops.append("move%d,%d" % (rng.randint(0, n - 1), rng.randint(100, 900)))
        else:
            ops.append("atom%d,%d" % (rng.randint(0, n - 1), rng.randint(0, 9)))
    if rng.random() < 0.3 and "copyvec" in ops:
        ops.append("dropv")
    return ops


def chunked_run(drv, lines, nproc=16, env=None):
    chunks = [lines[i::nproc] for i in range(nproc)]
    def one(c):
        if not c:
            return []
        r = subprocess.run([drv], input="\n".join(c) + "\n", stdout=subprocess.PIPE, stderr=subprocess.PIPE, text=True, env=env)
        blocks, cur = [], []
        for l in r.stdout.split("\n"):
            if l == "end":
                blocks.append(cur); cur = []
            elif l:
                cur.append(l)
        if r.returncode != 0 or len(blocks) != len(c):
            # attribute the crash to the first line without a complete block
            blocks.append(["CRASH rc=%s %s" % (r.returncode, r.stderr[-800:].replace("\n", " | "))])
            while len(blocks) < len(c):
                blocks.append(["NOTRUN"])
        return blocks
    with ThreadPoolExecutor(nproc) as ex:
        res = list(ex.map(one, chunks))
    out = [None] * len(lines)
    for i, blocks in enumerate(res):
        for j, b in enumerate(blocks):
            out[i + j * nproc] = b
    return out


def main(ctx):
    rng = random.Random(ctx.seed * 104729 + 17)
    quick = ctx.tier == "quick"
    b = build.build("plain")
    info = None
    try:
        text, info = copysem.translate(b)
        core.write_if_changed(os.path.join(core.LEAN, "Ecpint", "Gen", "CopySem.lean"), text)
        ctx.obligation("translator copysem.py reads the class definitions (clang AST)", True, json.dumps(info["shell"]))
    except TranslateError as e:
        ctx.obligation("translator copysem.py reads the class definitions (clang AST)", False, str(e))
    proofs_ok = ctx.lean_props("C17") if info is not None else False

    bb = b if quick else build.build("asan")
    drv = build.compile_driver(bb, "corr_copy.cpp")
    env = dict(os.environ, ASAN_OPTIONS="detect_leaks=0:abort_on_error=0", UBSAN_OPTIONS="print_stacktrace=1")
    seqs = enum_sequences(4 if quick else 5)
    n_exh = len(seqs)
    seqs += [random_sequence(rng, rng.randint(6, 30)) for _ in range(400 if quick else 20000)]
    real = chunked_run(drv, ["copy " + " ".join(s) for s in seqs], env=env)
    model = None
    if os.path.exists(core.DRIVER):
        ml = core.run_driver(["copy " + " ".join(s) for s in seqs])
        model, cur = [], None
        for l in ml:
            if l.startswith("c 0") or l == "bad-op":
                cur = []
                model.append(cur)
            if l.startswith("c "):
                cur.append(l)
    prop_fail, corr_fail = [], []
    n_obs = 0
    ptr_classes = {}
    for si, seq in enumerate(seqs):
        blk = real[si]
        if blk and (blk[-1].startswith("CRASH") or blk[-1] == "NOTRUN"):
            if blk[-1].startswith("CRASH"):
                prop_fail.append({"ops": seq, "what": "harness crashed / sanitizer report: " + blk[-1][:600]})
            continue
        prev = {}
        failed = False
        for k, line in enumerate(blk):
            t = line.split()
            if t[0] != "c":
                prop_fail.append({"ops": seq[:k + 1], "what": "harness rejected a generated operation: " + line}); break
            objs = parse_objs(t[2:])
            n_obs += 1
            op = seq[k]
            what = None
            for i, o in objs.items():
                ptr_classes[o["p"].rstrip("0123456789")] = ptr_classes.get(o["p"].rstrip("0123456789"), 0) + 1
                if not (o["p"] == "own" or o["p"].startswith("ext")):
                    what = "live shell %d: centre pointer is %s after %s" % (i, o["p"], op)
                if o["x"] in ("!", "#torn"):
                    what = "live shell %d: centre unreadable (%s) after %s" % (i, o["x"], op)
            args = [int(x) for x in op[1:].split(",")]
            tgt = None
            if op[0] in "CM":
                tgt = max(objs)
                src = objs.get(args[0])
                if src and any(objs[tgt][f] != src[f] for f in ("e", "c", "x", "m", "l", "a")):
                    what = "%s: the copy differs from its source: %s vs %s" % (op, objs[tgt], src)
            elif op[0] == "A":
                tgt = args[0]
                if any(objs[tgt][f] != objs[args[1]][f] for f in ("e", "c", "x", "m", "l", "a")):
                    what = "%s: the assigned shell differs from its source: %s vs %s" % (op, objs[tgt], objs[args[1]])
            elif op[0] in "XL":
                tgt = max(objs)
            elif op[0] in "PWTD":
                tgt = args[0]
            for i, o in objs.items():
                if i != tgt and i in prev:
                    if op[0] == "B" and prev[i]["p"] == "ext%d" % args[0]:
                        continue
                    if o != prev[i]:
                        what = "%s changed shell %d, which it does not touch: %s -> %s" % (op, i, prev[i], o)
            if what and not failed:
                failed = True
                prop_fail.append({"ops": seq[:k + 1], "what": what})
            if model is not None and si < len(model) and k < len(model[si]):
                mo = parse_objs(model[si][k].split()[2:])
                if set(mo) != set(objs) or any(not obj_match(mo[i], objs[i]) for i in mo):
                    if len(corr_fail) < 20:
                        corr_fail.append({"ops": seq[:k + 1], "model": model[si][k], "code": line})
            prev = objs
    ctx.sample({"copy_ops": seqs[n_exh // 2]})
    ctx.sample({"copy_ops": seqs[-1]})
    # std::vector algorithms against list semantics
    vseqs = [random_vec(rng, rng.randint(3, 25)) for _ in range(300 if quick else 10000)]
    vreal = chunked_run(drv, ["vec " + " ".join(s) for s in vseqs], env=env)
    n_vec_obs = 0
    for vi, ops in enumerate(vseqs):
        blk = vreal[vi]
        if blk and (blk[-1].startswith("CRASH") or blk[-1] == "NOTRUN"):
            if blk[-1].startswith("CRASH"):
                prop_fail.append({"vec_ops": ops, "what": "harness crashed / sanitizer report: " + blk[-1][:600]})
            continue
        want = vec_oracle(ops)
        got = {}
        for line in blk:
            t = line.split()
            got[(t[0], int(t[1]))] = [v for _, v in sorted(parse_objs(t[3:]).items())]
        for k, (v, w, tie) in enumerate(want):
            n_vec_obs += 1
            gv = got.get(("v", k))
            bad = None
            canon = lambda L: sorted(json.dumps(e, sort_keys=True) for e in L)
            if gv is None or (canon(gv) != canon(v) if tie else gv != v):
                bad = "vector after %s is %s, list semantics gives %s" % (ops[k], gv, v)
            if tie and gv and [(int(e["l"]), float(e["m"])) for e in gv] != sorted((int(e["l"]), float(e["m"])) for e in gv):
                bad = "vector not sorted after sort"
            if w is not None and got.get(("w", k)) != w:
                bad = "copied vector after %s is %s, expected %s" % (ops[k], got.get(("w", k)), w)
            if bad:
                prop_fail.append({"vec_ops": ops[:k + 1], "what": bad}); break
    ctx.sample({"vec_ops": vseqs[0]})
    # value classes
    vc = chunked_run(drv, ["valueclasses"], nproc=1, env=env)[0]
    n_vc = 0
    for l in vc:
        if l.startswith("vc "):
            n_vc += 1
            if " FAIL" in l:
                prop_fail.append({"valueclass": l, "what": l})
        elif l.startswith("CRASH"):
            prop_fail.append({"valueclass": "crash", "what": l[:600]})
    ctx.coverage.update({"copy_sequences": len(seqs), "exhaustive_sequences": n_exh, "exhaustive_length": 4 if quick else 5,
                         "vector_sequences": len(vseqs), "valueclass_checks": n_vc,
                         "traces_validated_against_impl": n_obs + n_vec_obs, "pointer_classes_seen": ptr_classes,
                         "sanitizers": "none (quick)" if quick else "ASan+UBSan"})
    ctx.obligation("correspondence: heap machine = real objects after every operation", not corr_fail, json.dumps(corr_fail[:2]))
    if prop_fail:
        prop_fail.sort(key=lambda f: (0 if "ops" in f else 1 if "vec_ops" in f else 2, len(f.get("ops") or f.get("vec_ops") or [])))
        f = prop_fail[0]
        ctx.violation("failing-input", f["what"], {"input": f, "n_failing": len(prop_fail)}, True)
    elif ctx.broken:
        ctx.violation("theorem-broken" if not proofs_ok else "correspondence-broken",
                      "C17 is no longer shown to hold: %s" % "; ".join(ctx.broken[:4]),
                      {"searched_sequences": len(seqs) + len(vseqs)}, False)
    ctx.assumptions += ["std::vector / std::sort / std::swap only ever compose element copy-construction, assignment and destruction (no move operations are declared; the translator fails if one appears)",
                        "sharing a caller-owned coordinate buffer between copies of an external-pointer shell is the documented purpose of that constructor and is not counted as shared storage",
                        "the integrator's shared_ptr engine is never written after init() (C10's effect table)"]
    ctx.trusted += ["translate/copysem.py (pattern-based walk of clang-14's JSON AST; array members are tracked per member, not per element - the harness compares every element)",
                    "harness/corr_copy.cpp and the comparison in checks/c17.py"]
    return ctx.finish("proof")


def replay(ctx, path):
    rp = json.load(open(path))
    inp = rp.get("input") or {}
    b = build.build("plain")
    drv = build.compile_driver(b, "corr_copy.cpp")
    if "ops" in inp:
        line = "copy " + " ".join(inp["ops"])
    elif "vec_ops" in inp:
        line = "vec " + " ".join(inp["vec_ops"])
    elif "valueclass" in inp:
        line = "valueclasses"
    else:
        print("replay file records no failing input; re-running the whole check")
        return main(ctx)
    r = subprocess.run([drv], input=line + "\n", stdout=subprocess.PIPE, text=True)
    print(line)
    print(r.stdout)
    print("recorded failure:", rp.get("what"))
    return 0
