"""C14 - the scaled modified spherical Bessel function is accurate for all arguments.

proof   : lean/Ecpint/Props/C14.lean (regimes, table-row range, evaluators agree, closed forms, recurrence
          coefficients, Taylor budget for the constants as they are).  PARTIAL: that the series/recurrence/asymptotic
          form ARE e^{-z} i_l(z) needs Bessel-function analysis Mathlib does not have.
tie     : constants.py; correspondence: the Lean model at Float against the real BesselFunction - whole table rows
          and both evaluators + upper_bound at all grid nodes, midpoints, regime boundaries and random arguments,
          BIT FOR BIT.
search  : mpmath's I_{l+1/2} at 40 digits, absolute tolerance 1e-12 (the property's), both evaluators.
"""
import json, math, os, random, struct, subprocess, sys
sys.path.insert(0, os.path.join(os.path.dirname(os.path.abspath(__file__)), ".."))
from vlib import core, build
from translate import constants
from translate.util import TranslateError

ABS_TOL = 1e-12


def hx(x):
    return struct.pack(">d", x).hex()


def unhex(s):
    return struct.unpack(">d", bytes.fromhex(s))[0]


def arguments(rng, quick, N=1600):
    zs = [0.0, 5e-324, 1e-300, 1e-12, 9.9e-8, 1e-7 * (1 - 2 ** -52), 1e-7, 1e-7 * (1 + 2 ** -52), 1.1e-7, 2e-7, 1e-6, 1e-4, 2.5e-3, 4.9e-3, 5e-3,
          5.1e-3, 0.01, 15.99, 15.995, 16.0 * (1 - 2 ** -53), 16.0, 16.0 * (1 + 2 ** -52), 16.001, 16.1, 20.0, 50.0, 100.0, 1e3, 1e4]
    step = 16.0 / N
    nodes = range(0, N + 1) if not quick else sorted(set(list(range(0, 40)) + list(range(N - 20, N + 1)) + [rng.randrange(N) for _ in range(200)]))
    for i in nodes:
        z0 = i * step
        zs += [z0, z0 + 0.5 * step * (1 - 1e-9), z0 + 0.5 * step, z0 + 0.25 * step]
        # both sides of the "argument is a table node" shortcut and well into the region where it must not fire
        offs = [5e-13, 2e-12, 1e-10, 1e-8, 9e-8, 1.1e-7, 1e-6] if (not quick or i % 7 == 0 or i < 8) else [2e-12, 10 ** rng.uniform(-11.5, -6)]
        for o in offs:
            zs += [z0 + o, z0 - o]
        if not quick:
            zs += [z0 + 0.5 * step * (1 + 1e-9)]
    zs += [rng.uniform(0, 16.2) for _ in range(300 if quick else 5000)]
    zs += [10 ** rng.uniform(-9, 4) for _ in range(200 if quick else 3000)]
    return [z for z in zs if z >= 0]


def run_lines(cmd, lines):
    r = subprocess.run(cmd, input="\n".join(lines) + "\n", stdout=subprocess.PIPE, stderr=subprocess.PIPE, text=True)
    if r.returncode != 0:
        raise RuntimeError("driver failed: %s" % r.stderr[-500:])
    return [l for l in r.stdout.split("\n") if l]


def main(ctx):
    rng = random.Random(ctx.seed * 4099 + 14)
    quick = ctx.tier == "quick"
    try:
        text, info = constants.translate()
        core.write_if_changed(os.path.join(core.LEAN, "Ecpint", "Gen", "Constants.lean"), text)
        ctx.obligation("translator constants.py (SMALL, TAYLOR_CUT, table size, series order, accuracy)", True,
                       json.dumps({k: info[k] for k in ("SMALL", "TAYLOR_CUT", "BESSEL_N", "BESSEL_ORDER", "RADIAL_THRESH_DEFAULT", "LIBECPINT_MAX_L")}))
        tr_ok = True
    except TranslateError as e:
        ctx.obligation("translator constants.py (SMALL, TAYLOR_CUT, table size, series order, accuracy)", False, str(e))
        tr_ok, info = False, {}
    proofs_ok = ctx.lean_props("C14All", extra_modules=["Ecpint.Props.C14", "Ecpint.Props.C14b", "Ecpint.Props.C14c", "Ecpint.Props.C14d", "Ecpint.Props.C14e", "Ecpint.Props.C14f"]) if tr_ok else False
    b = build.build("plain")
    drv = build.compile_driver(b, "corr_bessel.cpp")
    maxl = 3 * int(info.get("LIBECPINT_MAX_L", 5))  # the largest order an engine initialises (2*(maxLB+deriv)+maxLU)
    zs = arguments(rng, quick, int(info.get("BESSEL_N", 1600)))
    chunks = [zs[i:i + 400] for i in range(0, len(zs), 400)]
    reqs = ["bessel %d %s" % (maxl, " ".join(hx(z) for z in c)) for c in chunks]
    rows = sorted(set([0, 1, 2, 799, 800, 1599, 1600] + [rng.randrange(1601) for _ in range(20 if quick else 300)]))
    reqs.append("besselrow %d %s" % (maxl, " ".join(str(i) for i in rows)))
    real = run_lines([drv], reqs)
    corr_bad = []
    n_cmp = 0
    if os.path.exists(core.DRIVER):
        model = core.run_driver(reqs)
        model = [l for l in model if l]
        if len(model) != len(real):
            corr_bad.append({"what": "model produced %d lines, code %d" % (len(model), len(real))})
        for a, m in zip(real, model):
            n_cmp += len(a.split()) - 2
            if a != m and len(corr_bad) < 5:
                ta, tm = a.split(), m.split()
                k = next((i for i, (x, y) in enumerate(zip(ta, tm)) if x != y), None)
                corr_bad.append({"line": ta[:2], "first_difference_at_column": k, "code": ta[k] if k is not None else None, "model": tm[k] if k is not None else None,
                                 "z": unhex(ta[1]) if ta[0] in "AOU" else None})
    ctx.obligation("correspondence: Lean Bessel model = real BesselFunction, bit for bit (tables, both evaluators, upper_bound)", not corr_bad, json.dumps(corr_bad[:2]))
    # oracle
    want_oracle = zs if not quick else [z for i, z in enumerate(zs) if i < 40 or i % 4 == 0]
    orc = subprocess.run(["python3-vt", os.path.join(core.VERIF, "oracle", "bessel.py")], input="\n".join("%d %s" % (maxl, hx(z)) for z in want_oracle) + "\n",
                         stdout=subprocess.PIPE, stderr=subprocess.PIPE, text=True)
    ref = {}
    for l in orc.stdout.split("\n"):
        t = l.split()
        if len(t) == maxl + 2:
            ref[t[0]] = [float(x) for x in t[1:]]
    if not ref:
        raise RuntimeError("oracle produced nothing: %s" % orc.stderr[-400:])
    fails, worst = [], 0.0
    regimes = {"nonpos": 0, "small": 0, "table": 0, "large": 0}
    small = float(info.get("SMALL", 1e-7))
    for l in real:
        t = l.split()
        if t[0] not in ("A", "O") or t[1] not in ref:
            continue
        z = unhex(t[1])
        if t[0] == "A":
            regimes["nonpos" if z <= 0 else "small" if z < small else "large" if z > 16 else "table"] += 1
        for L, (h, r) in enumerate(zip(t[2:], ref[t[1]])):
            v = unhex(h)
            d = abs(v - r) if v == v else float("inf")
            worst = max(worst, d)
            if d > ABS_TOL:
                fails.append({"z": z, "z_bits": t[1], "l": L, "evaluator": "all-orders" if t[0] == "A" else "single-order", "returned": v, "reference": r,
                              "what": "%s evaluator at z=%r, l=%d returns %r, exp(-z) i_l(z) = %r (|error| %.3g > 1e-12)" % ("all-orders" if t[0] == "A" else "single-order", z, L, v, r, d)})
    # the two evaluators agree with each other
    byz = {}
    for l in real:
        t = l.split()
        if t[0] in ("A", "O"):
            byz.setdefault(t[1], {})[t[0]] = [unhex(x) for x in t[2:]]
    agree_worst = 0.0
    for zb, d in byz.items():
        if "A" in d and "O" in d:
            for L, (x, y) in enumerate(zip(d["A"], d["O"])):
                dd = abs(x - y) if x == x and y == y else float("inf")
                agree_worst = max(agree_worst, dd)
                if dd > 2 * ABS_TOL:
                    fails.append({"z": unhex(zb), "z_bits": zb, "l": L, "what": "the two evaluators disagree at z=%r, l=%d: %r vs %r" % (unhex(zb), L, x, y)})
    ctx.coverage.update({"arguments": len(zs), "orders": maxl + 1, "values_compared_bitwise": n_cmp, "traces_validated_against_impl": n_cmp,
                         "oracle_arguments": len(ref), "oracle_worst_abs_error": worst, "evaluators_worst_disagreement": agree_worst,
                         "regimes_hit": regimes, "table_rows_compared": len(rows)})
    ctx.sample({"request": reqs[0][:120]})
    if fails:
        fails.sort(key=lambda f: (f.get("l", 0), f["z"]))
        ctx.violation("failing-input", fails[0]["what"], {"input": fails[0], "n_failing": len(fails),
                                                          "replay_note": "echo 'bessel %d <z_bits>' | harness/corr_bessel.cpp" % maxl}, True)
    elif ctx.broken:
        ctx.violation("theorem-broken" if not proofs_ok else "correspondence-broken", "C14 is no longer shown to hold: %s" % "; ".join(ctx.broken[:4]),
                      {"arguments_searched": len(ref), "first_disagreement": corr_bad[:1]}, False)
    ctx.assumptions += ["the power series, the derivative recurrence and the asymptotic expansion used by the code are those of e^{-z} i_l(z) (classical; not formalised: Mathlib has no Bessel functions)",
                        "|d^n/dz^n e^{-z} i_l(z)| <= 2^n/(n+1), the derivative bound behind the Taylor budget"]
    ctx.trusted += ["translate/constants.py; harness/corr_bessel.cpp (reads the private tables with -fno-access-control); oracle/bessel.py (mpmath besseli at 40 digits)",
                    "libm's exp is the same function in the C++ harness and in the Lean driver (both call the platform libm)"]
    return ctx.finish("proof")
