"""C08 - integrals are translation-invariant and rotate as Cartesian tensors.

proof   : lean/Ecpint/Props/C08.lean - the pipeline model reads the three centres only through the differences formed
          by mkData; with exact subtraction a common translation leaves mkData, and so the whole block, unchanged.
          PARTIAL: covariance under rotations, axis permutations and reflections is NOT proved (the algorithm singles out
          the z axis; proving covariance from it amounts to proving the expansion equals the integral, C01's literature
          step).  It is covered by correspondence and by the differential search below, which is support, not proof.
tie     : translators as C01; correspondence of the pipeline model with the real code, bit for bit, on original and
          transformed geometries.
search  : translation by up to 100 bohr; all 48 signed axis permutations (a sample per case in the quick tier) and random
          proper/improper orthogonal matrices, the block compared with M_A(R) block M_B(R)^T where M(R) is the
          representation of R on Cartesian monomials, built here by polynomial expansion; 1e-6 of the largest element.
          Integrator-level: integrals, first and second derivatives under a common translation.
"""
import copy, itertools, json, math, os, random, subprocess, sys
sys.path.insert(0, os.path.join(os.path.dirname(os.path.abspath(__file__)), ".."))
from vlib import core, build, pairlib as pl
from checks import c01

TOL = 1e-6
ATTRIBUTION = c01.ATTRIBUTION


def cart(L):
    return [(x, y, L - x - y) for x in range(L, -1, -1) for y in range(L - x, -1, -1)]


def poly_mul(p, q):
    out = {}
    for (a, ca) in p.items():
        for (b, cb) in q.items():
            k = (a[0] + b[0], a[1] + b[1], a[2] + b[2])
            out[k] = out.get(k, 0.0) + ca * cb
    return out


def rep_matrix(R, L):
    """M[i][m]: the monomial i of the rotated coordinates R s, expanded in the monomials m of s"""
    comps = cart(L)
    idx = {c: i for i, c in enumerate(comps)}
    lin = [{(1, 0, 0): R[q][0], (0, 1, 0): R[q][1], (0, 0, 1): R[q][2]} for q in range(3)]
    M = [[0.0] * len(comps) for _ in comps]
    for i, (a, b, c) in enumerate(comps):
        p = {(0, 0, 0): 1.0}
        for q, n in enumerate((a, b, c)):
            for _ in range(n):
                p = poly_mul(p, lin[q])
        for k, v in p.items():
            M[i][idx[k]] += v
    return M


def signed_perms():
    out = []
    for perm in itertools.permutations(range(3)):
        for signs in itertools.product([1.0, -1.0], repeat=3):
            R = [[0.0] * 3 for _ in range(3)]
            for q in range(3):
                R[q][perm[q]] = signs[q]
            out.append(R)
    return out


def rand_orth(rng):
    # Gram-Schmidt on a random matrix; determinant of either sign
    while True:
        a = [[rng.gauss(0, 1) for _ in range(3)] for _ in range(3)]
        q = []
        ok = True
        for v in a:
            w = v[:]
            for u in q:
                d = sum(x * y for x, y in zip(w, u))
                w = [x - d * y for x, y in zip(w, u)]
            n = math.sqrt(sum(x * x for x in w))
            if n < 1e-2:
                ok = False
                break
            q.append([x / n for x in w])
        if ok:
            return q


def apply(R, t, c):
    d = copy.deepcopy(c)
    def tr(p):
        return [sum(R[q][j] * p[j] for j in range(3)) + t[q] for q in range(3)]
    d["ecp"]["c"] = tr(c["ecp"]["c"]); d["A"]["c"] = tr(c["A"]["c"]); d["B"]["c"] = tr(c["B"]["c"])
    return d


def expected(block, nA, nB, MA, MB):
    # MA block MB^T
    tmp = [[sum(MA[i][m] * block[m * nB + n] for m in range(nA)) for n in range(nB)] for i in range(nA)]
    return [sum(tmp[i][n] * MB[j][n] for n in range(nB)) for i in range(nA) for j in range(nB)]


IDENT = [[1.0, 0.0, 0.0], [0.0, 1.0, 0.0], [0.0, 0.0, 1.0]]


def api_translation(rng, quick, api):
    n, bad = 0, []
    for _ in range(2 if quick else 8):
        nat = rng.randint(2, 3)
        g0 = [rng.uniform(-2.0, 2.0) for _ in range(3 * nat)]
        t = [rng.uniform(-100, 100) for _ in range(3)]
        g1 = [g0[i] + t[i % 3] for i in range(3 * nat)]
        lines = ["reset", "atoms %d" % nat, "geom 0 " + " ".join("%r" % x for x in g0), "geom 1 " + " ".join("%r" % x for x in g1)]
        for a in range(nat):
            for _ in range(rng.randint(1, 2)):
                l = rng.randint(0, 2); np_ = rng.randint(1, 2)
                lines.append("shell %d %d %d %s" % (a, l, np_, " ".join("%r %r" % (10 ** rng.uniform(-1, 0.7), rng.uniform(0.2, 1.5)) for _ in range(np_))))
        prims = ["%d %d %r %r" % (rng.choice([1, 2]), l, 10 ** rng.uniform(-0.5, 0.8), rng.choice([-1, 1]) * rng.uniform(0.5, 8.0)) for l in range(rng.randint(1, 2) + 1)]
        lines.append("ecp 0 %d %s" % (len(prims), " ".join(prims)))
        lines += ["results 0 2", "results 1 2"]
        res = subprocess.run([api], input="\n".join(lines) + "\n", stdout=subprocess.PIPE, stderr=subprocess.PIPE, text=True)
        if res.returncode != 0:
            raise RuntimeError("corr_api crashed: " + res.stderr[-300:])
        blocks, cur = [], {}
        for l in res.stdout.split("\n"):
            tt = l.split()
            if len(tt) > 2 and tt[0] == "<" and tt[1] in ("I", "D", "H"):
                cur[tt[1] + tt[2]] = [pl.unhex(x) for x in tt[3:]]
            if l.startswith("< end"):
                blocks.append(cur); cur = {}
        if len(blocks) != 2:
            raise RuntimeError("corr_api gave %d result blocks" % len(blocks))
        for k in blocks[0]:
            v, w = blocks[0][k], blocks[1].get(k, [])
            m = max([abs(x) for x in v] + [0.0])
            d = max([abs(x - y) for x, y in zip(v, w)] + [0.0]) if len(v) == len(w) else float("inf")
            n += 1
            if d > TOL * m + 1e-10:
                bad.append({"matrix": k, "difference": d, "max": m, "translation": t, "system": lines})
    return n, bad


def main(ctx, cases=None, transforms=None):
    rng = random.Random(ctx.seed * 15485863 + 8)
    quick = ctx.tier == "quick"
    b = build.build("plain")
    tr_ok, classes = pl.regen(ctx, b)
    proofs_ok = ctx.lean_props("C08All", extra_modules=["Ecpint.Props.C08", "Ecpint.Props.C08b"]) if tr_ok else False
    drv = pl.pair_driver(b)
    if cases is None:
        cases = c01.gen_cases(rng, quick, 5)
    perms = signed_perms()
    jobs = []   # (case index, transformed case, R, label)
    for i, c in enumerate(cases):
        if transforms is not None:
            tl = transforms
        else:
            tl = [(IDENT, [rng.uniform(-100, 100) for _ in range(3)], "translation")]
            chosen = perms if (not quick and i % 6 == 0) else rng.sample(perms, 3 if quick else 8)
            tl += [(R, [0.0, 0.0, 0.0], "signed-permutation") for R in chosen]
            tl += [(rand_orth(rng), [rng.uniform(-3, 3) for _ in range(3)], "orthogonal+translation") for _ in range(1 if quick else 3)]
        for (R, t, label) in tl:
            jobs.append((i, apply(R, t, c), R, t, label))
    base = pl.run_real(drv, cases)
    trans = pl.run_real(drv, [j[1] for j in jobs])
    # correspondence on the original cases and a sample of the transformed ones
    corr_bad = []
    sample = list(base) + (rng.sample(trans, min(len(trans), 40 if quick else 400)))
    if os.path.exists(core.DRIVER):
        sample.sort(key=lambda r: (r.case["maxLB"], r.case["maxLU"]))
        pl.run_model(sample, ("code",))
        for r in sample:
            if not pl.same_bits(r.bits, r.model.get("code")):
                corr_bad.append({"case": pl.fmt_case(r.case)})
    ctx.obligation("correspondence: Lean pipeline model = real compute_shell_pair, bit for bit, original and transformed geometries (%d blocks)" % len(sample), not corr_bad, json.dumps(corr_bad[:2]))
    reps = {}
    fails, worst, counts = [], 0.0, {}
    for (i, tc, R, t, label), tr in zip(jobs, trans):
        r = base[i]
        LA, LB = r.case["A"]["l"], r.case["B"]["l"]
        key = json.dumps(R)
        MA = reps.setdefault((key, LA), rep_matrix(R, LA))
        MB = reps.setdefault((key, LB), rep_matrix(R, LB))
        exp = expected(r.vals, r.nA, r.nB, MA, MB)
        m = max(r.maxabs(), tr.maxabs())
        d = max([abs(x - y) for x, y in zip(exp, tr.vals)] + [0.0])
        tol = TOL * m + 1e-9 * r.coef_scale()
        counts[label] = counts.get(label, 0) + 1
        if m > 0:
            worst = max(worst, d / m)
        if not (d <= tol):
            fails.append((r, tr, R, t, label, d, tol, MA, MB))
    ctx.coverage.update({"transformed_blocks": len(jobs), "by_transformation": counts, "worst_relative_defect": worst, "cases": len(cases),
                         "traces_validated_against_impl": len(sample)})
    out = []
    if fails:
        def mk(nA, nB, MA, MB):
            return lambda blocks: max([abs(x - y) for x, y in zip(expected(blocks[0], nA, nB, MA, MB), blocks[1])] + [0.0])
        items = [{"runs": (r, tr), "tol": tol, "defect": mk(r.nA, r.nB, MA, MB), "f": (r, tr, R, t, label, d, tol)} for r, tr, R, t, label, d, tol, MA, MB in fails]
        pl.lazy_attribute(items, ATTRIBUTION, usable=bool(proofs_ok and not corr_bad))
        for it in items:
            r, tr, R, t, label, d, tol = it["f"]
            fid, table = it["fid"], it["table"]
            if fid is None and proofs_ok and not corr_bad and (r.warn[0] > 0 or tr.warn[0] > 0):
                fid = "type1-quadrature-unconverged"   # the library itself reported a type-1 quadrature that did not converge
            out.append({"case": r.case, "transformed_case": tr.case, "R": R, "t": t, "transformation": label, "request": pl.fmt_case(r.case), "error": d, "allowed": tol,
                        "attributed_to": fid, "counterfactual_defect": table,
                        "what": "block (LA=%d, LB=%d, ECP L=%d) under a %s differs from the transformed original block by %.3g (allowed %.3g)" % (
                            r.case["A"]["l"], r.case["B"]["l"], max(p[1] for p in r.case["ecp"]["prims"]), label, d, tol)})
    api = build.compile_driver(b, "corr_api.cpp")
    n_api, api_bad = api_translation(rng, quick, api)
    ctx.obligation("ECPIntegrator integrals, first and second derivatives unchanged by a common translation (%d matrices)" % n_api, not api_bad, json.dumps(api_bad[:1])[:400])
    # derivatives: a derivative block transforms as a Cartesian tensor iff it is the documented combination of covariant shifted-shell
    # blocks (C02/C03 assembly theorems + C03b).  The combination itself is checked against the assembly model for shells up to L = 3 in
    # general position, where a slip in ONE Cartesian direction (say the zz line of the second derivative) breaks covariance
    from checks import deriv_common as dc
    drng = random.Random(ctx.seed * 17 + 88)
    dcases = [dc.make_case(drng, LA, LB, "distinct", ecpL=drng.choice([1, 2])) for (LA, LB) in ((3, 0), (3, 1), (0, 3), (2, 3), (3, 3), (2, 2), (1, 2))]
    _, _, dfail, dcrash, _ = dc.run_cases(ctx, 2, dcases, ("QAA", "QBB", "QAB", "R2"))
    ctx.obligation("second-derivative blocks are the documented tensor combination of the shifted-shell blocks (assembly model, L up to 3, %d cases)" % len(dcases),
                   not dfail and not dcrash, json.dumps((dfail + dcrash)[:1])[:600])
    kf = {k["id"] for k in core.known_findings().get("findings", []) if k.get("property") == "C08"}
    new, attributed = [], {}
    for f in out:
        ids = f["attributed_to"].split("+") if f["attributed_to"] else []
        if ids and all(i in kf for i in ids):
            for i in ids:
                attributed.setdefault(i, []).append(f)
        else:
            new.append(f)
    for kid, fs in sorted(attributed.items()):
        ctx.known("%s: %d of the transformed blocks, e.g. %s" % (kid, len(fs), fs[0]["what"]))
    ctx.coverage["attributed_to_known_findings"] = {k: len(v) for k, v in attributed.items()}
    if new:
        new.sort(key=lambda f: -f["error"] / max(f["allowed"], 1e-300))
        ctx.violation("failing-input", new[0]["what"], {"input": new[0], "n_failing": len(new)}, True)
    elif dfail or dcrash:
        f = (dfail + dcrash)[0]
        ctx.violation("failing-input", "a second-derivative block is not the tensor combination of the shifted-shell blocks: " + str(f.get("where", f.get("what", "")))[:300], {"input": f}, True)
    elif api_bad:
        ctx.violation("failing-input", "integrator matrix %s changes by %.3g (max %.3g) under a common translation" % (api_bad[0]["matrix"], api_bad[0]["difference"], api_bad[0]["max"]), {"input": api_bad[0]}, True)
    elif ctx.broken:
        ctx.violation("theorem-broken" if not proofs_ok else "correspondence-broken", "C08 is no longer shown to hold: %s" % "; ".join(ctx.broken[:4]),
                      {"first_disagreement": corr_bad[:1]}, False)
    ctx.assumptions += ["rotation / permutation / reflection covariance is not proved (see DESIGN.md, C08): differential search only"]
    ctx.trusted += ["translate/*.py as C01; harness/corr_pair.cpp, harness/corr_api.cpp; the monomial representation matrices built in checks/c08.py"]
    return ctx.finish("proof")


def replay(ctx, path):
    body = json.load(open(path))
    inp = body.get("input", {})
    if "case" in inp and "R" in inp:
        return main(ctx, [inp["case"]], [(inp["R"], inp["t"], inp.get("transformation", "replay"))])
    return main(ctx)
