"""C07 - integral blocks are symmetric under exchange of the two shells.

proof   : lean/Ecpint/Props/C07.lean - over any commutative semiring the rolled-up contraction and the type-1 element
          are invariant under exchanging the two shells' data (with the radial table transposed); the transposed copy
          is an involution; for LA = LB the generated A / swapped-B triple lists are closed under (N,l1,l2) <-> (N,l2,l1)
          (decide over the regenerated class table).  PARTIAL: symmetry of the radial integrals themselves for l1 = l2
          (R(N,l,l; a,A,b,B) = R(N,l,l; b,B,a,A)) is true of the defining integral but not proved for the closed forms.
tie     : translators as C01; correspondence of the pipeline model with the real code, bit for bit, on BOTH orders of
          every case (so the LA > LB branch, the reversed triple list and the B-on-centre mirror are all executed).
search  : compute_shell_pair(U,A,B) against the transpose of compute_shell_pair(U,B,A), 1e-6 of the largest element;
          symmetry of the ECPIntegrator's integral, first- and second-derivative matrices.
"""
import copy, json, math, os, random, subprocess, sys
sys.path.insert(0, os.path.join(os.path.dirname(os.path.abspath(__file__)), ".."))
from vlib import core, build, pairlib as pl
from checks import c01

TOL = 1e-6
ATTRIBUTION = c01.ATTRIBUTION


def swapped(c):
    d = copy.deepcopy(c)
    d["A"], d["B"] = d["B"], d["A"]
    if "kind" in d:
        d["kind"] = list(reversed(d["kind"]))
    return d


def asym(v, w, nA, nB):
    """max |v(a,b) - w(b,a)| for v an nA x nB block and w an nB x nA block"""
    return max([abs(v[a * nB + b] - w[b * nA + a]) for a in range(nA) for b in range(nB)] + [0.0])


def api_systems(rng, quick):
    out = []
    for _ in range(2 if quick else 8):
        nat = rng.randint(2, 3)
        lines = ["reset", "atoms %d" % nat, "geom 0 " + " ".join("%r" % rng.uniform(-2.0, 2.0) for _ in range(3 * nat))]
        for a in range(nat):
            for _ in range(rng.randint(1, 2)):
                l = rng.randint(0, 2)
                np_ = rng.randint(1, 2)
                lines.append("shell %d %d %d %s" % (a, l, np_, " ".join("%r %r" % (10 ** rng.uniform(-1, 0.7), rng.uniform(0.2, 1.5)) for _ in range(np_))))
        L = rng.randint(1, 2)
        prims = []
        for l in range(L + 1):
            prims.append("%d %d %r %r" % (rng.choice([1, 2]), l, 10 ** rng.uniform(-0.5, 0.8), rng.choice([-1, 1]) * rng.uniform(0.5, 8.0)))
        lines.append("ecp 0 %d %s" % (len(prims), " ".join(prims)))
        lines.append("results 0 2")
        out.append(lines)
    return out


def main(ctx, cases=None):
    rng = random.Random(ctx.seed * 104729 + 7)
    quick = ctx.tier == "quick"
    b = build.build("plain")
    tr_ok, classes = pl.regen(ctx, b)
    proofs_ok = ctx.lean_props("C07All", extra_modules=["Ecpint.Props.C07", "Ecpint.Props.C07Gen", "Ecpint.Props.C07b", "Ecpint.Props.C07c"]) if tr_ok else False
    drv = pl.pair_driver(b)
    if cases is None:
        base = c01.gen_cases(rng, quick, 5)
        # every LA != LB pair is in c01.gen_cases; add B-on-centre / A-on-centre mirrors with LA != LB explicitly
        for (LA, LB) in [(0, 2), (3, 1), (1, 4), (2, 5)] if quick else [(a, bb) for a in range(6) for bb in range(6) if a != bb]:
            C = [rng.uniform(-1, 1) for _ in range(3)]
            base.append(dict(maxLB=5, maxLU=5, ecp=pl.rand_ecp(rng, rng.randint(1, 4), C), A=pl.rand_shell(rng, LA, pl.place(rng, C, "on")),
                             B=pl.rand_shell(rng, LB, pl.place(rng, C, "general")), kind=["on", "general"]))
        base.sort(key=lambda c: (c["maxLB"], c["maxLU"]))
        cases = base
    both = []
    for c in cases:
        both += [c, swapped(c)]
    runs = pl.run_real(drv, both)
    corr_bad = []
    if os.path.exists(core.DRIVER):
        pl.run_model(runs, ("code",))
        for r in runs:
            if not pl.same_bits(r.bits, r.model.get("code")):
                corr_bad.append({"case": pl.fmt_case(r.case)})
    ctx.obligation("correspondence: Lean pipeline model = real compute_shell_pair, bit for bit, both shell orders (%d blocks)" % len(runs), not corr_bad, json.dumps(corr_bad[:2]))
    fails = []
    worst = 0.0
    for i in range(0, len(runs), 2):
        r, s = runs[i], runs[i + 1]
        m = max(r.maxabs(), s.maxabs())
        d = asym(r.vals, s.vals, r.nA, r.nB)
        tol = TOL * m + 1e-9 * r.coef_scale()
        if m > 0:
            worst = max(worst, d / (m + 1e-300))
        if not (d <= tol):
            fails.append((r, s, d, tol))
    ctx.coverage.update({"pairs_compared_both_orders": len(runs) // 2, "worst_relative_asymmetry": worst,
                         "classes_LA_LB": len({(r.case["A"]["l"], r.case["B"]["l"]) for r in runs}), "traces_validated_against_impl": len(runs)})
    out = []
    if fails:
        items = [{"runs": (r, s), "tol": tol, "defect": (lambda nA, nB: (lambda blocks: asym(blocks[0], blocks[1], nA, nB)))(r.nA, r.nB), "r": r, "s": s, "d": d}
                 for r, s, d, tol in fails]
        pl.lazy_attribute(items, ATTRIBUTION, usable=bool(proofs_ok and not corr_bad))
        for it in items:
            r, s, d, tol, fid, table = it["r"], it["s"], it["d"], it["tol"], it["fid"], it["table"]
            if fid is None and proofs_ok and not corr_bad and (r.warn[0] > 0 or s.warn[0] > 0):
                fid = "type1-quadrature-unconverged"   # the library itself reported a type-1 quadrature that did not converge
            out.append({"case": r.case, "request": pl.fmt_case(r.case), "error": d, "allowed": tol, "attributed_to": fid, "counterfactual_asymmetry": table,
                        "what": "block (LA=%d, LB=%d, ECP L=%d, %s) and the transpose of the block with the shells exchanged differ by %.3g (allowed %.3g)" % (
                            r.case["A"]["l"], r.case["B"]["l"], max(p[1] for p in r.case["ecp"]["prims"]), "/".join(r.case.get("kind", [])), d, tol)})
    # high-level matrices
    api = build.compile_driver(b, "corr_api.cpp")
    n_api, api_bad = 0, []
    for lines in api_systems(rng, quick):
        res = subprocess.run([api], input="\n".join(lines) + "\n", stdout=subprocess.PIPE, stderr=subprocess.PIPE, text=True)
        if res.returncode != 0:
            raise RuntimeError("corr_api crashed: " + res.stderr[-300:])
        for l in res.stdout.split("\n"):
            t = l.split()
            if len(t) > 3 and t[0] == "<" and t[1] in ("I", "D", "H"):
                v = [pl.unhex(x) for x in t[3:]]
                n = int(round(math.sqrt(len(v))))
                if n * n != len(v):
                    continue
                m = max(abs(x) for x in v) if v else 0.0
                d = max([abs(v[i * n + j] - v[j * n + i]) for i in range(n) for j in range(i)] + [0.0])
                n_api += 1
                if d > TOL * m + 1e-12:
                    api_bad.append({"matrix": t[1] + " " + t[2], "asymmetry": d, "max": m, "system": lines})
    ctx.obligation("ECPIntegrator integral / first- / second-derivative matrices are symmetric (%d matrices)" % n_api, not api_bad, json.dumps(api_bad[:1])[:400])
    kf = {k["id"] for k in core.known_findings().get("findings", []) if k.get("property") == "C07"}
    new, attributed = [], {}
    for f in out:
        ids = f["attributed_to"].split("+") if f["attributed_to"] else []
        if ids and all(i in kf for i in ids):
            for i in ids:
                attributed.setdefault(i, []).append(f)
        else:
            new.append(f)
    for kid, fs in sorted(attributed.items()):
        ctx.known("%s: %d of the sampled pairs, e.g. %s" % (kid, len(fs), fs[0]["what"]))
    ctx.coverage["attributed_to_known_findings"] = {k: len(v) for k, v in attributed.items()}
    if new:
        new.sort(key=lambda f: -f["error"] / max(f["allowed"], 1e-300))
        ctx.violation("failing-input", new[0]["what"], {"input": new[0], "n_failing": len(new)}, True)
    elif api_bad:
        ctx.violation("failing-input", "integrator matrix %s is not symmetric (%.3g of %.3g)" % (api_bad[0]["matrix"], api_bad[0]["asymmetry"], api_bad[0]["max"]), {"input": api_bad[0]}, True)
    elif ctx.broken:
        ctx.violation("theorem-broken" if not proofs_ok else "correspondence-broken", "C07 is no longer shown to hold: %s" % "; ".join(ctx.broken[:4]),
                      {"first_disagreement": corr_bad[:1]}, False)
    ctx.assumptions += ["R(N,l,l; a,A,b,B) = R(N,l,l; b,B,a,A) for the primitive radial integrals (true of the defining integral; the closed-form cases are not syntactically symmetric)"]
    ctx.trusted += ["translate/*.py as C01; harness/corr_pair.cpp, harness/corr_api.cpp"]
    return ctx.finish("proof")


def replay(ctx, path):
    body = json.load(open(path))
    case = body.get("input", {}).get("case")
    return main(ctx, [case] if case else None)
