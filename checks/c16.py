"""C16 - the shipped ECP library loads exactly the published parameters.

proof   : lean/Ecpint/Props/C16.lean: `decide +kernel` over the WHOLE shipped table (6 sets, every element,
          every primitive, exact decimals): XML = MOLPRO-convention interpretation of the raw source;
          container bookkeeping for all addPrimitive/sort sequences; loader and evaluator specifications;
          FAST_POW[i] z = z^i.
tie     : translators ecpdata.py / powfns.py / constants.py regenerate the data and the power functions every
          run; correspondence: every element of every set is loaded by the real addECP_from_file and compared
          with the Lean model (fields exact, evaluator 1e-13).
search  : the property's own oracle in Python, directly from the raw files, against the real loader.
"""
import json, math, os, random, struct, subprocess, sys
from fractions import Fraction
sys.path.insert(0, os.path.join(os.path.dirname(os.path.abspath(__file__)), ".."))
from vlib import core, build
from translate import ecpdata, powfns, constants
from translate.util import TranslateError

ATOMS = ["h", "he", "li", "be", "b", "c", "n", "o", "f", "ne", "na", "mg", "al", "si", "p", "s", "cl", "ar",
         "k", "ca", "sc", "ti", "v", "cr", "mn", "fe", "co", "ni", "cu", "zn", "ga", "ge", "as", "se", "br", "kr", "rb", "sr", "y", "zr",
         "nb", "mo", "tc", "ru", "rh", "pd", "ag", "cd", "in", "sn", "sb", "te", "i", "xe", "cs", "ba", "la", "ce", "pr", "nd", "pm", "sm",
         "eu", "gd", "tb", "dy", "ho", "er", "tm", "yb", "lu", "hf", "ta", "w", "re", "os", "ir", "pt", "au", "hg", "tl", "pb", "bi", "po",
         "at", "rn", "fr", "ra", "ac", "th", "pa", "u", "np", "pu", "am", "cm", "bk", "cf", "es", "fm", "md", "no", "lr", "rf", "db", "sg",
         "bh", "hs", "mt"]  # the periodic table, independent of the library's own copy


def unhex(s):
    return struct.unpack(">d", bytes.fromhex(s))[0]


def hexf(x):
    return struct.pack(">d", x).hex()


def dec_float(d):
    m, s = d
    return float(Fraction(m, 10 ** s))  # correctly rounded


def py_interpret(recs):
    """the MOLPRO convention, restated independently of the Lean model"""
    atoms, cur = [], None
    for r in recs:
        if r[0] == "hdr":
            cur = {"name": r[1], "ncore": r[2], "maxl": r[3], "shells": []}
            atoms.append(cur)
        elif cur is not None and len(cur["shells"]) < cur["maxl"] + 1:
            i = len(cur["shells"])
            cur["shells"].append((cur["maxl"] if i == 0 else i - 1, r[1], r[2]))
    return atoms


def parse_block(lines):
    out = {"G": [], "V": []}
    for l in lines:
        t = l.split()
        if t[0] == "E":
            out["E"] = t[1:]
        elif t[0] == "G":
            out["G"].append(t[1:])
        elif t[0] == "V":
            out["V"].append(t[1:])
        elif t[0] == "EXC":
            out["EXC"] = " ".join(t[1:])
    return out


def main(ctx):
    rng = random.Random(ctx.seed * 997 + 16)
    quick = ctx.tier == "quick"
    tr_ok = True
    names = {}
    for mod, gen, label in ((ecpdata, "EcpData.lean", "ecpdata.py reads raw/*.ecp and xml/*.xml"),
                            (powfns, "PowFns.lean", "powfns.py reads the pow_n functions and FAST_POW"),
                            (constants, "Constants.lean", "constants.py reads MAX_L, MAX_POW, ...")):
        try:
            r = mod.translate()
            core.write_if_changed(os.path.join(core.LEAN, "Ecpint", "Gen", gen), r[0])
            ctx.obligation("translator " + label, True, json.dumps(r[1])[:300])
            if mod is ecpdata:
                names = r[2]
        except TranslateError as e:
            ctx.obligation("translator " + label, False, str(e))
            tr_ok = False
    proofs_ok = ctx.lean_props("C16") if tr_ok else False
    b = build.build("plain")
    drv = build.compile_driver(b, "corr_ecp.cpp")
    share = os.path.join(core.REPO, "share", "libecpint")
    radii = [1e-3, 0.05, 0.3, 1.0, 2.5, 7.0, 20.0] + ([10 ** rng.uniform(-3, 1.3) for _ in range(3 if quick else 20)])
    # the property's own oracle: straight from the raw files
    prop_fail, corr_fail = [], []
    reqs, expect = [], []
    n_prims = 0
    for s in ecpdata.SETS:
        try:
            recs = ecpdata.raw_records(os.path.join(share, "raw", s + ".ecp"))
            _, xatoms = ecpdata.xml_atoms(os.path.join(share, "xml", s + ".xml"))
        except Exception as e:
            prop_fail.append({"set": s, "what": "shipped file cannot be read: %r" % e})
            continue
        want = py_interpret(recs)
        if [a["name"] for a in want] != [a[0] for a in xatoms]:
            prop_fail.append({"set": s, "what": "element list of the XML %s differs from the raw source %s" % ([a[0] for a in xatoms], [a["name"] for a in want])})
        for wa, xa in zip(want, xatoms):
            if (wa["ncore"], wa["maxl"]) != (xa[1], xa[2]):
                prop_fail.append({"set": s, "element": wa["name"], "what": "ncore/maxl of the XML (%d,%d) differ from the raw source (%d,%d)" % (xa[1], xa[2], wa["ncore"], wa["maxl"])})
            if [(l, n, ps) for l, n, ps in wa["shells"]] != [(l, n, ps) for l, n, ps in xa[3]]:
                k = next((i for i, (a_, b_) in enumerate(zip(wa["shells"], xa[3])) if a_ != b_), None)
                prop_fail.append({"set": s, "element": wa["name"], "what": "shell %s of the XML differs from the raw source: xml %s raw %s" % (k, xa[3][k] if k is not None and k < len(xa[3]) else len(xa[3]), wa["shells"][k] if k is not None else len(wa["shells"]))})
            if wa["name"] not in ATOMS:
                prop_fail.append({"set": s, "element": wa["name"], "what": "element symbol unknown"})
                continue
            q = ATOMS.index(wa["name"]) + 1
            reqs.append((s, wa["name"], "load %s %d %s" % (os.path.join(share, "xml", s + ".xml"), q, " ".join(repr(r) for r in radii))))
            expect.append(wa)
            n_prims += sum(len(ps) for _, _, ps in wa["shells"])
    r = subprocess.run([drv], input="\n".join(x[2] for x in reqs) + "\n", stdout=subprocess.PIPE, stderr=subprocess.PIPE, text=True)
    blocks, cur = [], []
    for l in r.stdout.split("\n"):
        if l == "end":
            blocks.append(parse_block(cur)); cur = []
        elif l:
            cur.append(l)
    if r.returncode != 0 or len(blocks) != len(reqs):
        prop_fail.append({"what": "loader crashed after %d of %d elements (%s): %s" % (len(blocks), len(reqs), reqs[len(blocks)][:2] if len(blocks) < len(reqs) else "", r.stderr[-300:])})
    model_blocks = []
    if os.path.exists(core.DRIVER):
        ml = core.run_driver(["ecp %s %s %s" % (s, n, " ".join(hexf(x) for x in radii)) for s, n, _ in reqs])
        cur = []
        for l in ml:
            if l == "end":
                model_blocks.append(parse_block(cur)); cur = []
            elif l:
                cur.append(l)
    n_eval = 0
    for i, ((s, name, _), wa) in enumerate(zip(reqs, expect)):
        if i >= len(blocks):
            break
        blk = blocks[i]
        where = {"set": s, "element": name}
        if "EXC" in blk or "E" not in blk:
            prop_fail.append(dict(where, what="loading threw: %s" % blk.get("EXC")))
            continue
        ncore, N, L, lst = int(blk["E"][0]), int(blk["E"][1]), int(blk["E"][2]), [int(x) for x in blk["E"][3].split(",")]
        G = [(int(g[0]), int(g[1]), unhex(g[2]), unhex(g[3])) for g in blk["G"]]
        want = sorted((l, n - 2, dec_float(x), dec_float(c)) for l, _, ps in wa["shells"] for n, x, c in ps)
        what = None
        if ncore != wa["ncore"]:
            what = "core-electron count %d, raw source %d" % (ncore, wa["ncore"])
        elif L != wa["maxl"] or N != len(want):
            what = "L=%d N=%d, raw source maxl=%d with %d primitives" % (L, N, wa["maxl"], len(want))
        elif sorted(G) != want:
            d = [x for x in want if x not in G][:1] + [x for x in G if x not in want][:1]
            what = "loaded primitives differ from the raw source (power reduced by two), e.g. %s" % d
        elif [g[0] for g in G] != sorted(g[0] for g in G):
            what = "primitives are not grouped by angular momentum"
        elif any(lst[l] != sum(1 for g in G if g[0] < l) for l in range(len(lst))):
            what = "l_starts %s do not delimit the angular-momentum groups" % lst
        elif "centre=1" not in blk["E"] or "nbasis=1" not in blk["E"]:
            what = "centre / basis bookkeeping wrong: %s" % blk["E"][6:]
        local = [g for g in G if g[0] == wa["maxl"]]
        if what is None and sorted(local) != sorted((l, n - 2, dec_float(x), dec_float(c)) for l, _, ps in wa["shells"][:1] for n, x, c in ps):
            what = "the local part (first raw block) is not stored at the highest angular momentum"
        if what is None:
            for v in blk["V"]:
                l, rr, val = int(v[0]), unhex(v[1]), unhex(v[2])
                ref = math.fsum(d * rr ** n * math.exp(-a * rr * rr) for (gl, n, a, d) in G if gl == l)
                mag = math.fsum(abs(d * rr ** n * math.exp(-a * rr * rr)) for (gl, n, a, d) in G if gl == l)
                n_eval += 1
                if abs(val - ref) > 1e-12 * mag + 1e-300:
                    what = "evaluate(r=%r, l=%d) = %r, the sum of its Gaussians is %r" % (rr, l, val, ref)
                    break
        if what:
            prop_fail.append(dict(where, what=what))
        # correspondence with the Lean model
        if i < len(model_blocks):
            mb = model_blocks[i]
            bad = None
            if "E" not in mb:
                bad = "model has no such element"
            else:
                mE = mb["E"]
                if (int(mE[1]), int(mE[3]), int(mE[4]), [int(x) for x in mE[5].split(",")]) != (ncore, N, L, lst):
                    bad = "header: model %s code %s" % (mE[1:], blk["E"][:4])
                mG = [(int(g[0]), int(g[1]), dec_float((int(g[2]), int(g[3]))), dec_float((int(g[4]), int(g[5])))) for g in mb["G"]]
                if sorted(mG) != sorted(G) or [g[0] for g in mG] != [g[0] for g in G]:
                    bad = "stored primitives differ"
                for mv, cv in zip(mb["V"], blk["V"]):
                    a_, b_ = unhex(mv[2]), unhex(cv[2])
                    if mv[:2] != cv[:2] or abs(a_ - b_) > 1e-13 * max(abs(a_), abs(b_)) + 1e-300:
                        # cancellation between Gaussians: compare against the magnitude of the terms
                        l, rr = int(cv[0]), unhex(cv[1])
                        mag = math.fsum(abs(d * rr ** n * math.exp(-a * rr * rr)) for (gl, n, a, d) in G if gl == l)
                        if mv[:2] != cv[:2] or abs(a_ - b_) > 1e-13 * mag + 1e-300:
                            bad = "evaluate l=%s r=%s: model %r code %r" % (cv[0], unhex(cv[1]), a_, b_)
                            break
            if bad and len(corr_fail) < 10:
                corr_fail.append(dict(where, where_=bad))
    ctx.obligation("correspondence: Lean loader/evaluator model = real addECP_from_file for every shipped element", not corr_fail, json.dumps(corr_fail[:2]))
    ctx.coverage.update({"sets": len(ecpdata.SETS), "elements_loaded": len(blocks), "primitives": n_prims, "evaluator_points": n_eval,
                         "radii": radii, "exhaustive": True, "traces_validated_against_impl": len(blocks)})
    if reqs:
        ctx.sample({"request": reqs[0][2][:160]})
        ctx.sample({"request": reqs[-1][2][:160]})
    if prop_fail:
        ctx.violation("failing-input", prop_fail[0]["what"], {"input": prop_fail[0], "n_failing": len(prop_fail)}, True)
    elif ctx.broken:
        ctx.violation("theorem-broken" if not proofs_ok else "correspondence-broken",
                      "C16 is no longer shown to hold: %s" % "; ".join(ctx.broken[:4]), {"elements_loaded": len(blocks)}, False)
    ctx.assumptions += ["pugixml delivers the attribute strings of the file; std::stod/std::stoi convert them correctly rounded",
                        "std::sort is modelled as an arbitrary permutation ordered by l (theorems) / a stable insertion (executable model)"]
    ctx.trusted += ["translate/ecpdata.py (own tokenizer for the MOLPRO format, xml.etree for the XML), powfns.py, constants.py; harness/corr_ecp.cpp; comparison in checks/c16.py"]
    return ctx.finish("proof")
