"""shared machinery of C02 (first derivatives) and C03 (second derivatives) of a shell pair.

correspondence: the shifted-shell blocks are fetched from the real compute_shell_pair (public shift
arguments, coefficient scaling as documented), assembled by the Lean model (Model/Deriv.lean, compiled
driver) and compared with what the real routines return - every intermediate (QA, QB, QAA, QBB, QAB)
and the final 9 / 45 matrices, rel 1e-13.
search: central finite differences (median of three steps) of compute_shell_pair / of the analytic
first derivatives with respect to each centre, translational sum rules, symmetry of mixed partials."""
import json, math, os, random, struct, subprocess, sys
from concurrent.futures import ThreadPoolExecutor
sys.path.insert(0, os.path.join(os.path.dirname(os.path.abspath(__file__)), ".."))
from vlib import core, build

REL = 1e-13
# steps: the blocks carry ~1e-8 absolute noise (adaptive quadrature), so larger steps than for a smooth function
HS = (5e-4, 1e-3, 2e-3)
BRANCHES = ["distinct", "A=C", "B=C", "A=B=C", "A=B"]


def unhex(s):
    return struct.unpack(">d", bytes.fromhex(s))[0]


def make_case(rng, LA, LB, branch, ecpL=None, benign=False, twin=None, across=False):
    """three atoms (0: shell A, 1: shell B, 2: ECP); coincident centres get bit-identical coordinates"""
    def pt(scale=1.0):
        return [round(rng.uniform(-1.6, 1.6) * scale, 3) for _ in range(3)]
    C = pt(0.5)
    def away():
        while True:
            p = pt()
            if sum((a - b) ** 2 for a, b in zip(p, C)) > 0.6:
                return p
    A, B = away(), away()
    while sum((a - b) ** 2 for a, b in zip(A, B)) < 0.3:
        B = away()
    # a third of the off-centre shells sit in the plane x + y + z = const through the ECP (offset components summing to zero),
    # on a coordinate axis through it, or on a diagonal: where a test of "is this shell on the ECP" that combines the components
    # in any way other than a norm gives the wrong answer
    def special(P):
        k = rng.random()
        if k < 0.67:
            return P
        a, b_ = round(rng.uniform(0.5, 1.5) * rng.choice([-1, 1]), 3), round(rng.uniform(0.2, 1.2) * rng.choice([-1, 1]), 3)
        off = rng.choice([(a, -a, 0.0), (0.0, a, -a), (a, b_, round(-(a + b_), 3)), (a, 0.0, 0.0), (0.0, 0.0, a), (a, a, a)])
        return [round(C[i] + off[i], 3) for i in range(3)]
    A, B = special(A), special(B)
    if sum((a - b) ** 2 for a, b in zip(A, B)) < 0.05:
        B = away()
    if across:
        # two shells without diffuse primitives 5-6 bohr apart on opposite sides of the ECP: their mutual overlap is negligible, the
        # semi-local part still couples them through the ECP centre (nothing may be dropped because the SHELLS are far from each other)
        d = [rng.uniform(-0.4, 0.4), rng.uniform(-0.4, 0.4), rng.uniform(2.5, 3.0)]
        e = [rng.uniform(-0.4, 0.4), rng.uniform(-0.4, 0.4), rng.uniform(2.5, 3.0)]
        A = [round(C[i] + d[i], 3) for i in range(3)]
        B = [round(C[i] - e[i], 3) for i in range(3)]
    if branch in ("A=C", "A=B=C"):
        A = list(C)
    if branch in ("B=C", "A=B=C"):
        B = list(C)
    if branch == "A=B":
        B = list(A)
    def shell(atom, l, nmin=1):
        # twins must be contracted: with one primitive each, equal exponents make the two derivative blocks equal by bilinearity,
        # whatever the coefficients are, and a shortcut keyed on the exponents alone cannot show
        n = rng.choice([1, 1, 2]) if nmin == 1 else rng.choice([2, 2, 3])
        lo, hi = (-0.1, 0.6) if benign else (-0.5, 0.9)
        if across:
            lo, hi = 0.35, 1.2
        return "shell %d %d %d %s" % (atom, l, n, " ".join("%r %r" % (round(10 ** rng.uniform(lo, hi), 4), round(rng.choice([-1, 1]) * rng.uniform(0.3, 1.3), 4)) for _ in range(n)))
    L = ecpL if ecpL is not None else rng.choice([1, 2, 2, 3])
    prims = []
    for l in range(L + 1):
        for _ in range(rng.choice([1, 1, 2])):
            n = 2 if benign else rng.choice([2, 2, 2, 1, 0])
            prims.append("%d %d %r %r" % (n, l, round(10 ** (rng.uniform(-0.9, -0.3) if across and l < L else rng.uniform(-0.2, 0.6)), 4), round(rng.uniform(-3, 5), 4)))
    shA, shB = shell(0, LA, 2 if (twin and LA == LB) else 1), shell(1, LB)
    if twin and LA == LB:
        # general contraction: the second shell has the exponents of the first; "same" also copies the coefficients
        t = shA.split()
        np_ = int(t[3])
        tp = t[4:]
        if twin == "exps":
            tp = [tp[i] if i % 2 == 0 else repr(round(rng.choice([-1, 1]) * rng.uniform(0.3, 1.3), 4)) for i in range(2 * np_)]
        shB = "shell 1 %d %d %s" % (LB, np_, " ".join(tp))
    lines = ["reset", "atoms 3", "geom 0 " + " ".join(repr(x) for x in A + B + C), shA, shB,
             "ecp 2 %d %s" % (len(prims), " ".join(prims))]
    return {"lines": lines, "LA": LA, "LB": LB, "branch": branch + ("/twin-" + twin if twin and LA == LB else ""), "pos": [A, B, C], "ecpL": L}


def run(drv, text, timeout=900):
    r = subprocess.run([drv], input=text, stdout=subprocess.PIPE, stderr=subprocess.PIPE, text=True, timeout=timeout)
    return r.returncode, r.stdout, r.stderr


def parse_mats(lines):
    out = {}
    for l in lines:
        t = l.split()
        if len(t) >= 4 and t[0] in ("QA", "QB", "R1", "QAA", "QBB", "QAB", "R2"):
            out[(t[0], int(t[1]))] = (int(t[2]), int(t[3]), [unhex(x) for x in t[4:]])
        elif t and t[0] == "I":
            out[("I", 0)] = (int(t[1]), int(t[2]), [unhex(x) for x in t[3:]])
    return out


def one_case(args):
    drv, case, order = args
    try:
        rc, out, err = run(drv, "\n".join(case["lines"] + ["deriv 0 1 0 %d" % order]) + "\n")
    except subprocess.TimeoutExpired:
        return {"crash": "timeout"}
    if rc != 0:
        return {"crash": "rc=%d %s" % (rc, err[-400:])}
    req = [l[2:] for l in out.split("\n") if l.startswith("> ")]
    real = parse_mats([l[2:] for l in out.split("\n") if l.startswith("< ")])
    model = parse_mats(core.run_driver(req)) if os.path.exists(core.DRIVER) else None
    return {"real": real, "model": model}


def compare(real, model, tags):
    worst, bad = 0.0, None
    for key, (r, c, v) in real.items():
        if key[0] not in tags:
            continue
        if r * c == 0:
            continue  # a routine that was not called leaves empty matrices
        m = model.get(key)
        if m is None or (m[0], m[1]) != (r, c):
            return float("inf"), "%s[%d]: model has %s, code %dx%d" % (key[0], key[1], m and m[:2], r, c)
        sc = max([abs(x) for x in v] + [abs(x) for x in m[2]] + [0.0])
        for x, y in zip(v, m[2]):
            if x != x or y != y:
                if not (x != x and y != y):
                    return float("inf"), "%s[%d]: NaN on one side only" % key
                continue
            d = abs(x - y)
            if sc > 0:
                worst = max(worst, d / sc)
            if d > REL * sc + 1e-300 and bad is None:
                bad = "%s[%d] differs by %.3g (largest element %.3g)" % (key[0], key[1], d, sc)
    return worst, bad


def displaced_blocks(drv, case, disps):
    """integral blocks with the three centres displaced by each 9-vector in disps"""
    req = case["lines"] + ["block 0 1 0 " + " ".join(repr(x) for x in d) for d in disps]
    rc, out, err = run(drv, "\n".join(req) + "\n")
    if rc != 0:
        return None
    res = []
    for l in out.split("\n"):
        if l.startswith("< I"):
            res.append(parse_mats([l[2:]])[("I", 0)][2])
    return res if len(res) == len(disps) else None


def fd_first(drv, case):
    """{(centre, q): d block / d centre_q} by median-of-three central differences"""
    disps = []
    for c in range(3):
        for q in range(3):
            for h in HS:
                for s in (1, -1):
                    d = [0.0] * 9
                    d[3 * c + q] = s * h
                    disps.append(d)
    blocks = displaced_blocks(drv, case, disps)
    if blocks is None:
        return None
    out, i = {}, 0
    for c in range(3):
        for q in range(3):
            ds = []
            for h in HS:
                p, m = blocks[i], blocks[i + 1]
                i += 2
                ds.append([(a - b) / (2 * h) for a, b in zip(p, m)])
            out[(c, q)] = [sorted(t)[1] for t in zip(*ds)]
    return out


def groups(branch):
    """centres that move together"""
    branch = branch.split("/")[0]
    return {"distinct": [[0], [1], [2]], "A=C": [[0, 2], [1]], "B=C": [[0], [1, 2]], "A=B=C": [[0, 1, 2]], "A=B": [[0], [1], [2]]}[branch]


def first_oracle(drv, case, real, tol_rel):
    """C02's own statement checked on the implementation: R1 = gradient (distinct centres), sums over
    coincident centres = derivative of moving them together, the three centre blocks sum to zero"""
    fails, worst = [], 0.0
    fd = fd_first(drv, case)
    R = {i: real.get(("R1", i)) for i in range(9)}
    if any(v is None for v in R.values()):
        return [{"what": "compute_shell_pair_derivative returned fewer than 9 matrices"}], 0.0
    scale = max([abs(x) for i in range(9) for x in R[i][2]] + [1e-300])
    n = len(R[0][2])
    if fd is not None:
        scale = max([scale] + [abs(x) for v in fd.values() for x in v])
    for q in range(3):
        s = [R[q][2][k] + R[3 + q][2][k] + R[6 + q][2][k] for k in range(n)]
        d = max(abs(x) for x in s)
        if d > 1e-10 * scale + 1e-14:
            fails.append({"what": "translational sum rule violated for coordinate %d: A+B+C = %.3g (largest element %.3g)" % (q, d, scale)})
    if fd is None:
        return fails + [{"what": "compute_shell_pair crashed at a displaced geometry"}], 0.0
    for g in groups(case["branch"]):
        for q in range(3):
            want = [sum(fd[(c, q)][k] for c in g) for k in range(n)]
            got = [sum(R[3 * c + q][2][k] for c in g) for k in range(n)]
            d = max(abs(a - b) for a, b in zip(want, got))
            if scale > 1e-3:
                worst = max(worst, d / scale)
            if d > tol_rel * scale + 1e-5:
                fails.append({"what": "derivative with respect to centre(s) %s coordinate %d differs from the finite difference of the integral block by %.3g (largest derivative element %.3g)" % ("+".join("ABC"[c] for c in g), q, d, scale)})
    return fails, worst


def run_cases(ctx, order, cases, tags):
    b = build.build("plain")
    drv = build.compile_driver(b, "corr_deriv.cpp")
    with ThreadPoolExecutor(16) as ex:
        res = list(ex.map(one_case, [(drv, c, order) for c in cases]))
    corr_fail, crash = [], []
    worst = 0.0
    for c, r in zip(cases, res):
        if "crash" in r:
            crash.append({"case": c["lines"], "what": "routine crashed: " + r["crash"], "class": (c["LA"], c["LB"], c["branch"])})
            continue
        if r["model"] is None:
            continue
        w, bad = compare(r["real"], r["model"], tags)
        if bad:
            corr_fail.append({"case": c["lines"], "class": (c["LA"], c["LB"], c["branch"]), "where": bad})
        else:
            worst = max(worst, w)
    return drv, res, corr_fail, crash, worst


def sym_idx(p, q):
    p, q = min(p, q), max(p, q)
    return {(0, 0): 0, (0, 1): 1, (0, 2): 2, (1, 1): 3, (1, 2): 4, (2, 2): 5}[(p, q)]


def r2_index(c1, p, c2, q):
    """position of d2/d(c1_p)d(c2_q) among the 45 matrices and whether the stored entry is that or its mirror"""
    if c1 > c2:
        c1, p, c2, q = c2, q, c1, p
    if c1 == c2:
        return {0: 0, 1: 24, 2: 39}[c1] + sym_idx(p, q)
    return {(0, 1): 6, (0, 2): 15, (1, 2): 30}[(c1, c2)] + 3 * p + q


def displaced_first(drv, case, disps):
    """the nine analytic first-derivative matrices with the three centres displaced by each 9-vector"""
    base = [l for l in case["lines"] if not l.startswith("geom")]
    req = []
    for d in disps:
        pos = [x + dx for x, dx in zip([v for p in case["pos"] for v in p], d)]
        req += base + ["geom 0 " + " ".join(repr(x) for x in pos), "deriv 0 1 0 1"]
    rc, out, err = run(drv, "\n".join(req) + "\n")
    if rc != 0:
        return None
    res, cur = [], []
    for l in out.split("\n"):
        if l.startswith("< end"):
            m = parse_mats(cur)
            res.append([m[("R1", i)][2] for i in range(9)] if all(("R1", i) in m for i in range(9)) else None)
            cur = []
        elif l.startswith("< "):
            cur.append(l[2:])
    return res if len(res) == len(disps) and all(r is not None for r in res) else None


def second_oracle(drv, case, real, tol_rel):
    """C03's own statement on the implementation (distinct centres): R2 = Hessian by finite differences of the
    analytic gradient; translational sum rules; symmetry of mixed partials between the 6- and 9-component layouts"""
    fails, worst = [], 0.0
    R = {i: real.get(("R2", i)) for i in range(45)}
    if any(v is None for v in R.values()):
        return [{"what": "compute_shell_pair_second_derivative returned fewer than 45 matrices", "hard": True}], 0.0
    n = len(R[0][2])
    scale = max([abs(x) for i in range(45) for x in R[i][2]] + [1e-300])
    V = lambda i: R[i][2]
    def chk(name, a, b):
        d = max([abs(x - y) for x, y in zip(a, b)] + [0.0])
        if d > 1e-10 * scale + 1e-14:
            fails.append({"what": "%s violated by %.3g (largest element %.3g)" % (name, d, scale), "hard": True})
    if case["branch"].split("/")[0] in ("distinct", "A=B"):
        for p in range(3):
            for q in range(3):
                s = sym_idx(p, q)
                chk("sum rule AC = -(AA + AB) [%d,%d]" % (p, q), V(15 + 3 * p + q), [-(a + b) for a, b in zip(V(s), V(6 + 3 * p + q))])
                chk("sum rule BC = -(BB + BA) [%d,%d]" % (p, q), V(30 + 3 * p + q), [-(a + b) for a, b in zip(V(24 + s), V(6 + 3 * q + p))])
                if p <= q:
                    chk("sum rule CC = AA + AB + BA + BB [%d,%d]" % (p, q), V(39 + s), [a + b + c + d for a, b, c, d in zip(V(s), V(6 + 3 * p + q), V(6 + 3 * q + p), V(24 + s))])
        disps = []
        for c in range(3):
            for q in range(3):
                for h in HS:
                    for sg in (1, -1):
                        d = [0.0] * 9
                        d[3 * c + q] = sg * h
                        disps.append(d)
        res = displaced_first(drv, case, disps)
        if res is None:
            return fails + [{"what": "first-derivative routine crashed at a displaced geometry", "hard": True}], 0.0
        i = 0
        for c2 in range(3):
            for q in range(3):
                ds = []
                for h in HS:
                    pl, mi = res[i], res[i + 1]
                    i += 2
                    ds.append([[(a - b) / (2 * h) for a, b in zip(pl[k], mi[k])] for k in range(9)])
                for c1 in range(3):
                    for p in range(3):
                        fd = [sorted(t)[1] for t in zip(*[d[3 * c1 + p] for d in ds])]
                        got = V(r2_index(c1, p, c2, q))
                        dev = max(abs(a - b) for a, b in zip(fd, got))
                        scale2 = max(scale, max(abs(x) for x in fd))
                        if scale2 > 1e-3:
                            worst = max(worst, dev / scale2)
                        if dev > tol_rel * scale2 + 1e-5:
                            fails.append({"what": "second derivative d2/d%s_%d d%s_%d (matrix %d) differs from the finite difference of the analytic gradient by %.3g (largest element %.3g)" % ("ABC"[c1], p, "ABC"[c2], q, r2_index(c1, p, c2, q), dev, scale2)})
    return fails, worst


def shift_check(drv, case, order):
    """(worst abs difference, scale, blocks, where) between the shifted blocks of a derivative engine and the blocks a
    plain engine computes for genuinely shifted shells"""
    rc, out, err = run(drv, "\n".join(case["lines"] + ["shiftcheck 0 1 0 %d" % order]) + "\n")
    if rc != 0:
        return None
    for l in out.split("\n"):
        t = l.split()
        if len(t) >= 6 and t[:2] == ["<", "S"]:
            return unhex(t[3]), unhex(t[4]), int(t[2]), t[5]
    return None
