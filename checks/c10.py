"""C10 - the integral engine can be used from many threads at once.

proof   : lean/Ecpint/Props/C10.lean: Bernstein's theorem for an unbounded number of threads and arbitrary
          schedules over the model Model/Conc.lean, and `decide` over the extracted effect table that the API
          operations are pairwise compatible and the const compute routines have no write back door.
tie     : translate/effects.py (linker inventory of writable static storage + clang AST effect analysis +
          textual scan of the generated integral code), regenerated every run; dynamic: ThreadSanitizer build of
          the working tree driven by 2-16 threads sharing one engine and constructing private ones
          (happens-before analysis of the executed accesses), results compared bit for bit with a serial run.
search  : the same ThreadSanitizer runs.
"""
import json, os, re, subprocess, sys
sys.path.insert(0, os.path.join(os.path.dirname(os.path.abspath(__file__)), ".."))
from vlib import core, build
from translate import effects
from translate.util import TranslateError


def main(ctx):
    quick = ctx.tier == "quick"
    b = build.build("plain")
    info = None
    try:
        text, info = effects.translate(b)
        core.write_if_changed(os.path.join(core.LEAN, "Ecpint", "Gen", "Effects.lean"), text)
        ctx.obligation("translator effects.py (nm inventory + clang AST + generated-code scan)", True,
                       json.dumps({"inventory": info["inventory"], "ops": [{k: o[k] for k in ("name", "globalWrites", "onceWrites")} for o in info["ops"]]})[:900])
    except TranslateError as e:
        ctx.obligation("translator effects.py (nm inventory + clang AST + generated-code scan)", False, str(e))
    proofs_ok = ctx.lean_props("C10") if info is not None else False
    # dynamic: ThreadSanitizer
    tb = build.build("tsan")
    drv = build.compile_driver(tb, "corr_threads.cpp")
    env = dict(os.environ, TSAN_OPTIONS="exitcode=66 halt_on_error=0 report_signal_unsafe=0 history_size=4")
    configs = [(2, 2), (4, 2), (8, 1)] if quick else [(2, 6), (3, 6), (4, 6), (8, 4), (12, 3), (16, 3)]
    races, mism, crashes, runs = [], [], [], []
    calls = 0
    for k, (T, rounds) in enumerate(configs):
        r = subprocess.run([drv, str(T), str(rounds), str(ctx.seed * 100 + k)], stdout=subprocess.PIPE, stderr=subprocess.PIPE, text=True, env=env, timeout=1800)
        m = re.search(r"threads=(\d+) rounds=(\d+) calls=(\d+) mismatches=(\d+)", r.stdout)
        rec = {"threads": T, "rounds": rounds, "seed": ctx.seed * 100 + k, "rc": r.returncode, "out": r.stdout.strip()}
        runs.append(rec)
        if m:
            calls += int(m.group(3))
            if int(m.group(4)):
                mism.append(rec)
        reps = re.findall(r"WARNING: ThreadSanitizer: data race.*?(?=\n={10,}|\Z)", r.stderr, re.S)
        for rep in reps[:3]:
            locs = re.findall(r"#\d+ ([\w:~<>]+(?:\([^)]*\))?) [^\n]*?([\w./-]+\.(?:cpp|hpp):\d+)", rep)
            glob = re.search(r"Location is global '([^']+)'", rep)
            races.append(dict(rec, report=rep[:1500], frames=locs[:6], object=glob.group(1) if glob else None))
        if not m and r.returncode not in (0, 66):
            crashes.append(dict(rec, err=r.stderr[-600:]))
    ctx.obligation("ThreadSanitizer: no data race in %d runs (%s threads)" % (len(configs), ",".join(str(c[0]) for c in configs)), not races,
                   json.dumps([{"object": x["object"], "frames": x["frames"][:3]} for x in races[:2]]))
    ctx.obligation("concurrent results bit-identical to the serial run", not mism and not crashes, json.dumps((mism + crashes)[:2])[:600])
    ctx.coverage.update({"tsan_runs": runs, "concurrent_calls_compared": calls, "traces_validated_against_impl": calls,
                         "thread_counts": [c[0] for c in configs]})
    ctx.sample({"run": runs[0]})
    ctx.sample({"effects": info["ops"][0] if info else None})
    if races:
        x = races[0]
        ctx.violation("failing-input", "data race on %s between threads using the library concurrently (ThreadSanitizer)" % (x["object"] or "a shared object"),
                      {"input": {"threads": x["threads"], "rounds": x["rounds"], "seed": x["seed"], "driver": "harness/corr_threads.cpp (tsan build)"},
                       "report": x["report"], "frames": x["frames"], "n_reports": len(races)}, True)
    elif mism or crashes:
        x = (mism + crashes)[0]
        ctx.violation("failing-input", "results computed concurrently differ from the serial run / crash: %s" % x.get("out", ""),
                      {"input": {k: x[k] for k in ("threads", "rounds", "seed")}, "detail": x}, True)
    elif ctx.broken:
        ctx.violation("theorem-broken", "C10 is no longer shown to hold: %s" % "; ".join(ctx.broken[:4]),
                      {"tsan_runs": len(runs), "concurrent_calls": calls}, False)
    ctx.assumptions += ["std::call_once / function-local static initialisation are one atomic step that happens-before every later use (C++11 [thread.once.callonce], [stmt.dcl])",
                        "a const member function of a class without mutable members, const_casts or pointer/reference members cannot write its object (C++ const semantics); the translator fails if such members appear",
                        "std::cerr/std::cout insertions are synchronised by the standard library"]
    ctx.trusted += ["translate/effects.py: pattern-based walk of clang-14's JSON AST (assignments, compound assignments, ++/--, operator= calls whose target is static storage; call graph over direct calls, function pointers through QGEN, std::function targets) cross-checked against nm's inventory of writable symbols",
                    "ThreadSanitizer's happens-before analysis covers every schedule of the accesses that were executed, not accesses that were never executed",
                    "harness/corr_threads.cpp"]
    return ctx.finish("proof")
