"""C05 - integrator results depend only on the current inputs, not on the call history.

proof   : lean/Ecpint/Props/C05.lean (refinement of the container model to "remembers the coordinates
          of its last compute"), for all histories, over the preparation modes extracted from api.cpp.
tie     : translate/apiinit.py (regenerated every run) + correspondence of the model's formal sums
          with the real integrator driven through the same histories (harness/corr_history.cpp).
search  : the same runs compared with the property's own oracle - a freshly constructed integrator at
          the current coordinates - exhaustive over short histories, random beyond.
"""
import itertools, os, random, subprocess, sys, time, json
from concurrent.futures import ThreadPoolExecutor
sys.path.insert(0, os.path.join(os.path.dirname(os.path.abspath(__file__)), ".."))
from vlib import core, build
from translate import apiinit
from translate.util import TranslateError

REL = 1e-12


def fl(x):
    return float.fromhex(x)


def systems(rng):
    """two families of partition-preserving systems (see DESIGN.md C05)"""
    def prim(lo, hi):
        return "%r %r" % (10 ** rng.uniform(lo, hi), rng.choice([-1, 1]) * rng.uniform(0.2, 1.5))
    out = []
    # A: atom0 shells+ECP (never moves), atom1 shells only (moved by S), atom2 ECP only (moved by E)
    a = ["reset", "atoms 3"]
    pos1 = [(1.7, 0.3, -0.4), (0.2, -2.1, 0.9), (14.0 + rng.uniform(0, 3), 1.0, 0.5)]
    pos2 = [(-0.6, 1.9, 0.8), (-1.2, -0.7, -2.2), (-13.0 - rng.uniform(0, 3), 0.4, 2.0)]
    for k in range(3):
        a.append("geom %d 0.1 -0.2 0.05 %r %r %r %r %r %r" % ((k,) + pos1[k] + pos2[k]))
    a.append("shell 0 %d 2 %s %s" % (rng.choice([0, 1]), prim(-0.5, 1.0), prim(0.0, 1.5)))
    a.append("shell 1 %d 1 %s" % (rng.choice([0, 1, 2]), prim(-0.3, 0.8)))
    a.append("shell 1 0 1 %s" % prim(0.5, 1.5))
    a.append("ecp 0 3 2 0 %r %r 2 1 %r %r 2 2 %r %r" % (rng.uniform(0.5, 3), rng.uniform(1, 8), rng.uniform(0.5, 3), rng.uniform(-5, 5), rng.uniform(0.3, 2), rng.uniform(-2, -0.2)))
    a.append("ecp 2 2 2 0 %r %r 2 1 %r %r" % (rng.uniform(0.5, 3), rng.uniform(1, 8), rng.uniform(0.3, 2), rng.uniform(-2, -0.2)))
    out.append(("indep", a, 3, ["S0", "S1", "S2", "E0", "E1", "E2", "I", "D1", "D2"], None))
    # A': the same system with the ECPs listed in the opposite order to the atoms' first appearance among the shells
    # (the documented interface leaves the order of the ECP list free)
    a2 = [l for l in a if not l.startswith("ecp ")] + [l for l in reversed(a) if l.startswith("ecp ")]
    out.append(("indep-ecp-order", a2, 3, ["S0", "S1", "S2", "E0", "E1", "E2", "I", "D1", "D2"], None))
    # B: two atoms with shells and ECPs, always moved together (macro M<g> = S<g> E<g>)
    b = ["reset", "atoms 2"]
    geo = [((0, 0, 0), (0.0, 0.3, 2.1)), ((0.4, -0.1, 0.2), (1.5, 1.4, -0.3)), ((0, 0, 0), (16.0 + rng.uniform(0, 2), 0.5, 0.2))]
    for k in range(3):
        b.append("geom %d %r %r %r %r %r %r" % ((k,) + tuple(map(float, geo[k][0])) + tuple(map(float, geo[k][1]))))
    b.append("shell 0 1 1 %s" % prim(-0.3, 0.8))
    b.append("shell 1 %d 2 %s %s" % (rng.choice([0, 1]), prim(-0.5, 0.8), prim(0.3, 1.5)))
    b.append("shell 0 0 1 %s" % prim(0.0, 1.0))
    b.append("ecp 1 3 2 0 %r %r 2 1 %r %r 1 1 %r %r" % (rng.uniform(0.5, 3), rng.uniform(1, 8), rng.uniform(0.5, 3), rng.uniform(-5, 5), rng.uniform(0.3, 2), rng.uniform(-2, -0.2)))
    out.append(("joint", b, 2, ["M0", "M1", "M2", "I", "D1", "D2"], {"M0": ["S0", "E0"], "M1": ["S1", "E1"], "M2": ["S2", "E2"]}))
    return out


def histories(alphabet, exhaustive_len, n_random, max_len, rng):
    hs = []
    for L in range(1, exhaustive_len + 1):
        hs.extend(list(h) for h in itertools.product(alphabet, repeat=L))
    comp = [a for a in alphabet if a in ("I", "D1", "D2")]
    # two-phase histories: update, compute, update, compute (and with a compute first) for EVERY pair of updates and computes:
    # what one phase leaves behind (caches, flags, lists built for the first geometry) meets a geometry it was not built for
    upd = [a for a in alphabet if a not in comp]
    for u1 in upd:
        for u2 in upd:
            for c1 in comp:
                for c2 in comp:
                    hs.append([u1, c1, u2, c2])
            hs.append(["I", u1, "I", u2, "I"])
    for _ in range(n_random):
        L = rng.randint(exhaustive_len + 1, max_len)
        h = [rng.choice(alphabet) if rng.random() < 0.6 else rng.choice(comp) for _ in range(L)]
        hs.append(h)
    return hs


def run_harness(drv, header, lines, nproc=16):
    chunks = [lines[i::nproc] for i in range(nproc)]
    chunks = [c for c in chunks if c]

    def one(c):
        r = subprocess.run([drv], input="\n".join(header + c) + "\n", stdout=subprocess.PIPE, stderr=subprocess.PIPE, text=True)
        if r.returncode != 0:
            return ("crash", r.returncode, r.stderr[-1500:], c)
        return ("ok", r.stdout.split("\n"))
    with ThreadPoolExecutor(nproc) as ex:
        return list(ex.map(one, chunks))


def parse_obs(tok):
    d = {}
    for t in tok:
        k, v = t.split("=", 1)
        d[k] = v
    dims, p, m = d["ints"].split(":")
    o = {"natoms": int(d["natoms"]), "ncart": int(d["ncart"]), "idims": dims, "ints": (fl(p), fl(m)), "bad": int(d["bad"])}
    for key in ("d1", "d2"):
        n, rest = d[key].split(":", 1)
        o[key] = [tuple(fl(x) for x in s.split("/")) for s in rest.split(",")] if rest else []
        assert len(o[key]) == int(n)
    return o


def close(a, b, scale):
    return abs(a - b) <= REL * max(scale, 1e-300) + 1e-300


def main(ctx):
    rng = random.Random(ctx.seed * 7919 + 5)
    # 1. translator
    modes = None
    try:
        text, modes = apiinit.translate()
        core.write_if_changed(os.path.join(core.LEAN, "Ecpint", "Gen", "ApiInit.lean"), text)
        ctx.obligation("translator apiinit.py reads api.cpp", True, json.dumps(modes))
    except TranslateError as e:
        ctx.obligation("translator apiinit.py reads api.cpp", False, str(e))
    # 2. theorems
    proofs_ok = ctx.lean_props("C05") if modes is not None else False
    # 3. implementation runs
    b = build.build("plain")
    drv = build.compile_driver(b, "corr_history.cpp")
    quick = ctx.tier == "quick"
    prop_fail = []   # failures of the property on the implementation (history, what)
    corr_fail = []   # model != implementation
    n_hist = n_obs = 0
    lens_seen = {}
    for name, header, natoms, alphabet, macros in systems(rng):
        hs = histories(alphabet, 3 if quick else (5 if name == "joint" else 4), 150 if quick else 3000, 10 if quick else 40, rng)
        if macros:
            expanded = [[o for tok in h for o in macros.get(tok, [tok])] for h in hs]
        else:
            expanded = hs
        coords = sorted({(s, e) for s in range(3) for e in range(3)} if not macros else {(g, g) for g in range(3)})
        lines = ["hist %d %s" % (i, " ".join(h)) for i, h in enumerate(expanded)]
        res = run_harness(drv, header + ["deriv 2"], lines)
        fres = run_harness(drv, header + ["deriv 2"], ["fresh %d %d" % c for c in coords], nproc=len(coords))
        fresh = {}
        for r in fres:
            if r[0] != "ok":
                prop_fail.append({"system": name, "history": r[3], "what": "fresh integrator crashed: %s" % r[2][-300:]})
                continue
            for l in r[1]:
                t = l.split()
                if t and t[0] == "f":
                    fresh[(int(t[1]), int(t[2]))] = parse_obs(t[3:])
        for c, o in fresh.items():
            if o["natoms"] != natoms:
                raise RuntimeError("generator bug: system %s at %s has natoms %d" % (name, c, o["natoms"]))
        obs = {}
        for r in res:
            if r[0] != "ok":
                prop_fail.append({"system": name, "history": r[3][:3], "what": "harness crashed (rc %s): %s" % (r[1], r[2][-300:])})
                continue
            for l in r[1]:
                t = l.split()
                if t and t[0] == "h":
                    obs[(int(t[1]), int(t[2]))] = parse_obs(t[3:])
        # model
        mlines = core.run_driver(["history %d %s" % (natoms, " ".join(h)) for h in expanded]) if os.path.exists(core.DRIVER) else []
        model = {}
        hi = -1
        for l in mlines:
            t = l.split()
            if not t or t[0] != "h":
                continue
            k = int(t[1])
            if k == 0:
                hi += 1
            d = dict(x.split("=", 1) for x in t[2:])
            def slot(s):
                return [] if s == "0" else [tuple(int(v) for v in p.split(".")) for p in s.split("+")]
            st = {"cur": tuple(int(v) for v in d["cur"].split(",")), "ints": slot(d["ints"])}
            for key in ("d1", "d2"):
                n, rest = d[key].split(":", 1)
                st[key] = [slot(s) for s in rest.split("|")] if int(n) else []
            model[(hi, k)] = st
        n1, n2 = 3 * natoms, (3 * natoms * (3 * natoms + 1)) // 2
        for i, h in enumerate(expanded):
            n_hist += 1
            cur = [0, 0]
            failed_here = False
            for k, op in enumerate(h):
                if op[0] == "S":
                    cur[0] = int(op[1:])
                elif op[0] == "E":
                    cur[1] = int(op[1:])
                o = obs.get((i, k))
                if o is None:
                    continue
                n_obs += 1
                lens_seen[(len(o["d1"]), len(o["d2"]))] = lens_seen.get((len(o["d1"]), len(o["d2"])), 0) + 1
                c = tuple(cur)
                # --- the property's own oracle
                what = None
                if o["bad"]:
                    what = "a derivative matrix does not have ncart*ncart entries"
                elif op == "I":
                    f = fresh[c]
                    if o["idims"] != f["idims"] or not close(o["ints"][0], f["ints"][0], f["ints"][1]) or not close(o["ints"][1], f["ints"][1], f["ints"][1]):
                        what = "integrals after compute differ from a fresh integrator at the current coordinates"
                elif op in ("D1", "D2"):
                    key = "d1" if op == "D1" else "d2"
                    f = fresh[c]
                    want = n1 if op == "D1" else n2
                    if len(o[key]) != want:
                        what = "%s list has length %d, documented %d" % (key, len(o[key]), want)
                    else:
                        for j in range(want):
                            if not close(o[key][j][0], f[key][j][0], f[key][j][1]) or not close(o[key][j][1], f[key][j][1], f[key][j][1]):
                                what = "%s[%d] after compute differs from a fresh integrator at the current coordinates (%r vs %r)" % (key, j, o[key][j][0], f[key][j][0])
                                break
                if what and not failed_here:
                    failed_here = True
                    prop_fail.append({"system": name, "history": h[:k + 1], "what": what, "header": header})
                # --- correspondence with the model
                m = model.get((i, k))
                if m is None:
                    continue
                def ev(slot, key, j=None):
                    tot = sc = 0.0
                    for cc in slot:
                        f = fresh[cc]
                        v = f[key] if j is None else (f[key][j] if j < len(f[key]) else (0.0, 0.0))
                        tot += v[0]
                        sc = max(sc, v[1])
                    return tot, sc
                bad = None
                mi, sc = ev(m["ints"], "ints")
                if not close(o["ints"][0], mi, max(sc, o["ints"][1])):
                    bad = "ints"
                for key in ("d1", "d2"):
                    if len(m[key]) != len(o[key]):
                        bad = "%s length (model %d, code %d)" % (key, len(m[key]), len(o[key]))
                        continue
                    for j, sl in enumerate(m[key]):
                        mv, sc = ev(sl, key, j)
                        if not close(o[key][j][0], mv, max(sc, o[key][j][1])):
                            bad = "%s[%d]" % (key, j)
                            break
                if bad and len(corr_fail) < 20:
                    corr_fail.append({"system": name, "history": h[:k + 1], "where": bad})
        ctx.sample({"system": name, "history": expanded[len(expanded) // 2], "header": header[:4]})
    ctx.coverage.update({"histories": n_hist, "traces_validated_against_impl": n_obs,
                         "exhaustive_length": 3 if quick else 5,
                         "observed_list_lengths": {"%d/%d" % k: v for k, v in lens_seen.items()}})
    ctx.obligation("correspondence: model formal sums = real containers after every operation", not corr_fail,
                   json.dumps(corr_fail[:3]))
    # 4. verdict
    if prop_fail:
        prop_fail.sort(key=lambda f: len(f["history"]))
        f = prop_fail[0]
        ctx.violation("failing-input", f["what"], {"system": f.get("header"), "history": f["history"],
                                                    "system_kind": f["system"], "n_failing_histories": len(prop_fail)}, True)
    elif ctx.broken:
        ctx.violation("theorem-broken" if not proofs_ok else "correspondence-broken",
                      "C05 is no longer shown to hold: %s" % "; ".join(ctx.broken[:4]),
                      {"searched_histories": n_hist, "observations": n_obs}, False)
    ctx.assumptions += ["coordinate updates keep the atom partition fixed at init() (shells of one atom move together, atoms stay apart)",
                        "a fresh result is a deterministic function of the coordinates held at compute time (checked by the fresh-vs-history comparison itself)"]
    ctx.trusted += ["translate/apiinit.py (regex over api.cpp) and harness/corr_history.cpp + the comparison in checks/c05.py",
                    "modelled, not verified: what a compute routine adds to its container is abstracted to 'the fresh result at the current coordinates' (C04 covers the numbers)"]
    return ctx.finish("proof")


def replay(ctx, path):
    """re-run the history recorded in a replay file on the current tree against the fresh-integrator oracle"""
    rp = json.load(open(path))
    if not rp.get("history") or not rp.get("system"):
        print("replay file records no failing input (%s); re-running the whole check" % rp.get("kind"))
        return main(ctx)
    b = build.build("plain")
    drv = build.compile_driver(b, "corr_history.cpp")
    h = [o for tok in rp["history"] for o in ({"M0": ["S0", "E0"], "M1": ["S1", "E1"], "M2": ["S2", "E2"]}.get(tok, [tok]))]
    cur = [0, 0]
    for op in h:
        if op[0] == "S": cur[0] = int(op[1:])
        if op[0] == "E": cur[1] = int(op[1:])
    r = subprocess.run([drv], input="\n".join(rp["system"] + ["deriv 2", "hist 0 " + " ".join(h), "fresh %d %d" % tuple(cur)]) + "\n",
                       stdout=subprocess.PIPE, text=True)
    print(r.stdout)
    ls = [l.split() for l in r.stdout.split("\n") if l]
    last = parse_obs([l for l in ls if l[0] == "h"][-1][3:])
    f = parse_obs([l for l in ls if l[0] == "f"][-1][3:])
    key = {"I": "ints", "D1": "d1", "D2": "d2"}.get(h[-1])
    bad = False
    if key == "ints":
        bad = not close(last["ints"][0], f["ints"][0], f["ints"][1])
    elif key:
        bad = len(last[key]) != len(f[key]) or any(not close(a[0], b_[0], b_[1]) for a, b_ in zip(last[key], f[key]))
    if bad:
        p = ctx.violation("failing-input", rp.get("what", "replayed history still fails"), {"system": rp["system"], "history": rp["history"]}, True)
    ctx.obligation("replayed history agrees with a fresh integrator", not bad)
    return ctx.finish("proof")
