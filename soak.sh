#!/bin/bash
# soak: every registered check at several seeds in the quick tier, then the thorough tier at seed 0.
# prints one line per run; any VIOLATION on the unchanged tree is a false alarm or a new finding to look at.
cd "$(dirname "$0")"
./setup.sh >/dev/null 2>&1
IDS=$(python3 -c "import json;print(' '.join(c['property_id'] for c in json.load(open('MANIFEST.json'))['checks']))")
for s in ${SOAK_SEEDS-1 2 3 4 5}; do
  for p in $IDS; do
    t0=$(date +%s)
    out=$(VERIF_SEED=$s ./check $p --tier quick 2>&1 | grep -E "^VIOLATION|^OK" | tr '\n' ';' | cut -c1-300)
    echo "seed=$s $p quick $(( $(date +%s)-t0 ))s: $out"
  done
done
for p in ${SOAK_THOROUGH-$IDS}; do
  t0=$(date +%s)
  out=$(VERIF_SEED=0 timeout ${SOAK_TIMEOUT:-3000} ./check $p --tier thorough 2>&1 | grep -E "^VIOLATION|^OK" | tr '\n' ';' | cut -c1-300)
  echo "seed=0 $p thorough $(( $(date +%s)-t0 ))s: $out"
done
