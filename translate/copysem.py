"""class definitions (clang-14 JSON AST) -> Ecpint/Gen/CopySem.lean

For GaussianShell: which members the copy constructor, operator= and copy() carry, which only under
`if (local_ptr)`, and whether centerVec is re-pointed at the target's own localCenter.
For the value classes: member list, raw-pointer members, and the members each copy op mentions."""
import json, os, subprocess, sys, tempfile
sys.path.insert(0, os.path.dirname(os.path.abspath(__file__)))
try:
    from .util import TranslateError
except ImportError:
    from util import TranslateError

FIELD_MAP = {"exps": "exps", "coeffs": "coeffs", "centerVec": "centerVec", "local_ptr": "localPtr",
             "localCenter": "localCenter", "min_exp": "minExp", "l": "l", "atom_id": "atomId"}
VALUE_CLASSES = ["ECP", "GaussianECP", "ECPBasis", "TwoIndex", "ThreeIndex", "FiveIndex", "SevenIndex",
                 "GCQuadrature", "ECPIntegrator"]

TU = r'''
#include "libecpint/gshell.hpp"
#include "libecpint/ecp.hpp"
#include "libecpint/multiarr.hpp"
#include "libecpint/gaussquad.hpp"
#include "libecpint/api.hpp"
#include "%(src)s/src/lib/gshell.cpp"
#include "%(src)s/src/lib/ecp.cpp"
#include "%(src)s/src/lib/gaussquad.cpp"
void verif_force_use() {
  using namespace libecpint;
  double c[3] = {0,0,0};
  GaussianShell a(c, 0), b(c, 1); a = b; GaussianShell d(a);
  ECP u, v; u = v; ECP w(u);
  GaussianECP g, h; g = h; GaussianECP g2(g);
  TwoIndex<double> t2, s2; t2 = s2; TwoIndex<double> r2(t2);
  ThreeIndex<double> t3, s3; t3 = s3; ThreeIndex<double> r3(t3);
  FiveIndex<double> t5, s5; t5 = s5; FiveIndex<double> r5(t5);
  SevenIndex<double> t7, s7; t7 = s7; SevenIndex<double> r7(t7);
  GCQuadrature q, r; q = r; GCQuadrature q3(q);
  ECPIntegrator i1, i2; i1 = i2; ECPIntegrator i3(i1);
  ECPBasis eb1, eb2; eb1 = eb2; ECPBasis eb3(eb1);
}
'''


def ast_for(build, name):
    src = build.src
    with tempfile.NamedTemporaryFile("w", suffix=".cpp", delete=False, dir=os.path.join(os.path.dirname(build.dir), "..")) as f:
        f.write(TU % {"src": src})
        tu = f.name
    try:
        cmd = ["clang++-14", "-std=gnu++17", "-DHAS_PUGIXML", "-fsyntax-only", "-Xclang", "-ast-dump=json",
               "-Xclang", "-ast-dump-filter=%s" % name] + ["-I" + i for i in build.includes] + [tu]
        r = subprocess.run(cmd, stdout=subprocess.PIPE, stderr=subprocess.PIPE, text=True)
        if r.returncode != 0:
            raise TranslateError("clang could not parse the class definitions: " + r.stderr[-1500:])
    finally:
        os.unlink(tu)
    dec = json.JSONDecoder()
    txt = r.stdout
    i, objs = 0, []
    while i < len(txt):
        while i < len(txt) and txt[i].isspace():
            i += 1
        if i >= len(txt):
            break
        o, i = dec.raw_decode(txt, i)
        objs.append(o)
    return objs


def walk(n):
    yield n
    for c in n.get("inner", []) or []:
        yield from walk(c)


def find_record(objs, name):
    """the CXXRecordDecl (or the <double> specialisation) that defines class `name`"""
    best = None
    for o in objs:
        for n in walk(o):
            if n.get("kind") == "ClassTemplateSpecializationDecl" and n.get("name") == name and n.get("completeDefinition"):
                return n
            if n.get("kind") == "CXXRecordDecl" and n.get("name") == name and n.get("completeDefinition") and best is None:
                best = n
    if best is None:
        raise TranslateError("class %s not found in the AST" % name)
    return best


def strip_casts(n):
    while n.get("kind") in ("ImplicitCastExpr", "ParenExpr", "CXXFunctionalCastExpr", "MaterializeTemporaryExpr", "ExprWithCleanups", "CXXBindTemporaryExpr") and n.get("inner"):
        n = n["inner"][0]
    return n


def member_root(n):
    """(field name, base designator) of an lvalue expression like f, f[i], x.f, x.f[i]"""
    n = strip_casts(n)
    if n.get("kind") == "ArraySubscriptExpr":
        return member_root(n["inner"][0])
    if n.get("kind") == "CXXOperatorCallExpr" and len(n.get("inner", [])) >= 2:
        callee = strip_casts(n["inner"][0])
        if callee.get("referencedDecl", {}).get("name") == "operator[]":
            return member_root(n["inner"][1])
    if n.get("kind") == "MemberExpr":
        base = strip_casts(n["inner"][0]) if n.get("inner") else {}
        if base.get("kind") == "CXXThisExpr":
            return n.get("name"), "this"
        if base.get("kind") == "DeclRefExpr":
            return n.get("name"), base.get("referencedDecl", {}).get("name")
    return None, None


def mentions(n, field, base):
    for x in walk(n):
        if x.get("kind") == "MemberExpr" and x.get("name") == field:
            b = strip_casts(x["inner"][0]) if x.get("inner") else {}
            if (base == "this" and b.get("kind") == "CXXThisExpr") or (b.get("kind") == "DeclRefExpr" and b.get("referencedDecl", {}).get("name") == base):
                return True
    return False


def assignments(n, guards=()):
    """yield (lhs, rhs, guards) for every assignment-like node under n"""
    k = n.get("kind")
    if k == "IfStmt":
        inner = n.get("inner", [])
        cond = inner[0] if inner else {}
        g = tuple(guards) + (cond,)
        for c in inner[1:2]:
            yield from assignments(c, g)
        for c in inner[2:]:
            yield from assignments(c, tuple(guards) + ({"kind": "ELSE"},))
        return
    if k == "BinaryOperator" and n.get("opcode") == "=":
        yield n["inner"][0], n["inner"][1], guards
    elif k == "CXXOperatorCallExpr":
        callee = strip_casts(n["inner"][0])
        if callee.get("referencedDecl", {}).get("name") == "operator=" and len(n["inner"]) >= 3:
            yield n["inner"][1], n["inner"][2], guards
    for c in n.get("inner", []) or []:
        yield from assignments(c, guards)


def analyse_copy(decl, tgt, src, fields):
    """members carried from `src` to `tgt` in a user-written body"""
    carried, if_local, repoint = [], [], False
    for c in decl.get("inner", []):
        if c.get("kind") == "CXXCtorInitializer" and "anyInit" in c:
            f = c["anyInit"].get("name")
            if f in fields and mentions(c, f, src):
                carried.append(f)
    body = [c for c in decl.get("inner", []) if c.get("kind") == "CompoundStmt"]
    if not body:
        raise TranslateError("copy operation %s has no visible body" % decl.get("name"))
    for lhs, rhs, guards in assignments(body[0]):
        f, base = member_root(lhs)
        if f is None or base != tgt or f not in fields:
            continue
        local_guard = False
        other_guard = False
        for g in guards:
            if g.get("kind") != "ELSE" and (mentions(g, "local_ptr", tgt) or mentions(g, "local_ptr", src)) and strip_casts(g).get("kind") == "MemberExpr":
                local_guard = True
            else:
                other_guard = True
        if other_guard:
            raise TranslateError("member %s is assigned under a condition the model does not know" % f)
        if f == "centerVec" and member_root(rhs) == ("localCenter", tgt):
            if not local_guard:
                raise TranslateError("centerVec is re-pointed unconditionally: not modelled")
            repoint = True
            continue
        if mentions(rhs, f, src):
            (if_local if local_guard else carried).append(f)
    return sorted(set(carried), key=fields.index), sorted(set(if_local) - set(carried), key=fields.index), repoint


def record_info(rec, name):
    fields, types = [], {}
    ctor = assign = None
    for c in rec.get("inner", []):
        k = c.get("kind")
        if k == "FieldDecl":
            fields.append(c["name"])
            types[c["name"]] = c["type"]["qualType"]
        q = c.get("type", {}).get("qualType", "")
        if k == "CXXConstructorDecl":
            if "&&" in q and not c.get("isImplicit") and not c.get("explicitlyDeleted"):
                raise TranslateError("%s declares a move constructor: not modelled" % name)
            if q.startswith("void (const ") and q.rstrip(") noexcept").count(",") == 0 and name in q and "&" in q and "&&" not in q:
                ctor = c
        if k == "CXXMethodDecl" and c.get("name") == "operator=":
            if "&&" in q and not c.get("isImplicit") and not c.get("explicitlyDeleted"):
                raise TranslateError("%s declares a move assignment: not modelled" % name)
            if "(const " in q and "&&" not in q:
                assign = c
    return fields, types, ctor, assign


def op_sem(decl, fields, tgt="this"):
    """(userDefined, carried, ifLocal, repoint)"""
    if decl is None or decl.get("isImplicit") or decl.get("explicitlyDefaulted"):
        return False, list(fields), [], False
    if decl.get("explicitlyDeleted"):
        raise TranslateError("copy operation is deleted")
    params = [c for c in decl.get("inner", []) if c.get("kind") == "ParmVarDecl"]
    src = params[0].get("name") if params else None
    if not src:
        raise TranslateError("copy operation has an unnamed parameter")
    c, i, r = analyse_copy(decl, tgt, src, fields)
    return True, c, i, r


def shell_sems(objs, build):
    rec = find_record(objs, "GaussianShell")
    fields, types, ctor, assign = record_info(rec, "GaussianShell")
    unknown = [f for f in fields if f not in FIELD_MAP]
    missing = [f for f in FIELD_MAP if f not in fields]
    if unknown or missing:
        raise TranslateError("GaussianShell members changed (new: %s, gone: %s): the heap model does not know them" % (unknown, missing))
    if ctor is None:
        raise TranslateError("no copy constructor found for GaussianShell")
    sems = {"ctor": op_sem(ctor, fields), "assign": op_sem(assign, fields)}
    # copy(): target is the local `result`, source is *this
    cm = [c for c in rec["inner"] if c.get("kind") == "CXXMethodDecl" and c.get("name") == "copy"]
    if not cm:
        raise TranslateError("GaussianShell::copy() not found")
    cm = cm[0]
    carried, if_local, rep = analyse_copy(cm, "result", "this", fields)
    # constructor arguments of `GaussianShell result(a, b)`
    for n in walk(cm):
        if n.get("kind") == "VarDecl" and n.get("name") == "result":
            ce = [x for x in walk(n) if x.get("kind") == "CXXConstructExpr"]
            if not ce:
                raise TranslateError("copy(): construction of result not understood")
            args = [member_root(a) for a in ce[0].get("inner", [])]
            # map positional parameters of the (double*, int) constructor to members via its definition
            extc = None
            for o in objs:
                for x in walk(o):
                    if x.get("kind") == "CXXConstructorDecl" and x.get("type", {}).get("qualType", "").startswith("void (double *, ") and any(i.get("kind") == "CXXCtorInitializer" for i in x.get("inner", [])):
                        extc = x
            if extc is None:
                raise TranslateError("definition of GaussianShell(double*, int) not found")
            pnames = [p.get("name") for p in extc["inner"] if p.get("kind") == "ParmVarDecl"]
            for init in extc["inner"]:
                if init.get("kind") == "CXXCtorInitializer" and "anyInit" in init:
                    refs = [strip_casts(v) for v in walk(init) if v.get("kind") == "DeclRefExpr"]
                    for rf in refs:
                        pn = rf.get("referencedDecl", {}).get("name")
                        if pn in pnames:
                            a = args[pnames.index(pn)] if pnames.index(pn) < len(args) else (None, None)
                            if a == (init["anyInit"]["name"], "this"):
                                carried.append(init["anyInit"]["name"])
    carried = sorted(set(carried), key=fields.index)
    if_local = sorted(set(if_local) - set(carried), key=fields.index)
    sems["copyM"] = (True, carried, if_local, rep)
    return sems, fields


def out_of_line(objs, decl):
    """the out-of-line definition (with a body) of a member declared in the class, if any"""
    if decl is None or any(c.get("kind") == "CompoundStmt" for c in decl.get("inner", [])):
        return decl
    if decl.get("isImplicit") or decl.get("explicitlyDefaulted"):
        return decl
    for o in objs:
        if o.get("kind") == decl.get("kind") and o.get("name") == decl.get("name") and o.get("previousDecl") == decl.get("id"):
            return o
    return decl


def value_class(objs_by_name, name):
    rec = find_record(objs_by_name[name], name)
    fields, types, ctor, assign = record_info(rec, name)
    ctor = out_of_line(objs_by_name[name], ctor)
    assign = out_of_line(objs_by_name[name], assign)
    raw = [f for f in fields if types[f].rstrip().endswith("*")]
    shared = [f for f in fields if "shared_ptr" in types[f]]
    cu, cc, ci, _ = op_sem(ctor, fields)
    au, ac, ai, _ = op_sem(assign, fields)
    return {"name": name, "fields": fields, "raw": raw, "shared": shared, "ctorUser": cu, "ctorCarried": cc + ci,
            "assignUser": au, "assignCarried": ac + ai}


def lean_list(xs, f=lambda x: x):
    return "[" + ", ".join(f(x) for x in xs) + "]"


def translate(build):
    objs = ast_for(build, "GaussianShell")
    sems, fields = shell_sems(objs, build)
    by_name = {n: ast_for(build, n) for n in VALUE_CLASSES}
    vcs = [value_class(by_name, n) for n in VALUE_CLASSES]
    out = ["-- GENERATED by translate/copysem.py from the class definitions in /repo (clang-14 AST) -- do not edit",
           "import Ecpint.Model.GShell", "namespace Ecpint.Gen", "open Ecpint.GShell", ""]
    def sem(s):
        u, c, i, r = s
        return "{ userDefined := %s, carried := %s, carriedIfLocal := %s, repoint := %s }" % (
            "true" if u else "false", lean_list(c, lambda f: "." + FIELD_MAP[f]), lean_list(i, lambda f: "." + FIELD_MAP[f]), "true" if r else "false")
    out.append("def shellSems : Sems :=")
    out.append("  { ctor := %s" % sem(sems["ctor"]))
    out.append("    assign := %s" % sem(sems["assign"]))
    out.append("    copyM := %s }" % sem(sems["copyM"]))
    out.append("")
    out.append("def valueClasses : List Ecpint.ValueClass := [")
    q = lambda s: '"%s"' % s
    rows = []
    for v in vcs:
        rows.append("  { name := %s, fields := %s, rawPointerFields := %s, sharedImmutableFields := %s,\n    ctorUser := %s, ctorCarried := %s,\n    assignUser := %s, assignCarried := %s }" % (
            q(v["name"]), lean_list(v["fields"], q), lean_list(v["raw"], q), lean_list(v["shared"], q),
            "true" if v["ctorUser"] else "false", lean_list(v["ctorCarried"], q),
            "true" if v["assignUser"] else "false", lean_list(v["assignCarried"], q)))
    out.append(",\n".join(rows) + "]")
    out.append("end Ecpint.Gen")
    return "\n".join(out) + "\n", {"shell": {k: {"user": v[0], "carried": v[1], "ifLocal": v[2], "repoint": v[3]} for k, v in sems.items()},
                                    "classes": vcs}


if __name__ == "__main__":
    sys.path.insert(0, os.path.join(os.path.dirname(os.path.abspath(__file__)), ".."))
    from vlib import build as B
    print(translate(B.build("plain"))[0])
