"""small source-reading helpers shared by the translators"""
import os, re
REPO = os.environ.get("VERIF_REPO", "/repo")

class TranslateError(Exception):
    pass

def read(rel):
    return open(os.path.join(REPO, rel)).read()

def strip_cxx_comments(s):
    s = re.sub(r"/\*.*?\*/", lambda m: "\n" * m.group(0).count("\n"), s, flags=re.S)
    s = re.sub(r"//[^\n]*", "", s)
    return s

def function_body(src, signature_regex):
    """text between the braces of the first function whose header matches"""
    m = re.search(signature_regex, src)
    if not m:
        raise TranslateError("function not found: %s" % signature_regex)
    i = src.index("{", m.end() - 1) if "{" not in m.group(0) else m.start() + m.group(0).rindex("{")
    depth = 0
    for j in range(i, len(src)):
        if src[j] == "{":
            depth += 1
        elif src[j] == "}":
            depth -= 1
            if depth == 0:
                return src[i + 1:j]
    raise TranslateError("unbalanced braces after %s" % signature_regex)
