"""tiny recursive-descent parser for C arithmetic expressions: + - * / unary-, parentheses, identifiers,
array subscripts `v[ expr ]`, integer and floating literals.  Produces an AST of tuples:
('num', text) | ('var', name) | ('idx', name, ast) | ('neg', a) | (op, a, b) with op in + - * /"""
import re
try:
    from .util import TranslateError
except ImportError:
    from util import TranslateError

TOK = re.compile(r"\s*(?:(\d+\.\d*(?:[eE][-+]?\d+)?|\.\d+(?:[eE][-+]?\d+)?|\d+[eE][-+]?\d+|\d+)|([A-Za-z_]\w*)|(.))")


def tokenize(s):
    out, i = [], 0
    s = s.strip()
    while i < len(s):
        m = TOK.match(s, i)
        if not m:
            raise TranslateError("cannot tokenize %r" % s[i:i + 20])
        if m.group(1) is not None:
            out.append(("num", m.group(1)))
        elif m.group(2) is not None:
            out.append(("id", m.group(2)))
        else:
            out.append(("op", m.group(3)))
        i = m.end()
    return out


class P:
    def __init__(self, toks):
        self.t, self.i = toks, 0

    def peek(self):
        return self.t[self.i] if self.i < len(self.t) else ("eof", "")

    def eat(self, kind=None, val=None):
        k, v = self.peek()
        if (kind and k != kind) or (val is not None and v != val):
            raise TranslateError("expected %s %s, got %s %r" % (kind, val, k, v))
        self.i += 1
        return v

    def expr(self):
        a = self.term()
        while self.peek() in (("op", "+"), ("op", "-")):
            op = self.eat()
            a = (op, a, self.term())
        return a

    def term(self):
        a = self.unary()
        while self.peek() in (("op", "*"), ("op", "/")):
            op = self.eat()
            a = (op, a, self.unary())
        return a

    def unary(self):
        if self.peek() == ("op", "-"):
            self.eat()
            return ("neg", self.unary())
        if self.peek() == ("op", "+"):
            self.eat()
            return self.unary()
        return self.atom()

    def atom(self):
        k, v = self.peek()
        if k == "num":
            self.eat()
            return ("num", v)
        if k == "id":
            self.eat()
            if self.peek() == ("op", "["):
                self.eat()
                e = self.expr()
                self.eat("op", "]")
                return ("idx", v, e)
            return ("var", v)
        if (k, v) == ("op", "("):
            self.eat()
            e = self.expr()
            self.eat("op", ")")
            return e
        raise TranslateError("unexpected token %s %r" % (k, v))


def parse(s):
    p = P(tokenize(s))
    e = p.expr()
    if p.peek()[0] != "eof":
        raise TranslateError("trailing input in expression %r" % s)
    return e


def to_lean_int(e):
    """C int semantics: / truncates toward zero"""
    k = e[0]
    if k == "num":
        return e[1]
    if k == "var":
        return e[1]
    if k == "neg":
        return "(-%s)" % to_lean_int(e[1])
    if k == "/":
        return "(Int.tdiv %s %s)" % (to_lean_int(e[1]), to_lean_int(e[2]))
    if k in "+-*":
        return "(%s %s %s)" % (to_lean_int(e[1]), k, to_lean_int(e[2]))
    raise TranslateError("unsupported node %r in integer expression" % (e,))
