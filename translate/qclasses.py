"""generated integral classes (build/src/generated/Q*.cpp, written by the repository's own generator from the
current working tree) -> structured data + Ecpint/Gen/QClasses.lean.
Per class Q(LA,LB,lam): radial_triples_A/B, nbase, array dimensions, rolled-up call or the unrolled term list."""
import glob, os, re, sys
sys.path.insert(0, os.path.dirname(os.path.abspath(__file__)))
try:
    from .util import TranslateError
except ImportError:
    from util import TranslateError

TERM = re.compile(r"^values\((\d+), (\d+), (\d+)\) \+= ([-+0-9.eE]+|-?nan|-?inf) \* CA\(0, (\d+), (\d+), (\d+), (\d+)\) \* CB\(0, (\d+), (\d+), (\d+), (\d+)\) \* radials\((\d+), (\d+), (\d+)\) \* SA\((\d+), (\d+)\) \* SB\((\d+), (\d+)\);$")


def parse_class(path):
    txt = open(path).read()
    m = re.search(r"void Q(\d+)_(\d+)_(\d+)\(", txt)
    if not m:
        raise TranslateError("%s: function header not found" % path)
    LA, LB, lam = int(m.group(1)), int(m.group(2)), int(m.group(3))
    def triples(name):
        mm = re.search(r"std::vector<Triple> %s = \{(.*?)\};" % name, txt, re.S)
        if not mm:
            raise TranslateError("%s: %s not found" % (path, name))
        return [tuple(int(x) for x in t) for t in re.findall(r"Triple\{(\d+), (\d+), (\d+)\}", mm.group(1))]
    tA, tB = triples("radial_triples_A"), triples("radial_triples_B")
    d = re.search(r"ThreeIndex<double> radials\((\d+), (\d+), (\d+)\);", txt)
    dB = re.search(r"ThreeIndex<double> radials_B\((\d+), (\d+), (\d+)\);", txt)
    cA = re.search(r"radint\.type2\(radial_triples_A, (\d+), (\d+), U, shellA, shellB, Am, Bm, radials\);", txt)
    cB = re.search(r"radint\.type2\(radial_triples_B, (\d+), (\d+), U, shellB, shellA, Bm, Am, radials_B\);", txt)
    back = "for (Triple& t : radial_triples_B) radials(std::get<0>(t), std::get<2>(t), std::get<1>(t)) = radials_B(std::get<0>(t), std::get<1>(t), std::get<2>(t));" in txt
    if not (d and dB and cA and cB and back):
        raise TranslateError("%s: radial calls / copy-back not in the expected form" % path)
    if int(cA.group(2)) != lam or int(cB.group(2)) != lam or cA.group(1) != cB.group(1):
        raise TranslateError("%s: radial calls use lam/nbase inconsistently" % path)
    ru = re.search(r"rolled_up\((\d+), (\d+), (\d+), radials, CA, CB, SA, SB, angint, values\);", txt)
    terms = None
    body_lines = [l.strip() for l in txt.split("\n") if l.strip().startswith("values(")]
    if ru:
        if (int(ru.group(1)), int(ru.group(2)), int(ru.group(3))) != (lam, LA, LB):
            raise TranslateError("%s: rolled_up called with (%s) for class (%d,%d,%d)" % (path, ru.groups(), lam, LA, LB))
        if body_lines:
            raise TranslateError("%s: both rolled_up and unrolled terms" % path)
    else:
        terms = []
        for l in body_lines:
            tm = TERM.match(l)
            if not tm:
                raise TranslateError("%s: unrolled term not understood: %s" % (path, l[:100]))
            g = tm.groups()
            terms.append({"na": int(g[0]), "nb": int(g[1]), "mu": int(g[2]), "coef_text": g[3], "coef": float(g[3]),
                          "CA": tuple(int(x) for x in g[4:8]), "CB": tuple(int(x) for x in g[8:12]), "rad": tuple(int(x) for x in g[12:15]),
                          "SA": (int(g[15]), int(g[16])), "SB": (int(g[17]), int(g[18]))})
    return {"LA": LA, "LB": LB, "lam": lam, "triplesA": tA, "triplesB": tB, "nbase": int(cA.group(1)),
            "dims": tuple(int(x) for x in d.groups()), "dimsB": tuple(int(x) for x in dB.groups()), "unrolled": terms is not None, "terms": terms}


def qgen_table(build):
    p = os.path.join(build.gen_dir, "ecpint_gen.cpp")
    txt = open(p).read()
    i = txt.index("ThreeIndex<double>&) {") + len("ThreeIndex<double>&) {")
    rows = re.findall(r"qgen::Q(\d+)_(\d+)_(\d+)", txt[i:])
    return [tuple(int(x) for x in r) for r in rows]


def load(build):
    files = sorted(glob.glob(os.path.join(build.gen_dir, "Q*.cpp")))
    if not files:
        raise TranslateError("no generated Q*.cpp in %s" % build.gen_dir)
    classes = {}
    for f in files:
        c = parse_class(f)
        classes[(c["LA"], c["LB"], c["lam"])] = c
    return classes


def translate(build, max_l):
    classes = load(build)
    want = {(i, j, k) for j in range(max_l + 1) for i in range(j + 1) for k in range(max_l + 1)}
    if set(classes) != want:
        raise TranslateError("generated classes %d, expected all (LA<=LB<=%d, lam<=%d): missing %s" % (len(classes), max_l, max_l, sorted(want - set(classes))[:3]))
    table = qgen_table(build)
    exp_table = [(min(i, j), max(i, j), k) for i in range(max_l + 1) for j in range(max_l + 1) for k in range(max_l + 1)]
    if table != exp_table:
        bad = next((n for n, (a, b) in enumerate(zip(table, exp_table)) if a != b), None)
        raise TranslateError("QGEN table entry %s is %s, expected %s" % (bad, table[bad] if bad is not None and bad < len(table) else None, exp_table[bad] if bad is not None else len(exp_table)))
    out = ["-- GENERATED by translate/qclasses.py from the Q*.cpp the repository's generator produced for the working tree -- do not edit",
           "namespace Ecpint.Gen", "set_option maxRecDepth 100000", "",
           "structure QClass where", "  LA : Nat", "  LB : Nat", "  lam : Nat", "  nbase : Nat", "  unrolled : Bool",
           "  triplesA : List (Nat × Nat × Nat)", "  triplesB : List (Nat × Nat × Nat)", "deriving DecidableEq, Repr", "",
           "def qclasses : List QClass := ["]
    rows = []
    for key in sorted(classes):
        c = classes[key]
        tl = lambda ts: "[" + ", ".join("(%d, %d, %d)" % t for t in ts) + "]"
        rows.append("  { LA := %d, LB := %d, lam := %d, nbase := %d, unrolled := %s,\n    triplesA := %s,\n    triplesB := %s }" % (
            c["LA"], c["LB"], c["lam"], c["nbase"], "true" if c["unrolled"] else "false", tl(c["triplesA"]), tl(c["triplesB"])))
    out.append(",\n".join(rows) + "]")
    out += ["", "end Ecpint.Gen"]
    # the unrolled term lists, with the coefficient literal exactly as the generator printed it
    tout = ["-- GENERATED by translate/qclasses.py: term lists of the unrolled classes -- do not edit", "namespace Ecpint.Gen", "set_option maxRecDepth 1000000", "",
            "structure RawTerm where", "  na : Nat", "  nb : Nat", "  mu : Nat", "  coef : Float", "  ca : Nat × Nat × Nat", "  cb : Nat × Nat × Nat",
            "  rad : Nat × Nat × Nat", "  sa : Nat × Nat", "  sb : Nat × Nat", ""]
    names = []
    for key in sorted(classes):
        c = classes[key]
        if not c["unrolled"]:
            continue
        nm = "terms_%d_%d_%d" % key
        names.append((key, nm))
        def lit(t):
            v = t["coef_text"]
            if v in ("nan", "-nan", "inf", "-inf"):
                raise TranslateError("class %s: coefficient %s" % (key, v))
            neg = v.startswith("-")
            v = v.lstrip("+-")
            if "." not in v and "e" not in v.lower():
                v += ".0"
            return ("(-%s)" % v) if neg else v
        # chunks keep the elaborator's recursion shallow
        chunks = [c["terms"][i:i + 200] for i in range(0, len(c["terms"]), 200)]
        for ci, ch in enumerate(chunks):
            tout.append("def %s_%d : List RawTerm := [" % (nm, ci))
            tout.append(",\n".join("  ⟨%d, %d, %d, %s, (%d, %d, %d), (%d, %d, %d), (%d, %d, %d), (%d, %d), (%d, %d)⟩" % (
                t["na"], t["nb"], t["mu"], lit(t), t["CA"][1], t["CA"][2], t["CA"][3], t["CB"][1], t["CB"][2], t["CB"][3],
                t["rad"][0], t["rad"][1], t["rad"][2], t["SA"][0], t["SA"][1], t["SB"][0], t["SB"][1]) for t in ch) + "]")
        tout.append("def %s : List RawTerm := %s" % (nm, " ++ ".join("%s_%d" % (nm, ci) for ci in range(len(chunks))) or "[]"))
        for t in c["terms"]:
            if t["CA"][0] != t["na"] or t["CB"][0] != t["nb"]:
                raise TranslateError("class %s: term addresses CA/CB of another Cartesian function" % (key,))
    tout.append("")
    tout.append("def unrolledTerms (LA LB lam : Nat) : Option (List RawTerm) :=")
    tout.append("  " + " else ".join("if LA = %d ∧ LB = %d ∧ lam = %d then some %s" % (k[0], k[1], k[2], nm) for k, nm in names) + (" else none" if names else "none"))
    tout += ["", "end Ecpint.Gen"]
    stats = {"classes": len(classes), "unrolled": sum(1 for c in classes.values() if c["unrolled"]),
             "triples": sum(len(c["triplesA"]) + len(c["triplesB"]) for c in classes.values()),
             "unrolled_terms": sum(len(c["terms"]) for c in classes.values() if c["unrolled"])}
    classes["__terms_lean__"] = "\n".join(tout) + "\n"
    return "\n".join(out) + "\n", stats, classes


if __name__ == "__main__":
    sys.path.insert(0, os.path.join(os.path.dirname(os.path.abspath(__file__)), ".."))
    from vlib import build as B
    t, st, cl = translate(B.build("plain"), 5)
    print(st, len(t), len(cl["__terms_lean__"]))
    req = set()
    for k, c in cl.items():
        if k == "__terms_lean__":
            continue
        for tr in c["triplesA"] + c["triplesB"]:
            req.add(tr)
    print(len(req), max(t[0] for t in req), max(t[1] for t in req), max(t[2] for t in req))
