"""static effect analysis of the library -> Ecpint/Gen/Effects.lean

 * inventory of writable static storage: `nm` on the objects of a fresh build (B/b/D/d symbols);
 * clang-14 JSON AST of every src/lib/*.cpp (filter: namespace libecpint): for every function its writes to
   static-storage objects (assignment, compound assignment, ++/--), whether a write sits inside the callable
   handed to std::call_once or a static initialiser, its reads of such objects, the functions it references
   (direct calls, function pointers, std::function targets), writes to members of *this, `mutable` members
   and const_casts; closed transitively over the call graph from the API entry points;
 * generated Q*.cpp (too large for the AST dump) are scanned textually: they may only assign to their own
   locals and to their `values` / `radials` arguments."""
import json, os, re, subprocess, sys, glob
sys.path.insert(0, os.path.dirname(os.path.abspath(__file__)))
try:
    from .util import TranslateError
except ImportError:
    from util import TranslateError

ENTRY = {
    "construct_engine": (["libecpint::ECPIntegral::ECPIntegral"], False),
    "compute_shell_pair": (["libecpint::ECPIntegral::compute_shell_pair"], True),
    "compute_shell_pair_derivative": (["libecpint::ECPIntegral::compute_shell_pair_derivative"], True),
    "compute_shell_pair_second_derivative": (["libecpint::ECPIntegral::compute_shell_pair_second_derivative"], True),
}
ENGINE_CLASSES = {"ECPIntegral", "RadialIntegral", "AngularIntegral", "BesselFunction", "GCQuadrature"}
ASSIGN_OPS = {"=", "+=", "-=", "*=", "/=", "%=", "&=", "|=", "^=", "<<=", ">>="}


def nm_globals(build):
    r = subprocess.run(["nm", "-C", "--defined-only", build.lib], stdout=subprocess.PIPE, stderr=subprocess.DEVNULL, text=True)
    out = set()
    for line in r.stdout.split("\n"):
        m = re.match(r"^[0-9a-f]*\s+([BbDd])\s+(.+)$", line)
        if not m:
            continue
        name = m.group(2)
        if name.startswith("guard variable") or "__ioinit" in name or name.startswith("std::") or name.startswith("_Z") or name.startswith("."):
            continue
        if name.startswith("DW.ref") or name in ("completed.0", "__dso_handle") or name.startswith("__"):
            continue
        out.add(name)
    return sorted(out)


def ast_of(build, cpp):
    cmd = ["clang++-14", "-std=gnu++17", "-DHAS_PUGIXML", "-DLIBECPINT_VERIF", "-fsyntax-only", "-Xclang", "-ast-dump=json", "-Xclang", "-ast-dump-filter=libecpint"] + \
          ["-I" + i for i in build.includes] + ["-I" + os.path.join(build.src, "external", "Faddeeva"), cpp]
    r = subprocess.run(cmd, stdout=subprocess.PIPE, stderr=subprocess.PIPE, text=True)
    if r.returncode != 0:
        raise TranslateError("clang could not parse %s: %s" % (cpp, r.stderr[-800:]))
    dec = json.JSONDecoder()
    txt, i, objs = r.stdout, 0, []
    n = len(txt)
    while i < n:
        while i < n and txt[i].isspace():
            i += 1
        if i >= n:
            break
        o, i = dec.raw_decode(txt, i)
        objs.append(o)
    return objs


class Analysis:
    def __init__(self):
        self.globals = {}    # id -> qualified name (static-storage variables)
        self.funcs = {}      # qualified name -> info
        self.id_name = {}    # decl id -> qualified function name
        self.mutable = []
        self.indirect = []
        self.const_globals = set()

    def qual(self, stack, name):
        return "::".join([s for s in stack if s] + [name])

    def index(self, n, stack):
        """first pass: names of functions and static-storage variables"""
        k = n.get("kind")
        if k in ("NamespaceDecl", "CXXRecordDecl", "ClassTemplateSpecializationDecl", "ClassTemplateDecl"):
            ns = stack + [n.get("name", "")] if k != "ClassTemplateDecl" else stack
            for c in n.get("inner", []) or []:
                self.index(c, ns)
            return
        if k in ("FunctionDecl", "CXXMethodDecl", "CXXConstructorDecl", "CXXDestructorDecl"):
            q = self.qual(stack, n.get("name", "?"))
            self.id_name[n["id"]] = q
            for c in n.get("inner", []) or []:
                self.index_locals(c, q)
            return
        if k == "VarDecl":
            q = self.qual(stack, n.get("name", "?"))
            self.globals[n["id"]] = q
            if "const" in n.get("type", {}).get("qualType", "").split() or n.get("type", {}).get("qualType", "").startswith("const "):
                self.const_globals.add(q)
            return
        if k == "FieldDecl" and n.get("mutable"):
            self.mutable.append(self.qual(stack, n.get("name", "?")))
        if k == "FieldDecl" and stack and stack[-1] in ENGINE_CLASSES:
            t = n.get("type", {}).get("qualType", "")
            if "*" in t or "&" in t or "shared_ptr" in t or "unique_ptr" in t:
                self.indirect.append(self.qual(stack, n.get("name", "?")) + " : " + t)
        for c in n.get("inner", []) or []:
            self.index(c, stack)

    def index_locals(self, n, fq):
        if n.get("kind") == "VarDecl" and n.get("storageClass") == "static":
            self.globals[n["id"]] = fq + "()::" + n.get("name", "?")
        for c in n.get("inner", []) or []:
            self.index_locals(c, fq)


def strip(n):
    while n.get("kind") in ("ImplicitCastExpr", "ParenExpr", "CStyleCastExpr", "CXXStaticCastExpr", "CXXFunctionalCastExpr", "MaterializeTemporaryExpr", "ExprWithCleanups") and n.get("inner"):
        n = n["inner"][0]
    return n


def lhs_root(n):
    """(kind, id-or-name) of the object an lvalue expression designates: global / this-member / other"""
    n = strip(n)
    k = n.get("kind")
    if k == "ArraySubscriptExpr":
        return lhs_root(n["inner"][0])
    if k == "CXXOperatorCallExpr" and len(n.get("inner", [])) >= 2:
        return lhs_root(n["inner"][1])
    if k == "UnaryOperator" and n.get("opcode") == "*":
        return lhs_root(n["inner"][0])
    if k == "MemberExpr":
        base = strip(n["inner"][0]) if n.get("inner") else {}
        if base.get("kind") == "CXXThisExpr":
            return ("this", n.get("name"))
        return lhs_root(base)
    if k == "DeclRefExpr":
        return ("decl", n.get("referencedDecl", {}).get("id"))
    if k == "CXXThisExpr":
        return ("this", "*this")
    return ("other", None)


def analyse_function(an, n, fq, info, in_once=False):
    k = n.get("kind")
    if k == "CallExpr":
        callee = strip(n["inner"][0]) if n.get("inner") else {}
        nm = callee.get("referencedDecl", {}).get("name") if callee.get("kind") == "DeclRefExpr" else None
        if nm == "call_once":
            for c in n.get("inner", [])[1:]:
                analyse_function(an, c, fq, info, True)
            analyse_function(an, n["inner"][0], fq, info, in_once)
            return
    if k in ("BinaryOperator", "CompoundAssignOperator") and n.get("opcode") in ASSIGN_OPS:
        kind, ref = lhs_root(n["inner"][0])
        if kind == "decl" and ref in an.globals:
            (info["once"] if in_once else info["writes"]).add(an.globals[ref])
        elif kind == "this":
            info["this_writes"].add(ref)
    if k == "UnaryOperator" and n.get("opcode") in ("++", "--"):
        kind, ref = lhs_root(n["inner"][0])
        if kind == "decl" and ref in an.globals:
            (info["once"] if in_once else info["writes"]).add(an.globals[ref])
        elif kind == "this":
            info["this_writes"].add(ref)
    if k == "CXXOperatorCallExpr":
        callee = strip(n["inner"][0]) if n.get("inner") else {}
        opn = callee.get("referencedDecl", {}).get("name", "")
        if opn in ("operator=", "operator+=", "operator-=", "operator*=", "operator/=", "operator++", "operator--") and len(n["inner"]) >= 2:
            kind, ref = lhs_root(n["inner"][1])
            if kind == "decl" and ref in an.globals:
                (info["once"] if in_once else info["writes"]).add(an.globals[ref])
            elif kind == "this":
                info["this_writes"].add(ref)
    if k == "DeclRefExpr":
        return ("decl", n.get("referencedDecl", {}).get("id"))
    if k == "CXXThisExpr":
        return ("this", "*this")
    return ("other", None)


def analyse_function(an, n, fq, info, in_once=False):
    k = n.get("kind")
    if k == "CallExpr":
        callee = strip(n["inner"][0]) if n.get("inner") else {}
        nm = callee.get("referencedDecl", {}).get("name") if callee.get("kind") == "DeclRefExpr" else None
        if nm == "call_once":
            for c in n.get("inner", [])[1:]:
                analyse_function(an, c, fq, info, True)
            analyse_function(an, n["inner"][0], fq, info, in_once)
            return
    if k in ("BinaryOperator", "CompoundAssignOperator") and n.get("opcode") in ASSIGN_OPS:
        kind, ref = lhs_root(n["inner"][0])
        if kind == "decl" and ref in an.globals:
            (info["once"] if in_once else info["writes"]).add(an.globals[ref])
        elif kind == "this":
            info["this_writes"].add(ref)
    if k == "UnaryOperator" and n.get("opcode") in ("++", "--"):
        kind, ref = lhs_root(n["inner"][0])
        if kind == "decl" and ref in an.globals:
            (info["once"] if in_once else info["writes"]).add(an.globals[ref])
        elif kind == "this":
            info["this_writes"].add(ref)
    if k == "CXXOperatorCallExpr":
        callee = strip(n["inner"][0]) if n.get("inner") else {}
        opn = callee.get("referencedDecl", {}).get("name", "")
        if opn in ("operator=", "operator+=", "operator-=", "operator*=", "operator/=", "operator++", "operator--") and len(n["inner"]) >= 2:
            kind, ref = lhs_root(n["inner"][1])
            if kind == "decl" and ref in an.globals:
                (info["once"] if in_once else info["writes"]).add(an.globals[ref])
            elif kind == "this":
                info["this_writes"].add(ref)
    if k == "CXXMemberCallExpr":
        # a non-const member call on a member of *this or on a global writes it
        me = strip(n["inner"][0]) if n.get("inner") else {}
        if me.get("kind") == "MemberExpr" and me.get("inner"):
            mq = me.get("type", {}).get("qualType", "")
            is_const_call = mq.rstrip().endswith("const") or ") const" in mq
            kind, ref = lhs_root(me["inner"][0])
            if not is_const_call:
                if kind == "decl" and ref in an.globals:
                    (info["once"] if in_once else info["writes"]).add(an.globals[ref])
                elif kind == "this":
                    info["this_writes"].add(ref)
    if k == "DeclRefExpr":
        rd = n.get("referencedDecl", {})
        if rd.get("id") in an.globals:
            info["reads"].add(an.globals[rd["id"]])
        if rd.get("kind") in ("FunctionDecl", "CXXMethodDecl"):
            info["calls"].add(an.id_name.get(rd.get("id"), rd.get("name")))
    if k == "MemberExpr" and "referencedMemberDecl" in n:
        tgt = an.id_name.get(n["referencedMemberDecl"])
        if tgt:
            info["calls"].add(tgt)
    if k == "CXXConstructExpr":
        t = n.get("type", {}).get("qualType", "")
        m = re.match(r"^(?:const\s+)?(?:libecpint::)?(\w+)", t)
        if m:
            info["calls"].add("libecpint::%s::%s" % (m.group(1), m.group(1)))
    if k == "CXXConstCastExpr":
        info["const_casts"] += 1
    if k == "VarDecl" and n.get("storageClass") == "static" and n.get("inner"):
        # the initialiser of a function-local static runs once, under the compiler's guard
        for c in n["inner"]:
            analyse_function(an, c, fq, info, True)
        return
    for c in n.get("inner", []) or []:
        analyse_function(an, c, fq, info, in_once)


def collect(an, n, stack):
    k = n.get("kind")
    if k in ("NamespaceDecl", "CXXRecordDecl", "ClassTemplateSpecializationDecl", "ClassTemplateDecl"):
        ns = stack + [n.get("name", "")] if k != "ClassTemplateDecl" else stack
        for c in n.get("inner", []) or []:
            collect(an, c, ns)
        return
    if k in ("FunctionDecl", "CXXMethodDecl", "CXXConstructorDecl", "CXXDestructorDecl"):
        body = [c for c in n.get("inner", []) if c.get("kind") in ("CompoundStmt", "CXXCtorInitializer")]
        if not any(c.get("kind") == "CompoundStmt" for c in body):
            return
        q = an.id_name.get(n["id"]) or an.qual(stack, n.get("name", "?"))
        # out-of-line definitions carry the qualified name through their parentDeclContext; use previousDecl
        if n.get("previousDecl") in an.id_name:
            q = an.id_name[n["previousDecl"]]
            an.id_name[n["id"]] = q
        info = an.funcs.setdefault(q, {"writes": set(), "once": set(), "reads": set(), "calls": set(), "this_writes": set(), "const_casts": 0,
                                       "const": False})
        qt = n.get("type", {}).get("qualType", "")
        info["const"] = info["const"] or qt.rstrip().endswith("const") or ") const" in qt
        for c in body:
            analyse_function(an, c, q, info)
        return
    for c in n.get("inner", []) or []:
        collect(an, c, stack)


def scan_generated(build):
    """generated Q*.cpp: only their own locals and the output arguments may be assigned; no static state"""
    bad = []
    names = []
    for f in sorted(glob.glob(os.path.join(build.gen_dir, "Q*.cpp"))):
        txt = open(f).read()
        m = re.search(r"void (Q\d+_\d+_\d+)\(", txt)
        if m:
            names.append("libecpint::qgen::" + m.group(1))
        if re.search(r"\bstatic\b|\bextern\b|\bmutable\b|const_cast", txt):
            bad.append("%s: static/extern/mutable/const_cast" % os.path.basename(f))
        for line in txt.split("\n"):
            s = line.strip()
            mm = re.match(r"^([A-Za-z_][\w:<>]*(?:\s*\([^=]*\))?)\s*(\+=|=)[^=]", s)
            if mm and not re.match(r"^(values\s*\(|radials\s*\(|for\b|std::vector<Triple>\s+radial_triples_[AB]\b|ThreeIndex<double>\s+radials(_B)?\b)", s):
                bad.append("%s: assignment to %s" % (os.path.basename(f), mm.group(1)[:40]))
    return names, bad


def translate(build):
    an = Analysis()
    cpps = sorted(glob.glob(os.path.join(build.src, "src", "lib", "*.cpp")))
    asts = [ast_of(build, c) for c in cpps]
    for objs in asts:
        for o in objs:
            an.index(o, [])
    for objs in asts:
        for o in objs:
            collect(an, o, [])
    if an.indirect:
        raise TranslateError("engine classes hold pointer/reference members (a const method could write through them; not modelled): %s" % an.indirect[:3])
    qnames, bad = scan_generated(build)
    if bad:
        raise TranslateError("generated integral code does more than write its outputs: %s" % "; ".join(bad[:3]))
    inventory = nm_globals(build)
    ast_globals = sorted(set(an.globals.values()))
    # every writable symbol the linker sees must be known to the AST walk (else a write could be missed)
    def short(n):
        return re.sub(r"\[abi:[^\]]*\]", "", n)
    known = {g for g in ast_globals} | {g.replace("()::", "()::") for g in ast_globals}
    unknown = [s for s in inventory if short(s) not in known and not any(short(s).endswith("::" + g.split("::")[-1]) for g in known)]
    if unknown:
        raise TranslateError("writable static storage the AST walk does not see: %s" % unknown[:4])
    # transitive closure
    def closure(roots):
        seen, todo = set(), list(roots)
        while todo:
            f = todo.pop()
            if f in seen:
                continue
            seen.add(f)
            info = an.funcs.get(f)
            if not info:
                continue
            for c in info["calls"]:
                if c and c not in seen:
                    todo.append(c)
            if "libecpint::ECPIntegral::QGEN" in info["reads"]:
                todo.extend(qnames)   # calls through the function-pointer table
                todo.append("libecpint::qgen::rolled_up")
        return seen
    ops = []
    for name, (roots, want_const) in ENTRY.items():
        missing = [r for r in roots if r not in an.funcs]
        if missing:
            raise TranslateError("entry point not found in the AST: %s" % missing)
        fs = closure(roots)
        reads, writes, once, cc = set(), set(), set(), 0
        for f in fs:
            info = an.funcs.get(f)
            if not info:
                continue
            reads |= info["reads"]; writes |= info["writes"]; once |= info["once"]; cc += info["const_casts"]
        this_w = set()
        for r in roots:
            this_w |= an.funcs[r]["this_writes"]
        is_const = all(an.funcs[r]["const"] for r in roots)
        # const globals (tables in rodata) cannot be written and need not be tracked as reads
        reads = {g for g in reads if g not in an.const_globals}
        ops.append({"name": name, "isConst": is_const, "globalReads": sorted(reads - once - writes) + sorted((reads & (once | writes))),
                    "globalWrites": sorted(writes), "onceWrites": sorted(once - writes), "engineWrites": [] if is_const else sorted(this_w),  # const member functions: C++ const semantics
                    "mutableFields": sorted(set(an.mutable)), "constCasts": cc, "functions": len(fs)})
    q = lambda s: '"%s"' % s
    L = lambda xs: "[" + ", ".join(q(x) for x in xs) + "]"
    out = ["-- GENERATED by translate/effects.py (nm inventory + clang-14 AST of src/lib/*.cpp + scan of generated Q*.cpp) -- do not edit",
           "import Ecpint.Model.Conc", "namespace Ecpint.Gen", "open Ecpint.Conc", "",
           "/-- writable static storage of the library (linker's view) -/",
           "def writableGlobals : List String := %s" % L(inventory), "",
           "def ops : List OpEffects := ["]
    rows = []
    for o in ops:
        rows.append("  { name := %s, isConst := %s,\n    globalReads := %s,\n    globalWrites := %s,\n    onceWrites := %s,\n    engineWrites := %s,\n    mutableFields := %s, constCasts := %d }" % (
            q(o["name"]), "true" if o["isConst"] else "false", L(o["globalReads"]), L(o["globalWrites"]), L(o["onceWrites"]),
            L(o["engineWrites"]), L(o["mutableFields"]), o["constCasts"]))
    out.append(",\n".join(rows) + "]")
    out.append("end Ecpint.Gen")
    return "\n".join(out) + "\n", {"inventory": inventory, "ops": ops, "functions_analysed": len(an.funcs)}


if __name__ == "__main__":
    sys.path.insert(0, os.path.join(os.path.dirname(os.path.abspath(__file__)), ".."))
    from vlib import build as B
    t, info = translate(B.build("plain"))
    print(t)
    print(info["functions_analysed"], [(o["name"], o["functions"]) for o in info["ops"]])
