#!/bin/sh
# one-time, offline: build the Lean project (models, theorems, driver) and the harness build of /repo
set -e
cd "$(dirname "$0")"
(cd lean && lake build 2>&1 | tail -5)
python3 vlib/build.py plain
