#!/usr/bin/env python3
"""pairdiag.py <cases.json> : for every shell-pair case in the file print the deviation of the real block from the
brute-force oracle, per ECP angular-momentum component, and under every counterfactual switch setting of the model."""
import sys, os, json, copy
sys.path.insert(0, os.path.join(os.path.dirname(os.path.abspath(__file__)), ".."))
from vlib import build, core, pairlib as pl

def split_by_l(case):
    out = []
    L = max(p[1] for p in case["ecp"]["prims"])
    for l in range(L + 1):
        c = copy.deepcopy(case)
        pr = [p for p in case["ecp"]["prims"] if p[1] == l]
        if l < L:
            pr = pr + [[2, L, 1.0, 0.0]]
        c["ecp"]["prims"] = pr
        c["part"] = l
        out.append(c)
    return out

def main():
    cases = json.load(open(sys.argv[1]))
    sws = sys.argv[2].split(",") if len(sys.argv) > 2 else [s for s in pl.SW]
    b = build.build("plain")
    drv = pl.pair_driver(b)
    allc = []
    for c in cases:
        allc.append(c); allc += split_by_l(c)
    runs = pl.run_real(drv, allc)
    orc = pl.run_oracle(allc)
    pl.run_model(runs, sws)
    for r, o in zip(runs, orc):
        c = r.case
        tol = 2e-5 * r.maxabs() + 1e-9 * r.coef_scale()
        err = max(abs(x - y) for x, y in zip(r.vals, o["v"]))
        tag = "WHOLE" if "part" not in c else "  l=%d%s" % (c["part"], " (local)" if c["part"] == max(p[1] for p in c["ecp"]["prims"]) else "")
        print("%s LA=%d LB=%d max %.3g err %.3g tol %.3g %s bitwise=%s" % (tag, c["A"]["l"], c["B"]["l"], r.maxabs(), err, tol, "FAIL" if err > tol else "ok", pl.same_bits(r.bits, r.model.get("code"))))
        if err > tol:
            for s in sws:
                if r.model.get(s) is None:
                    print("        %-28s none" % s); continue
                mv = [pl.unhex(x) for x in r.model[s]]
                print("        %-28s err %.3g" % (s, max(abs(x - y) for x, y in zip(mv, o["v"]))))
main()
