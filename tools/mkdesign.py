#!/usr/bin/env python3
"""Assembles /verif/DESIGN.md: hand-written head and tail (docs/) + generated sections 3 (per-property verdicts, from
vlib/manifest.py), 4 (defects, from known_findings.json) and 8 (seeded changes, from seeded/*/meta.json)."""
import json, os, sys, glob, re, textwrap
V = os.path.dirname(os.path.dirname(os.path.abspath(__file__)))
sys.path.insert(0, V)
from vlib import manifest

def wrap(s, ind=""):
    return "\n".join(textwrap.fill(p, 118, initial_indent=ind, subsequent_indent=ind) for p in s.split("\n"))

props = {json.loads(l)["id"]: json.loads(l) for l in open(os.path.join(V, "properties.jsonl"))}
out = [open(os.path.join(V, "docs", "design_head.md")).read()]
out.append("## 3. Per-property verdicts\n\nGenerated from `vlib/manifest.py` (the same text is in MANIFEST.json `level_claimed.text` / `level_note`). "
           "Theorem counts are the `theorem` declarations in `lean/Ecpint/Props`; obligations per run are in `evidence/<id>.json`.\n")
def ntheorems(pid):
    n = 0
    for f in glob.glob(os.path.join(V, "lean", "Ecpint", "Props", pid + "*.lean")) + glob.glob(os.path.join(V, "lean", "Ecpint", "Props", pid + "*", "*.lean")):
        n += len(re.findall(r"^\s*theorem ", open(f).read(), re.M))
    return n
for pid in sorted(props):
    c = manifest.CHECKS.get(pid)
    out.append("### %s — %s\n" % (pid, props[pid]["title"]))
    if not c:
        out.append("not claimed.\n"); continue
    out.append("*technique:* %s  \n*theorems in Props:* %d; *check:* `./check %s`, module `checks/%s.py`\n" % (c["technique"], ntheorems(pid), pid, pid.lower()))
    out.append(wrap(c["text"]) + "\n")
    out.append(wrap("Limits / trusted: " + c["note"]) + "\n")
out.append("---------------------------------------------------------------------------------------\n")
kf = json.load(open(os.path.join(V, "known_findings.json")))
out.append("## 4. Defects found on the pinned tree\n\nAll of these were found by the checks themselves on the unchanged tree (none was known in round 0 except as a suspicion). "
           "Generated from `known_findings.json`.\n\n### 4.1 Repaired (`fix:` commits in /repo; the unedited 74-test suite passes after each)\n")
for f in kf["fixed"]:
    out.append(wrap("* " + f[len("fixed: "):], "  ")[2:] if False else wrap("* " + f[len("fixed: "):]) + "\n")
out.append("\nA repair attempted and reverted: the regime switch for the closed forms (see closed-form-conditioning below).\n")
out.append("\n### 4.2 Recorded, not repaired (known findings; each with a concrete failing input and a signature)\n")
seen = set()
for f in kf["findings"]:
    key = f["id"]
    base = f["property"] in ("C12", "C15") or (f["property"] == "C06")
    if key in seen and not base:
        continue
    if not base and any(g["id"] == key and g["property"] in ("C12", "C15") for g in kf["findings"]):
        continue
    seen.add(key)
    out.append("**%s / %s** (%s)\n" % (f["property"], f["id"], f.get("site", "")))
    out.append(wrap(f["text"]) + "\n")
    out.append(wrap("Signature: " + f["signature"]) + "\n")
    out.append(wrap("Why not repaired: " + f.get("why_not_fixed", "")) + "\n")
also = sorted({(f["property"], f["id"]) for f in kf["findings"] if f["property"] not in ("C12", "C15")})
out.append(wrap("The same findings are listed again for the properties through which they show (with that property's comparison in the signature): " + ", ".join("%s/%s" % x for x in also) + ".") + "\n")
tail = open(os.path.join(V, "docs", "design_tail.md")).read()
k = tail.index("## 9. Costs")
out.append(tail[:k])
out.append("## 8. Seeded changes: which checks catch which\n\nEach change was written by a fresh sub-agent that was given only the property text and its own scratch worktree, "
           "confirmed by me in a scratch worktree (`seeded/confirm.sh`: compiles, 17/17 ctest entries pass, demonstration fails with the change and passes without), "
           "then applied to /repo, checked (`seeded/runmut.sh`) and undone. Generated from `seeded/*/meta.json`.\n")
rows = ["| change | caught | by what | history |", "|---|---|---|---|"]
for d in sorted(glob.glob(os.path.join(V, "seeded", "C*-m*"))):
    mp = os.path.join(d, "meta.json")
    if not os.path.exists(mp):
        continue
    m = json.load(open(mp))
    cr = m.get("check_result", {})
    what = re.sub(r"[=\-]{4,}", " ", " ".join(m.get("what_it_does", "").split()))
    what = " ".join(what.split())[:200]
    rows.append("| **%s** %s | %s | %s | %s |" % (m["id"], what.replace("|", "/"), "yes" if cr.get("caught") else "**NO**", " ".join(str(cr.get("how", "")).split()).replace("|", "/")[:330],
                                                " ".join(str(cr.get("history", "")).split()).replace("|", "/")[:330]))
out.append("\n".join(rows) + "\n")
out.append("\n" + open(os.path.join(V, "docs", "design_seeded_notes.md")).read() if os.path.exists(os.path.join(V, "docs", "design_seeded_notes.md")) else "\n")
out.append("\n---------------------------------------------------------------------------------------\n\n" + tail[k:])
open(os.path.join(V, "DESIGN.md"), "w").write("\n".join(out))
print("DESIGN.md written,", sum(len(x.split("\n")) for x in out), "lines")
