/-
Model of the primitive type-2 radial integrals (src/lib/radial_gen.cpp):
  `compute_base_integrals`, the per-primitive prefactors of `type2(triples, …)`, the 63 closed-form cases
  (Gen/RadialCases.lean, translated from the `switch` on every run), `integrate_small` (windowed 127-point
  quadrature of the tabulated integrand with the early tail cut) and `estimate_type2`.
Dawson's function and erf are external: their values are inputs.
-/
import Ecpint.Model.Scalar
import Ecpint.Gen.RadialCases
import Ecpint.Gen.PowFns
import Ecpint.Gen.Constants

namespace Ecpint.RadialGen
open Ecpint

section
variable {α : Type} [Flt α]

/-- `compute_base_integrals(N_min, N_max, …, values)`: returns the array `values[0 .. N_max − N_min]` -/
def baseIntegrals (Nmin Nmax : Nat) (p oRootP P1 P2 P1sq P2sq X1 X2 oP1 oP2 rootPi : α) : Array α := Id.run do
  let imax := Nmax / 2
  let imin := (Nmin + 1) / 2
  let gmax := (Nmax - 1) / 2
  let gmin := Nmin / 2
  let mut vals : Array α := Array.replicate (Nmax - Nmin + 2) 0
  let mut P1k : α := 1
  let mut P2k : α := 1
  for _k in [2:imin] do
    P1k := P1k * P1sq
    P2k := P2k * P2sq
  let C0 := oRootP * rootPi
  for n in [imin:imax + 1] do
    let mut ck := C0
    let mut dk := P1k * X1
    let mut ek := P2k * X2
    let mut val := ck * (dk - ek)
    -- `for (k = n-1; k > 1; k--)`
    for kk in [0:n - 2] do
      let k := n - 1 - kk
      -- ck *= 2*k*(2*k - 1)*(n-k-0.5) / ((2*n - 2*k) * (2*n - 2*k - 1) * p)
      ck := ck * ((((2 * k * (2 * k - 1) : Nat) : α) * (((n - k : Nat) : α) - Flt.ofRat 1 2)) /
                  (((((2 * n - 2 * k) * (2 * n - 2 * k - 1) : Nat) : α)) * p))
      dk := dk * oP1
      ek := ek * oP2
      val := val + ck * (dk - ek)
    if n > 1 then
      -- ck *= 2*(n-1.5) / ((2*n - 2) * (2*n - 3) * p)
      ck := ck * ((((2 : Nat) : α) * (((n : Nat) : α) - Flt.ofRat 3 2)) / (((((2 * n - 2) * (2 * n - 3) : Nat) : α)) * p))
      val := val + ck * (X1 - X2)
    vals := vals.set! (2 * n - Nmin) val
    P1k := P1k * P1sq
    P2k := P2k * P2sq
  P1k := P1
  P2k := P2
  for _k in [1:gmin] do
    P1k := P1k * P1sq
    P2k := P2k * P2sq
  for n in [gmin:gmax + 1] do
    let mut ck := C0
    let mut dk := P1k * X1
    let mut ek := P2k * X2
    let mut val := ck * (dk - ek)
    -- `for (k = n-1; k > 0; k--)`
    for kk in [0:n - 1] do
      let k := n - 1 - kk
      -- ck *= 2*k*(2*k+1)*(n-k-0.5) / ((2*n-2*k) * (2*n - 1 - 2*k) * p)
      ck := ck * ((((2 * k * (2 * k + 1) : Nat) : α) * (((n - k : Nat) : α) - Flt.ofRat 1 2)) /
                  (((((2 * n - 2 * k) * (2 * n - 1 - 2 * k) : Nat) : α)) * p))
      dk := dk * oP1
      ek := ek * oP2
      val := val + ck * (dk - ek)
    vals := vals.set! (2 * n + 1 - Nmin) val
    P1k := P1k * P1sq
    P2k := P2k * P2sq
  return vals

/-- the integrand of `integrate_small` at radius z -/
def integrand (T : Bessel.Table α) (small : α) (N l1 l2 : Nat) (n a b A B aA bB z : α) : α :=
  let zA := z - A
  let zB := z - B
  let k1 := Bessel.calcOne T small (aA * z) l1
  let k2 := Bessel.calcOne T small (bB * z) l2
  Gen.fastPow N z * Flt.exp (-n * z * z - a * zA * zA - b * zB * zB) * k1 * k2

/-- `integrate_small(N, l1, l2, n, a, b, A, B)` → (value, converged); also returns the cut index (first zeroed node)
for the attribution of deviations -/
def integrateSmall (prim : Quad.Grid α) (T : Bessel.Table α) (small tol : α) (N l1 l2 : Nat) (n a b A B : α)
    (useCut : Bool := true) (finest : Bool := false) : α × Bool × Nat × Nat := Id.run do
  let zt := n + a + b
  let pt := (a * A + b * B) / zt
  let g := Quad.transformRMinMax prim zt pt
  let size := g.maxN
  let aA := ((2 : Nat) : α) * a * A
  let bB := ((2 : Nat) : α) * b * B
  let mut F : Array α := Array.replicate size 0
  F := F.set! 0 (integrand T small N l1 l2 n a b A B aA bB g.x[0]!)
  let mut i := 1
  let mut notInTail := true
  while notInTail && i < size do
    let v := integrand T small N l1 l2 n a b A B aA bB g.x[i]!
    F := F.set! i v
    let delta := v - F[i - 1]!
    -- `useCut = false` is the counterfactual used only to attribute deviations: the whole window is tabulated
    notInTail := !useCut || (tol < v) || ((0 : α) < delta)
    i := i + 1
  let cut := i
  -- entries from `cut` on stay zero
  -- `finest = true` (attribution only): tolerance 0, i.e. the nested sequence is never accepted early
  let r := Quad.integrate g (fun ix => F[ix]!) (if finest then 0 else Flt.ofRat 1 1000000000000) 0 (size - 1)
  -- index of the largest tabulated value (trace information only)
  let mut am := 0
  for j in [0:size] do
    if F[am]! < F[j]! then am := j
  return (r.1, r.2, cut, am)

/-- `estimate_type2(N, l1, l2, n, a, b, A, B)`; `erfv` is `std::erf(√p·P)` supplied from outside -/
def estimateType2 (T : Bessel.Table α) (N l1 l2 : Nat) (n a b A B erfv : α) : α :=
  let kA := ((2 : Nat) : α) * a * A
  let kB := ((2 : Nat) : α) * b * B
  let c0 : α := ((Nat.max (N - l1 - l2) 0 : Nat) : α)   -- std::max(N - l1 - l2, 0) on ints
  let c1 := kA + kB
  let p := a + b + n
  let P := (c1 + Flt.sqrt (c1 * c1 + ((8 : Nat) : α) * p * c0)) / (((4 : Nat) : α) * p)
  let zA := P - A
  let zB := P - B
  let b1 := Bessel.upperBound T (kA * P) l1
  let b2 := Bessel.upperBound T (kB * P) l2
  let Fres := Gen.fastPow N P * Flt.exp (-n * P * P - a * zA * zA - b * zB * zB) * b1 * b2
  Flt.ofRat 1 2 * Flt.sqrt (Flt.pi / p) * Fres * (1 + erfv)

/-- the argument whose erf `estimate_type2` needs: √p · P -/
def estimateErfArg (N l1 l2 : Nat) (n a b A B : α) : α :=
  let kA := ((2 : Nat) : α) * a * A
  let kB := ((2 : Nat) : α) * b * B
  let c0 : α := ((Nat.max (N - l1 - l2) 0 : Nat) : α)
  let c1 := kA + kB
  let p := a + b + n
  let P := (c1 + Flt.sqrt (c1 * c1 + ((8 : Nat) : α) * p * c0)) / (((4 : Nat) : α) * p)
  Flt.sqrt p * P

inductive Path | closed | quad | screened
deriving DecidableEq, Repr

/-- everything `type2(triples, …)` computes for ONE primitive triple (ECP Gaussian (un, ua), exponents a, b at
distances A, B) and one requested (N, l1, l2): the value added to `radials(N, l1, l2)` before the coefficient
product, and how it was obtained.  `daw1`, `daw2` are Dawson(√p·P1), Dawson(√p·P2); `erfv` as above. -/
def primitive (prim : Quad.Grid α) (T : Bessel.Table α) (small tol minExp rootPi : α)
    (nbase : Nat) (un : Int) (ua a b A B daw1v daw2v : α) (N l1 l2 : Nat) (erfv : α) : α × Path × Nat :=
  let p := ua + a + b
  let x := a * A
  let y := b * B
  let P1 := (x + y) / p
  let P2 := (y - x) / p
  let P1sq := P1 * P1
  let P2sq := P2 * P2
  let oP1 : α := 1 / P1sq
  let oP2 : α := if Flt.abs P2 < Flt.ofRat 1 10000000 then 0 else 1 / P2sq
  let rootP := Flt.sqrt p
  let oRootP : α := 1 / rootP
  let aAbB := a * A * A + b * B * B
  let Kab : α := 1 / (((16 : Nat) : α) * x * y)
  let X1 := Flt.exp (p * P1sq - aAbB) * Kab
  let X2 := Flt.exp (p * P2sq - aAbB) * Kab
  let x2 := x * x
  let y2 := y * y
  let p2 := p * p
  let daw1 := X1 * daw1v
  let daw2 := X2 * daw2v
  let G1B := ((2 : Nat) : α) * rootPi * (daw1 - daw2)
  let G1A := ((2 : Nat) : α) * rootPi * (daw1 + daw2)
  let H2 := rootPi * (X1 + X2) * oRootP
  let vals := baseIntegrals 2 (3 + nbase) p oRootP P1 P2 P1sq P2sq X1 X2 oP1 oP2 rootPi
  let k : Nat := ((N : Int) + un + 2).toNat
  let ijk := l1 * 10000 + l2 * 100 + k
  let viaQuad : α × Path × Nat :=
    if tol < estimateType2 T k l1 l2 ua a b A B erfv then
      let r := integrateSmall prim T small tol k l1 l2 ua a b A B
      (r.1, .quad, r.2.2.1)
    else (0, .screened, 0)
  if minExp < a * b then
    match Gen.radialCase ijk p x y x2 y2 p2 (fun i => vals[i]!) G1A G1B H2 with
    | some r => (r, .closed, 0)
    | none => viaQuad
  else viaQuad

end
end Ecpint.RadialGen
