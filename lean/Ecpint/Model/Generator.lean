/-
Model of the code generator (src/generate.cpp, `generate_lists`): which radial triples a class requests, its `nbase`,
the split into list A / list B, and - for unrolled classes - the emitted term list (`Contraction.unroll` with the
generator's pruning test).  Executed at Float by the driver on the same angular tables the generator uses
(AngularIntegral(maxL, maxL)) and compared with what the build's generator actually wrote (Gen/QClasses, Gen/QTerms).
-/
import Ecpint.Model.Scalar
import Ecpint.Model.Contraction
import Std.Data.HashSet

namespace Ecpint.Generator
open Ecpint Ecpint.Contraction

section
variable {α : Type} [Flt α]

/-- all exponent triples of total degree ≤ L: the union of `subIdx ca` over the Cartesian components of a shell -/
def allIdx (L : Nat) : List (Nat × Nat × Nat) :=
  (List.range (L + 1)).flatMap fun ax =>
    (List.range (L + 1 - ax)).flatMap fun ay =>
      (List.range (L + 1 - ax - ay)).map fun az => (ax, ay, az)

/-- the generator's `w1_contr` / `w2_contr`: Σ_{mu1} omega(a; lam, mu; lam1, mu1)  (harmonics replaced by 1) -/
def wOnes (omega : Nat → Nat → Nat → Nat → Nat → Nat → Nat → α) (lam : Nat) (a : Nat × Nat × Nat) (lam1 mi : Nat) : α :=
  (List.range (2 * lam1 + 1)).foldl (fun s m1 => s + omega a.1 a.2.1 a.2.2 lam mi lam1 m1) (0 : α)

/-- largest |omega(a; lam, mu; lam1, ·)| -/
def wMax (omega : Nat → Nat → Nat → Nat → Nat → Nat → Nat → α) (lam : Nat) (a : Nat × Nat × Nat) (lam1 mi : Nat) : α :=
  (List.range (2 * lam1 + 1)).foldl (fun s m1 =>
    let v := Flt.abs (omega a.1 a.2.1 a.2.2 lam mi lam1 m1)
    if s < v then v else s) (0 : α)

/-- the generator's pruning test `fabs(ang) > 1e-15`, ang = Σ_mu prefac · w1(lam1, mu) · w2(lam2, mu) -/
def genKept (omega : Nat → Nat → Nat → Nat → Nat → Nat → Nat → α) (prefac : α) (lam : Nat)
    (a b : Nat × Nat × Nat) (lam1 lam2 : Nat) : Bool :=
  let ang := (List.range (2 * lam + 1)).foldl (fun s mi =>
    s + prefac * wOnes omega lam a lam1 mi * wOnes omega lam b lam2 mi) (0 : α)
  decide (Flt.ofRat 1 1000000000000000 < Flt.abs ang)

def tripleLe (s t : Nat × Nat × Nat) : Bool :=
  s.1 < t.1 || (s.1 == t.1 && (s.2.1 < t.2.1 || (s.2.1 == t.2.1 && s.2.2 ≤ t.2.2)))

structure ClassData (α : Type) where
  triplesA : List (Nat × Nat × Nat)
  triplesB : List (Nat × Nat × Nat)
  nbase : Nat
  /-- largest prefac·|omega|·|omega| over the combinations the pruning test dropped (matters for unrolled classes, whose
  lines are emitted per combination) -/
  prunedMax : α
  /-- the same over dropped combinations whose triple (N, lam1, lam2) no other combination requested either: the rolled-up
  routine then multiplies a non-zero angular factor with a radial integral that was never computed -/
  lostMax : α

/-- what `generate_lists(LA, LB, lam)` writes apart from the term lines -/
def classData (omega : Nat → Nat → Nat → Nat → Nat → Nat → Nat → α) (prefac : α) (lam LA LB : Nat) : ClassData α := Id.run do
  let nmu := 2 * lam + 1
  let idxA := (allIdx LA).toArray
  let idxB := (allIdx LB).toArray
  -- per (a, lam1, mu): the sum and the largest magnitude over mu1
  let tab := fun (idx : Array (Nat × Nat × Nat)) (L : Nat) =>
    idx.map fun a => (Array.range (lam + L + 1)).map fun lam1 => (Array.range nmu).map fun mi =>
      (wOnes omega lam a lam1 mi, wMax omega lam a lam1 mi)
  let TA := tab idxA LA
  let TB := tab idxB LB
  let mut set : Std.HashSet (Nat × Nat × Nat) := {}
  let mut pruned : α := 0
  let mut dropped : Array ((Nat × Nat × Nat) × α) := #[]
  for ia in [0:idxA.size] do
    let a := idxA[ia]!
    for ib in [0:idxB.size] do
      let b := idxB[ib]!
      let N := tsum a + tsum b
      for lam1 in [0:lam + tsum a + 1] do
        for lam2 in parityRange (lam + tsum b) (lam1 + N) do
          let ra := (TA[ia]!)[lam1]!
          let rb := (TB[ib]!)[lam2]!
          let ang := (List.range nmu).foldl (fun s mi => s + prefac * (ra[mi]!).1 * (rb[mi]!).1) (0 : α)
          if Flt.ofRat 1 1000000000000000 < Flt.abs ang then
            set := set.insert (N, lam1, lam2)
          else
            let m := (List.range nmu).foldl (fun s mi =>
              let v := prefac * (ra[mi]!).2 * (rb[mi]!).2
              if s < v then v else s) (0 : α)
            if pruned < m then pruned := m
            if (0 : α) < m then dropped := dropped.push ((N, lam1, lam2), m)
  let all := set.toList.mergeSort tripleLe
  let nbase := match all.getLast? with
    | some t => t.1 + t.2.1 - 1
    | none => 0
  let trA := all.filter fun t => t.2.1 ≤ t.2.2
  let trB := (all.filter fun t => t.2.1 > t.2.2).map fun t => (t.1, t.2.2, t.2.1)
  let lost := dropped.foldl (fun (s : α) d => if !set.contains d.1 && s < d.2 then d.2 else s) (0 : α)
  return { triplesA := trA, triplesB := trB, nbase := nbase, prunedMax := pruned, lostMax := lost }

end
end Ecpint.Generator
