/-
Model of the high-level assembly of `ECPIntegrator` (src/lib/api.cpp): atom-id assignment, Cartesian
offsets, and the scatter of per-(shell, shell, ECP) blocks into the integral matrix, the 3·natoms
first-derivative matrices and the packed second-derivative matrices.

Generic in the block type `β` (anything with `+`, `0` and a transpose): executed at
`β = Float matrix` by the driver, reasoned about at an arbitrary additive commutative group in
Props/C04.lean.  The per-triple blocks themselves are *inputs* (what the low-level engine returns).

Index constants that are plain data in the source (`H_START`, `ixes`, `back_ixes`, `jxes`) are not
written here; they come from Gen/IndexMaps.lean.
-/
import Ecpint.Gen.IndexMaps

namespace Ecpint.Api

class Block (β : Type) extends Add β, Zero β where
  tr : β → β
  /-- what `integrals(i,j) = B(i,j); integrals(j,i) = integrals(i,j)` leaves in a *diagonal* block
  when the loops run over the whole square: the lower-triangle entry wins -/
  symLower : β → β

/-! ### atom ids (init) -/

/-- `diff < 1e-4` on the L1 distance, abstracted as a decidable relation on centres -/
structure CentreRel (κ : Type) where
  close : κ → κ → Bool

/-- the `while (!found && i < centers.size())` loop: index of the first known centre that is close -/
def findCentre {κ} (R : CentreRel κ) (c : κ) : List κ → Nat → Option Nat
  | [], _ => none
  | k :: ks, i => if R.close k c then some i else findCentre R c ks (i + 1)

/-- ids in order of first appearance; returns (ids, known centres) -/
def assignIds {κ} (R : CentreRel κ) : List κ → List κ → List Nat × List κ
  | [], known => ([], known)
  | c :: cs, known =>
    match findCentre R c known 0 with
    | some i => let (ids, k') := assignIds R cs known; (i :: ids, k')
    | none => let (ids, k') := assignIds R cs (known ++ [c]); (known.length :: ids, k')

structure AtomIds where
  shell : List Nat
  ecp : List Nat
  natoms : Nat
deriving Repr, DecidableEq

/-- shells first, then ECPs, exactly as `init` does -/
def atomIds {κ} (R : CentreRel κ) (shells ecps : List κ) : AtomIds :=
  let (sid, known) := assignIds R shells []
  let (eid, known') := assignIds R ecps known
  { shell := sid, ecp := eid, natoms := known'.length }

/-! ### packed Hessian index -/

def hStart (i j N : Nat) : Int := Gen.H_START (i : Int) (j : Int) (N : Int)

/-- `saa`-style slot: start of the 6 diagonal components of atom a -/
def slotDiag (a N : Nat) : Int := hStart a a N + 3
/-- `sab`-style slot: start of the 9 components of the (min, max) pair; `+3` when equal -/
def slotPair (a b N : Nat) : Int :=
  let s := hStart (min a b) (max a b) N
  if a = b then s + 3 else s

/-! ### scatter of one (shellA, shellB, ECP) triple -/

/-- the additions the first-derivative routine makes for one triple: (matrix index, value) in
source order; `t i` is `tempValues[i]`, i < 9 -/
def firstContribs {β} (Aix Bix Cix : Nat) (t : Nat → β) : List (Nat × β) :=
  (List.range 3).flatMap fun n =>
    [(3 * Aix + n, t n), (3 * Bix + n, t (n + 3)), (3 * Cix + n, t (n + 6))]

/-- the additions the second-derivative routine makes for one triple, in source order
(`t i` is `tempValues[i]`, i < 45; blocks AA 0.., AB 6.., AC 15.., BB 24.., BC 30.., CC 39..) -/
def secondContribs {β} (Aix Bix Cix N : Nat) (t : Nat → β) : List (Int × β) :=
  let saa := slotDiag Aix N
  let sbb := slotDiag Bix N
  let scc := slotDiag Cix N
  let sab := slotPair Aix Bix N
  let sac := slotPair Aix Cix N
  let sbc := slotPair Bix Cix N
  let ix := fun n => Gen.ixes.getD n 0
  let bk := fun n => Gen.back_ixes.getD n 0
  let jx := fun n => Gen.jxes.getD n 0
  if Aix = Cix ∨ Bix = Cix then
    if Bix ≠ Aix then
      ((List.range 6).flatMap fun (n : Nat) => [(saa + (n : Int), t n), (sbb + (n : Int), t (n + 24))]) ++
      ((List.range 9).map fun (n : Nat) =>
        if Aix > Bix then (sab + (n : Int), t (jx n + 6)) else (sab + (n : Int), t (n + 6)))
    else []
  else if Aix = Bix then
    ((List.range 6).flatMap fun (n : Nat) =>
      [(saa + (n : Int), t n), (saa + (n : Int), t (n + 24)), (scc + (n : Int), t (n + 39)),
       (saa + (n : Int), t (ix n + 6)), (saa + (n : Int), t (bk n + 6))]) ++
    ((List.range 9).flatMap fun (n : Nat) =>
      if Aix > Cix then [(sac + (n : Int), t (jx n + 15)), (sac + (n : Int), t (jx n + 30))]
      else [(sac + (n : Int), t (n + 15)), (sac + (n : Int), t (n + 30))])
  else
    ((List.range 6).flatMap fun (n : Nat) =>
      [(saa + (n : Int), t n), (sbb + (n : Int), t (n + 24)), (scc + (n : Int), t (n + 39))]) ++
    ((List.range 9).flatMap fun (n : Nat) =>
      [ (if Aix > Bix then (sab + (n : Int), t (jx n + 6)) else (sab + (n : Int), t (n + 6))),
        (if Aix > Cix then (sac + (n : Int), t (jx n + 15)) else (sac + (n : Int), t (n + 15))),
        (if Bix > Cix then (sbc + (n : Int), t (jx n + 30)) else (sbc + (n : Int), t (n + 30))) ])

/-- sum, in order, of the contributions that land in one slot -/
def landIn {ι β} [DecidableEq ι] [Add β] (slot : ι) (acc : β) (cs : List (ι × β)) : β :=
  cs.foldl (fun a c => if c.1 = slot then a + c.2 else a) acc

/-! ### whole-matrix assembly over all shell pairs and ECPs -/

structure System (β : Type) where
  nshells : Nat
  necps : Nat
  ids : AtomIds
  /-- which ECPs survive the shell/ECP screen for shell s1 (compute_integrals only) -/
  kept : Nat → Nat → Bool
  /-- low-level results: `int s1 s2 u`, `d1 s1 s2 u i` (i<9), `d2 s1 s2 u i` (i<45), for s2 ≤ s1 -/
  int : Nat → Nat → Nat → β
  d1 : Nat → Nat → Nat → Nat → β
  d2 : Nat → Nat → Nat → Nat → β

variable {β : Type} [Block β]

def shellAtom (S : System β) (s : Nat) : Nat := S.ids.shell.getD s 0
def ecpAtom (S : System β) (u : Nat) : Nat := S.ids.ecp.getD u 0

/-- block (s1, s2), s2 ≤ s1, of the integral matrix: sum over the kept ECPs in order -/
def intBlock (S : System β) (s1 s2 : Nat) : β :=
  (List.range S.necps).foldl (fun acc u => if S.kept s1 u then acc + S.int s1 s2 u else acc) 0

/-- block (s1, s2), s2 ≤ s1, of first-derivative matrix `k` -/
def d1Block (S : System β) (k s1 s2 : Nat) : β :=
  (List.range S.necps).foldl (fun acc u =>
    landIn k acc (firstContribs (shellAtom S s1) (shellAtom S s2) (ecpAtom S u) (S.d1 s1 s2 u))) 0

/-- block (s1, s2), s2 ≤ s1, of second-derivative matrix `k` -/
def d2Block (S : System β) (k : Nat) (s1 s2 : Nat) : β :=
  (List.range S.necps).foldl (fun acc u =>
    landIn (k : Int) acc
      (secondContribs (shellAtom S s1) (shellAtom S s2) (ecpAtom S u) S.ids.natoms (S.d2 s1 s2 u))) 0

/-- the full matrix from its lower blocks: block (s1,s2) for s2 ≤ s1, its transpose above -/
def fullBlock (lower : Nat → Nat → β) (s1 s2 : Nat) : β :=
  if s2 ≤ s1 then lower s1 s2 else Block.tr (lower s2 s1)

/-- the integral matrix: diagonal blocks go through the element-wise mirror -/
def intFull (S : System β) (s1 s2 : Nat) : β :=
  if s1 = s2 then Block.symLower (intBlock S s1 s1) else fullBlock (intBlock S) s1 s2

def nFirst (S : System β) : Nat := 3 * S.ids.natoms
def nSecond (S : System β) : Nat := (3 * S.ids.natoms * (3 * S.ids.natoms + 1)) / 2

end Ecpint.Api
