/-
Model of the result containers of `ECPIntegrator` (src/lib/api.cpp) across call histories.

The numbers a compute routine produces depend only on the coordinates the integrator holds
when it runs (C04 says which numbers).  What a *history* can change is how those fresh
numbers meet whatever is already in the container.  So a container slot is modelled as a
formal sum of fresh results: the list of coordinate versions whose fresh matrix has been
accumulated into it.  `[c]` is "exactly what a fresh integrator at coordinates c returns".

How each routine prepares its container (`reset` = assign/clear, `append` = push_back of new
zero matrices behind the old ones) is *not* written here: it is extracted from api.cpp on
every run (Gen/ApiInit.lean).
-/
namespace Ecpint.History

/-- how a compute routine prepares its result container before accumulating into it -/
inductive InitMode
  | reset   -- assign(...) / clear(): old contents dropped
  | append  -- push_back of fresh zero matrices, old contents kept in the leading slots
deriving DecidableEq, Repr

/-- the coordinates the integrator currently holds: which shell geometry, which ECP geometry -/
structure Coords where
  shells : Nat
  ecps : Nat
deriving DecidableEq, Repr

/-- formal sum of fresh results accumulated in one matrix slot -/
abbrev Slot := List Coords

structure Cfg where
  intsInit : InitMode
  d1Init : InitMode
  d2Init : InitMode
  natoms : Nat
deriving Repr

def Cfg.n1 (c : Cfg) : Nat := 3 * c.natoms
def Cfg.n2 (c : Cfg) : Nat := (3 * c.natoms * (3 * c.natoms + 1)) / 2

structure State where
  cur : Coords
  ints : Slot          -- `[]` : the 0x0 / all-zero matrix of a new integrator
  d1 : List Slot
  d2 : List Slot
deriving DecidableEq, Repr

inductive Op
  | updShells (g : Nat)   -- update_gaussian_basis_coords
  | updEcps (g : Nat)     -- update_ecp_basis_coords
  | compI                 -- compute_integrals
  | compD1                -- compute_first_derivs
  | compD2                -- compute_second_derivs
deriving DecidableEq, Repr

def init (c : Coords) : State := { cur := c, ints := [], d1 := [], d2 := [] }

/-- container after the preparation loop -/
def prep (m : InitMode) (n : Nat) (old : List Slot) : List Slot :=
  match m with
  | .reset => List.replicate n []
  | .append => old ++ List.replicate n []

/-- the scatter loops add the fresh block of coordinates `c` into slots `0 .. n-1` -/
def accum (c : Coords) (n : Nat) : Nat → List Slot → List Slot
  | _, [] => []
  | i, s :: ss => (if i < n then s ++ [c] else s) :: accum c n (i + 1) ss

def step (cfg : Cfg) (s : State) : Op → State
  | .updShells g => { s with cur := { s.cur with shells := g } }
  | .updEcps g => { s with cur := { s.cur with ecps := g } }
  | .compI =>
      { s with ints := match cfg.intsInit with
                       | .reset => [s.cur]
                       | .append => s.ints ++ [s.cur] }
  | .compD1 => { s with d1 := accum s.cur cfg.n1 0 (prep cfg.d1Init cfg.n1 s.d1) }
  | .compD2 => { s with d2 := accum s.cur cfg.n2 0 (prep cfg.d2Init cfg.n2 s.d2) }

def run (cfg : Cfg) (s : State) (ops : List Op) : State := ops.foldl (step cfg) s

/-! ### the abstract specification: every container remembers the coordinates of its last compute -/

structure Spec where
  cur : Coords
  ints : Option Coords
  d1 : Option Coords
  d2 : Option Coords
deriving DecidableEq, Repr

def Spec.init (c : Coords) : Spec := { cur := c, ints := none, d1 := none, d2 := none }

def Spec.step (s : Spec) : Op → Spec
  | .updShells g => { s with cur := { s.cur with shells := g } }
  | .updEcps g => { s with cur := { s.cur with ecps := g } }
  | .compI => { s with ints := some s.cur }
  | .compD1 => { s with d1 := some s.cur }
  | .compD2 => { s with d2 := some s.cur }

def Spec.run (s : Spec) (ops : List Op) : Spec := ops.foldl Spec.step s

/-- what the concrete containers look like for an abstract state -/
def absList (n : Nat) : Option Coords → List Slot
  | none => []
  | some c => List.replicate n [c]

def abs (cfg : Cfg) (s : Spec) : State :=
  { cur := s.cur
    ints := match s.ints with | none => [] | some c => [c]
    d1 := absList cfg.n1 s.d1
    d2 := absList cfg.n2 s.d2 }

end Ecpint.History
