/-
Model of the derivative assembly of `ECPIntegral` (src/lib/ecpint.cpp):
  left_shell_derivative, left_shell_second_derivative, mixed_second_derivative,
  compute_shell_pair_derivative, compute_shell_pair_second_derivative.

The shifted-shell integral blocks (`Q_minus`, `Q_plus`, …: what `compute_shell_pair` returns for
shifted angular momenta and exponent-scaled coefficients) are *inputs*.  Generic in the scalar type:
executed at `Float` by the driver, reasoned about over a commutative ring in Props/C02.lean, C03.lean.
A block is a function of (row, column); rows/columns are the integer indices the C++ computes
(`N_INDEX` from Gen/IndexMaps.lean), clamps included.
-/
import Ecpint.Gen.IndexMaps

namespace Ecpint.Deriv

abbrev Blk (α : Type) := Nat → Nat → α

/-- `N_INDEX(l, m)` on naturals -/
def nIdx (l m : Nat) : Nat := (Gen.N_INDEX (l : Int) (m : Int)).toNat

def ncart (L : Nat) : Nat := (L + 1) * (L + 2) / 2

/-- the Cartesian components of a shell in the order of the loops
`for k = L..0, for l = L-k..0, m = L-k-l` -/
def cartList (L : Nat) : List (Nat × Nat × Nat) :=
  (List.range (L + 1)).flatMap fun i =>
    let k := L - i
    (List.range (L - k + 1)).map fun j =>
      let l := (L - k) - j
      (k, l, L - k - l)

section
variable {α : Type} [Add α] [Sub α] [Mul α] [Neg α] [Zero α] [NatCast α]

def two : α := ((2 : Nat) : α)
def four : α := ((4 : Nat) : α)

/-- `left_shell_derivative`: `results[q](nA, nB)`; `qmRows = Q_minus.dims[0]` -/
def leftFirst (LA qmRows : Nat) (Qm Qp : Blk α) (q : Nat) : Blk α := fun nA nB =>
  if LA = 0 then
    if nA = 0 then two * Qp q nB else 0
  else
    match (cartList LA)[nA]? with
    | none => 0
    | some (k, l, m) =>
      if q = 0 then
        let np := nIdx l m
        let nm := min np (qmRows - 1)
        (-(k : α)) * Qm nm nB + two * Qp np nB
      else if q = 1 then
        let nm := if l > 0 then nIdx (l - 1) m else 0
        let np := nIdx (l + 1) m
        (-(l : α)) * Qm nm nB + two * Qp np nB
      else
        let nm := if m > 0 then nIdx l (m - 1) else 0
        let np := nIdx l (m + 1)
        (-(m : α)) * Qm nm nB + two * Qp np nB

/-- `left_shell_second_derivative`: six components xx xy xz yy yz zz; `qmRows = Q_minus.dims[0]` -/
def leftSecond (LA qmRows : Nat) (Qm Q0 Qp : Blk α) (c : Nat) : Blk α := fun nA nB =>
  match (cartList LA)[nA]? with
  | none => 0
  | some (k, l, m) =>
    let K : α := (k : α); let L : α := (l : α); let M : α := (m : α)
    if c = 0 then        -- dxx
      let nmp := nIdx l m
      let nmm := min nmp (qmRows - 1)
      ((k * (k - 1) : Nat) : α) * Qm nmm nB - two * ((2 * k + 1 : Nat) : α) * Q0 nmp nB + four * Qp nmp nB
    else if c = 1 then   -- dxy
      let npm := if l > 0 then nIdx (l - 1) m else 0
      let nmm := if k > 0 then npm else 0
      let npp := nIdx (l + 1) m
      let nmp := if k > 0 then npp else 0
      ((k * l : Nat) : α) * Qm nmm nB - two * K * Q0 nmp nB - two * L * Q0 npm nB + four * Qp npp nB
    else if c = 2 then   -- dxz
      let npm := if m > 0 then nIdx l (m - 1) else 0
      let nmm := if k > 0 then npm else 0
      let npp := nIdx l (m + 1)
      let nmp := if k > 0 then npp else 0
      ((k * m : Nat) : α) * Qm nmm nB - two * K * Q0 nmp nB - two * M * Q0 npm nB + four * Qp npp nB
    else if c = 3 then   -- dyy
      let nmm := if l > 1 then nIdx (l - 2) m else 0
      let nmp := nIdx l m
      let npp := nIdx (l + 2) m
      ((l * (l - 1) : Nat) : α) * Qm nmm nB - two * ((2 * l + 1 : Nat) : α) * Q0 nmp nB + four * Qp npp nB
    else if c = 4 then   -- dyz
      let nmm := if l * m > 0 then nIdx (l - 1) (m - 1) else 0
      let nmp := if l > 0 then nIdx (l - 1) (m + 1) else 0
      let npm := if m > 0 then nIdx (l + 1) (m - 1) else 0
      let npp := nIdx (l + 1) (m + 1)
      ((l * m : Nat) : α) * Qm nmm nB - two * L * Q0 nmp nB - two * M * Q0 npm nB + four * Qp npp nB
    else                 -- dzz
      let nmm := if m > 1 then nIdx l (m - 2) else 0
      let nmp := nIdx l m
      let npp := nIdx l (m + 2)
      ((m * (m - 1) : Nat) : α) * Qm nmm nB - two * ((2 * m + 1 : Nat) : α) * Q0 nmp nB + four * Qp npp nB

/-- the three "minus" and "plus" row indices of a Cartesian component (`nA_m[]`, `nA_p[]`) -/
def idxMinus (l m rows q : Nat) : Nat :=
  if q = 0 then min (nIdx l m) (rows - 1)
  else if q = 1 then (if l > 0 then nIdx (l - 1) m else 0)
  else (if m > 0 then nIdx l (m - 1) else 0)

def idxPlus (l m q : Nat) : Nat :=
  if q = 0 then nIdx l m else if q = 1 then nIdx (l + 1) m else nIdx l (m + 1)

def comp (a : Nat × Nat × Nat) (q : Nat) : Nat := if q = 0 then a.1 else if q = 1 then a.2.1 else a.2.2

/-- `mixed_second_derivative`: nine components 3p+q; `mmRows, mmCols = Q_mm.dims` -/
def mixedSecond (LA LB mmRows mmCols : Nat) (Qmm Qmp Qpm Qpp : Blk α) (c : Nat) : Blk α := fun nA nB =>
  match (cartList LA)[nA]?, (cartList LB)[nB]? with
  | some a, some b =>
    let p := c / 3
    let q := c % 3
    let am := idxMinus a.2.1 a.2.2 mmRows p
    let ap := idxPlus a.2.1 a.2.2 p
    let bm := idxMinus b.2.1 b.2.2 mmCols q
    let bp := idxPlus b.2.1 b.2.2 q
    ((comp a p * comp b q : Nat) : α) * Qmm am bm - two * ((comp b q : Nat) : α) * Qpm ap bm
      - two * ((comp a p : Nat) : α) * Qmp am bp + four * Qpp ap bp
  | _, _ => 0

def tr (Q : Blk α) : Blk α := fun i j => Q j i
def negB (Q : Blk α) : Blk α := fun i j => -(Q i j)
def zeroB : Blk α := fun _ _ => 0

/-- `compute_shell_pair_derivative`: the nine matrices A_x A_y A_z B_x B_y B_z C_x C_y C_z.
`aOff = (dAC > 1e-6)`, `bOff = (dBC > 1e-6)`; `QA q` = left derivative of (A,B), `QB q` = left
derivative of (B,A) (so it is indexed (nB, nA)). -/
def pairFirst (aOff bOff : Bool) (QA QB : Nat → Blk α) (i : Nat) : Blk α :=
  let q := i % 3
  if aOff then
    if bOff then
      if i < 3 then QA q
      else if i < 6 then tr (QB q)
      else fun nA nB => -(((1 : Nat) : α)) * (QA q nA nB + tr (QB q) nA nB)
    else
      if i < 3 then QA q
      else if i < 6 then fun nA nB => QA q nA nB * -(((1 : Nat) : α))
      else zeroB
  else if bOff then
    if i < 3 then fun nA nB => tr (QB q) nA nB * -(((1 : Nat) : α))
    else if i < 6 then tr (QB q)
    else zeroB
  else zeroB

/-- `compute_shell_pair_second_derivative`: the 45 matrices (AA 0.., AB 6.., AC 15.., BB 24..,
BC 30.., CC 39..).  `QAA c`, `QBB c` (indexed (nB, nA)), `QAB c` as returned by the three routines. -/
def pairSecond (aOff bOff : Bool) (QAA QBB QAB : Nat → Blk α) (i : Nat) : Blk α :=
  let jaa := fun j => Gen.jaas.getD j 0
  let jbb := fun j => Gen.jbbs.getD j 0
  let m1 : α := -(((1 : Nat) : α))
  if aOff then
    if bOff then
      if i < 6 then QAA i
      else if i < 15 then QAB (i - 6)
      else if i < 24 then fun nA nB => m1 * (QAA (jaa (i - 15)) nA nB + QAB (i - 15) nA nB)
      else if i < 30 then tr (QBB (i - 24))
      else if i < 39 then fun nA nB => m1 * (QBB (jaa (i - 30)) nB nA + QAB (jbb (i - 30)) nA nB)
      else
        -- CC: `results[39+jaa] = -results[30+j] - results[15+j]`, last write (largest j with jaas[j] = i-39) wins
        let j := ((List.range 9).filter fun j => jaa j = i - 39).getLast?.getD 0
        fun nA nB =>
          -(m1 * (QBB (jaa j) nB nA + QAB (jbb j) nA nB)) - (m1 * (QAA (jaa j) nA nB + QAB j nA nB))
    else
      if i < 6 then QAA i
      else if i < 15 then fun nA nB => QAA (jaa (i - 6)) nA nB * m1
      else if 24 ≤ i ∧ i < 30 then QAA (i - 24)
      else zeroB
  else if bOff then
    if i < 6 then tr (QBB i)
    else if i < 15 then fun nA nB => tr (QBB (jaa (i - 6))) nA nB * m1
    else if 24 ≤ i ∧ i < 30 then tr (QBB (i - 24))
    else zeroB
  else zeroB

end
end Ecpint.Deriv
