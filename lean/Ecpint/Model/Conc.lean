/-
Concurrency model for C10.

Threads run straight-line programs over a shared memory of abstract locations (the process-global and
engine-owned objects of the library; see Gen/Effects.lean for which operation touches which).  A read
appends the value found to the thread's private trace; a write stores a value computed from the thread's
private trace — so a thread's *result* (everything it can compute, bit for bit) is a function of its trace.
A schedule is any list of thread ids: at each tick the named thread executes its next instruction.
-/
namespace Ecpint.Conc

abbrev Loc := Nat
abbrev Val := Nat
abbrev Mem := Loc → Val

inductive Instr
  | read (l : Loc)
  | write (l : Loc) (f : List Val → Val)   -- value written depends only on what the thread has read so far

abbrev Prog := List Instr

structure Thread where
  rest : Prog            -- instructions still to run
  trace : List Val       -- values read so far

def Instr.reads : Instr → List Loc
  | .read l => [l]
  | .write _ _ => []
def Instr.writes : Instr → List Loc
  | .read _ => []
  | .write l _ => [l]

def Prog.reads (p : Prog) : List Loc := p.flatMap Instr.reads
def Prog.writes (p : Prog) : List Loc := p.flatMap Instr.writes

/-- one instruction of one thread -/
def exec (m : Mem) (t : Thread) : Mem × Thread :=
  match t.rest with
  | [] => (m, t)
  | .read l :: r => (m, { rest := r, trace := t.trace ++ [m l] })
  | .write l f :: r => (fun k => if k = l then f t.trace else m k, { rest := r, trace := t.trace })

structure Config where
  mem : Mem
  threads : List Thread

/-- the thread named by the schedule entry takes one step (an id out of range or a finished thread idles) -/
def tick (c : Config) (tid : Nat) : Config :=
  match c.threads[tid]? with
  | none => c
  | some t =>
    let (m', t') := exec c.mem t
    { mem := m', threads := c.threads.set tid t' }

def run (c : Config) (sched : List Nat) : Config := sched.foldl tick c

/-- a thread run alone to completion from memory `m` -/
def alone (m : Mem) (t : Thread) : Mem × Thread :=
  t.rest.foldl (fun (mt : Mem × Thread) _ => exec mt.1 mt.2) (m, t)

def start (m : Mem) (progs : List Prog) : Config :=
  { mem := m, threads := progs.map fun p => { rest := p, trace := [] } }

/-- **Bernstein's condition**: no location written by one thread is read or written by another -/
def Disjoint (progs : List Prog) : Prop :=
  ∀ i j : Nat, i ≠ j → ∀ pi pj : Prog, progs[i]? = some pi → progs[j]? = some pj →
    ∀ l, l ∈ Prog.writes pi → l ∉ Prog.reads pj ∧ l ∉ Prog.writes pj

/-- every thread has run to completion -/
def Finished (c : Config) : Prop := ∀ t ∈ c.threads, t.rest = []

end Ecpint.Conc

namespace Ecpint.Conc

/-- what one API operation may touch, from the static effect analysis (translate/effects.py) -/
structure OpEffects where
  name : String
  isConst : Bool                    -- a const member function (cannot write members of its engine)
  globalReads : List String         -- process-global objects read (transitively)
  globalWrites : List String        -- … written outside any once-guard
  onceWrites : List String          -- … written only inside std::call_once / a static initialiser
  engineWrites : List String        -- members of `*this` written (non-const operations only)
  mutableFields : List String       -- `mutable` members reachable (would let a const operation write)
  constCasts : Nat                  -- const_cast expressions reachable
deriving DecidableEq, Repr

/-- two operations may run at the same time on the same engine / in the same process iff neither writes
(unguarded) what the other reads or writes; a const operation additionally must have no back door for writing
its (shared) engine -/
def compatible (a b : OpEffects) : Bool :=
  (a.globalWrites.all fun g => !(b.globalReads.contains g) && !(b.globalWrites.contains g) && !(b.onceWrites.contains g)) &&
  (b.globalWrites.all fun g => !(a.globalReads.contains g) && !(a.globalWrites.contains g) && !(a.onceWrites.contains g))

def constSafe (a : OpEffects) : Bool :=
  a.isConst && a.engineWrites.isEmpty && a.mutableFields.isEmpty && a.constCasts == 0

end Ecpint.Conc
