/-
The recurrences the closed-form radial cases are generated from (Shaw & Hill, JCP 147, 074108 (2017), eqs 28–33,
as transcribed by src/generated/radial/unrol_radial.py), over any field.

Q(i,j,k) stands for ∫ r^k e^{-p r²} M_i(2x r) M_j(2y r) dr (x = aA, y = bB).  Unrolling eqs 28/29/33 expresses it
as a linear combination of base integrals X_N with N from `start = k − i − j` upward; X_N is of type F when
N − start is even and of type G^B when it is odd.  Base integrals with N < 1 are eliminated with the four
integration-by-parts relations (eqs 37–39) between the families F, G^B, G^A, H.
-/
namespace Ecpint.RadialRec

structure Fam (K : Type) where
  F : Int → K
  GB : Int → K
  GA : Int → K
  H : Int → K

section
variable {K : Type} [Add K] [Sub K] [Mul K] [Div K] [Neg K] [IntCast K]

/-- the base integral at position N of the unrolled expansion -/
def leaf (fam : Fam K) (start N : Int) : K :=
  if (N - start) % 2 = 0 then fam.F N else fam.GB N

/-- eqs 29 and 33: reduction of the second Bessel order with the first at 0 -/
def recJ (y : K) (fam : Fam K) (start : Int) : Nat → Int → K
  | 0, k => leaf fam start k
  | 1, k => leaf fam start k + ((-1 : Int) : K) / (((2 : Int) : K) * y) * leaf fam start (k - 1)
  | j + 2, k => recJ y fam start j k
      + (((1 - 2 * ((j : Int) + 2) : Int) : K) / (((2 : Int) : K) * y)) * recJ y fam start (j + 1) (k - 1)

/-- eq 28: reduction of the first Bessel order:
Q(i,j,k) = μ·Q(i−1,j,k−1) + ν·Q(i−1,j−1,k) + ξ·Q(i−1,j,k+1), μ = (2+j−i−k)/(2x), ν = −y/x, ξ = p/x -/
def recI (p x y : K) (fam : Fam K) (start : Int) : Nat → Nat → Int → K
  | 0, j, k => recJ y fam start j k
  | i + 1, j, k =>
      (((2 + (j : Int) - ((i : Int) + 1) - k : Int) : K) / (((2 : Int) : K) * x)) * recI p x y fam start i j (k - 1)
      + (-y / x) * recI p x y fam start i (j - 1) k
      + (p / x) * recI p x y fam start i j (k + 1)

/-- Q(i,j,k) by the recurrences -/
def Q (p x y : K) (fam : Fam K) (i j : Nat) (k : Int) : K := recI p x y fam (k - i - j) i j k

/-- what the compiled code passes to a case: `values[n]` = base integral N = n + 2 (F for even n, G^B for odd n) -/
def valuesOf (fam : Fam K) (n : Nat) : K := if n % 2 = 0 then fam.F ((n : Int) + 2) else fam.GB ((n : Int) + 2)

end

end Ecpint.RadialRec
