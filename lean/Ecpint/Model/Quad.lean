/-
Model of `GCQuadrature` (src/lib/gaussquad.cpp): adaptive Gauss–Chebyshev quadrature of the second kind in the
variable of Pérez-Jordá et al. — grid construction by the trigonometric recurrence with mirrored halves, the
nested one-point (`T_1, T_3, T_7, …`) and two-point (`T_2, T_5, T_11, …`) sequences with their convergence
tests, the index arithmetic of `sumTerms` with `start`/`end` clipping, and the two interval transformations.
Generic in the scalar: executed at `Float` (driver), reasoned about over ordered fields (Props/C15.lean).
-/
namespace Ecpint.Quad

inductive GCType | onePoint | twoPoint
deriving DecidableEq, Repr

/-! ### index arithmetic (pure naturals) -/

/-- the indices `sumTerms(limit, shift, skip)` visits, in order: for i = 0, 2, 4, … ≤ limit the pair
`(skip·i+1)·shift − 1` and its mirror `maxN − ix − 1` -/
def sumIndices (maxN limit shift skip : Nat) : List (Nat × Nat) :=
  (List.range (limit / 2 + 1)).map fun j =>
    let i := 2 * j
    let ix := (skip * i + 1) * shift - 1
    (ix, maxN - ix - 1)

/-- grid size for a requested number of points: `2^p − 1` resp. `3·2^p − 1` (p computed by the caller) -/
def gridSize (t : GCType) (p : Nat) : Nat :=
  match t with
  | .onePoint => 2 ^ p - 1
  | .twoPoint => 3 * 2 ^ p - 1

/-! ### scalar part -/

class Num (α : Type) extends Add α, Sub α, Mul α, Div α, Neg α, Zero α, One α, NatCast α, LT α, LE α where
  sin : α → α
  cos : α → α
  log : α → α
  sqrt : α → α
  abs : α → α
  pi : α
  floorNat : α → Nat
  decLt : (a b : α) → Decidable (a < b)
  decLe : (a b : α) → Decidable (a ≤ b)

instance {α} [Num α] (a b : α) : Decidable (a < b) := Num.decLt a b
instance {α} [Num α] (a b : α) : Decidable (a ≤ b) := Num.decLe a b
instance {α} [Num α] : Inhabited α := ⟨0⟩

/-- one step of the trigonometric recurrence of `initGrid`: (z, sin z, cos z) ↦ (z + z1, sin(z + z1), cos(z + z1))
computed as `s' = c1·s + s1·c`, `c' = c1·c − s1·s` -/
def trigStep {α : Type} [Add α] [Sub α] [Mul α] (z1 c1 s1 : α) (t : α × α × α) : α × α × α :=
  (t.1 + z1, c1 * t.2.1 + s1 * t.2.2, c1 * t.2.2 - s1 * t.2.1)

/-- abscissa `x = 1 + 2/(3π)·((3 + 2s²)·c·s − 3z)` and weight `w = s⁴` of the node at angle z -/
def nodeX {α : Type} [Add α] [Sub α] [Mul α] [One α] [NatCast α] (o23pi z s c : α) : α :=
  let s2 := s * s
  1 + o23pi * ((((3 : Nat) : α) + ((2 : Nat) : α) * s2) * c * s - ((3 : Nat) : α) * z)
def nodeW {α : Type} [Mul α] (s : α) : α := let s2 := s * s; s2 * s2

structure Grid (α : Type) where
  t : GCType
  maxN : Nat
  M : Nat
  x : Array α
  w : Array α

section
variable {α : Type} [Num α]

/-- `p` of `initGrid`: ⌊log(points+1)/log 2⌋ resp. ⌊log((points+2)/3)/log 2⌋ -/
def gridPower (t : GCType) (points : Nat) : Nat :=
  match t with
  | .onePoint => Num.floorNat (Num.log (((points + 1 : Nat) : α)) / Num.log ((2 : Nat) : α))
  | .twoPoint => Num.floorNat (Num.log (((points + 2 : Nat) : α) / ((3 : Nat) : α)) / Num.log ((2 : Nat) : α))

/-- one iteration n of the loop of `initGrid`: stores node n and its mirror, then advances the trigonometric recurrence -/
def gridStep (maxN : Nat) (z1 c1 s1 o23pi : α) (acc : Array α × Array α × (α × α × α)) (n : Nat) :
    Array α × Array α × (α × α × α) :=
  let (x, w, tr) := acc
  let (zi, si, ci) := tr
  let w := w.set! (maxN - 1 - n) (nodeW si)
  let w := w.set! n (nodeW si)
  let xn : α := nodeX o23pi zi si ci
  let x := x.set! (maxN - 1 - n) xn
  let x := x.set! n (-xn)
  (x, w, trigStep z1 c1 s1 tr)

/-- `initGrid(points, t)` -/
def initGrid (points : Nat) (t : GCType) : Grid α :=
  let maxN := gridSize t (gridPower (α := α) t points)
  let M := (maxN - 1) / 2
  let x0 : Array α := (Array.replicate maxN 0).set! M 0
  let w0 : Array α := (Array.replicate maxN 0).set! M 1
  let z1 : α := Num.pi / ((maxN + 1 : Nat) : α)
  let c1 := Num.cos z1
  let s1 := Num.sin z1
  let o23pi : α := ((2 : Nat) : α) / (((3 : Nat) : α) * Num.pi)
  let r := (List.range M).foldl (gridStep maxN z1 c1 s1 o23pi) (x0, w0, (z1, s1, c1))
  { t := t, maxN := maxN, M := M, x := r.1, w := r.2.1 }

/-- `sumTerms(f, limit, start, end, shift, skip)`; `f ix` is `f(x[ix], params, ix)` -/
def sumTerms (g : Grid α) (f : Nat → α) (limit start stop shift skip : Nat) : α :=
  (sumIndices g.maxN limit shift skip).foldl (fun v (p : Nat × Nat) =>
    let v := if p.1 ≥ start then v + g.w[p.1]! * f p.1 else v
    if p.2 ≤ stop then v + g.w[p.2]! * f p.2 else v) 0

/-- state of the one-point loop of `integrate`: (Tn, Tn12, T2n1, n, p, converged) -/
structure OneSt (α : Type) where
  Tn : α
  Tn12 : α
  T2n1 : α
  n : Nat
  p : Nat
  conv : Bool

/-- `while (n < maxN && !converged) { … }` of the one-point (Perez92) scheme, with `fuel` iterations left -/
def onePointLoop (g : Grid α) (f : Nat → α) (tol : α) (start stop : Nat) : Nat → OneSt α → OneSt α
  | 0, s => s
  | fuel + 1, s =>
    if s.n < g.maxN && !s.conv then
      let T2n1 := s.Tn + sumTerms g f s.n start stop s.p 2
      let dT := T2n1 - ((2 : Nat) : α) * s.Tn
      let n := 2 * s.n + 1
      if dT * dT ≤ Num.abs (T2n1 - s.Tn12) * tol then
        onePointLoop g f tol start stop fuel { s with T2n1 := T2n1, n := n, conv := true }
      else
        onePointLoop g f tol start stop fuel
          { Tn := T2n1, Tn12 := ((4 : Nat) : α) * s.Tn, T2n1 := T2n1, n := n, p := s.p / 2, conv := false }
    else s

/-- state of the two-point loop: (Tn12, Tn, Tm, T2m1, p, M2, n, m, converged) -/
structure TwoSt (α : Type) where
  Tn12 : α
  Tn : α
  Tm : α
  T2m1 : α
  p : Nat
  M2 : Nat
  n : Nat
  m : Nat
  conv : Bool

/-- `while (m < maxN && !converged) { … }` of the two-point (Perez93) scheme, with `fuel` iterations left -/
def twoPointLoop (g : Grid α) (f : Nat → α) (tol : α) (start stop : Nat) : Nat → TwoSt α → TwoSt α
  | 0, s => s
  | fuel + 1, s =>
    if s.m < g.maxN && !s.conv then
      let T2m1 := s.Tm + s.Tn - s.Tn12 + sumTerms g f ((2 * s.m - 1) / 3) start stop s.M2 3
      let err1 : α := ((16 : Nat) : α) * Num.abs (((1 : α) / ((2 : Nat) : α)) * T2m1 - s.Tm) / (((3 : Nat) : α) * ((s.m + 1 : Nat) : α))
      if tol < err1 then
        let T2n1 := s.Tn + sumTerms g f s.n start stop s.p 2
        let err2 : α := ((16 : Nat) : α) * Num.abs (((2 : Nat) : α) * T2m1 - ((3 : Nat) : α) * T2n1) / (((18 : Nat) : α) * ((s.n + 1 : Nat) : α))
        let m := 2 * s.m + 1
        let n := 2 * s.n + 1
        if err2 < tol then
          twoPointLoop g f tol start stop fuel { s with T2m1 := T2m1, m := m, n := n, conv := true }
        else
          twoPointLoop g f tol start stop fuel
            { Tn12 := s.Tn, Tn := T2n1, Tm := T2m1, T2m1 := T2m1, p := s.p / 2, M2 := s.M2 / 2, n := n, m := m, conv := false }
      else
        twoPointLoop g f tol start stop fuel { s with T2m1 := T2m1, m := 2 * s.m + 1, conv := true }
    else s

/-- `integrate(f, tolerance, start, end)` → (value, converged) -/
def integrate (g : Grid α) (f : Nat → α) (tol : α) (start stop : Nat) : α × Bool :=
  let M := g.M
  let maxN := g.maxN
  match g.t with
  | .onePoint =>
      let Tn : α := g.w[M]! * f M
      -- (T2n1 is uninitialised in the source when the loop does not run; 0 here)
      let s := onePointLoop g f tol start stop (maxN + 2)
        { Tn := Tn, Tn12 := ((2 : Nat) : α) * Tn, T2n1 := 0, n := 1, p := (M + 1) / 2, conv := false }
      (((16 : Nat) : α) * s.T2n1 / (((3 : Nat) : α) * (((s.n : Nat) : α) + 1)), s.conv)
  | .twoPoint =>
      let M2a := (maxN - 2) / 3
      let s := twoPointLoop g f tol start stop (maxN + 2)
        { Tn12 := 0, Tn := g.w[M]! * f M,
          Tm := g.w[M2a]! * f M2a + g.w[maxN - M2a - 1]! * f (maxN - M2a - 1),
          T2m1 := 0, p := (M + 1) / 2, M2 := (M2a + 1) / 2, n := 1, m := 2, conv := false }
      (((16 : Nat) : α) * s.T2m1 / (((3 : Nat) : α) * (((s.m : Nat) : α) + 1)), s.conv)

/-- `transformZeroInf`: x ↦ 1 − log(1−x)/ln 2, w ↦ w / (ln 2 · (1−x)) -/
def transformZeroInf (g : Grid α) : Grid α :=
  let ln2 := Num.log ((2 : Nat) : α)
  { g with
    x := g.x.map fun xi => 1 - Num.log (1 - xi) / ln2
    w := (Array.range g.maxN).map fun i => g.w[i]! / (ln2 * (1 - g.x[i]!)) }

/-- `transformRMinMax(z, p)`: window [max(0, p − 7/√z), p + 9/√z] -/
def transformRMinMax (g : Grid α) (z p : α) : Grid α :=
  let osz : α := 1 / Num.sqrt z
  let rmin0 := p - ((7 : Nat) : α) * osz
  let rmin := if (0 : α) < rmin0 then rmin0 else 0
  let rmax := p + ((9 : Nat) : α) * osz
  let rmid := ((1 : α) / ((2 : Nat) : α)) * (rmax - rmin)
  let amid := rmid + rmin
  { g with x := g.x.map fun xi => rmid * xi + amid, w := g.w.map fun wi => wi * rmid }

end
end Ecpint.Quad
