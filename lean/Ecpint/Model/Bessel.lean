/-
Model of `BesselFunction` (src/lib/bessel.cpp): the tabulation of K_l(z) = e^{-z} i_l(z) on a uniform grid by
its power series, the derivative tables by the recurrence, and the two evaluators (all orders / one order)
with their three regimes.  Generic in the scalar (executed at `Float`, reasoned about over a field); the
constants `SMALL`, `TAYLOR_CUT`, the table size and series order come from Gen/Constants.lean.
-/
import Ecpint.Gen.Constants

namespace Ecpint.Bessel

/-- scalars with the operations the code uses -/
class Num (α : Type) extends Add α, Sub α, Mul α, Div α, Neg α, Zero α, One α, NatCast α, LT α where
  exp : α → α
  /-- `std::floor(x)` as a natural number (arguments are non-negative where it is used) -/
  floorNat : α → Nat
  abs : α → α
  decLt : (a b : α) → Decidable (a < b)

instance {α} [Num α] (a b : α) : Decidable (a < b) := Num.decLt a b

instance {α} [Num α] : Inhabited α := ⟨0⟩
instance {α} [Num α] : DecidableRel (fun a b : α => a < b) := fun a b => Num.decLt a b

/-- which formula an argument is sent to -/
inductive Regime | nonpos | small | large | table
deriving DecidableEq, Repr

/-- `if (z <= 0) … else if (z < SMALL) … else if (z > 16.0) … else …` -/
def regime {α : Type} [LT α] [DecidableRel (fun a b : α => a < b)] [Zero α] [NatCast α] (small : α) (z : α) : Regime :=
  if ¬ ((0 : α) < z) then .nonpos        -- `z <= 0`
  else if z < small then .small
  else if ((16 : Nat) : α) < z then .large
  else .table

/-! ### the regime formulas as pure functions (ring operations only) -/
section
variable {α : Type} [Add α] [Sub α] [Mul α] [Div α] [Neg α] [Zero α] [One α] [NatCast α]

/-- large-z formula of the all-orders evaluator for order l: `v0 · Σ_k T_k`, `T_k = T_{k-1} · (−cof_k · v0)`,
`cof_k = (l−k+1)(l+k)/k`, with `v0 = 0.5/z` -/
def largeAll (v0 : α) (l : Nat) : α :=
  let r := (List.range l).foldl (fun (acc : α × α) i =>
      let k := i + 1
      let cof : α := (((l - k + 1) * (l + k) : Nat) : α) / (k : α)
      let T := acc.2 * (-cof * v0)
      (acc.1 + T, T)) ((1 : α), (1 : α))
  v0 * r.1

/-- large-z formula of the single-order evaluator: `T_k = T_{k-1} · (−v0 · (L−k+1) · (L+k) / k)` -/
def largeOne (v0 : α) (L : Nat) : α :=
  let r := (List.range L).foldl (fun (acc : α × α) i =>
      let k := i + 1
      let T := acc.2 * (-v0 * ((L - k + 1 : Nat) : α) * ((L + k : Nat) : α) / (k : α))
      (acc.1 + T, T)) ((1 : α), (1 : α))
  v0 * r.1

/-- small-z formula of the all-orders evaluator: `v_0 = 1 − z`, `v_l = v_{l-1} · z / (2l+1)` -/
def smallAll (z : α) : Nat → α
  | 0 => 1 - z
  | l + 1 => smallAll z l * z / ((2 : Nat) * ((l + 1 : Nat) : α) + 1)

/-- small-z formula of the single-order evaluator: `(1 − z) · (z/(2L+1))^L` by repeated multiplication -/
def smallOne (z : α) (L : Nat) : α :=
  (List.range L).foldl (fun v _ => v * (z / ((2 : Nat) * (L : α) + 1))) (1 - z)

/-- Taylor sum of the all-orders evaluator: `Σ_n dzn_n · c_n`, `dzn_0 = 1`, `dzn_n = dzn_{n-1} · dz / n` -/
def taylorAll (tc : Nat) (dz : α) (c : Nat → α) : α :=
  let dzn : Nat → α := fun n => (List.range n).foldl (fun d i => d * dz / ((i + 1 : Nat) : α)) (1 : α)
  (List.range (tc + 1)).foldl (fun s n => s + dzn n * c n) (0 : α)

/-- Taylor sum of the single-order evaluator: running `dzn *= dz/(n+1)` -/
def taylorOne (tc : Nat) (dz : α) (c : Nat → α) : α :=
  ((List.range (tc + 1)).foldl (fun (acc : α × α) n =>
      (acc.1 + acc.2 * c n, acc.2 * (dz / ((n + 1 : Nat) : α)))) ((0 : α), (1 : α))).1

/-- one step of the derivative recurrence for order l ≥ 1:
`C_l · a + (C_l + 1/(2l+1)) · b − c` with `C_l = l/(2l+1)` -/
def recStep (l : Nat) (a b c : α) : α :=
  let C : α := (l : α) / ((2 : Nat) * (l : α) + 1)
  C * a + (C + 1 / ((2 : Nat) * (l : α) + 1)) * b - c

end

section
variable {α : Type} [Num α]

/-- double factorial table `DFAC[i]`: DFAC[0] = DFAC[1] = 1, DFAC[i] = i · DFAC[i-2] (as `initFactorials` fills it) -/
def dfacTable (n : Nat) : Array α :=
  (List.range (n - 2)).foldl (fun (a : Array α) k => a.push (((k + 2 : Nat) : α) * a[k]!)) #[1, 1]

structure Table (α : Type) where
  lMax : Nat
  N : Nat
  scale : α
  K : Array (Array α)              -- K[i][l], i ≤ N, l ≤ lMax + TAYLOR_CUT
  dK : Array (Array (Array α))     -- dK[i][n][l], n ≤ TAYLOR_CUT

/-- the series loop of `tabulate`: `for (j = 1; j <= order; j++) { if (ratio < accuracy) break; F[j] = F[j-1]*z2/j;
ratio = F[j]/DFAC[2j+1]; K0 += ratio; }` with `fuel` iterations left.  Returns (F, K0, j). -/
def seriesLoop (dfac : Array α) (z2 accuracy : α) : Nat → Nat → Array α → α → α → Array α × α × Nat
  | 0, j, F, _, k0 => (F, k0, j)
  | fuel + 1, j, F, ratio, k0 =>
    if ratio < accuracy then (F, k0, j)
    else
      let Fj : α := F[j - 1]! * z2 / (j : α)
      let ratio' : α := Fj / dfac[2 * j + 1]!
      seriesLoop dfac z2 accuracy fuel (j + 1) (F.push Fj) ratio' (k0 + ratio')

/-- the inner sum of `tabulate` for order l over the j terms kept: `Σ_{m<j} F[m] / DFAC[2l+2m+1]`, from 0, in order -/
def seriesSum (dfac F : Array α) (j l : Nat) : α :=
  (List.range j).foldl (fun r m => r + F[m]! / dfac[2 * l + 2 * m + 1]!) (0 : α)

/-- `tabulate`: one grid point.  Returns K[i][0 .. lmax]: K0 from the running sum of the series loop, then
`zl * Σ_m F[m]/DFAC[2l+2m+1]` with `zl = z, z*z, (z*z)*z, …`. -/
def tabulateRow (dfac : Array α) (N order lmax : Nat) (accuracy : α) (i : Nat) : Array α :=
  let z : α := (i : α) / ((N : α) / (16 : Nat))
  let z2 : α := z * z / (2 : Nat)
  let F0 : α := Num.exp (-z)
  let ratio0 : α := F0 / dfac[0]!
  let (F, k0, j) := seriesLoop dfac z2 accuracy order 1 #[F0] ratio0 ratio0
  ((List.range lmax).foldl (fun (acc : Array α × α) i =>
      let l := i + 1
      (acc.1.push (acc.2 * seriesSum dfac F j l), acc.2 * z)) (#[k0], z)).1

/-- one row of the derivative tables from the previous one: entry 0 is `prev[1] − prev[0]`, entries
1 … top are `recStep`, the rest of the `width` entries stay 0 -/
def derivNext (width top : Nat) (prev : Array α) : Array α :=
  (Array.range width).map fun l =>
    if l = 0 then prev[1]! - prev[0]!
    else if l ≤ top then recStep l prev[l - 1]! prev[l + 1]! prev[l]!
    else 0

/-- derivative tables of one grid point: `dK[ix][n][l]` from `K[ix][l]` by
K_l^(n+1) = C_l K_{l-1}^(n) + (C_l + 1/(2l+1)) K_{l+1}^(n) − K_l^(n),  C_l = l/(2l+1);
row n ≥ 1 has its entries 0 … lMax+tc−n filled -/
def derivRows (lMax tc : Nat) (krow : Array α) : Array (Array α) :=
  (List.range tc).foldl (fun (d : Array (Array α)) i =>
    d.push (derivNext (lMax + tc + 1) (lMax + tc - (i + 1)) d[i]!)) #[krow]

def build (lMax N order : Nat) (accuracy : α) : Table α :=
  let tc := Gen.TAYLOR_CUT
  let lmax := lMax + tc
  let dfac : Array α := dfacTable Gen.MAX_DFAC
  let K := (Array.range (N + 1)).map fun i => tabulateRow dfac N order lmax accuracy i
  { lMax := lMax, N := N, scale := (N : α) / (16 : Nat), K := K, dK := K.map (derivRows lMax tc) }

/-- overwrite entries 0 … maxL of `init` with `val l` (in order), leave the rest as it was -/
def setRange (init : Array α) (maxL : Nat) (val : Nat → α) : Array α :=
  (List.range (maxL + 1)).foldl (fun v l => v.set! l (val l)) init

/-- `calculate(z, maxL, values)`: all orders 0..maxL; `init` is what `values` held before the call -/
def calcAll (T : Table α) (small : α) (z : α) (maxL : Nat) (init : Array α) : Array α :=
  let tc := Gen.TAYLOR_CUT
  match regime small z with
  | .nonpos => setRange init maxL fun l => if l = 0 then 1 else 0       -- K_0 = 1 and K_l = 0 for l > 0
  | .small => setRange init maxL fun l => if l = 0 then 1 - z else smallAll z l
  | .large =>
      let v0 : α := ((1 : α) / (2 : Nat)) / z
      setRange init maxL fun l => if l = 0 then v0 else largeAll v0 l
  | .table =>
      let ix := Num.floorNat (z * T.scale + (1 : α) / (2 : Nat))
      let dz := z - (ix : α) / T.scale
      if Num.abs dz < ((1 : α) / ((1000000000000 : Nat) : α)) then
        setRange init maxL fun l => (T.K[ix]!)[l]!
      else
        setRange init maxL fun l => taylorAll tc dz fun n => ((T.dK[ix]!)[n]!)[l]!

/-- `calculate(z, L)`: one order -/
def calcOne (T : Table α) (small : α) (z : α) (L : Nat) : α :=
  let tc := Gen.TAYLOR_CUT
  match regime small z with
  | .nonpos => if L = 0 then 1 else 0
  | .small => smallOne z L
  | .large => largeOne (((1 : α) / (2 : Nat)) / z) L
  | .table =>
      let ix := Num.floorNat (z * T.scale + (1 : α) / (2 : Nat))
      let dz := z - (ix : α) / T.scale
      taylorOne tc dz fun n => ((T.dK[ix]!)[n]!)[L]!

/-- `upper_bound(z, L)` -/
def upperBound (T : Table α) (z : α) (L : Nat) : α :=
  let ix := Num.floorNat ((T.N : α) * z / (16 : Nat))
  let minix := if L > 0 then 1 else 0
  let ix := min T.N (max minix ix)
  let lx := min L T.lMax
  (T.K[ix]!)[lx]!

end
end Ecpint.Bessel
