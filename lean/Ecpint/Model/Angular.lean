/-
Model of `AngularIntegral` (src/lib/angular.cpp) and `realSphericalHarmonics` (src/lib/mathutil.cpp), entry by
entry: every stored table entry is a pure function of its indices (with the sub-tables it reads passed as
functions, so the driver can memoise them).  Generic in the scalar; executed at Float by the driver.

  U(λ,μ,i,j,·)   Cartesian expansion coefficients of the real solid harmonics   (uklm / makeU)
  P(a,b,c)       ∫ x^{2a} y^{2b} z^{2c} over the unit sphere, a ≥ b ≥ c           (Pijk)
  W(k,l,m,λ,·)   type-1 angular integrals  ∫ x^k y^l z^m S_λμ                    (makeW)
  Ω(k,l,m,λ,·,ρ,·) type-2 angular integrals ∫ x^k y^l z^m S_λμ S_ρσ             (makeOmega)
-/
import Ecpint.Model.Scalar
import Ecpint.Gen.PowFns

namespace Ecpint.Angular
open Ecpint

section
variable {α : Type} [Flt α]

/-- `FAC[i]` as `initFactorials` fills it (doubles: FAC[i] = i · FAC[i-1]) -/
def facTable (n : Nat) : Array α := Id.run do
  let mut a : Array α := #[1]
  for i in [1:n] do
    a := a.push ((i : α) * a[i - 1]!)
  return a

/-- `calcG(l, m)` -/
def calcG (fac : Array α) (l m : Nat) : α :=
  let v1 : α := 1 / (Gen.fastPow l ((2 : Nat) : α) * fac[l]!)
  let v2 : α := Flt.sqrt ((((2 : Nat) : α) * (l : α) + 1) * fac[l - m]! / (((2 : Nat) : α) * Flt.pi * fac[l + m]!))
  v1 * v2

/-- `calcH1(i, j, l, m)` -/
def calcH1 (fac : Array α) (i j l m : Nat) : α :=
  let v := fac[l]! / (fac[j]! * fac[l - i]! * fac[i - j]!)
  v * ((((1 : Int) - 2 * ((i % 2 : Nat) : Int) : Int) : α) * fac[2 * (l - i)]! / fac[l - m - 2 * i]!)

/-- `calcH2(i, j, k, m)` -/
def calcH2 (fac : Array α) (i j k m : Nat) : α :=
  if m + 2 * i ≥ k ∧ k ≥ 2 * i then
    let ki2 := k - 2 * i
    let v := fac[j]! * fac[m]! / (fac[i]! * fac[j - i]! * fac[ki2]! * fac[m - ki2]!)
    let p := (m + 2 * i - k) / 2
    v * (1 - ((2 : Nat) : α) * ((p % 2 : Nat) : α))
  else 0

/-- `uklm(lam, mu)(k, l, c)`, c = 0 (cos-type, "u") or 1 (sin-type, "um") -/
def uklm (fac : Array α) (lam mu k l c : Nat) : α :=
  let or2 : α := 1 / Flt.sqrt ((2 : Nat) : α)
  if k + l ≥ mu ∧ (k + l - mu) % 2 = 0 then
    let j := (k + l - mu) / 2
    let g := calcG fac lam mu
    let u1 := (List.range ((lam - mu) / 2 + 1 - j)).foldl (fun s t => s + calcH1 fac (j + t) j lam mu) (0 : α)
    let u := g * u1
    let u2 := (List.range (j + 1)).foldl (fun s i => s + calcH2 fac i j k mu) (0 : α)
    let u := u * u2
    let um := u
    let jj := l % 2
    let u := u * (((1 - jj : Nat) : Nat) : α)
    let um := um * ((jj : Nat) : α)
    if mu = 0 then
      let u := u * or2
      u          -- `um = u`
    else if c = 0 then u else um
  else 0

/-- `Pijk(maxI)(i, j, k)` for i ≥ j ≥ k: the recursion as the code runs it, `pi4` = 4π -/
def pijkWith {β : Type} [Add β] [Sub β] [Mul β] [Div β] [One β] [NatCast β] (pi4 : β) (i j k : Nat) : β :=
  let v0 : β := if i = 0 then pi4 else pi4 / (((2 * i + 1 : Nat) : Nat) : β)
  let v1 := (List.range j).foldl (fun (v : β) (t : Nat) =>
      let jj : Nat := t + 1
      let ij : Nat := i + jj
      v * (((2 : Nat) : β) * (jj : β) - 1) / (((2 : Nat) : β) * (ij : β) + 1)) v0
  (List.range k).foldl (fun (v : β) (t : Nat) =>
      let kk : Nat := t + 1
      let ijk : Nat := i + j + kk
      v * (((2 : Nat) : β) * (kk : β) - 1) / (((2 : Nat) : β) * (ijk : β) + 1)) v1

def pijk (i j k : Nat) : α := pijkWith (((4 : Nat) : α) * Flt.pi) i j k

/-- sort three naturals ascending (std::sort of `ix`) -/
def sort3 (a b c : Nat) : Nat × Nat × Nat :=
  let (a, b) := if a ≤ b then (a, b) else (b, a)
  let (b, c) := if b ≤ c then (b, c) else (c, b)
  let (a, b) := if a ≤ b then (a, b) else (b, a)
  (a, b, c)

/-- is the W entry (k,l,m,λ, index `idx` = λ + s·μ) one the loops of `makeW` write?  Returns μ if so. -/
def wWritten (maxLam k l m lam idx : Nat) : Option Nat :=
  let plam := (k + l + m) % 2
  let limit := min maxLam (k + l + m)
  if lam % 2 = plam ∧ lam ≤ limit then
    let neg := l % 2 = 1           -- smu = 1 − 2(l%2)
    let pmu := (k + l) % 2
    -- idx = lam + mu (smu = +1) or lam − mu (smu = −1)
    if ¬ neg ∧ idx ≥ lam ∧ idx - lam ≤ lam ∧ (idx - lam) % 2 = pmu then some (idx - lam)
    else if neg ∧ idx ≤ lam ∧ (lam - idx) % 2 = pmu then some (lam - idx)
    else none
  else none

/-- `W(k, l, m, lam, idx)` as `makeW` leaves it (`U` and `P` are the sub-tables) -/
def wEntry (U : Nat → Nat → Nat → Nat → Nat → α) (P : Nat → Nat → Nat → α)
    (maxLam k l m lam idx : Nat) : α :=
  match wWritten maxLam k l m lam idx with
  | none => 0
  | some mu =>
    let c := l % 2                -- (1 − smu)/2
    (List.range (lam + 1)).foldl (fun w i =>
      (List.range (lam - i + 1)).foldl (fun w j =>
        let a := k + i
        let b := l + j
        let d := m + lam - i - j
        if a % 2 + b % 2 + d % 2 = 0 then
          let s := sort3 a b d
          w + U lam mu i j c * P (s.2.2 / 2) (s.2.1 / 2) (s.1 / 2)
        else w) w) (0 : α)

/-- `om_plus` / `om_minus` of one iteration (ρ, σ, λ, μ ≥ 0) of `makeOmega`; `Wf k l m lam idx` reads the W table;
`sig` is σ + ρ -/
def omegaIter (U : Nat → Nat → Nat → Nat → Nat → α) (Wf : Nat → Nat → Nat → Nat → Nat → α)
    (k l m rho sig lam mu : Nat) (minus : Bool) : α :=
  let c := if minus ∧ mu ≠ 0 then 1 else 0     -- `if (mu == 0) om_minus = om_plus`
  (List.range (lam + 1)).foldl (fun s i =>
    (List.range (lam - i + 1)).foldl (fun s j =>
      s + U lam mu i j c * Wf (k + i) (l + j) (m + lam - i - j) rho sig) s) (0 : α)

/-- `omega(k, l, m, a, ia, b, ib)` (ia = a + σ_a, ib = b + σ_b) as `makeOmega` leaves it: the value written by the
LAST loop iteration that stores into this entry (the four symmetric stores overlap when a = b). -/
def omegaEntry (U : Nat → Nat → Nat → Nat → Nat → α) (Wf : Nat → Nat → Nat → Nat → Nat → α)
    (k l m a ia b ib : Nat) : α :=
  -- |σ| and sign of the two harmonics
  let absA := if ia ≥ a then ia - a else a - ia
  let absB := if ib ≥ b then ib - b else b - ib
  let negA := ia < a
  let negB := ib < b
  -- iteration I1: rho = a, sigma = σ_a, lam = b, mu = |σ_b|   (stores 1 / 3)
  let i1 := omegaIter U Wf k l m a ia b absB negB
  -- iteration I2: rho = b, sigma = σ_b, lam = a, mu = |σ_a|   (stores 2 / 4)
  let i2 := omegaIter U Wf k l m b ib a absA negA
  if a > b then i1
  else if a < b then i2
  else
    -- a = b: both iterations exist; the one with the larger σ runs later
    if ib > ia then i2 else i1

/-- `realSphericalHarmonics(lmax, x, phi)(l, l+m)` -/
def rsh (fac dfac : Array α) (lmax : Nat) (x phi : α) : Array (Array α) := Id.run do
  let mut out : Array (Array α) := Array.replicate (lmax + 1) (Array.replicate (2 * lmax + 1) 0)
  if lmax > 0 then
    let x2 := x * x
    let mut P : Array (Array α) := Array.replicate (lmax + 1) (Array.replicate (lmax + 1) 0)
    P := P.set! 0 ((P[0]!).set! 0 1)
    let t : α := 1 - x2
    let sox2 := Flt.sqrt (if (0 : α) < t then t else 0)       -- sqrt(max(0, 1 − x²))
    let mut ox2m : α := 1
    for m in [1:lmax + 1] do
      ox2m := ox2m * (-sox2)
      P := P.set! m ((P[m]!).set! m (ox2m * dfac[2 * m - 1]!))
    P := P.set! 1 ((P[1]!).set! 0 x)
    P := P.set! 0 ((P[0]!).set! 1 0)
    for l in [2:lmax + 1] do
      let o : α := x * (((2 * l - 1 : Nat) : Nat) : α)
      for m in [0:l] do
        let v := o * (P[l - 1]!)[m]! - (((l + m - 1 : Nat) : Nat) : α) * (P[l - 2]!)[m]!
        P := P.set! l ((P[l]!).set! m (v / (((l - m : Nat) : Nat) : α)))
      P := P.set! (l - 1) ((P[l - 1]!).set! l 0)
    let osq4pi : α := 1 / Flt.sqrt (((4 : Nat) : α) * Flt.pi)
    for l in [0:lmax + 1] do
      let mut row := out[l]!
      row := row.set! l (osq4pi * Flt.sqrt (((2 : Nat) : α) * (l : α) + 1) * (P[l]!)[0]!)
      let mut sign : Int := -1
      for m in [1:l + 1] do
        let o : α := (((2 : Nat) : α) * (l : α) + 1) * fac[l - m]! / fac[l + m]!
        let o : α := ((sign : Int) : α) * osq4pi * Flt.sqrt (((2 : Nat) : α) * o) * (P[l]!)[m]!
        row := row.set! (l + m) (o * Flt.cos ((m : α) * phi))
        row := row.set! (l - m) (o * Flt.sin ((m : α) * phi))
        sign := -sign
      out := out.set! l row
    return out
  else
    return out.set! 0 ((out[0]!).set! 0 (1 / Flt.sqrt (((4 : Nat) : α) * Flt.pi)))

end
end Ecpint.Angular
