/-
The index structure and the three angular contractions of the shell-pair routine, generic in the scalar:
only `+`, `*` and `0` of the scalar are used, so the same definitions run at `Float` inside the pipeline model
(Model/ShellPair.lean, bit for bit with qgen.cpp / ecpint.cpp) and are reasoned about over any commutative
(semi)ring in Props/C07.lean, Props/C09.lean.  The data-dependent shortcut `|C| > 1e-15` is the parameter `keep`.
-/
namespace Ecpint.Contraction

def ncart (L : Nat) : Nat := (L + 1) * (L + 2) / 2

/-- Cartesian components in loop order -/
def cartList (L : Nat) : List (Nat × Nat × Nat) :=
  (List.range (L + 1)).flatMap fun i =>
    let x := L - i
    (List.range (L - x + 1)).map fun j =>
      let y := (L - x) - j
      (x, y, L - x - y)

/-- index tuples (ax, ay, az) with ax ≤ x, ay ≤ y, az ≤ z in the order of the three nested loops -/
def subIdx (c : Nat × Nat × Nat) : List (Nat × Nat × Nat) :=
  (List.range (c.1 + 1)).flatMap fun ax =>
    (List.range (c.2.1 + 1)).flatMap fun ay =>
      (List.range (c.2.2 + 1)).map fun az => (ax, ay, az)

def tsum (c : Nat × Nat × Nat) : Nat := c.1 + c.2.1 + c.2.2

/-- the values `p%2, p%2 + 2, … ≤ n` of a loop `for (l = p % 2; l <= n; l += 2)` -/
def parityRange (n p : Nat) : List Nat := (List.range (n + 1)).filter fun l => l % 2 = p % 2

/-- `calcC(a, m, A)` = (−1)^(a−m) · A^(a−m) · a! / (m! (a−m)!), with the factorial table and the power routine as parameters -/
def calcC {β : Type} [Mul β] [Div β] [IntCast β] [Zero β] (fac : Array β) (pw : β → Nat → β) (a m : Nat) (A : β) : β :=
  let v : β := (((1 : Int) - 2 * (((a - m) % 2 : Nat) : Int) : Int) : β)
  let v := v * pw A (a - m)
  v * (fac.getD a 0 / (fac.getD m 0 * fac.getD (a - m) 0))

section
variable {β : Type} [Add β] [Mul β] [Zero β]

/-- `S(i, j)` of a two-index table, 0 outside -/
def get2 (S : Array (Array β)) (i j : Nat) : β := (S.getD i #[]).getD j 0

/-- `w1_contr` / `w2_contr` of `rolled_up`: (lam1, mu) ↦ Σ_{mu1} S(lam1, lam1+mu1) · omega(a; lam, lam+mu; lam1, lam1+mu1) -/
def wContr (omega : Nat → Nat → Nat → Nat → Nat → Nat → Nat → β) (lam : Nat) (S : Array (Array β))
    (a : Nat × Nat × Nat) (lam1 mi : Nat) : β :=
  (List.range (2 * lam1 + 1)).foldl (fun s m1 => s + get2 S lam1 m1 * omega a.1 a.2.1 a.2.2 lam mi lam1 m1) (0 : β)

/-- one (na, nb) block of `qgen::rolled_up`: values(na, nb, lam+mu) for all mu.  `CAna`, `CBnb` are the binomial
coefficient tables of the two Cartesian components `ca`, `cb`; `keep C` is the test `|C| > 1e-15` -/
def rolledUpBlock (omega : Nat → Nat → Nat → Nat → Nat → Nat → Nat → β) (keep : β → Bool) (prefac : β) (lam : Nat)
    (radials : Nat → Nat → Nat → β) (CAna CBnb : Nat → Nat → Nat → β) (SA SB : Array (Array β))
    (ca cb : Nat × Nat × Nat) : Array β :=
  let nmu := 2 * lam + 1
  (subIdx ca).foldl (fun acc a =>
    (subIdx cb).foldl (fun acc b =>
      let alpha := tsum a
      let beta := tsum b
      let N := alpha + beta
      let C := CAna a.1 a.2.1 a.2.2 * CBnb b.1 b.2.1 b.2.2
      if keep C then
        let w1 := (Array.range (lam + alpha + 1)).map fun lam1 => (Array.range nmu).map fun mi => wContr omega lam SA a lam1 mi
        let w2 := (Array.range (lam + beta + 1)).map fun lam2 => (Array.range nmu).map fun mi => wContr omega lam SB b lam2 mi
        (List.range (lam + alpha + 1)).foldl (fun acc lam1 =>
          (parityRange (lam + beta) (lam1 + N)).foldl (fun acc lam2 =>
            let val := prefac * C * radials N lam1 lam2
            acc.mapIdx fun mi v => v + val * get2 w1 lam1 mi * get2 w2 lam2 mi) acc) acc
      else acc) acc) (Array.replicate nmu 0)

/-- one (na, nb) block of `qgen::rolled_up_special` (shell A on the ECP centre) -/
def rolledUpSpecialBlock (omega : Nat → Nat → Nat → Nat → Nat → Nat → Nat → β) (keep : β → Bool) (prefac : β) (lam : Nat)
    (radials : Nat → Nat → Nat → β) (CBnb : Nat → Nat → Nat → β) (SB : Array (Array β))
    (ca cb : Nat × Nat × Nat) : Array β :=
  let nmu := 2 * lam + 1
  let alpha := tsum ca
  (subIdx cb).foldl (fun acc b =>
    let beta := tsum b
    let N := alpha + beta
    let C := CBnb b.1 b.2.1 b.2.2
    if keep C then
      (parityRange (lam + beta) N).foldl (fun acc lam2 =>
        let val1 := prefac * C * radials N 0 lam2
        (List.range (2 * lam2 + 1)).foldl (fun acc m2 =>
          let val2 := val1 * get2 SB lam2 m2
          acc.mapIdx fun mi v => v + val2 * omega ca.1 ca.2.1 ca.2.2 lam mi 0 0 * omega b.1 b.2.1 b.2.2 lam mi lam2 m2) acc) acc
    else acc) (Array.replicate nmu 0)

/-- one element of `ECPIntegral::type1` before the final 4π: the sum over the binomial shifts (k1,k2,l1,l2,m1,m2 in
loop order) and the parity-allowed (lam, mu) of C · W(k,l,m,lam,·) · radials(k+l+m, lam, ·); `keep C` is `|C| > 1e-14` -/
def type1Entry (W : Nat → Nat → Nat → Nat → Nat → β) (keep : β → Bool) (radials : Nat → Nat → Nat → β)
    (CAna CBnb : Nat → Nat → Nat → β) (ca cb : Nat × Nat × Nat) : β :=
  (List.range (ca.1 + 1)).foldl (fun v k1 => (List.range (cb.1 + 1)).foldl (fun v k2 =>
    (List.range (ca.2.1 + 1)).foldl (fun v l1 => (List.range (cb.2.1 + 1)).foldl (fun v l2 =>
      (List.range (ca.2.2 + 1)).foldl (fun v m1 => (List.range (cb.2.2 + 1)).foldl (fun v m2 =>
        let k := k1 + k2
        let l := l1 + l2
        let m := m1 + m2
        let C := CAna k1 l1 m1 * CBnb k2 l2 m2
        if keep C then
          let ix := k + l + m
          (parityRange ix ix).foldl (fun v lam =>
            (parityRange lam (ix + m)).foldl (fun v mu =>
              let idx := if l % 2 = 1 then lam - mu else lam + mu        -- msign = 1 − 2(l%2)
              v + C * W k l m lam idx * radials ix lam idx) v) v
        else v) v) v) v) v) v) (0 : β)

/-- one line of an unrolled generated class:
`values(na, nb, mu) += coef * CA(0, na, ca) * CB(0, nb, cb) * radials(rad) * SA(sa) * SB(sb);` -/
structure UTerm (β : Type) where
  na : Nat
  nb : Nat
  mu : Nat
  coef : β
  ca : Nat × Nat × Nat
  cb : Nat × Nat × Nat
  rad : Nat × Nat × Nat
  sa : Nat × Nat
  sb : Nat × Nat

def UTerm.value (t : UTerm β) (CA CB : Nat → Nat → Nat → Nat → β) (radials : Nat → Nat → Nat → β) (SA SB : Array (Array β)) : β :=
  t.coef * CA t.na t.ca.1 t.ca.2.1 t.ca.2.2 * CB t.nb t.cb.1 t.cb.2.1 t.cb.2.2
    * radials t.rad.1 t.rad.2.1 t.rad.2.2 * get2 SA t.sa.1 t.sa.2 * get2 SB t.sb.1 t.sb.2

/-- the body of an unrolled generated class: the lines executed in order on a zeroed `values(nA, nB, nmu)` -/
def evalTerms (nA nB nmu : Nat) (ts : Array (UTerm β)) (CA CB : Nat → Nat → Nat → Nat → β)
    (radials : Nat → Nat → Nat → β) (SA SB : Array (Array β)) : Array β :=
  ts.foldl (fun out t =>
    let i := (t.na * nB + t.nb) * nmu + t.mu
    out.setIfInBounds i (out.getD i 0 + t.value CA CB radials SA SB)) (Array.replicate (nA * nB * nmu) 0)

/-- the generator's expansion of one class (src/generate.cpp, `generate_lists` with unrolling): one term for every
Cartesian pair (na, nb), binomial shift (a, b), parity-allowed (lam1, lam2) that passes the generator's test
`kept a b lam1 lam2` (its `fabs(ang) > 1e-15`), and every (mu, mu1, mu2), in the generator's loop order; the coefficient
is `prefac · omega(a; lam, mu; lam1, mu1) · omega(b; lam, mu; lam2, mu2)` -/
def unroll (omega : Nat → Nat → Nat → Nat → Nat → Nat → Nat → β) (prefac : β)
    (kept : Nat × Nat × Nat → Nat × Nat × Nat → Nat → Nat → Bool) (lam LA LB : Nat) : List (UTerm β) :=
  (cartList LA).zipIdx.flatMap fun (ca, na) =>
    (cartList LB).zipIdx.flatMap fun (cb, nb) =>
      (subIdx ca).flatMap fun a =>
        (subIdx cb).flatMap fun b =>
          let N := tsum a + tsum b
          (List.range (lam + tsum a + 1)).flatMap fun lam1 =>
            (parityRange (lam + tsum b) (lam1 + N)).flatMap fun lam2 =>
              if kept a b lam1 lam2 then
                (List.range (2 * lam + 1)).flatMap fun mi =>
                  (List.range (2 * lam1 + 1)).flatMap fun m1 =>
                    (List.range (2 * lam2 + 1)).map fun m2 =>
                      ({ na := na, nb := nb, mu := mi,
                         coef := prefac * omega a.1 a.2.1 a.2.2 lam mi lam1 m1 * omega b.1 b.2.1 b.2.2 lam mi lam2 m2,
                         ca := a, cb := b, rad := (N, lam1, lam2), sa := (lam1, m1), sb := (lam2, m2) } : UTerm β)
              else []

end
end Ecpint.Contraction
