/-
Model of the shipped-ECP pipeline for C16:
  * the MOLPRO-format block interpreter (what share/libecpint/parseecp.py does with a raw file),
  * the XML form and the loader `ECPBasis::addECP_from_file` → `ECP::addPrimitive` / `sort`,
  * the ECP container bookkeeping (N, L, l_starts) and the evaluator `ECP::evaluate`.
Numbers are exact decimals (`Dec`): nothing is rounded in the model.
-/
namespace Ecpint.EcpLoad

/-- mantissa · 10^(−scale), normalised by the translator (no trailing zeros) -/
structure Dec where
  mant : Int
  scale : Nat
deriving DecidableEq, Repr, Inhabited

/-- a primitive as written in a file: power n of r (MOLPRO convention), exponent, coefficient -/
structure Prim where
  n : Int
  x : Dec
  c : Dec
deriving DecidableEq, Repr

inductive RawRec
  | hdr (name : String) (ncore maxl nso : Nat)     -- `ECP,name,ncore,maxl,nso;`
  | blk (declared : Nat) (prims : List Prim)       -- `k; n,x,c; n,x,c; …`
deriving DecidableEq, Repr

structure XmlShell where
  lval : Nat
  nexp : Nat
  prims : List Prim
deriving DecidableEq, Repr

structure XmlAtom where
  name : String
  ncore : Nat
  maxl : Nat
  shells : List XmlShell
deriving DecidableEq, Repr

/-! ### raw → XML (the MOLPRO block convention) -/

structure Acc where
  done : List XmlAtom          -- finished atoms, in order
  cur : Option XmlAtom         -- atom being read
  taken : Nat                  -- blocks already assigned to it

/-- angular momentum of the i-th block after a header: the first is the local part (l = maxl),
then l = 0, 1, …, maxl−1 -/
def blockL (maxl i : Nat) : Nat := if i = 0 then maxl else i - 1

def flush (a : Acc) : List XmlAtom :=
  match a.cur with
  | some at' => a.done ++ [at']
  | none => a.done

def stepRec (a : Acc) : RawRec → Acc
  | .hdr name ncore maxl _ =>
      { done := flush a, cur := some { name := name, ncore := ncore, maxl := maxl, shells := [] }, taken := 0 }
  | .blk declared prims =>
      match a.cur with
      | none => a
      | some at' =>
        if a.taken < at'.maxl + 1 then
          { a with cur := some { at' with shells := at'.shells ++
                                  [{ lval := blockL at'.maxl a.taken, nexp := declared, prims := prims }] },
                   taken := a.taken + 1 }
        else a    -- spin-orbit blocks: not part of the scalar ECP

/-- all atoms a raw file defines, in file order -/
def interpret (recs : List RawRec) : List XmlAtom :=
  flush (recs.foldl stepRec { done := [], cur := none, taken := 0 })

/-! ### the ECP container -/

/-- a stored primitive: power already reduced by two -/
structure Gauss where
  n : Int
  l : Nat
  a : Dec
  d : Dec
deriving DecidableEq, Repr

structure ECPState where
  gaussians : List Gauss
  N : Nat
  L : Int                    -- −1 for an empty ECP
  lStarts : List Nat         -- MAX_L + 2 entries
deriving DecidableEq, Repr

def ECPState.empty (maxL : Nat) : ECPState :=
  { gaussians := [], N := 0, L := -1, lStarts := List.replicate (maxL + 2) 0 }

/-- `for (lx = l+1; lx < MAX_L+2; lx++) l_starts[lx] += 1` -/
def bump (l : Nat) (ls : List Nat) : List Nat :=
  ls.mapIdx fun i v => if l < i then v + 1 else v

/-- insertion by angular momentum (a stable stand-in for `std::sort` with the comparator `g1.l < g2.l`) -/
def insertByL (g : Gauss) : List Gauss → List Gauss
  | [] => [g]
  | h :: t => if g.l < h.l then g :: h :: t else h :: insertByL g t

def sortByL (gs : List Gauss) : List Gauss := gs.foldl (fun acc g => insertByL g acc) []

/-- `ECP::addPrimitive(n, l, a, d, needSort)`; the constructor of GaussianECP stores n − 2 -/
def addPrimitive (s : ECPState) (n : Int) (l : Nat) (a d : Dec) (needSort : Bool := true) : ECPState :=
  let gs := s.gaussians ++ [{ n := n - 2, l := l, a := a, d := d }]
  { gaussians := if needSort then sortByL gs else gs
    N := s.N + 1
    L := if (l : Int) > s.L then l else s.L
    lStarts := bump l s.lStarts }

def sort (s : ECPState) : ECPState := { s with gaussians := sortByL s.gaussians }

/-- `ECPBasis::addECP_from_file` for one atom definition: every `nxc` of every `Shell`, then sort -/
def loadAtom (maxL : Nat) (at' : XmlAtom) : ECPState :=
  sort (at'.shells.foldl (fun s sh =>
    sh.prims.foldl (fun s p => addPrimitive s p.n sh.lval p.x p.c) s) (ECPState.empty maxL))

/-! ### the evaluator -/

/-- index into `FAST_POW`: `n > -1 ? n : MAX_POW - n` -/
def powIndex (maxPow : Nat) (n : Int) : Nat := if n > -1 then n.toNat else maxPow + (-n).toNat

section
variable {α : Type} [Add α] [Mul α] [Neg α] [Zero α]

/-- `ECP::evaluate(r, l)`: the loop over `[l_starts[l], l_starts[l+1])`; `pw i z` is `FAST_POW[i](z)`,
`ex` the exponential, `val` the conversion of an exact decimal -/
def evaluate (pw : Nat → α → α) (ex : α → α) (val : Dec → α) (maxPow : Nat)
    (s : ECPState) (r : α) (l : Nat) : α :=
  let lo := s.lStarts.getD l 0
  let hi := s.lStarts.getD (l + 1) 0
  let r2 := r * r
  ((s.gaussians.drop lo).take (hi - lo)).foldl
    (fun acc g => acc + pw (powIndex maxPow g.n) r * val g.d * ex (-(val g.a) * r2)) 0

end
end Ecpint.EcpLoad
