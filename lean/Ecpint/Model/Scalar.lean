/-
One scalar interface for the numerical pipeline (Bessel, quadrature, radial, angular, assembly):
executed at `Float` by the driver.  `erf` and `dawson` are not in Lean's core `Float`; where the C++ calls
them the harness supplies their values as inputs (external functions, trusted).
-/
import Ecpint.Model.Bessel
import Ecpint.Model.Quad

namespace Ecpint

class Flt (α : Type) extends Add α, Sub α, Mul α, Div α, Neg α, Zero α, One α, NatCast α, IntCast α, LT α, LE α where
  exp : α → α
  log : α → α
  sqrt : α → α
  sin : α → α
  cos : α → α
  atan2 : α → α → α
  abs : α → α
  pi : α
  floorNat : α → Nat
  /-- a decimal literal `num/den` as written in the source, correctly rounded -/
  ofRat : Int → Nat → α
  decLt : (a b : α) → Decidable (a < b)
  decLe : (a b : α) → Decidable (a ≤ b)

instance {α} [Flt α] (a b : α) : Decidable (a < b) := Flt.decLt a b
instance {α} [Flt α] (a b : α) : Decidable (a ≤ b) := Flt.decLe a b

instance {α} [Flt α] : Bessel.Num α :=
  { exp := Flt.exp, floorNat := Flt.floorNat, abs := Flt.abs, decLt := Flt.decLt }

instance {α} [Flt α] : Quad.Num α :=
  { sin := Flt.sin, cos := Flt.cos, log := Flt.log, sqrt := Flt.sqrt, abs := Flt.abs, pi := Flt.pi,
    floorNat := Flt.floorNat, decLt := Flt.decLt, decLe := Flt.decLe }

end Ecpint
