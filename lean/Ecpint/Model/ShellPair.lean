/-
Model of the shell-pair ECP integral: `ECPIntegral::compute_shell_pair` with everything below it
(src/lib/ecpint.cpp, radial_quad.cpp, qgen.cpp and the generated classes) on top of the Bessel, quadrature,
radial and angular models.  Generic in the scalar; executed at Float by the driver, where it reproduces the
library's block bit for bit.

`Switches` turns individual numerical decisions off.  With all switches at their defaults the model IS the code;
the other settings are counterfactuals used only to attribute a deviation from the exact integral to a recorded
finding (tail cut, closed forms, screens, type-1 prescreen).
-/
import Ecpint.Model.RadialGen
import Ecpint.Model.Angular
import Ecpint.Model.EcpLoad
import Ecpint.Gen.QClasses
import Ecpint.Model.Contraction
import Std.Data.HashMap

namespace Ecpint.ShellPair
open Ecpint Ecpint.Contraction

structure Switches where
  tailCut : Bool := true          -- early tail cut of the primitive quadrature
  closedForms : Bool := true      -- closed-form radial cases (off: always quadrature)
  radialScreen : Bool := true     -- skip a primitive when estimate_type2 ≤ tolerance
  pairScreen : Bool := true       -- per-l screen of compute_shell_pair
  prescreen : Bool := true        -- type-1 integrand prescreen (first/last significant grid point)
  finest : Bool := false          -- primitive radial quadrature (integrate_small) never accepts a level early
deriving Repr, DecidableEq

structure GaussECP (α : Type) where
  n : Int        -- power of r as stored (already reduced by 2)
  l : Nat
  a : α
  d : α

instance {α} [Zero α] : Inhabited (GaussECP α) := ⟨⟨0, 0, 0, 0⟩⟩

structure Ecp (α : Type) where
  gs : Array (GaussECP α)      -- sorted by l
  L : Nat
  lStarts : Array Nat          -- MAX_L + 2 entries
  minExpL : Array α
  center : α × α × α

structure Shell (α : Type) where
  exps : Array α
  coeffs : Array α
  l : Nat
  minExp : α
  center : α × α × α

structure Engine (α : Type) where
  maxLB : Nat                  -- basis angular momentum + derivative order the engine was built for
  maxLU : Nat
  prim : Quad.Grid α
  small : Quad.Grid α          -- two-point grid on [0, ∞)
  big : Quad.Grid α
  bessel : Bessel.Table α
  W : Nat → Nat → Nat → Nat → Nat → α                     -- W(k,l,m,lam,idx)
  omega : Nat → Nat → Nat → Nat → Nat → Nat → Nat → α     -- omega(k,l,m,a,ia,b,ib)
  fac : Array α
  dfac : Array α
  smallZ : α                   -- SMALL of the Bessel evaluator
  tol : α                      -- RadialIntegral::tolerance
  pairTol : α                  -- ECPIntegral::tolerance
  minExp : α
  rootPi : α
  gamma : Array α              -- GAMMA table
  /-- external functions (values come from outside the model) -/
  dawson : α → α
  erf : α → α

section
variable {α : Type} [Flt α]

/-- `ECP::evaluate(r, l)` -/
def ecpEval (U : Ecp α) (maxPow : Nat) (r : α) (l : Nat) : α :=
  let r2 := r * r
  (List.range (U.lStarts[l + 1]! - U.lStarts[l]!)).foldl (fun v t =>
    let g := U.gs[U.lStarts[l]! + t]!
    let p := EcpLoad.powIndex maxPow g.n
    v + Gen.fastPow p r * g.d * Flt.exp (-g.a * r2)) 0

def noType1 (U : Ecp α) : Bool :=
  !(U.gs.any fun g => g.l == U.L && Flt.ofRat 1 1000000000000 < Flt.abs g.d)

/-- `calcC(a, m, A)` -/
def calcC (E : Engine α) (pw : α → Nat → α) (a m : Nat) (A : α) : α := Contraction.calcC E.fac pw a m A

/-- `makeC(C, L, A)`: C(0, na, k, l, m) as a function -/
def makeCTab (E : Engine α) (pw : α → Nat → α) (L : Nat) (A : α × α × α) : Array α :=
  let comps := (cartList L).toArray
  let d := L + 1
  (Array.range (comps.size * d * d * d)).map fun idx =>
    let m := idx % d
    let l := (idx / d) % d
    let k := (idx / (d * d)) % d
    let na := idx / (d * d * d)
    let (x, y, z) := comps[na]!
    if k ≤ x ∧ l ≤ y ∧ m ≤ z then calcC E pw x k A.1 * calcC E pw y l A.2.1 * calcC E pw z m A.2.2 else 0

/-- accessor C(0, na, k, l, m) of a table built by `makeCTab` for angular momentum L -/
def cAt (tab : Array α) (L : Nat) (na k l m : Nat) : α :=
  let d := L + 1
  tab[((na * d + k) * d + l) * d + m]!

structure PairData (α : Type) where
  LA : Nat
  LB : Nat
  A : α × α × α
  B : α × α × α
  A2 : α
  Am : α
  B2 : α
  Bm : α
  RAB2 : α
  aOn : Bool
  bOn : Bool

def norm2 (v : α × α × α) : α := v.1 * v.1 + v.2.1 * v.2.1 + v.2.2 * v.2.2

def mkData (U : Ecp α) (sA sB : Shell α) (shiftA shiftB : Int) : PairData α :=
  let A := (sA.center.1 - U.center.1, sA.center.2.1 - U.center.2.1, sA.center.2.2 - U.center.2.2)
  let B := (sB.center.1 - U.center.1, sB.center.2.1 - U.center.2.1, sB.center.2.2 - U.center.2.2)
  let A2 := norm2 A
  let B2 := norm2 B
  let Am := Flt.sqrt A2
  let Bm := Flt.sqrt B2
  let R := (A.1 - B.1, A.2.1 - B.2.1, A.2.2 - B.2.2)
  { LA := ((sA.l : Int) + shiftA).toNat, LB := ((sB.l : Int) + shiftB).toNat, A := A, B := B, A2 := A2, Am := Am, B2 := B2, Bm := Bm,
    RAB2 := norm2 R, aOn := Am < Flt.ofRat 1 1000000, bOn := Bm < Flt.ofRat 1 1000000 }

/-- `buildParameters`: p, P, P2, K per primitive pair -/
structure Params (α : Type) where
  p : Nat → Nat → α
  P : Nat → Nat → α
  P2 : Nat → Nat → α
  K : Nat → Nat → α

def buildParameters (sA sB : Shell α) (d : PairData α) : Params α :=
  let pf := fun a b => sA.exps[a]! + sB.exps[b]!
  let Pv := fun (a b : Nat) (get : α × α × α → α) => (sA.exps[a]! * get d.A + sB.exps[b]! * get d.B) / pf a b
  let P2f := fun a b =>
    let x := Pv a b (·.1); let y := Pv a b (·.2.1); let z := Pv a b (·.2.2)
    x * x + y * y + z * z
  { p := pf, P := fun a b => Flt.sqrt (P2f a b), P2 := P2f,
    K := fun a b =>
      let za := sA.exps[a]!; let zb := sB.exps[b]!
      let mu := za * zb / (za + zb)
      1 * 1 * Flt.exp (-mu * d.RAB2) }

/-- `buildBessel(r, nr, maxL, values, weight)`: values(l, i) -/
def besselAt (E : Engine α) (maxL : Nat) (weight r : α) : Array α :=
  if Flt.abs weight < Flt.ofRat 1 1000000000000000 then
    (Array.range (maxL + 1)).map fun l => if l = 0 then 1 else 0
  else
    Bessel.calcAll E.bessel E.smallZ (weight * r) maxL (Array.replicate (maxL + 1) 0)

/-- `RadialIntegral::integrate(maxL, gridSize, intValues, grid, values, start, end, offset, skip)`:
returns values[l] for l = offset, offset+skip, … (others 0) and the last convergence flag -/
def radIntegrate (E : Engine α) (sw : Switches) (maxL : Nat) (g : Quad.Grid α) (vals : Nat → Nat → α)
    (start stop offset skip : Nat) : Array α × Bool := Id.run do
  let mut out : Array α := Array.replicate (maxL + 1) 0
  let mut ok := true
  let mut l := offset
  let mut go := true
  let tol : α := E.tol
  while go && l ≤ maxL do
    let r := Quad.integrate g (fun ix => if ix < start ∨ ix > stop then 0 else vals l ix) tol start stop
    out := out.set! l r.1
    ok := r.2
    if !r.2 then go := false
    l := l + skip
  return (out, ok)

/-- radial `type1(maxL, N, offset, …)`: values(l, l+mu) -/
def radType1 (E : Engine α) (sw : Switches) (pwf : Nat → α → α) (maxPow : Nat) (maxL N offset : Nat)
    (U : Ecp α) (sA sB : Shell α) (d : PairData α) (par : Params α) : Array (Array α) :=
  let size := E.big.maxN
  Id.run do
    let mut values : Array (Array α) := Array.replicate (maxL + 1) (Array.replicate (2 * maxL + 1) 0)
    for a in [0:sA.exps.size] do
      for b in [0:sB.exps.size] do
        let da := sA.coeffs[a]!; let za := sA.exps[a]!
        let db := sB.coeffs[b]!; let zb := sB.exps[b]!
        let g := Quad.transformRMinMax E.big (par.p a b) ((za * d.Am + zb * d.Bm) / par.p a b)
        let utab := g.x.map fun r => pwf (N + 2) r * ecpEval U maxPow r U.L
        let bes := g.x.map fun r => besselAt E maxL (((2 : Nat) : α) * par.p a b * par.P a b) r
        -- intValues(l, i) = Utab[i] * besselValues(l, i); prescreen
        let iv0 := fun (l i : Nat) => utab[i]! * (bes[i]!)[l]!
        let expv := g.x.map fun r =>
          Flt.exp (-(par.p a b) * (r * (r - ((2 : Nat) : α) * par.P a b) + par.P2 a b))
        let iv := fun (l i : Nat) => iv0 l i * expv[i]!
        -- prescreen: integrate between the first and the last grid point where any integrand is non-negligible relative
        -- to the largest value on the grid
        let vmax : α := Id.run do
          let mut m : α := 0
          for i in [0:size] do
            let mut l := offset
            while l ≤ maxL do
              let v := Flt.abs (iv l i)
              if m < v then m := v
              l := l + 2
          return m
        let (start, stop) : Nat × Nat := Id.run do
          let mut first : Option Nat := none
          let mut last := 0
          if sw.prescreen then
            for i in [0:size] do
              let mut significant := false
              let mut l := offset
              while l ≤ maxL do
                significant := significant || decide (E.tol * vmax ≤ Flt.abs (iv l i))
                l := l + 2
              if significant then
                if first.isNone then first := some i
                last := i
          match first with
          | some f => return (f, last)
          | none => return (0, size - 1)
        let (temp, _) := radIntegrate E sw maxL g iv start stop offset 2
        let x : α := if Flt.abs (par.P a b) < Flt.ofRat 1 1000000000000 then 0
                     else (za * d.A.2.2 + zb * d.B.2.2) / (par.p a b * par.P a b)
        let Py := (za * d.A.2.1 + zb * d.B.2.1) / par.p a b
        let Px := (za * d.A.1 + zb * d.B.1) / par.p a b
        let phi := Flt.atan2 Py Px
        let harm := Angular.rsh E.fac E.dfac maxL x phi
        let mut l := offset
        while l ≤ maxL do
          let mut row := values[l]!
          for mi in [0:2 * l + 1] do
            row := row.set! mi (row[mi]! + da * db * (harm[l]!)[mi]! * par.K a b * temp[l]!)
          values := values.set! l row
          l := l + 2
    return values

/-- `buildF(shell, A, lstart, lend, r, nr, start, end, F)`: F(l, i) = Σ_a c_a e^{-ζ_a (r_i − A)²} K_l(2 ζ_a A r_i) -/
def buildF (E : Engine α) (sh : Shell α) (A : α) (lend : Nat) (r : Array α) : Array (Array α) :=
  Id.run do
    let mut F : Array (Array α) := Array.replicate r.size (Array.replicate (lend + 1) 0)
    for a in [0:sh.exps.size] do
      let zeta := sh.exps[a]!
      let c := sh.coeffs[a]!
      let weight := ((2 : Nat) : α) * zeta * A
      for i in [0:r.size] do
        let bes := besselAt E lend weight r[i]!
        let w := r[i]! - A
        let w := c * Flt.exp (-zeta * w * w)
        let mut row := F[i]!
        for l in [0:lend + 1] do
          row := row.set! l (row[l]! + w * bes[l]!)
        F := F.set! i row
    return F

/-- radial `type2(l, 0, l1end, 0, l2end, N, …)` (the quadrature version used when a shell sits on the ECP centre):
values(l1, l2) -/
def radType2 (E : Engine α) (sw : Switches) (pwf : Nat → α → α) (maxPow : Nat) (lam l1end0 l2end0 N : Nat)
    (U : Ecp α) (sA sB : Shell α) (d : PairData α) (par : Params α) : Array (Array α) :=
  let A := d.Am
  let B := d.Bm
  let size := E.small.maxN
  let utab := E.small.x.map fun r => pwf (N + 2) r * ecpEval U maxPow r lam
  let l1end := if A < Flt.ofRat 1 1000000000000000 then 0 else l1end0
  let l2end := if B < Flt.ofRat 1 1000000000000000 then 0 else l2end0
  let FaT := buildF E sA A l1end E.small.x
  let FbT := buildF E sB B l2end E.small.x
  let Fa := fun (l i : Nat) => (FaT[i]!)[l]!
  let Fb := fun (l i : Nat) => (FbT[i]!)[l]!
  let tol : α := E.tol
  Id.run do
    let mut values : Array (Array α) := Array.replicate (l1end0 + 1) (Array.replicate (l2end0 + 1) 0)
    let mut tests : Array Bool := #[]
    let mut failed := false
    for l1 in [0:l1end + 1] do
      let mut l2 := (l1 + N) % 2
      while l2 ≤ l2end do
        let r := Quad.integrate E.small (fun i => utab[i]! * Fa l1 i * Fb l2 i) tol 0 (size - 1)
        tests := tests.push r.2
        failed := failed || !r.2
        values := values.set! l1 ((values[l1]!).set! l2 (if r.2 then r.1 else 0))
        l2 := l2 + 2
    if failed then
      let bsize := E.big.maxN
      for a in [0:sA.exps.size] do
        for b in [0:sB.exps.size] do
          let ca := sA.coeffs[a]!; let za := sA.exps[a]!
          let cb := sB.coeffs[b]!; let zb := sB.exps[b]!
          let g := Quad.transformRMinMax E.big (par.p a b) ((za * A + zb * B) / par.p a b)
          let utab2 := g.x.map fun r => pwf (N + 2) r * ecpEval U maxPow r lam
          let fa := g.x.map fun r => besselAt E l1end (((2 : Nat) : α) * za * A) r
          let fb := g.x.map fun r => besselAt E l2end (((2 : Nat) : α) * zb * B) r
          let xv := (Array.range bsize).map fun i =>
            let ria := g.x[i]! - A
            let rib := g.x[i]! - B
            Flt.exp (-za * ria * ria - zb * rib * rib) * utab2[i]!
          let mut ix := 0
          for l1 in [0:l1end + 1] do
            let mut l2 := (l1 + N) % 2
            while l2 ≤ l2end do
              if !tests[ix]! then
                let r := Quad.integrate g (fun i => xv[i]! * (fa[i]!)[l1]! * (fb[i]!)[l2]!) tol 0 (bsize - 1)
                values := values.set! l1 ((values[l1]!).set! l2 ((values[l1]!)[l2]! + ca * cb * r.1))
              ix := ix + 1
              l2 := l2 + 2
    return values

/-- `qgen::rolled_up(lam, LA, LB, radials, CA, CB, SA, SB, angint, values)`: values(na, nb, lam+mu) -/
def rolledUp (E : Engine α) (lam LA LB : Nat) (radials : Nat → Nat → Nat → α)
    (CA CB : Nat → Nat → Nat → Nat → α) (SA SB : Array (Array α)) : Array (Array α) :=
  let compsA := (cartList LA).toArray
  let compsB := (cartList LB).toArray
  (Array.range (compsA.size * compsB.size)).map fun i =>
    let na := i / compsB.size
    let nb := i % compsB.size
    rolledUpBlock E.omega (fun C => decide (Flt.ofRat 1 1000000000000000 < Flt.abs C)) (((16 : Nat) : α) * Flt.pi * Flt.pi) lam radials
      (CA na) (CB nb) SA SB compsA[na]! compsB[nb]!

/-- `qgen::rolled_up_special(lam, LA, LB, radials, CB, SB, angint, values)` (shell A on the ECP centre) -/
def rolledUpSpecial (E : Engine α) (lam LA LB : Nat) (radials : Nat → Nat → Nat → α)
    (CB : Nat → Nat → Nat → Nat → α) (SB : Array (Array α)) : Array (Array α) :=
  let compsA := (cartList LA).toArray
  let compsB := (cartList LB).toArray
  (Array.range (compsA.size * compsB.size)).map fun i =>
    let na := i / compsB.size
    let nb := i % compsB.size
    rolledUpSpecialBlock E.omega (fun C => decide (Flt.ofRat 1 1000000000000000 < Flt.abs C)) (((8 : Nat) : α) * Flt.pi * Flt.sqrt Flt.pi) lam radials
      (CB nb) SB compsA[na]! compsB[nb]!

/-- `ECPIntegral::type1`: the local part.  values(na, nb) -/
def type1 (E : Engine α) (sw : Switches) (pwf : Nat → α → α) (maxPow : Nat)
    (U : Ecp α) (sA sB : Shell α) (d : PairData α) (CA CB : Nat → Nat → Nat → Nat → α) (par : Params α) :
    Array α :=
  let LA := d.LA
  let LB := d.LB
  let L := LA + LB
  let rad : Array (Array (Array α)) := (Array.range (L + 1)).map fun ix =>
    radType1 E sw pwf maxPow ix ix (ix % 2) U sA sB d par
  let radials := fun (ix lam idx : Nat) => ((rad[ix]!)[lam]!)[idx]!
  let compsA := (cartList LA).toArray
  let compsB := (cartList LB).toArray
  (Array.range (compsA.size * compsB.size)).map fun i =>
    let na := i / compsB.size
    let nb := i % compsB.size
    type1Entry E.W (fun C => decide (Flt.ofRat 1 100000000000000 < Flt.abs C)) radials (CA na) (CB nb) compsA[na]! compsB[nb]! * (((4 : Nat) : α) * Flt.pi)

/-- `ECPIntegral::estimate_type2`: the per-l screening estimates -/
def estimateType2 (E : Engine α) (pwf : Nat → α → α) (U : Ecp α) (sA sB : Shell α) (d : PairData α)
    (euler sinh1 : α) : Array α :=
  let LAf : α := (d.LA : α)
  let LBf : α := (d.LB : α)
  let Na0 : α := Flt.ofRat 1 2 * LAf / euler
  let Nb0 : α := Flt.ofRat 1 2 * LBf / euler
  (Array.range (U.L + 1)).map fun l =>
    let minEta := U.minExpL[l]!
    let n2 := minEta * minEta
    let an := sA.minExp + minEta
    let bn := sB.minExp + minEta
    let sigA : α := if d.A2 < Flt.ofRat 1 1000000 then Flt.ofRat 1 2 * an / sA.minExp
                    else Flt.ofRat 1 2 * LAf * an * an / (sA.minExp * (n2 * d.A2 + LAf * an))
    let sigB : α := if d.B2 < Flt.ofRat 1 1000000 then Flt.ofRat 1 2 * bn / sB.minExp
                    else Flt.ofRat 1 2 * LBf * bn * bn / (sB.minExp * (n2 * d.B2 + LBf * bn))
    let atilde := (1 - sigA) * sA.minExp
    let btilde := (1 - sigB) * sB.minExp
    let aBound := (List.range sA.exps.size).foldl (fun s i =>
      s + pwf d.LA (Flt.sqrt (Na0 / (sA.exps[i]! * sigA))) * Flt.abs sA.coeffs[i]!) (0 : α)
    let bBound := (List.range sB.exps.size).foldl (fun s i =>
      s + pwf d.LB (Flt.sqrt (Nb0 / (sB.exps[i]! * sigB))) * Flt.abs sB.coeffs[i]!) (0 : α)
    let Tk0 := ((2 : Nat) : α) * atilde * btilde * d.Am * d.Bm
    let xp := atilde * atilde * d.A2 + btilde * btilde * d.B2
    let ab := (List.range (U.lStarts[l + 1]! - U.lStarts[l]!)).foldl (fun s t =>
      let g := U.gs[U.lStarts[l]! + t]!
      let zt := atilde + btilde + g.a
      let Tk := Tk0 / zt
      let Tk := if (1 : α) < Tk then Flt.ofRat 1 2 * Flt.exp Tk / Tk else sinh1
      s + Flt.abs g.d * pwf 3 (Flt.sqrt (Flt.pi / g.a)) * Flt.exp (xp / zt) * Tk) (0 : α)
    let ab := ab * Flt.exp (-atilde * d.A2 - btilde * d.B2)
    (((2 * l + 1) * (2 * l + 1) : Nat) : α) * aBound * bBound * ab

/-- `RadialIntegral::type2(triples, nbase, lam, U, shellA, shellB, A, B, radials)` -/
def radialTriples (E : Engine α) (sw : Switches) (triples : List (Nat × Nat × Nat)) (nbase lam : Nat)
    (U : Ecp α) (sA sB : Shell α) (A B : α) : Std.HashMap (Nat × Nat × Nat) α := Id.run do
  let mut m : Std.HashMap (Nat × Nat × Nat) α := {}
  for g in U.gs do
    if g.l = lam then
      for na in [0:sA.exps.size] do
        for nb in [0:sB.exps.size] do
          let a := sA.exps[na]!; let da := sA.coeffs[na]!
          let b := sB.exps[nb]!; let db := sB.coeffs[nb]!
          let p := g.a + a + b
          let x := a * A; let y := b * B
          let P1 := (x + y) / p; let P2 := (y - x) / p
          let rootP := Flt.sqrt p
          let d1 := E.dawson (rootP * P1)
          let d2 := E.dawson (rootP * P2)
          for t in triples do
            let k : Nat := ((t.1 : Int) + g.n + 2).toNat
            let erfArg := RadialGen.estimateErfArg k t.2.1 t.2.2 g.a a b A B
            let r := primitiveSw E sw nbase g.n g.a a b A B d1 d2 t.1 t.2.1 t.2.2 (E.erf erfArg)
            m := m.insert t (m.getD t 0 + da * db * g.d * r)
  return m
where
  primitiveSw (E : Engine α) (sw : Switches) (nbase : Nat) (un : Int) (ua a b A B d1 d2 : α) (N l1 l2 : Nat) (erfv : α) : α :=
    if sw.tailCut && sw.closedForms && sw.radialScreen && !sw.finest then
      (RadialGen.primitive E.prim E.bessel E.smallZ E.tol E.minExp E.rootPi nbase un ua a b A B d1 d2 N l1 l2 erfv).1
    else
      -- counterfactual variants
      let k : Nat := ((N : Int) + un + 2).toNat
      let viaQuad : α :=
        if !sw.radialScreen || E.tol < RadialGen.estimateType2 E.bessel k l1 l2 ua a b A B erfv then
          (RadialGen.integrateSmall E.prim E.bessel E.smallZ E.tol k l1 l2 ua a b A B sw.tailCut sw.finest).1
        else 0
      if sw.closedForms then
        let r := RadialGen.primitive E.prim E.bessel E.smallZ E.tol E.minExp E.rootPi nbase un ua a b A B d1 d2 N l1 l2 erfv
        if r.2.1 = .closed then r.1 else viaQuad
      else viaQuad

/-- one generated class: radial integrals for its two triple lists, then the contraction -/
def qClass (E : Engine α) (sw : Switches) (cls : Gen.QClass) (terms : Option (Array (UTerm α)))
    (U : Ecp α) (sA sB : Shell α) (CA CB : Nat → Nat → Nat → Nat → α) (SA SB : Array (Array α)) (Am Bm : α) :
    Array (Array α) :=
  let lam := cls.lam
  let rA := radialTriples E sw cls.triplesA cls.nbase lam U sA sB Am Bm
  let rB := radialTriples E sw cls.triplesB cls.nbase lam U sB sA Bm Am
  -- radials(N, l1, l2): from list A directly; list B entries are copied back transposed (overwriting)
  let inB : Std.HashMap (Nat × Nat × Nat) α := cls.triplesB.foldl (fun m t => m.insert (t.1, t.2.2, t.2.1) (rB.getD t 0)) {}
  let radials := fun (N l1 l2 : Nat) =>
    match inB.get? (N, l1, l2) with
    | some v => v
    | none => rA.getD (N, l1, l2) 0
  match terms with
  | none => rolledUp E lam cls.LA cls.LB radials CA CB SA SB
  | some ts =>
    let nB := ncart cls.LB
    let nmu := 2 * lam + 1
    let res : Array α := evalTerms (ncart cls.LA) nB nmu ts CA CB radials SA SB
    (Array.range (ncart cls.LA * nB)).map fun ab => (Array.range nmu).map fun mi => res[ab * nmu + mi]!

/-- `ECPIntegral::type2(lam, …)`: values(na, nb, lam+mu) -/
def type2 (E : Engine α) (sw : Switches) (pwf : Nat → α → α) (maxPow : Nat)
    (classes : Nat → Nat → Nat → Option (Gen.QClass × Option (Array (UTerm α))))
    (lam : Nat) (U : Ecp α) (sA sB : Shell α) (d : PairData α) (CA CB : Nat → Nat → Nat → Nat → α) (par : Params α) :
    Array (Array α) :=
  let LA := d.LA
  let LB := d.LB
  let L := LA + LB
  let nA := ncart LA
  let nB := ncart LB
  let nmu := 2 * lam + 1
  -- transposed copy: out(na, nb, ·) = t(nb, na, ·) for a table t laid out with nA rows per column index
  let transposeT := fun (t : Array (Array α)) =>
    (Array.range (nA * nB)).map fun i => t[(i % nB) * nA + (i / nB)]!
  if d.aOn && d.bOn then
    let compsA := (cartList LA).toArray
    let compsB := (cartList LB).toArray
    -- Σ over ECP primitives of this l, shell primitives: ½ dA dB dC Γ((N+1)/2) p^{-(N+1)/2}
    let value : α := Id.run do
      let mut v : α := 0
      for g in U.gs do
        if g.l = lam then
          for a in [0:sA.exps.size] do
            for b in [0:sB.exps.size] do
              let p := sA.exps[a]! + sB.exps[b]! + g.a
              let orp : α := 1 / Flt.sqrt p
              let N : Nat := ((2 + LA + LB : Nat) + g.n).toNat
              v := v + Flt.ofRat 1 2 * sA.coeffs[a]! * sB.coeffs[b]! * g.d * E.gamma[N]! * pwf (N + 1) orp
      return v
    (Array.range (nA * nB)).map fun i =>
      let (x1, y1, z1) := compsA[i / nB]!
      let (x2, y2, z2) := compsB[i % nB]!
      (Array.range nmu).map fun mi =>
        let angular := ((4 : Nat) : α) * Flt.pi * E.omega x1 y1 z1 lam mi 0 0 * E.omega x2 y2 z2 lam mi 0 0
        angular * value
  else
    let xA : α := if (0 : α) < d.Am then d.A.2.2 / d.Am else 0
    let xB : α := if (0 : α) < d.Bm then d.B.2.2 / d.Bm else 0
    let phiA := Flt.atan2 d.A.2.1 d.A.1
    let phiB := Flt.atan2 d.B.2.1 d.B.1
    let SA := Angular.rsh E.fac E.dfac (lam + LA) xA phiA
    let SB := Angular.rsh E.fac E.dfac (lam + LB) xB phiB
    if d.aOn then
      let rad : Array (Array (Array α)) := (Array.range (L + 1)).map fun N =>
        radType2 E sw pwf maxPow lam (lam + LA) (lam + LB) N U sA sB d par
      rolledUpSpecial E lam LA LB (fun N l1 l2 => ((rad[N]!)[l1]!)[l2]!) CB SB
    else if d.bOn then
      let rad : Array (Array (Array α)) := (Array.range (L + 1)).map fun N =>
        radType2 E sw pwf maxPow lam (lam + LA) (lam + LB) N U sA sB d par
      transposeT (rolledUpSpecial E lam LB LA (fun N l1 l2 => ((rad[N]!)[l2]!)[l1]!) CA SA)
    else if LA ≤ LB then
      match classes LA LB lam with
      | some (cls, terms) => qClass E sw cls terms U sA sB CA CB SA SB d.Am d.Bm
      | none => Array.replicate (nA * nB) (Array.replicate nmu 0)
    else
      match classes LB LA lam with
      | some (cls, terms) => transposeT (qClass E sw cls terms U sB sA CB CA SB SA d.Bm d.Am)
      | none => Array.replicate (nA * nB) (Array.replicate nmu 0)

/-- everything `compute_shell_pair` does after it has formed the centre differences: the routine below this point
never looks at an absolute position -/
def computeFromData (E : Engine α) (sw : Switches) (pwf : Nat → α → α) (pw : α → Nat → α) (maxPow : Nat) (euler sinh1 : α)
    (classes : Nat → Nat → Nat → Option (Gen.QClass × Option (Array (UTerm α))))
    (d : PairData α) (U : Ecp α) (sA sB : Shell α) : Nat × Nat × Array α :=
  let par := buildParameters sA sB d
  let CAt := makeCTab E pw d.LA d.A
  let CBt := makeCTab E pw d.LB d.B
  let CA := cAt CAt d.LA
  let CB := cAt CBt d.LB
  let screens := estimateType2 E pwf U sA sB d euler sinh1
  let nA := ncart d.LA
  let nB := ncart d.LB
  -- `!(screens[l] <= tolerance)`: an estimate that is not a number does not screen
  let passes := fun (l : Nat) => !sw.pairScreen || !decide (screens[l]! ≤ E.pairTol)
  let v0 : Array α :=
    if !noType1 U && passes U.L then
      type1 E sw pwf maxPow U sA sB d CA CB par
    else Array.replicate (nA * nB) 0
  let vals := (List.range U.L).foldl (fun (v : Array α) l =>
    if passes l then
      let t2 := type2 E sw pwf maxPow classes l U sA sB d CA CB par
      (List.range (2 * l + 1)).foldl (fun v mi =>
        (Array.range (nA * nB)).map fun i => v[i]! + (t2[i]!)[mi]!) v
    else v) v0
  (nA, nB, vals)

/-- forget the absolute position of an ECP / a shell -/
def Ecp.atOrigin (U : Ecp α) : Ecp α := { U with center := (0, 0, 0) }
def Shell.atOrigin (s : Shell α) : Shell α := { s with center := (0, 0, 0) }

/-- `ECPIntegral::compute_shell_pair(U, shellA, shellB, values, shiftA, shiftB)` → (ncartA, ncartB, values): the centres
enter through `mkData` (differences to the ECP centre) only -/
def computeShellPair (E : Engine α) (sw : Switches) (pwf : Nat → α → α) (pw : α → Nat → α) (maxPow : Nat) (euler sinh1 : α)
    (classes : Nat → Nat → Nat → Option (Gen.QClass × Option (Array (UTerm α))))
    (U : Ecp α) (sA sB : Shell α) (shiftA shiftB : Int) : Nat × Nat × Array α :=
  computeFromData E sw pwf pw maxPow euler sinh1 classes (mkData U sA sB shiftA shiftB) U.atOrigin sA.atOrigin sB.atOrigin

end
end Ecpint.ShellPair
