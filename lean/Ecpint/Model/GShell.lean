/-
Object/heap model of `GaussianShell` (include/libecpint/gshell.hpp) for C17.

A shell's centre is a raw pointer that either designates a caller-owned buffer or the shell's
*own* `localCenter` array.  What each copy operation does with every member - and in particular
whether it re-points `centerVec` at the new object's own storage - is NOT written here: it is a
`CopySem` value extracted from the class definition by translate/copysem.py on every run
(Gen/CopySem.lean).  The heap machine below is defined *from* that table, so the theorems in
Props/C17.lean are about what the header says now.

Values are abstract tokens (`Nat`); `none` is an indeterminate (never written) member.
-/
namespace Ecpint.GShell

inductive Field
  | exps | coeffs | centerVec | localPtr | localCenter | minExp | l | atomId
deriving DecidableEq, Repr

def Field.all : List Field :=
  [.exps, .coeffs, .centerVec, .localPtr, .localCenter, .minExp, .l, .atomId]

/-- where `centerVec` points -/
inductive Ptr
  | ext (b : Nat)    -- caller-owned buffer number b
  | loc (o : Nat)    -- the `localCenter` array of object o
  | wild             -- never initialised
deriving DecidableEq, Repr

structure Shell where
  exps : List Nat
  coeffs : List Nat
  centerVec : Ptr
  localPtr : Bool
  localCenter : Option Nat
  minExp : Option Nat
  l : Option Nat
  atomId : Option Nat
deriving DecidableEq, Repr

/-- what one copy operation does, member by member (from the translator) -/
structure CopySem where
  userDefined : Bool            -- false: the implicit member-wise operation
  carried : List Field          -- members copied from the source unconditionally
  carriedIfLocal : List Field   -- members copied only inside `if (local_ptr) { ... }`
  repoint : Bool                -- inside `if (local_ptr)`: centerVec = (own) localCenter
deriving DecidableEq, Repr

structure Sems where
  ctor : CopySem     -- GaussianShell(const GaussianShell&)
  assign : CopySem   -- operator=
  copyM : CopySem    -- copy()
deriving DecidableEq, Repr

def copyField (f : Field) (src tgt : Shell) : Shell :=
  match f with
  | .exps => { tgt with exps := src.exps }
  | .coeffs => { tgt with coeffs := src.coeffs }
  | .centerVec => { tgt with centerVec := src.centerVec }
  | .localPtr => { tgt with localPtr := src.localPtr }
  | .localCenter => { tgt with localCenter := src.localCenter }
  | .minExp => { tgt with minExp := src.minExp }
  | .l => { tgt with l := src.l }
  | .atomId => { tgt with atomId := src.atomId }

/-- members a copy operation does not mention: default-initialised -/
def blank : Shell :=
  { exps := [], coeffs := [], centerVec := .wild, localPtr := false, localCenter := none,
    minExp := none, l := none, atomId := none }

/-- target object `self` after the operation `sem` copied `src` over `base` -/
def applySem (sem : CopySem) (self : Nat) (src base : Shell) : Shell :=
  let fs := sem.carried ++ (if src.localPtr then sem.carriedIfLocal else [])
  let t := fs.foldl (fun t f => copyField f src t) base
  if sem.repoint && t.localPtr then { t with centerVec := .loc self } else t

structure Heap where
  objs : Nat → Option Shell   -- none: never created or destroyed
  next : Nat                  -- ids handed out so far
  ext : Nat → Nat             -- contents of the caller's coordinate buffers

def Heap.empty : Heap := { objs := fun _ => none, next := 0, ext := fun b => 1000 + b }

def Heap.set (h : Heap) (o : Nat) (v : Option Shell) : Heap :=
  { h with objs := fun i => if i = o then v else h.objs i }

inductive Op
  | newExt (b l : Nat)          -- GaussianShell(double*, int)
  | newLocal (a l : Nat)        -- GaussianShell(const std::array<double,3>&, int)
  | copyCtor (src : Nat)
  | copyM (src : Nat)           -- src.copy()
  | assign (dst src : Nat)      -- dst = src
  | addPrim (o e c : Nat)
  | setLocal (o v : Nat)        -- write the object's localCenter (update_gaussian_basis_coords)
  | setAtom (o v : Nat)
  | setExt (b v : Nat)          -- the caller writes its own buffer
  | destroy (o : Nat)
deriving DecidableEq, Repr

def step (S : Sems) (h : Heap) : Op → Heap
  | .newExt b l =>
      { (h.set h.next (some { blank with centerVec := .ext b, l := some l, minExp := some 100 }))
        with next := h.next + 1 }
  | .newLocal a l =>
      { (h.set h.next (some { blank with centerVec := .loc h.next, localPtr := true,
                                         localCenter := some a, l := some l, minExp := some 100 }))
        with next := h.next + 1 }
  | .copyCtor src =>
      match h.objs src with
      | none => h
      | some s => { (h.set h.next (some (applySem S.ctor h.next s blank))) with next := h.next + 1 }
  | .copyM src =>
      match h.objs src with
      | none => h
      | some s =>
        -- `GaussianShell result(centerVec, l)` then member assignments; returned by value
        { (h.set h.next (some (applySem S.copyM h.next s { blank with minExp := some 100 })))
          with next := h.next + 1 }
  | .assign dst src =>
      match h.objs dst, h.objs src with
      | some d, some s => h.set dst (some (applySem S.assign dst s d))
      | _, _ => h
  | .addPrim o e c =>
      match h.objs o with
      | none => h
      | some s => h.set o (some { s with exps := s.exps ++ [e], coeffs := s.coeffs ++ [c],
                                         minExp := s.minExp.map (fun m => if e < m then e else m) })
  | .setLocal o v =>
      match h.objs o with
      | none => h
      | some s => h.set o (some { s with localCenter := some v })
  | .setAtom o v =>
      match h.objs o with
      | none => h
      | some s => h.set o (some { s with atomId := some v })
  | .setExt b v => { h with ext := fun i => if i = b then v else h.ext i }
  | .destroy o => h.set o none

def run (S : Sems) (h : Heap) (ops : List Op) : Heap := ops.foldl (step S) h

/-- what `*center()` yields -/
inductive Deref
  | val (v : Option Nat)
  | dangling
deriving DecidableEq, Repr

def center (h : Heap) (s : Shell) : Deref :=
  match s.centerVec with
  | .ext b => .val (some (h.ext b))
  | .loc o => match h.objs o with
              | some t => .val t.localCenter
              | none => .dangling
  | .wild => .dangling

/-- everything a user can observe of a live shell -/
structure View where
  exps : List Nat
  coeffs : List Nat
  centre : Deref
  minExp : Option Nat
  l : Option Nat
  atomId : Option Nat
deriving DecidableEq, Repr

def view (h : Heap) (s : Shell) : View :=
  { exps := s.exps, coeffs := s.coeffs, centre := center h s, minExp := s.minExp, l := s.l,
    atomId := s.atomId }

/-- the object (if any) an operation writes or destroys; creations write the fresh id -/
def target (h : Heap) : Op → Option Nat
  | .newExt _ _ | .newLocal _ _ | .copyCtor _ | .copyM _ => some h.next
  | .assign dst _ => some dst
  | .addPrim o _ _ | .setLocal o _ | .setAtom o _ | .destroy o => some o
  | .setExt _ _ => none

/-- the representation invariant: a local-centre shell points at its *own* storage,
    an external-centre shell at a caller buffer -/
def Inv (h : Heap) : Prop :=
  ∀ o s, h.objs o = some s →
    o < h.next ∧ (s.localPtr = true → s.centerVec = .loc o) ∧
    (s.localPtr = false → ∃ b, s.centerVec = .ext b)

/-- the copy operation carries every attribute and re-points a local centre -/
def CopySem.Carries (c : CopySem) : Prop :=
  (∀ f ∈ Field.all, f ≠ .localCenter → f ∈ c.carried) ∧
  (.localCenter ∈ c.carried ∨ .localCenter ∈ c.carriedIfLocal) ∧ c.repoint = true

instance (c : CopySem) : Decidable c.Carries := by unfold CopySem.Carries; infer_instance

def Sems.Carries (S : Sems) : Prop := S.ctor.Carries ∧ S.assign.Carries ∧ S.copyM.Carries
instance (S : Sems) : Decidable S.Carries := by unfold Sems.Carries; infer_instance

end Ecpint.GShell

namespace Ecpint

/-- copy behaviour of a class whose members are all values (no raw pointers): which members each
copy operation mentions (from the translator) -/
structure ValueClass where
  name : String
  fields : List String
  rawPointerFields : List String
  sharedImmutableFields : List String   -- shared_ptr members (pointee never written after init)
  ctorUser : Bool
  ctorCarried : List String
  assignUser : Bool
  assignCarried : List String
deriving DecidableEq, Repr

end Ecpint
