/-
Helper lemmas for C14b: the entire function G_l(w) = Σ_j w^j / (j! (2l+2j+1)!!) (so that i_l(z) = z^l G_l(z²/2)),
its derivative G_l' = G_{l+1} and recurrence G_l − 2w G_{l+2} = (2l+3) G_{l+1}; and the three-term recurrence
of the asymptotic polynomial `largeAll`.
-/
import Ecpint.Model.Bessel
import Ecpint.Lemmas.Bessel
import Ecpint.Props.C14
import Mathlib.Analysis.Calculus.SmoothSeries
import Mathlib.Analysis.Calculus.Deriv.Pow
import Mathlib.Analysis.SpecificLimits.Normed
import Mathlib.Analysis.SpecialFunctions.Exponential
import Mathlib.Data.Nat.Factorial.DoubleFactorial

namespace Ecpint.BesselReal
open scoped Nat

/-- term j of G_l -/
noncomputable def gTerm (l j : ℕ) (w : ℝ) : ℝ := w ^ j / (j ! : ℝ) / (((2 * l + 2 * j + 1)‼ : ℕ) : ℝ)

noncomputable def G (l : ℕ) (w : ℝ) : ℝ := ∑' j, gTerm l j w

theorem dfac_ge_one (n : ℕ) : (1 : ℝ) ≤ ((n‼ : ℕ) : ℝ) := by
  exact_mod_cast Nat.doubleFactorial_pos n

theorem dfac_pos (n : ℕ) : (0 : ℝ) < ((n‼ : ℕ) : ℝ) := lt_of_lt_of_le one_pos (dfac_ge_one n)

theorem fac_pos (n : ℕ) : (0 : ℝ) < ((n ! : ℕ) : ℝ) := by exact_mod_cast Nat.factorial_pos n

theorem gTerm_abs_le (l j : ℕ) (w : ℝ) : |gTerm l j w| ≤ |w| ^ j / (j ! : ℝ) := by
  unfold gTerm
  rw [abs_div, abs_div, abs_pow, abs_of_pos (fac_pos j), abs_of_pos (dfac_pos _)]
  exact div_le_self (by positivity) (dfac_ge_one _)

theorem gTerm_summable (l : ℕ) (w : ℝ) : Summable (gTerm l · w) :=
  Summable.of_norm_bounded (Real.summable_pow_div_factorial |w|) (fun j => by
    rw [Real.norm_eq_abs]; exact gTerm_abs_le l j w)

theorem gTerm_hasSum (l : ℕ) (w : ℝ) : HasSum (gTerm l · w) (G l w) := (gTerm_summable l w).hasSum

theorem dfac_shift (l j : ℕ) :
    (((2 * l + 2 * (j + 1) + 1)‼ : ℕ) : ℝ) = (2 * (l : ℝ) + 2 * (j : ℝ) + 3) * (((2 * l + 2 * j + 1)‼ : ℕ) : ℝ) := by
  have e : 2 * l + 2 * (j + 1) + 1 = (2 * l + 2 * j + 1) + 2 := by ring
  rw [e, Nat.doubleFactorial_add_two]
  push_cast
  ring

theorem dfac_shift' (l j : ℕ) :
    (((2 * (l + 1) + 2 * j + 1)‼ : ℕ) : ℝ) = (2 * (l : ℝ) + 2 * (j : ℝ) + 3) * (((2 * l + 2 * j + 1)‼ : ℕ) : ℝ) := by
  have e : 2 * (l + 1) + 2 * j + 1 = 2 * l + 2 * (j + 1) + 1 := by ring
  rw [e, dfac_shift]

theorem fac_succ (j : ℕ) : (((j + 1)! : ℕ) : ℝ) = ((j : ℝ) + 1) * ((j ! : ℕ) : ℝ) := by
  rw [Nat.factorial_succ]; push_cast; ring

/-- the term-wise derivative, shifted by one, is the term of G_{l+1} -/
theorem gTerm_deriv_shift (l j : ℕ) (w : ℝ) :
    ((j + 1 : ℕ) : ℝ) * w ^ j / (((j + 1)! : ℕ) : ℝ) / (((2 * l + 2 * (j + 1) + 1)‼ : ℕ) : ℝ) = gTerm (l + 1) j w := by
  unfold gTerm
  rw [dfac_shift', dfac_shift, fac_succ]
  have h1 := (fac_pos j).ne'
  have h2 := (dfac_pos (2 * l + 2 * j + 1)).ne'
  have h3 : (2 * (l : ℝ) + 2 * (j : ℝ) + 3) ≠ 0 := by positivity
  have h4 : ((j : ℝ) + 1) ≠ 0 := by positivity
  push_cast
  field_simp

theorem G_hasDerivAt (l : ℕ) (w : ℝ) : HasDerivAt (G l) (G (l + 1) w) w := by
  set R : ℝ := |w| + 1 with hR
  have hRpos : 0 < R := by positivity
  let g' : ℕ → ℝ → ℝ := fun j y =>
    ((j : ℕ) : ℝ) * y ^ (j - 1) / ((j ! : ℕ) : ℝ) / (((2 * l + 2 * j + 1)‼ : ℕ) : ℝ)
  let u : ℕ → ℝ := fun j => ((j : ℕ) : ℝ) * R ^ (j - 1) / ((j ! : ℕ) : ℝ)
  have hu : Summable u := by
    rw [← summable_nat_add_iff 1]
    refine (Real.summable_pow_div_factorial R).congr (fun j => ?_)
    simp only [u, Nat.add_sub_cancel]
    rw [fac_succ]
    have h1 := (fac_pos j).ne'
    have h4 : ((j : ℝ) + 1) ≠ 0 := by positivity
    push_cast
    field_simp
  have hg : ∀ j y, y ∈ Metric.ball (0 : ℝ) R → HasDerivAt (fun y => gTerm l j y) (g' j y) y := by
    intro j y _
    simp only [gTerm, g']
    exact ((hasDerivAt_pow j y).div_const _).div_const _
  have hg' : ∀ j y, y ∈ Metric.ball (0 : ℝ) R → ‖g' j y‖ ≤ u j := by
    intro j y hy
    have hy' : |y| ≤ R := by
      rw [Metric.mem_ball, Real.dist_eq, sub_zero] at hy
      exact hy.le
    simp only [g', u]
    rw [Real.norm_eq_abs, abs_div, abs_div, abs_mul, abs_pow, abs_of_pos (fac_pos j), abs_of_pos (dfac_pos _),
      abs_of_nonneg (Nat.cast_nonneg j)]
    refine le_trans (div_le_self (by positivity) (dfac_ge_one _)) ?_
    gcongr
  have hw : w ∈ Metric.ball (0 : ℝ) R := by
    rw [Metric.mem_ball, Real.dist_eq, sub_zero, hR]
    linarith
  have h0 : (0 : ℝ) ∈ Metric.ball (0 : ℝ) R := Metric.mem_ball_self hRpos
  have main := hasDerivAt_tsum_of_isPreconnected hu Metric.isOpen_ball
    (convex_ball (0 : ℝ) R).isPreconnected hg hg' h0 (gTerm_summable l 0) hw
  have hsum : HasSum (fun j => g' j w) (G (l + 1) w) := by
    rw [← hasSum_nat_add_iff' 1]
    simp only [Finset.range_one, Finset.sum_singleton]
    have e0 : g' 0 w = 0 := by simp [g']
    rw [e0, sub_zero]
    refine (gTerm_hasSum (l + 1) w).congr_fun (fun j => ?_)  -- may need adjusting
    simp only [g', Nat.add_sub_cancel]
    exact gTerm_deriv_shift l j w
  rw [hsum.tsum_eq] at main
  exact main

/-- term-wise recurrence -/
theorem gTerm_rec (l j : ℕ) (w : ℝ) :
    gTerm l (j + 1) w - 2 * w * gTerm (l + 2) j w = (2 * (l : ℝ) + 3) * gTerm (l + 1) (j + 1) w := by
  unfold gTerm
  have e : 2 * (l + 2) + 2 * j + 1 = 2 * (l + 1) + 2 * (j + 1) + 1 := by ring
  rw [e, dfac_shift (l + 1) j, dfac_shift', dfac_shift, fac_succ]
  have h1 := (fac_pos j).ne'
  have h2 := (dfac_pos (2 * l + 2 * j + 1)).ne'
  have h3 : (2 * (l : ℝ) + 2 * (j : ℝ) + 3) ≠ 0 := by positivity
  have h4 : ((j : ℝ) + 1) ≠ 0 := by positivity
  have h5 : (2 * ((l + 1 : ℕ) : ℝ) + 2 * (j : ℝ) + 3) ≠ 0 := by positivity
  push_cast at h5 ⊢
  field_simp
  ring

theorem gTerm_zero (l : ℕ) (w : ℝ) : gTerm l 0 w = 1 / (((2 * l + 1)‼ : ℕ) : ℝ) := by
  simp [gTerm]

theorem gTerm_rec_zero (l : ℕ) (w : ℝ) : gTerm l 0 w = (2 * (l : ℝ) + 3) * gTerm (l + 1) 0 w := by
  rw [gTerm_zero, gTerm_zero]
  have e : 2 * (l + 1) + 1 = (2 * l + 1) + 2 := by ring
  rw [e, Nat.doubleFactorial_add_two]
  have h2 := (dfac_pos (2 * l + 1)).ne'
  have h3 : (2 * (l : ℝ) + 3) ≠ 0 := by positivity
  push_cast
  field_simp
  ring

theorem G_rec (l : ℕ) (w : ℝ) : G l w - 2 * w * G (l + 2) w = (2 * (l : ℝ) + 3) * G (l + 1) w := by
  have h1 : HasSum (fun j => gTerm l (j + 1) w) (G l w - gTerm l 0 w) := by
    have := (hasSum_nat_add_iff' 1).mpr (gTerm_hasSum l w)
    simpa using this
  have h3 : HasSum (fun j => gTerm (l + 1) (j + 1) w) (G (l + 1) w - gTerm (l + 1) 0 w) := by
    have := (hasSum_nat_add_iff' 1).mpr (gTerm_hasSum (l + 1) w)
    simpa using this
  have h2 := (gTerm_hasSum (l + 2) w).mul_left (2 * w)
  have hL := h1.sub h2
  have hR := h3.mul_left (2 * (l : ℝ) + 3)
  have := hL.unique (hR.congr_fun (fun j => (gTerm_rec l j w)))  -- may need adjusting
  have e0 := gTerm_rec_zero l w
  linarith

theorem G_at_zero (l : ℕ) : G l 0 = 1 / (((2 * l + 1)‼ : ℕ) : ℝ) := by
  have h : HasSum (gTerm l · 0) (gTerm l 0 0) := by
    apply hasSum_single 0
    intro j hj
    obtain ⟨k, rfl⟩ := Nat.exists_eq_succ_of_ne_zero hj
    simp [gTerm]
  rw [← gTerm_zero l 0]
  exact (gTerm_hasSum l 0).unique h

theorem gTerm_nonneg (l j : ℕ) (w : ℝ) (hw : 0 ≤ w) : 0 ≤ gTerm l j w := by
  unfold gTerm
  have := fac_pos j
  have := dfac_pos (2 * l + 2 * j + 1)
  positivity

theorem hasSum_exp_real (w : ℝ) : HasSum (fun n => w ^ n / ((n ! : ℕ) : ℝ)) (Real.exp w) := by
  rw [Real.exp_eq_exp_ℝ]
  exact NormedSpace.expSeries_div_hasSum_exp w

/-- G_l(w) is 1/(2l+1)!! up to e^w − 1 -/
theorem G_sub_le (l : ℕ) (w : ℝ) (hw : 0 ≤ w) :
    |G l w - 1 / (((2 * l + 1)‼ : ℕ) : ℝ)| ≤ Real.exp w - 1 := by
  have h1 : HasSum (fun j => gTerm l (j + 1) w) (G l w - gTerm l 0 w) := by
    have := (hasSum_nat_add_iff' 1).mpr (gTerm_hasSum l w)
    simpa using this
  have h2 : HasSum (fun j => w ^ (j + 1) / (((j + 1)! : ℕ) : ℝ)) (Real.exp w - 1) := by
    have := (hasSum_nat_add_iff' 1).mpr (hasSum_exp_real w)
    simpa using this
  rw [← gTerm_zero l w, abs_of_nonneg (h1.nonneg (fun j => gTerm_nonneg l (j + 1) w hw))]
  refine hasSum_le (fun j => ?_) h1 h2
  have := le_trans (le_abs_self _) (gTerm_abs_le l (j + 1) w)
  rwa [abs_of_nonneg hw] at this

/-! ### the asymptotic polynomial -/
section
variable {K : Type} [Field K] [CharZero K]
open Ecpint.Bessel Ecpint.BesselLemmas

/-- a_k = (l+k)!/(k!(l−k)!) -/
def aCoef (l k : ℕ) : K := ((l + k)! : K) / ((k ! : K) * ((l - k)! : K))

theorem largeAll_eq_sum (v : K) (l : ℕ) :
    largeAll v l = v * ∑ k ∈ Finset.range (l + 1), aCoef l k * (-v) ^ k := C14.largeAll_closed v l

theorem facK_ne (n : ℕ) : ((n ! : ℕ) : K) ≠ 0 := Nat.cast_ne_zero.mpr (Nat.factorial_ne_zero n)

theorem aCoef_zero (l : ℕ) : (aCoef l 0 : K) = 1 := by
  have := facK_ne (K := K) l
  simp [aCoef, this]

theorem aCoef_mid (k m : ℕ) :
    (aCoef (k + 1 + m + 2) (k + 1) : K)
      = aCoef (k + 1 + m) (k + 1) + 2 * (2 * ((k + 1 + m : ℕ) : K) + 3) * aCoef (k + 1 + m + 1) k := by
  unfold aCoef
  have e1 : k + 1 + m + 2 + (k + 1) = (2 * k + m + 2) + 1 + 1 := by omega
  have e2 : k + 1 + m + 2 - (k + 1) = m + 1 + 1 := by omega
  have e3 : k + 1 + m + (k + 1) = 2 * k + m + 2 := by omega
  have e4 : k + 1 + m - (k + 1) = m := by omega
  have e5 : k + 1 + m + 1 + k = 2 * k + m + 2 := by omega
  have e6 : k + 1 + m + 1 - k = m + 1 + 1 := by omega
  rw [e1, e2, e3, e4, e5, e6, Nat.factorial_succ (2 * k + m + 2 + 1), Nat.factorial_succ (2 * k + m + 2),
    Nat.factorial_succ k, Nat.factorial_succ (m + 1), Nat.factorial_succ m]
  have h1 := facK_ne (K := K) k
  have h2 := facK_ne (K := K) m
  have h3 : ((k : K) + 1) ≠ 0 := by exact_mod_cast Nat.succ_ne_zero k
  have h4 : ((m : K) + 1) ≠ 0 := by exact_mod_cast Nat.succ_ne_zero m
  have h5 : ((m : K) + 1 + 1) ≠ 0 := by exact_mod_cast Nat.succ_ne_zero (m + 1)
  push_cast
  field_simp
  ring

theorem aCoef_top1 (l : ℕ) :
    (aCoef (l + 2) (l + 1) : K) = 2 * (2 * (l : K) + 3) * aCoef (l + 1) l := by
  unfold aCoef
  have e1 : l + 2 + (l + 1) = (2 * l + 1) + 1 + 1 := by omega
  have e2 : l + 2 - (l + 1) = 1 := by omega
  have e3 : l + 1 + l = 2 * l + 1 := by omega
  have e4 : l + 1 - l = 1 := by omega
  rw [e1, e2, e3, e4, Nat.factorial_succ (2 * l + 1 + 1), Nat.factorial_succ (2 * l + 1), Nat.factorial_succ l]
  have h1 := facK_ne (K := K) l
  have h2 := facK_ne (K := K) (2 * l + 1)
  have h3 : ((l : K) + 1) ≠ 0 := by exact_mod_cast Nat.succ_ne_zero l
  push_cast
  field_simp
  ring

theorem aCoef_top2 (l : ℕ) :
    (aCoef (l + 2) (l + 2) : K) = 2 * (2 * (l : K) + 3) * aCoef (l + 1) (l + 1) := by
  unfold aCoef
  have e1 : l + 2 + (l + 2) = (2 * l + 2) + 1 + 1 := by omega
  have e2 : l + 2 - (l + 2) = 0 := by omega
  have e3 : l + 1 + (l + 1) = 2 * l + 2 := by omega
  have e4 : l + 1 - (l + 1) = 0 := by omega
  rw [e1, e2, e3, e4, Nat.factorial_succ (2 * l + 2 + 1), Nat.factorial_succ (2 * l + 2),
    Nat.factorial_succ (l + 1)]
  have h1 := facK_ne (K := K) (l + 1)
  have h2 := facK_ne (K := K) (2 * l + 2)
  have h3 : ((l : K) + 1 + 1) ≠ 0 := by exact_mod_cast Nat.succ_ne_zero (l + 1)
  push_cast
  field_simp
  ring

/-- S_{l+2}(x) = S_l(x) + 2(2l+3) x S_{l+1}(x) for S_l(x) = Σ_{k ≤ l} a_k x^k -/
theorem aSum_rec (x : K) (l : ℕ) :
    ∑ k ∈ Finset.range (l + 3), aCoef (l + 2) k * x ^ k
      = ∑ k ∈ Finset.range (l + 1), aCoef l k * x ^ k
        + 2 * (2 * (l : K) + 3) * x * ∑ k ∈ Finset.range (l + 2), aCoef (l + 1) k * x ^ k := by
  rw [Finset.sum_range_succ' _ (l + 2), Finset.sum_range_succ' _ l, Finset.sum_range_succ _ (l + 1),
    Finset.sum_range_succ _ l, Finset.sum_range_succ (fun k => aCoef (l + 1) k * x ^ k) (l + 1),
    Finset.sum_range_succ (fun k => aCoef (l + 1) k * x ^ k) l]
  have hmid : ∀ k ∈ Finset.range l, (aCoef (l + 2) (k + 1) : K) * x ^ (k + 1)
      = aCoef l (k + 1) * x ^ (k + 1) + 2 * (2 * (l : K) + 3) * x * (aCoef (l + 1) k * x ^ k) := by
    intro k hk
    obtain ⟨m, rfl⟩ := Nat.exists_eq_add_of_lt (Finset.mem_range.mp hk)
    have e : k + m + 1 = k + 1 + m := by omega
    rw [e, aCoef_mid k m]
    ring
  rw [Finset.sum_congr rfl hmid, Finset.sum_add_distrib, ← Finset.mul_sum, aCoef_top1, aCoef_top2,
    aCoef_zero, aCoef_zero]
  ring

theorem largeAll_rec (v : K) (l : ℕ) :
    largeAll v (l + 2) = largeAll v l - 2 * (2 * (l : K) + 3) * v * largeAll v (l + 1) := by
  rw [largeAll_eq_sum, largeAll_eq_sum, largeAll_eq_sum, aSum_rec (-v) l]
  ring

theorem aCoef_nonneg (l k : ℕ) : (0 : ℝ) ≤ aCoef l k := by
  unfold aCoef
  positivity

theorem largeAll_zero (v : K) : largeAll v 0 = v := by
  rw [largeAll_eq_sum]; simp [aCoef]

theorem largeAll_one (v : K) : largeAll v 1 = v * (1 - 2 * v) := by
  rw [largeAll_eq_sum, Finset.sum_range_succ, Finset.sum_range_succ, Finset.sum_range_zero]
  have h1 : (aCoef 1 1 : K) = 2 := by norm_num [aCoef, Nat.factorial]
  rw [aCoef_zero, h1]
  ring

end

end Ecpint.BesselReal
