/-
Helper lemmas for C04 that only depend on the model (Model/Api.lean) and the generated index data:
closed form of `H_START` (C integer division is exact here because i(i+1) is even), and `landIn` as a
plain list sum.
-/
import Ecpint.Model.Api
import Mathlib.Tactic.Ring
import Mathlib.Tactic.Abel
import Mathlib.Tactic.Linarith
import Mathlib.Tactic.LinearCombination
import Mathlib.Algebra.Group.Nat.Even
import Mathlib.Algebra.BigOperators.Group.List.Basic

namespace Ecpint.Api

/-- the truncating division in `H_START` is exact -/
theorem tdiv_tri (a : Nat) :
    Int.tdiv ((9 * (a : Int)) * ((a : Int) + 1)) 2 * 2 = 9 * (a : Int) * ((a : Int) + 1) := by
  obtain ⟨m, hm⟩ := Nat.even_mul_succ_self a
  have h : (9 * (a : Int)) * ((a : Int) + 1) = 2 * (9 * (m : Int)) := by
    have : ((a * (a + 1) : Nat) : Int) = ((m + m : Nat) : Int) := by rw [hm]
    push_cast at this
    linear_combination 9 * this
  rw [h, Int.mul_tdiv_cancel_left _ (by decide : (2 : Int) ≠ 0)]
  ring

theorem two_mul_hStart (i j N : Nat) :
    2 * hStart i j N
      = 18 * (j : Int) + (18 * (N : Int) - 6) * i - 9 * (i : Int) * ((i : Int) + 1) - 6 := by
  have h := tdiv_tri i
  unfold hStart Gen.H_START
  linear_combination (-1 : Int) * h

theorem hStart_shift (a b N : Nat) : hStart a b N = hStart a a N + 9 * ((b : Int) - (a : Int)) := by
  unfold hStart Gen.H_START
  ring

/-! ### `landIn` is a sum -/

theorem landIn_eq_sum {ι β} [DecidableEq ι] [AddCommMonoid β] (slot : ι) (acc : β)
    (cs : List (ι × β)) :
    landIn slot acc cs = acc + (cs.map fun c => if c.1 = slot then c.2 else 0).sum := by
  unfold landIn
  induction cs generalizing acc with
  | nil => simp
  | cons c cs ih =>
    simp only [List.foldl_cons, List.map_cons, List.sum_cons]
    rw [ih]
    split_ifs <;> simp [add_assoc]

/-- a sum over `range m` of a function supported on one point -/
theorem sum_range_single {β} [AddCommMonoid β] (m k : Nat) (g : Nat → β) :
    ((List.range m).map fun n => if k = n then g n else 0).sum = if k < m then g k else 0 := by
  induction m with
  | zero => simp
  | succ m ih =>
    rw [List.range_succ, List.map_append, List.sum_append, ih]
    by_cases h1 : k < m
    · have : k ≠ m := by omega
      simp [h1, this, Nat.lt_succ_of_lt h1]
    · by_cases h2 : k = m
      · subst h2; simp
      · have : ¬ k < m + 1 := by omega
        simp [h1, h2, this]

end Ecpint.Api
