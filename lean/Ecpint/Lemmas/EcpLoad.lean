/-
Helper lemmas for C16 about the ECP container model (Ecpint/Model/EcpLoad.lean):
insertion sort by angular momentum, the `bump` of `l_starts`, and folds.
-/
import Ecpint.Model.EcpLoad
import Mathlib.Data.List.Perm.Basic

namespace Ecpint.EcpLoad

/-! ### insertion by angular momentum -/

theorem insertByL_perm (g : Gauss) (l : List Gauss) : (insertByL g l).Perm (g :: l) := by
  induction l with
  | nil => exact List.Perm.refl _
  | cons h t ih =>
    unfold insertByL
    split
    · exact List.Perm.refl _
    · exact (List.Perm.cons h ih).trans (List.Perm.swap g h t)

theorem insertByL_sorted (g : Gauss) (l : List Gauss) (hl : l.Pairwise (fun a b => a.l ≤ b.l)) :
    (insertByL g l).Pairwise (fun a b => a.l ≤ b.l) := by
  induction l with
  | nil => simp [insertByL]
  | cons h t ih =>
    unfold insertByL
    rw [List.pairwise_cons] at hl
    split
    · rename_i hlt
      rw [List.pairwise_cons]
      refine ⟨?_, List.pairwise_cons.2 hl⟩
      intro b hb
      rcases List.mem_cons.1 hb with rfl | hb
      · omega
      · have := hl.1 b hb
        omega
    · rename_i hge
      rw [List.pairwise_cons]
      refine ⟨?_, ih hl.2⟩
      intro b hb
      have hb2 := (insertByL_perm g t).mem_iff.1 hb
      rcases List.mem_cons.1 hb2 with rfl | hb3
      · omega
      · exact hl.1 b hb3

theorem foldl_insertByL_perm (gs acc : List Gauss) :
    (gs.foldl (fun acc g => insertByL g acc) acc).Perm (acc ++ gs) := by
  induction gs generalizing acc with
  | nil => simp
  | cons g t ih =>
    simp only [List.foldl_cons]
    refine (ih _).trans ?_
    refine ((insertByL_perm g acc).append_right t).trans ?_
    exact List.perm_middle.symm

theorem foldl_insertByL_sorted (gs acc : List Gauss) (hacc : acc.Pairwise (fun a b => a.l ≤ b.l)) :
    (gs.foldl (fun acc g => insertByL g acc) acc).Pairwise (fun a b => a.l ≤ b.l) := by
  induction gs generalizing acc with
  | nil => simpa using hacc
  | cons g t ih =>
    simp only [List.foldl_cons]
    exact ih _ (insertByL_sorted g acc hacc)

/-! ### `bump` -/

theorem bump_length (l : Nat) (ls : List Nat) : (bump l ls).length = ls.length := by
  simp [bump]

theorem bump_getD (l : Nat) (ls : List Nat) (i : Nat) (hi : i < ls.length) :
    (bump l ls).getD i 0 = ls.getD i 0 + (if l < i then 1 else 0) := by
  simp only [bump, List.getD_eq_getElem?_getD, List.getElem?_mapIdx, List.getElem?_eq_getElem hi,
    Option.map_some, Option.getD_some]
  split <;> rfl

/-! ### `addPrimitive` and `sort`, field by field -/

theorem addPrimitive_gaussians_perm (s : ECPState) (n : Int) (l : Nat) (a d : Dec) (b : Bool) :
    (addPrimitive s n l a d b).gaussians.Perm (s.gaussians ++ [{ n := n - 2, l := l, a := a, d := d }]) := by
  cases b
  · exact List.Perm.refl _
  · have h := foldl_insertByL_perm (s.gaussians ++ [{ n := n - 2, l := l, a := a, d := d }]) []
    rw [List.nil_append] at h
    exact h

theorem addPrimitive_N (s : ECPState) (n : Int) (l : Nat) (a d : Dec) (b : Bool) :
    (addPrimitive s n l a d b).N = s.N + 1 := rfl

theorem addPrimitive_lStarts (s : ECPState) (n : Int) (l : Nat) (a d : Dec) (b : Bool) :
    (addPrimitive s n l a d b).lStarts = bump l s.lStarts := rfl

theorem addPrimitive_L (s : ECPState) (n : Int) (l : Nat) (a d : Dec) (b : Bool) :
    (addPrimitive s n l a d b).L = max s.L (l : Int) := by
  simp only [addPrimitive, Int.max_def]
  split <;> split <;> omega

/-! ### folds -/

theorem foldl_max_append_singleton (xs : List Int) (x init : Int) :
    (xs ++ [x]).foldl max init = max (xs.foldl max init) x := by
  simp [List.foldl_append]

end Ecpint.EcpLoad
