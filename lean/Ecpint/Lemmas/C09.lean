/- generic lemmas for Props/C09.lean: scatter-add folds as filtered sums, filtered sums over nested flatMaps,
   sums with a single non-zero term, mixed-radix addresses -/
import Ecpint.Model.Contraction
import Ecpint.Lemmas.Contraction
import Mathlib.Algebra.BigOperators.Group.List.Basic
import Mathlib.Algebra.Ring.Defs
import Mathlib.Algebra.BigOperators.Ring.List
namespace Ecpint.C09Lemmas
open Ecpint.Contraction Ecpint.ContractionLemmas

variable {K : Type} [CommSemiring K]

/-! ### scatter-add fold -/

/-- a fold of `out[idx t] += val t` keeps the size and adds to entry `i` the values of the elements addressing `i` -/
theorem foldl_scatter {α : Type} (idx : α → Nat) (val : α → K) (ts : List α) (acc : Array K) :
    (ts.foldl (fun out t => out.setIfInBounds (idx t) (out.getD (idx t) 0 + val t)) acc).size = acc.size ∧
    ∀ i, i < acc.size →
      (ts.foldl (fun out t => out.setIfInBounds (idx t) (out.getD (idx t) 0 + val t)) acc).getD i 0
        = acc.getD i 0 + ((ts.filter fun t => idx t = i).map val).sum := by
  induction ts generalizing acc with
  | nil => simp
  | cons t ts ih =>
    simp only [List.foldl_cons]
    obtain ⟨h1, h2⟩ := ih (acc.setIfInBounds (idx t) (acc.getD (idx t) 0 + val t))
    refine ⟨by rw [h1]; simp, fun i hi => ?_⟩
    rw [h2 i (by simpa using hi)]
    by_cases h : idx t = i
    · subst h
      simp [Array.getD, hi, add_assoc]
    · simp [h, Array.getD, hi]

/-! ### filtered sums -/

/-- the sum of `g` over the elements of `l` that satisfy `p` -/
def fsum {α : Type} (p : α → Bool) (g : α → K) (l : List α) : K := ((l.filter p).map g).sum

theorem fsum_nil {α : Type} (p : α → Bool) (g : α → K) : fsum p g [] = 0 := rfl

theorem fsum_append {α : Type} (p : α → Bool) (g : α → K) (l1 l2 : List α) :
    fsum p g (l1 ++ l2) = fsum p g l1 + fsum p g l2 := by
  simp [fsum]

theorem fsum_flatMap {α β : Type} (p : α → Bool) (g : α → K) (l : List β) (f : β → List α) :
    fsum p g (l.flatMap f) = (l.map fun x => fsum p g (f x)).sum := by
  induction l with
  | nil => rfl
  | cons x l ih => simp only [List.flatMap_cons, fsum_append, ih, List.map_cons, List.sum_cons]

theorem fsum_ite {α : Type} (p : α → Bool) (g : α → K) (c : Bool) (l : List α) :
    fsum p g (if c then l else []) = if c then fsum p g l else 0 := by
  cases c <;> rfl

theorem fsum_map {α β : Type} (p : α → Bool) (g : α → K) (l : List β) (h : β → α) :
    fsum p g (l.map h) = (l.map fun x => if p (h x) then g (h x) else 0).sum := by
  unfold fsum
  rw [sum_filter_map, List.map_map]
  rfl

theorem sum_map_eq_zero {α : Type} (l : List α) (f : α → K) (h : ∀ x ∈ l, f x = 0) : (l.map f).sum = 0 := by
  rw [sum_map_congr l f (fun _ => 0) h, sum_map_zero']

theorem fsum_eq_zero {α : Type} (p : α → Bool) (g : α → K) (l : List α) (h : ∀ t ∈ l, p t = false) :
    fsum p g l = 0 := by
  unfold fsum
  rw [sum_filter_map]
  exact sum_map_eq_zero _ _ (fun x hx => by simp [h x hx])

/-- dropping elements whose value is zero does not change a filtered sum -/
theorem fsum_filter_drop {α : Type} (q p : α → Bool) (g : α → K) (l : List α) (h : ∀ x, q x = false → g x = 0) :
    fsum p g (l.filter q) = fsum p g l := by
  unfold fsum
  rw [sum_filter_map, sum_filter_map, sum_filter_map]
  refine sum_map_congr _ _ _ (fun x _ => ?_)
  cases hq : q x
  · simp [h x hq]
  · simp

/-! ### sums with a single non-zero term -/

theorem sum_range_single (n j : Nat) (F : Nat → K) (hj : j < n) (hF : ∀ i, i < n → i ≠ j → F i = 0) :
    ((List.range n).map F).sum = F j := by
  induction n with
  | zero => omega
  | succ n ih =>
    rw [List.range_succ, List.map_append, List.sum_append]
    by_cases h : j = n
    · subst h
      rw [sum_map_eq_zero _ _ (fun i hi => hF i (by have := List.mem_range.mp hi; omega)
        (by have := List.mem_range.mp hi; omega))]
      simp
    · rw [ih (by omega) (fun i hi hne => hF i (by omega) hne)]
      simp [hF n (by omega) (fun h' => h h'.symm)]

theorem sum_zipIdx_single {α : Type} (l : List α) (k n : Nat) (F : α × Nat → K) (hn : n < l.length)
    (hF : ∀ p ∈ l.zipIdx k, p.2 ≠ k + n → F p = 0) :
    ((l.zipIdx k).map F).sum = F (l[n], k + n) := by
  induction l generalizing k n with
  | nil => simp at hn
  | cons x l ih =>
    rw [List.zipIdx_cons, List.map_cons, List.sum_cons]
    cases n with
    | zero =>
      rw [sum_map_eq_zero _ _ (fun p hp => hF p (List.mem_cons_of_mem _ hp) (by
        have := List.mem_zipIdx hp
        omega))]
      simp
    | succ n =>
      have h0 : F (x, k) = 0 := hF (x, k) (by simp [List.zipIdx_cons]) (by simp)
      have hn' : n < l.length := by simpa using hn
      rw [h0, zero_add, ih (k + 1) n hn' (fun p hp hne => hF p (by
        rw [List.zipIdx_cons]; exact List.mem_cons_of_mem _ hp) (by omega))]
      simp only [List.getElem_cons_succ]
      congr 2
      omega

theorem sum_zipIdx_single' {α : Type} (l : List α) (n : Nat) (F : α × Nat → K) (hn : n < l.length)
    (hF : ∀ p ∈ l.zipIdx, p.2 ≠ n → F p = 0) :
    (l.zipIdx.map F).sum = F (l[n], n) := by
  have := sum_zipIdx_single l 0 n F hn (by simpa using hF)
  simpa using this

theorem mem_zipIdx_lt {α : Type} {l : List α} {p : α × Nat} (h : p ∈ l.zipIdx) : p.2 < l.length := by
  have := List.mem_zipIdx h
  omega

/-! ### product of two sums -/

theorem mul_sum_mul_sum {α β : Type} (c : K) (l1 : List α) (l2 : List β) (x : α → K) (y : β → K) :
    c * (l1.map x).sum * (l2.map y).sum = (l1.map fun i => (l2.map fun j => c * x i * y j).sum).sum := by
  simp only [List.sum_map_mul_left, List.sum_map_mul_right]

/-! ### mixed-radix addresses -/

theorem radix_unique {n a r a' r' : Nat} (hr : r < n) (hr' : r' < n) (h : a * n + r = a' * n + r') :
    a = a' ∧ r = r' := by
  rcases Nat.lt_trichotomy a a' with hlt | heq | hgt
  · have := Nat.mul_le_mul_right n (Nat.succ_le_of_lt hlt)
    rw [Nat.succ_mul] at this
    omega
  · subst heq
    omega
  · have := Nat.mul_le_mul_right n (Nat.succ_le_of_lt hgt)
    rw [Nat.succ_mul] at this
    omega

theorem addr_unique {nB nmu na nb mi na' nb' mi' : Nat} (hnb : nb < nB) (hnb' : nb' < nB) (hmi : mi < nmu)
    (hmi' : mi' < nmu) (h : (na' * nB + nb') * nmu + mi' = (na * nB + nb) * nmu + mi) :
    na' = na ∧ nb' = nb ∧ mi' = mi := by
  obtain ⟨h1, h2⟩ := radix_unique hmi' hmi h
  obtain ⟨h3, h4⟩ := radix_unique hnb' hnb h1
  exact ⟨h3, h4, h2⟩

end Ecpint.C09Lemmas
