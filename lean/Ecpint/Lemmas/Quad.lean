/-
Helper lemmas for C15: the index arithmetic of `sumIndices` (halved limit, mirrored index in closed form) and
the counting argument "a list that covers a duplicate-free list and is no longer than it is a permutation of it".
-/
import Ecpint.Model.Quad
import Mathlib.Tactic.Ring
import Mathlib.Tactic.Linarith
import Mathlib.Data.List.Perm.Basic
import Mathlib.Data.List.Perm.Subperm
import Mathlib.Data.List.Nodup
import Mathlib.Data.List.Range
import Mathlib.Data.Nat.Factorization.Basic

namespace Ecpint.QuadLemmas
open Ecpint.Quad

/-- counting argument: `l₂` covers the duplicate-free `l₁` and is not longer, hence is a permutation of it -/
theorem perm_of_nodup_subset_length {l₁ l₂ : List ℕ} (hnd : l₁.Nodup) (hsub : l₁ ⊆ l₂)
    (hlen : l₂.length ≤ l₁.length) : l₂.Perm l₁ :=
  ((List.subperm_of_subset hnd hsub).perm_of_length_le hlen).symm

/-- both members of every pair of `sumIndices`, as one `flatMap` over the loop counter -/
theorem flatMap_sumIndices (maxN limit shift skip : ℕ) :
    ((sumIndices maxN limit shift skip).flatMap fun q => [q.1, q.2])
      = (List.range (limit / 2 + 1)).flatMap fun j =>
          [(skip * (2 * j) + 1) * shift - 1, maxN - ((skip * (2 * j) + 1) * shift - 1) - 1] := by
  simp only [sumIndices, List.flatMap_map]

/-- a `flatMap` of pairs has twice the length -/
theorem length_flatMap_pair (l : List ℕ) (a b : ℕ → ℕ) :
    (l.flatMap fun j => [a j, b j]).length = 2 * l.length := by
  induction l with
  | nil => simp
  | cons x l ih => simp only [List.flatMap_cons, List.length_append, List.length_cons, List.length_nil, ih]; omega

/-- the loop `i = 0, 2, …, ≤ 2^(k+1) − 1` runs 2^k times -/
theorem half_limit (k : ℕ) : (2 ^ (k + 1) - 1) / 2 + 1 = 2 ^ k := by
  have := Nat.two_pow_pos k
  rw [pow_succ]; omega

/-- 2^P = 4·2^k·2^(P−2−k) -/
theorem two_pow_split_one (P k : ℕ) (hk : k + 2 ≤ P) : 2 ^ P = 4 * 2 ^ k * 2 ^ (P - 2 - k) := by
  have : P = 2 + k + (P - 2 - k) := by omega
  conv_lhs => rw [this]
  rw [pow_add, pow_add]; norm_num

/-- 3·2^P = 6·2^k·2^(P−1−k) -/
theorem two_pow_split_two (P k : ℕ) (hk : k + 1 ≤ P) : 3 * 2 ^ P = 6 * 2 ^ k * 2 ^ (P - 1 - k) := by
  have : P = 1 + k + (P - 1 - k) := by omega
  conv_lhs => rw [this]
  rw [pow_add, pow_add]; ring

/-- mirror index of the one-point scheme in closed form -/
theorem mirror_one (K s j : ℕ) (hj : j < K) (hs : 1 ≤ s) :
    4 * K * s - 1 - ((2 * (2 * j) + 1) * s - 1) - 1 = (4 * (K - 1 - j) + 3) * s - 1 := by
  obtain ⟨d, rfl⟩ : ∃ d, K = j + 1 + d := ⟨K - 1 - j, by omega⟩
  have hd : j + 1 + d - 1 - j = d := by omega
  have e1 : 4 * (j + 1 + d) * s = 4 * (j * s) + 4 * s + 4 * (d * s) := by ring
  have e2 : (2 * (2 * j) + 1) * s = 4 * (j * s) + s := by ring
  have e3 : (4 * d + 3) * s = 4 * (d * s) + 3 * s := by ring
  rw [hd, e1, e2, e3]; omega

/-- mirror index of the two-point scheme in closed form -/
theorem mirror_two (K s j : ℕ) (hj : j < K) (hs : 1 ≤ s) :
    6 * K * s - 1 - ((3 * (2 * j) + 1) * s - 1) - 1 = (6 * (K - 1 - j) + 5) * s - 1 := by
  obtain ⟨d, rfl⟩ : ∃ d, K = j + 1 + d := ⟨K - 1 - j, by omega⟩
  have hd : j + 1 + d - 1 - j = d := by omega
  have e1 : 6 * (j + 1 + d) * s = 6 * (j * s) + 6 * s + 6 * (d * s) := by ring
  have e2 : (3 * (2 * j) + 1) * s = 6 * (j * s) + s := by ring
  have e3 : (6 * d + 5) * s = 6 * (d * s) + 5 * s := by ring
  rw [hd, e1, e2, e3]; omega

/-- `m ↦ m·s − 1` is injective on the odd m when s ≥ 1 -/
theorem odd_stride_inj (s i i' : ℕ) (hs : 1 ≤ s) (h : (2 * i + 1) * s - 1 = (2 * i' + 1) * s - 1) : i = i' := by
  have h1 : 1 ≤ (2 * i + 1) * s := Nat.mul_pos (by omega) hs
  have h2 : 1 ≤ (2 * i' + 1) * s := Nat.mul_pos (by omega) hs
  have h3 : (2 * i + 1) * s = (2 * i' + 1) * s := by omega
  have := Nat.eq_of_mul_eq_mul_right hs h3
  omega

/-- the new nodes of a level are pairwise different -/
theorem nodup_odd_stride (n s : ℕ) (hs : 1 ≤ s) :
    ((List.range n).map fun i => (2 * i + 1) * s - 1).Nodup :=
  List.Nodup.map_on (fun i _ i' _ h => odd_stride_inj s i i' hs h) List.nodup_range

/-- Σ_{k<n} 2^(k+1) = 2^(n+1) − 2 as a list length -/
theorem length_flatMap_levels (f : ℕ → List ℕ) (hf : ∀ k, (f k).length = 2 ^ (k + 1)) (n : ℕ) :
    ((List.range n).flatMap f).length = 2 ^ (n + 1) - 2 := by
  induction n with
  | zero => simp
  | succ n ih =>
    rw [List.range_succ, List.flatMap_append, List.length_append, ih]
    simp only [List.flatMap_cons, List.flatMap_nil, List.append_nil, hf]
    have := Nat.two_pow_pos n
    rw [pow_succ 2 (n + 1), pow_succ 2 n]; omega

/-- every 1 ≤ m < 2^P is 2^(P−1), or an odd multiple (2i+1)·2^(P−2−k) with k < P−1 and i < 2^(k+1) -/
theorem dyadic_decomp (P m : ℕ) (hm : 1 ≤ m) (hmP : m < 2 ^ P) :
    m = 2 ^ (P - 1) ∨ ∃ k, k < P - 1 ∧ ∃ i, i < 2 ^ (k + 1) ∧ (2 * i + 1) * 2 ^ (P - 2 - k) = m := by
  obtain ⟨e, o, ho, rfl⟩ := Nat.exists_eq_two_pow_mul_odd (n := m) (by omega)
  obtain ⟨i, rfl⟩ := ho
  have he : e < P := by
    have : 2 ^ e ≤ 2 ^ e * (2 * i + 1) := Nat.le_mul_of_pos_right _ (by omega)
    exact (Nat.pow_lt_pow_iff_right (by norm_num : 1 < 2)).1 (lt_of_le_of_lt this hmP)
  by_cases hc : e = P - 1
  · left
    have hP : 2 ^ P = 2 ^ e * 2 := by rw [← pow_succ]; congr 1; omega
    rw [hP] at hmP
    have := Nat.lt_of_mul_lt_mul_left hmP
    have hi : i = 0 := by omega
    rw [hi, hc]; simp
  · right
    refine ⟨P - 2 - e, by omega, i, ?_, ?_⟩
    · have hP : 2 ^ P = 2 ^ e * 2 ^ (P - 2 - e + 1 + 1) := by rw [← pow_add]; congr 1; omega
      rw [hP] at hmP
      have := Nat.lt_of_mul_lt_mul_left hmP
      rw [pow_succ] at this; omega
    · have : P - 2 - (P - 2 - e) = e := by omega
      rw [this, Nat.mul_comm]

end Ecpint.QuadLemmas
