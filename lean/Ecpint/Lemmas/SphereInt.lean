/-
Measure-theory helper lemmas for Props/C13c.lean: the polar decomposition of an additive Haar measure for integrands
of the form (function on the sphere) × (function of the radius), the Gaussian moments on ℝ, and Fubini on
EuclideanSpace ℝ (Fin 3).
-/
import Mathlib.MeasureTheory.Constructions.HaarToSphere
import Mathlib.MeasureTheory.Integral.Gamma
import Mathlib.MeasureTheory.Integral.Pi
import Mathlib.MeasureTheory.Measure.Haar.InnerProductSpace
import Mathlib.Analysis.SpecialFunctions.Gaussian.GaussianIntegral

namespace Ecpint.SphereInt
open MeasureTheory Set Metric Real

section polar
variable {E : Type*} [NormedAddCommGroup E] [NormedSpace ℝ E] [MeasurableSpace E]
  [Nontrivial E] (μ : Measure E) [FiniteDimensional ℝ E] [BorelSpace E] [μ.IsAddHaarMeasure]

/-- polar decomposition: if G(r u) = h(u) f(r) for every unit vector u and r > 0, then
∫_E G dμ = (∫_{S} h dσ) (∫_0^∞ r^{dim E − 1} f(r) dr).  No integrability hypothesis is needed (both sides are 0 together
by the conventions of the Bochner integral). -/
theorem integral_sphere_mul_radial (G : E → ℝ) (h : sphere (0 : E) 1 → ℝ) (f : ℝ → ℝ)
    (hG : ∀ (u : sphere (0 : E) 1) (r : ℝ), 0 < r → G (r • u.1) = h u * f r) :
    ∫ x, G x ∂μ = (∫ u, h u ∂μ.toSphere) * ∫ r in Ioi (0 : ℝ), r ^ (Module.finrank ℝ E - 1) * f r := by
  calc
    ∫ x, G x ∂μ = ∫ x : ({(0)}ᶜ : Set E), G x.1 ∂(μ.comap (↑)) := by
      rw [integral_subtype_comap (measurableSet_singleton _).compl fun x ↦ G x,
        restrict_compl_singleton]
    _ = ∫ p, h p.1 * f p.2.1 ∂μ.toSphere.prod (.volumeIoiPow (Module.finrank ℝ E - 1)) := by
      have := μ.measurePreserving_homeomorphUnitSphereProd.integral_comp
        (Homeomorph.measurableEmbedding _) (fun p => h p.1 * f p.2.1)
      rw [← this]
      refine integral_congr_ae (.of_forall fun x => ?_)
      have hx := (homeomorphUnitSphereProd E).symm_apply_apply x
      have h2 := hG (homeomorphUnitSphereProd E x).1 (homeomorphUnitSphereProd E x).2.1
        (homeomorphUnitSphereProd E x).2.2
      rw [← homeomorphUnitSphereProd_symm_apply_coe, hx] at h2
      exact h2
    _ = (∫ u, h u ∂μ.toSphere) * ∫ r : Ioi (0 : ℝ), f r.1 ∂.volumeIoiPow (Module.finrank ℝ E - 1) :=
      integral_prod_mul h (fun r : Ioi (0 : ℝ) => f r.1)
    _ = _ := by
      congr 1
      simp only [Measure.volumeIoiPow, ENNReal.ofReal]
      rw [integral_withDensity_eq_integral_smul,
        integral_subtype_comap measurableSet_Ioi
          fun a ↦ Real.toNNReal (a ^ (Module.finrank ℝ E - 1)) • f a,
        setIntegral_congr_fun measurableSet_Ioi fun x hx ↦ ?_]
      · rw [NNReal.smul_def, Real.coe_toNNReal _ (pow_nonneg hx.out.le _), smul_eq_mul]
      · exact (measurable_subtype_coe.pow_const _).real_toNNReal

end polar

section gauss

/-- radial Gaussian moment -/
theorem integral_Ioi_pow_mul_exp_neg_sq (n : ℕ) :
    ∫ r in Ioi (0 : ℝ), r ^ n * exp (-r ^ 2) = 1 / 2 * Gamma (((n : ℝ) + 1) / 2) := by
  have := integral_rpow_mul_exp_neg_rpow (p := 2) (q := (n : ℝ)) (by norm_num)
    (by have : (0 : ℝ) ≤ n := Nat.cast_nonneg n
        linarith)
  rw [← this]
  refine setIntegral_congr_fun measurableSet_Ioi fun x _ => ?_
  simp only [rpow_natCast, rpow_two]

/-- even Gaussian moment on the line -/
theorem integral_pow_even_mul_exp_neg_sq (i : ℕ) :
    ∫ t : ℝ, t ^ (2 * i) * exp (-t ^ 2) = Gamma ((i : ℝ) + 1 / 2) := by
  have h := integral_comp_abs (f := fun t : ℝ => t ^ (2 * i) * exp (-t ^ 2))
  simp only [Even.pow_abs (even_two_mul i), sq_abs] at h
  rw [h, integral_Ioi_pow_mul_exp_neg_sq]
  have : (((2 * i : ℕ) : ℝ) + 1) / 2 = (i : ℝ) + 1 / 2 := by push_cast; ring
  rw [this]; ring

/-- Fubini on EuclideanSpace ℝ (Fin 3) for a product of functions of one coordinate each -/
theorem integral_euclidean_prod {ι : Type*} [Fintype ι] (f : ι → ℝ → ℝ) :
    ∫ v : EuclideanSpace ℝ ι, ∏ i, f i (v i) = ∏ i, ∫ t, f i t := by
  have := (EuclideanSpace.volume_preserving_symm_measurableEquiv_toLp ι).integral_comp'
    (g := fun x : ι → ℝ => ∏ i, f i (x i))
  rw [← integral_fintype_prod_volume_eq_prod, ← this]
  rfl

end gauss

end Ecpint.SphereInt
