/-
Real-analysis helpers for C12b: integrability of Gaussian-damped integrands on (0,∞) and the
"integral of a derivative vanishes" form of integration by parts.
-/
import Mathlib.Analysis.SpecialFunctions.Gaussian.GaussianIntegral
import Mathlib.MeasureTheory.Integral.IntegralEqImproper

namespace Ecpint.RadialReal
open MeasureTheory Set Filter

/-- completing the square: a linear term is absorbed by half of the Gaussian exponent -/
theorem gauss_lin_le (p c r : ℝ) (hp : 0 < p) : -p * r ^ 2 + c * r ≤ -(p / 2) * r ^ 2 + c ^ 2 / (2 * p) := by
  have h : 0 ≤ (p / 2) * (r - c / p) ^ 2 := by positivity
  have e : (p / 2) * (r - c / p) ^ 2 = (p / 2) * r ^ 2 - c * r + c ^ 2 / (2 * p) := by
    field_simp
    ring
  linarith

theorem integrableOn_pow_mul_gauss_lin (p c : ℝ) (hp : 0 < p) (k : ℕ) :
    IntegrableOn (fun r : ℝ => r ^ k * Real.exp (-p * r ^ 2 + c * r)) (Ioi 0) := by
  have h0 : IntegrableOn (fun r : ℝ => Real.exp (c ^ 2 / (2 * p)) * (r ^ (k : ℝ) * Real.exp (-(p / 2) * r ^ 2))) (Ioi 0) :=
    (integrableOn_rpow_mul_exp_neg_mul_sq (b := p / 2) (by positivity) (s := (k : ℝ))
      (by have : (0 : ℝ) ≤ k := Nat.cast_nonneg k; linarith)).const_mul _
  refine Integrable.mono' h0 ?_ ?_
  · exact (by fun_prop : Continuous fun r : ℝ => r ^ k * Real.exp (-p * r ^ 2 + c * r)).aestronglyMeasurable
  · refine (ae_restrict_iff' measurableSet_Ioi).2 (Eventually.of_forall fun r hr => ?_)
    have hr0 : (0 : ℝ) < r := hr
    rw [Real.norm_eq_abs, abs_of_nonneg (by positivity), Real.rpow_natCast]
    have h1 : Real.exp (-p * r ^ 2 + c * r) ≤ Real.exp (c ^ 2 / (2 * p)) * Real.exp (-(p / 2) * r ^ 2) := by
      rw [← Real.exp_add]
      apply Real.exp_le_exp.2
      have := gauss_lin_le p c r hp
      linarith
    calc r ^ k * Real.exp (-p * r ^ 2 + c * r)
        ≤ r ^ k * (Real.exp (c ^ 2 / (2 * p)) * Real.exp (-(p / 2) * r ^ 2)) :=
          mul_le_mul_of_nonneg_left h1 (by positivity)
      _ = _ := by ring

/-- a continuous function dominated on (0,∞) by `C r^k e^{-p r² + c r}` is integrable there -/
theorem integrableOn_of_gauss_bound (f : ℝ → ℝ) (hf : Continuous f) (p c C : ℝ) (hp : 0 < p) (k : ℕ)
    (hb : ∀ r : ℝ, 0 < r → |f r| ≤ C * (r ^ k * Real.exp (-p * r ^ 2 + c * r))) :
    IntegrableOn f (Ioi 0) := by
  refine Integrable.mono' ((integrableOn_pow_mul_gauss_lin p c hp k).const_mul C) hf.aestronglyMeasurable ?_
  exact (ae_restrict_iff' measurableSet_Ioi).2 (Eventually.of_forall fun r hr => hb r hr)

/-- the product `r^k e^{-p r²} f(r) g(r)` with `f, g` continuous of exponential type is integrable on (0,∞) -/
theorem integrableOn_gauss_mul (p a b : ℝ) (hp : 0 < p) (k : ℕ) (f g : ℝ → ℝ) (hf : Continuous f) (hg : Continuous g)
    (hfb : ∀ r : ℝ, 0 < r → |f r| ≤ Real.exp (a * r)) (hgb : ∀ r : ℝ, 0 < r → |g r| ≤ Real.exp (b * r)) :
    IntegrableOn (fun r : ℝ => r ^ k * Real.exp (-p * r ^ 2) * f r * g r) (Ioi 0) := by
  refine integrableOn_of_gauss_bound _ (by fun_prop) p (a + b) 1 hp k fun r hr => ?_
  rw [abs_mul, abs_mul, abs_of_nonneg (by positivity : 0 ≤ r ^ k * Real.exp (-p * r ^ 2))]
  have e : Real.exp (-p * r ^ 2 + (a + b) * r) = Real.exp (-p * r ^ 2) * Real.exp (a * r) * Real.exp (b * r) := by
    rw [← Real.exp_add, ← Real.exp_add]
    congr 1
    ring
  rw [e, one_mul]
  have h1 := mul_le_mul (hfb r hr) (hgb r hr) (abs_nonneg _) (Real.exp_pos _).le
  calc r ^ k * Real.exp (-p * r ^ 2) * |f r| * |g r|
      = (r ^ k * Real.exp (-p * r ^ 2)) * (|f r| * |g r|) := by ring
    _ ≤ (r ^ k * Real.exp (-p * r ^ 2)) * (Real.exp (a * r) * Real.exp (b * r)) :=
        mul_le_mul_of_nonneg_left h1 (by positivity)
    _ = _ := by ring

/-- integration by parts in the form used here: an integrable `F` with integrable derivative, continuous at 0
with `F 0 = 0`, has `∫_0^∞ F' = 0` -/
theorem integral_Ioi_deriv_eq_zero (F F' : ℝ → ℝ) (hd : ∀ r ∈ Ioi (0 : ℝ), HasDerivAt F (F' r) r)
    (hc : ContinuousWithinAt F (Ici 0) 0) (h0 : F 0 = 0)
    (hF : IntegrableOn F (Ioi 0)) (hF' : IntegrableOn F' (Ioi 0)) : ∫ r in Ioi (0 : ℝ), F' r = 0 := by
  have ht := tendsto_zero_of_hasDerivAt_of_integrableOn_Ioi hd hF' hF
  rw [integral_Ioi_of_hasDerivAt_of_tendsto hc hd hF' ht, h0, sub_zero]

/-- integration by parts for `r^(m+1) e^{-p r²} A(r) B(r)` on (0,∞): the four pieces of the derivative integrate to 0.
`A'`, `B'` need only be derivatives on `r > 0` (they may contain `1/r`), so integrability of the two pieces containing
them is a hypothesis. -/
theorem ibp_core (p a b : ℝ) (hp : 0 < p) (m : ℕ) (A B A' B' : ℝ → ℝ)
    (hA : ∀ r : ℝ, 0 < r → HasDerivAt A (A' r) r) (hB : ∀ r : ℝ, 0 < r → HasDerivAt B (B' r) r)
    (cA : Continuous A) (cB : Continuous B)
    (bA : ∀ r : ℝ, 0 < r → |A r| ≤ Real.exp (a * r)) (bB : ∀ r : ℝ, 0 < r → |B r| ≤ Real.exp (b * r))
    (iA : IntegrableOn (fun r : ℝ => r ^ (m + 1) * Real.exp (-p * r ^ 2) * A' r * B r) (Ioi 0))
    (iB : IntegrableOn (fun r : ℝ => r ^ (m + 1) * Real.exp (-p * r ^ 2) * A r * B' r) (Ioi 0)) :
    ((m : ℝ) + 1) * (∫ r in Ioi (0 : ℝ), r ^ m * Real.exp (-p * r ^ 2) * A r * B r)
      - 2 * p * (∫ r in Ioi (0 : ℝ), r ^ (m + 2) * Real.exp (-p * r ^ 2) * A r * B r)
      + (∫ r in Ioi (0 : ℝ), r ^ (m + 1) * Real.exp (-p * r ^ 2) * A' r * B r)
      + (∫ r in Ioi (0 : ℝ), r ^ (m + 1) * Real.exp (-p * r ^ 2) * A r * B' r) = 0 := by
  have i1 := integrableOn_gauss_mul p a b hp m A B cA cB bA bB
  have i2 := integrableOn_gauss_mul p a b hp (m + 2) A B cA cB bA bB
  have iF := integrableOn_gauss_mul p a b hp (m + 1) A B cA cB bA bB
  have j1 := i1.const_mul ((m : ℝ) + 1)
  have j2 := i2.const_mul (2 * p)
  have hd : ∀ r ∈ Ioi (0 : ℝ), HasDerivAt (fun r : ℝ => r ^ (m + 1) * Real.exp (-p * r ^ 2) * A r * B r)
      (((m : ℝ) + 1) * (r ^ m * Real.exp (-p * r ^ 2) * A r * B r)
        - 2 * p * (r ^ (m + 2) * Real.exp (-p * r ^ 2) * A r * B r)
        + r ^ (m + 1) * Real.exp (-p * r ^ 2) * A' r * B r
        + r ^ (m + 1) * Real.exp (-p * r ^ 2) * A r * B' r) r := by
    intro r hr
    have hr0 : (0 : ℝ) < r := hr
    have h1 : HasDerivAt (fun r : ℝ => r ^ (m + 1)) (((m + 1 : ℕ) : ℝ) * r ^ m) r := by
      simpa using hasDerivAt_pow (m + 1) r
    have h2 : HasDerivAt (fun r : ℝ => Real.exp (-p * r ^ 2)) (Real.exp (-p * r ^ 2) * (-p * (2 * r))) r := by
      have hq : HasDerivAt (fun r : ℝ => -p * r ^ 2) (-p * (2 * r)) r := by
        simpa using (hasDerivAt_pow 2 r).const_mul (-p)
      exact hq.exp
    have h := ((h1.mul h2).mul (hA r hr0)).mul (hB r hr0)
    refine h.congr_deriv ?_
    simp only [Pi.mul_apply]
    push_cast
    ring
  have hc : ContinuousWithinAt (fun r : ℝ => r ^ (m + 1) * Real.exp (-p * r ^ 2) * A r * B r) (Ici 0) 0 :=
    (by fun_prop : Continuous fun r : ℝ => r ^ (m + 1) * Real.exp (-p * r ^ 2) * A r * B r).continuousWithinAt
  have k2 : IntegrableOn (fun r : ℝ => ((m : ℝ) + 1) * (r ^ m * Real.exp (-p * r ^ 2) * A r * B r)
        - 2 * p * (r ^ (m + 2) * Real.exp (-p * r ^ 2) * A r * B r)) (Ioi 0) := j1.sub j2
  have k3 : IntegrableOn (fun r : ℝ => ((m : ℝ) + 1) * (r ^ m * Real.exp (-p * r ^ 2) * A r * B r)
        - 2 * p * (r ^ (m + 2) * Real.exp (-p * r ^ 2) * A r * B r)
        + r ^ (m + 1) * Real.exp (-p * r ^ 2) * A' r * B r) (Ioi 0) := k2.add iA
  have k4 : IntegrableOn (fun r : ℝ => ((m : ℝ) + 1) * (r ^ m * Real.exp (-p * r ^ 2) * A r * B r)
        - 2 * p * (r ^ (m + 2) * Real.exp (-p * r ^ 2) * A r * B r)
        + r ^ (m + 1) * Real.exp (-p * r ^ 2) * A' r * B r
        + r ^ (m + 1) * Real.exp (-p * r ^ 2) * A r * B' r) (Ioi 0) := k3.add iB
  have h := integral_Ioi_deriv_eq_zero _ _ hd hc (by simp) iF k4
  rw [integral_add k3 iB, integral_add k2 iA, integral_sub j1 j2,
    integral_const_mul, integral_const_mul] at h
  exact h

/-- `ibp_core` with the second derivative piece written with the differentiated factor first -/
theorem ibp_core2 (p a b : ℝ) (hp : 0 < p) (m : ℕ) (A B A' B' : ℝ → ℝ)
    (hA : ∀ r : ℝ, 0 < r → HasDerivAt A (A' r) r) (hB : ∀ r : ℝ, 0 < r → HasDerivAt B (B' r) r)
    (cA : Continuous A) (cB : Continuous B)
    (bA : ∀ r : ℝ, 0 < r → |A r| ≤ Real.exp (a * r)) (bB : ∀ r : ℝ, 0 < r → |B r| ≤ Real.exp (b * r))
    (iA : IntegrableOn (fun r : ℝ => r ^ (m + 1) * Real.exp (-p * r ^ 2) * A' r * B r) (Ioi 0))
    (iB : IntegrableOn (fun r : ℝ => r ^ (m + 1) * Real.exp (-p * r ^ 2) * B' r * A r) (Ioi 0)) :
    ((m : ℝ) + 1) * (∫ r in Ioi (0 : ℝ), r ^ m * Real.exp (-p * r ^ 2) * A r * B r)
      - 2 * p * (∫ r in Ioi (0 : ℝ), r ^ (m + 2) * Real.exp (-p * r ^ 2) * A r * B r)
      + (∫ r in Ioi (0 : ℝ), r ^ (m + 1) * Real.exp (-p * r ^ 2) * A' r * B r)
      + (∫ r in Ioi (0 : ℝ), r ^ (m + 1) * Real.exp (-p * r ^ 2) * B' r * A r) = 0 := by
  have e : (fun r : ℝ => r ^ (m + 1) * Real.exp (-p * r ^ 2) * B' r * A r)
      = fun r : ℝ => r ^ (m + 1) * Real.exp (-p * r ^ 2) * A r * B' r := by
    funext r
    ring
  rw [e] at iB ⊢
  exact ibp_core p a b hp m A B A' B' hA hB cA cB bA bB iA iB

end Ecpint.RadialReal
