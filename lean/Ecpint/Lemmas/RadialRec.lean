import Ecpint.Model.RadialRec
import Mathlib.Algebra.Field.Basic
namespace Ecpint.RadialRec

/-- the four reduction relations for N < 1 (eqs 37–39): each is an integration by parts -/
structure Reductions {K : Type} [Field K] (p x y : K) (fam : Fam K) : Prop where
  hF : ∀ N : Int, N ≤ 0 → fam.F N = (2 * p * fam.F (N + 2) - 2 * y * fam.GB (N + 1) - 2 * x * fam.GA (N + 1)) / ((N : K) - 1)
  hGB : ∀ N : Int, N ≤ 0 → fam.GB N = (2 * p * fam.GB (N + 2) - 2 * y * fam.F (N + 1) - 2 * x * fam.H (N + 1)) / ((N : K) - 1)
  hGA : ∀ N : Int, N ≤ 0 → fam.GA N = (2 * p * fam.GA (N + 2) - 2 * y * fam.H (N + 1) - 2 * x * fam.F (N + 1)) / ((N : K) - 1)
  hH : ∀ N : Int, N ≤ 0 → fam.H N = (2 * p * fam.H (N + 2) - 2 * y * fam.GA (N + 1) - 2 * x * fam.GB (N + 1)) / ((N : K) - 1)

end Ecpint.RadialRec
