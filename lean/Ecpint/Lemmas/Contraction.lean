/- generic lemmas for Props/C07.lean: accumulator folds as explicit sums, exchange of list sums -/
import Ecpint.Model.Contraction
import Mathlib.Algebra.BigOperators.Group.List.Basic
import Mathlib.Algebra.Ring.Defs
namespace Ecpint.ContractionLemmas
open Ecpint.Contraction

variable {K : Type} [CommSemiring K]

/-! ### list sums -/

theorem sum_map_zero' {α : Type} (l : List α) : (l.map fun _ => (0 : K)).sum = 0 := by
  induction l with
  | nil => rfl
  | cons x l ih => simp

theorem sum_map_add' {α : Type} (l : List α) (f g : α → K) :
    (l.map fun x => f x + g x).sum = (l.map f).sum + (l.map g).sum := by
  induction l with
  | nil => simp
  | cons x l ih =>
    simp only [List.map_cons, List.sum_cons, ih]
    rw [add_add_add_comm]

/-- exchange of two list sums -/
theorem sum_map_comm {α β : Type} (l1 : List α) (l2 : List β) (f : α → β → K) :
    (l1.map fun x => (l2.map fun y => f x y).sum).sum = (l2.map fun y => (l1.map fun x => f x y).sum).sum := by
  induction l1 with
  | nil => simp
  | cons x l ih =>
    simp only [List.map_cons, List.sum_cons, ih]
    rw [← sum_map_add']

theorem sum_filter_map {α : Type} (l : List α) (p : α → Bool) (f : α → K) :
    ((l.filter p).map f).sum = (l.map fun x => if p x then f x else 0).sum := by
  induction l with
  | nil => rfl
  | cons x l ih =>
    by_cases hp : p x
    · simp [hp, ih]
    · simp [hp, ih]

theorem sum_map_congr {α : Type} (l : List α) (f g : α → K) (h : ∀ x ∈ l, f x = g x) :
    (l.map f).sum = (l.map g).sum := by
  rw [List.map_congr_left h]

/-! ### scalar accumulator -/

/-- `F` adds the constant `c` to its accumulator -/
def AddsS (F : K → K) (c : K) : Prop := ∀ v, F v = v + c

theorem AddsS.id : AddsS (fun v : K => v) 0 := fun v => (add_zero v).symm

theorem AddsS.add (c : K) : AddsS (fun v : K => v + c) c := fun _ => rfl

theorem AddsS.ite (b : Bool) {F : K → K} {c : K} (h : AddsS F c) :
    AddsS (fun v => if b then F v else v) (if b then c else 0) := by
  cases b
  · simpa using AddsS.id
  · simpa using h

theorem AddsS.foldl {α : Type} (l : List α) (F : K → α → K) (g : α → K)
    (h : ∀ x ∈ l, AddsS (fun v => F v x) (g x)) :
    AddsS (fun v => l.foldl F v) (l.map g).sum := by
  induction l with
  | nil => exact AddsS.id
  | cons x l ih =>
    intro v
    simp only [List.foldl_cons, List.map_cons, List.sum_cons]
    have h1 : F v x = v + g x := h x List.mem_cons_self v
    have h2 : l.foldl F (F v x) = F v x + (l.map g).sum := ih (fun y hy => h y (List.mem_cons_of_mem _ hy)) (F v x)
    rw [h2, h1, add_assoc]

/-- a fold of adding steps started at zero computes the sum -/
theorem AddsS.foldl_zero {α : Type} (l : List α) (F : K → α → K) (g : α → K)
    (h : ∀ x ∈ l, AddsS (fun v => F v x) (g x)) :
    l.foldl F 0 = (l.map g).sum := by
  have h1 : l.foldl F 0 = 0 + (l.map g).sum := AddsS.foldl l F g h 0
  rw [h1, zero_add]

/-! ### array accumulator -/

/-- on accumulators of size `n`, `F` keeps the size and adds `g i` to entry `i` -/
def AddsA (n : Nat) (F : Array K → Array K) (g : Nat → K) : Prop :=
  ∀ acc, acc.size = n → (F acc).size = n ∧ ∀ i, i < n → (F acc).getD i 0 = acc.getD i 0 + g i

theorem AddsA.id (n : Nat) : AddsA n (fun acc : Array K => acc) (fun _ => 0) :=
  fun _ hs => ⟨hs, fun _ _ => (add_zero _).symm⟩

theorem AddsA.mapIdx (n : Nat) (g : Nat → K) : AddsA n (fun acc : Array K => acc.mapIdx fun i v => v + g i) g := by
  intro acc hs
  refine ⟨by simp [hs], fun i hi => ?_⟩
  have hi' : i < acc.size := by omega
  simp [Array.getD, hi']

theorem AddsA.ite {n : Nat} (b : Bool) {F : Array K → Array K} {g : Nat → K} (h : AddsA n F g) :
    AddsA n (fun acc => if b then F acc else acc) (fun i => if b then g i else 0) := by
  cases b
  · simpa using AddsA.id n
  · simpa using h

theorem AddsA.foldl {n : Nat} {α : Type} (l : List α) (F : Array K → α → Array K) (g : α → Nat → K)
    (h : ∀ x ∈ l, AddsA n (fun acc => F acc x) (g x)) :
    AddsA n (fun acc => l.foldl F acc) (fun i => (l.map fun x => g x i).sum) := by
  induction l with
  | nil => simpa using AddsA.id n
  | cons x l ih =>
    intro acc hs
    simp only [List.foldl_cons, List.map_cons, List.sum_cons]
    have h1 := h x List.mem_cons_self acc hs
    have h2 := ih (fun y hy => h y (List.mem_cons_of_mem _ hy)) (F acc x) h1.1
    refine ⟨h2.1, fun i hi => ?_⟩
    rw [h2.2 i hi, h1.2 i hi, add_assoc]

theorem AddsA.congr {n : Nat} {F : Array K → Array K} {g g' : Nat → K} (h : AddsA n F g)
    (hg : ∀ i, i < n → g i = g' i) : AddsA n F g' := by
  intro acc hs
  refine ⟨(h acc hs).1, fun i hi => ?_⟩
  rw [(h acc hs).2 i hi, hg i hi]

/-- it is enough to know what `F` adds below `n` -/
theorem AddsA.mapIdx' (n : Nat) (g g' : Nat → K) (hg : ∀ i, i < n → g i = g' i) :
    AddsA n (fun acc : Array K => acc.mapIdx fun i v => v + g i) g' :=
  (AddsA.mapIdx n g).congr hg

/-- a fold of adding steps started on the zero array computes the sums -/
theorem AddsA.foldl_replicate {n : Nat} {α : Type} (l : List α) (F : Array K → α → Array K) (g : α → Nat → K)
    (h : ∀ x ∈ l, AddsA n (fun acc => F acc x) (g x)) :
    (l.foldl F (Array.replicate n 0)).size = n ∧
      ∀ i, i < n → (l.foldl F (Array.replicate n 0)).getD i 0 = (l.map fun x => g x i).sum := by
  have h1 := AddsA.foldl l F g h (Array.replicate n 0) (by simp)
  refine ⟨h1.1, fun i hi => ?_⟩
  have h2 := h1.2 i hi
  simp only [Array.getD, Array.size_replicate, hi, dite_true] at h2 ⊢
  simpa [Array.getD, h1.1, hi] using h2

/-- two arrays with the same size and the same `getD` entries are equal -/
theorem ext_getD {a b : Array K} (hs : a.size = b.size) (h : ∀ i, i < a.size → a.getD i 0 = b.getD i 0) : a = b := by
  apply Array.ext hs
  intro i h1 h2
  have := h i h1
  simpa [Array.getD, h1, h2] using this

/-- reading the two-index table built by `rolled_up` -/
theorem get2_table (n m : Nat) (f : Nat → Nat → K) (i j : Nat) (hi : i < n) (hj : j < m) :
    get2 ((Array.range n).map fun i => (Array.range m).map fun j => f i j) i j = f i j := by
  simp [get2, Array.getD, hi, hj]

theorem mem_parityRange {n p l : Nat} : l ∈ parityRange n p ↔ l ≤ n ∧ l % 2 = p % 2 := by
  simp [parityRange, Nat.lt_succ_iff]

/-- the parity-restricted double loop of `rolled_up` can be run in either order -/
theorem parity_sum_swap (n1 n2 N : Nat) (f : Nat → Nat → K) :
    ((List.range (n1 + 1)).map fun l1 => ((parityRange n2 (l1 + N)).map fun l2 => f l1 l2).sum).sum
      = ((List.range (n2 + 1)).map fun l2 => ((parityRange n1 (l2 + N)).map fun l1 => f l1 l2).sum).sum := by
  unfold parityRange
  simp only [sum_filter_map]
  rw [sum_map_comm]
  refine sum_map_congr _ _ _ (fun l2 _ => sum_map_congr _ _ _ (fun l1 _ => ?_))
  have h : (l2 % 2 = (l1 + N) % 2) ↔ (l1 % 2 = (l2 + N) % 2) := by omega
  simp only [h]

end Ecpint.ContractionLemmas
