/-
Lemmas about the concurrency model (Model/Conc.lean) used by Props/C10.lean.
-/
import Ecpint.Model.Conc

namespace Ecpint.Conc

/-! ### single steps -/

theorem exec_nil (m : Mem) (t : Thread) (h : t.rest = []) : exec m t = (m, t) := by
  unfold exec; rw [h]

theorem exec_rest (m : Mem) (t : Thread) : (exec m t).2.rest = t.rest.tail := by
  unfold exec; split <;> simp_all

/-- the thread component and the memory on agreed locations depend only on the memory at the locations read -/
theorem exec_congr (m1 m2 : Mem) (t : Thread) (h : ∀ l ∈ Prog.reads t.rest, m1 l = m2 l) :
    (exec m1 t).2 = (exec m2 t).2 ∧ ∀ l, m1 l = m2 l → (exec m1 t).1 l = (exec m2 t).1 l := by
  unfold exec
  split
  · exact ⟨rfl, fun l hl => hl⟩
  · rename_i l r hr
    have : m1 l = m2 l := h l (by simp [hr, Prog.reads, Instr.reads])
    exact ⟨by simp [this], fun k hk => hk⟩
  · rename_i l f r hr
    refine ⟨rfl, fun k hk => ?_⟩
    by_cases hkl : k = l <;> simp [hkl, hk]

/-- a step changes the memory only at locations its thread writes -/
theorem exec_frame (m : Mem) (t : Thread) (l : Loc) (h : l ∉ Prog.writes t.rest) : (exec m t).1 l = m l := by
  unfold exec
  split
  · rfl
  · rfl
  · rename_i k f r hr
    have : l ≠ k := by
      intro e; apply h; simp [hr, Prog.writes, Instr.writes, e]
    simp [this]

theorem reads_drop_subset (p : Prog) (n : Nat) (l : Loc) (h : l ∈ Prog.reads (p.drop n)) : l ∈ Prog.reads p := by
  unfold Prog.reads at *
  rw [List.mem_flatMap] at *
  obtain ⟨a, ha, hl⟩ := h
  exact ⟨a, List.mem_of_mem_drop ha, hl⟩

theorem writes_drop_subset (p : Prog) (n : Nat) (l : Loc) (h : l ∈ Prog.writes (p.drop n)) : l ∈ Prog.writes p := by
  unfold Prog.writes at *
  rw [List.mem_flatMap] at *
  obtain ⟨a, ha, hl⟩ := h
  exact ⟨a, List.mem_of_mem_drop ha, hl⟩

/-! ### a thread alone, `n` steps -/

/-- memory and thread state after the first `n` steps of program `p` run alone from memory `m` -/
def aloneAfter (m : Mem) (p : Prog) : Nat → Mem × Thread
  | 0 => (m, { rest := p, trace := [] })
  | n + 1 => exec (aloneAfter m p n).1 (aloneAfter m p n).2

theorem aloneAfter_rest (m : Mem) (p : Prog) (n : Nat) : (aloneAfter m p n).2.rest = p.drop n := by
  induction n with
  | zero => simp [aloneAfter]
  | succ n ih => simp [aloneAfter, exec_rest, ih]

theorem aloneAfter_stable (m : Mem) (p : Prog) (n d : Nat) (h : (aloneAfter m p n).2.rest = []) :
    aloneAfter m p (n + d) = aloneAfter m p n := by
  induction d with
  | zero => rfl
  | succ d ih =>
    show exec (aloneAfter m p (n + d)).1 (aloneAfter m p (n + d)).2 = _
    rw [ih, exec_nil _ _ h]

theorem foldl_exec_aloneAfter (l : List Instr) (m : Mem) (p : Prog) (n : Nat) :
    l.foldl (fun (mt : Mem × Thread) _ => exec mt.1 mt.2) (aloneAfter m p n) = aloneAfter m p (n + l.length) := by
  induction l generalizing n with
  | nil => rfl
  | cons a l ih =>
    rw [List.foldl_cons]
    have : exec (aloneAfter m p n).1 (aloneAfter m p n).2 = aloneAfter m p (n + 1) := rfl
    rw [this, ih, List.length_cons]
    congr 1; omega

theorem alone_eq_aloneAfter (m : Mem) (p : Prog) :
    alone m { rest := p, trace := [] } = aloneAfter m p p.length := by
  have := foldl_exec_aloneAfter p m p 0
  simpa [alone, aloneAfter] using this

/-- once a thread run alone has nothing left, it is in its final (`alone`) state -/
theorem aloneAfter_finished (m : Mem) (p : Prog) (n : Nat) (h : (aloneAfter m p n).2.rest = []) :
    aloneAfter m p n = alone m { rest := p, trace := [] } := by
  rw [alone_eq_aloneAfter]
  have h1 := aloneAfter_stable m p n p.length h
  have h2 := aloneAfter_stable m p p.length n (by simp [aloneAfter_rest])
  rw [← h1, ← h2, Nat.add_comm]

/-! ### the schedule-independence invariant -/

/-- every thread is at some point of its solo run, and the shared memory agrees with that solo run on the
thread's own footprint -/
def Inv (m : Mem) (progs : List Prog) (c : Config) : Prop :=
  c.threads.length = progs.length ∧
  ∀ (i : Nat) (p : Prog), progs[i]? = some p → ∃ n, c.threads[i]? = some (aloneAfter m p n).2 ∧
    ∀ l, (l ∈ Prog.reads p ∨ l ∈ Prog.writes p) → c.mem l = (aloneAfter m p n).1 l

theorem inv_start (m : Mem) (progs : List Prog) : Inv m progs (start m progs) := by
  refine ⟨by simp [start], fun i p hp => ⟨0, ?_, fun l _ => rfl⟩⟩
  simp [start, hp, aloneAfter]

theorem inv_tick (m : Mem) (progs : List Prog) (hd : Disjoint progs) (c : Config) (tid : Nat)
    (hc : Inv m progs c) : Inv m progs (tick c tid) := by
  obtain ⟨hlen, hinv⟩ := hc
  unfold tick
  cases ht : c.threads[tid]? with
  | none => exact ⟨hlen, hinv⟩
  | some t =>
    have htid : tid < progs.length := by
      rw [← hlen]
      exact (List.getElem?_eq_some_iff.mp ht).1
    obtain ⟨q, hq⟩ : ∃ q, progs[tid]? = some q := ⟨progs[tid], List.getElem?_eq_getElem htid⟩
    obtain ⟨nq, htq, hmq⟩ := hinv tid q hq
    have hte : t = (aloneAfter m q nq).2 := by
      rw [ht] at htq; exact Option.some.inj htq
    have hrest : t.rest = q.drop nq := by rw [hte, aloneAfter_rest]
    have hcg := exec_congr c.mem (aloneAfter m q nq).1 t (by
      intro l hl
      rw [hrest] at hl
      exact hmq l (Or.inl (reads_drop_subset q nq l hl)))
    refine ⟨by simp [hlen], fun i p hp => ?_⟩
    by_cases hi : i = tid
    · subst hi
      have hpq : p = q := by rw [hq] at hp; exact (Option.some.inj hp).symm
      subst hpq
      refine ⟨nq + 1, ?_, ?_⟩
      · have : i < c.threads.length := by omega
        simp only [List.getElem?_set_self this]
        show some (exec c.mem t).2 = some (exec (aloneAfter m p nq).1 (aloneAfter m p nq).2).2
        rw [hcg.1, ← hte]
      · intro l hl
        show (exec c.mem t).1 l = (exec (aloneAfter m p nq).1 (aloneAfter m p nq).2).1 l
        rw [← hte]
        exact hcg.2 l (hmq l hl)
    · obtain ⟨n, htn, hmn⟩ := hinv i p hp
      refine ⟨n, ?_, ?_⟩
      · simp only [List.getElem?_set_ne (Ne.symm hi)]
        exact htn
      · intro l hl
        show (exec c.mem t).1 l = _
        rw [exec_frame, hmn l hl]
        intro hw
        rw [hrest] at hw
        have := hd tid i (Ne.symm hi) q p hq hp l (writes_drop_subset q nq l hw)
        rcases hl with hl | hl
        · exact this.1 hl
        · exact this.2 hl

theorem inv_run (m : Mem) (progs : List Prog) (hd : Disjoint progs) (sched : List Nat) (c : Config)
    (hc : Inv m progs c) : Inv m progs (run c sched) := by
  induction sched generalizing c with
  | nil => exact hc
  | cons a s ih => exact ih (tick c a) (inv_tick m progs hd c a hc)

/-! ### how much each thread still has to run -/

/-- number of instructions thread `i` still has to run (0 for an id out of range) -/
def restLen (c : Config) (i : Nat) : Nat := ((c.threads[i]?).map fun t => t.rest.length).getD 0

theorem restLen_tick_self (c : Config) (tid : Nat) : restLen (tick c tid) tid = restLen c tid - 1 := by
  unfold tick restLen
  cases ht : c.threads[tid]? with
  | none => simp [ht]
  | some t =>
    have : tid < c.threads.length := (List.getElem?_eq_some_iff.mp ht).1
    simp [List.getElem?_set_self this, exec_rest]

theorem restLen_tick_ne (c : Config) (tid i : Nat) (h : i ≠ tid) : restLen (tick c tid) i = restLen c i := by
  unfold tick restLen
  cases ht : c.threads[tid]? with
  | none => rfl
  | some t => simp [List.getElem?_set_ne (Ne.symm h)]

theorem restLen_replicate_self (c : Config) (tid n : Nat) :
    restLen (run c (List.replicate n tid)) tid = restLen c tid - n := by
  induction n generalizing c with
  | zero => rfl
  | succ n ih =>
    show restLen (run (tick c tid) (List.replicate n tid)) tid = _
    rw [ih, restLen_tick_self]; omega

theorem restLen_replicate_ne (c : Config) (tid n i : Nat) (h : i ≠ tid) :
    restLen (run c (List.replicate n tid)) i = restLen c i := by
  induction n generalizing c with
  | zero => rfl
  | succ n ih =>
    show restLen (run (tick c tid) (List.replicate n tid)) i = _
    rw [ih, restLen_tick_ne _ _ _ h]

theorem restLen_start (m : Mem) (progs : List Prog) (i : Nat) :
    restLen (start m progs) i = (progs[i]?.getD []).length := by
  unfold restLen start
  cases h : progs[i]? <;> simp [h]

theorem finished_of_restLen (c : Config) (h : ∀ i, restLen c i = 0) : Finished c := by
  intro t ht
  obtain ⟨i, hi⟩ := List.getElem?_of_mem ht
  have := h i
  simp [restLen, hi] at this
  exact this

theorem run_append (c : Config) (s1 s2 : List Nat) : run c (s1 ++ s2) = run (run c s1) s2 := by
  simp [run, List.foldl_append]

end Ecpint.Conc
