import Ecpint.Model.Deriv
import Mathlib.Tactic.Ring
import Mathlib.Tactic.Linarith
import Mathlib.Tactic.IntervalCases

namespace Ecpint.Deriv

/-- triangular number -/
def tri (n : Nat) : Nat := n * (n + 1) / 2

theorem tri_succ (n : Nat) : tri (n + 1) = tri n + n + 1 := by
  unfold tri
  have : (n + 1) * (n + 1 + 1) = n * (n + 1) + 2 * (n + 1) := by ring
  rw [this]
  omega

theorem tri_zero : tri 0 = 0 := rfl

theorem tri_mono {a b : Nat} (h : a ≤ b) : tri a ≤ tri b := by
  induction h with
  | refl => exact Nat.le_refl _
  | step _ ih => rw [tri_succ]; omega

theorem ncart_eq_tri (L : Nat) : ncart L = tri (L + 1) := rfl

theorem nIdx_eq_nat (l m : Nat) : nIdx l m = (l + m) * (l + m + 1) / 2 + m := by
  unfold nIdx Gen.N_INDEX
  have h : ((l:Int) + m) * ((l:Int) + m + 1) = (((l + m) * (l + m + 1) : Nat) : Int) := by
    push_cast; ring
  rw [h, Int.tdiv_eq_ediv_of_nonneg (by positivity)]
  omega

theorem nIdx_tri (l m : Nat) : nIdx l m = tri (l + m) + m := nIdx_eq_nat l m

theorem nIdx_lt_ncart {l m L : Nat} (h : l + m ≤ L) : nIdx l m < ncart L := by
  rw [nIdx_tri, ncart_eq_tri]
  have h1 : tri (l + m + 1) ≤ tri (L + 1) := tri_mono (by omega)
  rw [tri_succ] at h1
  omega

theorem ncart_pos (L : Nat) : 0 < ncart L := by
  have h : tri 1 ≤ tri (L + 1) := tri_mono (by omega)
  rw [ncart_eq_tri]
  exact Nat.lt_of_lt_of_le (by decide) h

/-- indexing into a "triangular" flatMap -/
theorem flatMap_tri_length {β : Type} (f : Nat → List β) (n : Nat)
    (hf : ∀ i < n, (f i).length = i + 1) :
    ((List.range n).flatMap f).length = tri n := by
  induction n with
  | zero => simp [tri]
  | succ n ih =>
    rw [List.range_succ, List.flatMap_append, List.length_append, ih (fun i hi => hf i (by omega)),
      tri_succ]
    simp [hf n (by omega)]
    omega

theorem flatMap_tri_get {β : Type} (f : Nat → List β) (n : Nat)
    (hf : ∀ i < n, (f i).length = i + 1) (i j : Nat) (hi : i < n) (hj : j ≤ i) :
    ((List.range n).flatMap f)[tri i + j]? = (f i)[j]? := by
  induction n with
  | zero => omega
  | succ n ih =>
    have hlen := flatMap_tri_length f n (fun i hi => hf i (by omega))
    rw [List.range_succ, List.flatMap_append]
    by_cases hin : i < n
    · have h1 : tri (i + 1) ≤ tri n := tri_mono hin
      rw [tri_succ] at h1
      rw [List.getElem?_append_left (by omega)]
      exact ih (fun i hi => hf i (by omega)) hin
    · have : i = n := by omega
      subst this
      rw [List.getElem?_append_right (by omega), hlen]
      simp

theorem cartList_length_tri (L : Nat) : (cartList L).length = ncart L := by
  unfold cartList
  rw [ncart_eq_tri]
  apply flatMap_tri_length
  intro i hi
  simp only [List.length_map, List.length_range]
  omega

theorem cartList_get_tri (L l m : Nat) (h : l + m ≤ L) :
    (cartList L)[nIdx l m]? = some (L - l - m, l, m) := by
  unfold cartList
  rw [nIdx_tri, flatMap_tri_get _ _ _ _ _ (by omega) (by omega)]
  · simp only [List.getElem?_map]
    have h1 : L - (L - (l + m)) = l + m := by omega
    rw [h1, List.getElem?_range (by omega)]
    simp
    omega
  · intro i hi
    simp only [List.length_map, List.length_range]
    omega

theorem cartList_mem_deg (L : Nat) (a : Nat × Nat × Nat) :
    a ∈ cartList L ↔ a.1 + a.2.1 + a.2.2 = L := by
  obtain ⟨k, l, m⟩ := a
  unfold cartList
  simp only [List.mem_flatMap, List.mem_map, List.mem_range, Prod.mk.injEq]
  constructor
  · rintro ⟨i, hi, j, hj, h1, h2, h3⟩
    omega
  · intro h
    exact ⟨l + m, by omega, m, by omega, by omega, by omega, by omega⟩


section
variable {α : Type} [CommRing α]

/-- `leftFirst` at the row of the component (k,l,m) of a shell with LA > 0 -/
theorem leftFirst_pos (k l m : Nat) (h : 0 < k + l + m) (rows : Nat) (Qm Qp : Blk α) (q nB : Nat) :
    leftFirst (k + l + m) rows Qm Qp q (nIdx l m) nB =
      if q = 0 then
        (-(k : α)) * Qm (min (nIdx l m) (rows - 1)) nB + two * Qp (nIdx l m) nB
      else if q = 1 then
        (-(l : α)) * Qm (if l > 0 then nIdx (l - 1) m else 0) nB + two * Qp (nIdx (l + 1) m) nB
      else
        (-(m : α)) * Qm (if m > 0 then nIdx l (m - 1) else 0) nB + two * Qp (nIdx l (m + 1)) nB := by
  unfold leftFirst
  have hk : k + l + m - l - m = k := by omega
  rw [if_neg (by omega), cartList_get_tri _ l m (by omega), hk]

end

end Ecpint.Deriv
