import Ecpint.Model.GShell
/-! helper lemmas for C17: what `applySem` produces when the operation carries everything -/
namespace Ecpint.GShell

/-- uniform view of a member's value -/
inductive FV
  | list (l : List Nat) | ptr (p : Ptr) | bool (b : Bool) | opt (o : Option Nat)
deriving DecidableEq

def get : Field → Shell → FV
  | .exps, s => .list s.exps
  | .coeffs, s => .list s.coeffs
  | .centerVec, s => .ptr s.centerVec
  | .localPtr, s => .bool s.localPtr
  | .localCenter, s => .opt s.localCenter
  | .minExp, s => .opt s.minExp
  | .l, s => .opt s.l
  | .atomId, s => .opt s.atomId

theorem get_copyField (f g : Field) (src t : Shell) :
    get f (copyField g src t) = if f = g then get f src else get f t := by
  cases f <;> cases g <;> simp [get, copyField]

theorem get_foldl (f : Field) (src : Shell) (fs : List Field) (base : Shell) :
    get f (fs.foldl (fun t g => copyField g src t) base)
      = if f ∈ fs then get f src else get f base := by
  induction fs generalizing base with
  | nil => simp
  | cons g gs ih =>
    simp only [List.foldl_cons, ih, get_copyField, List.mem_cons]
    by_cases h1 : f ∈ gs
    · simp [h1]
    · by_cases h2 : f = g <;> simp [h1, h2]

theorem ext_shell (a b : Shell) (h : ∀ f, get f a = get f b) : a = b := by
  have h1 := h .exps; have h2 := h .coeffs; have h3 := h .centerVec; have h4 := h .localPtr
  have h5 := h .localCenter; have h6 := h .minExp; have h7 := h .l; have h8 := h .atomId
  simp only [get, FV.list.injEq, FV.ptr.injEq, FV.bool.injEq, FV.opt.injEq] at *
  cases a; cases b; simp_all

/-- the copy produced by an operation that carries everything -/
def copied (self : Nat) (src base : Shell) : Shell :=
  { src with
    centerVec := if src.localPtr then .loc self else src.centerVec
    localCenter := if src.localPtr then src.localCenter else base.localCenter }

/-- closed form of `applySem` under `Carries`, up to the (unused) `localCenter` of an
external-centre shell -/
theorem applySem_carries (c : CopySem) (hc : c.Carries) (self : Nat) (src base : Shell) :
    ∃ lc, applySem c self src base
      = { copied self src base with
          localCenter := if src.localPtr then src.localCenter else lc } := by
  obtain ⟨hall, hlc, hrep⟩ := hc
  let fs := c.carried ++ (if src.localPtr then c.carriedIfLocal else [])
  let t := fs.foldl (fun t f => copyField f src t) base
  have hmem : ∀ f ∈ Field.all, f ≠ .localCenter → f ∈ fs := fun f hf hne =>
    List.mem_append_left _ (hall f hf hne)
  have hg : ∀ f ∈ Field.all, f ≠ .localCenter → get f t = get f src := by
    intro f hf hne
    show get f (fs.foldl _ base) = _
    rw [get_foldl, if_pos (hmem f hf hne)]
  have hlp : t.localPtr = src.localPtr := by
    have := hg .localPtr (by simp [Field.all]) (by simp); simpa [get] using this
  refine ⟨t.localCenter, ?_⟩
  have hlcl : src.localPtr = true → t.localCenter = src.localCenter := by
    intro hl
    have hin : Field.localCenter ∈ fs := by
      show Field.localCenter ∈ c.carried ++ (if src.localPtr then c.carriedIfLocal else [])
      rcases hlc with h | h
      · exact List.mem_append_left _ h
      · simp [hl, h]
    have : get .localCenter t = get .localCenter src := by
      show get _ (fs.foldl _ base) = _
      rw [get_foldl, if_pos hin]
    simpa [get] using this
  have e1 : t.exps = src.exps := by
    have := hg .exps (by simp [Field.all]) (by simp); simpa [get] using this
  have e2 : t.coeffs = src.coeffs := by
    have := hg .coeffs (by simp [Field.all]) (by simp); simpa [get] using this
  have e3 : t.centerVec = src.centerVec := by
    have := hg .centerVec (by simp [Field.all]) (by simp); simpa [get] using this
  have e6 : t.minExp = src.minExp := by
    have := hg .minExp (by simp [Field.all]) (by simp); simpa [get] using this
  have e7 : t.l = src.l := by
    have := hg .l (by simp [Field.all]) (by simp); simpa [get] using this
  have e8 : t.atomId = src.atomId := by
    have := hg .atomId (by simp [Field.all]) (by simp); simpa [get] using this
  have hdef : applySem c self src base
      = if c.repoint && t.localPtr then { t with centerVec := .loc self } else t := rfl
  rw [hdef, hrep, hlp]
  apply ext_shell
  intro f
  cases hl : src.localPtr
  · simp only [Bool.and_false, Bool.false_eq_true, if_false, copied]
    cases f <;> simp [get, e1, e2, e3, e6, e7, e8, hlp, hl]
  · simp only [Bool.and_true, if_true, copied]
    cases f <;> simp [get, e1, e2, e3, e6, e7, e8, hlp, hl, hlcl hl]

end Ecpint.GShell
