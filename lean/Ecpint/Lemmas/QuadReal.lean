/-
Real-analysis helper lemmas for Props/C15b.lean: finite cosine sums over equally spaced angles
(Lagrange's telescoping identity), the power-reduction formula for sin⁴, and index bookkeeping for nested rules.
-/
import Mathlib.Tactic.FieldSimp
import Mathlib.Tactic.Ring
import Mathlib.Tactic.Linarith
import Mathlib.Tactic.LinearCombination
import Mathlib.Analysis.SpecialFunctions.Trigonometric.Basic
import Mathlib.Algebra.BigOperators.Intervals
import Mathlib.Topology.UniformSpace.HeineCantor
import Mathlib.Analysis.SpecialFunctions.Integrals.Basic

namespace Ecpint.QuadReal
open Real Finset Filter Topology

/-- Lagrange's identity: 2 sin(α/2) Σ_{i=1}^{m} cos(iα) = sin((m+½)α) − sin(α/2) -/
theorem two_sin_half_mul_sum_cos (α : ℝ) (m : ℕ) :
    2 * sin (α / 2) * ∑ i ∈ Finset.range m, cos (((i + 1 : ℕ) : ℝ) * α)
      = sin (((m : ℝ) + 1 / 2) * α) - sin (α / 2) := by
  induction m with
  | zero => simp; ring_nf
  | succ m ih =>
    rw [Finset.sum_range_succ, mul_add, ih]
    have e1 : ((m + 1 : ℕ) : ℝ) * α = ((m : ℝ) + 1 / 2) * α + α / 2 := by push_cast; ring
    have e2 : (((m + 1 : ℕ) : ℝ) + 1 / 2) * α = ((m : ℝ) + 1 / 2) * α + α / 2 + α / 2 := by push_cast; ring
    rw [e2, e1, sin_add (((m : ℝ) + 1 / 2) * α + α / 2), cos_add, sin_add]
    have := sin_sq_add_cos_sq (α / 2)
    linear_combination (-sin (((m : ℝ) + 1 / 2) * α)) * this

/-- Σ_{i=1}^{n} cos(k·iπ/(n+1)) = −(1 + (−1)^k)/2 for 0 < k < 2(n+1): −1 for even k, 0 for odd k -/
theorem sum_cos_nodes (n k : ℕ) (hk0 : 0 < k) (hk : k < 2 * (n + 1)) :
    ∑ i ∈ Finset.range n, cos ((k : ℝ) * (((i + 1 : ℕ) : ℝ) * π / ((n : ℝ) + 1))) = -(1 + (-1) ^ k) / 2 := by
  have hn : (0 : ℝ) < (n : ℝ) + 1 := by positivity
  set α : ℝ := (k : ℝ) * π / ((n : ℝ) + 1) with hα
  have hsum : ∑ i ∈ Finset.range n, cos ((k : ℝ) * (((i + 1 : ℕ) : ℝ) * π / ((n : ℝ) + 1)))
      = ∑ i ∈ Finset.range n, cos (((i + 1 : ℕ) : ℝ) * α) := by
    apply Finset.sum_congr rfl
    intro i _
    congr 1
    rw [hα]; ring
  rw [hsum]
  have hL := two_sin_half_mul_sum_cos α n
  have e : ((n : ℝ) + 1 / 2) * α = (k : ℝ) * π - α / 2 := by
    rw [hα]; field_simp; ring
  rw [e, sin_nat_mul_pi_sub] at hL
  have hpos : 0 < sin (α / 2) := by
    apply sin_pos_of_pos_of_lt_pi
    · rw [hα]; have : (0 : ℝ) < k := by exact_mod_cast hk0
      positivity
    · rw [hα]
      have : (k : ℝ) < 2 * ((n : ℝ) + 1) := by exact_mod_cast hk
      rw [div_div, div_lt_iff₀ (by positivity)]
      nlinarith [pi_pos]
  have hne : sin (α / 2) ≠ 0 := hpos.ne'
  have : 2 * sin (α / 2) * ∑ i ∈ Finset.range n, cos (((i + 1 : ℕ) : ℝ) * α)
      = 2 * sin (α / 2) * (-(1 + (-1) ^ k) / 2) := by
    rw [hL]; ring
  exact mul_left_cancel₀ (mul_ne_zero two_ne_zero hne) this

/-- power reduction: sin⁴θ = (3 − 4cos2θ + cos4θ)/8 -/
theorem sin_pow_four_eq (θ : ℝ) : sin θ ^ 4 = (3 - 4 * cos (2 * θ) + cos (4 * θ)) / 8 := by
  have h4 : (4 : ℝ) * θ = 2 * (2 * θ) := by ring
  rw [h4, cos_two_mul (2 * θ), cos_two_mul θ, cos_sq' θ]
  ring

/-! ### cosine polynomials: integral over [0, π] and sum over the nodes -/

theorem integral_cos_nat_mul (k : ℕ) (hk : 0 < k) : ∫ θ in (0 : ℝ)..π, cos ((k : ℝ) * θ) = 0 := by
  have hk' : (k : ℝ) ≠ 0 := by exact_mod_cast hk.ne'
  rw [intervalIntegral.integral_comp_mul_left (fun x => cos x) hk', integral_cos]
  simp [sin_nat_mul_pi]

theorem integral_cos_poly (N : ℕ) (a : ℕ → ℝ) :
    ∫ θ in (0 : ℝ)..π, ∑ k ∈ range (N + 1), a k * cos ((k : ℝ) * θ) = a 0 * π := by
  rw [intervalIntegral.integral_finsetSum]
  · rw [sum_range_succ']
    have : ∀ k ∈ range N, ∫ θ in (0 : ℝ)..π, a (k + 1) * cos (((k + 1 : ℕ) : ℝ) * θ) = 0 := by
      intro k _
      rw [intervalIntegral.integral_const_mul, integral_cos_nat_mul _ (Nat.succ_pos k), mul_zero]
    rw [sum_eq_zero this]
    simp [mul_comm]
  · intro k _
    apply Continuous.intervalIntegrable
    fun_prop

theorem trap_cos_poly (n : ℕ) (a : ℕ → ℝ) :
    ∑ i ∈ range n, ∑ k ∈ range (2 * n + 1 + 1), a k * cos ((k : ℝ) * (((i + 1 : ℕ) : ℝ) * π / ((n : ℝ) + 1)))
      = a 0 * n - ∑ k ∈ range (2 * n + 1), a (k + 1) * ((1 + (-1) ^ (k + 1)) / 2) := by
  rw [sum_comm, sum_range_succ']
  simp only [← mul_sum]
  have : ∀ k ∈ range (2 * n + 1), a (k + 1) * ∑ i ∈ range n, cos (((k + 1 : ℕ) : ℝ) * (((i + 1 : ℕ) : ℝ) * π / ((n : ℝ) + 1)))
      = - (a (k + 1) * ((1 + (-1) ^ (k + 1)) / 2)) := by
    intro k hk
    rw [mem_range] at hk
    rw [sum_cos_nodes n (k + 1) (Nat.succ_pos k) (by omega)]
    ring
  rw [sum_congr rfl this, sum_neg_distrib]
  simp
  ring

/-! ### right-endpoint Riemann sums of a continuous function converge to the integral -/

theorem tendsto_right_riemann_sum (g : ℝ → ℝ) (hg : Continuous g) (L : ℝ) (hL : 0 ≤ L) :
    Tendsto (fun n : ℕ => L / ((n : ℝ) + 1) * ∑ i ∈ range (n + 1), g (((i + 1 : ℕ) : ℝ) * (L / ((n : ℝ) + 1))))
      atTop (𝓝 (∫ x in (0 : ℝ)..L, g x)) := by
  rw [Metric.tendsto_atTop]
  intro ε hε
  have huc := isCompact_Icc.uniformContinuousOn_of_continuous (hg.continuousOn (s := Set.Icc 0 L))
  rw [Metric.uniformContinuousOn_iff] at huc
  obtain ⟨δ, hδ, hδ'⟩ := huc (ε / (L + 1)) (by positivity)
  obtain ⟨N, hN⟩ := exists_nat_gt (L / δ)
  refine ⟨N, fun n hn => ?_⟩
  have hn1 : (0 : ℝ) < (n : ℝ) + 1 := by positivity
  set h := L / ((n : ℝ) + 1) with hh
  have hh0 : 0 ≤ h := by positivity
  have hhδ : h < δ := by
    rw [hh, div_lt_iff₀ hn1]
    have h1 : (N : ℝ) ≤ n := by exact_mod_cast hn
    have h2 : L / δ < (n : ℝ) + 1 := by linarith
    rw [div_lt_iff₀ hδ] at h2
    linarith
  have hnh : ((n : ℝ) + 1) * h = L := by rw [hh]; field_simp
  have hsplit : ∫ x in (0 : ℝ)..L, g x = ∑ i ∈ range (n + 1), ∫ x in (i : ℝ) * h..((i + 1 : ℕ) : ℝ) * h, g x := by
    rw [intervalIntegral.sum_integral_adjacent_intervals (a := fun i : ℕ => (i : ℝ) * h)
      (fun k _ => hg.intervalIntegrable _ _)]
    push_cast
    rw [hnh, zero_mul]
  have hconst : ∀ i : ℕ, h * g (((i + 1 : ℕ) : ℝ) * h)
      = ∫ _x in (i : ℝ) * h..((i + 1 : ℕ) : ℝ) * h, g (((i + 1 : ℕ) : ℝ) * h) := by
    intro i
    rw [intervalIntegral.integral_const, smul_eq_mul]
    push_cast
    ring
  rw [Real.dist_eq, Finset.mul_sum]
  simp_rw [hconst]
  rw [hsplit, ← Finset.sum_sub_distrib]
  have hterm : ∀ i ∈ range (n + 1),
      |(∫ _x in (i : ℝ) * h..((i + 1 : ℕ) : ℝ) * h, g (((i + 1 : ℕ) : ℝ) * h)) - ∫ x in (i : ℝ) * h..((i + 1 : ℕ) : ℝ) * h, g x|
        ≤ ε / (L + 1) * h := by
    intro i hi
    rw [mem_range] at hi
    have hi' : ((i + 1 : ℕ) : ℝ) ≤ (n : ℝ) + 1 := by exact_mod_cast hi
    have hle : (i : ℝ) * h ≤ ((i + 1 : ℕ) : ℝ) * h := by push_cast; nlinarith
    have htop : ((i + 1 : ℕ) : ℝ) * h ≤ L := by rw [← hnh]; exact mul_le_mul_of_nonneg_right hi' hh0
    have hbot : (0 : ℝ) ≤ (i : ℝ) * h := by positivity
    rw [← intervalIntegral.integral_sub (by simp) (hg.intervalIntegrable _ _)]
    have := intervalIntegral.norm_integral_le_of_norm_le_const (a := (i : ℝ) * h) (b := ((i + 1 : ℕ) : ℝ) * h)
      (f := fun x => g (((i + 1 : ℕ) : ℝ) * h) - g x) (C := ε / (L + 1)) ?_
    · rw [Real.norm_eq_abs] at this
      refine this.trans (le_of_eq ?_)
      rw [abs_of_nonneg (by linarith)]
      push_cast; ring
    · intro x hx
      rw [Set.uIoc_of_le hle] at hx
      rw [Real.norm_eq_abs, ← Real.dist_eq]
      apply le_of_lt
      apply hδ' _ ⟨by positivity, htop⟩ _ ⟨by linarith [hx.1], by linarith [hx.2]⟩
      rw [Real.dist_eq, abs_of_nonneg (by linarith [hx.2])]
      have : ((i + 1 : ℕ) : ℝ) * h - (i : ℝ) * h = h := by push_cast; ring
      linarith [hx.1]
  calc |∑ i ∈ range (n + 1), ((∫ _x in (i : ℝ) * h..((i + 1 : ℕ) : ℝ) * h, g (((i + 1 : ℕ) : ℝ) * h))
          - ∫ x in (i : ℝ) * h..((i + 1 : ℕ) : ℝ) * h, g x)|
      ≤ ∑ i ∈ range (n + 1), |(∫ _x in (i : ℝ) * h..((i + 1 : ℕ) : ℝ) * h, g (((i + 1 : ℕ) : ℝ) * h))
          - ∫ x in (i : ℝ) * h..((i + 1 : ℕ) : ℝ) * h, g x| := Finset.abs_sum_le_sum_abs _ _
    _ ≤ ∑ _i ∈ range (n + 1), ε / (L + 1) * h := Finset.sum_le_sum hterm
    _ = ε / (L + 1) * L := by
      rw [Finset.sum_const, card_range, nsmul_eq_mul, ← hnh]; push_cast; ring
    _ < ε := by
      rw [div_mul_eq_mul_div, div_lt_iff₀ (by positivity)]
      nlinarith

/-! ### index bookkeeping for the nested rules (1-based node numbers) -/

/-- nodes 1..2n+1 = the even ones (the n-point rule) and the odd ones (new) -/
theorem sum_split_odd_even (a : ℕ → ℝ) (n : ℕ) :
    ∑ j ∈ Finset.range (2 * n + 1), a (j + 1)
      = ∑ i ∈ Finset.range n, a (2 * (i + 1)) + ∑ i ∈ Finset.range (n + 1), a (2 * i + 1) := by
  induction n with
  | zero => simp
  | succ n ih =>
    have e1 : 2 * (n + 1) + 1 = 2 * n + 1 + 1 + 1 := by ring
    rw [e1]
    simp only [Finset.sum_range_succ (n := 2 * n + 1 + 1), Finset.sum_range_succ (n := 2 * n + 1), Finset.sum_range_succ (n := n + 1),
      Finset.sum_range_succ (n := n)]
    rw [ih]
    simp only [Finset.sum_range_succ (n := n)]
    ring_nf

/-- nodes 1..6K+5 by inclusion-exclusion: multiples of 2, of 3, minus multiples of 6, plus residues 1 and 5 mod 6 -/
theorem sum_split_mod_six (a : ℕ → ℝ) (K : ℕ) :
    ∑ j ∈ Finset.range (6 * K + 5), a (j + 1)
      = ∑ i ∈ Finset.range (3 * K + 2), a (2 * (i + 1)) + ∑ i ∈ Finset.range (2 * K + 1), a (3 * (i + 1))
        - ∑ i ∈ Finset.range K, a (6 * (i + 1)) + ∑ j ∈ Finset.range (K + 1), (a (6 * j + 1) + a (6 * j + 5)) := by
  induction K with
  | zero => simp [Finset.sum_range_succ]; ring
  | succ K ih =>
    have e1 : 6 * (K + 1) + 5 = 6 * K + 5 + 1 + 1 + 1 + 1 + 1 + 1 := by ring
    have e2 : 3 * (K + 1) + 2 = 3 * K + 2 + 1 + 1 + 1 := by ring
    have e3 : 2 * (K + 1) + 1 = 2 * K + 1 + 1 + 1 := by ring
    rw [e1, e2, e3]
    simp only [Finset.sum_range_succ (n := K + 1), Finset.sum_range_succ (n := 6 * K + 5 + 1 + 1 + 1 + 1 + 1), Finset.sum_range_succ (n := 6 * K + 5 + 1 + 1 + 1 + 1),
      Finset.sum_range_succ (n := 6 * K + 5 + 1 + 1 + 1), Finset.sum_range_succ (n := 6 * K + 5 + 1 + 1), Finset.sum_range_succ (n := 6 * K + 5 + 1), 
      Finset.sum_range_succ (n := 6 * K + 5), Finset.sum_range_succ (n := 3 * K + 2), Finset.sum_range_succ (n := 3 * K + 2 + 1), Finset.sum_range_succ (n := 3 * K + 2 + 1 + 1),
      Finset.sum_range_succ (n := 2 * K + 1), Finset.sum_range_succ (n := 2 * K + 1 + 1), Finset.sum_range_succ (n := K)]
    rw [ih]
    simp only [Finset.sum_range_succ (n := K)]
    ring_nf

end Ecpint.QuadReal
