/-
Helper lemmas for C14: the `List.range`/`List.foldl` loops of Ecpint/Model/Bessel.lean as closed forms.
-/
import Ecpint.Model.Bessel
import Mathlib.Tactic.Ring
import Mathlib.Tactic.FieldSimp
import Mathlib.Tactic.Linarith
import Mathlib.Tactic.NormNum
import Mathlib.Algebra.BigOperators.Group.Finset.Basic
import Mathlib.Algebra.Order.Floor.Semiring
import Mathlib.Data.Nat.Factorial.DoubleFactorial
import Mathlib.Algebra.Order.Field.Basic

namespace Ecpint.BesselLemmas
open scoped Nat

section
variable {K : Type} [Field K]

/-- a running sum over `List.range` is the `Finset.range` sum -/
theorem foldl_sum_range (g : ℕ → K) (m : ℕ) :
    (List.range m).foldl (fun s n => s + g n) (0 : K) = ∑ n ∈ Finset.range m, g n := by
  induction m with
  | zero => simp
  | succ m ih => rw [List.range_succ, List.foldl_append, ih, Finset.sum_range_succ]; rfl

/-- repeated multiplication by a constant -/
theorem foldl_mul_const (a c : K) (L : ℕ) :
    (List.range L).foldl (fun v _ => v * c) a = a * c ^ L := by
  induction L with
  | zero => simp
  | succ L ih => rw [List.range_succ, List.foldl_append, ih, pow_succ]; simp [mul_assoc]

end

section
variable {K : Type} [Field K] [CharZero K]

/-- `dzn_n = dz^n / n!` -/
theorem foldl_dzn (dz : K) (n : ℕ) :
    (List.range n).foldl (fun d i => d * dz / ((i + 1 : ℕ) : K)) (1 : K) = dz ^ n / (n ! : K) := by
  induction n with
  | zero => simp
  | succ n ih =>
    rw [List.range_succ, List.foldl_append, ih]
    have h1 : ((n ! : ℕ) : K) ≠ 0 := Nat.cast_ne_zero.mpr (Nat.factorial_ne_zero n)
    have h2 : ((n + 1 : ℕ) : K) ≠ 0 := Nat.cast_ne_zero.mpr (Nat.succ_ne_zero n)
    simp only [List.foldl_cons, List.foldl_nil, Nat.factorial_succ, Nat.cast_mul]
    field_simp
    ring

/-- invariant of the single-order Taylor loop -/
theorem foldl_taylorOne (dz : K) (c : ℕ → K) (m : ℕ) :
    (List.range m).foldl (fun (acc : K × K) n =>
      (acc.1 + acc.2 * c n, acc.2 * (dz / ((n + 1 : ℕ) : K)))) ((0 : K), (1 : K))
      = (∑ n ∈ Finset.range m, dz ^ n / (n ! : K) * c n, dz ^ m / (m ! : K)) := by
  induction m with
  | zero => simp
  | succ m ih =>
    rw [List.range_succ, List.foldl_append, ih, Finset.sum_range_succ]
    have h1 : ((m ! : ℕ) : K) ≠ 0 := Nat.cast_ne_zero.mpr (Nat.factorial_ne_zero m)
    have h2 : ((m + 1 : ℕ) : K) ≠ 0 := Nat.cast_ne_zero.mpr (Nat.succ_ne_zero m)
    simp only [List.foldl_cons, List.foldl_nil, Nat.factorial_succ, Nat.cast_mul]
    refine Prod.ext rfl ?_
    simp only
    field_simp
    ring

/-- the k-th term of the asymptotic polynomial of order l -/
def largeTerm (v0 : K) (l k : ℕ) : K :=
  (((l + k)! : K) / ((k ! : K) * ((l - k)! : K))) * (-v0) ^ k

theorem largeTerm_zero (v0 : K) (l : ℕ) : largeTerm v0 l 0 = 1 := by
  have h1 : ((l ! : ℕ) : K) ≠ 0 := Nat.cast_ne_zero.mpr (Nat.factorial_ne_zero l)
  simp [largeTerm, h1]

/-- ratio of consecutive terms: `T_{k+1} = T_k · (−cof_{k+1} · v0)` -/
theorem largeTerm_succ (v0 : K) (l k : ℕ) (h : k + 1 ≤ l) :
    largeTerm v0 l (k + 1)
      = largeTerm v0 l k * (-((((l - (k + 1) + 1) * (l + (k + 1)) : ℕ) : K) / ((k + 1 : ℕ) : K)) * v0) := by
  obtain ⟨m, rfl⟩ := Nat.exists_eq_add_of_le h
  have e1 : k + 1 + m - (k + 1) = m := by omega
  have e2 : k + 1 + m - k = m + 1 := by omega
  have e3 : k + 1 + m + (k + 1) = (k + 1 + m + k) + 1 := by omega
  have h1 : ((k ! : ℕ) : K) ≠ 0 := Nat.cast_ne_zero.mpr (Nat.factorial_ne_zero k)
  have h2 : ((m ! : ℕ) : K) ≠ 0 := Nat.cast_ne_zero.mpr (Nat.factorial_ne_zero m)
  have h3 : ((k + 1 : ℕ) : K) ≠ 0 := Nat.cast_ne_zero.mpr (Nat.succ_ne_zero k)
  have h4 : ((m + 1 : ℕ) : K) ≠ 0 := Nat.cast_ne_zero.mpr (Nat.succ_ne_zero m)
  unfold largeTerm
  rw [e1, e2, e3, Nat.factorial_succ (k + 1 + m + k), Nat.factorial_succ k, Nat.factorial_succ m]
  simp only [Nat.cast_mul]
  field_simp
  ring

/-- invariant of the all-orders large-argument loop -/
theorem foldl_largeAll (v0 : K) (l n : ℕ) (hn : n ≤ l) :
    (List.range n).foldl (fun (acc : K × K) i =>
      (acc.1 + acc.2 * (-((((l - (i + 1) + 1) * (l + (i + 1)) : ℕ) : K) / ((i + 1 : ℕ) : K)) * v0),
       acc.2 * (-((((l - (i + 1) + 1) * (l + (i + 1)) : ℕ) : K) / ((i + 1 : ℕ) : K)) * v0)))
      ((1 : K), (1 : K))
      = (∑ k ∈ Finset.range (n + 1), largeTerm v0 l k, largeTerm v0 l n) := by
  induction n with
  | zero => simp [largeTerm_zero]
  | succ n ih =>
    rw [List.range_succ, List.foldl_append, ih (Nat.le_of_succ_le hn), Finset.sum_range_succ _ (n + 1)]
    simp only [List.foldl_cons, List.foldl_nil]
    rw [← largeTerm_succ v0 l n hn]

end

end Ecpint.BesselLemmas
