/- Helper lemmas for Props/C01b.lean: block structure of `cartList`, the sign/binomial form of `calcC`,
   Γ at half-integers, a rational bracket for √π, and the rational checks of the generated Gamma table
   (which go through `Gen.gammaTable`, never through a copy of it). -/
import Ecpint.Model.Contraction
import Ecpint.Gen.GammaTable
import Mathlib.Data.List.Nodup
import Mathlib.Data.Nat.Choose.Sum
import Mathlib.Data.Nat.Choose.Cast
import Mathlib.Analysis.SpecialFunctions.Gamma.Basic
import Mathlib.Analysis.SpecialFunctions.Gaussian.GaussianIntegral
import Mathlib.Analysis.Real.Pi.Bounds
import Mathlib.Tactic.IntervalCases
namespace Ecpint.C01b
open Ecpint.Contraction

/-! ### cartList -/

/-- the block of components with y + z = i -/
def block (L i : Nat) : List (Nat × Nat × Nat) := (List.range (i + 1)).map fun j => (L - i, i - j, j)

/-- the first n blocks -/
def blocks (L n : Nat) : List (Nat × Nat × Nat) := (List.range n).flatMap (block L)

theorem cartList_eq_blocks (L : Nat) : cartList L = blocks L (L + 1) := by
  unfold cartList blocks
  refine List.flatMap_congr (fun i hi => ?_)
  have hi' : i ≤ L := Nat.lt_succ_iff.mp (List.mem_range.mp hi)
  have h1 : L - (L - i) = i := Nat.sub_sub_self hi'
  unfold block
  simp only [h1]
  refine List.map_congr_left (fun j hj => ?_)
  have hj' : j ≤ i := Nat.lt_succ_iff.mp (List.mem_range.mp hj)
  rw [Nat.sub_sub_self hj']

theorem blocks_succ (L n : Nat) : blocks L (n + 1) = blocks L n ++ block L n := by
  simp [blocks, List.range_succ, List.flatMap_append]

theorem blocks_add (L n m : Nat) :
    blocks L (n + m) = blocks L n ++ (List.range m).flatMap (fun k => block L (n + k)) := by
  simp [blocks, List.range_add, List.flatMap_append, List.flatMap_map]

theorem block_length (L i : Nat) : (block L i).length = i + 1 := by simp [block]

/-- triangular number, recursively -/
def tri : Nat → Nat
  | 0 => 0
  | n + 1 => tri n + (n + 1)

theorem two_mul_tri (n : Nat) : 2 * tri n = n * (n + 1) := by
  induction n with
  | zero => rfl
  | succ n ih => simp only [tri]; rw [Nat.mul_add, ih]; ring

theorem tri_eq (n : Nat) : tri n = n * (n + 1) / 2 := by
  rw [← two_mul_tri, Nat.mul_div_cancel_left _ (by decide : 0 < 2)]

theorem blocks_length (L n : Nat) : (blocks L n).length = tri n := by
  induction n with
  | zero => simp [blocks, tri]
  | succ n ih => rw [blocks_succ, List.length_append, ih, block_length, tri]

theorem block_nodup (L i : Nat) : (block L i).Nodup := by
  unfold block
  refine List.Nodup.map_on (fun a _ b _ hab => ?_) List.nodup_range
  simpa using (Prod.mk.inj (Prod.mk.inj hab).2).2

theorem mem_block {L i : Nat} {c : Nat × Nat × Nat} (hc : c ∈ block L i) : c.2.1 + c.2.2 = i := by
  unfold block at hc
  obtain ⟨j, hj, rfl⟩ := List.mem_map.mp hc
  have := List.mem_range.mp hj
  simp only
  omega

/-! ### calcC -/

theorem list_sum_range {K : Type} [AddCommMonoid K] (f : ℕ → K) (n : ℕ) :
    ((List.range n).map f).sum = ∑ i ∈ Finset.range n, f i := by
  induction n with
  | zero => simp
  | succ n ih => simp [List.range_succ, Finset.sum_range_succ, ih]

/-- `1 - 2 * (n % 2)` is (−1)^n -/
theorem sign_cast {K : Type} [Field K] (n : ℕ) :
    (((1 : Int) - 2 * ((n % 2 : Nat) : Int) : Int) : K) = (-1) ^ n := by
  rcases Nat.mod_two_eq_zero_or_one n with h | h
  · rw [h, (Nat.even_iff.mpr h).neg_one_pow]; simp
  · rw [h, (Nat.odd_iff.mpr h).neg_one_pow]; norm_num

theorem calcC_eq {K : Type} [Field K] [CharZero K] (fac : Array K) (a m : Nat) (A : K)
    (hfac : ∀ i ≤ a, fac.getD i 0 = (i.factorial : K)) (hm : m ≤ a) :
    calcC fac (fun x n => x ^ n) a m A = (-A) ^ (a - m) * (a.choose m : K) := by
  unfold calcC
  simp only
  rw [hfac a le_rfl, hfac m hm, hfac (a - m) (Nat.sub_le _ _), sign_cast, ← Nat.cast_choose K hm,
    neg_pow A]

/-! ### Γ at half-integers and the generated table -/

/-- the table entry `GAMMA[i]` as a rational (read from `Gen.gammaTable`) -/
def gammaEntryQ (i : Nat) : ℚ :=
  ((Gen.gammaTable.getD i (0, 1)).1 : ℚ) / ((Gen.gammaTable.getD i (0, 1)).2 : ℚ)

/-- Γ(k + 1/2) / √π = (2k−1)!! / 2^k -/
def dfrac : Nat → ℚ
  | 0 => 1
  | k + 1 => ((k : ℚ) + 1 / 2) * dfrac k

theorem dfrac_pos (k : Nat) : 0 < dfrac k := by
  induction k with
  | zero => simp [dfrac]
  | succ k ih => simp only [dfrac]; positivity

theorem gamma_half (k : Nat) : Real.Gamma ((k : ℝ) + 1 / 2) = (dfrac k : ℝ) * √Real.pi := by
  induction k with
  | zero => rw [Nat.cast_zero, zero_add, Real.Gamma_one_half_eq]; simp [dfrac]
  | succ k ih =>
    have h : ((k + 1 : ℕ) : ℝ) + 1 / 2 = ((k : ℝ) + 1 / 2) + 1 := by push_cast; ring
    have hne : (k : ℝ) + 1 / 2 ≠ 0 := by positivity
    rw [h, Real.Gamma_add_one hne, ih]
    simp only [dfrac]; push_cast; ring

theorem gamma_even (k : Nat) :
    Real.Gamma ((((2 * k : ℕ) : ℝ) + 1) / 2) = (dfrac k : ℝ) * √Real.pi := by
  rw [← gamma_half]; congr 1; push_cast; ring

theorem gamma_odd (k : Nat) : Real.Gamma ((((2 * k + 1 : ℕ) : ℝ) + 1) / 2) = (k.factorial : ℝ) := by
  rw [← Real.Gamma_nat_eq_factorial]; congr 1; push_cast; ring

/-- rational bracket of √π (19 digits), from Mathlib's 20-digit bounds on π -/
def sqrtPiLo : ℚ := 1.772453850905516027
def sqrtPiHi : ℚ := 1.772453850905516028

theorem sqrtPi_gt : (sqrtPiLo : ℝ) < √Real.pi := by
  rw [Real.lt_sqrt (by norm_num [sqrtPiLo])]
  refine lt_trans ?_ Real.pi_gt_d20
  norm_num [sqrtPiLo]

theorem sqrtPi_lt : √Real.pi < (sqrtPiHi : ℝ) := by
  rw [Real.sqrt_lt' (by norm_num [sqrtPiHi])]
  refine lt_trans Real.pi_lt_d20 ?_
  norm_num [sqrtPiHi]

/-- a rational q is within relative ε of r·√π as soon as two rational inequalities against the bracket hold -/
theorem close_of_bracket (q r ε : ℚ) (hr : 0 < r) (hε0 : 0 ≤ ε) (hε1 : ε ≤ 1)
    (h1 : q ≤ sqrtPiLo * r * (1 + ε)) (h2 : sqrtPiHi * r * (1 - ε) ≤ q) :
    |(q : ℝ) - (r : ℝ) * √Real.pi| ≤ (ε : ℝ) * ((r : ℝ) * √Real.pi) := by
  have h1' : (q : ℝ) ≤ sqrtPiLo * r * (1 + ε) := by exact_mod_cast h1
  have h2' : (sqrtPiHi : ℝ) * r * (1 - ε) ≤ q := by exact_mod_cast h2
  have hr' : (0 : ℝ) < r := by exact_mod_cast hr
  have e0 : (0 : ℝ) ≤ ε := by exact_mod_cast hε0
  have e1 : (ε : ℝ) ≤ 1 := by exact_mod_cast hε1
  have a1 : (sqrtPiLo : ℝ) * r * (1 + ε) ≤ √Real.pi * r * (1 + ε) :=
    mul_le_mul_of_nonneg_right (mul_le_mul_of_nonneg_right sqrtPi_gt.le hr'.le) (by linarith)
  have a2 : √Real.pi * r * (1 - ε) ≤ (sqrtPiHi : ℝ) * r * (1 - ε) :=
    mul_le_mul_of_nonneg_right (mul_le_mul_of_nonneg_right sqrtPi_lt.le hr'.le) (by linarith)
  rw [abs_le]
  constructor <;> nlinarith

/-- odd entries of the generated table are exactly the factorials -/
theorem table_odd : ∀ k < 15, gammaEntryQ (2 * k + 1) = (k.factorial : ℚ) := by
  intro k hk
  interval_cases k <;> norm_num [gammaEntryQ, Gen.gammaTable, Nat.factorial]

/-- even entries of the generated table sit inside the ±1e-13 window around (2k−1)!!/2^k · √π -/
theorem table_even : ∀ k < 15, gammaEntryQ (2 * k) ≤ sqrtPiLo * dfrac k * (1 + 1e-13) ∧
    sqrtPiHi * dfrac k * (1 - 1e-13) ≤ gammaEntryQ (2 * k) := by
  intro k hk
  interval_cases k <;> norm_num [gammaEntryQ, Gen.gammaTable, dfrac, sqrtPiLo, sqrtPiHi]

end Ecpint.C01b
