/- C07 — facts about the generated classes of the working tree's build (regenerated table Gen/QClasses.lean). -/
import Ecpint.Gen.QClasses
namespace Ecpint.C07
open Ecpint.Gen

def swapT (t : Nat × Nat × Nat) : Nat × Nat × Nat := (t.1, t.2.2, t.2.1)

/-- the radial entries a class fills: list A as computed, list B copied back with l1 and l2 exchanged -/
def filled (c : QClass) : List (Nat × Nat × Nat) := c.triplesA ++ c.triplesB.map swapT

/-- for classes with LA = LB the filled set is closed under (N, l1, l2) ↔ (N, l2, l1): exchanging two shells of the same
angular momentum requests the mirror image of every radial integral -/
theorem triples_swap_closed : ∀ c ∈ qclasses, c.LA = c.LB → ∀ t ∈ filled c, swapT t ∈ filled c := by
  decide +kernel

/-- list A holds only l1 ≤ l2, list B (stored with the shells exchanged) only l1 < l2: for l1 ≠ l2 both orders of the two
shells end up in the SAME primitive radial call, so those radial integrals are symmetric bit for bit -/
theorem triples_ordered : ∀ c ∈ qclasses, (∀ t ∈ c.triplesA, t.2.1 ≤ t.2.2) ∧ (∀ t ∈ c.triplesB, t.2.1 < t.2.2) := by
  decide +kernel

/-- only classes with LA ≤ LB are generated; the other order is served by the transposing dispatch -/
theorem classes_ordered : ∀ c ∈ qclasses, c.LA ≤ c.LB := by decide +kernel

end Ecpint.C07
