/-
C14e — accuracy of the table regime of `BesselFunction` in exact arithmetic: bounds on K_l(z) = e^{-z} i_l(z) and all its
derivatives on z ≥ 0, the Lagrange remainder of the Taylor evaluation about a grid node, and the resulting error of the table
regime for the constants as shipped.
-/
import Ecpint.Props.C14b
import Ecpint.Props.C14c
import Ecpint.Props.C14d
import Mathlib.Analysis.Calculus.Taylor
import Mathlib.Analysis.Calculus.IteratedDeriv.Lemmas
import Mathlib.Topology.Algebra.InfiniteSum.ENNReal

namespace Ecpint.C14e
open Ecpint.C14b Ecpint.BesselReal
open scoped Nat

/-! ## Stage 1: 0 ≤ K_l(z) ≤ 1 on z ≥ 0 -/

theorem iTerm_nonneg (l j : ℕ) (z : ℝ) (hz : 0 ≤ z) : 0 ≤ iTerm l j z := by
  unfold iTerm
  positivity

theorem sphI_nonneg (l : ℕ) (z : ℝ) (hz : 0 ≤ z) : 0 ≤ sphI l z :=
  tsum_nonneg (fun j => iTerm_nonneg l j z hz)

theorem K_nonneg (l : ℕ) (z : ℝ) (hz : 0 ≤ z) : 0 ≤ K l z :=
  mul_nonneg (Real.exp_pos _).le (sphI_nonneg l z hz)

/-- (l+2m)! ≤ 2^m m! (2l+2m+1)!! -/
theorem fac_le_dfac (l m : ℕ) : (l + 2 * m)! ≤ 2 ^ m * m ! * (2 * l + 2 * m + 1)‼ := by
  induction l with
  | zero =>
    have h : (2 * m + 1)! = 2 ^ m * m ! * (2 * m + 1)‼ := by
      rw [Nat.factorial_eq_mul_doubleFactorial, Nat.doubleFactorial_two_mul]
      ring
    simp only [Nat.zero_add, Nat.mul_zero]
    rw [← h]
    exact Nat.factorial_le (Nat.le_succ _)
  | succ l ih =>
    have e1 : l + 1 + 2 * m = (l + 2 * m) + 1 := by ring
    have e2 : 2 * (l + 1) + 2 * m + 1 = (2 * l + 2 * m + 1) + 2 := by ring
    rw [e1, e2, Nat.factorial_succ, Nat.doubleFactorial_add_two]
    calc (l + 2 * m + 1) * (l + 2 * m)! ≤ (2 * l + 2 * m + 1 + 2) * (2 ^ m * m ! * (2 * l + 2 * m + 1)‼) :=
          Nat.mul_le_mul (by omega) ih
      _ = 2 ^ m * m ! * ((2 * l + 2 * m + 1 + 2) * (2 * l + 2 * m + 1)‼) := by ring

theorem iTerm_le_expTerm (l j : ℕ) (z : ℝ) (hz : 0 ≤ z) :
    iTerm l j z ≤ z ^ (l + 2 * j) / (((l + 2 * j)! : ℕ) : ℝ) := by
  have h1 := fac_pos j
  have h2 := dfac_pos (2 * l + 2 * j + 1)
  have h3 := fac_pos (l + 2 * j)
  have e : iTerm l j z = z ^ (l + 2 * j) / (2 ^ j * ((j ! : ℕ) : ℝ) * (((2 * l + 2 * j + 1)‼ : ℕ) : ℝ)) := by
    unfold iTerm
    rw [div_pow, pow_add, pow_mul]
    field_simp
  rw [e]
  apply div_le_div_of_nonneg_left (by positivity) h3
  exact_mod_cast fac_le_dfac l j

theorem sphI_le_exp (l : ℕ) (z : ℝ) (hz : 0 ≤ z) : sphI l z ≤ Real.exp z := by
  have hs : Summable (fun n => z ^ n / ((n ! : ℕ) : ℝ)) := (hasSum_exp_real z).summable
  have hinj : Function.Injective (fun j : ℕ => l + 2 * j) := fun a b h => by
    simp only at h; omega
  have h1 : ∑' j, (fun n => z ^ n / ((n ! : ℕ) : ℝ)) ((fun j : ℕ => l + 2 * j) j) ≤ Real.exp z := by
    have := tsum_comp_le_tsum_of_inj hs (fun n => by positivity) hinj
    rw [(hasSum_exp_real z).tsum_eq] at this
    exact this
  refine le_trans ?_ h1
  unfold sphI
  refine (iTerm_summable l z).tsum_le_tsum (fun j => iTerm_le_expTerm l j z hz) ?_
  exact hs.comp_injective hinj

theorem K_le_one (l : ℕ) (z : ℝ) (hz : 0 ≤ z) : K l z ≤ 1 := by
  unfold K
  calc Real.exp (-z) * sphI l z ≤ Real.exp (-z) * Real.exp z :=
        mul_le_mul_of_nonneg_left (sphI_le_exp l z hz) (Real.exp_pos _).le
    _ = 1 := by rw [← Real.exp_add]; simp

/-! ## Stage 2: |K_l^(n)(z)| ≤ 2^n on z ≥ 0 -/

theorem dSpec_abs_le (n l : ℕ) (z : ℝ) (hz : 0 ≤ z) : |dSpec n l z| ≤ 2 ^ n := by
  induction n generalizing l with
  | zero =>
    rw [dSpec, pow_zero, abs_of_nonneg (K_nonneg l z hz)]
    exact K_le_one l z hz
  | succ n ih =>
    cases l with
    | zero =>
      rw [dSpec, pow_succ]
      have := abs_sub (dSpec n 1 z) (dSpec n 0 z)
      linarith [ih 1, ih 0]
    | succ l =>
      rw [dSpec, Ecpint.C14.recStep_spec, pow_succ]
      set a := dSpec n l z
      set b := dSpec n (l + 2) z
      set c := dSpec n (l + 1) z
      have ha : |a| ≤ 2 ^ n := ih l
      have hb : |b| ≤ 2 ^ n := ih (l + 2)
      have hc : |c| ≤ 2 ^ n := ih (l + 1)
      have hL : (0 : ℝ) ≤ ((l + 1 : ℕ) : ℝ) := Nat.cast_nonneg _
      set L : ℝ := ((l + 1 : ℕ) : ℝ)
      have hd : (0 : ℝ) < 2 * L + 1 := by positivity
      have h1 : |(L * a + (L + 1) * b) / (2 * L + 1)| ≤ 2 ^ n := by
        rw [abs_div, abs_of_pos hd, div_le_iff₀ hd]
        calc |L * a + (L + 1) * b| ≤ |L * a| + |(L + 1) * b| := abs_add_le _ _
          _ = L * |a| + (L + 1) * |b| := by
              rw [abs_mul, abs_mul, abs_of_nonneg hL, abs_of_nonneg (by linarith : (0 : ℝ) ≤ L + 1)]
          _ ≤ L * 2 ^ n + (L + 1) * 2 ^ n :=
              add_le_add (mul_le_mul_of_nonneg_left ha hL) (mul_le_mul_of_nonneg_left hb (by linarith))
          _ = 2 ^ n * (2 * L + 1) := by ring
      have := abs_sub ((L * a + (L + 1) * b) / (2 * L + 1)) c
      linarith

theorem iteratedDeriv_K_abs_le (n l : ℕ) (z : ℝ) (hz : 0 ≤ z) : |iteratedDeriv n (K l) z| ≤ 2 ^ n := by
  rw [iteratedDeriv_K]
  exact dSpec_abs_le n l z hz

/-! ## Stage 3: the Lagrange remainder of the Taylor evaluation -/

theorem dSpec_differentiable (n l : ℕ) : Differentiable ℝ (dSpec n l) :=
  fun z => (dSpec_hasDerivAt n l z).differentiableAt

theorem K_contDiff (l : ℕ) (n : ℕ∞) : ContDiff ℝ n (K l) := by
  apply contDiff_of_differentiable_iteratedDeriv
  intro m _
  rw [iteratedDeriv_K_fun]
  exact dSpec_differentiable m l

theorem taylor_remainder (l tc : ℕ) (z0 dz : ℝ) (hz0 : 0 ≤ z0) (hz : 0 ≤ z0 + dz) :
    |K l (z0 + dz) - ∑ n ∈ Finset.range (tc + 1), dz ^ n / (n ! : ℝ) * iteratedDeriv n (K l) z0|
      ≤ 2 ^ (tc + 1) * |dz| ^ (tc + 1) / ((tc + 1)! : ℝ) := by
  rcases eq_or_ne dz 0 with h0 | h0
  · subst h0
    rw [Finset.sum_range_succ', add_zero]
    simp only [pow_succ, mul_zero, zero_div, zero_mul, Finset.sum_const_zero, pow_zero, Nat.factorial_zero, Nat.cast_one,
      div_one, one_mul, iteratedDeriv_zero, zero_add, sub_self, abs_zero, le_refl]
  · have hx : z0 ≠ z0 + dz := fun h => h0 (by linarith)
    have hcd : ContDiff ℝ ((tc + 1 : ℕ) : ℕ∞) (K l) := K_contDiff l _
    obtain ⟨x', hx', hrem⟩ := taylor_mean_remainder_lagrange_iteratedDeriv (f := K l) (n := tc) hx
      (by exact_mod_cast hcd.contDiffOn)
    have hx'0 : 0 ≤ x' := by
      have := hx'.1
      rcases le_total z0 (z0 + dz) with h | h
      · rw [min_eq_left h] at this; linarith
      · rw [min_eq_right h] at this; linarith
    have hT : taylorWithinEval (K l) tc (Set.uIcc z0 (z0 + dz)) z0 (z0 + dz)
        = ∑ n ∈ Finset.range (tc + 1), dz ^ n / (n ! : ℝ) * iteratedDeriv n (K l) z0 := by
      rw [taylor_within_apply]
      apply Finset.sum_congr rfl
      intro n _
      rw [iteratedDerivWithin_eq_iteratedDeriv (uniqueDiffOn_uIcc hx) ((K_contDiff l n).contDiffAt) Set.left_mem_uIcc]
      rw [smul_eq_mul, add_sub_cancel_left]
      ring
    rw [← hT, hrem, add_sub_cancel_left, abs_div, abs_mul, abs_pow, abs_of_pos (by positivity : (0 : ℝ) < ((tc + 1)! : ℝ))]
    apply div_le_div_of_nonneg_right _ (by positivity)
    exact mul_le_mul_of_nonneg_right (iteratedDeriv_K_abs_le (tc + 1) l x' hx'0) (by positivity)

/-! ## Stage 4: the table regime in exact arithmetic, constants as shipped -/

/-- the Lagrange bound at half a grid spacing: 2^(T+1) (8/N)^(T+1) / (T+1)! < 1e-14 for N = 1600, T = 5 (≈ 1.4e-15) -/
theorem table_budget :
    (2 : ℝ) ^ (Gen.TAYLOR_CUT + 1) * (8 / (Gen.BESSEL_N : ℝ)) ^ (Gen.TAYLOR_CUT + 1) / ((Gen.TAYLOR_CUT + 1)! : ℝ)
      < 1 / 10 ^ 14 := by
  simp only [Gen.TAYLOR_CUT, Gen.BESSEL_N]
  norm_num [Nat.factorial]

/-- the Taylor evaluation about a node holding the exact row, against the function, for any step |dz| ≤ 8/N -/
theorem table_regime_error (lMax : ℕ) (krow : Array ℝ) (z0 dz : ℝ) (hz0 : 0 ≤ z0) (hz : 0 ≤ z0 + dz)
    (hdz : |dz| ≤ 8 / (Gen.BESSEL_N : ℝ)) (hk : ∀ l ≤ lMax + Gen.TAYLOR_CUT, krow[l]! = K l z0) (l : ℕ) (hl : l ≤ lMax) :
    |K l (z0 + dz) - Ecpint.Bessel.taylorAll Gen.TAYLOR_CUT dz (fun n => ((Ecpint.Bessel.derivRows lMax Gen.TAYLOR_CUT krow)[n]!)[l]!)|
      < 1 / 10 ^ 14 := by
  rw [Ecpint.C14d.taylor_is_taylor_polynomial lMax Gen.TAYLOR_CUT krow z0 dz hk l hl]
  refine lt_of_le_of_lt (taylor_remainder l Gen.TAYLOR_CUT z0 dz hz0 hz) (lt_of_le_of_lt ?_ table_budget)
  apply div_le_div_of_nonneg_right _ (by positivity)
  exact mul_le_mul_of_nonneg_left (pow_le_pow_left₀ (abs_nonneg _) hdz _) (by positivity)

/-- the same for the single-order evaluator -/
theorem table_regime_error_one (lMax : ℕ) (krow : Array ℝ) (z0 dz : ℝ) (hz0 : 0 ≤ z0) (hz : 0 ≤ z0 + dz)
    (hdz : |dz| ≤ 8 / (Gen.BESSEL_N : ℝ)) (hk : ∀ l ≤ lMax + Gen.TAYLOR_CUT, krow[l]! = K l z0) (l : ℕ) (hl : l ≤ lMax) :
    |K l (z0 + dz) - Ecpint.Bessel.taylorOne Gen.TAYLOR_CUT dz (fun n => ((Ecpint.Bessel.derivRows lMax Gen.TAYLOR_CUT krow)[n]!)[l]!)|
      < 1 / 10 ^ 14 := by
  rw [← Ecpint.C14.taylorAll_eq_taylorOne]
  exact table_regime_error lMax krow z0 dz hz0 hz hdz hk l hl

/-- with the node and step the evaluators actually use: for 0 ≤ z ≤ 16, ix = ⌊z·(N/16) + ½⌋ is a row of the table, and the
Taylor evaluation about the node z_ix = ix/(N/16), from an exact row, is within 1e-14 of K_l(z) -/
theorem table_regime_error_at (lMax : ℕ) (krow : Array ℝ) (z : ℝ) (h0 : 0 ≤ z) (h16 : z ≤ 16)
    (hk : ∀ l ≤ lMax + Gen.TAYLOR_CUT,
      krow[l]! = K l ((⌊z * ((Gen.BESSEL_N : ℝ) / 16) + 1 / 2⌋₊ : ℝ) / ((Gen.BESSEL_N : ℝ) / 16))) (l : ℕ) (hl : l ≤ lMax) :
    ⌊z * ((Gen.BESSEL_N : ℝ) / 16) + 1 / 2⌋₊ ≤ Gen.BESSEL_N ∧
    |K l z - Ecpint.Bessel.taylorAll Gen.TAYLOR_CUT
        (z - (⌊z * ((Gen.BESSEL_N : ℝ) / 16) + 1 / 2⌋₊ : ℝ) / ((Gen.BESSEL_N : ℝ) / 16))
        (fun n => ((Ecpint.Bessel.derivRows lMax Gen.TAYLOR_CUT krow)[n]!)[l]!)| < 1 / 10 ^ 14 := by
  obtain ⟨hix, hdz⟩ := Ecpint.C14.table_row_in_range (F := ℝ) Gen.BESSEL_N (by decide) z h0 h16
  refine ⟨hix, ?_⟩
  set z0 : ℝ := (⌊z * ((Gen.BESSEL_N : ℝ) / 16) + 1 / 2⌋₊ : ℝ) / ((Gen.BESSEL_N : ℝ) / 16) with hz0def
  have hz0 : 0 ≤ z0 := div_nonneg (Nat.cast_nonneg _) (div_nonneg (Nat.cast_nonneg _) (by norm_num))
  have hdz' : |z - z0| ≤ 8 / (Gen.BESSEL_N : ℝ) := by
    refine le_trans hdz (le_of_eq ?_)
    simp only [Gen.BESSEL_N]; norm_num
  have := table_regime_error lMax krow z0 (z - z0) hz0 (by linarith) hdz' hk l hl
  rwa [add_sub_cancel] at this

/-! ## Stage 5: truncation error of the stored rows -/

open Ecpint.C14c Ecpint.C14d Ecpint.Bessel

/-- the last term the series loop included (what its stopping test looks at) -/
theorem Kpartial_last (j : ℕ) (z : ℝ) : Kpartial (j + 1) 0 z - Kpartial j 0 z = Real.exp (-z) * iTerm 0 j z := by
  rw [Kpartial_eq, Kpartial_eq, Finset.sum_range_succ]
  ring

/-- raising the order lowers the term, once 2l+2m+3 ≥ z -/
theorem iTerm_succ_l (l m : ℕ) (z : ℝ) : iTerm (l + 1) m z = iTerm l m z * (z / (2 * (l : ℝ) + 2 * (m : ℝ) + 3)) := by
  unfold iTerm
  rw [dfac_shift']
  have h1 := (fac_pos m).ne'
  have h2 := (dfac_pos (2 * l + 2 * m + 1)).ne'
  have h3 : (2 * (l : ℝ) + 2 * (m : ℝ) + 3) ≠ 0 := by positivity
  field_simp
  ring

theorem iTerm_le_zero (l m : ℕ) (z : ℝ) (hz : 0 ≤ z) (hzm : z ≤ 2 * (m : ℝ) + 3) : iTerm l m z ≤ iTerm 0 m z := by
  induction l with
  | zero => exact le_refl _
  | succ l ih =>
    rw [iTerm_succ_l]
    refine le_trans ?_ ih
    have h3 : (0 : ℝ) < 2 * (l : ℝ) + 2 * (m : ℝ) + 3 := by positivity
    have hl : (0 : ℝ) ≤ (l : ℝ) := Nat.cast_nonneg l
    have hq : z / (2 * (l : ℝ) + 2 * (m : ℝ) + 3) ≤ 1 := by
      rw [div_le_one h3]; linarith
    calc iTerm l m z * (z / (2 * (l : ℝ) + 2 * (m : ℝ) + 3)) ≤ iTerm l m z * 1 :=
          mul_le_mul_of_nonneg_left hq (iTerm_nonneg l m z hz)
      _ = iTerm l m z := mul_one _

/-- ratio of consecutive terms of the l = 0 series: q_m = (z²/2)/((m+1)(2m+3)) -/
theorem iTerm_succ_m (m : ℕ) (z : ℝ) :
    iTerm 0 (m + 1) z = iTerm 0 m z * ((z ^ 2 / 2) / (((m : ℝ) + 1) * (2 * (m : ℝ) + 3))) := by
  unfold iTerm
  have e := dfac_shift 0 m
  simp only [Nat.cast_zero, mul_zero, zero_add] at e ⊢
  rw [e, fac_succ, pow_succ]
  have h1 := (fac_pos m).ne'
  have h2 := (dfac_pos (2 * m + 1)).ne'
  have h3 : (2 * (m : ℝ) + 3) ≠ 0 := by positivity
  have h4 : ((m : ℝ) + 1) ≠ 0 := by positivity
  field_simp

/-- beyond the index j where q_j ≤ 1/2 the l = 0 terms decay at least geometrically with ratio 1/2 -/
theorem iTerm_geometric (j : ℕ) (z : ℝ) (hz : 0 ≤ z) (hq : z ^ 2 ≤ ((j : ℝ) + 1) * (2 * (j : ℝ) + 3)) (k : ℕ) :
    iTerm 0 (j + k) z ≤ iTerm 0 j z / 2 ^ k := by
  induction k with
  | zero => simp
  | succ k ih =>
    rw [← add_assoc, iTerm_succ_m, pow_succ]
    have hjk : ((j + k : ℕ) : ℝ) = (j : ℝ) + (k : ℝ) := by push_cast; ring
    have hk : (0 : ℝ) ≤ (k : ℝ) := Nat.cast_nonneg k
    have hj : (0 : ℝ) ≤ (j : ℝ) := Nat.cast_nonneg j
    have hden : (0 : ℝ) < (((j + k : ℕ) : ℝ) + 1) * (2 * ((j + k : ℕ) : ℝ) + 3) := by positivity
    have hr : (z ^ 2 / 2) / ((((j + k : ℕ) : ℝ) + 1) * (2 * ((j + k : ℕ) : ℝ) + 3)) ≤ 1 / 2 := by
      rw [div_le_iff₀ hden, hjk]
      nlinarith [mul_nonneg hk hk, mul_nonneg hk hj]
    have h0 : 0 ≤ iTerm 0 j z / 2 ^ k := div_nonneg (iTerm_nonneg 0 j z hz) (by positivity)
    calc iTerm 0 (j + k) z * ((z ^ 2 / 2) / ((((j + k : ℕ) : ℝ) + 1) * (2 * ((j + k : ℕ) : ℝ) + 3)))
        ≤ (iTerm 0 j z / 2 ^ k) * (1 / 2) :=
          mul_le_mul ih hr (div_nonneg (by positivity) hden.le) h0
      _ = iTerm 0 j z / (2 ^ k * 2) := by rw [div_mul_div_comm, mul_one]


/-- K_l by its series -/
theorem K_eq_tsum (l : ℕ) (z : ℝ) : K l z = Real.exp (-z) * ∑' m, iTerm l m z := rfl

/-- the truncation error is the tail of the series -/
theorem K_sub_Kpartial (j l : ℕ) (z : ℝ) :
  K l z - Kpartial (j + 1) l z = Real.exp (-z) * ∑' m, iTerm l (m + (j + 1)) z := by
    have hsum := (iTerm_summable l z).sum_add_tsum_nat_add (j + 1)
    rw [Kpartial_eq, K_eq_tsum l z, ← hsum]
    ring

theorem z_le_of_sq_le (j : ℕ) (z : ℝ) (hq : z ^ 2 ≤ ((j : ℝ) + 1) * (2 * (j : ℝ) + 3)) : z ≤ 2 * (j : ℝ) + 3 := by
  have hj : (0 : ℝ) ≤ (j : ℝ) := Nat.cast_nonneg j
  by_contra hc
  rw [not_le] at hc
  have h2 : (2 * (j : ℝ) + 3) ^ 2 < z ^ 2 := pow_lt_pow_left₀ hc (by positivity) two_ne_zero
  nlinarith [mul_nonneg hj hj]

/-- truncation error under the explicit condition that the series is on its geometrically decreasing side at the cut
(q_j = (z²/2)/((j+1)(2j+3)) ≤ 1/2): for EVERY order l the neglected tail is at most the last l = 0 term that was included -/
theorem truncation_le_last (j l : ℕ) (z : ℝ) (hz : 0 ≤ z) (hq : z ^ 2 ≤ ((j : ℝ) + 1) * (2 * (j : ℝ) + 3)) :
    K l z - Kpartial (j + 1) l z ≤ Kpartial (j + 1) 0 z - Kpartial j 0 z := by
  rw [K_sub_Kpartial, Kpartial_last]
  apply mul_le_mul_of_nonneg_left _ (Real.exp_pos _).le
  have hz3 := z_le_of_sq_le j z hq
  have hgeo := hasSum_geometric_two' (iTerm 0 j z)
  have htail : Summable (fun m => iTerm l (m + (j + 1)) z) := (summable_nat_add_iff (f := fun m => iTerm l m z) (j + 1)).2 (iTerm_summable l z)
  refine hasSum_le (fun k => ?_) htail.hasSum hgeo
  have h1 : iTerm l (k + (j + 1)) z ≤ iTerm 0 (k + (j + 1)) z := by
    apply iTerm_le_zero l _ z hz
    push_cast
    have : (0 : ℝ) ≤ (k : ℝ) := Nat.cast_nonneg k
    linarith
  have h2 := iTerm_geometric j z hz hq (k + 1)
  have e : j + (k + 1) = k + (j + 1) := by omega
  rw [e] at h2
  refine le_trans h1 (le_trans h2 (le_of_eq ?_))
  rw [pow_succ, div_div, mul_comm]

theorem exp_neg_16_gt : (1 : ℝ) / 10 ^ 7 < Real.exp (-16) := by
  have h : Real.exp 16 < 10 ^ 7 := by
    have h1 := Real.exp_one_lt_d9
    calc Real.exp 16 = (Real.exp 1) ^ 16 := by rw [← Real.exp_nat_mul]; norm_num
      _ < (2.7182818286 : ℝ) ^ 16 := pow_lt_pow_left₀ h1 (Real.exp_pos 1).le (by norm_num)
      _ < 10 ^ 7 := by norm_num
  rw [Real.exp_neg, one_div]
  exact (inv_lt_inv₀ (by positivity) (Real.exp_pos 16)).2 h

theorem peak_const (j : ℕ) (hj : j ≤ 10) :
    ((j ! : ℕ) : ℝ) * (((2 * j + 1)‼ : ℕ) : ℝ) ≤ ((((j : ℝ) + 1) * (2 * (j : ℝ) + 3)) / 2) ^ j := by
  interval_cases j <;> norm_num [Nat.factorial, Nat.doubleFactorial]

theorem stop_on_decreasing_side (j : ℕ) (z acc : ℝ) (hz0 : 0 ≤ z) (hz16 : z ≤ 16) (hacc : acc ≤ 1 / 10 ^ 7)
    (hstop : Real.exp (-z) * iTerm 0 j z < acc) : z ^ 2 ≤ ((j : ℝ) + 1) * (2 * (j : ℝ) + 3) := by
  by_contra hc
  rw [not_le] at hc
  have hz2 : z ^ 2 ≤ 256 := by nlinarith
  have hj : j ≤ 10 := by
    by_contra h
    have h11 : (11 : ℝ) ≤ (j : ℝ) := by exact_mod_cast (by omega : 11 ≤ j)
    nlinarith
  have h1 : (1 : ℝ) ≤ iTerm 0 j z := by
    unfold iTerm
    simp only [pow_zero, one_mul, Nat.mul_zero, Nat.zero_add]
    rw [div_div, le_div_iff₀ (mul_pos (fac_pos j) (dfac_pos _)), one_mul]
    refine le_trans (peak_const j hj) ?_
    apply pow_le_pow_left₀ (by positivity)
    linarith
  have h2 : Real.exp (-16) ≤ Real.exp (-z) := Real.exp_le_exp.mpr (by linarith)
  have h3 := exp_neg_16_gt
  have h4 : Real.exp (-z) * 1 ≤ Real.exp (-z) * iTerm 0 j z := mul_le_mul_of_nonneg_left h1 (Real.exp_pos _).le
  linarith


/-- `tabulateRow_spec` (C14c) with the number of series terms named: it is the index at which the series loop stopped -/
theorem tabulateRow_spec_J (n N order lmax : ℕ) (acc : ℝ) (i : ℕ) (hn : 2 ≤ n) :
    let dfac := dfacTable (α := ℝ) n
    let z : ℝ := (i : ℝ) / ((N : ℝ) / 16)
    let J := (seriesLoop dfac (z * z / 2) acc order 1 #[Real.exp (-z)] (Real.exp (-z) / dfac[0]!)
      (Real.exp (-z) / dfac[0]!)).2.2
    1 ≤ J ∧ J ≤ order + 1 ∧
      (tabulateRow dfac N order lmax acc i).size = lmax + 1 ∧
      (2 * lmax + 2 * J ≤ n →
        (J ≤ order → Kpartial J 0 z - Kpartial (J - 1) 0 z < acc) ∧
        ∀ l ≤ lmax, (tabulateRow dfac N order lmax acc i)[l]! = Kpartial J l z) := by
  intro dfac z
  have hd : ∀ k, k < n → dfac[k]! = ((k‼ : ℕ) : ℝ) := fun k hk => dfacTable_spec n k hk hn
  have hd0 : dfac[0]! = 1 := by simpa using hd 0 (by omega)
  have hd1 : dfac[1]! = 1 := by simpa using hd 1 (by omega)
  have hcast : (((16 : ℕ) : ℝ)) = 16 := by norm_num
  have hinit : SInv dfac (Real.exp (-z)) (z * z / 2) 1 #[Real.exp (-z)] (Real.exp (-z) / dfac[0]!) (Real.exp (-z) / dfac[0]!) :=
    ⟨le_refl _, rfl, fun m hm => by (have : m = 0 := by omega); subst this; simp, by simp [hd0, hd1], by simp [hd0, hd1]⟩
  have hinv := seriesLoop_inv dfac (Real.exp (-z)) (z * z / 2) acc order 1 _ _ _ hinit
  have hrow : tabulateRow dfac N order lmax acc i =
      ((List.range lmax).foldl (fun (a : Array ℝ × ℝ) k =>
        (a.1.push (a.2 * seriesSum dfac (seriesLoop dfac (z * z / 2) acc order 1 #[Real.exp (-z)] (Real.exp (-z) / dfac[0]!)
          (Real.exp (-z) / dfac[0]!)).1 (seriesLoop dfac (z * z / 2) acc order 1 #[Real.exp (-z)] (Real.exp (-z) / dfac[0]!)
          (Real.exp (-z) / dfac[0]!)).2.2 (k + 1)), a.2 * z))
        (#[(seriesLoop dfac (z * z / 2) acc order 1 #[Real.exp (-z)] (Real.exp (-z) / dfac[0]!) (Real.exp (-z) / dfac[0]!)).2.1], z)).1 := by
    simp only [tabulateRow, z, hcast]
    rfl
  rcases hr : seriesLoop dfac (z * z / 2) acc order 1 #[Real.exp (-z)] (Real.exp (-z) / dfac[0]!) (Real.exp (-z) / dfac[0]!)
    with ⟨F, k0, J⟩
  rw [hr] at hinv hrow
  simp only at hinv hrow ⊢
  obtain ⟨hS, hJ1, hJ2, hstop⟩ := hinv
  obtain ⟨r1, r2, r3, r4⟩ := row_foldl z k0 (fun l => seriesSum dfac F J l) lmax
  have hterm : ∀ l m, m < J → 2 * l + 2 * m + 1 < n →
      F[m]! / dfac[2 * l + 2 * m + 1]! = Real.exp (-z) * ((z ^ 2 / 2) ^ m / (m ! : ℝ) / (((2 * l + 2 * m + 1)‼ : ℕ) : ℝ)) := by
    intro l m hm hlt
    rw [hS.vals m hm, hd _ hlt]
    have : z * z / 2 = z ^ 2 / 2 := by ring
    rw [this]; ring
  refine ⟨hJ1, by omega, by rw [hrow, r1], fun hidx => ⟨fun hJo => ?_, fun l hl => ?_⟩⟩
  · -- the stopping test: the last l = 0 term is below the accuracy
    have hlast := hstop (by omega)
    obtain ⟨j', rfl⟩ : ∃ j', J = j' + 1 := ⟨J - 1, by omega⟩
    simp only [Nat.add_sub_cancel] at hlast ⊢
    unfold Kpartial
    rw [Finset.sum_range_succ, mul_add, add_sub_cancel_left]
    have := hterm 0 j' (by omega) (by omega)
    simp only [Nat.mul_zero, Nat.zero_add] at this
    rw [this] at hlast
    simpa using hlast
  · rw [hrow]
    rcases Nat.eq_zero_or_pos l with h0 | hpos
    · subst h0
      rw [r3, hS.k0_eq]
      unfold Kpartial
      rw [Finset.mul_sum]
      apply Finset.sum_congr rfl
      intro m hm
      have := hterm 0 m (Finset.mem_range.mp hm) (by have := Finset.mem_range.mp hm; omega)
      simp only [Nat.mul_zero, Nat.zero_add] at this
      rw [this]; simp
    · rw [r4 l hpos hl, seriesSum_eq]
      unfold Kpartial
      rw [Finset.mul_sum, Finset.mul_sum]
      apply Finset.sum_congr rfl
      intro m hm
      rw [hterm l m (Finset.mem_range.mp hm) (by have := Finset.mem_range.mp hm; omega)]
      ring


/-- truncation error of a row with J terms, 0 ≤ z ≤ 16, when the stopping test of the series loop fired with an accuracy
`acc ≤ 1e-7` (< e^{-16}, so the stop is on the decreasing side of the series): for every order l,
0 ≤ K_l(z) − Kpartial J l z < acc -/
theorem truncation_error (J l : ℕ) (z acc : ℝ) (hJ : 1 ≤ J) (hz0 : 0 ≤ z) (hz16 : z ≤ 16) (hacc : acc ≤ 1 / 10 ^ 7)
    (hstop : Kpartial J 0 z - Kpartial (J - 1) 0 z < acc) :
    0 ≤ K l z - Kpartial J l z ∧ K l z - Kpartial J l z < acc := by
  obtain ⟨j, rfl⟩ : ∃ j, J = j + 1 := ⟨J - 1, by omega⟩
  simp only [Nat.add_sub_cancel] at hstop
  refine ⟨sub_nonneg.mpr (Kpartial_le (j + 1) l z hz0), ?_⟩
  have hq := stop_on_decreasing_side j z acc hz0 hz16 hacc (by rw [← Kpartial_last]; exact hstop)
  exact lt_of_le_of_lt (truncation_le_last j l z hz0 hq) hstop

/-- the stored table rows for the constants as shipped (grid 0..16 in BESSEL_N steps, series order BESSEL_ORDER,
double-factorial table MAX_DFAC), any accuracy between the default radial threshold 1e-15 and 1e-7, any order an engine
can initialise, in exact arithmetic: every entry K[i][l] is below K_l(z_i) by less than the accuracy -/
theorem stored_row_error (i : ℕ) (hi : i ≤ Gen.BESSEL_N) (acc : ℝ)
    (hacc : (Gen.RADIAL_THRESH_DEFAULT_num : ℝ) / Gen.RADIAL_THRESH_DEFAULT_den ≤ acc) (hacc7 : acc ≤ 1 / 10 ^ 7)
    (lmax : ℕ) (hlmax : lmax ≤ 3 * Gen.LIBECPINT_MAX_L + Gen.TAYLOR_CUT) (l : ℕ) (hl : l ≤ lmax) :
    let row := tabulateRow (dfacTable (α := ℝ) Gen.MAX_DFAC) Gen.BESSEL_N Gen.BESSEL_ORDER lmax acc i
    let z : ℝ := (i : ℝ) / ((Gen.BESSEL_N : ℝ) / 16)
    0 ≤ K l z - row[l]! ∧ K l z - row[l]! < acc := by
  intro row z
  obtain ⟨_, hJo, hidx⟩ := tabulate_indices_in_table i hi acc hacc lmax hlmax
  obtain ⟨hJ1, _, _, hspec⟩ := tabulateRow_spec_J Gen.MAX_DFAC Gen.BESSEL_N Gen.BESSEL_ORDER lmax acc i (by decide)
  obtain ⟨hstop, hrow⟩ := hspec hidx
  have hz0 : 0 ≤ z := div_nonneg (Nat.cast_nonneg _) (div_nonneg (Nat.cast_nonneg _) (by norm_num))
  have hz16 : z ≤ 16 := by
    have hN : (i : ℝ) ≤ (Gen.BESSEL_N : ℝ) := by exact_mod_cast hi
    have hNpos : (0 : ℝ) < (Gen.BESSEL_N : ℝ) / 16 := by simp [Gen.BESSEL_N]
    rw [div_le_iff₀ hNpos]
    have : (16 : ℝ) * ((Gen.BESSEL_N : ℝ) / 16) = Gen.BESSEL_N := by ring
    linarith
  have := truncation_error _ l z acc hJ1 hz0 hz16 hacc7 (hstop hJo)
  rw [← hrow l hl] at this
  exact this

/-! ## Stage 6: the table regime from the rows as stored (truncated series), constants as shipped -/

theorem recStep_sub (l : ℕ) (a b c a' b' c' : ℝ) :
    recStep l a b c - recStep l a' b' c' = recStep l (a - a') (b - b') (c - c') := by
  unfold recStep
  ring

theorem recStep_abs_le (l : ℕ) (a b c M : ℝ) (ha : |a| ≤ M) (hb : |b| ≤ M) (hc : |c| ≤ M) :
    |recStep l a b c| ≤ 2 * M := by
  rw [Ecpint.C14.recStep_spec]
  have hL : (0 : ℝ) ≤ (l : ℝ) := Nat.cast_nonneg _
  set L : ℝ := (l : ℝ)
  have hd : (0 : ℝ) < 2 * L + 1 := by positivity
  have h1 : |(L * a + (L + 1) * b) / (2 * L + 1)| ≤ M := by
    rw [abs_div, abs_of_pos hd, div_le_iff₀ hd]
    calc |L * a + (L + 1) * b| ≤ |L * a| + |(L + 1) * b| := abs_add_le _ _
      _ = L * |a| + (L + 1) * |b| := by
          rw [abs_mul, abs_mul, abs_of_nonneg hL, abs_of_nonneg (by linarith : (0 : ℝ) ≤ L + 1)]
      _ ≤ L * M + (L + 1) * M :=
          add_le_add (mul_le_mul_of_nonneg_left ha hL) (mul_le_mul_of_nonneg_left hb (by linarith))
      _ = M * (2 * L + 1) := by ring
  have := abs_sub ((L * a + (L + 1) * b) / (2 * L + 1)) c
  linarith

/-- the derivative recurrence amplifies an error ε of the row by at most 2^n in row n -/
theorem dRec_perturb (k : ℕ → ℝ) (z ε : ℝ) (top : ℕ) (hk : ∀ l ≤ top, |k l - K l z| ≤ ε) :
    ∀ n l, l + n ≤ top → |dRec k n l - dSpec n l z| ≤ 2 ^ n * ε := by
  intro n
  induction n with
  | zero => intro l hl; simp only [dRec, dSpec, pow_zero, one_mul]; exact hk l (by omega)
  | succ n ih =>
    intro l hl
    rcases l with _ | l
    · simp only [dRec, dSpec]
      have h1 := ih 1 (by omega)
      have h0 := ih 0 (by omega)
      have e : dRec k n 1 - dRec k n 0 - (dSpec n 1 z - dSpec n 0 z)
          = (dRec k n 1 - dSpec n 1 z) - (dRec k n 0 - dSpec n 0 z) := by ring
      rw [e, pow_succ]
      have := abs_sub (dRec k n 1 - dSpec n 1 z) (dRec k n 0 - dSpec n 0 z)
      linarith
    · simp only [dRec, dSpec]
      rw [recStep_sub, pow_succ]
      have := recStep_abs_le (l + 1) _ _ _ _ (ih l (by omega)) (ih (l + 2) (by omega)) (ih (l + 1) (by omega))
      linarith

theorem exp_budget : ∑ n ∈ Finset.range (Gen.TAYLOR_CUT + 1), (8 / (Gen.BESSEL_N : ℝ)) ^ n / (n ! : ℝ) * 2 ^ n ≤ 102 / 100 := by
  simp only [Gen.TAYLOR_CUT, Gen.BESSEL_N, Finset.sum_range_succ, Finset.sum_range_zero]
  norm_num [Nat.factorial]

/-- Taylor evaluation from a row that is within ε of the exact one -/
theorem table_regime_error_approx (lMax : ℕ) (krow : Array ℝ) (z0 dz ε : ℝ) (hz0 : 0 ≤ z0) (hz : 0 ≤ z0 + dz)
    (hdz : |dz| ≤ 8 / (Gen.BESSEL_N : ℝ)) (hk : ∀ l ≤ lMax + Gen.TAYLOR_CUT, |krow[l]! - K l z0| ≤ ε) (l : ℕ) (hl : l ≤ lMax) :
    |K l (z0 + dz) - taylorAll Gen.TAYLOR_CUT dz (fun n => ((derivRows lMax Gen.TAYLOR_CUT krow)[n]!)[l]!)|
      < 1 / 10 ^ 14 + 102 / 100 * ε := by
  have hε : 0 ≤ ε := le_trans (abs_nonneg _) (hk 0 (Nat.zero_le _))
  rw [Ecpint.C14.taylorAll_closed]
  have hpert := dRec_perturb (fun l => krow[l]!) z0 ε (lMax + Gen.TAYLOR_CUT) hk
  have hsplit : K l (z0 + dz) - ∑ n ∈ Finset.range (Gen.TAYLOR_CUT + 1),
        dz ^ n / (n ! : ℝ) * ((derivRows lMax Gen.TAYLOR_CUT krow)[n]!)[l]!
      = (K l (z0 + dz) - ∑ n ∈ Finset.range (Gen.TAYLOR_CUT + 1), dz ^ n / (n ! : ℝ) * iteratedDeriv n (K l) z0)
        + ∑ n ∈ Finset.range (Gen.TAYLOR_CUT + 1), dz ^ n / (n ! : ℝ) *
            (dSpec n l z0 - dRec (fun l => krow[l]!) n l) := by
    rw [sub_add, ← Finset.sum_sub_distrib]
    congr 1
    apply Finset.sum_congr rfl
    intro n hn
    have hn' : n ≤ Gen.TAYLOR_CUT := by have := Finset.mem_range.mp hn; omega
    rw [(derivRows_spec lMax Gen.TAYLOR_CUT krow).2 n hn' l (by omega), iteratedDeriv_K]
    ring
  rw [hsplit]
  have h1 : |K l (z0 + dz) - ∑ n ∈ Finset.range (Gen.TAYLOR_CUT + 1), dz ^ n / (n ! : ℝ) * iteratedDeriv n (K l) z0|
      < 1 / 10 ^ 14 := by
    refine lt_of_le_of_lt (taylor_remainder l Gen.TAYLOR_CUT z0 dz hz0 hz) (lt_of_le_of_lt ?_ table_budget)
    apply div_le_div_of_nonneg_right _ (by positivity)
    exact mul_le_mul_of_nonneg_left (pow_le_pow_left₀ (abs_nonneg _) hdz _) (by positivity)
  have h2 : |∑ n ∈ Finset.range (Gen.TAYLOR_CUT + 1), dz ^ n / (n ! : ℝ) *
      (dSpec n l z0 - dRec (fun l => krow[l]!) n l)| ≤ 102 / 100 * ε := by
    refine le_trans (Finset.abs_sum_le_sum_abs _ _) ?_
    refine le_trans ?_ (mul_le_mul_of_nonneg_right exp_budget hε)
    rw [Finset.sum_mul]
    apply Finset.sum_le_sum
    intro n hn
    have hn' : n ≤ Gen.TAYLOR_CUT := by have := Finset.mem_range.mp hn; omega
    have hp := hpert n l (by omega)
    rw [abs_sub_comm] at hp
    rw [abs_mul, abs_div, abs_pow, abs_of_pos (by positivity : (0 : ℝ) < (n ! : ℝ)), mul_assoc]
    apply mul_le_mul _ hp (abs_nonneg _) (by positivity)
    apply div_le_div_of_nonneg_right _ (by positivity)
    exact pow_le_pow_left₀ (abs_nonneg _) hdz _
  have := abs_add_le (K l (z0 + dz) - ∑ n ∈ Finset.range (Gen.TAYLOR_CUT + 1), dz ^ n / (n ! : ℝ) * iteratedDeriv n (K l) z0)
    (∑ n ∈ Finset.range (Gen.TAYLOR_CUT + 1), dz ^ n / (n ! : ℝ) * (dSpec n l z0 - dRec (fun l => krow[l]!) n l))
  linarith

/-- END TO END, exact arithmetic, constants as shipped: the Taylor evaluation of the table regime, from the row and derivative
tables that `tabulate` actually stores (series truncated at accuracy `acc`, 1e-15 ≤ acc ≤ 1e-7), about any grid node z_i with
any step |dz| ≤ 8/N, is within 1e-14 + 1.02·acc of K_l(z_i + dz), for every order l ≤ lMax ≤ 3·MAX_L -/
theorem table_regime_error_stored (lMax : ℕ) (hlMax : lMax ≤ 3 * Gen.LIBECPINT_MAX_L) (i : ℕ) (hi : i ≤ Gen.BESSEL_N) (acc : ℝ)
    (hacc : (Gen.RADIAL_THRESH_DEFAULT_num : ℝ) / Gen.RADIAL_THRESH_DEFAULT_den ≤ acc) (hacc7 : acc ≤ 1 / 10 ^ 7)
    (dz : ℝ) (hdz : |dz| ≤ 8 / (Gen.BESSEL_N : ℝ)) (hz : 0 ≤ (i : ℝ) / ((Gen.BESSEL_N : ℝ) / 16) + dz) (l : ℕ) (hl : l ≤ lMax) :
    let krow := tabulateRow (dfacTable (α := ℝ) Gen.MAX_DFAC) Gen.BESSEL_N Gen.BESSEL_ORDER (lMax + Gen.TAYLOR_CUT) acc i
    |K l ((i : ℝ) / ((Gen.BESSEL_N : ℝ) / 16) + dz)
        - taylorAll Gen.TAYLOR_CUT dz (fun n => ((derivRows lMax Gen.TAYLOR_CUT krow)[n]!)[l]!)|
      < 1 / 10 ^ 14 + 102 / 100 * acc := by
  intro krow
  have hz0 : (0 : ℝ) ≤ (i : ℝ) / ((Gen.BESSEL_N : ℝ) / 16) :=
    div_nonneg (Nat.cast_nonneg _) (div_nonneg (Nat.cast_nonneg _) (by norm_num))
  refine table_regime_error_approx lMax krow _ dz acc hz0 hz hdz (fun l' hl' => ?_) l hl
  have h := stored_row_error i hi acc hacc hacc7 (lMax + Gen.TAYLOR_CUT) (by omega) l' hl'
  simp only at h
  rw [abs_sub_comm, abs_of_nonneg h.1]
  exact h.2.le

/-- the same for the single-order evaluator -/
theorem table_regime_error_stored_one (lMax : ℕ) (hlMax : lMax ≤ 3 * Gen.LIBECPINT_MAX_L) (i : ℕ) (hi : i ≤ Gen.BESSEL_N) (acc : ℝ)
    (hacc : (Gen.RADIAL_THRESH_DEFAULT_num : ℝ) / Gen.RADIAL_THRESH_DEFAULT_den ≤ acc) (hacc7 : acc ≤ 1 / 10 ^ 7)
    (dz : ℝ) (hdz : |dz| ≤ 8 / (Gen.BESSEL_N : ℝ)) (hz : 0 ≤ (i : ℝ) / ((Gen.BESSEL_N : ℝ) / 16) + dz) (l : ℕ) (hl : l ≤ lMax) :
    let krow := tabulateRow (dfacTable (α := ℝ) Gen.MAX_DFAC) Gen.BESSEL_N Gen.BESSEL_ORDER (lMax + Gen.TAYLOR_CUT) acc i
    |K l ((i : ℝ) / ((Gen.BESSEL_N : ℝ) / 16) + dz)
        - taylorOne Gen.TAYLOR_CUT dz (fun n => ((derivRows lMax Gen.TAYLOR_CUT krow)[n]!)[l]!)|
      < 1 / 10 ^ 14 + 102 / 100 * acc := by
  intro krow
  rw [← Ecpint.C14.taylorAll_eq_taylorOne]
  exact table_regime_error_stored lMax hlMax i hi acc hacc hacc7 dz hdz hz l hl

end Ecpint.C14e
