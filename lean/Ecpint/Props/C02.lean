/-
C02 — analytic first derivatives of a shell pair: the assembly.

Model: Ecpint/Model/Deriv.lean (`N_INDEX` from Gen/IndexMaps.lean, regenerated every run).
Proved here, for EVERY angular momentum (no MAX_L), over any commutative ring:
  * the Cartesian loops enumerate x^k y^l z^m, k+l+m = L, with row `N_INDEX(l,m)`;
  * `left_shell_derivative` returns  −a_q·Q₋[a − e_q] + 2·Q₊[a + e_q]  for every component a and
    coordinate q, every row it reads is in range, and a clamped row is only ever multiplied by 0;
  * `compute_shell_pair_derivative`: what the nine matrices are in each of the four centre-coincidence
    branches, the translational sum rule A + B + C = 0 in every branch, and additivity at coincident
    centres (the sum over coincident centres is minus the derivative of the remaining centre);
  * the calculus identity behind it: d/dA [(x−A)^k e^{−α(x−A)²}].
-/
import Ecpint.Model.Deriv
import Ecpint.Lemmas.Deriv
import Mathlib.Tactic.Ring
import Mathlib.Tactic.Linarith
import Mathlib.Analysis.SpecialFunctions.ExpDeriv
import Mathlib.Analysis.Calculus.Deriv.Pow

namespace Ecpint.C02
open Ecpint.Deriv

/-! ### Cartesian ordering -/

theorem nIdx_eq (l m : Nat) : nIdx l m = (l + m) * (l + m + 1) / 2 + m := by
  exact nIdx_eq_nat l m

theorem cartList_length (L : Nat) : (cartList L).length = ncart L := by
  exact cartList_length_tri L

/-- the component x^(L-l-m) y^l z^m sits at position `N_INDEX(l,m)` of the loop order -/
theorem cartList_get (L l m : Nat) (h : l + m ≤ L) :
    (cartList L)[nIdx l m]? = some (L - l - m, l, m) := by
  exact cartList_get_tri L l m h

/-- the loops enumerate exactly the exponent triples of degree L -/
theorem cartList_mem (L : Nat) (a : Nat × Nat × Nat) :
    a ∈ cartList L ↔ a.1 + a.2.1 + a.2.2 = L := by
  exact cartList_mem_deg L a

/-- row of a component inside its shell -/
def rowOf (a : Nat × Nat × Nat) : Nat := nIdx a.2.1 a.2.2

def inc (a : Nat × Nat × Nat) (q : Nat) : Nat × Nat × Nat :=
  if q = 0 then (a.1 + 1, a.2.1, a.2.2) else if q = 1 then (a.1, a.2.1 + 1, a.2.2) else (a.1, a.2.1, a.2.2 + 1)
def dec (a : Nat × Nat × Nat) (q : Nat) : Nat × Nat × Nat :=
  if q = 0 then (a.1 - 1, a.2.1, a.2.2) else if q = 1 then (a.1, a.2.1 - 1, a.2.2) else (a.1, a.2.1, a.2.2 - 1)
def deg (a : Nat × Nat × Nat) : Nat := a.1 + a.2.1 + a.2.2

theorem rowOf_lt (a : Nat × Nat × Nat) : rowOf a < ncart (deg a) := by
  obtain ⟨k, l, m⟩ := a
  exact nIdx_lt_ncart (by simp only [deg]; omega)

/-- the row of a component, looked up in the loop order of its own shell, is that component -/
theorem cartList_rowOf (a : Nat × Nat × Nat) : (cartList (deg a))[rowOf a]? = some a := by
  obtain ⟨k, l, m⟩ := a
  simp only [deg, rowOf]
  rw [cartList_get_tri _ l m (by omega)]
  have hk : k + l + m - l - m = k := by omega
  rw [hk]

/-! ### left_shell_derivative -/

section
variable {R : Type} [CommRing R]

/-- `Q_minus.dims[0]` as the routine sees it: the (LA−1)-shell when LA > 0 (unused when LA = 0) -/
def qmRows (LA : Nat) : Nat := ncart (LA - 1)

/-- **the routine computes −a_q·Q₋[a − e_q] + 2·Q₊[a + e_q]** for every component `a` of every
shell and every coordinate q; the `Q₋` term is absent exactly when a_q = 0 (whatever row the clamps
selected). -/
theorem leftFirst_spec (a : Nat × Nat × Nat) (q : Nat) (hq : q < 3) (nB : Nat) (Qm Qp : Blk R) :
    leftFirst (deg a) (qmRows (deg a)) Qm Qp q (rowOf a) nB
      = (if comp a q = 0 then 0 else -((comp a q : Nat) : R) * Qm (rowOf (dec a q)) nB)
        + 2 * Qp (rowOf (inc a q)) nB := by
  obtain ⟨k, l, m⟩ := a
  simp only [deg, rowOf, comp, inc, dec, qmRows]
  by_cases h0 : k + l + m = 0
  · obtain rfl : k = 0 := by omega
    obtain rfl : l = 0 := by omega
    obtain rfl : m = 0 := by omega
    interval_cases q <;> simp [leftFirst, nIdx_eq_nat, two]
  · rw [leftFirst_pos k l m (by omega)]
    interval_cases q
    · by_cases hk : k = 0
      · subst hk; simp [two]
      · have hlt := nIdx_lt_ncart (l := l) (m := m) (L := k + l + m - 1) (by omega)
        have hmin : min (nIdx l m) (ncart (k + l + m - 1) - 1) = nIdx l m := by omega
        rw [hmin]; simp [two, hk]
    · by_cases hl : l = 0
      · subst hl; simp [two]
      · simp [two, hl, Nat.pos_of_ne_zero hl]
    · by_cases hm : m = 0
      · subst hm; simp [two]
      · simp [two, hm, Nat.pos_of_ne_zero hm]

/-- the rows addressed by the formula are inside the shifted shells -/
theorem leftFirst_rows_in_range (a : Nat × Nat × Nat) (q : Nat) (hq : q < 3) :
    rowOf (inc a q) < ncart (deg a + 1) ∧ (comp a q ≠ 0 → rowOf (dec a q) < ncart (deg a - 1)) := by
  obtain ⟨k, l, m⟩ := a
  simp only [deg, rowOf]
  interval_cases q <;> simp only [inc, dec, comp] <;> simp <;>
    refine ⟨nIdx_lt_ncart (by omega), fun h => nIdx_lt_ncart (by omega)⟩

/-- … and so is every row the code actually reads from `Q_minus`, clamps included (LA > 0) -/
theorem leftFirst_clamps_in_range (k l m : Nat) (hL : 0 < k + l + m) :
    min (nIdx l m) (qmRows (k + l + m) - 1) < qmRows (k + l + m) ∧
    (if l > 0 then nIdx (l - 1) m else 0) < qmRows (k + l + m) ∧
    (if m > 0 then nIdx l (m - 1) else 0) < qmRows (k + l + m) := by
  have hpos := ncart_pos (k + l + m - 1)
  simp only [qmRows]
  refine ⟨by omega, ?_, ?_⟩
  · split
    · exact nIdx_lt_ncart (by omega)
    · exact hpos
  · split
    · exact nIdx_lt_ncart (by omega)
    · exact hpos

/-! ### compute_shell_pair_derivative -/

/-- three distinct centres: A-block = QA, B-block = QBᵀ, C-block = −(A + B) -/
theorem pairFirst_distinct (QA QB : Nat → Blk R) (q : Nat) (hq : q < 3) (nA nB : Nat) :
    pairFirst true true QA QB q nA nB = QA q nA nB ∧
    pairFirst true true QA QB (3 + q) nA nB = QB q nB nA ∧
    pairFirst true true QA QB (6 + q) nA nB = -(QA q nA nB + QB q nB nA) := by
  interval_cases q <;> simp [pairFirst, tr]

/-- **translational sum rule** in every branch: the three centre contributions sum to zero -/
theorem pairFirst_sum_rule (aOff bOff : Bool) (QA QB : Nat → Blk R) (q : Nat) (hq : q < 3) (nA nB : Nat) :
    pairFirst aOff bOff QA QB q nA nB + pairFirst aOff bOff QA QB (3 + q) nA nB
      + pairFirst aOff bOff QA QB (6 + q) nA nB = 0 := by
  cases aOff <;> cases bOff <;> interval_cases q <;> simp [pairFirst, tr, zeroB]

/-- **additivity at coincident centres**: with shell A on the ECP centre the A- and C-blocks together
carry −∂_B (the derivative of moving A and C together, by translational invariance); likewise with B
on the ECP; with both on it everything vanishes. -/
theorem pairFirst_coincident (QA QB : Nat → Blk R) (q : Nat) (hq : q < 3) (nA nB : Nat) :
    (pairFirst false true QA QB q nA nB + pairFirst false true QA QB (6 + q) nA nB = -(QB q nB nA) ∧
      pairFirst false true QA QB (3 + q) nA nB = QB q nB nA) ∧
    (pairFirst true false QA QB (3 + q) nA nB + pairFirst true false QA QB (6 + q) nA nB = -(QA q nA nB) ∧
      pairFirst true false QA QB q nA nB = QA q nA nB) ∧
    (∀ i, pairFirst false false QA QB i nA nB = 0) := by
  refine ⟨?_, ?_, ?_⟩
  · interval_cases q <;> simp [pairFirst, tr, zeroB]
  · interval_cases q <;> simp [pairFirst, zeroB]
  · intro i; simp [pairFirst, zeroB]

end

/-! ### the identity the routine implements -/

/-- d/dA [(x−A)^k e^{−α(x−A)²}] = −k (x−A)^{k−1} e^{…} + 2α (x−A)^{k+1} e^{…}
(the factor α is what "multiplying the exponents into the coefficients" supplies) -/
theorem deriv_gaussian_monomial (k : ℕ) (α x A : ℝ) :
    HasDerivAt (fun A : ℝ => (x - A) ^ k * Real.exp (-α * (x - A) ^ 2))
      (-(k : ℝ) * (x - A) ^ (k - 1) * Real.exp (-α * (x - A) ^ 2)
        + 2 * α * (x - A) ^ (k + 1) * Real.exp (-α * (x - A) ^ 2)) A := by
  have h1 : HasDerivAt (fun A : ℝ => x - A) (-1) A := by
    simpa using (hasDerivAt_id A).const_sub x
  have h2 : HasDerivAt (fun A : ℝ => (x - A) ^ k) ((k : ℝ) * (x - A) ^ (k - 1) * (-1)) A :=
    HasDerivAt.fun_pow h1 k
  have h3 : HasDerivAt (fun A : ℝ => -α * (x - A) ^ 2)
      (-α * (((2 : ℕ) : ℝ) * (x - A) ^ (2 - 1) * (-1))) A :=
    (HasDerivAt.fun_pow h1 2).const_mul (-α)
  have h4 : HasDerivAt (fun A : ℝ => (x - A) ^ k * Real.exp (-α * (x - A) ^ 2)) _ A :=
    h2.mul h3.exp
  refine h4.congr_deriv ?_
  simp only [Nat.cast_ofNat, Nat.add_one_sub_one, pow_succ]
  ring

/-! ### non-vacuity -/
example : leftFirst (α := Int) 2 (qmRows 2) (fun i j => 10 * i + j) (fun i j => 100 * i + j) 1 (rowOf (1,1,0)) 3
    = -1 * (10 * (rowOf (1,0,0) : Int) + 3) + 2 * (100 * (rowOf (1,2,0) : Int) + 3) := by decide

end Ecpint.C02
