/- C02 — analytic first derivatives (assembly).  Statements below; model in Ecpint/Model/Deriv.lean. -/
import Ecpint.Model.Deriv
namespace Ecpint.C02
open Ecpint.Deriv

theorem cartList_small : cartList 2 = [(2,0,0),(1,1,0),(1,0,1),(0,2,0),(0,1,1),(0,0,2)] := by decide

end Ecpint.C02
