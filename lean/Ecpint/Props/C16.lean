/-
C16 — the shipped ECP library loads exactly the published parameters.
Model: Ecpint/Model/EcpLoad.lean; data: Gen/EcpData.lean (every raw record and every XML element of the six
shipped sets, exact decimals), Gen/PowFns.lean, Gen/Constants.lean — all regenerated from /repo on every run.
-/
import Ecpint.Model.EcpLoad
import Ecpint.Gen.EcpData
import Ecpint.Gen.PowFns
import Ecpint.Gen.Constants
import Ecpint.Lemmas.EcpLoad
import Mathlib.Tactic.Ring
import Mathlib.Tactic.FieldSimp
import Mathlib.Tactic.Linarith
import Mathlib.Algebra.Field.Basic
import Mathlib.Data.List.Perm.Basic
import Mathlib.Data.List.Induction
import Mathlib.Tactic.IntervalCases

namespace Ecpint.C16
open Ecpint.EcpLoad Ecpint.Gen

set_option maxRecDepth 100000

/-- **every shipped XML file is exactly the MOLPRO-convention reading of its raw source**: same elements in
the same order, same core-electron count and maximum angular momentum, and shell by shell (local part first,
at l = maxl, then l = 0 … maxl−1; spin–orbit blocks dropped) the same declared count and the same
(power, exponent, coefficient) for every primitive, as exact decimals.  Kernel-checked over the whole table. -/
theorem xml_eq_raw : ∀ s ∈ shippedSets, s.2.2 = interpret s.2.1 := by decide +kernel

/-- the declared primitive counts are the actual ones, angular momenta are within the build's limit, every power
n − 2 lies in the range −2 … 20 the evaluator's power table covers, and the
shells of every element are [maxl, 0, 1, …, maxl−1] -/
theorem xml_well_formed :
    ∀ s ∈ shippedSets, ∀ a ∈ s.2.2,
      a.maxl ≤ LIBECPINT_MAX_L ∧ a.shells.length = a.maxl + 1 ∧
      (∀ sh ∈ a.shells, sh.nexp = sh.prims.length ∧ sh.lval ≤ a.maxl ∧ ∀ p ∈ sh.prims, 0 ≤ p.n ∧ p.n ≤ 22) ∧
      a.shells.map (·.lval) = (List.range (a.maxl + 1)).map (blockL a.maxl) := by decide +kernel


/-! ### the container: bookkeeping for every sequence of `addPrimitive` calls -/

/-- one `addPrimitive(n, l, a, d, needSort)` call -/
structure AddCall where
  n : Int
  l : Nat
  a : Dec
  d : Dec
  needSort : Bool

def addAll (maxL : Nat) (cs : List AddCall) : ECPState :=
  cs.foldl (fun s c => addPrimitive s c.n c.l c.a c.d c.needSort) (ECPState.empty maxL)

def stored (c : AddCall) : Gauss := { n := c.n - 2, l := c.l, a := c.a, d := c.d }

/-- number of stored primitives with angular momentum below lx -/
def below (gs : List Gauss) (lx : Nat) : Nat := (gs.filter fun g => g.l < lx).length

theorem sortByL_perm (gs : List Gauss) : (sortByL gs).Perm gs := by
  have h := foldl_insertByL_perm gs []
  rw [List.nil_append] at h
  exact h

theorem sortByL_sorted (gs : List Gauss) : (sortByL gs).Pairwise (fun a b => a.l ≤ b.l) :=
  foldl_insertByL_sorted gs [] List.Pairwise.nil

/-! helper lemmas about `below` and `addAll` -/

theorem below_perm {g1 g2 : List Gauss} (h : g1.Perm g2) (lx : Nat) : below g1 lx = below g2 lx :=
  (h.filter _).length_eq

theorem below_nil (lx : Nat) : below [] lx = 0 := rfl

theorem below_cons (g : Gauss) (gs : List Gauss) (lx : Nat) :
    below (g :: gs) lx = below gs lx + (if g.l < lx then 1 else 0) := by
  unfold below
  rw [List.filter_cons]
  split <;> simp_all

theorem below_append_singleton (gs : List Gauss) (g : Gauss) (lx : Nat) :
    below (gs ++ [g]) lx = below gs lx + (if g.l < lx then 1 else 0) := by
  rw [below_perm (List.perm_append_singleton g gs) lx, below_cons]

theorem below_eq_zero_of_le (gs : List Gauss) (m l : Nat) (h : ∀ b ∈ gs, m ≤ b.l) (hl : l ≤ m) :
    below gs l = 0 := by
  unfold below
  rw [List.length_eq_zero_iff, List.filter_eq_nil_iff]
  intro b hb
  have := h b hb
  simp only [decide_eq_true_eq]
  omega

theorem filter_eq_nil_of_lt (gs : List Gauss) (m l : Nat) (h : ∀ b ∈ gs, m ≤ b.l) (hl : l < m) :
    (gs.filter fun g => g.l = l) = [] := by
  rw [List.filter_eq_nil_iff]
  intro b hb
  have := h b hb
  simp only [decide_eq_true_eq]
  omega

theorem addAll_nil (maxL : Nat) : addAll maxL [] = ECPState.empty maxL := rfl

theorem addAll_snoc (maxL : Nat) (cs : List AddCall) (c : AddCall) :
    addAll maxL (cs ++ [c]) = addPrimitive (addAll maxL cs) c.n c.l c.a c.d c.needSort := by
  simp [addAll, List.foldl_append]

theorem container_inv_aux (maxL : Nat) (cs : List AddCall) (h : ∀ c ∈ cs, c.l ≤ maxL) :
    (addAll maxL cs).N = cs.length ∧ (addAll maxL cs).gaussians.Perm (cs.map stored) ∧
    (addAll maxL cs).lStarts.length = maxL + 2 ∧
    (∀ lx, lx ≤ maxL + 1 → (addAll maxL cs).lStarts.getD lx 0 = below (addAll maxL cs).gaussians lx) ∧
    (addAll maxL cs).L = (cs.map fun c => (c.l : Int)).foldl max (-1) := by
  induction cs using List.reverseRecOn with
  | nil =>
    refine ⟨rfl, List.Perm.refl _, ?_, ?_, rfl⟩
    · simp [addAll_nil, ECPState.empty]
    · intro lx hlx
      have hlt : lx < maxL + 2 := by omega
      simp [addAll_nil, ECPState.empty, below_nil, List.getD_eq_getElem?_getD, hlt]
  | append_singleton cs c ih =>
    have hcs : ∀ c ∈ cs, c.l ≤ maxL := fun x hx => h x (List.mem_append_left _ hx)
    have hc : c.l ≤ maxL := h c (List.mem_append_right _ (List.mem_singleton_self c))
    obtain ⟨iN, iP, iLen, iS, iL⟩ := ih hcs
    rw [addAll_snoc]
    have hperm := addPrimitive_gaussians_perm (addAll maxL cs) c.n c.l c.a c.d c.needSort
    refine ⟨?_, ?_, ?_, ?_, ?_⟩
    · rw [addPrimitive_N, iN, List.length_append, List.length_singleton]
    · refine hperm.trans ?_
      rw [List.map_append, List.map_singleton]
      exact iP.append_right _
    · rw [addPrimitive_lStarts, bump_length, iLen]
    · intro lx hlx
      rw [addPrimitive_lStarts, bump_getD _ _ _ (by omega), below_perm hperm, below_append_singleton,
        iS lx hlx]
    · rw [addPrimitive_L, iL, List.map_append, List.map_singleton, foldl_max_append_singleton]

/-- **container invariant** after ANY sequence of `addPrimitive` calls (angular momenta within the build's
limit; sorting after each call or not): N counts the primitives, the stored list is a permutation of what was
added with the power reduced by two, `l_starts[lx]` is the number of primitives with l < lx, and L is the
largest angular momentum (−1 when empty). -/
theorem container_inv (maxL : Nat) (cs : List AddCall) (h : ∀ c ∈ cs, c.l ≤ maxL) :
    let s := addAll maxL cs
    s.N = cs.length ∧ s.gaussians.Perm (cs.map stored) ∧ s.lStarts.length = maxL + 2 ∧
    (∀ lx, lx ≤ maxL + 1 → s.lStarts.getD lx 0 = below s.gaussians lx) ∧
    s.L = (cs.map fun c => (c.l : Int)).foldl max (-1) :=
  container_inv_aux maxL cs h

/-- **grouping**: for ANY arrangement of the primitives that is ordered by angular momentum — whichever one
`std::sort` produced — the index window `[below l, below (l+1))` holds exactly the primitives of angular
momentum l, in their stored order. -/
theorem window_spec (gs : List Gauss) (hs : gs.Pairwise (fun a b => a.l ≤ b.l)) (l : Nat) :
    (gs.drop (below gs l)).take (below gs (l + 1) - below gs l) = gs.filter fun g => g.l = l := by
  induction gs with
  | nil => simp
  | cons h t ih =>
    rw [List.pairwise_cons] at hs
    obtain ⟨hh, ht⟩ := hs
    have ih := ih ht
    rw [below_cons, below_cons, List.filter_cons]
    rcases Nat.lt_trichotomy h.l l with hlt | heq | hgt
    · have h1 : h.l < l + 1 := by omega
      have h2 : ¬ h.l = l := by omega
      simp only [hlt, h1, h2, if_true, decide_false, Bool.false_eq_true, if_false]
      rw [List.drop_succ_cons, Nat.add_sub_add_right]
      exact ih
    · subst heq
      have hz : below t h.l = 0 := below_eq_zero_of_le t h.l h.l hh (Nat.le_refl _)
      rw [hz] at ih ⊢
      simp only [Nat.lt_irrefl, Nat.lt_succ_self, if_true, if_false, decide_true, Nat.add_zero,
        Nat.sub_zero, List.drop_zero, List.take_succ_cons] at ih ⊢
      rw [ih]
    · have h1 : ¬ h.l < l + 1 := by omega
      have h2 : ¬ h.l < l := by omega
      have h3 : ¬ h.l = l := by omega
      have hz : below t l = 0 := below_eq_zero_of_le t h.l l hh (by omega)
      have hz1 : below t (l + 1) = 0 := below_eq_zero_of_le t h.l (l + 1) hh (by omega)
      rw [hz, hz1, filter_eq_nil_of_lt t h.l l hh hgt]
      simp [h1, h2, h3]

/-! ### the evaluator -/

section
variable {K : Type} [Field K]

theorem foldl_add_eq_sum {β : Type} (f : β → K) (l : List β) (a : K) :
    l.foldl (fun acc g => acc + f g) a = a + (l.map f).sum := by
  induction l generalizing a with
  | nil => simp
  | cons h t ih =>
    rw [List.foldl_cons, ih, List.map_cons, List.sum_cons, add_assoc]

/-- **`evaluate(r, l)` is the sum of the Gaussians of angular momentum l**, for any state whose primitives are
ordered by l and whose `l_starts` are the counts (what `container_inv` + `sort` guarantee). -/
theorem evaluate_spec (pw : Nat → K → K) (ex : K → K) (val : Dec → K) (maxPow : Nat) (s : ECPState) (r : K) (l : Nat)
    (hs : s.gaussians.Pairwise (fun a b => a.l ≤ b.l))
    (h0 : s.lStarts.getD l 0 = below s.gaussians l) (h1 : s.lStarts.getD (l + 1) 0 = below s.gaussians (l + 1)) :
    evaluate pw ex val maxPow s r l
      = ((s.gaussians.filter fun g => g.l = l).map fun g =>
          pw (powIndex maxPow g.n) r * val g.d * ex (-(val g.a) * (r * r))).sum := by
  unfold evaluate
  simp only
  rw [h0, h1, window_spec _ hs, foldl_add_eq_sum, zero_add]

/-- the hand-unrolled power functions are powers: `FAST_POW[i](z) = z^i` for i = 0 … 20 -/
theorem fastPow_spec (z : K) (i : Nat) (hi : i ≤ 20) : fastPow i z = z ^ i := by
  interval_cases i <;>
    simp only [fastPow, Ecpint.Gen.pow_0, Ecpint.Gen.pow_1, Ecpint.Gen.pow_2, Ecpint.Gen.pow_3,
      Ecpint.Gen.pow_4, Ecpint.Gen.pow_5, Ecpint.Gen.pow_6, Ecpint.Gen.pow_7, Ecpint.Gen.pow_8,
      Ecpint.Gen.pow_9, Ecpint.Gen.pow_10, Ecpint.Gen.pow_11, Ecpint.Gen.pow_12, Ecpint.Gen.pow_13,
      Ecpint.Gen.pow_14, Ecpint.Gen.pow_15, Ecpint.Gen.pow_16, Ecpint.Gen.pow_17, Ecpint.Gen.pow_18,
      Ecpint.Gen.pow_19, Ecpint.Gen.pow_20, Nat.reduceEqDiff, if_true, if_false] <;>
    ring

/-- … and the two negative powers sit at the end of the table -/
theorem fastPow_neg (z : K) : fastPow 21 z = z⁻¹ ∧ fastPow 22 z = (z ^ 2)⁻¹ := by
  constructor
  · simp [fastPow, Ecpint.Gen.pow_m1]
  · simp [fastPow, Ecpint.Gen.pow_m2, pow_two]

end

/-- the evaluator's index mapping `n > -1 ? n : MAX_POW - n` sends every power −2 … 20 to its own table entry -/
theorem powIndex_spec (n : Int) (h0 : -2 ≤ n) (h1 : n ≤ 20) :
    powIndex MAX_POW n < fastPowSize ∧
    powIndex MAX_POW n = (if 0 ≤ n then n.toNat else if n = -1 then 21 else 22) := by
  unfold powIndex MAX_POW fastPowSize
  interval_cases n <;> decide

/-! ### the loader -/

/-- what loading an atom definition must yield: every primitive of every shell, power reduced by two, tagged
with its shell's angular momentum -/
def expected (a : XmlAtom) : List Gauss :=
  a.shells.flatMap fun sh => sh.prims.map fun p => { n := p.n - 2, l := sh.lval, a := p.x, d := p.c }

/-- the `addPrimitive` calls `addECP_from_file` makes for one atom definition (always `needSort = true`) -/
def calls (a : XmlAtom) : List AddCall :=
  a.shells.flatMap fun sh => sh.prims.map fun p => ⟨p.n, sh.lval, p.x, p.c, true⟩

theorem loadAtom_eq (maxL : Nat) (a : XmlAtom) : loadAtom maxL a = sort (addAll maxL (calls a)) := by
  unfold loadAtom addAll calls
  rw [List.foldl_flatMap]
  simp only [List.foldl_map]

theorem calls_map_stored (a : XmlAtom) : (calls a).map stored = expected a := by
  simp [calls, expected, List.map_flatMap, stored, Function.comp_def]

theorem calls_l_le (maxL : Nat) (a : XmlAtom) (h : ∀ sh ∈ a.shells, sh.lval ≤ maxL) :
    ∀ c ∈ calls a, c.l ≤ maxL := by
  intro c hc
  simp only [calls, List.mem_flatMap, List.mem_map] at hc
  obtain ⟨sh, hsh, p, _, rfl⟩ := hc
  exact h sh hsh

/-- **loader**: for every atom definition within the build's limit, `addECP_from_file` yields exactly the
expected primitives, ordered by angular momentum, with consistent bookkeeping. -/
theorem load_spec (maxL : Nat) (a : XmlAtom) (h : ∀ sh ∈ a.shells, sh.lval ≤ maxL) :
    let s := loadAtom maxL a
    s.gaussians.Perm (expected a) ∧ s.gaussians.Pairwise (fun x y => x.l ≤ y.l) ∧
    s.N = (expected a).length ∧
    (∀ lx, lx ≤ maxL + 1 → s.lStarts.getD lx 0 = below s.gaussians lx) ∧
    s.L = ((expected a).map fun g => (g.l : Int)).foldl max (-1) := by
  obtain ⟨iN, iP, _, iS, iL⟩ := container_inv_aux maxL (calls a) (calls_l_le maxL a h)
  show (loadAtom maxL a).gaussians.Perm (expected a) ∧ _
  rw [loadAtom_eq]
  rw [calls_map_stored] at iP
  refine ⟨(sortByL_perm _).trans iP, sortByL_sorted _, ?_, ?_, ?_⟩
  · show (addAll maxL (calls a)).N = _
    rw [iN, ← calls_map_stored, List.length_map]
  · intro lx hlx
    show (addAll maxL (calls a)).lStarts.getD lx 0 = below (sortByL (addAll maxL (calls a)).gaussians) lx
    rw [below_perm (sortByL_perm _), iS lx hlx]
  · show (addAll maxL (calls a)).L = _
    rw [iL, ← calls_map_stored, List.map_map]
    rfl

/-- over the shipped table: the largest angular momentum among the expected primitives of every element is its
declared `maxl` (in particular the local part, at l = maxl, is never empty).  Kernel-checked. -/
theorem shipped_maxL :
    ∀ s ∈ shippedSets, ∀ a ∈ s.2.2,
      ((expected a).map fun g => (g.l : Int)).foldl max (-1) = (a.maxl : Int) := by decide +kernel

/-- instantiated for the shipped library: every shipped element loads to the primitives of its raw source -/
theorem shipped_load :
    ∀ s ∈ shippedSets, ∀ a ∈ interpret s.2.1,
      (loadAtom LIBECPINT_MAX_L a).gaussians.Perm (expected a) ∧
      (loadAtom LIBECPINT_MAX_L a).L = a.maxl := by
  intro s hs a ha
  rw [← xml_eq_raw s hs] at ha
  obtain ⟨hmax, _, hsh, _⟩ := xml_well_formed s hs a ha
  have hl : ∀ sh ∈ a.shells, sh.lval ≤ LIBECPINT_MAX_L :=
    fun sh h => Nat.le_trans (hsh sh h).2.1 hmax
  obtain ⟨hP, _, _, _, hL⟩ := load_spec LIBECPINT_MAX_L a hl
  exact ⟨hP, hL.trans (shipped_maxL s hs a ha)⟩

end Ecpint.C16
