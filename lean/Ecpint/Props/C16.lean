/-
C16 — the shipped ECP library loads exactly the published parameters.
Model: Ecpint/Model/EcpLoad.lean; data: Gen/EcpData.lean (every raw record and every XML element of the six
shipped sets, exact decimals), Gen/PowFns.lean, Gen/Constants.lean — all regenerated from /repo on every run.
-/
import Ecpint.Model.EcpLoad
import Ecpint.Gen.EcpData
import Ecpint.Gen.PowFns
import Ecpint.Gen.Constants

namespace Ecpint.C16
open Ecpint.EcpLoad Ecpint.Gen

set_option maxRecDepth 100000

/-- **every shipped XML file is exactly the MOLPRO-convention reading of its raw source**: same elements in
the same order, same core-electron count and maximum angular momentum, and shell by shell (local part first,
at l = maxl, then l = 0 … maxl−1; spin–orbit blocks dropped) the same declared count and the same
(power, exponent, coefficient) for every primitive, as exact decimals.  Kernel-checked over the whole table. -/
theorem xml_eq_raw : ∀ s ∈ shippedSets, s.2.2 = interpret s.2.1 := by decide +kernel

/-- the declared primitive counts are the actual ones, angular momenta are within the build's limit, every power
n − 2 lies in the range −2 … 20 the evaluator's power table covers, and the
shells of every element are [maxl, 0, 1, …, maxl−1] -/
theorem xml_well_formed :
    ∀ s ∈ shippedSets, ∀ a ∈ s.2.2,
      a.maxl ≤ LIBECPINT_MAX_L ∧ a.shells.length = a.maxl + 1 ∧
      (∀ sh ∈ a.shells, sh.nexp = sh.prims.length ∧ sh.lval ≤ a.maxl ∧ ∀ p ∈ sh.prims, 0 ≤ p.n ∧ p.n ≤ 22) ∧
      a.shells.map (·.lval) = (List.range (a.maxl + 1)).map (blockL a.maxl) := by decide +kernel

end Ecpint.C16
