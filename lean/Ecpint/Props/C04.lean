/-
C04 — the integrator assembles per-atom integrals, gradients and Hessians as documented.
Model: Ecpint/Model/Api.lean; index data: Gen/IndexMaps.lean (regenerated from the source every run).

What is proved here, for every number of atoms N and every placement of the three centres
(shell A, shell B, ECP C) on atoms — no bound:
  * `H_START` packs the Hessian blocks exactly as documented (AA AB AC … BB BC … with 6 components
    on the diagonal, 9 off it): closed form, bounds, injectivity;
  * the first-derivative scatter puts into matrix 3n+q exactly Σ_{centres X on atom n} ∂_{X,q};
  * the second-derivative scatter (all five branches, `ixes/back_ixes/jxes`, the transposed reads for
    Aix > Bix …) puts into the matrix at the documented position of (a,b,p,q) exactly
    Σ_{X on a, Y on b} ∂²_{X p, Y q}.
-/
import Ecpint.Model.Api
import Ecpint.Lemmas.Api
import Mathlib.Tactic.Ring
import Mathlib.Tactic.IntervalCases
import Mathlib.Tactic.LinearCombination
import Mathlib.Tactic.Abel
import Mathlib.Tactic.Linarith
import Mathlib.Algebra.BigOperators.Group.Finset.Basic

namespace Ecpint.C04
open Ecpint.Api

/-! ### index tables -/

/-- the six symmetric components xx xy xz yy yz zz -/
def symPair : List (Nat × Nat) := [(0,0), (0,1), (0,2), (1,1), (1,2), (2,2)]

/-- position of the component (p,q), p ≤ q, among xx xy xz yy yz zz -/
def symIdx (p q : Nat) : Nat := if p = 0 then q else if p = 1 then q + 2 else 5

/-- `jxes` transposes a 3×3 component index -/
theorem jxes_spec : ∀ p < 3, ∀ q < 3, Gen.jxes.getD (3 * p + q) 0 = 3 * q + p := by decide

/-- `ixes[n]` is the 9-component index (p,q) of the n-th symmetric component, `back_ixes[n]` is (q,p) -/
theorem ixes_spec : ∀ n < 6, Gen.ixes.getD n 0 = 3 * (symPair.getD n (0,0)).1 + (symPair.getD n (0,0)).2 := by
  decide
theorem back_ixes_spec :
    ∀ n < 6, Gen.back_ixes.getD n 0 = 3 * (symPair.getD n (0,0)).2 + (symPair.getD n (0,0)).1 := by
  decide

theorem symIdx_symPair : ∀ n < 6, symIdx (symPair.getD n (0,0)).1 (symPair.getD n (0,0)).2 = n := by decide

/-! ### the documented packing -/

/-- documented position of the first component of block (a, b), a ≤ b, for N atoms:
blocks in the order AA AB AC … BB BC …, 6 matrices for a diagonal block, 9 for an off-diagonal one -/
def blockStart (a b N : Nat) : Nat :=
  ((List.range a).map fun x => 6 + 9 * (N - 1 - x)).sum + (if a = b then 0 else 6 + 9 * (b - a - 1))

/-- documented position of component (p,q) of block (a,b) -/
def hpos (a b p q N : Nat) : Nat :=
  blockStart a b N + (if a = b then symIdx p q else 3 * p + q)

/-! ### arithmetic of the documented packing -/

theorem blockStart_succ_self (a N : Nat) :
    blockStart (a + 1) (a + 1) N = blockStart a a N + (6 + 9 * (N - 1 - a)) := by
  simp [blockStart, List.range_succ, List.sum_append]

theorem blockStart_of_lt (a b N : Nat) (h : a < b) :
    blockStart a b N = blockStart a a N + (6 + 9 * (b - a - 1)) := by
  simp [blockStart, Nat.ne_of_lt h]

theorem blockStart_self_mono (a a' N : Nat) (h : a ≤ a') :
    blockStart a a N ≤ blockStart a' a' N := by
  induction h with
  | refl => exact le_rfl
  | step h ih => rw [blockStart_succ_self]; omega

/-- closed form of the start of row a -/
theorem two_mul_blockStart_self (a N : Nat) (h : a ≤ N) :
    2 * (blockStart a a N : Int) = 18 * (N : Int) * a + 3 * a - 9 * (a : Int) * a := by
  induction a with
  | zero => simp [blockStart]
  | succ a ih =>
    obtain ⟨k, rfl⟩ : ∃ k, N = a + 1 + k := ⟨N - (a + 1), by omega⟩
    rw [blockStart_succ_self]
    have hk : a + 1 + k - 1 - a = k := by omega
    rw [hk]
    have ih' := ih (by omega)
    push_cast at ih' ⊢
    linear_combination ih'

/-- the rows tile exactly `3N(3N+1)/2` positions -/
theorem blockStart_total (N : Nat) : blockStart N N N = (3 * N * (3 * N + 1)) / 2 := by
  have h := two_mul_blockStart_self N N le_rfl
  have h2 : ((2 * blockStart N N N : Nat) : Int) = ((3 * N * (3 * N + 1) : Nat) : Int) := by
    push_cast; linear_combination h
  have h3 : 2 * blockStart N N N = 3 * N * (3 * N + 1) := by exact_mod_cast h2
  rw [← h3]; omega

theorem symIdx_lt (p q : Nat) (hq : q < 3) (_hpq : p ≤ q) : symIdx p q < 6 := by
  unfold symIdx; split_ifs <;> omega

theorem symPair_symIdx : ∀ p < 3, ∀ q < 3, p ≤ q → symPair.getD (symIdx p q) (0,0) = (p, q) := by
  decide

theorem symIdx_inj (p q p' q' : Nat) (hp : p < 3) (hq : q < 3) (hp' : p' < 3) (hq' : q' < 3)
    (hpq : p ≤ q) (hpq' : p' ≤ q') (h : symIdx p q = symIdx p' q') : p = p' ∧ q = q' := by
  have h1 := symPair_symIdx p hp q hq hpq
  have h2 := symPair_symIdx p' hp' q' hq' hpq'
  rw [h, h2] at h1
  exact ⟨(congrArg Prod.fst h1).symm, (congrArg Prod.snd h1).symm⟩

theorem hpos_diag (a p q N : Nat) : hpos a a p q N = blockStart a a N + symIdx p q := by
  simp [hpos]

theorem hpos_offdiag (a b p q N : Nat) (h : a < b) :
    hpos a b p q N = blockStart a a N + (6 + 9 * (b - a - 1)) + (3 * p + q) := by
  simp [hpos, Nat.ne_of_lt h, blockStart_of_lt a b N h]

/-- size of the component offset inside a block -/
theorem hpos_off_lt (a b p q : Nat) (_hp : p < 3) (hq : q < 3) (hpq : a = b → p ≤ q) :
    (if a = b then symIdx p q else 3 * p + q) < (if a = b then 6 else 9) := by
  split_ifs with h
  · exact symIdx_lt p q hq (hpq h)
  · omega

/-- a block ends before the next row starts -/
theorem blockStart_end (a b N : Nat) (hab : a ≤ b) (hb : b < N) :
    blockStart a b N + (if a = b then 6 else 9) ≤ blockStart (a + 1) (a + 1) N := by
  rw [blockStart_succ_self]
  split_ifs with h
  · subst h; omega
  · rw [blockStart_of_lt a b N (by omega)]; omega

theorem hpos_lt_next (a b p q N : Nat) (hab : a ≤ b) (hb : b < N) (hp : p < 3) (hq : q < 3)
    (hpq : a = b → p ≤ q) : hpos a b p q N < blockStart (a + 1) (a + 1) N := by
  have h1 := hpos_off_lt a b p q hp hq hpq
  have h2 := blockStart_end a b N hab hb
  unfold hpos
  omega

theorem le_hpos (a b p q N : Nat) (hab : a ≤ b) : blockStart a a N ≤ hpos a b p q N := by
  unfold hpos
  rcases Nat.eq_or_lt_of_le hab with h | h
  · subst h; omega
  · rw [blockStart_of_lt a b N h]; omega

/-- `H_START(a,a,N)+3` is the documented start of the diagonal block of atom a -/
theorem slotDiag_eq (a N : Nat) (h : a < N) : slotDiag a N = (blockStart a a N : Int) := by
  have h1 := two_mul_hStart a a N
  have h2 := two_mul_blockStart_self a N h.le
  have h3 : 2 * (hStart a a N + 3) = 2 * (blockStart a a N : Int) := by
    rw [h2]; linear_combination h1
  unfold slotDiag
  omega

/-- `H_START(a,b,N)` is the documented start of the off-diagonal block (a,b), a < b -/
theorem slotPair_eq (a b N : Nat) (hab : a < b) (hb : b < N) :
    slotPair a b N = (blockStart a b N : Int) ∧ slotPair b a N = (blockStart a b N : Int) := by
  have h1 := slotDiag_eq a N (by omega)
  have h2 := hStart_shift a b N
  have h3 := blockStart_of_lt a b N hab
  have hne : a ≠ b := by omega
  have hne' : b ≠ a := by omega
  unfold slotDiag at h1
  unfold slotPair
  simp only [Nat.min_eq_left hab.le, Nat.max_eq_right hab.le, Nat.min_eq_right hab.le,
    Nat.max_eq_left hab.le, hne, hne', if_false]
  omega

/-- the positions tile `[0, 3N(3N+1)/2)`: every valid key is in range … -/
theorem hpos_lt (a b p q N : Nat) (hab : a ≤ b) (hb : b < N) (hp : p < 3) (hq : q < 3)
    (hpq : a = b → p ≤ q) : hpos a b p q N < (3 * N * (3 * N + 1)) / 2 := by
  have h1 := hpos_lt_next a b p q N hab hb hp hq hpq
  have h2 := blockStart_self_mono (a + 1) N N (by omega)
  rw [← blockStart_total]
  omega

/-- … and two valid keys with the same position are the same key -/
theorem hpos_inj (a b p q a' b' p' q' N : Nat)
    (hab : a ≤ b) (hb : b < N) (hp : p < 3) (hq : q < 3) (hpq : a = b → p ≤ q)
    (hab' : a' ≤ b') (hb' : b' < N) (hp' : p' < 3) (hq' : q' < 3) (hpq' : a' = b' → p' ≤ q')
    (h : hpos a b p q N = hpos a' b' p' q' N) : a = a' ∧ b = b' ∧ p = p' ∧ q = q' := by
  have haa : a = a' := by
    rcases Nat.lt_trichotomy a a' with hlt | heq | hgt
    · exfalso
      have h1 := hpos_lt_next a b p q N hab hb hp hq hpq
      have h2 := blockStart_self_mono (a + 1) a' N hlt
      have h3 := le_hpos a' b' p' q' N hab'
      omega
    · exact heq
    · exfalso
      have h1 := hpos_lt_next a' b' p' q' N hab' hb' hp' hq' hpq'
      have h2 := blockStart_self_mono (a' + 1) a N hgt
      have h3 := le_hpos a b p q N hab
      omega
  subst haa
  rcases Nat.eq_or_lt_of_le hab with e1 | l1 <;> rcases Nat.eq_or_lt_of_le hab' with e2 | l2
  · subst e1; subst e2
    have := symIdx_inj p q p' q' hp hq hp' hq' (hpq rfl) (hpq' rfl)
      (by rw [hpos_diag, hpos_diag] at h; omega)
    exact ⟨rfl, rfl, this⟩
  · exfalso
    subst e1
    have := symIdx_lt p q hq (hpq rfl)
    rw [hpos_diag, hpos_offdiag a b' p' q' N l2] at h
    omega
  · exfalso
    subst e2
    have := symIdx_lt p' q' hq' (hpq' rfl)
    rw [hpos_diag, hpos_offdiag a b p q N l1] at h
    omega
  · rw [hpos_offdiag a b p q N l1, hpos_offdiag a b' p' q' N l2] at h
    omega

/-! ### first derivatives -/

section
variable {β : Type} [AddCommGroup β]

/-- what lands in a slot, starting from zero -/
def land {ι} [DecidableEq ι] (slot : ι) (cs : List (ι × β)) : β := landIn slot 0 cs

theorem land_eq_sum {ι} [DecidableEq ι] (slot : ι) (cs : List (ι × β)) :
    land slot cs = (cs.map fun c => if c.1 = slot then c.2 else 0).sum := by
  unfold land; rw [landIn_eq_sum, zero_add]

@[simp] theorem land_nil {ι} [DecidableEq ι] (slot : ι) : land slot ([] : List (ι × β)) = 0 := by
  simp [land_eq_sum]

theorem land_cons {ι} [DecidableEq ι] (slot i : ι) (v : β) (cs : List (ι × β)) :
    land slot ((i, v) :: cs) = (if i = slot then v else 0) + land slot cs := by
  simp [land_eq_sum]

theorem land_append {ι} [DecidableEq ι] (slot : ι) (cs ds : List (ι × β)) :
    land slot (cs ++ ds) = land slot cs + land slot ds := by
  simp [land_eq_sum]

/-- **first-derivative scatter**: matrix 3n+q receives exactly the derivatives with respect to
coordinate q of the centres that sit on atom n (`t i` = `tempValues[i]`: A-block 0..2, B-block 3..5,
C-block 6..8). -/
theorem firstContribs_spec (Aix Bix Cix n q : Nat) (hq : q < 3) (t : Nat → β) :
    land (3 * n + q) (firstContribs Aix Bix Cix t)
      = (if Aix = n then t q else 0) + (if Bix = n then t (q + 3) else 0)
        + (if Cix = n then t (q + 6) else 0) := by
  have e : ∀ X k : Nat, k < 3 → (3 * X + k = 3 * n + q ↔ X = n ∧ k = q) := by
    intro X k hk; omega
  simp only [firstContribs, List.range_succ, List.range_zero, List.nil_append,
    List.flatMap_cons, List.flatMap_nil, List.append_nil, List.cons_append, land_cons, land_nil,
    Nat.add_zero]
  have e0 := fun X => e X 0 (by omega)
  have e1 := fun X => e X 1 (by omega)
  have e2 := fun X => e X 2 (by omega)
  simp only [Nat.add_zero] at e0
  simp only [e0, e1, e2]
  interval_cases q <;> simp <;> abel

/-! ### second derivatives -/

theorem land_cons' {ι} [DecidableEq ι] (slot : ι) (c : ι × β) (cs : List (ι × β)) :
    land slot (c :: cs) = (if c.1 = slot then c.2 else 0) + land slot cs := by
  simp [land_eq_sum]

theorem land_flatMap_cons {ι α} [DecidableEq ι] (slot : ι) (l : List α) (f : α → ι × β)
    (g : α → List (ι × β)) :
    land slot (l.flatMap fun n => f n :: g n) = land slot (l.map f) + land slot (l.flatMap g) := by
  induction l with
  | nil => simp
  | cons x l ih =>
    simp only [List.flatMap_cons, List.map_cons, List.cons_append, land_cons', land_append, ih]
    abel

theorem land_flatMap_nil {ι α} [DecidableEq ι] (slot : ι) (l : List α) :
    land slot (l.flatMap fun _ => ([] : List (ι × β))) = 0 := by
  induction l with
  | nil => simp
  | cons x l ih => simpa [List.flatMap_cons] using ih

omit [AddCommGroup β] in
theorem ite_pair {ι} (c : Prop) [Decidable c] (i : ι) (v w : β) :
    (if c then (i, v) else (i, w)) = (i, if c then v else w) := by
  split_ifs <;> rfl

/-- `land` over a `range`-indexed list whose slots hit the target at most once -/
theorem land_range_single {ι} [DecidableEq ι] (slot : ι) (m k : Nat) (C : Prop) [Decidable C]
    (f : Nat → ι) (g : Nat → β) (h : ∀ n < m, (f n = slot ↔ C ∧ k = n)) (hk : C → k < m) :
    land slot ((List.range m).map fun n => (f n, g n)) = if C then g k else 0 := by
  rw [land_eq_sum, List.map_map]
  have e : ((List.range m).map
        ((fun c : ι × β => if c.1 = slot then c.2 else 0) ∘ fun n => (f n, g n)))
      = (List.range m).map fun n => if k = n then (if C then g n else 0) else 0 := by
    apply List.map_congr_left
    intro n hn
    have hh := h n (List.mem_range.mp hn)
    simp only [Function.comp]
    by_cases hc : C <;> by_cases hkn : k = n <;> simp [hc, hkn, hh]
  rw [e, sum_range_single]
  by_cases hc : C
  · simp [hc, hk hc]
  · simp [hc]

theorem symPair_bounds : ∀ n < 6,
    (symPair.getD n (0,0)).1 ≤ (symPair.getD n (0,0)).2 ∧ (symPair.getD n (0,0)).2 < 3 := by decide

theorem ixes_symIdx : ∀ p < 3, ∀ q < 3, p ≤ q → Gen.ixes.getD (symIdx p q) 0 = 3 * p + q := by decide
theorem back_ixes_symIdx :
    ∀ p < 3, ∀ q < 3, p ≤ q → Gen.back_ixes.getD (symIdx p q) 0 = 3 * q + p := by decide

section hits
variable (N a b p q : Nat) (hab : a ≤ b) (hb : b < N) (hp : p < 3) (hq : q < 3)
  (hpq : a = b → p ≤ q)
include hab hb hp hq hpq

/-- the n-th matrix of the diagonal block of atom x is the documented position of (a,b,p,q) iff … -/
theorem diag_hit (x n : Nat) (hx : x < N) (hn : n < 6) :
    slotDiag x N + (n : Int) = ((hpos a b p q N : Nat) : Int) ↔ (x = a ∧ x = b) ∧ symIdx p q = n := by
  rw [slotDiag_eq x N hx]
  obtain ⟨hb1, hb2⟩ := symPair_bounds n hn
  have hsym := symIdx_symPair n hn
  constructor
  · intro h
    have h' : hpos x x (symPair.getD n (0,0)).1 (symPair.getD n (0,0)).2 N = hpos a b p q N := by
      rw [hpos_diag, hsym]; exact_mod_cast h
    obtain ⟨h1, h2, h3, h4⟩ := hpos_inj _ _ _ _ _ _ _ _ N le_rfl hx (by omega) hb2 (fun _ => hb1)
      hab hb hp hq hpq h'
    refine ⟨⟨h1, h2⟩, ?_⟩
    rw [← h3, ← h4]; exact hsym
  · rintro ⟨⟨rfl, rfl⟩, rfl⟩
    rw [hpos_diag]; push_cast; rfl

/-- the n-th matrix of the off-diagonal block (lo,hi) is the documented position of (a,b,p,q) iff … -/
theorem pair_hit (lo hi n : Nat) (hlo : lo < hi) (hhi : hi < N) (hn : n < 9) :
    (blockStart lo hi N : Int) + (n : Int) = ((hpos a b p q N : Nat) : Int)
      ↔ (lo = a ∧ hi = b) ∧ 3 * p + q = n := by
  constructor
  · intro h
    have h' : hpos lo hi (n / 3) (n % 3) N = hpos a b p q N := by
      have : ((hpos lo hi (n / 3) (n % 3) N : Nat) : Int) = ((hpos a b p q N : Nat) : Int) := by
        rw [← h, hpos_offdiag lo hi _ _ N hlo, blockStart_of_lt lo hi N hlo]
        push_cast; omega
      exact_mod_cast this
    obtain ⟨h1, h2, h3, h4⟩ := hpos_inj _ _ _ _ _ _ _ _ N hlo.le hhi (by omega)
      (Nat.mod_lt _ (by decide)) (fun e => by omega) hab hb hp hq hpq h'
    exact ⟨⟨h1, h2⟩, by omega⟩
  · rintro ⟨⟨rfl, rfl⟩, rfl⟩
    rw [hpos_offdiag _ _ _ _ N hlo, blockStart_of_lt _ _ N hlo]; push_cast; omega

theorem land_diag (x : Nat) (hx : x < N) (g : Nat → β) :
    land ((hpos a b p q N : Nat) : Int) ((List.range 6).map fun (n : Nat) => (slotDiag x N + (n : Int), g n))
      = if x = a ∧ x = b then g (symIdx p q) else 0 :=
  land_range_single _ 6 (symIdx p q) (x = a ∧ x = b) _ g
    (fun n hn => diag_hit N a b p q hab hb hp hq hpq x n hx hn)
    (fun hc => symIdx_lt p q hq (hpq (hc.1.symm.trans hc.2)))

theorem land_pair_lt (x y : Nat) (hxy : x < y) (hy : y < N) (g : Nat → β) :
    land ((hpos a b p q N : Nat) : Int)
        ((List.range 9).map fun (n : Nat) => (slotPair x y N + (n : Int), g n))
      = if x = a ∧ y = b then g (3 * p + q) else 0 := by
  rw [(slotPair_eq x y N hxy hy).1]
  exact land_range_single _ 9 (3 * p + q) (x = a ∧ y = b) _ g
    (fun n hn => pair_hit N a b p q hab hb hp hq hpq x y n hxy hy hn) (fun _ => by omega)

theorem land_pair_gt (x y : Nat) (hxy : y < x) (hx : x < N) (g : Nat → β) :
    land ((hpos a b p q N : Nat) : Int)
        ((List.range 9).map fun (n : Nat) => (slotPair x y N + (n : Int), g n))
      = if y = a ∧ x = b then g (3 * p + q) else 0 := by
  rw [(slotPair_eq y x N hxy hx).2]
  exact land_range_single _ 9 (3 * p + q) (y = a ∧ x = b) _ g
    (fun n hn => pair_hit N a b p q hab hb hp hq hpq y x n hxy hx hn) (fun _ => by omega)

/-- an off-diagonal block written with the transposed read when x > y: both orientations at once -/
theorem land_pair (x y c : Nat) (hx : x < N) (hy : y < N) (hxy : x ≠ y) (t : Nat → β) :
    land ((hpos a b p q N : Nat) : Int)
        ((List.range 9).map fun (n : Nat) =>
          (slotPair x y N + (n : Int), if x > y then t (Gen.jxes.getD n 0 + c) else t (n + c)))
      = (if x = a ∧ y = b then t (c + 3 * p + q) else 0)
        + (if y = a ∧ x = b then t (c + 3 * q + p) else 0) := by
  rcases Nat.lt_or_gt_of_ne hxy with h | h
  · have hn : ¬ x > y := by omega
    simp only [hn, if_false]
    rw [land_pair_lt N a b p q hab hb hp hq hpq x y h hy (fun n => t (n + c))]
    have h0 : ¬ (y = a ∧ x = b) := by omega
    have e : 3 * p + q + c = c + 3 * p + q := by omega
    rw [if_neg h0, add_zero, e]
  · have hn : x > y := h
    simp only [hn, if_true]
    rw [land_pair_gt N a b p q hab hb hp hq hpq x y h hx (fun n => t (Gen.jxes.getD n 0 + c))]
    have h0 : ¬ (x = a ∧ y = b) := by omega
    have e : 3 * q + p + c = c + 3 * q + p := by omega
    rw [if_neg h0, zero_add, jxes_spec p hp q hq, e]

theorem land_diag_c (x c : Nat) (hx : x < N) (t : Nat → β) :
    land ((hpos a b p q N : Nat) : Int)
        ((List.range 6).map fun (n : Nat) => (slotDiag x N + (n : Int), t (n + c)))
      = if x = a ∧ x = b then t (c + symIdx (min p q) (max p q)) else 0 := by
  rw [land_diag N a b p q hab hb hp hq hpq x hx (fun n => t (n + c))]
  split_ifs with h
  · have hle : p ≤ q := hpq (h.1.symm.trans h.2)
    rw [Nat.min_eq_left hle, Nat.max_eq_right hle, Nat.add_comm]
  · rfl

theorem land_diag_0 (x : Nat) (hx : x < N) (t : Nat → β) :
    land ((hpos a b p q N : Nat) : Int)
        ((List.range 6).map fun (n : Nat) => (slotDiag x N + (n : Int), t n))
      = if x = a ∧ x = b then t (symIdx (min p q) (max p q)) else 0 := by
  have := land_diag_c N a b p q hab hb hp hq hpq x 0 hx t
  simpa using this

theorem land_diag_ix (x c : Nat) (hx : x < N) (t : Nat → β) :
    land ((hpos a b p q N : Nat) : Int)
        ((List.range 6).map fun (n : Nat) => (slotDiag x N + (n : Int), t (Gen.ixes.getD n 0 + c)))
      = if x = a ∧ x = b then t (c + 3 * p + q) else 0 := by
  rw [land_diag N a b p q hab hb hp hq hpq x hx (fun n => t (Gen.ixes.getD n 0 + c))]
  split_ifs with h
  · have hle : p ≤ q := hpq (h.1.symm.trans h.2)
    have e : 3 * p + q + c = c + 3 * p + q := by omega
    rw [ixes_symIdx p hp q hq hle, e]
  · rfl

theorem land_diag_bk (x c : Nat) (hx : x < N) (t : Nat → β) :
    land ((hpos a b p q N : Nat) : Int)
        ((List.range 6).map fun (n : Nat) =>
          (slotDiag x N + (n : Int), t (Gen.back_ixes.getD n 0 + c)))
      = if x = a ∧ x = b then t (c + 3 * q + p) else 0 := by
  rw [land_diag N a b p q hab hb hp hq hpq x hx (fun n => t (Gen.back_ixes.getD n 0 + c))]
  split_ifs with h
  · have hle : p ≤ q := hpq (h.1.symm.trans h.2)
    have e : 3 * q + p + c = c + 3 * q + p := by omega
    rw [back_ixes_symIdx p hp q hq hle, e]
  · rfl

end hits


/-- centres of a triple -/
inductive Ctr | A | B | C
deriving DecidableEq, Repr

/-- the second-derivative tensor ∂²/∂X_p ∂Y_q read off the 45 low-level matrices
(AA 0.., AB 6.., AC 15.., BB 24.., BC 30.., CC 39..; mixed blocks 3p+q, equal-centre blocks symmetric);
the blocks below the diagonal are the transposes, T_YX^{pq} = T_XY^{qp} -/
def T (t : Nat → β) : Ctr → Ctr → Nat → Nat → β
  | .A, .A, p, q => t (symIdx (min p q) (max p q))
  | .A, .B, p, q => t (6 + 3 * p + q)
  | .A, .C, p, q => t (15 + 3 * p + q)
  | .B, .B, p, q => t (24 + symIdx (min p q) (max p q))
  | .B, .C, p, q => t (30 + 3 * p + q)
  | .C, .C, p, q => t (39 + symIdx (min p q) (max p q))
  | .B, .A, p, q => t (6 + 3 * q + p)
  | .C, .A, p, q => t (15 + 3 * q + p)
  | .C, .B, p, q => t (30 + 3 * q + p)

def atomOf (Aix Bix Cix : Nat) : Ctr → Nat
  | .A => Aix | .B => Bix | .C => Cix

/-- Σ over ordered pairs of centres (X on atom a, Y on atom b) of ∂²/∂X_p ∂Y_q -/
def pairSum (Aix Bix Cix a b p q : Nat) (t : Nat → β) : β :=
  ([Ctr.A, .B, .C].map fun X => ([Ctr.A, .B, .C].map fun Y =>
      if atomOf Aix Bix Cix X = a ∧ atomOf Aix Bix Cix Y = b then T t X Y p q else 0).sum).sum

/-- `pairSum` written out -/
theorem pairSum_eq (Aix Bix Cix a b p q : Nat) (t : Nat → β) :
    pairSum Aix Bix Cix a b p q t
      = ((if Aix = a ∧ Aix = b then T t .A .A p q else 0)
          + ((if Aix = a ∧ Bix = b then T t .A .B p q else 0)
          + (if Aix = a ∧ Cix = b then T t .A .C p q else 0)))
        + (((if Bix = a ∧ Aix = b then T t .B .A p q else 0)
          + ((if Bix = a ∧ Bix = b then T t .B .B p q else 0)
          + (if Bix = a ∧ Cix = b then T t .B .C p q else 0)))
        + ((if Cix = a ∧ Aix = b then T t .C .A p q else 0)
          + ((if Cix = a ∧ Bix = b then T t .C .B p q else 0)
          + (if Cix = a ∧ Cix = b then T t .C .C p q else 0)))) := by
  simp only [pairSum, List.map_cons, List.map_nil, List.sum_cons, List.sum_nil, add_zero]
  rfl

/-- the conventions of the low-level routine when a shell sits on the ECP centre (its AC, BC and CC
blocks are returned as zero; everything is zero when all three coincide) -/
def LowLevelConvention (Aix Bix Cix : Nat) (t : Nat → β) : Prop :=
  ((Aix = Cix ∨ Bix = Cix) → ∀ i, (15 ≤ i ∧ i < 24) ∨ (30 ≤ i ∧ i < 45) → t i = 0) ∧
  ((Aix = Bix ∧ Bix = Cix) → ∀ i, i < 45 → t i = 0)

/-- every entry of `T` is one of the 45 low-level matrices -/
theorem T_zero_of_all (t : Nat → β) (hz : ∀ i, i < 45 → t i = 0) (X Y : Ctr) (p q : Nat)
    (hp : p < 3) (hq : q < 3) : T t X Y p q = 0 := by
  have hs : symIdx (min p q) (max p q) < 6 := symIdx_lt _ _ (by omega) (by omega)
  cases X <;> cases Y <;> simp only [T] <;> apply hz <;> omega

/-- the entries of `T` that involve the ECP centre are AC, BC or CC matrices -/
theorem T_zero_of_C (t : Nat → β)
    (hz : ∀ i, (15 ≤ i ∧ i < 24) ∨ (30 ≤ i ∧ i < 45) → t i = 0) (X Y : Ctr) (p q : Nat)
    (hp : p < 3) (hq : q < 3) (hXY : X = .C ∨ Y = .C) : T t X Y p q = 0 := by
  have hs : symIdx (min p q) (max p q) < 6 := symIdx_lt _ _ (by omega) (by omega)
  cases X <;> cases Y <;> simp at hXY <;> simp only [T] <;> apply hz <;> omega

omit [AddCommGroup β] in
theorem ite_list2 {α} (c : Prop) [Decidable c] (e1 e2 e1' e2' : α) :
    (if c then [e1, e2] else [e1', e2']) = [if c then e1 else e1', if c then e2 else e2'] := by
  split_ifs <;> rfl

/-- **second-derivative scatter, all five branches**: the matrix at the documented position of
(a, b, p, q) receives exactly Σ_{X on a, Y on b} ∂²/∂X_p ∂Y_q — for every number of atoms and every
placement of the three centres on atoms. -/
theorem secondContribs_spec (Aix Bix Cix N a b p q : Nat)
    (hA : Aix < N) (hB : Bix < N) (hC : Cix < N)
    (hab : a ≤ b) (hb : b < N) (hp : p < 3) (hq : q < 3) (hpq : a = b → p ≤ q)
    (t : Nat → β) (hconv : LowLevelConvention Aix Bix Cix t) :
    land ((hpos a b p q N : Nat) : Int) (secondContribs Aix Bix Cix N t)
      = pairSum Aix Bix Cix a b p q t := by
  obtain ⟨hc1, hc2⟩ := hconv
  simp only [secondContribs]
  by_cases h1 : Aix = Cix ∨ Bix = Cix
  · rw [if_pos h1]
    by_cases h2 : Bix = Aix
    · rw [if_neg (not_not.mpr h2), land_nil, pairSum_eq]
      have z := hc2 ⟨h2.symm, by omega⟩
      simp only [T_zero_of_all t z _ _ p q hp hq, ite_self, add_zero]
    · have z := hc1 h1
      rw [if_pos h2, land_append]
      simp only [ite_pair, land_flatMap_cons, land_flatMap_nil, add_zero]
      rw [land_diag_0 N a b p q hab hb hp hq hpq Aix hA,
        land_diag_c N a b p q hab hb hp hq hpq Bix 24 hB,
        land_pair N a b p q hab hb hp hq hpq Aix Bix 6 hA hB (Ne.symm h2), pairSum_eq,
        T_zero_of_C t z .A .C p q hp hq (Or.inr rfl), T_zero_of_C t z .B .C p q hp hq (Or.inr rfl),
        T_zero_of_C t z .C .A p q hp hq (Or.inl rfl), T_zero_of_C t z .C .B p q hp hq (Or.inl rfl),
        T_zero_of_C t z .C .C p q hp hq (Or.inl rfl)]
      simp only [T, ite_self, add_zero]
      abel
  · rw [if_neg h1]
    have hAC : Aix ≠ Cix := fun e => h1 (Or.inl e)
    have hBC : Bix ≠ Cix := fun e => h1 (Or.inr e)
    by_cases h3 : Aix = Bix
    · subst h3
      rw [if_pos rfl, land_append]
      simp only [ite_list2, ite_pair, land_flatMap_cons, land_flatMap_nil, add_zero]
      rw [land_diag_0 N a b p q hab hb hp hq hpq Aix hA,
        land_diag_c N a b p q hab hb hp hq hpq Aix 24 hA,
        land_diag_c N a b p q hab hb hp hq hpq Cix 39 hC,
        land_diag_ix N a b p q hab hb hp hq hpq Aix 6 hA,
        land_diag_bk N a b p q hab hb hp hq hpq Aix 6 hA,
        land_pair N a b p q hab hb hp hq hpq Aix Cix 15 hA hC hAC,
        land_pair N a b p q hab hb hp hq hpq Aix Cix 30 hA hC hAC, pairSum_eq]
      simp only [T]
      abel
    · rw [if_neg h3, land_append]
      simp only [ite_pair, land_flatMap_cons, land_flatMap_nil, add_zero]
      rw [land_diag_0 N a b p q hab hb hp hq hpq Aix hA,
        land_diag_c N a b p q hab hb hp hq hpq Bix 24 hB,
        land_diag_c N a b p q hab hb hp hq hpq Cix 39 hC,
        land_pair N a b p q hab hb hp hq hpq Aix Bix 6 hA hB h3,
        land_pair N a b p q hab hb hp hq hpq Aix Cix 15 hA hC hAC,
        land_pair N a b p q hab hb hp hq hpq Bix Cix 30 hB hC hBC]
      rw [pairSum_eq]
      simp only [T]
      abel

omit [AddCommGroup β] in
theorem diag_range (N x n : Nat) (hx : x < N) (hn : n < 6) :
    0 ≤ slotDiag x N + (n : Int)
      ∧ slotDiag x N + (n : Int) < ((3 * N * (3 * N + 1) / 2 : Nat) : Int) := by
  have h1 := blockStart_end x x N le_rfl hx
  have h2 := blockStart_self_mono (x + 1) N N (by omega)
  rw [if_pos rfl] at h1
  rw [slotDiag_eq x N hx, ← blockStart_total]
  omega

omit [AddCommGroup β] in
theorem pair_range (N x y n : Nat) (hx : x < N) (hy : y < N) (hxy : x ≠ y) (hn : n < 9) :
    0 ≤ slotPair x y N + (n : Int)
      ∧ slotPair x y N + (n : Int) < ((3 * N * (3 * N + 1) / 2 : Nat) : Int) := by
  rw [← blockStart_total]
  rcases Nat.lt_or_gt_of_ne hxy with h | h
  · have h1 := blockStart_end x y N h.le hy
    have h2 := blockStart_self_mono (x + 1) N N (by omega)
    rw [if_neg (by omega)] at h1
    rw [(slotPair_eq x y N h hy).1]
    omega
  · have h1 := blockStart_end y x N h.le hx
    have h2 := blockStart_self_mono (y + 1) N N (by omega)
    rw [if_neg (by omega)] at h1
    rw [(slotPair_eq y x N h hx).2]
    omega

set_option linter.unusedSectionVars false in
/-- nothing is ever added outside `[0, 3N(3N+1)/2)` -/
theorem secondContribs_in_range (Aix Bix Cix N : Nat) (hA : Aix < N) (hB : Bix < N) (hC : Cix < N)
    (t : Nat → β) :
    ∀ c ∈ secondContribs Aix Bix Cix N t, 0 ≤ c.1 ∧ c.1 < ((3 * N * (3 * N + 1)) / 2 : Nat) := by
  intro c hc
  have hd := fun x n (hx : x < N) (hn : n < 6) => diag_range N x n hx hn
  have hp := fun x y n (hx : x < N) (hy : y < N) (hxy : x ≠ y) (hn : n < 9) =>
    pair_range N x y n hx hy hxy hn
  simp only [secondContribs] at hc
  by_cases h1 : Aix = Cix ∨ Bix = Cix
  · rw [if_pos h1] at hc
    by_cases h2 : Bix = Aix
    · rw [if_neg (not_not.mpr h2)] at hc
      simp at hc
    · rw [if_pos h2] at hc
      simp only [ite_pair, List.mem_append, List.mem_flatMap, List.mem_map, List.mem_range,
        List.mem_cons, List.not_mem_nil, or_false] at hc
      rcases hc with ⟨n, hn, rfl | rfl⟩ | ⟨n, hn, rfl⟩
      · exact hd _ _ hA hn
      · exact hd _ _ hB hn
      · exact hp _ _ _ hA hB (Ne.symm h2) hn
  · rw [if_neg h1] at hc
    have hAC : Aix ≠ Cix := fun e => h1 (Or.inl e)
    have hBC : Bix ≠ Cix := fun e => h1 (Or.inr e)
    by_cases h3 : Aix = Bix
    · rw [if_pos h3] at hc
      simp only [ite_list2, ite_pair, List.mem_append, List.mem_flatMap,
        List.mem_range, List.mem_cons, List.not_mem_nil, or_false] at hc
      rcases hc with ⟨n, hn, rfl | rfl | rfl | rfl | rfl⟩ | ⟨n, hn, rfl | rfl⟩
      · exact hd _ _ hA hn
      · exact hd _ _ hA hn
      · exact hd _ _ hC hn
      · exact hd _ _ hA hn
      · exact hd _ _ hA hn
      · exact hp _ _ _ hA hC hAC hn
      · exact hp _ _ _ hA hC hAC hn
    · rw [if_neg h3] at hc
      simp only [ite_pair, List.mem_append, List.mem_flatMap,
        List.mem_range, List.mem_cons, List.not_mem_nil, or_false] at hc
      rcases hc with ⟨n, hn, rfl | rfl | rfl⟩ | ⟨n, hn, rfl | rfl | rfl⟩
      · exact hd _ _ hA hn
      · exact hd _ _ hB hn
      · exact hd _ _ hC hn
      · exact hp _ _ _ hA hB h3 hn
      · exact hp _ _ _ hA hC hAC hn
      · exact hp _ _ _ hB hC hBC hn

end

/-! ### non-vacuity: a three-atom placement with the ECP on the first shell's atom, integers as blocks -/
example :
    land ((hpos 0 2 1 2 3 : Nat) : Int) (secondContribs 2 0 2 3 (fun i => if i < 15 ∨ (24 ≤ i ∧ i < 30) then (i : Int) + 100 else 0))
      = pairSum 2 0 2 0 2 1 2 (fun i => if i < 15 ∨ (24 ≤ i ∧ i < 30) then (i : Int) + 100 else 0) := by
  decide

end Ecpint.C04
