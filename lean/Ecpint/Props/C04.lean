/-
C04 — the integrator assembles per-atom integrals, gradients and Hessians as documented.
Model: Ecpint/Model/Api.lean; index data: Gen/IndexMaps.lean (regenerated from the source every run).
-/
import Ecpint.Model.Api

namespace Ecpint.C04
open Ecpint.Api

/-- the six symmetric components xx xy xz yy yz zz -/
def symPair : List (Nat × Nat) := [(0,0), (0,1), (0,2), (1,1), (1,2), (2,2)]

/-- `jxes` transposes a 3×3 component index -/
theorem jxes_spec : ∀ p < 3, ∀ q < 3, Gen.jxes.getD (3 * p + q) 0 = 3 * q + p := by decide

/-- `ixes[n]` is the 9-component index (p,q) of the n-th symmetric component, `back_ixes[n]` is (q,p) -/
theorem ixes_spec : ∀ n < 6, Gen.ixes.getD n 0 = 3 * (symPair.getD n (0,0)).1 + (symPair.getD n (0,0)).2 := by
  decide
theorem back_ixes_spec :
    ∀ n < 6, Gen.back_ixes.getD n 0 = 3 * (symPair.getD n (0,0)).2 + (symPair.getD n (0,0)).1 := by
  decide

end Ecpint.C04
