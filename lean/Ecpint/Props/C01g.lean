/- C01 (part g) — the binomial shift of a whole Cartesian function to the ECP centre: the coefficients the contractions
   read for the exponent triples of `subIdx` expand ∏_q (r_q − A_q)^{a_q} in monomials.  From `makeC_binomial` (C01b). -/
import Ecpint.Props.C01b
import Ecpint.Props.C01d
import Mathlib.Tactic.Ring
namespace Ecpint.C01
open Ecpint.Contraction

/-- a product of three list sums is the triple nested sum of the products -/
theorem sum_mul_sum_mul_sum {K : Type} [CommSemiring K] {α β γ : Type} (l1 : List α) (l2 : List β) (l3 : List γ)
    (f : α → K) (g : β → K) (h : γ → K) :
    (l1.map f).sum * (l2.map g).sum * (l3.map h).sum
      = (l1.map fun a => (l2.map fun b => (l3.map fun c => f a * g b * h c).sum).sum).sum := by
  simp only [List.sum_map_mul_left, List.sum_map_mul_right]

/-- three-dimensional binomial shift: summing C(k) C(l) C(m) X^k Y^l Z^m over exactly the index triples the contraction
loops visit (`subIdx (x, y, z)`) gives (X − A₁)^x (Y − A₂)^y (Z − A₃)^z -/
theorem makeC_binomial_3d {K : Type} [Field K] [CharZero K] (fac : Array K) (x y z : Nat) (A1 A2 A3 X Y Z : K)
    (hfac : ∀ i, i ≤ max x (max y z) → fac.getD i 0 = (i.factorial : K)) :
    ((subIdx (x, y, z)).map fun a =>
        calcC fac (fun t n => t ^ n) x a.1 A1 * calcC fac (fun t n => t ^ n) y a.2.1 A2 * calcC fac (fun t n => t ^ n) z a.2.2 A3
          * (X ^ a.1 * Y ^ a.2.1 * Z ^ a.2.2)).sum
      = (X - A1) ^ x * (Y - A2) ^ y * (Z - A3) ^ z := by
  have hx := makeC_binomial fac x A1 X (fun i hi => hfac i (le_trans hi (le_max_left _ _)))
  have hy := makeC_binomial fac y A2 Y
    (fun i hi => hfac i (le_trans hi (le_trans (le_max_left _ _) (le_max_right _ _))))
  have hz := makeC_binomial fac z A3 Z
    (fun i hi => hfac i (le_trans hi (le_trans (le_max_right _ _) (le_max_right _ _))))
  rw [sum_subIdx, ← hx, ← hy, ← hz, sum_mul_sum_mul_sum]
  dsimp only
  refine congrArg List.sum (List.map_congr_left (fun k _ => ?_))
  refine congrArg List.sum (List.map_congr_left (fun l _ => ?_))
  refine congrArg List.sum (List.map_congr_left (fun m _ => ?_))
  ring

end Ecpint.C01
