/-
C17 — copies of shells (and the value-type containers) are independent values.

Model: Ecpint/Model/GShell.lean (object/heap machine defined from the translator's CopySem table,
Gen/CopySem.lean, regenerated from gshell.hpp & co. by clang's AST on every run).
All theorems quantify over every heap reachable by ANY sequence of element operations - and the
standard containers only ever compose those (copy-construct, assign, destroy).
-/
import Ecpint.Model.GShell
import Ecpint.Lemmas.GShell
import Ecpint.Gen.CopySem

namespace Ecpint.C17
open Ecpint.GShell

/-- **every copy operation of `GaussianShell` as written now carries every attribute
(centre, exponents, coefficients, angular momentum, minimum exponent, atom index) and re-points a
local centre at the copy's own storage** — decided on the table extracted from the header. -/
theorem shell_copy_carries_all : Gen.shellSems.Carries := by decide

/-- the value-type classes (ECP, GaussianECP, multi-index arrays, quadrature grid, integrator,
ECP basis): no raw-pointer member, and every copy constructor / assignment — implicit or
user-written — mentions every member. -/
theorem value_classes_carry_all :
    ∀ c ∈ Gen.valueClasses, c.rawPointerFields = [] ∧
      (∀ f ∈ c.fields, f ∈ c.ctorCarried) ∧ (∀ f ∈ c.fields, f ∈ c.assignCarried) := by decide

/-! ### the representation invariant holds in every reachable heap -/

theorem inv_empty : Inv Heap.empty := by
  intro o s h; simp [Heap.empty] at h

theorem inv_set_new (h : Heap) (hi : Inv h) (v : Shell)
    (hv : (v.localPtr = true → v.centerVec = .loc h.next) ∧
          (v.localPtr = false → ∃ b, v.centerVec = .ext b)) :
    Inv { (h.set h.next (some v)) with next := h.next + 1 } := by
  intro o s hs
  simp only [Heap.set] at hs
  by_cases ho : o = h.next
  · subst ho
    simp only [if_true, Option.some.injEq] at hs
    subst hs
    exact ⟨Nat.lt_succ_self _, hv⟩
  · simp only [ho, if_false] at hs
    obtain ⟨h1, h2⟩ := hi o s hs
    exact ⟨Nat.lt_succ_of_lt h1, h2⟩

theorem inv_set_old (h : Heap) (hi : Inv h) (o : Nat) (old v : Shell) (ho : h.objs o = some old)
    (hv : (v.localPtr = true → v.centerVec = .loc o) ∧
          (v.localPtr = false → ∃ b, v.centerVec = .ext b)) :
    Inv (h.set o (some v)) := by
  intro o' s hs
  simp only [Heap.set] at hs
  by_cases h' : o' = o
  · subst h'
    simp only [if_true, Option.some.injEq] at hs
    subst hs
    exact ⟨(hi _ _ ho).1, hv⟩
  · simp only [h', if_false] at hs
    exact hi o' s hs

theorem copied_ok (c : CopySem) (hc : c.Carries) (self o : Nat) (src base : Shell) (h : Heap)
    (hi : Inv h) (hs : h.objs o = some src) :
    let v := applySem c self src base
    (v.localPtr = true → v.centerVec = .loc self) ∧ (v.localPtr = false → ∃ b, v.centerVec = .ext b) := by
  obtain ⟨lc, hlc⟩ := applySem_carries c hc self src base
  intro v
  have hv : v = _ := hlc
  rw [hv]
  obtain ⟨_, _, h3⟩ := hi o src hs
  constructor
  · intro hl; simp only [copied] at hl ⊢; simp [hl]
  · intro hl; simp only [copied] at hl ⊢; simp only [hl]; simpa using h3 hl

/-- one step preserves the invariant, for any copy semantics that carries everything -/
theorem inv_step (S : Sems) (hS : S.Carries) (h : Heap) (hi : Inv h) (op : Op) :
    Inv (step S h op) := by
  obtain ⟨hc, ha, hm⟩ := hS
  cases op with
  | newExt b l => exact inv_set_new h hi _ ⟨by simp [blank], fun _ => ⟨b, rfl⟩⟩
  | newLocal a l => exact inv_set_new h hi _ ⟨fun _ => rfl, by simp [blank]⟩
  | copyCtor src =>
    simp only [step]
    cases hs : h.objs src with
    | none => exact hi
    | some s => exact inv_set_new h hi _ (copied_ok _ hc _ src s _ h hi hs)
  | copyM src =>
    simp only [step]
    cases hs : h.objs src with
    | none => exact hi
    | some s => exact inv_set_new h hi _ (copied_ok _ hm _ src s _ h hi hs)
  | assign dst src =>
    simp only [step]
    cases hd : h.objs dst with
    | none => exact hi
    | some d =>
      cases hs : h.objs src with
      | none => exact hi
      | some s => exact inv_set_old h hi dst d _ hd (copied_ok _ ha _ src s _ h hi hs)
  | addPrim o e c =>
    simp only [step]
    cases hs : h.objs o with
    | none => exact hi
    | some s => exact inv_set_old h hi o s _ hs (hi o s hs).2
  | setLocal o v =>
    simp only [step]
    cases hs : h.objs o with
    | none => exact hi
    | some s => exact inv_set_old h hi o s _ hs (hi o s hs).2
  | setAtom o v =>
    simp only [step]
    cases hs : h.objs o with
    | none => exact hi
    | some s => exact inv_set_old h hi o s _ hs (hi o s hs).2
  | setExt b v => exact fun o s hs => hi o s hs
  | destroy o =>
    intro o' s hs
    simp only [step, Heap.set] at hs
    by_cases h' : o' = o
    · simp [h'] at hs
    · simp only [h', if_false] at hs; exact hi o' s hs

/-- **every live local-centre shell points at its own storage, in every heap any operation
sequence (hence any container algorithm) can produce** -/
theorem inv_run (S : Sems) (hS : S.Carries) (ops : List Op) (h : Heap) (hi : Inv h) :
    Inv (run S h ops) := by
  induction ops generalizing h with
  | nil => exact hi
  | cons op ops ih => exact ih _ (inv_step S hS h hi op)

/-- instantiated with the code as it is now -/
theorem self_pointing_inv (ops : List Op) : Inv (run Gen.shellSems Heap.empty ops) :=
  inv_run _ shell_copy_carries_all ops _ inv_empty

/-- under the invariant no live shell ever dereferences dead or foreign storage -/
theorem no_dangling (h : Heap) (hi : Inv h) (o : Nat) (s : Shell) (hs : h.objs o = some s) :
    ∃ v, center h s = .val v := by
  obtain ⟨_, h2, h3⟩ := hi o s hs
  cases hl : s.localPtr
  · obtain ⟨b, hb⟩ := h3 hl; exact ⟨some (h.ext b), by simp [center, hb]⟩
  · exact ⟨s.localCenter, by simp [center, h2 hl, hs]⟩

/-- **independence**: an operation that writes or destroys some *other* object (or creates a new
one) changes nothing a user can observe of shell `o` — its attributes and the coordinates its
centre pointer yields.  (Writing a caller-owned buffer is excluded: sharing that buffer is the
documented purpose of the external-pointer constructor.) -/
theorem independence (S : Sems) (h : Heap) (hi : Inv h) (o : Nat) (s : Shell)
    (hs : h.objs o = some s) (op : Op) (ht : target h op ≠ some o)
    (hx : ∀ b v, op ≠ .setExt b v) :
    (step S h op).objs o = some s ∧ view (step S h op) s = view h s := by
  obtain ⟨hlt, h2, h3⟩ := hi o s hs
  have key : ∀ (k : Nat) (v : Option Shell) (n : Nat), k ≠ o →
      ({ (h.set k v) with next := n } : Heap).objs o = some s ∧
      view { (h.set k v) with next := n } s = view h s := by
    intro k v n hk
    have ho : (h.set k v).objs o = some s := by simp [Heap.set, Ne.symm hk, hs]
    refine ⟨ho, ?_⟩
    simp only [view, View.mk.injEq, true_and, and_true]
    cases hl : s.localPtr
    · obtain ⟨b, hb⟩ := h3 hl; simp [center, hb, Heap.set]
    · simp [center, h2 hl, Heap.set, Ne.symm hk, hs]
  have key' : ∀ (k : Nat) (v : Option Shell), k ≠ o →
      (h.set k v).objs o = some s ∧ view (h.set k v) s = view h s :=
    fun k v hk => key k v h.next hk
  have hne : h.next ≠ o := Nat.ne_of_gt hlt
  cases op with
  | newExt b l => exact key _ _ _ hne
  | newLocal a l => exact key _ _ _ hne
  | copyCtor src =>
    simp only [step]; cases h.objs src with
    | none => exact ⟨hs, rfl⟩
    | some t => exact key _ _ _ hne
  | copyM src =>
    simp only [step]; cases h.objs src with
    | none => exact ⟨hs, rfl⟩
    | some t => exact key _ _ _ hne
  | assign dst src =>
    have hd : dst ≠ o := fun e => ht (by simp [target, e])
    simp only [step]
    cases h.objs dst with
    | none => exact ⟨hs, rfl⟩
    | some d => cases h.objs src with
      | none => exact ⟨hs, rfl⟩
      | some t => exact key' _ _ hd
  | addPrim k e c =>
    have hd : k ≠ o := fun e => ht (by simp [target, e])
    simp only [step]; cases h.objs k with
    | none => exact ⟨hs, rfl⟩
    | some t => exact key' _ _ hd
  | setLocal k v =>
    have hd : k ≠ o := fun e => ht (by simp [target, e])
    simp only [step]; cases h.objs k with
    | none => exact ⟨hs, rfl⟩
    | some t => exact key' _ _ hd
  | setAtom k v =>
    have hd : k ≠ o := fun e => ht (by simp [target, e])
    simp only [step]; cases h.objs k with
    | none => exact ⟨hs, rfl⟩
    | some t => exact key' _ _ hd
  | setExt b v => exact absurd rfl (hx b v)
  | destroy k =>
    have hd : k ≠ o := fun e => ht (by simp [target, e])
    exact key' _ _ hd

/-- **a copy carries all attributes**: the new object made by copy construction shows exactly
what the original shows (same exponents, coefficients, angular momentum, minimum exponent, atom
index and centre coordinates). -/
theorem copyCtor_equal (S : Sems) (hS : S.Carries) (h : Heap) (hi : Inv h) (src : Nat) (s : Shell)
    (hs : h.objs src = some s) :
    ∃ s', (step S h (.copyCtor src)).objs h.next = some s' ∧
      view (step S h (.copyCtor src)) s' = view h s := by
  obtain ⟨lc, hlc⟩ := applySem_carries S.ctor hS.1 h.next s blank
  obtain ⟨hlt, h2, h3⟩ := hi src s hs
  have hne : h.next ≠ src := Nat.ne_of_gt hlt
  refine ⟨applySem S.ctor h.next s blank, by simp [step, hs, Heap.set], ?_⟩
  simp only [step, hs]
  rw [hlc]
  simp only [view, View.mk.injEq, copied, true_and, and_true]
  cases hl : s.localPtr
  · obtain ⟨b, hb⟩ := h3 hl; simp [center, hb, Heap.set]
  · simp [center, h2 hl, Heap.set, hs]

theorem copyMethod_equal (S : Sems) (hS : S.Carries) (h : Heap) (hi : Inv h) (src : Nat) (s : Shell)
    (hs : h.objs src = some s) :
    ∃ s', (step S h (.copyM src)).objs h.next = some s' ∧
      view (step S h (.copyM src)) s' = view h s := by
  obtain ⟨lc, hlc⟩ := applySem_carries S.copyM hS.2.2 h.next s { blank with minExp := some 100 }
  obtain ⟨hlt, h2, h3⟩ := hi src s hs
  have hne : h.next ≠ src := Nat.ne_of_gt hlt
  refine ⟨applySem S.copyM h.next s { blank with minExp := some 100 }, by simp [step, hs, Heap.set], ?_⟩
  simp only [step, hs]
  rw [hlc]
  simp only [view, View.mk.injEq, copied, true_and, and_true]
  cases hl : s.localPtr
  · obtain ⟨b, hb⟩ := h3 hl; simp [center, hb, Heap.set]
  · simp [center, h2 hl, Heap.set, hs]

/-- assignment `dst = src` (distinct live objects) makes `dst` show what `src` shows -/
theorem assign_equal (S : Sems) (hS : S.Carries) (h : Heap) (hi : Inv h) (dst src : Nat)
    (d s : Shell) (hd : h.objs dst = some d) (hs : h.objs src = some s) (hne : dst ≠ src) :
    ∃ d', (step S h (.assign dst src)).objs dst = some d' ∧
      view (step S h (.assign dst src)) d' = view h s := by
  obtain ⟨lc, hlc⟩ := applySem_carries S.assign hS.2.1 dst s d
  obtain ⟨hlt, h2, h3⟩ := hi src s hs
  refine ⟨applySem S.assign dst s d, by simp [step, hs, hd, Heap.set], ?_⟩
  simp only [step, hs, hd]
  rw [hlc]
  simp only [view, View.mk.injEq, copied, true_and, and_true]
  cases hl : s.localPtr
  · obtain ⟨b, hb⟩ := h3 hl; simp [center, hb, Heap.set]
  · simp [center, h2 hl, Heap.set, hs]

/-! ### non-vacuity and the historical counter-model -/

/-- the implicit member-wise assignment (what the header had before the repair): the pointer is
copied verbatim.  It does NOT carry in the sense above … -/
def implicitAssign : CopySem :=
  { userDefined := false, carried := Field.all, carriedIfLocal := [], repoint := false }

example : ¬ implicitAssign.Carries := by decide

/-- … and `b = a; destroy a` then leaves `b` dangling: the invariant is really needed. -/
example :
    let S : Sems := { Gen.shellSems with assign := implicitAssign }
    let h := run S Heap.empty [.newLocal 7 1, .newLocal 8 2, .assign 1 0, .destroy 0]
    (h.objs 1).map (center h) = some .dangling := by decide

/-- with the semantics of the code as it is now the same history is fine -/
example :
    let h := run Gen.shellSems Heap.empty [.newLocal 7 1, .newLocal 8 2, .assign 1 0, .destroy 0]
    (h.objs 1).map (center h) = some (.val (some 7)) := by decide

end Ecpint.C17
