/- C09 — the generated (unrolled) classes are a faithful translation of the generic rolled-up contraction.
   Definitions: Ecpint/Model/Contraction.lean (the same functions the pipeline model runs at Float). -/
import Ecpint.Model.Contraction
import Ecpint.Props.C07
import Ecpint.Lemmas.C09
import Mathlib.Tactic.Ring
namespace Ecpint.C09
open Ecpint.Contraction Ecpint.ContractionLemmas Ecpint.C09Lemmas Ecpint.C07

variable {K : Type} [CommSemiring K]

/-- entry (na, nb, mu) of the array an unrolled class leaves behind is the sum of the values of its lines that
address this entry -/
theorem evalTerms_getD (nA nB nmu : Nat) (ts : List (UTerm K)) (CA CB : Nat → Nat → Nat → Nat → K)
    (radials : Nat → Nat → Nat → K) (SA SB : Array (Array K)) (i : Nat) (hi : i < nA * nB * nmu) :
    (evalTerms nA nB nmu ts.toArray CA CB radials SA SB).getD i 0
      = ((ts.filter fun t => (t.na * nB + t.nb) * nmu + t.mu = i).map fun t => t.value CA CB radials SA SB).sum := by
  unfold evalTerms
  rw [List.foldl_toArray' (h := rfl)]
  have h := (foldl_scatter (fun t : UTerm K => (t.na * nB + t.nb) * nmu + t.mu)
    (fun t => t.value CA CB radials SA SB) ts (Array.replicate (nA * nB * nmu) 0)).2 i (by simpa using hi)
  rw [h]
  simp [Array.getD, hi]

theorem evalTerms_size (nA nB nmu : Nat) (ts : List (UTerm K)) (CA CB : Nat → Nat → Nat → Nat → K)
    (radials : Nat → Nat → Nat → K) (SA SB : Array (Array K)) :
    (evalTerms nA nB nmu ts.toArray CA CB radials SA SB).size = nA * nB * nmu := by
  unfold evalTerms
  rw [List.foldl_toArray' (h := rfl)]
  have h := (foldl_scatter (fun t : UTerm K => (t.na * nB + t.nb) * nmu + t.mu)
    (fun t => t.value CA CB radials SA SB) ts (Array.replicate (nA * nB * nmu) 0)).1
  rw [h]
  simp

/-- `evalTerms_getD` in terms of the filtered sum `fsum` -/
theorem evalTerms_getD_fsum (nA nB nmu : Nat) (ts : List (UTerm K)) (CA CB : Nat → Nat → Nat → Nat → K)
    (radials : Nat → Nat → Nat → K) (SA SB : Array (Array K)) (i : Nat) (hi : i < nA * nB * nmu) :
    (evalTerms nA nB nmu ts.toArray CA CB radials SA SB).getD i 0
      = fsum (fun t => decide ((t.na * nB + t.nb) * nmu + t.mu = i)) (fun t => t.value CA CB radials SA SB) ts :=
  evalTerms_getD nA nB nmu ts CA CB radials SA SB i hi

/-- the order of the generated lines does not matter -/
theorem evalTerms_perm (nA nB nmu : Nat) (ts ts' : List (UTerm K)) (h : ts.Perm ts') (CA CB : Nat → Nat → Nat → Nat → K)
    (radials : Nat → Nat → Nat → K) (SA SB : Array (Array K)) :
    evalTerms nA nB nmu ts.toArray CA CB radials SA SB = evalTerms nA nB nmu ts'.toArray CA CB radials SA SB := by
  apply ext_getD
  · rw [evalTerms_size, evalTerms_size]
  · intro i hi
    rw [evalTerms_size] at hi
    rw [evalTerms_getD _ _ _ _ _ _ _ _ _ _ hi, evalTerms_getD _ _ _ _ _ _ _ _ _ _ hi]
    exact ((h.filter _).map _).sum_eq

/-- lines whose coefficient is zero (the generator prints them as `0 * …`) can be dropped -/
theorem evalTerms_drop_zero [DecidableEq K] (nA nB nmu : Nat) (ts : List (UTerm K)) (CA CB : Nat → Nat → Nat → Nat → K)
    (radials : Nat → Nat → Nat → K) (SA SB : Array (Array K)) :
    evalTerms nA nB nmu (ts.filter fun t => decide (t.coef ≠ 0)).toArray CA CB radials SA SB
      = evalTerms nA nB nmu ts.toArray CA CB radials SA SB := by
  apply ext_getD
  · rw [evalTerms_size, evalTerms_size]
  · intro i hi
    rw [evalTerms_size] at hi
    rw [evalTerms_getD_fsum _ _ _ _ _ _ _ _ _ _ hi, evalTerms_getD_fsum _ _ _ _ _ _ _ _ _ _ hi]
    apply fsum_filter_drop
    intro t ht
    have h0 : t.coef = 0 := by simpa using ht
    simp [UTerm.value, h0]

/-! ### the unrolled evaluation as an explicit sum -/

/-- the lines `unroll` emits for one Cartesian pair (ca, cb) at position (na, nb) -/
def unrollBlock (omega : Nat → Nat → Nat → Nat → Nat → Nat → Nat → K) (prefac : K)
    (kept : Nat × Nat × Nat → Nat × Nat × Nat → Nat → Nat → Bool) (lam : Nat)
    (ca cb : Nat × Nat × Nat) (na nb : Nat) : List (UTerm K) :=
  (subIdx ca).flatMap fun a =>
    (subIdx cb).flatMap fun b =>
      (List.range (lam + tsum a + 1)).flatMap fun lam1 =>
        (parityRange (lam + tsum b) (lam1 + (tsum a + tsum b))).flatMap fun lam2 =>
          if kept a b lam1 lam2 then
            (List.range (2 * lam + 1)).flatMap fun mi =>
              (List.range (2 * lam1 + 1)).flatMap fun m1 =>
                (List.range (2 * lam2 + 1)).map fun m2 =>
                  ({ na := na, nb := nb, mu := mi,
                     coef := prefac * omega a.1 a.2.1 a.2.2 lam mi lam1 m1 * omega b.1 b.2.1 b.2.2 lam mi lam2 m2,
                     ca := a, cb := b, rad := (tsum a + tsum b, lam1, lam2), sa := (lam1, m1), sb := (lam2, m2) } : UTerm K)
          else []

theorem unroll_eq (omega : Nat → Nat → Nat → Nat → Nat → Nat → Nat → K) (prefac : K)
    (kept : Nat × Nat × Nat → Nat × Nat × Nat → Nat → Nat → Bool) (lam LA LB : Nat) :
    unroll omega prefac kept lam LA LB
      = (cartList LA).zipIdx.flatMap fun p => (cartList LB).zipIdx.flatMap fun q =>
          unrollBlock omega prefac kept lam p.1 q.1 p.2 q.2 := rfl

theorem mem_unrollBlock {omega : Nat → Nat → Nat → Nat → Nat → Nat → Nat → K} {prefac : K}
    {kept : Nat × Nat × Nat → Nat × Nat × Nat → Nat → Nat → Bool} {lam : Nat}
    {ca cb : Nat × Nat × Nat} {na nb : Nat} {t : UTerm K}
    (h : t ∈ unrollBlock omega prefac kept lam ca cb na nb) : t.na = na ∧ t.nb = nb ∧ t.mu < 2 * lam + 1 := by
  unfold unrollBlock at h
  simp only [List.mem_flatMap] at h
  obtain ⟨a, _, b, _, lam1, _, lam2, _, h⟩ := h
  cases hk : kept a b lam1 lam2
  · simp [hk] at h
  · simp only [hk, if_true, List.mem_flatMap, List.mem_map, List.mem_range] at h
    obtain ⟨mi, hmi, m1, _, m2, _, rfl⟩ := h
    exact ⟨rfl, rfl, hmi⟩

/-- explicit-sum form of one entry of the unrolled evaluation (no accumulator, no arrays, no addresses) -/
def unrollSum (omega : Nat → Nat → Nat → Nat → Nat → Nat → Nat → K) (prefac : K)
    (kept : Nat × Nat × Nat → Nat × Nat × Nat → Nat → Nat → Bool) (lam : Nat)
    (radials : Nat → Nat → Nat → K) (CAna CBnb : Nat → Nat → Nat → K) (SA SB : Array (Array K))
    (ca cb : Nat × Nat × Nat) (mi : Nat) : K :=
  ((subIdx ca).map fun a => ((subIdx cb).map fun b =>
    ((List.range (lam + tsum a + 1)).map fun lam1 =>
      ((parityRange (lam + tsum b) (lam1 + (tsum a + tsum b))).map fun lam2 =>
        if kept a b lam1 lam2 then
          ((List.range (2 * lam1 + 1)).map fun m1 => ((List.range (2 * lam2 + 1)).map fun m2 =>
            prefac * omega a.1 a.2.1 a.2.2 lam mi lam1 m1 * omega b.1 b.2.1 b.2.2 lam mi lam2 m2
              * CAna a.1 a.2.1 a.2.2 * CBnb b.1 b.2.1 b.2.2 * radials (tsum a + tsum b) lam1 lam2
              * get2 SA lam1 m1 * get2 SB lam2 m2).sum).sum
        else 0).sum).sum).sum).sum

/-- the lines of a block at another position (na', nb') do not address the entry (na, nb, mi) -/
theorem fsum_unrollBlock_ne (omega : Nat → Nat → Nat → Nat → Nat → Nat → Nat → K) (prefac : K)
    (kept : Nat × Nat × Nat → Nat × Nat × Nat → Nat → Nat → Bool) (lam : Nat) (g : UTerm K → K)
    (ca cb : Nat × Nat × Nat) (nB na nb mi na' nb' : Nat) (hnb : nb < nB) (hnb' : nb' < nB) (hmi : mi < 2 * lam + 1)
    (hne : ¬ (na' = na ∧ nb' = nb)) :
    fsum (fun t : UTerm K => decide ((t.na * nB + t.nb) * (2 * lam + 1) + t.mu = (na * nB + nb) * (2 * lam + 1) + mi)) g
      (unrollBlock omega prefac kept lam ca cb na' nb') = 0 := by
  apply fsum_eq_zero
  intro t ht
  obtain ⟨h1, h2, h3⟩ := mem_unrollBlock ht
  rw [h1, h2]
  apply decide_eq_false
  intro h
  obtain ⟨e1, e2, _⟩ := addr_unique hnb hnb' hmi h3 h
  exact hne ⟨e1, e2⟩

/-- the lines of the block at position (na, nb) that address the entry (na, nb, mi) sum to the explicit sum -/
theorem fsum_unrollBlock_eq (omega : Nat → Nat → Nat → Nat → Nat → Nat → Nat → K) (prefac : K)
    (kept : Nat × Nat × Nat → Nat × Nat × Nat → Nat → Nat → Bool) (lam : Nat)
    (CA CB : Nat → Nat → Nat → Nat → K) (radials : Nat → Nat → Nat → K) (SA SB : Array (Array K))
    (ca cb : Nat × Nat × Nat) (nB na nb mi : Nat) (hmi : mi < 2 * lam + 1) :
    fsum (fun t : UTerm K => decide ((t.na * nB + t.nb) * (2 * lam + 1) + t.mu = (na * nB + nb) * (2 * lam + 1) + mi))
        (fun t => t.value CA CB radials SA SB) (unrollBlock omega prefac kept lam ca cb na nb)
      = unrollSum omega prefac kept lam radials (CA na) (CB nb) SA SB ca cb mi := by
  unfold unrollBlock unrollSum
  rw [fsum_flatMap]
  refine sum_map_congr _ _ _ (fun a _ => ?_)
  rw [fsum_flatMap]
  refine sum_map_congr _ _ _ (fun b _ => ?_)
  rw [fsum_flatMap]
  refine sum_map_congr _ _ _ (fun lam1 _ => ?_)
  rw [fsum_flatMap]
  refine sum_map_congr _ _ _ (fun lam2 _ => ?_)
  rw [fsum_ite]
  cases kept a b lam1 lam2
  · rfl
  · simp only [if_true]
    rw [fsum_flatMap, sum_range_single (2 * lam + 1) mi _ hmi]
    · rw [fsum_flatMap]
      refine sum_map_congr _ _ _ (fun m1 _ => ?_)
      rw [fsum_map]
      refine sum_map_congr _ _ _ (fun m2 _ => ?_)
      simp only [decide_true, if_true, UTerm.value]
    · intro mi' _ hne
      rw [fsum_flatMap]
      refine sum_map_eq_zero _ _ (fun m1 _ => ?_)
      rw [fsum_map]
      refine sum_map_eq_zero _ _ (fun m2 _ => ?_)
      have : ¬ ((na * nB + nb) * (2 * lam + 1) + mi' = (na * nB + nb) * (2 * lam + 1) + mi) := by omega
      simp only [this, decide_false, Bool.false_eq_true, if_false]

/-- entry (na, nb, mi) of the unrolled evaluation is the explicit sum for the Cartesian pair at position (na, nb) -/
theorem evalTerms_unroll_getD (omega : Nat → Nat → Nat → Nat → Nat → Nat → Nat → K) (prefac : K)
    (kept : Nat × Nat × Nat → Nat × Nat × Nat → Nat → Nat → Bool) (lam LA LB : Nat)
    (CA CB : Nat → Nat → Nat → Nat → K) (radials : Nat → Nat → Nat → K) (SA SB : Array (Array K))
    (na nb mi : Nat) (hna : na < (cartList LA).length) (hnb : nb < (cartList LB).length) (hmi : mi < 2 * lam + 1) :
    (evalTerms (cartList LA).length (cartList LB).length (2 * lam + 1) (unroll omega prefac kept lam LA LB).toArray
        CA CB radials SA SB).getD ((na * (cartList LB).length + nb) * (2 * lam + 1) + mi) 0
      = unrollSum omega prefac kept lam radials (CA na) (CB nb) SA SB
          ((cartList LA)[na]'hna) ((cartList LB)[nb]'hnb) mi := by
  have hi : (na * (cartList LB).length + nb) * (2 * lam + 1) + mi
      < (cartList LA).length * (cartList LB).length * (2 * lam + 1) := by
    have h1 : na * (cartList LB).length + nb + 1 ≤ (cartList LA).length * (cartList LB).length := by
      have := Nat.mul_le_mul_right (cartList LB).length (Nat.succ_le_of_lt hna)
      rw [Nat.succ_mul] at this
      omega
    have h2 := Nat.mul_le_mul_right (2 * lam + 1) h1
    rw [Nat.add_mul, Nat.one_mul] at h2
    omega
  rw [evalTerms_getD_fsum _ _ _ _ _ _ _ _ _ _ hi, unroll_eq, fsum_flatMap,
    sum_zipIdx_single' _ na _ hna]
  · dsimp only
    rw [fsum_flatMap, sum_zipIdx_single' _ nb _ hnb]
    · exact fsum_unrollBlock_eq omega prefac kept lam CA CB radials SA SB _ _ _ na nb mi hmi
    · intro q hq hne
      exact fsum_unrollBlock_ne omega prefac kept lam _ _ _ _ na nb mi na q.2 hnb (mem_zipIdx_lt hq) hmi
        (fun h => hne h.2)
  · intro p _ hne
    rw [fsum_flatMap]
    refine sum_map_eq_zero _ _ (fun q hq => ?_)
    exact fsum_unrollBlock_ne omega prefac kept lam _ _ _ _ na nb mi p.2 q.2 hnb (mem_zipIdx_lt hq) hmi
      (fun h => hne h.1)

/-- `wContr` as a list sum -/
theorem wContr_eq_sum (omega : Nat → Nat → Nat → Nat → Nat → Nat → Nat → K) (lam : Nat) (S : Array (Array K))
    (a : Nat × Nat × Nat) (lam1 mi : Nat) :
    wContr omega lam S a lam1 mi
      = ((List.range (2 * lam1 + 1)).map fun m1 => get2 S lam1 m1 * omega a.1 a.2.1 a.2.2 lam mi lam1 m1).sum := by
  unfold wContr
  exact AddsS.foldl_zero _ _ _ (fun m1 _ => AddsS.add _)

/-- the explicit sum of the unrolled evaluation equals the explicit sum of the rolled-up routine without shortcut,
provided pruned (a, b, lam1, lam2) combinations have vanishing angular factors -/
theorem unrollSum_eq_rolledUpSum (omega : Nat → Nat → Nat → Nat → Nat → Nat → Nat → K) (prefac : K)
    (kept : Nat × Nat × Nat → Nat × Nat × Nat → Nat → Nat → Bool) (lam : Nat)
    (hkept : ∀ a b lam1 lam2, kept a b lam1 lam2 = false → ∀ mi m1 m2,
      omega a.1 a.2.1 a.2.2 lam mi lam1 m1 * omega b.1 b.2.1 b.2.2 lam mi lam2 m2 = 0)
    (radials : Nat → Nat → Nat → K) (CAna CBnb : Nat → Nat → Nat → K) (SA SB : Array (Array K))
    (ca cb : Nat × Nat × Nat) (mi : Nat) :
    unrollSum omega prefac kept lam radials CAna CBnb SA SB ca cb mi
      = rolledUpSum omega (fun _ => true) prefac lam radials CAna CBnb SA SB ca cb mi := by
  unfold unrollSum rolledUpSum
  dsimp only
  simp only [if_true]
  refine sum_map_congr _ _ _ (fun a _ => sum_map_congr _ _ _ (fun b _ =>
    sum_map_congr _ _ _ (fun lam1 _ => sum_map_congr _ _ _ (fun lam2 _ => ?_))))
  rw [wContr_eq_sum, wContr_eq_sum, mul_sum_mul_sum]
  cases hk : kept a b lam1 lam2
  · simp only [Bool.false_eq_true, if_false]
    symm
    refine sum_map_eq_zero _ _ (fun m1 _ => sum_map_eq_zero _ _ (fun m2 _ => ?_))
    have h0 := hkept a b lam1 lam2 hk mi m1 m2
    calc prefac * (CAna a.1 a.2.1 a.2.2 * CBnb b.1 b.2.1 b.2.2) * radials (tsum a + tsum b) lam1 lam2
            * (get2 SA lam1 m1 * omega a.1 a.2.1 a.2.2 lam mi lam1 m1)
            * (get2 SB lam2 m2 * omega b.1 b.2.1 b.2.2 lam mi lam2 m2)
        = prefac * (CAna a.1 a.2.1 a.2.2 * CBnb b.1 b.2.1 b.2.2) * radials (tsum a + tsum b) lam1 lam2
            * get2 SA lam1 m1 * get2 SB lam2 m2
            * (omega a.1 a.2.1 a.2.2 lam mi lam1 m1 * omega b.1 b.2.1 b.2.2 lam mi lam2 m2) := by ring
      _ = 0 := by rw [h0, mul_zero]
  · simp only [if_true]
    refine sum_map_congr _ _ _ (fun m1 _ => sum_map_congr _ _ _ (fun m2 _ => ?_))
    ring

/-- C09, main statement: in exact arithmetic, running the lines the generator emits for a class (its expansion `unroll`,
whatever test `kept` it used to prune (a, b, lam1, lam2) combinations, provided a pruned combination really has
vanishing angular factors) gives exactly what the generic `rolled_up` routine computes with the same tables when its
shortcut `|C| > 1e-15` is not taken (`keep = fun _ => true`), for every Cartesian pair and every mu -/
theorem unroll_correct (omega : Nat → Nat → Nat → Nat → Nat → Nat → Nat → K) (prefac : K)
    (kept : Nat × Nat × Nat → Nat × Nat × Nat → Nat → Nat → Bool) (lam LA LB : Nat)
    (hkept : ∀ a b lam1 lam2, kept a b lam1 lam2 = false → ∀ mi m1 m2,
      omega a.1 a.2.1 a.2.2 lam mi lam1 m1 * omega b.1 b.2.1 b.2.2 lam mi lam2 m2 = 0)
    (CA CB : Nat → Nat → Nat → Nat → K) (radials : Nat → Nat → Nat → K) (SA SB : Array (Array K))
    (na nb mi : Nat) (hna : na < (cartList LA).length) (hnb : nb < (cartList LB).length) (hmi : mi < 2 * lam + 1) :
    (evalTerms (cartList LA).length (cartList LB).length (2 * lam + 1) (unroll omega prefac kept lam LA LB).toArray
        CA CB radials SA SB).getD ((na * (cartList LB).length + nb) * (2 * lam + 1) + mi) 0
      = (rolledUpBlock omega (fun _ => true) prefac lam radials (CA na) (CB nb) SA SB
          ((cartList LA)[na]'hna) ((cartList LB)[nb]'hnb)).getD mi 0 := by
  rw [evalTerms_unroll_getD omega prefac kept lam LA LB CA CB radials SA SB na nb mi hna hnb hmi,
    rolledUpBlock_getD _ _ _ _ _ _ _ _ _ _ _ _ hmi]
  exact unrollSum_eq_rolledUpSum omega prefac kept lam hkept radials (CA na) (CB nb) SA SB _ _ mi

/-- the shortcut of the rolled-up routine only ever drops terms that carry the factor C it tested: with `keep` false
exactly where C = 0 the shortcut changes nothing -/
theorem rolledUp_shortcut_exact (omega : Nat → Nat → Nat → Nat → Nat → Nat → Nat → K) (keep : K → Bool) (prefac : K) (lam : Nat)
    (hkeep : ∀ C, keep C = false → C = 0)
    (radials : Nat → Nat → Nat → K) (CAna CBnb : Nat → Nat → Nat → K) (SA SB : Array (Array K)) (ca cb : Nat × Nat × Nat) :
    rolledUpBlock omega keep prefac lam radials CAna CBnb SA SB ca cb
      = rolledUpBlock omega (fun _ => true) prefac lam radials CAna CBnb SA SB ca cb := by
  apply ext_getD
  · rw [rolledUpBlock_size, rolledUpBlock_size]
  · intro mi hmi
    rw [rolledUpBlock_size] at hmi
    rw [rolledUpBlock_getD _ _ _ _ _ _ _ _ _ _ _ _ hmi, rolledUpBlock_getD _ _ _ _ _ _ _ _ _ _ _ _ hmi]
    unfold rolledUpSum
    dsimp only
    refine sum_map_congr _ _ _ (fun a _ => sum_map_congr _ _ _ (fun b _ => ?_))
    cases hk : keep (CAna a.1 a.2.1 a.2.2 * CBnb b.1 b.2.1 b.2.2)
    · have h0 := hkeep _ hk
      rw [h0]
      simp only [if_true, Bool.false_eq_true, if_false]
      symm
      refine sum_map_eq_zero _ _ (fun l1 _ => sum_map_eq_zero _ _ (fun l2 _ => ?_))
      simp
    · simp

/-! ### non-vacuity: concrete instances over ℕ (lam = 1, LA = 1, LB = 0, entry (na, nb, mi) = (1, 0, 2)) -/
namespace Example

def om : Nat → Nat → Nat → Nat → Nat → Nat → Nat → Nat :=
  fun ax ay az lam mi lam1 m1 => ax + 2 * ay + az + lam + mi + lam1 * m1 + 1
def rad : Nat → Nat → Nat → Nat := fun N l1 l2 => N + 2 * l1 + l2 + 1
def cA : Nat → Nat → Nat → Nat → Nat := fun na k l m => na + k + l + 2 * m + 1
def cB : Nat → Nat → Nat → Nat → Nat := fun nb k l m => nb + k + 3 * l + m + 1
def sA : Array (Array Nat) := #[#[1], #[1, 2, 3], #[2, 0, 1, 1, 3]]
def sB : Array (Array Nat) := #[#[2], #[0, 1, 1]]
/-- a generator that prunes nothing -/
def kp : Nat × Nat × Nat → Nat × Nat × Nat → Nat → Nat → Bool := fun _ _ _ _ => true

theorem hkp : ∀ a b lam1 lam2, kp a b lam1 lam2 = false → ∀ mi m1 m2,
    om a.1 a.2.1 a.2.2 1 mi lam1 m1 * om b.1 b.2.1 b.2.2 1 mi lam2 m2 = 0 := by
  intro a b lam1 lam2 h
  simp [kp] at h

/-- the hypotheses of `unroll_correct` hold in this instance: its conclusion, instantiated -/
example :
    (evalTerms (cartList 1).length (cartList 0).length (2 * 1 + 1) (unroll om 2 kp 1 1 0).toArray
        cA cB rad sA sB).getD ((1 * (cartList 0).length + 0) * (2 * 1 + 1) + 2) 0
      = (rolledUpBlock om (fun _ => true) 2 1 rad (cA 1) (cB 0) sA sB
          ((cartList 1)[1]'(by decide)) ((cartList 0)[0]'(by decide))).getD 2 0 :=
  unroll_correct om 2 kp 1 1 0 hkp cA cB rad sA sB 1 0 2 (by decide) (by decide) (by decide)

/-- the common value is a specific non-zero number: left-hand side (the generated lines) -/
example :
    (evalTerms (cartList 1).length (cartList 0).length (2 * 1 + 1) (unroll om 2 kp 1 1 0).toArray
        cA cB rad sA sB).getD ((1 * (cartList 0).length + 0) * (2 * 1 + 1) + 2) 0 = 50508 :=
  (evalTerms_unroll_getD om 2 kp 1 1 0 cA cB rad sA sB 1 0 2 (by decide) (by decide) (by decide)).trans (by decide)

/-- right-hand side (the rolled-up routine) -/
example :
    (rolledUpBlock om (fun _ => true) 2 1 rad (cA 1) (cB 0) sA sB
        ((cartList 1)[1]'(by decide)) ((cartList 0)[0]'(by decide))).getD 2 0 = 50508 :=
  (rolledUpBlock_getD om (fun _ => true) 2 1 rad (cA 1) (cB 0) sA sB _ _ 2 (by decide)).trans (by decide)

/-- a second instance in which the generator really prunes: the angular factor vanishes for lam1 = 1 and the
generator drops exactly these combinations -/
def om2 : Nat → Nat → Nat → Nat → Nat → Nat → Nat → Nat :=
  fun ax ay az lam mi lam1 m1 => if lam1 = 1 then 0 else ax + 2 * ay + az + lam + mi + lam1 * m1 + 1
def kp2 : Nat × Nat × Nat → Nat × Nat × Nat → Nat → Nat → Bool := fun _ _ lam1 _ => decide (lam1 ≠ 1)

theorem hkp2 : ∀ a b lam1 lam2, kp2 a b lam1 lam2 = false → ∀ mi m1 m2,
    om2 a.1 a.2.1 a.2.2 1 mi lam1 m1 * om2 b.1 b.2.1 b.2.2 1 mi lam2 m2 = 0 := by
  intro a b lam1 lam2 h mi m1 m2
  have h1 : lam1 = 1 := by simpa [kp2] using h
  simp [om2, h1]

set_option maxRecDepth 8000 in
/-- fewer lines are generated (171 instead of 279) -/
example : (unroll om2 2 kp2 1 1 0).length = 171 ∧ (unroll om 2 kp 1 1 0).length = 279 := by decide

example :
    (evalTerms (cartList 1).length (cartList 0).length (2 * 1 + 1) (unroll om2 2 kp2 1 1 0).toArray
        cA cB rad sA sB).getD ((1 * (cartList 0).length + 0) * (2 * 1 + 1) + 2) 0
      = (rolledUpBlock om2 (fun _ => true) 2 1 rad (cA 1) (cB 0) sA sB
          ((cartList 1)[1]'(by decide)) ((cartList 0)[0]'(by decide))).getD 2 0 :=
  unroll_correct om2 2 kp2 1 1 0 hkp2 cA cB rad sA sB 1 0 2 (by decide) (by decide) (by decide)

example :
    (evalTerms (cartList 1).length (cartList 0).length (2 * 1 + 1) (unroll om2 2 kp2 1 1 0).toArray
        cA cB rad sA sB).getD ((1 * (cartList 0).length + 0) * (2 * 1 + 1) + 2) 0 = 128 :=
  (evalTerms_unroll_getD om2 2 kp2 1 1 0 cA cB rad sA sB 1 0 2 (by decide) (by decide) (by decide)).trans (by decide)

example :
    (rolledUpBlock om2 (fun _ => true) 2 1 rad (cA 1) (cB 0) sA sB
        ((cartList 1)[1]'(by decide)) ((cartList 0)[0]'(by decide))).getD 2 0 = 128 :=
  (rolledUpBlock_getD om2 (fun _ => true) 2 1 rad (cA 1) (cB 0) sA sB _ _ 2 (by decide)).trans (by decide)

end Example

end Ecpint.C09
