/-
C14d — the tables of `BesselFunction` and the real function K_l(z) = e^{-z} i_l(z) (C14b) put together:
what `tabulate` stores (C14c) converges to K_l(z) as the number of series terms grows, never exceeds it, and the
derivative tables built from an exact row are the true derivatives K_l^(n)(z), so the Taylor evaluation of the table regime is
the Taylor polynomial of the real function.
-/
import Ecpint.Props.C14b
import Ecpint.Props.C14c
import Mathlib.Topology.Algebra.InfiniteSum.Real

namespace Ecpint.C14d
open Ecpint.Bessel Ecpint.C14b Ecpint.C14c
open scoped Nat

/-- the partial sums stored by `tabulate` are the partial sums of the series defining K_l -/
theorem Kpartial_eq (J l : ℕ) (z : ℝ) : Kpartial J l z = Real.exp (-z) * ∑ m ∈ Finset.range J, iTerm l m z := rfl

/-- … they converge to K_l(z) … -/
theorem Kpartial_tendsto (l : ℕ) (z : ℝ) :
    Filter.Tendsto (fun J => Kpartial J l z) Filter.atTop (nhds (K l z)) := by
  have h := (iTerm_summable l z).hasSum.tendsto_sum_nat
  exact (h.const_mul (Real.exp (-z)))

/-- … from below, for arguments on the grid (z ≥ 0): the truncation error is the (non-negative) tail of the series -/
theorem Kpartial_le (J l : ℕ) (z : ℝ) (hz : 0 ≤ z) : Kpartial J l z ≤ K l z := by
  rw [Kpartial_eq]
  unfold K sphI
  apply mul_le_mul_of_nonneg_left _ (Real.exp_pos _).le
  apply (iTerm_summable l z).sum_le_tsum
  intro m _
  unfold iTerm
  positivity

/-- the recurrence applied to an exact row gives the iterated derivatives -/
theorem dRec_eq_dSpec (k : ℕ → ℝ) (z : ℝ) (top : ℕ) (hk : ∀ l ≤ top, k l = K l z) :
    ∀ n l, l + n ≤ top → dRec k n l = dSpec n l z := by
  intro n
  induction n with
  | zero => intro l hl; simp only [dRec, dSpec]; exact hk l (by omega)
  | succ n ih =>
    intro l hl
    rcases l with _ | l
    · simp only [dRec, dSpec]; rw [ih 1 (by omega), ih 0 (by omega)]
    · simp only [dRec, dSpec]; rw [ih l (by omega), ih (l + 2) (by omega), ih (l + 1) (by omega)]

/-- `dK[ix][n][l]`, built by the model's `derivRows` from a row that holds K_l(z), IS the n-th derivative of K_l at z, for every
entry the Taylor evaluation reads (n ≤ TAYLOR_CUT, l + n ≤ lMax + TAYLOR_CUT) -/
theorem derivRows_iteratedDeriv (lMax tc : ℕ) (krow : Array ℝ) (z : ℝ) (hk : ∀ l ≤ lMax + tc, krow[l]! = K l z)
    (n l : ℕ) (hn : n ≤ tc) (hl : l + n ≤ lMax + tc) :
    ((derivRows lMax tc krow)[n]!)[l]! = iteratedDeriv n (K l) z := by
  rw [(derivRows_spec lMax tc krow).2 n hn l hl, iteratedDeriv_K]
  exact dRec_eq_dSpec (fun l => krow[l]!) z (lMax + tc) hk n l hl

/-- hence the table regime evaluates the Taylor polynomial of K_l about the grid node:
`taylorAll tc dz (dK[ix][·][l]) = Σ_{n ≤ tc} dz^n/n! · K_l^(n)(z_ix)` -/
theorem taylor_is_taylor_polynomial (lMax tc : ℕ) (krow : Array ℝ) (z dz : ℝ) (hk : ∀ l ≤ lMax + tc, krow[l]! = K l z)
    (l : ℕ) (hl : l ≤ lMax) :
    taylorAll tc dz (fun n => ((derivRows lMax tc krow)[n]!)[l]!)
      = ∑ n ∈ Finset.range (tc + 1), dz ^ n / (n ! : ℝ) * iteratedDeriv n (K l) z := by
  rw [Ecpint.C14.taylorAll_closed]
  apply Finset.sum_congr rfl
  intro n hn
  have hn' : n ≤ tc := by have := Finset.mem_range.mp hn; omega
  rw [derivRows_iteratedDeriv lMax tc krow z hk n l hn' (by omega)]

end Ecpint.C14d
