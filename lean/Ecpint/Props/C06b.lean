/- C06 (part b) — the shell-pair screen is exactly "restrict the computation to the l whose estimate exceeds the
   tolerance": the screened block is the unscreened computation with the screened l (and, if screened, the local part)
   left out — nothing else changes.  Definitions: Model/ShellPair.lean (`computeFromData`). -/
import Ecpint.Props.C06
namespace Ecpint.C06
open Ecpint Ecpint.ShellPair Ecpint.Contraction

variable {α : Type} [Flt α]

/-- the per-l estimates compute_shell_pair compares with its tolerance -/
def pairEstimates (E : Engine α) (pwf : Nat → α → α) (euler sinh1 : α) (d : PairData α) (U : Ecp α) (sA sB : Shell α) : Array α :=
  estimateType2 E pwf U sA sB d euler sinh1

/-- "the estimate of l is not at or below the tolerance" (`!(screens[l] <= tolerance)`: a NaN estimate does not screen) -/
def passesL (E : Engine α) (pwf : Nat → α → α) (euler sinh1 : α) (d : PairData α) (U : Ecp α) (sA sB : Shell α) (l : Nat) : Bool :=
  !decide ((pairEstimates E pwf euler sinh1 d U sA sB)[l]! ≤ E.pairTol)

/-- adding the semi-local contribution of one l to the block (the body of the l loop of compute_shell_pair) -/
def addL (E : Engine α) (sw : Switches) (pwf : Nat → α → α) (pw : α → Nat → α) (maxPow : Nat)
    (classes : Nat → Nat → Nat → Option (Gen.QClass × Option (Array (UTerm α))))
    (d : PairData α) (U : Ecp α) (sA sB : Shell α) (v : Array α) (l : Nat) : Array α :=
  let par := buildParameters sA sB d
  let CA := cAt (makeCTab E pw d.LA d.A) d.LA
  let CB := cAt (makeCTab E pw d.LB d.B) d.LB
  let t2 := type2 E sw pwf maxPow classes l U sA sB d CA CB par
  (List.range (2 * l + 1)).foldl (fun v mi =>
    (Array.range (ncart d.LA * ncart d.LB)).map fun i => v[i]! + (t2[i]!)[mi]!) v

/-- the local part (or zeros when the ECP has none / it is left out) -/
def localPart (E : Engine α) (sw : Switches) (pwf : Nat → α → α) (pw : α → Nat → α) (maxPow : Nat)
    (d : PairData α) (U : Ecp α) (sA sB : Shell α) (incl : Bool) : Array α :=
  let par := buildParameters sA sB d
  let CA := cAt (makeCTab E pw d.LA d.A) d.LA
  let CB := cAt (makeCTab E pw d.LB d.B) d.LB
  if !noType1 U && incl then type1 E sw pwf maxPow U sA sB d CA CB par
  else Array.replicate (ncart d.LA * ncart d.LB) 0

/-- a conditional fold step is a fold over the filtered list -/
theorem foldl_if_eq_foldl_filter {β γ : Type} (p : β → Bool) (f : γ → β → γ) (l : List β) (v0 : γ) :
    l.foldl (fun v x => if p x then f v x else v) v0 = (l.filter p).foldl f v0 := by
  induction l generalizing v0 with
  | nil => rfl
  | cons x xs ih =>
    cases hp : p x with
    | true => simp only [List.foldl_cons, List.filter_cons, hp, if_true]; exact ih _
    | false =>
      simp only [List.foldl_cons, List.filter_cons, hp]
      exact ih _

/-- the unscreened block: local part plus every l < L -/
theorem unscreened_block (E : Engine α) (sw : Switches) (pwf : Nat → α → α) (pw : α → Nat → α) (maxPow : Nat) (euler sinh1 : α)
    (classes : Nat → Nat → Nat → Option (Gen.QClass × Option (Array (UTerm α))))
    (d : PairData α) (U : Ecp α) (sA sB : Shell α) :
    (computeFromData E { sw with pairScreen := false } pwf pw maxPow euler sinh1 classes d U sA sB).2.2
      = (List.range U.L).foldl (addL E sw pwf pw maxPow classes d U sA sB) (localPart E sw pwf pw maxPow d U sA sB true) := by
  have hag : AgreeOffPair { sw with pairScreen := false } sw := ⟨rfl, rfl, rfl, rfl, rfl⟩
  unfold computeFromData
  simp only [type1_sw E _ _ hag.2.2.2.1, type2_sw E _ _ hag, Bool.not_false, Bool.true_or, if_true, Bool.and_true]
  unfold localPart
  simp only [Bool.and_true]
  rfl

/-- C06, shell-pair level: the screened block is the SAME computation restricted to the l (and the local part) whose
estimate exceeds the tolerance — screening only ever leaves whole additive contributions out -/
theorem pairScreen_is_term_dropping (E : Engine α) (sw : Switches) (pwf : Nat → α → α) (pw : α → Nat → α) (maxPow : Nat) (euler sinh1 : α)
    (classes : Nat → Nat → Nat → Option (Gen.QClass × Option (Array (UTerm α))))
    (d : PairData α) (U : Ecp α) (sA sB : Shell α) :
    (computeFromData E { sw with pairScreen := true } pwf pw maxPow euler sinh1 classes d U sA sB).2.2
      = ((List.range U.L).filter (passesL E pwf euler sinh1 d U sA sB)).foldl (addL E sw pwf pw maxPow classes d U sA sB)
          (localPart E sw pwf pw maxPow d U sA sB (passesL E pwf euler sinh1 d U sA sB U.L)) := by
  have hag : AgreeOffPair { sw with pairScreen := true } sw := ⟨rfl, rfl, rfl, rfl, rfl⟩
  unfold computeFromData
  simp only [type1_sw E _ _ hag.2.2.2.1, type2_sw E _ _ hag, Bool.not_true, Bool.false_or]
  exact foldl_if_eq_foldl_filter (passesL E pwf euler sinh1 d U sA sB) (addL E sw pwf pw maxPow classes d U sA sB) _ _

end Ecpint.C06
