/- C14 — placeholder until the full statements are integrated; a structural fact decided here. -/
import Ecpint.Model.Bessel
namespace Ecpint.C14
open Ecpint.Bessel
/-- an argument between SMALL and 16 is sent to the table (naturals as a toy ordered scalar) -/
theorem regime_table_example : regime (1 : Nat) (5 : Nat) = .table := by decide
end Ecpint.C14
