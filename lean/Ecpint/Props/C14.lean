/-
C14 — the scaled modified spherical Bessel function K_l(z) = e^{-z} i_l(z): structure of the evaluators.

Model: Ecpint/Model/Bessel.lean (agrees bit for bit with bessel.cpp at Float, see checks/c14.py); constants
(`SMALL`, `TAYLOR_CUT`, table size) from Gen/Constants.lean, regenerated every run.
Proved: the regimes partition the arguments; the table row is in range and the Taylor step is at most half a
grid spacing; the two evaluators compute the SAME thing in the large-argument and in the table regime and
known closed forms in the small-argument regime; both large-argument loops are the asymptotic polynomial; the
derivative recurrence has the coefficients of the Bessel recurrence; the Taylor remainder budget holds for the
constants as they are now.
Not proved (no Bessel functions in Mathlib): that series/recurrence/asymptotic form ARE e^{-z} i_l(z); the
bound on the derivatives used in the budget is an explicit hypothesis.  Accuracy in doubles is the
correspondence + oracle run of the check.
-/
import Ecpint.Model.Bessel
import Ecpint.Lemmas.Bessel
import Mathlib.Tactic.Ring
import Mathlib.Tactic.FieldSimp
import Mathlib.Tactic.Linarith
import Mathlib.Tactic.NormNum
import Mathlib.Algebra.BigOperators.Group.Finset.Basic
import Mathlib.Algebra.Order.Floor.Semiring
import Mathlib.Data.Nat.Factorial.DoubleFactorial
import Mathlib.Algebra.Order.Field.Basic

namespace Ecpint.C14
open Ecpint.Bessel Ecpint.BesselLemmas
open scoped Nat

/-! ### regimes -/

section
variable {K : Type} [Field K] [LinearOrder K] [IsStrictOrderedRing K]

/-- every argument is sent to exactly one formula, decided by these inequalities (0 < SMALL < 16) -/
theorem regime_spec (small z : K) (hs : 0 < small) (hs16 : small < 16) :
    (regime small z = .nonpos ↔ z ≤ 0) ∧ (regime small z = .small ↔ 0 < z ∧ z < small) ∧
    (regime small z = .table ↔ small ≤ z ∧ z ≤ 16) ∧ (regime small z = .large ↔ 16 < z) := by
  by_cases h1 : 0 < z
  · by_cases h2 : z < small
    · have hr : regime small z = .small := by simp [regime, h1, h2]
      rw [hr]
      simp only [reduceCtorEq, false_iff, true_iff, not_le, not_and, not_lt]
      exact ⟨h1, ⟨h1, h2⟩, fun h => absurd h (not_le.mpr h2), by linarith⟩
    · have h2' : small ≤ z := not_lt.mp h2
      by_cases h3 : 16 < z
      · have hr : regime small z = .large := by simp [regime, h1, h2, h3]
        rw [hr]
        simp only [reduceCtorEq, false_iff, true_iff, not_le, not_and, not_lt]
        exact ⟨h1, fun _ => h2', fun _ => h3, h3⟩
      · have h3' : z ≤ 16 := not_lt.mp h3
        have hr : regime small z = .table := by simp [regime, h1, h2, h3]
        rw [hr]
        simp only [reduceCtorEq, false_iff, true_iff, not_le, not_and, not_lt]
        exact ⟨h1, fun _ => h2', ⟨h2', h3'⟩, h3'⟩
  · have h1' : z ≤ 0 := not_lt.mp h1
    have hr : regime small z = .nonpos := by simp [regime, h1]
    rw [hr]
    simp only [reduceCtorEq, false_iff, true_iff, not_le, not_and, not_lt]
    exact ⟨h1', fun h => absurd h h1, fun _ => by linarith, by linarith⟩

end

/-- in the table regime the row `⌊z·scale + ½⌋` exists (≤ N) and the Taylor step is at most half a spacing -/
theorem table_row_in_range {F : Type} [Field F] [LinearOrder F] [IsStrictOrderedRing F] [FloorSemiring F]
    (N : ℕ) (hN : 0 < N) (z : F) (h0 : 0 ≤ z) (h16 : z ≤ 16) :
    ⌊z * ((N : F) / 16) + 1 / 2⌋₊ ≤ N ∧
    |z - (⌊z * ((N : F) / 16) + 1 / 2⌋₊ : F) / ((N : F) / 16)| ≤ 1 / (2 * ((N : F) / 16)) := by
  have hNpos : (0 : F) < (N : F) := Nat.cast_pos.mpr hN
  have hs : (0 : F) < (N : F) / 16 := by positivity
  set s : F := (N : F) / 16 with hsdef
  have hx0 : (0 : F) ≤ z * s + 1 / 2 := by positivity
  have hxN : z * s + 1 / 2 < ((N + 1 : ℕ) : F) := by
    have : z * s ≤ 16 * s := mul_le_mul_of_nonneg_right h16 hs.le
    have e : 16 * s = (N : F) := by rw [hsdef]; field_simp
    push_cast
    linarith
  have hfl : (⌊z * s + 1 / 2⌋₊ : F) ≤ z * s + 1 / 2 := Nat.floor_le hx0
  have hfu : z * s + 1 / 2 < (⌊z * s + 1 / 2⌋₊ : F) + 1 := Nat.lt_floor_add_one _
  refine ⟨Nat.lt_succ_iff.mp ((Nat.floor_lt hx0).mpr hxN), ?_⟩
  have key : z - (⌊z * s + 1 / 2⌋₊ : F) / s = (z * s - (⌊z * s + 1 / 2⌋₊ : F)) / s := by
    field_simp
  have key2 : (1 : F) / (2 * s) = (1 / 2) / s := by field_simp
  rw [key, key2, abs_div, abs_of_pos hs, div_le_div_iff_of_pos_right hs, abs_le]
  constructor <;> linarith

/-! ### the evaluators agree; closed forms -/

section
variable {K : Type} [Field K] [CharZero K]

/-- large arguments: the all-orders loop and the single-order loop compute the same number -/
theorem largeAll_eq_largeOne (v0 : K) (l : ℕ) : largeAll v0 l = largeOne v0 l := by
  unfold largeAll largeOne
  simp only
  congr 3
  funext acc i
  have e : (-((((l - (i + 1) + 1) * (l + (i + 1)) : ℕ) : K) / ((i + 1 : ℕ) : K)) * v0)
      = (-v0 * ((l - (i + 1) + 1 : ℕ) : K) * ((l + (i + 1) : ℕ) : K) / ((i + 1 : ℕ) : K)) := by
    rw [Nat.cast_mul]; ring
  rw [e]

/-- … namely the asymptotic polynomial `v0 · Σ_{k ≤ l} (l+k)!/(k!(l−k)!) · (−v0)^k`, `v0 = 1/(2z)` -/
theorem largeAll_closed (v0 : K) (l : ℕ) :
    largeAll v0 l = v0 * ∑ k ∈ Finset.range (l + 1), (((l + k)! : K) / ((k ! : K) * ((l - k)! : K))) * (-v0) ^ k := by
  unfold largeAll
  simp only
  rw [foldl_largeAll v0 l l le_rfl]
  rfl

/-- small arguments, all-orders evaluator: `(1 − z) z^l / (2l+1)!!` -/
theorem smallAll_closed (z : K) (l : ℕ) : smallAll z l = (1 - z) * z ^ l / (((2 * l + 1)‼ : ℕ) : K) := by
  induction l with
  | zero => simp [smallAll]
  | succ l ih =>
    have e : 2 * (l + 1) + 1 = (2 * l + 1) + 2 := by ring
    have h1 : (((2 * l + 1)‼ : ℕ) : K) ≠ 0 := by
      apply Nat.cast_ne_zero.mpr
      exact (Nat.doubleFactorial_pos _).ne'
    have h2 : (2 : K) * ((l : K) + 1) + 1 ≠ 0 := by
      have : ((2 * (l + 1) + 1 : ℕ) : K) ≠ 0 := Nat.cast_ne_zero.mpr (Nat.succ_ne_zero _)
      push_cast at this
      exact this
    have h3 : (2 : K) * (l : K) + 1 + 2 ≠ 0 := by
      intro h; apply h2; rw [← h]; ring
    rw [smallAll, ih, e, Nat.doubleFactorial_add_two]
    push_cast
    field_simp
    ring

set_option linter.unusedSectionVars false in
/-- small arguments, single-order evaluator: `(1 − z) (z/(2L+1))^L` — a different formula (they coincide for
L ≤ 1 and differ by less than z^L otherwise, far below the absolute tolerance for z < SMALL) -/
theorem smallOne_closed (z : K) (L : ℕ) : smallOne z L = (1 - z) * (z / (2 * (L : K) + 1)) ^ L := by
  unfold smallOne
  rw [foldl_mul_const]
  norm_num

/-- table regime: the two ways of accumulating the Taylor sum are the same sum `Σ_n dz^n/n! · c_n` -/
theorem taylorAll_closed (tc : ℕ) (dz : K) (c : ℕ → K) :
    taylorAll tc dz c = ∑ n ∈ Finset.range (tc + 1), dz ^ n / (n ! : K) * c n := by
  unfold taylorAll
  simp only [foldl_dzn]
  exact foldl_sum_range (fun n => dz ^ n / (n ! : K) * c n) (tc + 1)

theorem taylorOne_closed (tc : ℕ) (dz : K) (c : ℕ → K) :
    taylorOne tc dz c = ∑ n ∈ Finset.range (tc + 1), dz ^ n / (n ! : K) * c n := by
  unfold taylorOne
  rw [foldl_taylorOne]

theorem taylorAll_eq_taylorOne (tc : ℕ) (dz : K) (c : ℕ → K) : taylorAll tc dz c = taylorOne tc dz c := by
  rw [taylorAll_closed, taylorOne_closed]

/-- the derivative tables use the coefficients of the recurrence of e^{-z} i_l:
K_l' = (l·K_{l−1} + (l+1)·K_{l+1})/(2l+1) − K_l -/
theorem recStep_spec (l : ℕ) (a b c : K) :
    recStep l a b c = ((l : K) * a + ((l : K) + 1) * b) / (2 * (l : K) + 1) - c := by
  have h : (2 * (l : K) + 1) ≠ 0 := by exact_mod_cast (by omega : 2 * l + 1 ≠ 0)
  unfold recStep
  simp only [Nat.cast_ofNat]
  field_simp

end

/-! ### parameter budgets for the constants as they are now -/

/-- Taylor remainder of order TAYLOR_CUT on half a grid spacing h/2 = 8/N, for a function whose (T+1)-th
derivative is bounded by 2^(T+1)/(T+2) (the bound satisfied by e^{-z} i_l(z); taken as a hypothesis of the
accuracy claim): below 1e-13 -/
theorem taylor_budget :
    ((2 : ℚ) ^ (Gen.TAYLOR_CUT + 1) / (Gen.TAYLOR_CUT + 2)) * ((8 : ℚ) / Gen.BESSEL_N) ^ (Gen.TAYLOR_CUT + 1)
      / ((Gen.TAYLOR_CUT + 1)! : ℚ) < 1 / 10 ^ 13 := by
  simp only [Gen.TAYLOR_CUT, Gen.BESSEL_N]
  norm_num [Nat.factorial]

/-- SMALL is where the small-argument formula stops mattering: below it `1 − (1 − z) < 1e-6·…`; and the
constants are ordered 0 < SMALL < 16 as `regime_spec` needs -/
theorem small_ordered : (0 : ℚ) < Gen.SMALL_num / Gen.SMALL_den ∧ ((Gen.SMALL_num : ℚ) / Gen.SMALL_den) < 16 := by
  simp only [Gen.SMALL_num, Gen.SMALL_den]
  norm_num

end Ecpint.C14
