/- C11 — index safety: the raw offsets and table indices of the shell-pair routine stay inside their arrays.
   Facts about the index arithmetic the code performs (mirrored from multiarr.hpp, qgen.cpp, radial_gen.cpp,
   ecpint.cpp) and about the regenerated tables (Gen/QClasses, Gen/RadialCases, Gen/Constants). -/
import Ecpint.Gen.QClasses
import Ecpint.Props.C11b
import Ecpint.Gen.RadialCases
import Ecpint.Gen.Constants
import Ecpint.Model.Contraction
namespace Ecpint.C11
open Ecpint Ecpint.Gen Ecpint.Contraction

/-- `SevenIndex::operator()`: p + mults[5] n + mults[4] m + mults[3] l + mults[2] k + mults[1] j + mults[0] i with the
mults of the constructor (mults[5] = d7, mults[4] = d7 d6, …) -/
def flat7 (d2 d3 d4 d5 d6 d7 : Nat) (i j k l m n p : Nat) : Nat :=
  p + d7 * n + d7 * d6 * m + d7 * d6 * d5 * l + d7 * d6 * d5 * d4 * k + d7 * d6 * d5 * d4 * d3 * j + d7 * d6 * d5 * d4 * d3 * d2 * i

/-- Horner form of `flat7` -/
theorem flat7_horner (d2 d3 d4 d5 d6 d7 i j k l m n p : Nat) :
    flat7 d2 d3 d4 d5 d6 d7 i j k l m n p
      = p + d7 * (n + d6 * (m + d5 * (l + d4 * (k + d3 * (j + d2 * i))))) := by
  simp only [flat7, Nat.mul_add, Nat.mul_assoc, Nat.add_assoc]

/-- one mixed-radix digit: a < A, b < B gives b + B a < B A -/
theorem step_lt {a A b B : Nat} (ha : a < A) (hb : b < B) : b + B * a < B * A :=
  calc b + B * a < B + B * a := Nat.add_lt_add_right hb _
    _ = B * (a + 1) := by rw [Nat.mul_add, Nat.mul_one, Nat.add_comm]
    _ ≤ B * A := Nat.mul_le_mul_left B ha

/-- uniqueness of (remainder, quotient) -/
theorem step_uniq {B a a' b b' : Nat} (hb : b < B) (hb' : b' < B) (h : b + B * a = b' + B * a') :
    b = b' ∧ a = a' := by
  have hB : 0 < B := Nat.lt_of_le_of_lt (Nat.zero_le _) hb
  have hm := congrArg (· % B) h
  have hd := congrArg (· / B) h
  simp only [Nat.add_mul_mod_self_left, Nat.mod_eq_of_lt hb, Nat.mod_eq_of_lt hb'] at hm
  simp only [Nat.add_mul_div_left _ _ hB, Nat.div_eq_of_lt hb, Nat.div_eq_of_lt hb', Nat.zero_add] at hd
  exact ⟨hm, hd⟩

/-- in-range index tuples give an offset inside the data vector -/
theorem flat7_lt (d1 d2 d3 d4 d5 d6 d7 i j k l m n p : Nat)
    (hi : i < d1) (hj : j < d2) (hk : k < d3) (hl : l < d4) (hm : m < d5) (hn : n < d6) (hp : p < d7) :
    flat7 d2 d3 d4 d5 d6 d7 i j k l m n p < d1 * d2 * d3 * d4 * d5 * d6 * d7 := by
  rw [flat7_horner]
  have h1 := step_lt hi hj
  have h2 := step_lt h1 hk
  have h3 := step_lt h2 hl
  have h4 := step_lt h3 hm
  have h5 := step_lt h4 hn
  have h6 := step_lt h5 hp
  have e : d1 * d2 * d3 * d4 * d5 * d6 * d7 = d7 * (d6 * (d5 * (d4 * (d3 * (d2 * d1))))) := by ac_rfl
  rw [e]; exact h6

/-- … and distinct in-range tuples give distinct offsets (no access that is in range only by accident) -/
theorem flat7_injective (d2 d3 d4 d5 d6 d7 i j k l m n p i' j' k' l' m' n' p' : Nat)
    (hj : j < d2) (hk : k < d3) (hl : l < d4) (hm : m < d5) (hn : n < d6) (hp : p < d7)
    (hj' : j' < d2) (hk' : k' < d3) (hl' : l' < d4) (hm' : m' < d5) (hn' : n' < d6) (hp' : p' < d7)
    (h : flat7 d2 d3 d4 d5 d6 d7 i j k l m n p = flat7 d2 d3 d4 d5 d6 d7 i' j' k' l' m' n' p') :
    i = i' ∧ j = j' ∧ k = k' ∧ l = l' ∧ m = m' ∧ n = n' ∧ p = p' := by
  rw [flat7_horner, flat7_horner] at h
  obtain ⟨e7, h⟩ := step_uniq hp hp' h
  obtain ⟨e6, h⟩ := step_uniq hn hn' h
  obtain ⟨e5, h⟩ := step_uniq hm hm' h
  obtain ⟨e4, h⟩ := step_uniq hl hl' h
  obtain ⟨e3, h⟩ := step_uniq hk hk' h
  obtain ⟨e2, h⟩ := step_uniq hj hj' h
  exact ⟨h, e2, e3, e4, e5, e6, e7⟩

/-- the offsets `rolled_up` forms by hand (w_lam + alpha_x mults[0] + … + lam1 (1 + mults[5]) + mu-offset + mu1) are the
accessor's offsets of an in-range tuple of the omega table of an engine built for (LB, LE) — dims (LB+1)³ × (LB+LE+1) ×
2(LB+LE+1) × (LB+LE+1) × 2(LB+LE+1) — whenever the shell, the ECP projector and the loop variables are within the
engine's limits: ax+ay+az ≤ LA ≤ LB, lam ≤ LE, lam1 ≤ lam + (ax+ay+az), mi ≤ 2 lam, m1 ≤ 2 lam1 -/
theorem rolledUp_omega_in_range (LBe LE LA lam ax ay az lam1 mi m1 : Nat)
    (hLA : LA ≤ LBe) (hlam : lam ≤ LE) (ha : ax + ay + az ≤ LA) (hl1 : lam1 ≤ lam + (ax + ay + az))
    (hmi : mi ≤ 2 * lam) (hm1 : m1 ≤ 2 * lam1) :
    ax < LBe + 1 ∧ ay < LBe + 1 ∧ az < LBe + 1 ∧ lam < LBe + LE + 1 ∧ mi < 2 * (LBe + LE + 1) ∧
      lam1 < LBe + LE + 1 ∧ m1 < 2 * (LBe + LE + 1) := by
  omega

/-- `compute_base_integrals(2, 3 + nbase, …)` writes `values[2n − 2]` for 1 ≤ n ≤ (3+nbase)/2 and `values[2n − 1]` for
1 ≤ n ≤ (2+nbase)/2: every written index is inside `new double[nbase + 2]`, and every index of that array is written
(no closed-form case can read an uninitialised base integral) -/
theorem base_integrals_fill (nbase : Nat) :
    (∀ n, 1 ≤ n → n ≤ (3 + nbase) / 2 → 2 * n - 2 < nbase + 2) ∧
    (∀ n, 1 ≤ n → n ≤ (2 + nbase) / 2 → 2 * n - 1 < nbase + 2) ∧
    (∀ i, i < nbase + 2 → (∃ n, 1 ≤ n ∧ n ≤ (3 + nbase) / 2 ∧ i = 2 * n - 2) ∨ (∃ n, 1 ≤ n ∧ n ≤ (2 + nbase) / 2 ∧ i = 2 * n - 1)) := by
  refine ⟨fun n h1 h2 => by omega, fun n h1 h2 => by omega, fun i hi => ?_⟩
  by_cases h : i % 2 = 0
  · exact Or.inl ⟨i / 2 + 1, by omega, by omega, by omega⟩
  · exact Or.inr ⟨(i + 1) / 2, by omega, by omega, by omega⟩

/-- largest `values[·]` index the closed-form case with label `key` reads (0 if there is no such case) -/
def maxIdx (key : Nat) : Nat := ((radialCaseMaxIndex.find? fun q => q.1 = key).map (·.2)).getD 0

/-- for every generated class, every requested triple (in either list) and every ECP power n ∈ {0,1,2} (k = N + n),
the closed-form case that is dispatched reads only base integrals the class's `nbase` provides — although `nbase` is
derived from the lexicographically last triple only -/
theorem values_index_le_nbase : ∀ c ∈ qclasses, ∀ t ∈ c.triplesA ++ c.triplesB, ∀ n ∈ [0, 1, 2],
    maxIdx (t.2.1 * 10000 + t.2.2 * 100 + (t.1 + n)) ≤ c.nbase + 1 := by
  decide +kernel

/-- fixed-size tables: with shells up to MAX_L + 2 (second derivatives shift by two) and ECP powers up to 2 the
both-on-centre branch reads GAMMA[N] with N = 2 + LA + LB + (n − 2) < 30 and calls FAST_POW[N + 1] with N + 1 < 23 -/
theorem onsite_table_indices : ∀ LA ≤ LIBECPINT_MAX_L + 2, ∀ LB ≤ LIBECPINT_MAX_L + 2, ∀ n ≤ 2,
    LA + LB + n < 30 ∧ LA + LB + n + 1 < 23 := by
  intro LA hLA LB hLB n hn
  simp only [LIBECPINT_MAX_L] at hLA hLB
  omega

/-- factorial table: the binomial coefficients of `calcC` read FAC[a], FAC[m], FAC[a − m] with a ≤ MAX_L + 2 < MAX_FAC -/
theorem calcC_fac_indices : ∀ a ≤ LIBECPINT_MAX_L + 2, ∀ m ≤ a, a < MAX_FAC ∧ m < MAX_FAC ∧ a - m < MAX_FAC := by
  intro a ha m hm
  simp only [LIBECPINT_MAX_L] at ha
  simp only [MAX_FAC]
  omega

/-- the Cartesian counter never leaves the block: component positions are below ncart L -/
theorem cart_position_lt (L x y z : Nat) (h : x + y + z = L) : (y + z) * (y + z + 1) / 2 + z < ncart L := by
  subst h
  unfold ncart
  have hle : (y + z + 1) * (y + z + 2) ≤ (x + y + z + 1) * (x + y + z + 2) :=
    Nat.mul_le_mul (by omega) (by omega)
  have e : (y + z + 1) * (y + z + 2) = (y + z) * (y + z + 1) + 2 * (y + z + 1) := by
    rw [← Nat.add_mul, Nat.mul_comm]
  generalize (y + z) * (y + z + 1) = A at *
  generalize (x + y + z + 1) * (x + y + z + 2) = B at *
  omega

end Ecpint.C11
