/- C12 — primitive radial integrals: dispatch and indexing facts decided on the regenerated tables; the 63 closed-form
   cases against the recurrence are in Props/C12Cases (imported here, so they are rebuilt and audited with this module). -/
import Ecpint.Gen.RadialCases
import Ecpint.Gen.QClasses
import Ecpint.Props.C12Cases
namespace Ecpint.C12
open Ecpint.Gen
set_option maxRecDepth 100000

/-- the case key `l1·10000 + l2·100 + k` is injective on everything any generated class can request
(l1, l2 ≤ 99 and k ≤ 99 suffices; the largest requested indices are far below) -/
theorem key_injective_on_requests :
    ∀ c ∈ qclasses, ∀ t ∈ c.triplesA ++ c.triplesB, t.2.1 < 100 ∧ t.2.2 < 100 ∧ t.1 + 2 < 100 := by decide

/-- every closed-form label is of the form the key can take and the labels are distinct -/
theorem case_keys_nodup : radialCaseKeys.Nodup := by decide

end Ecpint.C12
