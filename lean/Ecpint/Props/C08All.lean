/- C08 — root of the property's theorems:
   C08   translation invariance of the pipeline model (centres enter through differences only)
   C08b  REFLECTION covariance ("reflections sign the elements"): over any commutative ring the three angular contractions fed the data of
         the reflected geometry return the block multiplied by (−1)^(ca_q + cb_q), given the parity selection rule of the angular
         table, the sign of the harmonics and the binomial-shift identity calcC(a,m,−A) = (−1)^(a−m) calcC(a,m,A); over ℝ the model's
         own tables satisfy the selection rules (from C13d/e: entries are sphere integrals, odd integrands vanish), the model's
         harmonics evaluator `rsh` (Legendre recursion, cos/sin of mφ, poles included) picks up exactly that sign under the three
         reflections, and the pipeline's `rolledUp` / `rolledUpSpecial` with the model's own `makeCTab` and `rsh` return the signed block.
         Not covered: proper rotations and axis permutations (search only); type-1 radials' harmonic factor is a hypothesis. -/
import Ecpint.Props.C08
import Ecpint.Props.C08b
