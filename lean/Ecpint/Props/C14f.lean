/-
C14f — both evaluators of `BesselFunction`, end to end, in exact arithmetic (Model/Bessel.lean: `build`, `calcAll`, `calcOne`,
`upperBound` over ℝ, constants as shipped: grid 0..16 in BESSEL_N steps, TAYLOR_CUT, BESSEL_ORDER, MAX_DFAC, SMALL).

Proved, with T = build lMax BESSEL_N BESSEL_ORDER acc, 1e-15 ≤ acc ≤ 1e-13, lMax ≤ 3·MAX_L, for EVERY real z:
  calcAll_error      |calcAll T SMALL z maxL init [l] − K_l(max z 0)| < 1e-12     (l ≤ maxL ≤ lMax, maxL < init.size)
  calcAll_frame      entries above maxL and the size of `values` are untouched
  calcOne_error      |calcOne T SMALL z L − K_L(max z 0)| < 1e-12                  (L ≤ lMax)   [_gen: < 5e-13 + 1.02 acc]
  evaluators_agree   the two differ by < 2e-12;  evaluators_equal: they are the same real number outside the small-argument
                     branch and the `|dz| < 1e-12` shortcut
  upperBound_spec / upperBound_node_le / upperBound_not_upper
                     `upper_bound(z, L)` is the stored (truncated-series) value of K_min(L,lMax) at the node at or below z
                     (node 1 at least if L > 0); it is NOT an upper bound of K_L(z): upper_bound(0.015, 1) < K_1(0.015).
Pieces: `setRange` (Stage 1); K_l ≤ K_0-bound and |K_l'| ≤ c < 1 away from 0, Lipschitz constants 0.991 on z ≥ 0.0099 and 0.9 on
z ≥ 0.24 (Stage 2); regime dispatch of both evaluators and the contents of `build` (Stage 3); the error of each branch
(Stage 4) — the delicate one is the shortcut, which needs the Lipschitz constants and, at the first 25 nodes, a truncation
error 48 times below `acc`.
-/
import Ecpint.Props.C14
import Ecpint.Props.C14b
import Ecpint.Props.C14c
import Ecpint.Props.C14d
import Ecpint.Props.C14e
import Mathlib.Analysis.Calculus.MeanValue

namespace Ecpint.C14f
open Ecpint.Bessel Ecpint.C14b Ecpint.C14c Ecpint.C14d Ecpint.C14e Ecpint.BesselReal
open scoped Nat

/-! ## Stage 1: `setRange` -/

theorem setRange_foldl {α : Type} [Inhabited α] (val : ℕ → α) (init : Array α) (m : ℕ) :
    ((List.range m).foldl (fun (v : Array α) l => v.set! l (val l)) init).size = init.size ∧
    ∀ l, l < init.size →
      ((List.range m).foldl (fun (v : Array α) l => v.set! l (val l)) init)[l]! = if l < m then val l else init[l]! := by
  induction m with
  | zero => simp
  | succ m ih =>
    obtain ⟨hs, hv⟩ := ih
    rw [List.range_succ, List.foldl_append]
    simp only [List.foldl_cons, List.foldl_nil, Array.set!_eq_setIfInBounds, Array.size_setIfInBounds]
    simp only [Array.set!_eq_setIfInBounds] at hs hv
    refine ⟨hs, fun l hl => ?_⟩
    have hl' : l < ((List.range m).foldl (fun (v : Array α) l => v.setIfInBounds l (val l)) init).size := by
      rw [hs]; exact hl
    rw [getElem!_pos _ _ (by rw [Array.size_setIfInBounds]; exact hl'), Array.getElem_setIfInBounds hl']
    by_cases h : m = l
    · subst h
      rw [if_pos rfl, if_pos (Nat.lt_succ_self _)]
    · have := hv l hl
      rw [getElem!_pos ((List.range m).foldl (fun (v : Array α) l => v.setIfInBounds l (val l)) init) l hl'] at this
      rw [if_neg h, this]
      by_cases h2 : l < m
      · simp [h2, Nat.lt_succ_of_lt h2]
      · have : ¬ l < m + 1 := by omega
        simp [h2, this]

section
variable {α : Type} [I : Inhabited α]

omit I in
/-- the size does not change -/
theorem setRange_size (init : Array α) (maxL : ℕ) (val : ℕ → α) : (setRange init maxL val).size = init.size := by
  unfold setRange
  generalize maxL + 1 = m
  induction m with
  | zero => simp
  | succ m ih =>
    rw [List.range_succ, List.foldl_append]
    simp only [List.foldl_cons, List.foldl_nil, Array.set!_eq_setIfInBounds, Array.size_setIfInBounds]
    simpa using ih

/-- entries 0 … maxL are overwritten with `val` -/
theorem setRange_get (init : Array α) (maxL : ℕ) (val : ℕ → α) (l : ℕ) (hl : l ≤ maxL) (hmax : maxL < init.size) :
    (setRange init maxL val)[l]! = val l := by
  have := (setRange_foldl val init (maxL + 1)).2 l (by omega)
  rw [if_pos (by omega)] at this
  exact this

/-- the other entries are left as they were -/
theorem setRange_get_other (init : Array α) (maxL : ℕ) (val : ℕ → α) (l : ℕ) (hl : maxL < l) :
    (setRange init maxL val)[l]! = init[l]! := by
  by_cases h : l < init.size
  · have := (setRange_foldl val init (maxL + 1)).2 l h
    rw [if_neg (by omega)] at this
    exact this
  · rw [getElem!_neg (setRange init maxL val) l (by rw [setRange_size]; exact h), getElem!_neg init l h]

end

/-! ## Stage 2: sharper bounds on K_l and K_l' away from 0 -/

/-- closed form of K_0 -/
theorem K_zero_formula (z : ℝ) (hz : 0 < z) : K 0 z = (1 - Real.exp (-2 * z)) / (2 * z) := by
  rw [K_large 0 z hz, largeAll_zero, largeAll_zero]
  field_simp
  ring

theorem K_zero_mul (z : ℝ) (hz : 0 < z) : z * K 0 z ≤ 1 / 2 := by
  rw [K_zero_formula z hz]
  have := Real.exp_pos (-2 * z)
  have e : z * ((1 - Real.exp (-2 * z)) / (2 * z)) = (1 - Real.exp (-2 * z)) / 2 := by
    field_simp
  rw [e]
  linarith

/-- K_{l+2} ≤ K_l (three-term recurrence and positivity) -/
theorem K_anti2 (l : ℕ) (z : ℝ) (hz : 0 < z) : K (l + 2) z ≤ K l z := by
  rw [K_rec l z hz.ne']
  have h1 := K_nonneg (l + 1) z hz.le
  have h2 : 0 ≤ (2 * (l : ℝ) + 3) / z := by positivity
  nlinarith [mul_nonneg h2 h1]

theorem K_one_le (z : ℝ) (hz : 0 < z) : K 1 z ≤ 1 / 6 := by
  have h := K_rec 0 z hz.ne'
  have h2 := K_nonneg 2 z hz.le
  have h0 := K_zero_mul z hz
  simp only [Nat.cast_zero, mul_zero, zero_add] at h
  have e : 3 / z * K 1 z ≤ K 0 z := by linarith
  rw [div_mul_eq_mul_div, div_le_iff₀ hz] at e
  linarith

/-- K_0(z) ≤ 1 − z/2 on (0, 1] (from e^{-z} ≥ 1 − z) -/
theorem K_zero_le_lin (z : ℝ) (hz0 : 0 < z) (h1 : z ≤ 1) : K 0 z ≤ 1 - z / 2 := by
  rw [K_zero_formula z hz0, div_le_iff₀ (by positivity)]
  have h3 : 1 - z ≤ Real.exp (-z) := by
    have := Real.add_one_le_exp (-z)
    linarith
  have h4 : Real.exp (-2 * z) = Real.exp (-z) ^ 2 := by
    rw [← Real.exp_nat_mul]
    congr 1
    push_cast
    ring
  have h5 : (1 - z) ^ 2 ≤ Real.exp (-z) ^ 2 := pow_le_pow_left₀ (by linarith) h3 2
  rw [h4]
  nlinarith

theorem K_zero_le_half (z : ℝ) (h1 : 1 ≤ z) : K 0 z ≤ 1 / 2 := by
  have hz0 : 0 < z := by linarith
  have := K_zero_mul z hz0
  have h2 := K_nonneg 0 z hz0.le
  nlinarith

theorem K_zero_le (z : ℝ) (hz : 99 / 10000 ≤ z) : K 0 z ≤ 991 / 1000 := by
  have hz0 : 0 < z := by linarith
  rcases le_total 1 z with h1 | h1
  · linarith [K_zero_le_half z h1]
  · rcases le_total (18 / 1000) z with h2 | h2
    · linarith [K_zero_le_lin z hz0 h1]
    · have h3 := K_small 0 z hz0.le h1
      have h4 : smallAll z 0 = 1 - z := rfl
      rw [h4] at h3
      have h5 := (abs_le.mp h3).2
      have h6 : z ^ (0 + 2) = z * z := by ring
      rw [h6] at h5
      nlinarith [mul_nonneg (sub_nonneg.2 hz) (sub_nonneg.2 h2)]

theorem K_zero_le_far (z : ℝ) (hz : 24 / 100 ≤ z) : K 0 z ≤ 9 / 10 := by
  have hz0 : 0 < z := by linarith
  rcases le_total 1 z with h1 | h1
  · linarith [K_zero_le_half z h1]
  · linarith [K_zero_le_lin z hz0 h1]

/-- every order is below any bound c ≥ 1/6 of K_0 -/
theorem K_le_of_zero (c : ℝ) (hc : 1 / 6 ≤ c) (z : ℝ) (hz0 : 0 < z) (h0 : K 0 z ≤ c) (l : ℕ) : K l z ≤ c := by
  induction l using Nat.twoStepInduction with
  | zero => exact h0
  | one => linarith [K_one_le z hz0]
  | more l ih0 _ => exact le_trans (K_anti2 l z hz0) ih0

/-- … and so is the modulus of the first derivative (on all of z ≥ 0 it is only below 1) -/
theorem dSpec_one_abs_le_of (c : ℝ) (hc : 1 / 6 ≤ c) (z : ℝ) (hz0' : 0 < z) (h0 : K 0 z ≤ c) (l : ℕ) : |dSpec 1 l z| ≤ c := by
  have hz0 : 0 ≤ z := hz0'.le
  have hle := K_le_of_zero c hc z hz0' h0
  cases l with
  | zero =>
    have e : dSpec 1 0 z = K 1 z - K 0 z := by simp [dSpec]
    rw [e, abs_le]
    constructor <;> linarith [K_nonneg 0 z hz0, K_nonneg 1 z hz0, hle 0, hle 1]
  | succ l =>
    have e : dSpec 1 (l + 1) z = recStep (l + 1) (K l z) (K (l + 2) z) (K (l + 1) z) := by simp [dSpec]
    rw [e, Ecpint.C14.recStep_spec]
    have hL : (0 : ℝ) ≤ ((l + 1 : ℕ) : ℝ) := Nat.cast_nonneg _
    set L : ℝ := ((l + 1 : ℕ) : ℝ)
    have hd : (0 : ℝ) < 2 * L + 1 := by positivity
    have ha0 := K_nonneg l z hz0
    have hb0 := K_nonneg (l + 2) z hz0
    have hc0 := K_nonneg (l + 1) z hz0
    have ha1 := hle l
    have hb1 := hle (l + 2)
    have hc1 := hle (l + 1)
    have hA0 : 0 ≤ (L * K l z + (L + 1) * K (l + 2) z) / (2 * L + 1) := by positivity
    have hA1 : (L * K l z + (L + 1) * K (l + 2) z) / (2 * L + 1) ≤ c := by
      rw [div_le_iff₀ hd]
      nlinarith
    rw [abs_le]
    constructor <;> linarith

/-- K_l is Lipschitz with constant c on z ≥ a > 0 when K_0 ≤ c there (c ≥ 1/6) -/
theorem K_lipschitz_of (c a : ℝ) (hc : 1 / 6 ≤ c) (ha : 0 < a) (h0 : ∀ z, a ≤ z → K 0 z ≤ c) (l : ℕ) (x y : ℝ)
    (hx : a ≤ x) (hy : a ≤ y) : |K l y - K l x| ≤ c * |y - x| := by
  have h := Convex.norm_image_sub_le_of_norm_hasDerivWithin_le (f := K l) (f' := dSpec 1 l) (C := c)
    (s := Set.Ici a) (x := x) (y := y)
    (fun t _ => by
      have := dSpec_hasDerivAt 0 l t
      rw [dSpec_zero] at this
      exact this.hasDerivWithinAt)
    (fun t ht => by
      rw [Real.norm_eq_abs]
      exact dSpec_one_abs_le_of c hc t (lt_of_lt_of_le ha ht) (h0 t ht) l)
    (convex_Ici _) hx hy
  simpa [Real.norm_eq_abs] using h

/-- constant 0.991 on z ≥ 0.0099 -/
theorem K_lipschitz (l : ℕ) (x y : ℝ) (hx : 99 / 10000 ≤ x) (hy : 99 / 10000 ≤ y) :
    |K l y - K l x| ≤ 991 / 1000 * |y - x| :=
  K_lipschitz_of (991 / 1000) (99 / 10000) (by norm_num) (by norm_num) K_zero_le l x y hx hy

/-- constant 0.9 on z ≥ 0.24 -/
theorem K_lipschitz_far (l : ℕ) (x y : ℝ) (hx : 24 / 100 ≤ x) (hy : 24 / 100 ≤ y) :
    |K l y - K l x| ≤ 9 / 10 * |y - x| :=
  K_lipschitz_of (9 / 10) (24 / 100) (by norm_num) (by norm_num) K_zero_le_far l x y hx hy

/-! ## Stage 3: regime dispatch and what the table holds -/

section
variable {α : Type} [LT α] [DecidableRel (fun a b : α => a < b)] [Zero α] [NatCast α]

theorem regime_nonpos (small z : α) (h : ¬ (0 : α) < z) : regime small z = .nonpos := by
  simp [regime, h]

theorem regime_small (small z : α) (h : (0 : α) < z) (h2 : z < small) : regime small z = .small := by
  simp [regime, h, h2]

theorem regime_large (small z : α) (h : (0 : α) < z) (h2 : ¬ z < small) (h3 : ((16 : ℕ) : α) < z) :
    regime small z = .large := by
  unfold regime
  rw [if_neg (not_not_intro h), if_neg h2, if_pos h3]

theorem regime_table (small z : α) (h : (0 : α) < z) (h2 : ¬ z < small) (h3 : ¬ ((16 : ℕ) : α) < z) :
    regime small z = .table := by
  unfold regime
  rw [if_neg (not_not_intro h), if_neg h2, if_neg h3]

end

theorem calcAll_nonpos (T : Table ℝ) (small z : ℝ) (maxL : ℕ) (init : Array ℝ) (h : z ≤ 0) :
    calcAll T small z maxL init = setRange init maxL fun l => if l = 0 then 1 else 0 := by
  unfold calcAll
  rw [regime_nonpos small z (not_lt.mpr h)]

theorem calcAll_small (T : Table ℝ) (small z : ℝ) (maxL : ℕ) (init : Array ℝ) (h : 0 < z) (h2 : z < small) :
    calcAll T small z maxL init = setRange init maxL fun l => smallAll z l := by
  unfold calcAll
  rw [regime_small small z h h2]
  simp only
  congr 1
  funext l
  split_ifs with h0
  · subst h0; rfl
  · rfl

theorem calcAll_large (T : Table ℝ) (small z : ℝ) (maxL : ℕ) (init : Array ℝ) (h : 0 < z) (h2 : small ≤ z) (h3 : 16 < z) :
    calcAll T small z maxL init = setRange init maxL fun l => largeAll (1 / (2 * z)) l := by
  unfold calcAll
  rw [regime_large small z h (not_lt.mpr h2) (by simpa using h3)]
  simp only
  have e : (1 : ℝ) / ((2 : ℕ) : ℝ) / z = 1 / (2 * z) := by
    rw [div_div]; norm_num
  rw [e]
  congr 1
  funext l
  split_ifs with h0
  · subst h0; rw [largeAll_zero]
  · rfl

/-- the row the table regime uses -/
noncomputable def tableIx (T : Table ℝ) (z : ℝ) : ℕ := ⌊z * T.scale + 1 / 2⌋₊

theorem calcAll_table_near (T : Table ℝ) (small z : ℝ) (maxL : ℕ) (init : Array ℝ) (h : 0 < z) (h2 : small ≤ z) (h3 : z ≤ 16)
    (hnear : |z - (tableIx T z : ℝ) / T.scale| < 1 / 10 ^ 12) :
    calcAll T small z maxL init = setRange init maxL fun l => (T.K[tableIx T z]!)[l]! := by
  unfold calcAll
  rw [regime_table small z h (not_lt.mpr h2) (by simpa using h3)]
  simp only
  have hc : (Num.abs (z - ((Num.floorNat (z * T.scale + 1 / ((2 : ℕ) : ℝ)) : ℕ) : ℝ) / T.scale)
      < 1 / ((1000000000000 : ℕ) : ℝ)) := by
    show |z - ((⌊z * T.scale + 1 / ((2 : ℕ) : ℝ)⌋₊ : ℕ) : ℝ) / T.scale| < 1 / ((1000000000000 : ℕ) : ℝ)
    unfold tableIx at hnear
    norm_num at hnear ⊢
    exact hnear
  rw [if_pos hc]
  rfl

theorem calcAll_table_far (T : Table ℝ) (small z : ℝ) (maxL : ℕ) (init : Array ℝ) (h : 0 < z) (h2 : small ≤ z) (h3 : z ≤ 16)
    (hfar : ¬ |z - (tableIx T z : ℝ) / T.scale| < 1 / 10 ^ 12) :
    calcAll T small z maxL init = setRange init maxL fun l =>
      taylorAll Gen.TAYLOR_CUT (z - (tableIx T z : ℝ) / T.scale) fun n => ((T.dK[tableIx T z]!)[n]!)[l]! := by
  unfold calcAll
  rw [regime_table small z h (not_lt.mpr h2) (by simpa using h3)]
  simp only
  have hc : ¬ (Num.abs (z - ((Num.floorNat (z * T.scale + 1 / ((2 : ℕ) : ℝ)) : ℕ) : ℝ) / T.scale)
      < 1 / ((1000000000000 : ℕ) : ℝ)) := by
    show ¬ |z - ((⌊z * T.scale + 1 / ((2 : ℕ) : ℝ)⌋₊ : ℕ) : ℝ) / T.scale| < 1 / ((1000000000000 : ℕ) : ℝ)
    unfold tableIx at hfar
    norm_num at hfar ⊢
    exact hfar
  rw [if_neg hc]
  rfl

/-! the single-order evaluator -/

theorem calcOne_nonpos (T : Table ℝ) (small z : ℝ) (L : ℕ) (h : z ≤ 0) :
    calcOne T small z L = if L = 0 then 1 else 0 := by
  unfold calcOne
  rw [regime_nonpos small z (not_lt.mpr h)]

theorem calcOne_small (T : Table ℝ) (small z : ℝ) (L : ℕ) (h : 0 < z) (h2 : z < small) :
    calcOne T small z L = smallOne z L := by
  unfold calcOne
  rw [regime_small small z h h2]

theorem calcOne_large (T : Table ℝ) (small z : ℝ) (L : ℕ) (h : 0 < z) (h2 : small ≤ z) (h3 : 16 < z) :
    calcOne T small z L = largeOne (1 / (2 * z)) L := by
  unfold calcOne
  rw [regime_large small z h (not_lt.mpr h2) (by simpa using h3)]
  simp only
  have e : (1 : ℝ) / ((2 : ℕ) : ℝ) / z = 1 / (2 * z) := by
    rw [div_div]; norm_num
  rw [e]

theorem calcOne_table (T : Table ℝ) (small z : ℝ) (L : ℕ) (h : 0 < z) (h2 : small ≤ z) (h3 : z ≤ 16) :
    calcOne T small z L =
      taylorOne Gen.TAYLOR_CUT (z - (tableIx T z : ℝ) / T.scale) fun n => ((T.dK[tableIx T z]!)[n]!)[L]! := by
  unfold calcOne
  rw [regime_table small z h (not_lt.mpr h2) (by simpa using h3)]
  rfl


/-! what `build` puts in the tables -/

theorem build_scale (lMax N order : ℕ) (acc : ℝ) : (build lMax N order acc).scale = (N : ℝ) / 16 := by
  show (N : ℝ) / ((16 : ℕ) : ℝ) = (N : ℝ) / 16
  norm_num

theorem build_K_get (lMax N order : ℕ) (acc : ℝ) (ix : ℕ) (hix : ix ≤ N) :
    (build lMax N order acc).K[ix]! =
      tabulateRow (dfacTable (α := ℝ) Gen.MAX_DFAC) N order (lMax + Gen.TAYLOR_CUT) acc ix := by
  show ((Array.range (N + 1)).map fun i =>
    tabulateRow (dfacTable (α := ℝ) Gen.MAX_DFAC) N order (lMax + Gen.TAYLOR_CUT) acc i)[ix]! = _
  rw [getElem!_pos _ _ (by simp; omega)]
  simp

theorem build_dK_get (lMax N order : ℕ) (acc : ℝ) (ix : ℕ) (hix : ix ≤ N) :
    (build lMax N order acc).dK[ix]! =
      derivRows lMax Gen.TAYLOR_CUT
        (tabulateRow (dfacTable (α := ℝ) Gen.MAX_DFAC) N order (lMax + Gen.TAYLOR_CUT) acc ix) := by
  show (((Array.range (N + 1)).map fun i =>
    tabulateRow (dfacTable (α := ℝ) Gen.MAX_DFAC) N order (lMax + Gen.TAYLOR_CUT) acc i).map
      (derivRows lMax Gen.TAYLOR_CUT))[ix]! = _
  rw [getElem!_pos _ _ (by simp; omega)]
  simp

/-! ## Stage 4: the error of each branch, constants as shipped -/

theorem acc_lower (acc : ℝ) (hacc : 1 / 10 ^ 15 ≤ acc) :
    (Gen.RADIAL_THRESH_DEFAULT_num : ℝ) / Gen.RADIAL_THRESH_DEFAULT_den ≤ acc := by
  simp only [Gen.RADIAL_THRESH_DEFAULT_num, Gen.RADIAL_THRESH_DEFAULT_den]
  norm_num at hacc ⊢
  exact hacc

/-- in the table regime the row index is in the table and the step is at most half a spacing -/
theorem tableIx_facts (lMax : ℕ) (acc z : ℝ) (h0 : 0 ≤ z) (h16 : z ≤ 16) :
    tableIx (build lMax Gen.BESSEL_N Gen.BESSEL_ORDER acc) z ≤ Gen.BESSEL_N ∧
    |z - (tableIx (build lMax Gen.BESSEL_N Gen.BESSEL_ORDER acc) z : ℝ) / ((Gen.BESSEL_N : ℝ) / 16)|
      ≤ 8 / (Gen.BESSEL_N : ℝ) := by
  unfold tableIx
  rw [build_scale]
  obtain ⟨h1, h2⟩ := Ecpint.C14.table_row_in_range (F := ℝ) Gen.BESSEL_N (by decide) z h0 h16
  refine ⟨h1, le_trans h2 (le_of_eq ?_)⟩
  simp only [Gen.BESSEL_N]; norm_num

/-- table regime, Taylor branch, all-orders evaluator -/
theorem table_far_error (lMax : ℕ) (hlMax : lMax ≤ 3 * Gen.LIBECPINT_MAX_L) (acc : ℝ) (hacc : 1 / 10 ^ 15 ≤ acc)
    (hacc7 : acc ≤ 1 / 10 ^ 7) (z : ℝ) (h0 : 0 ≤ z) (h16 : z ≤ 16) (l : ℕ) (hl : l ≤ lMax) :
    let T := build lMax Gen.BESSEL_N Gen.BESSEL_ORDER acc
    |K l z - taylorAll Gen.TAYLOR_CUT (z - (tableIx T z : ℝ) / T.scale) (fun n => ((T.dK[tableIx T z]!)[n]!)[l]!)|
      < 1 / 10 ^ 14 + 102 / 100 * acc := by
  intro T
  obtain ⟨hix, hdz⟩ := tableIx_facts lMax acc z h0 h16
  rw [build_dK_get lMax _ _ acc _ hix, build_scale]
  have h := table_regime_error_stored lMax hlMax (tableIx T z) hix acc (acc_lower acc hacc) hacc7
    (z - (tableIx T z : ℝ) / ((Gen.BESSEL_N : ℝ) / 16)) hdz (by linarith) l hl
  simp only at h
  rwa [add_sub_cancel] at h

/-- table regime, single-order evaluator -/
theorem table_one_error (lMax : ℕ) (hlMax : lMax ≤ 3 * Gen.LIBECPINT_MAX_L) (acc : ℝ) (hacc : 1 / 10 ^ 15 ≤ acc)
    (hacc7 : acc ≤ 1 / 10 ^ 7) (z : ℝ) (h0 : 0 ≤ z) (h16 : z ≤ 16) (l : ℕ) (hl : l ≤ lMax) :
    let T := build lMax Gen.BESSEL_N Gen.BESSEL_ORDER acc
    |K l z - taylorOne Gen.TAYLOR_CUT (z - (tableIx T z : ℝ) / T.scale) (fun n => ((T.dK[tableIx T z]!)[n]!)[l]!)|
      < 1 / 10 ^ 14 + 102 / 100 * acc := by
  intro T
  rw [← Ecpint.C14.taylorAll_eq_taylorOne]
  exact table_far_error lMax hlMax acc hacc hacc7 z h0 h16 l hl

/-! the `|dz| < 1e-12` shortcut returns the stored row of the node.  Its error is |K_l(z) − K_l(z_ix)| ≤ sup|K_l'|·|dz| plus the
truncation error of the row; sup|K_l'| is close to 1 at the first nodes (K_0'(0) = −1), so there the generic bound
"truncation < acc" is not enough for 1e-12 when acc = 1e-13: at those nodes the series has converged far below acc -/

theorem Kpartial_step (j l : ℕ) (z : ℝ) : Kpartial (j + 1) l z - Kpartial j l z = Real.exp (-z) * iTerm l j z := by
  rw [Kpartial_eq, Kpartial_eq, Finset.sum_range_succ]
  ring

/-- truncation error at a node z ≤ 1/4: the neglected tail is below 1/48 of the last term included (hence of `acc`) -/
theorem truncation_error_small (J l : ℕ) (z acc : ℝ) (hJ : 1 ≤ J) (hz0 : 0 ≤ z) (hz : z ≤ 1 / 4)
    (hstop : Kpartial J 0 z - Kpartial (J - 1) 0 z < acc) : K l z - Kpartial J l z < acc / 48 := by
  obtain ⟨j, rfl⟩ : ∃ j, J = j + 1 := ⟨J - 1, by omega⟩
  simp only [Nat.add_sub_cancel] at hstop
  rw [Kpartial_step] at hstop
  have hj : (0 : ℝ) ≤ (j : ℝ) := Nat.cast_nonneg j
  have hz2 : z ^ 2 ≤ 1 / 16 := by nlinarith
  have hq1 : z ^ 2 ≤ (((j + 1 : ℕ) : ℝ) + 1) * (2 * ((j + 1 : ℕ) : ℝ) + 3) := by
    push_cast
    nlinarith
  have h2 := truncation_le_last (j + 1) l z hz0 hq1
  rw [Kpartial_step (j + 1) 0 z] at h2
  have h1 := Kpartial_step (j + 1) l z
  have h3 : iTerm l (j + 1) z ≤ iTerm 0 (j + 1) z := by
    apply iTerm_le_zero l (j + 1) z hz0
    push_cast
    linarith
  have he := Real.exp_pos (-z)
  have h4 : iTerm 0 (j + 1) z ≤ iTerm 0 j z / 96 := by
    rw [iTerm_succ_m, div_eq_mul_one_div (iTerm 0 j z) 96]
    apply mul_le_mul_of_nonneg_left _ (iTerm_nonneg 0 j z hz0)
    rw [div_le_iff₀ (by positivity)]
    nlinarith
  have h5 : Real.exp (-z) * iTerm l (j + 1) z ≤ Real.exp (-z) * iTerm 0 (j + 1) z :=
    mul_le_mul_of_nonneg_left h3 he.le
  have h6 : Real.exp (-z) * iTerm 0 (j + 1) z ≤ Real.exp (-z) * (iTerm 0 j z / 96) :=
    mul_le_mul_of_nonneg_left h4 he.le
  have h7 : Real.exp (-z) * (iTerm 0 j z / 96) = Real.exp (-z) * iTerm 0 j z / 96 := by ring
  linarith

/-- the stored rows of the first 25 nodes (z_i ≤ 1/4) -/
theorem stored_row_error_small (i : ℕ) (hi : i ≤ 25) (acc : ℝ) (hacc : 1 / 10 ^ 15 ≤ acc)
    (lmax : ℕ) (hlmax : lmax ≤ 3 * Gen.LIBECPINT_MAX_L + Gen.TAYLOR_CUT) (l : ℕ) (hl : l ≤ lmax) :
    K l ((i : ℝ) / ((Gen.BESSEL_N : ℝ) / 16))
      - (tabulateRow (dfacTable (α := ℝ) Gen.MAX_DFAC) Gen.BESSEL_N Gen.BESSEL_ORDER lmax acc i)[l]! < acc / 48 := by
  have hiN : i ≤ Gen.BESSEL_N := le_trans hi (by decide)
  obtain ⟨_, hJo, hidx⟩ := tabulate_indices_in_table i hiN acc (acc_lower acc hacc) lmax hlmax
  obtain ⟨hJ1, _, _, hspec⟩ := tabulateRow_spec_J Gen.MAX_DFAC Gen.BESSEL_N Gen.BESSEL_ORDER lmax acc i (by decide)
  obtain ⟨hstop, hrow⟩ := hspec hidx
  set z : ℝ := (i : ℝ) / ((Gen.BESSEL_N : ℝ) / 16) with hzdef
  have hz0 : 0 ≤ z := div_nonneg (Nat.cast_nonneg _) (div_nonneg (Nat.cast_nonneg _) (by norm_num))
  have hz4 : z ≤ 1 / 4 := by
    have h25 : (i : ℝ) ≤ 25 := by exact_mod_cast hi
    rw [hzdef]
    simp only [Gen.BESSEL_N]
    rw [div_le_iff₀ (by norm_num)]
    norm_num
    linarith
  have := truncation_error_small _ l z acc hJ1 hz0 hz4 (hstop hJo)
  rw [← hrow l hl] at this
  exact this

/-- table regime, the `|dz| < 1e-12` shortcut of the all-orders evaluator (it returns the stored row) -/
theorem table_near_error (lMax : ℕ) (hlMax : lMax ≤ 3 * Gen.LIBECPINT_MAX_L) (acc : ℝ) (hacc : 1 / 10 ^ 15 ≤ acc)
    (hacc13 : acc ≤ 1 / 10 ^ 13) (z : ℝ) (hz : 1 / 10 ^ 7 ≤ z) (h16 : z ≤ 16) (l : ℕ) (hl : l ≤ lMax) :
    let T := build lMax Gen.BESSEL_N Gen.BESSEL_ORDER acc
    |z - (tableIx T z : ℝ) / T.scale| < 1 / 10 ^ 12 →
    |K l z - (T.K[tableIx T z]!)[l]!| < 1 / 10 ^ 12 := by
  intro T hnear
  have hacc7 : acc ≤ 1 / 10 ^ 7 := le_trans hacc13 (by norm_num)
  have h0 : 0 ≤ z := le_trans (by norm_num) hz
  obtain ⟨hix, -⟩ := tableIx_facts lMax acc z h0 h16
  rw [build_scale] at hnear
  rw [build_K_get lMax _ _ acc _ hix]
  set ix := tableIx T z with hixdef
  have hrow := stored_row_error ix hix acc (acc_lower acc hacc) hacc7 (lMax + Gen.TAYLOR_CUT) (by omega) l (by omega)
  simp only at hrow
  set zn : ℝ := (ix : ℝ) / ((Gen.BESSEL_N : ℝ) / 16) with hzn
  -- the node is not 0
  have hix1 : 1 ≤ ix := by
    by_contra hc
    have e : ix = 0 := by omega
    rw [hzn, e] at hnear
    simp only [Nat.cast_zero, zero_div, sub_zero] at hnear
    rw [abs_of_nonneg h0] at hnear
    have : (1 : ℝ) / 10 ^ 12 < 1 / 10 ^ 7 := by norm_num
    linarith
  have hznval : zn = (ix : ℝ) / 100 := by
    rw [hzn]; simp only [Gen.BESSEL_N]; norm_num
  have hdzlo := (abs_lt.mp hnear).1
  have e : K l z - (tabulateRow (dfacTable (α := ℝ) Gen.MAX_DFAC) Gen.BESSEL_N Gen.BESSEL_ORDER (lMax + Gen.TAYLOR_CUT) acc ix)[l]!
      = (K l z - K l zn) + (K l zn - (tabulateRow (dfacTable (α := ℝ) Gen.MAX_DFAC) Gen.BESSEL_N Gen.BESSEL_ORDER (lMax + Gen.TAYLOR_CUT) acc ix)[l]!) := by
    ring
  rw [e]
  refine lt_of_le_of_lt (abs_add_le _ _) ?_
  rw [abs_of_nonneg hrow.1]
  rcases Nat.lt_or_ge ix 26 with h25 | h26
  · -- first nodes: |K'| ≤ 0.991, truncation < acc/48
    have hzn1 : 1 / 100 ≤ zn := by
      have : (1 : ℝ) ≤ (ix : ℝ) := by exact_mod_cast hix1
      rw [hznval]; linarith
    have hzlo : 99 / 10000 ≤ z := by
      have e : (1 : ℝ) / 10 ^ 12 ≤ 1 / 10000 := by norm_num
      linarith
    have hlip := K_lipschitz l zn z (by linarith) hzlo
    have hsm := stored_row_error_small ix (by omega) acc hacc (lMax + Gen.TAYLOR_CUT) (by omega) l (by omega)
    rw [← hzn] at hsm
    have h1 : (991 : ℝ) / 1000 * |z - zn| ≤ 991 / 1000 * (1 / 10 ^ 12) :=
      mul_le_mul_of_nonneg_left hnear.le (by norm_num)
    have h2 : (991 : ℝ) / 1000 * (1 / 10 ^ 12) + (1 / 10 ^ 13) / 48 < 1 / 10 ^ 12 := by norm_num
    linarith
  · -- later nodes: |K'| ≤ 0.9, truncation < acc
    have hzn1 : 26 / 100 ≤ zn := by
      have : (26 : ℝ) ≤ (ix : ℝ) := by exact_mod_cast h26
      rw [hznval]; linarith
    have hzlo : 24 / 100 ≤ z := by
      have e : (1 : ℝ) / 10 ^ 12 ≤ 1 / 100 := by norm_num
      linarith
    have hlip := K_lipschitz_far l zn z (by linarith) hzlo
    have h1 : (9 : ℝ) / 10 * |z - zn| < 9 / 10 * (1 / 10 ^ 12) :=
      mul_lt_mul_of_pos_left hnear (by norm_num)
    have h2 : (9 : ℝ) / 10 * (1 / 10 ^ 12) + 1 / 10 ^ 13 = 1 / 10 ^ 12 := by norm_num
    linarith [hrow.2]

/-- large arguments, a little sharper than `K_large_error_numeric`: 31 e^{-32} < 5e-13 -/
theorem K_large_error_sharp (l : ℕ) (hl : l ≤ 15) (z : ℝ) (hz : 16 < z) :
    |K l z - largeAll (1 / (2 * z)) l| < 5 / 10 ^ 13 := by
  calc |K l z - largeAll (1 / (2 * z)) l|
      ≤ Real.exp (-32) * |largeAll (-(1 / (2 * z))) l| := K_large_error l z hz
    _ ≤ Real.exp (-32) * 31 := mul_le_mul_of_nonneg_left (largeAll_neg_abs_le l hl z hz) (Real.exp_pos _).le
    _ < 1 / (2.7 : ℝ) ^ 32 * 31 := mul_lt_mul_of_pos_right exp_neg_32_lt (by norm_num)
    _ < 5 / 10 ^ 13 := by norm_num

/-- small arguments, all-orders evaluator -/
theorem smallAll_error (l : ℕ) (z : ℝ) (hz0 : 0 < z) (hz1 : z < 1 / 10 ^ 7) :
    |K l z - smallAll z l| < 2 / 10 ^ 14 := by
  have hz1' : z ≤ 1 := by linarith [show (1 : ℝ) / 10 ^ 7 ≤ 1 by norm_num]
  refine lt_of_le_of_lt (K_small l z hz0.le hz1') ?_
  have h1 : z ^ (l + 2) = z ^ l * z ^ 2 := by ring
  have h2 : z ^ l ≤ 1 := pow_le_one₀ hz0.le hz1'
  have h3 : z ^ 2 < (1 / 10 ^ 7) ^ 2 := pow_lt_pow_left₀ hz1 hz0.le (by norm_num)
  have h4 : z ^ l * z ^ 2 ≤ 1 * z ^ 2 := mul_le_mul_of_nonneg_right h2 (by positivity)
  rw [h1]
  have h5 : ((1 : ℝ) / 10 ^ 7) ^ 2 * 2 = 2 / 10 ^ 14 := by norm_num
  linarith

theorem pow_small (L : ℕ) (hL : 2 ≤ L) (z : ℝ) (hz0 : 0 < z) (hz1 : z < 1 / 10 ^ 7) : z ^ L < 1 / 10 ^ 14 := by
  obtain ⟨k, rfl⟩ : ∃ k, L = k + 2 := ⟨L - 2, by omega⟩
  have hz1' : z ≤ 1 := by linarith [show (1 : ℝ) / 10 ^ 7 ≤ 1 by norm_num]
  have h1 : z ^ (k + 2) = z ^ k * z ^ 2 := by ring
  have h2 : z ^ k ≤ 1 := pow_le_one₀ hz0.le hz1'
  have h3 : z ^ 2 < (1 / 10 ^ 7) ^ 2 := pow_lt_pow_left₀ hz1 hz0.le (by norm_num)
  have h4 : z ^ k * z ^ 2 ≤ 1 * z ^ 2 := mul_le_mul_of_nonneg_right h2 (by positivity)
  have h5 : ((1 : ℝ) / 10 ^ 7) ^ 2 = 1 / 10 ^ 14 := by norm_num
  rw [h1]
  linarith

/-- small arguments, single-order evaluator: `(1 − z)(z/(2L+1))^L` is NOT the small-z expansion of K_L for L ≥ 2, but below
SMALL both it and K_L are far below the tolerance -/
theorem smallOne_error (L : ℕ) (z : ℝ) (hz0 : 0 < z) (hz1 : z < 1 / 10 ^ 7) :
    |K L z - smallOne z L| < 4 / 10 ^ 14 := by
  have hz1' : z ≤ 1 := by linarith [show (1 : ℝ) / 10 ^ 7 ≤ 1 by norm_num]
  have hA := smallAll_error L z hz0 hz1
  rcases Nat.lt_or_ge L 2 with hL | hL
  · have e : smallOne z L = smallAll z L := by
      rw [Ecpint.C14.smallOne_closed]
      interval_cases L
      · simp [smallAll]
      · simp only [smallAll]; norm_num; ring
    rw [e]
    linarith
  · have hp := pow_small L hL z hz0 hz1
    have hzL : 0 ≤ z ^ L := by positivity
    have h1z : 0 ≤ 1 - z := by linarith
    have h1z' : 1 - z ≤ 1 := by linarith
    have hAll0 : 0 ≤ smallAll z L := by
      rw [Ecpint.C14.smallAll_closed]
      have := dfac_pos (2 * L + 1)
      positivity
    have hAll1 : smallAll z L ≤ z ^ L := by
      rw [Ecpint.C14.smallAll_closed, div_le_iff₀ (dfac_pos (2 * L + 1))]
      have := dfac_ge_one (2 * L + 1)
      nlinarith
    have hOne0 : 0 ≤ smallOne z L := by
      rw [Ecpint.C14.smallOne_closed]
      positivity
    have hOne1 : smallOne z L ≤ z ^ L := by
      rw [Ecpint.C14.smallOne_closed]
      have hq : z / (2 * (L : ℝ) + 1) ≤ z := div_le_self hz0.le (by
        have : (0 : ℝ) ≤ (L : ℝ) := Nat.cast_nonneg L
        linarith)
      have hq' : (z / (2 * (L : ℝ) + 1)) ^ L ≤ z ^ L := pow_le_pow_left₀ (by positivity) hq L
      have hq0 : 0 ≤ (z / (2 * (L : ℝ) + 1)) ^ L := by positivity
      nlinarith
    have e : K L z - smallOne z L = (K L z - smallAll z L) + (smallAll z L - smallOne z L) := by ring
    rw [e]
    refine lt_of_le_of_lt (abs_add_le _ _) ?_
    have h2 : |smallAll z L - smallOne z L| ≤ z ^ L := by
      rw [abs_le]; constructor <;> linarith
    linarith

/-! ## Stage 5: the evaluators, end to end -/

/-- the threshold of the small-argument branch as the library has it -/
noncomputable def SMALL : ℝ := (Gen.SMALL_num : ℝ) / (Gen.SMALL_den : ℝ)

theorem SMALL_eq : SMALL = 1 / 10 ^ 7 := by
  simp only [SMALL, Gen.SMALL_num, Gen.SMALL_den]
  norm_num

/-- ALL-ORDERS EVALUATOR, end to end, exact arithmetic, constants as shipped: with the tables `build` makes (series accuracy
`acc` between 1e-15 and 1e-13 — the library passes 1e-15 —, lMax ≤ 3·MAX_L) and the small-argument threshold SMALL = 1e-7,
every entry l ≤ maxL ≤ lMax that `calculate(z, maxL, values)` writes is within 1e-12 of K_l(max z 0) = e^{-z} i_l(z) (the value
at 0 for z ≤ 0), for EVERY real z.  The worst branch is the `|dz| < 1e-12` shortcut, which returns the stored row of the node
instead of evaluating the Taylor sum (error up to ≈ 0.99e-12 next to the first nodes); all the others are below 5e-13 + 1.02·acc. -/
theorem calcAll_error (lMax : ℕ) (hlMax : lMax ≤ 3 * Gen.LIBECPINT_MAX_L) (acc : ℝ) (hacc : 1 / 10 ^ 15 ≤ acc)
    (hacc13 : acc ≤ 1 / 10 ^ 13) (z : ℝ) (maxL l : ℕ) (hl : l ≤ maxL) (hmax : maxL ≤ lMax) (init : Array ℝ)
    (hinit : maxL < init.size) :
    |(calcAll (build lMax Gen.BESSEL_N Gen.BESSEL_ORDER acc) SMALL z maxL init)[l]! - K l (max z 0)| < 1 / 10 ^ 12 := by
  have hacc7 : acc ≤ 1 / 10 ^ 7 := le_trans hacc13 (by norm_num)
  have hl15 : l ≤ 15 := by simp only [Gen.LIBECPINT_MAX_L] at hlMax; omega
  rcases le_or_gt z 0 with hz | hz
  · rw [calcAll_nonpos _ _ _ _ _ hz, setRange_get _ _ _ l hl hinit, max_eq_right hz, K_at_zero, sub_self, abs_zero]
    positivity
  · rw [max_eq_left hz.le]
    rcases lt_or_ge z SMALL with hs | hs
    · rw [calcAll_small _ _ _ _ _ hz hs, setRange_get _ _ _ l hl hinit, abs_sub_comm]
      rw [SMALL_eq] at hs
      have := smallAll_error l z hz hs
      have e : (2 : ℝ) / 10 ^ 14 < 1 / 10 ^ 12 := by norm_num
      linarith
    · rcases lt_or_ge 16 z with h16 | h16
      · rw [calcAll_large _ _ _ _ _ hz hs h16, setRange_get _ _ _ l hl hinit, abs_sub_comm]
        have := K_large_error_sharp l hl15 z h16
        have e : (5 : ℝ) / 10 ^ 13 < 1 / 10 ^ 12 := by norm_num
        linarith
      · have hs' : 1 / 10 ^ 7 ≤ z := by rw [← SMALL_eq]; exact hs
        by_cases hnear : |z - (tableIx (build lMax Gen.BESSEL_N Gen.BESSEL_ORDER acc) z : ℝ)
            / (build lMax Gen.BESSEL_N Gen.BESSEL_ORDER acc).scale| < 1 / 10 ^ 12
        · rw [calcAll_table_near _ _ _ _ _ hz hs h16 hnear, setRange_get _ _ _ l hl hinit, abs_sub_comm]
          exact table_near_error lMax hlMax acc hacc hacc13 z hs' h16 l (by omega) hnear
        · rw [calcAll_table_far _ _ _ _ _ hz hs h16 hnear, setRange_get _ _ _ l hl hinit, abs_sub_comm]
          have := table_far_error lMax hlMax acc hacc hacc7 z hz.le h16 l (by omega)
          simp only at this
          have e : (1 : ℝ) / 10 ^ 14 + 102 / 100 * (1 / 10 ^ 13) < 1 / 10 ^ 12 := by norm_num
          linarith

/-- what `calculate(z, maxL, values)` leaves alone: the entries above maxL, and the size -/
theorem calcAll_frame (T : Table ℝ) (small z : ℝ) (maxL : ℕ) (init : Array ℝ) :
    (calcAll T small z maxL init).size = init.size ∧ ∀ l, maxL < l → (calcAll T small z maxL init)[l]! = init[l]! := by
  unfold calcAll
  simp only
  split
  · exact ⟨setRange_size _ _ _, fun l hl => setRange_get_other _ _ _ l hl⟩
  · exact ⟨setRange_size _ _ _, fun l hl => setRange_get_other _ _ _ l hl⟩
  · exact ⟨setRange_size _ _ _, fun l hl => setRange_get_other _ _ _ l hl⟩
  · split
    · exact ⟨setRange_size _ _ _, fun l hl => setRange_get_other _ _ _ l hl⟩
    · exact ⟨setRange_size _ _ _, fun l hl => setRange_get_other _ _ _ l hl⟩

/-- SINGLE-ORDER EVALUATOR `calculate(z, L)`, end to end: within 5e-13 + 1.02·acc of K_L(max z 0), every real z, L ≤ lMax -/
theorem calcOne_error_gen (lMax : ℕ) (hlMax : lMax ≤ 3 * Gen.LIBECPINT_MAX_L) (acc : ℝ) (hacc : 1 / 10 ^ 15 ≤ acc)
    (hacc7 : acc ≤ 1 / 10 ^ 7) (z : ℝ) (L : ℕ) (hL : L ≤ lMax) :
    |calcOne (build lMax Gen.BESSEL_N Gen.BESSEL_ORDER acc) SMALL z L - K L (max z 0)|
      < 5 / 10 ^ 13 + 102 / 100 * acc := by
  have hacc0 : 0 < acc := lt_of_lt_of_le (by norm_num) hacc
  have hL15 : L ≤ 15 := by simp only [Gen.LIBECPINT_MAX_L] at hlMax; omega
  rcases le_or_gt z 0 with hz | hz
  · rw [calcOne_nonpos _ _ _ _ hz, max_eq_right hz, K_at_zero, sub_self, abs_zero]
    positivity
  · rw [max_eq_left hz.le]
    rcases lt_or_ge z SMALL with hs | hs
    · rw [calcOne_small _ _ _ _ hz hs, abs_sub_comm]
      rw [SMALL_eq] at hs
      have := smallOne_error L z hz hs
      have e : (4 : ℝ) / 10 ^ 14 < 5 / 10 ^ 13 := by norm_num
      linarith
    · rcases lt_or_ge 16 z with h16 | h16
      · rw [calcOne_large _ _ _ _ hz hs h16, abs_sub_comm, ← Ecpint.C14.largeAll_eq_largeOne]
        have := K_large_error_sharp L hL15 z h16
        linarith
      · rw [calcOne_table _ _ _ _ hz hs h16, abs_sub_comm]
        have := table_one_error lMax hlMax acc hacc hacc7 z hz.le h16 L hL
        simp only at this
        have e : (1 : ℝ) / 10 ^ 14 < 5 / 10 ^ 13 := by norm_num
        linarith

theorem calcOne_error (lMax : ℕ) (hlMax : lMax ≤ 3 * Gen.LIBECPINT_MAX_L) (acc : ℝ) (hacc : 1 / 10 ^ 15 ≤ acc)
    (hacc13 : acc ≤ 1 / 10 ^ 13) (z : ℝ) (L : ℕ) (hL : L ≤ lMax) :
    |calcOne (build lMax Gen.BESSEL_N Gen.BESSEL_ORDER acc) SMALL z L - K L (max z 0)| < 1 / 10 ^ 12 := by
  have := calcOne_error_gen lMax hlMax acc hacc (le_trans hacc13 (by norm_num)) z L hL
  have e : (5 : ℝ) / 10 ^ 13 + 102 / 100 * (1 / 10 ^ 13) < 1 / 10 ^ 12 := by norm_num
  linarith

/-- the two evaluators agree to 2e-12 on every order both can produce, every real z -/
theorem evaluators_agree (lMax : ℕ) (hlMax : lMax ≤ 3 * Gen.LIBECPINT_MAX_L) (acc : ℝ) (hacc : 1 / 10 ^ 15 ≤ acc)
    (hacc13 : acc ≤ 1 / 10 ^ 13) (z : ℝ) (maxL l : ℕ) (hl : l ≤ maxL) (hmax : maxL ≤ lMax) (init : Array ℝ)
    (hinit : maxL < init.size) :
    |(calcAll (build lMax Gen.BESSEL_N Gen.BESSEL_ORDER acc) SMALL z maxL init)[l]!
      - calcOne (build lMax Gen.BESSEL_N Gen.BESSEL_ORDER acc) SMALL z l| < 2 / 10 ^ 12 := by
  have h1 := calcAll_error lMax hlMax acc hacc hacc13 z maxL l hl hmax init hinit
  have h2 := calcOne_error_gen lMax hlMax acc hacc (le_trans hacc13 (by norm_num)) z l (by omega)
  rw [abs_sub_comm] at h2
  have h3 := abs_sub_le ((calcAll (build lMax Gen.BESSEL_N Gen.BESSEL_ORDER acc) SMALL z maxL init)[l]!) (K l (max z 0))
    (calcOne (build lMax Gen.BESSEL_N Gen.BESSEL_ORDER acc) SMALL z l)
  have e : (1 : ℝ) / 10 ^ 12 + (5 / 10 ^ 13 + 102 / 100 * (1 / 10 ^ 13)) < 2 / 10 ^ 12 := by norm_num
  linarith

/-- outside the small-argument branch and the `|dz| < 1e-12` shortcut the two evaluators return the SAME real number -/
theorem evaluators_equal (T : Table ℝ) (small z : ℝ) (maxL l : ℕ) (hl : l ≤ maxL) (init : Array ℝ) (hinit : maxL < init.size)
    (hz : z ≤ 0 ∨ (small ≤ z ∧ (16 < z ∨ ¬ |z - (tableIx T z : ℝ) / T.scale| < 1 / 10 ^ 12))) :
    (calcAll T small z maxL init)[l]! = calcOne T small z l := by
  rcases hz with hz | ⟨hs, hz⟩
  · rw [calcAll_nonpos _ _ _ _ _ hz, setRange_get _ _ _ l hl hinit, calcOne_nonpos _ _ _ _ hz]
  · rcases lt_or_ge 16 z with h16 | h16
    · have h0 : 0 < z := by linarith
      rw [calcAll_large _ _ _ _ _ h0 hs h16, setRange_get _ _ _ l hl hinit, calcOne_large _ _ _ _ h0 hs h16,
        Ecpint.C14.largeAll_eq_largeOne]
    · rcases hz with hz | hz
      · linarith
      · by_cases h0 : 0 < z
        · rw [calcAll_table_far _ _ _ _ _ h0 hs h16 hz, setRange_get _ _ _ l hl hinit, calcOne_table _ _ _ _ h0 hs h16,
            Ecpint.C14.taylorAll_eq_taylorOne]
        · have h0' : z ≤ 0 := not_lt.mp h0
          rw [calcAll_nonpos _ _ _ _ _ h0', setRange_get _ _ _ l hl hinit, calcOne_nonpos _ _ _ _ h0']

/-! ## Stage 6: `upper_bound(z, L)` is a table entry, and not an upper bound -/

/-- what `upper_bound` returns: entry `min L lMax` of the stored row `min N (max [L>0] ⌊N z/16⌋)` -/
theorem upperBound_eq (lMax N order : ℕ) (acc z : ℝ) (L : ℕ) :
    upperBound (build lMax N order acc) z L =
      ((build lMax N order acc).K[min N (max (if L > 0 then 1 else 0) ⌊(N : ℝ) * z / 16⌋₊)]!)[min L lMax]! := by
  rfl

/-- … for the shipped constants: it is the truncated series of K_lx at the node z_ix = ix/100, below K_lx(z_ix) by less
than the series accuracy -/
theorem upperBound_spec (lMax : ℕ) (hlMax : lMax ≤ 3 * Gen.LIBECPINT_MAX_L) (acc : ℝ) (hacc : 1 / 10 ^ 15 ≤ acc)
    (hacc7 : acc ≤ 1 / 10 ^ 7) (z : ℝ) (L : ℕ) :
    let ix := min Gen.BESSEL_N (max (if L > 0 then 1 else 0) ⌊(Gen.BESSEL_N : ℝ) * z / 16⌋₊)
    let lx := min L lMax
    let u := upperBound (build lMax Gen.BESSEL_N Gen.BESSEL_ORDER acc) z L
    u = (tabulateRow (dfacTable (α := ℝ) Gen.MAX_DFAC) Gen.BESSEL_N Gen.BESSEL_ORDER (lMax + Gen.TAYLOR_CUT) acc ix)[lx]! ∧
    0 ≤ K lx ((ix : ℝ) / ((Gen.BESSEL_N : ℝ) / 16)) - u ∧ K lx ((ix : ℝ) / ((Gen.BESSEL_N : ℝ) / 16)) - u < acc := by
  intro ix lx u
  have hix : ix ≤ Gen.BESSEL_N := min_le_left _ _
  have hu : u = (tabulateRow (dfacTable (α := ℝ) Gen.MAX_DFAC) Gen.BESSEL_N Gen.BESSEL_ORDER (lMax + Gen.TAYLOR_CUT) acc ix)[lx]! := by
    show upperBound _ z L = _
    rw [upperBound_eq, build_K_get _ _ _ _ _ hix]
  refine ⟨hu, ?_⟩
  rw [hu]
  have hlx : lx ≤ lMax := min_le_right _ _
  exact stored_row_error ix hix acc (acc_lower acc hacc) hacc7 (lMax + Gen.TAYLOR_CUT) (by omega) lx (by omega)

/-- the node of that row is at or below z (for 0 ≤ z ≤ 16 and, if L > 0, z ≥ 0.01) -/
theorem upperBound_node_le (z : ℝ) (hz : 0 ≤ z) : (⌊(Gen.BESSEL_N : ℝ) * z / 16⌋₊ : ℝ) / ((Gen.BESSEL_N : ℝ) / 16) ≤ z := by
  have h := Nat.floor_le (a := (Gen.BESSEL_N : ℝ) * z / 16) (by positivity)
  rw [div_le_iff₀ (by simp [Gen.BESSEL_N])]
  linarith

/-- NOT an upper bound: at z = 0.015, L = 1 the row used is the node 0.01 below z, and K_1 is increasing there:
upper_bound(0.015, 1) ≤ K_1(0.01) ≤ 0.003302 < 0.004918 ≤ K_1(0.015) -/
theorem upperBound_not_upper (lMax : ℕ) (h1 : 1 ≤ lMax) (hlMax : lMax ≤ 3 * Gen.LIBECPINT_MAX_L) (acc : ℝ)
    (hacc : 1 / 10 ^ 15 ≤ acc) (hacc7 : acc ≤ 1 / 10 ^ 7) :
    upperBound (build lMax Gen.BESSEL_N Gen.BESSEL_ORDER acc) (3 / 200) 1 < K 1 (3 / 200) := by
  obtain ⟨-, hlo, -⟩ := upperBound_spec lMax hlMax acc hacc hacc7 (3 / 200) 1
  have hfl : ⌊(Gen.BESSEL_N : ℝ) * (3 / 200) / 16⌋₊ = 1 := by
    rw [Nat.floor_eq_iff (by simp only [Gen.BESSEL_N]; norm_num)]
    simp only [Gen.BESSEL_N]
    norm_num
  have hix : min Gen.BESSEL_N (max (if 1 > 0 then 1 else 0) ⌊(Gen.BESSEL_N : ℝ) * (3 / 200) / 16⌋₊) = 1 := by
    rw [hfl]; decide
  have hlx : min 1 lMax = 1 := min_eq_left h1
  rw [hix, hlx] at hlo
  have hnode : ((1 : ℕ) : ℝ) / ((Gen.BESSEL_N : ℝ) / 16) = 1 / 100 := by
    simp only [Gen.BESSEL_N]; norm_num
  rw [hnode] at hlo
  have hs1 : ∀ x : ℝ, smallAll x 1 = (1 - x) * x / 3 := by
    intro x; simp only [smallAll]; norm_num
  have ha := (abs_le.mp (K_small 1 (1 / 100) (by norm_num) (by norm_num))).2
  have hb := (abs_le.mp (K_small 1 (3 / 200) (by norm_num) (by norm_num))).1
  rw [hs1] at ha hb
  norm_num at ha hb
  linarith

theorem upperBound_not_upper_exists (lMax : ℕ) (h1 : 1 ≤ lMax) (hlMax : lMax ≤ 3 * Gen.LIBECPINT_MAX_L) (acc : ℝ)
    (hacc : 1 / 10 ^ 15 ≤ acc) (hacc7 : acc ≤ 1 / 10 ^ 7) :
    ∃ (z : ℝ) (L : ℕ), 0 < z ∧ z ≤ 16 ∧ L ≤ lMax ∧
      upperBound (build lMax Gen.BESSEL_N Gen.BESSEL_ORDER acc) z L < K L z :=
  ⟨3 / 200, 1, by norm_num, by norm_num, h1, upperBound_not_upper lMax h1 hlMax acc hacc hacc7⟩

end Ecpint.C14f
