/- C06 — root of the property's theorems:
   C06   the three paths of a primitive; inactive-screen theorems down the call tree; budget lemma; threshold budget
   C06b  the shell-pair screen is exactly "restrict the computation to the l whose estimate exceeds the tolerance" -/
import Ecpint.Props.C06
import Ecpint.Props.C06b
