/- C08 (part b) — reflection covariance of the angular contractions.  Reflecting all centres through the coordinate plane
   ⊥ axis q (x_q ↦ −x_q) multiplies the element for Cartesian components ca, cb by (−1)^(e_q ca + e_q cb).
   Stage 1 (any commutative ring): `rolledUpBlock_reflect`, `rolledUpSpecialBlock_reflect`, `type1Entry_reflect` from the
     selection rule of the angular table (hΩ), the signed harmonics (hS) and the signed binomial tables (hC);
     (hC) itself: `calcC_neg`, `cProd_reflect`, `cAt_makeCTab` / `cAt_makeCTab_reflect`.
   Stage 2 (ℝ): the sign `sigR q lam idx` of the model's harmonic polynomials (`Sidx_reflect`), and the selection rules of
     the model's own tables `wEntry_rule`, `omegaEntry_rule` (from C13e: every entry is a sphere integral).
   Stage 3 (ℝ): `model_*_reflect`, `rolledUp_reflect`, `rolledUpSpecial_reflect` (pipeline functions of Model/ShellPair.lean).
   Stage 4 (ℝ): (hS) for harmonics defined as the polynomials (`harmTable_reflect`) and for the model's evaluator
     `Angular.rsh` itself (`rsh_rel`, `rsh_pole`, `rsh_reflect_dir`); assembled: `rolledUp_reflect_rsh`,
     `rolledUpSpecial_reflect_rsh`.
   Definitions: Ecpint/Model/Contraction.lean, Model/Angular.lean, Model/ShellPair.lean. -/
import Ecpint.Model.Contraction
import Ecpint.Props.C07
import Ecpint.Props.C09
import Ecpint.Props.C01a
import Ecpint.Props.C01d
import Ecpint.Props.C13e
import Mathlib.Tactic.Ring
import Mathlib.Tactic.LinearCombination
namespace Ecpint.C08b
open Ecpint.Contraction Ecpint.ContractionLemmas

section Stage1
variable {K : Type} [CommRing K]

/-- the q-th component of a triple (q = 0, 1, anything else: x, y, z) -/
def ecomp (q : Nat) (c : Nat × Nat × Nat) : Nat := if q = 0 then c.1 else if q = 1 then c.2.1 else c.2.2

/-- `calcC(a, m, −A) = (−1)^(a−m) calcC(a, m, A)` for any power routine that is odd/even in the usual way -/
theorem calcC_neg_of_pw [Div K] (fac : Array K) (pw : K → Nat → K) (hpw : ∀ x n, pw (-x) n = (-1) ^ n * pw x n)
    (a m : Nat) (A : K) :
    calcC fac pw a m (-A) = (-1) ^ (a - m) * calcC fac pw a m A := by
  unfold calcC
  simp only []
  rw [hpw]
  ring

/-- … in particular for the honest power -/
theorem calcC_neg [Div K] (fac : Array K) (a m : Nat) (A : K) :
    calcC fac (fun x n => x ^ n) a m (-A) = (-1) ^ (a - m) * calcC fac (fun x n => x ^ n) a m A :=
  calcC_neg_of_pw fac _ (fun x n => neg_pow x n) a m A

/-! ### Stage 1: the three contractions, over any commutative ring -/

theorem ecomp_le {q : Nat} {a c : Nat × Nat × Nat} (h : a ∈ subIdx c) : ecomp q a ≤ ecomp q c := by
  have := (Ecpint.C01.subIdx_mem c a).mp h
  unfold ecomp
  split_ifs <;> omega

theorem tsum_le {a c : Nat × Nat × Nat} (h : a ∈ subIdx c) : Contraction.tsum a ≤ tsum c := by
  have := (Ecpint.C01.subIdx_mem c a).mp h
  unfold Contraction.tsum
  omega

theorem ecomp_add (q k1 l1 m1 k2 l2 m2 : Nat) :
    ecomp q (k1 + k2, l1 + l2, m1 + m2) = ecomp q (k1, l1, m1) + ecomp q (k2, l2, m2) := by
  unfold ecomp
  split_ifs <;> rfl

/-- a test that does not see the sign of its argument does not see a factor (−1)^n -/
theorem keep_sign (keep : K → Bool) (hkeep : ∀ x, keep (-x) = keep x) (n : Nat) (x : K) :
    keep ((-1) ^ n * x) = keep x := by
  rcases neg_one_pow_eq_or K n with h | h
  · rw [h, one_mul]
  · rw [h, neg_one_mul, hkeep]

/-- the contracted angular factor of `rolled_up`, fed the harmonics of the reflected direction -/
theorem wContr_reflect (omega : Nat → Nat → Nat → Nat → Nat → Nat → Nat → K) (lam : Nat) (σ : Nat → Nat → K)
    (hσ : ∀ l m, σ l m * σ l m = 1) (q : Nat) (S S' : Array (Array K)) (a : Nat × Nat × Nat) (lam1 mi : Nat)
    (hΩ : ∀ m1, m1 < 2 * lam1 + 1 → omega a.1 a.2.1 a.2.2 lam mi lam1 m1
      = (-1) ^ (ecomp q a) * σ lam mi * σ lam1 m1 * omega a.1 a.2.1 a.2.2 lam mi lam1 m1)
    (hS : ∀ m1, m1 < 2 * lam1 + 1 → get2 S' lam1 m1 = σ lam1 m1 * get2 S lam1 m1) :
    wContr omega lam S' a lam1 mi = (-1) ^ (ecomp q a) * σ lam mi * wContr omega lam S a lam1 mi := by
  rw [Ecpint.C09.wContr_eq_sum, Ecpint.C09.wContr_eq_sum, ← List.sum_map_mul_left]
  refine sum_map_congr _ _ _ (fun m1 hm1 => ?_)
  have hm : m1 < 2 * lam1 + 1 := List.mem_range.mp hm1
  rw [hS m1 hm]
  have h := hΩ m1 hm
  have h2 := hσ lam1 m1
  generalize omega a.1 a.2.1 a.2.2 lam mi lam1 m1 = w at h ⊢
  generalize (-1 : K) ^ (ecomp q a) = s at h ⊢
  linear_combination (σ lam1 m1 * get2 S lam1 m1) * h + (s * σ lam mi * get2 S lam1 m1 * w) * h2

theorem neg_one_pow_sub_mul {a c : Nat} (h : a ≤ c) : (-1 : K) ^ (c - a) * (-1) ^ a = (-1) ^ c := by
  rw [← pow_add, Nat.sub_add_cancel h]

/-- **type 2, general position, explicit-sum form**: reflected data give the signed sum -/
theorem rolledUpSum_reflect (omega : Nat → Nat → Nat → Nat → Nat → Nat → Nat → K) (keep : K → Bool)
    (hkeep : ∀ x, keep (-x) = keep x) (prefac : K) (lam : Nat) (radials : Nat → Nat → Nat → K)
    (CAna CBnb CAna' CBnb' : Nat → Nat → Nat → K) (SA SB SA' SB' : Array (Array K)) (ca cb : Nat × Nat × Nat)
    (q : Nat) (σ : Nat → Nat → K) (hσ : ∀ l m, σ l m * σ l m = 1) (D : Nat) (hDa : Contraction.tsum ca ≤ D) (hDb : Contraction.tsum cb ≤ D)
    (hΩ : ∀ k l m mi lam1 m1, k + l + m ≤ D → mi < 2 * lam + 1 → lam1 ≤ lam + (k + l + m) → m1 < 2 * lam1 + 1 →
      omega k l m lam mi lam1 m1 = (-1) ^ (ecomp q (k, l, m)) * σ lam mi * σ lam1 m1 * omega k l m lam mi lam1 m1)
    (hSA : ∀ l m, l ≤ lam + Contraction.tsum ca → m < 2 * l + 1 → get2 SA' l m = σ l m * get2 SA l m)
    (hSB : ∀ l m, l ≤ lam + Contraction.tsum cb → m < 2 * l + 1 → get2 SB' l m = σ l m * get2 SB l m)
    (hCA : ∀ k l m, (k, l, m) ∈ subIdx ca → CAna' k l m = (-1) ^ (ecomp q ca - ecomp q (k, l, m)) * CAna k l m)
    (hCB : ∀ k l m, (k, l, m) ∈ subIdx cb → CBnb' k l m = (-1) ^ (ecomp q cb - ecomp q (k, l, m)) * CBnb k l m)
    (mi : Nat) (hmi : mi < 2 * lam + 1) :
    C07.rolledUpSum omega keep prefac lam radials CAna' CBnb' SA' SB' ca cb mi
      = (-1) ^ (ecomp q ca + ecomp q cb) * C07.rolledUpSum omega keep prefac lam radials CAna CBnb SA SB ca cb mi := by
  unfold C07.rolledUpSum
  dsimp only
  rw [← List.sum_map_mul_left]
  refine sum_map_congr _ _ _ (fun a ha => ?_)
  rw [← List.sum_map_mul_left]
  refine sum_map_congr _ _ _ (fun b hb => ?_)
  have hta := tsum_le ha
  have htb := tsum_le hb
  have hea : ecomp q a ≤ ecomp q ca := ecomp_le ha
  have heb : ecomp q b ≤ ecomp q cb := ecomp_le hb
  have hC : CAna' a.1 a.2.1 a.2.2 * CBnb' b.1 b.2.1 b.2.2
      = (-1) ^ (ecomp q ca - ecomp q a + (ecomp q cb - ecomp q b)) * (CAna a.1 a.2.1 a.2.2 * CBnb b.1 b.2.1 b.2.2) := by
    rw [hCA a.1 a.2.1 a.2.2 ha, hCB b.1 b.2.1 b.2.2 hb, pow_add]
    ring
  rw [hC, keep_sign keep hkeep]
  split
  · rw [← List.sum_map_mul_left]
    refine sum_map_congr _ _ _ (fun lam1 h1 => ?_)
    rw [← List.sum_map_mul_left]
    refine sum_map_congr _ _ _ (fun lam2 h2 => ?_)
    have h1' : lam1 < lam + Contraction.tsum a + 1 := List.mem_range.mp h1
    have h2' : lam2 ≤ lam + Contraction.tsum b := (mem_parityRange.mp h2).1
    rw [wContr_reflect omega lam σ hσ q SA SA' a lam1 mi
        (fun m1 hm1 => hΩ a.1 a.2.1 a.2.2 mi lam1 m1 (by unfold Contraction.tsum at hta hDa; omega) hmi
          (by unfold Contraction.tsum at h1'; omega) hm1)
        (fun m1 hm1 => hSA lam1 m1 (by omega) hm1),
      wContr_reflect omega lam σ hσ q SB SB' b lam2 mi
        (fun m1 hm1 => hΩ b.1 b.2.1 b.2.2 mi lam2 m1 (by unfold Contraction.tsum at htb hDb; omega) hmi
          (by unfold Contraction.tsum at h2'; omega) hm1)
        (fun m1 hm1 => hSB lam2 m1 (by omega) hm1)]
    have hx := neg_one_pow_sub_mul (K := K) hea
    have hy := neg_one_pow_sub_mul (K := K) heb
    have h0 := hσ lam mi
    rw [pow_add, pow_add]
    generalize (-1 : K) ^ (ecomp q ca - ecomp q a) = x at hx ⊢
    generalize (-1 : K) ^ (ecomp q cb - ecomp q b) = x' at hy ⊢
    generalize (-1 : K) ^ (ecomp q a) = y at hx ⊢
    generalize (-1 : K) ^ (ecomp q b) = y' at hy ⊢
    generalize (-1 : K) ^ (ecomp q ca) = X at hx ⊢
    generalize (-1 : K) ^ (ecomp q cb) = X' at hy ⊢
    generalize wContr omega lam SA a lam1 mi = wA
    generalize wContr omega lam SB b lam2 mi = wB
    generalize radials (Contraction.tsum a + Contraction.tsum b) lam1 lam2 = R
    generalize CAna a.1 a.2.1 a.2.2 = cA
    generalize CBnb b.1 b.2.1 b.2.2 = cB
    generalize σ lam mi = s0 at h0 ⊢
    linear_combination (prefac * cA * cB * R * wA * wB * x' * y' * s0 ^ 2) * hx
      + (prefac * cA * cB * R * wA * wB * X * s0 ^ 2) * hy + (prefac * cA * cB * R * wA * wB * X * X') * h0
  · rw [mul_zero]

/-- **C08, semi-local part, general position**: the block computed from the reflected data (binomial tables of the
reflected centres, harmonics of the reflected directions; radial integrals unchanged) is the original block with every
entry multiplied by (−1)^(e_q ca + e_q cb) -/
theorem rolledUpBlock_reflect (omega : Nat → Nat → Nat → Nat → Nat → Nat → Nat → K) (keep : K → Bool)
    (hkeep : ∀ x, keep (-x) = keep x) (prefac : K) (lam : Nat) (radials : Nat → Nat → Nat → K)
    (CAna CBnb CAna' CBnb' : Nat → Nat → Nat → K) (SA SB SA' SB' : Array (Array K)) (ca cb : Nat × Nat × Nat)
    (q : Nat) (σ : Nat → Nat → K) (hσ : ∀ l m, σ l m * σ l m = 1) (D : Nat)
    (hDa : Contraction.tsum ca ≤ D) (hDb : Contraction.tsum cb ≤ D)
    (hΩ : ∀ k l m mi lam1 m1, k + l + m ≤ D → mi < 2 * lam + 1 → lam1 ≤ lam + (k + l + m) → m1 < 2 * lam1 + 1 →
      omega k l m lam mi lam1 m1 = (-1) ^ (ecomp q (k, l, m)) * σ lam mi * σ lam1 m1 * omega k l m lam mi lam1 m1)
    (hSA : ∀ l m, l ≤ lam + Contraction.tsum ca → m < 2 * l + 1 → get2 SA' l m = σ l m * get2 SA l m)
    (hSB : ∀ l m, l ≤ lam + Contraction.tsum cb → m < 2 * l + 1 → get2 SB' l m = σ l m * get2 SB l m)
    (hCA : ∀ k l m, (k, l, m) ∈ subIdx ca → CAna' k l m = (-1) ^ (ecomp q ca - ecomp q (k, l, m)) * CAna k l m)
    (hCB : ∀ k l m, (k, l, m) ∈ subIdx cb → CBnb' k l m = (-1) ^ (ecomp q cb - ecomp q (k, l, m)) * CBnb k l m) :
    (rolledUpBlock omega keep prefac lam radials CAna' CBnb' SA' SB' ca cb).size
        = (rolledUpBlock omega keep prefac lam radials CAna CBnb SA SB ca cb).size ∧
    ∀ mi, (rolledUpBlock omega keep prefac lam radials CAna' CBnb' SA' SB' ca cb).getD mi 0
      = (-1) ^ (ecomp q ca + ecomp q cb)
          * (rolledUpBlock omega keep prefac lam radials CAna CBnb SA SB ca cb).getD mi 0 := by
  refine ⟨by rw [C07.rolledUpBlock_size, C07.rolledUpBlock_size], fun mi => ?_⟩
  by_cases hmi : mi < 2 * lam + 1
  · rw [C07.rolledUpBlock_getD _ _ _ _ _ _ _ _ _ _ _ _ hmi, C07.rolledUpBlock_getD _ _ _ _ _ _ _ _ _ _ _ _ hmi]
    exact rolledUpSum_reflect omega keep hkeep prefac lam radials CAna CBnb CAna' CBnb' SA SB SA' SB' ca cb q σ hσ D
      hDa hDb hΩ hSA hSB hCA hCB mi hmi
  · have h1 : ¬ mi < (rolledUpBlock omega keep prefac lam radials CAna' CBnb' SA' SB' ca cb).size := by
      rw [C07.rolledUpBlock_size]; exact hmi
    have h2 : ¬ mi < (rolledUpBlock omega keep prefac lam radials CAna CBnb SA SB ca cb).size := by
      rw [C07.rolledUpBlock_size]; exact hmi
    simp only [Array.getD, h1, h2, dite_false, mul_zero]

/-- **type 2, shell A on the ECP centre, explicit-sum form**.  Only CB and SB change; the parity of `ca` comes out of
the selection rule for the factor omega(ca; lam, mi; 0, 0) (S_00 is a constant: σ 0 0 = 1) -/
theorem rolledUpSpecialSum_reflect (omega : Nat → Nat → Nat → Nat → Nat → Nat → Nat → K) (keep : K → Bool)
    (hkeep : ∀ x, keep (-x) = keep x) (prefac : K) (lam : Nat) (radials : Nat → Nat → Nat → K)
    (CBnb CBnb' : Nat → Nat → Nat → K) (SB SB' : Array (Array K)) (ca cb : Nat × Nat × Nat)
    (q : Nat) (σ : Nat → Nat → K) (hσ : ∀ l m, σ l m * σ l m = 1) (hσ0 : σ 0 0 = 1) (D : Nat)
    (hDa : Contraction.tsum ca ≤ D) (hDb : Contraction.tsum cb ≤ D)
    (hΩ : ∀ k l m mi lam1 m1, k + l + m ≤ D → mi < 2 * lam + 1 → lam1 ≤ lam + (k + l + m) → m1 < 2 * lam1 + 1 →
      omega k l m lam mi lam1 m1 = (-1) ^ (ecomp q (k, l, m)) * σ lam mi * σ lam1 m1 * omega k l m lam mi lam1 m1)
    (hSB : ∀ l m, l ≤ lam + Contraction.tsum cb → m < 2 * l + 1 → get2 SB' l m = σ l m * get2 SB l m)
    (hCB : ∀ k l m, (k, l, m) ∈ subIdx cb → CBnb' k l m = (-1) ^ (ecomp q cb - ecomp q (k, l, m)) * CBnb k l m)
    (mi : Nat) (hmi : mi < 2 * lam + 1) :
    C01.rolledUpSpecialSum omega keep prefac lam radials CBnb' SB' ca cb mi
      = (-1) ^ (ecomp q ca + ecomp q cb) * C01.rolledUpSpecialSum omega keep prefac lam radials CBnb SB ca cb mi := by
  unfold C01.rolledUpSpecialSum
  dsimp only
  rw [← List.sum_map_mul_left]
  refine sum_map_congr _ _ _ (fun b hb => ?_)
  have htb := tsum_le hb
  have heb : ecomp q b ≤ ecomp q cb := ecomp_le hb
  rw [hCB b.1 b.2.1 b.2.2 hb, keep_sign keep hkeep]
  split
  · rw [← List.sum_map_mul_left]
    refine sum_map_congr _ _ _ (fun lam2 h2 => ?_)
    rw [← List.sum_map_mul_left]
    refine sum_map_congr _ _ _ (fun m2 hm2 => ?_)
    have h2' : lam2 ≤ lam + Contraction.tsum b := (mem_parityRange.mp h2).1
    have hm2' : m2 < 2 * lam2 + 1 := List.mem_range.mp hm2
    rw [hSB lam2 m2 (by omega) hm2']
    have ha := hΩ ca.1 ca.2.1 ca.2.2 mi 0 0 (by unfold Contraction.tsum at hDa; omega) hmi (by omega) (by omega)
    have hb' := hΩ b.1 b.2.1 b.2.2 mi lam2 m2 (by unfold Contraction.tsum at htb hDb; omega) hmi
      (by unfold Contraction.tsum at h2'; omega) hm2'
    rw [hσ0, mul_one] at ha
    have hy := neg_one_pow_sub_mul (K := K) heb
    have h0 := hσ lam mi
    have h2s := hσ lam2 m2
    rw [pow_add]
    generalize (-1 : K) ^ (ecomp q cb - ecomp q b) = x' at hy ⊢
    generalize (-1 : K) ^ (ecomp q (b.1, b.2.1, b.2.2)) = y' at hy hb' ⊢
    generalize (-1 : K) ^ (ecomp q (ca.1, ca.2.1, ca.2.2)) = X at ha ⊢
    generalize (-1 : K) ^ (ecomp q cb) = X' at hy ⊢
    generalize omega ca.1 ca.2.1 ca.2.2 lam mi 0 0 = wa at ha ⊢
    generalize omega b.1 b.2.1 b.2.2 lam mi lam2 m2 = wb at hb' ⊢
    generalize radials (Contraction.tsum ca + Contraction.tsum b) 0 lam2 = R
    generalize CBnb b.1 b.2.1 b.2.2 = cB
    generalize get2 SB lam2 m2 = sB
    generalize σ lam mi = s0 at h0 ha hb' ⊢
    generalize σ lam2 m2 = s2 at h2s hb' ⊢
    linear_combination (prefac * cB * R * sB * x' * s2 * wb) * ha
      + (prefac * cB * R * sB * x' * s2 * X * s0 * wa) * hb'
      + (prefac * cB * R * sB * X * wa * wb * s0 ^ 2 * s2 ^ 2) * hy
      + (prefac * cB * R * sB * X * wa * wb * X' * s2 ^ 2) * h0
      + (prefac * cB * R * sB * X * wa * wb * X') * h2s
  · rw [mul_zero]

/-- **C08, semi-local part, shell A on the ECP centre**: same sign (−1)^(e_q ca + e_q cb) -/
theorem rolledUpSpecialBlock_reflect (omega : Nat → Nat → Nat → Nat → Nat → Nat → Nat → K) (keep : K → Bool)
    (hkeep : ∀ x, keep (-x) = keep x) (prefac : K) (lam : Nat) (radials : Nat → Nat → Nat → K)
    (CBnb CBnb' : Nat → Nat → Nat → K) (SB SB' : Array (Array K)) (ca cb : Nat × Nat × Nat)
    (q : Nat) (σ : Nat → Nat → K) (hσ : ∀ l m, σ l m * σ l m = 1) (hσ0 : σ 0 0 = 1) (D : Nat)
    (hDa : Contraction.tsum ca ≤ D) (hDb : Contraction.tsum cb ≤ D)
    (hΩ : ∀ k l m mi lam1 m1, k + l + m ≤ D → mi < 2 * lam + 1 → lam1 ≤ lam + (k + l + m) → m1 < 2 * lam1 + 1 →
      omega k l m lam mi lam1 m1 = (-1) ^ (ecomp q (k, l, m)) * σ lam mi * σ lam1 m1 * omega k l m lam mi lam1 m1)
    (hSB : ∀ l m, l ≤ lam + Contraction.tsum cb → m < 2 * l + 1 → get2 SB' l m = σ l m * get2 SB l m)
    (hCB : ∀ k l m, (k, l, m) ∈ subIdx cb → CBnb' k l m = (-1) ^ (ecomp q cb - ecomp q (k, l, m)) * CBnb k l m) :
    (rolledUpSpecialBlock omega keep prefac lam radials CBnb' SB' ca cb).size
        = (rolledUpSpecialBlock omega keep prefac lam radials CBnb SB ca cb).size ∧
    ∀ mi, (rolledUpSpecialBlock omega keep prefac lam radials CBnb' SB' ca cb).getD mi 0
      = (-1) ^ (ecomp q ca + ecomp q cb)
          * (rolledUpSpecialBlock omega keep prefac lam radials CBnb SB ca cb).getD mi 0 := by
  refine ⟨by rw [C01.rolledUpSpecialBlock_size, C01.rolledUpSpecialBlock_size], fun mi => ?_⟩
  by_cases hmi : mi < 2 * lam + 1
  · rw [C01.rolledUpSpecialBlock_getD _ _ _ _ _ _ _ _ _ _ hmi, C01.rolledUpSpecialBlock_getD _ _ _ _ _ _ _ _ _ _ hmi]
    exact rolledUpSpecialSum_reflect omega keep hkeep prefac lam radials CBnb CBnb' SB SB' ca cb q σ hσ hσ0 D
      hDa hDb hΩ hSB hCB mi hmi
  · have h1 : ¬ mi < (rolledUpSpecialBlock omega keep prefac lam radials CBnb' SB' ca cb).size := by
      rw [C01.rolledUpSpecialBlock_size]; exact hmi
    have h2 : ¬ mi < (rolledUpSpecialBlock omega keep prefac lam radials CBnb SB ca cb).size := by
      rw [C01.rolledUpSpecialBlock_size]; exact hmi
    simp only [Array.getD, h1, h2, dite_false, mul_zero]

/-- the contribution of one binomial shift to the type-1 element: the coefficient carries the sign `s`, the table W
obeys the selection rule with one σ, the radial factor contains the harmonic of the combined direction -/
theorem type1Term_reflect (W : Nat → Nat → Nat → Nat → Nat → K) (keep : K → Bool) (hkeep : ∀ x, keep (-x) = keep x)
    (radials radials' : Nat → Nat → Nat → K) (q : Nat) (σ : Nat → Nat → K) (hσ : ∀ l m, σ l m * σ l m = 1)
    (k l m : Nat)
    (hW : ∀ lam idx, lam ≤ k + l + m → idx < 2 * lam + 1 →
      W k l m lam idx = (-1) ^ (ecomp q (k, l, m)) * σ lam idx * W k l m lam idx)
    (hR : ∀ lam idx, lam ≤ k + l + m → idx < 2 * lam + 1 →
      radials' (k + l + m) lam idx = σ lam idx * radials (k + l + m) lam idx)
    (n : Nat) (C : K) :
    C07.type1Term W keep radials' k l m ((-1) ^ n * C)
      = (-1) ^ (n + ecomp q (k, l, m)) * C07.type1Term W keep radials k l m C := by
  unfold C07.type1Term
  rw [keep_sign keep hkeep]
  split
  · rw [← List.sum_map_mul_left]
    refine sum_map_congr _ _ _ (fun lam hlam => ?_)
    rw [← List.sum_map_mul_left]
    refine sum_map_congr _ _ _ (fun mu hmu => ?_)
    have h1 : lam ≤ k + l + m := (mem_parityRange.mp hlam).1
    have h2 : mu ≤ lam := (mem_parityRange.mp hmu).1
    have h3 : (if l % 2 = 1 then lam - mu else lam + mu) < 2 * lam + 1 := by split_ifs <;> omega
    generalize (if l % 2 = 1 then lam - mu else lam + mu) = idx at h3 ⊢
    rw [hR lam idx h1 h3]
    have hw := hW lam idx h1 h3
    have hs := hσ lam idx
    rw [pow_add]
    generalize (-1 : K) ^ n = x
    generalize (-1 : K) ^ (ecomp q (k, l, m)) = y at hw ⊢
    generalize W k l m lam idx = w at hw ⊢
    generalize radials (k + l + m) lam idx = R
    generalize σ lam idx = s at hw hs ⊢
    linear_combination (x * C * s * R) * hw + (x * C * y * w * R) * hs
  · rw [mul_zero]

/-- **type 1, explicit-sum form** -/
theorem type1Sum_reflect (W : Nat → Nat → Nat → Nat → Nat → K) (keep : K → Bool) (hkeep : ∀ x, keep (-x) = keep x)
    (radials radials' : Nat → Nat → Nat → K) (CAna CBnb CAna' CBnb' : Nat → Nat → Nat → K) (ca cb : Nat × Nat × Nat)
    (q : Nat) (σ : Nat → Nat → K) (hσ : ∀ l m, σ l m * σ l m = 1)
    (hW : ∀ k l m lam idx, k + l + m ≤ Contraction.tsum ca + Contraction.tsum cb → lam ≤ k + l + m → idx < 2 * lam + 1 →
      W k l m lam idx = (-1) ^ (ecomp q (k, l, m)) * σ lam idx * W k l m lam idx)
    (hR : ∀ ix lam idx, ix ≤ Contraction.tsum ca + Contraction.tsum cb → lam ≤ ix → idx < 2 * lam + 1 →
      radials' ix lam idx = σ lam idx * radials ix lam idx)
    (hCA : ∀ k l m, (k, l, m) ∈ subIdx ca → CAna' k l m = (-1) ^ (ecomp q ca - ecomp q (k, l, m)) * CAna k l m)
    (hCB : ∀ k l m, (k, l, m) ∈ subIdx cb → CBnb' k l m = (-1) ^ (ecomp q cb - ecomp q (k, l, m)) * CBnb k l m) :
    C07.type1Sum W keep radials' CAna' CBnb' ca cb
      = (-1) ^ (ecomp q ca + ecomp q cb) * C07.type1Sum W keep radials CAna CBnb ca cb := by
  unfold C07.type1Sum
  rw [← List.sum_map_mul_left]
  refine sum_map_congr _ _ _ (fun k1 hk1 => ?_)
  rw [← List.sum_map_mul_left]
  refine sum_map_congr _ _ _ (fun k2 hk2 => ?_)
  rw [← List.sum_map_mul_left]
  refine sum_map_congr _ _ _ (fun l1 hl1 => ?_)
  rw [← List.sum_map_mul_left]
  refine sum_map_congr _ _ _ (fun l2 hl2 => ?_)
  rw [← List.sum_map_mul_left]
  refine sum_map_congr _ _ _ (fun m1 hm1 => ?_)
  rw [← List.sum_map_mul_left]
  refine sum_map_congr _ _ _ (fun m2 hm2 => ?_)
  rw [List.mem_range] at hk1 hk2 hl1 hl2 hm1 hm2
  have ha : (k1, l1, m1) ∈ subIdx ca := (C01.subIdx_mem ca (k1, l1, m1)).mpr
    ⟨Nat.le_of_lt_succ hk1, Nat.le_of_lt_succ hl1, Nat.le_of_lt_succ hm1⟩
  have hb : (k2, l2, m2) ∈ subIdx cb := (C01.subIdx_mem cb (k2, l2, m2)).mpr
    ⟨Nat.le_of_lt_succ hk2, Nat.le_of_lt_succ hl2, Nat.le_of_lt_succ hm2⟩
  have hea := ecomp_le (q := q) ha
  have heb := ecomp_le (q := q) hb
  have hdeg : (k1 + k2) + (l1 + l2) + (m1 + m2) ≤ Contraction.tsum ca + Contraction.tsum cb := by
    unfold Contraction.tsum; omega
  have hC : CAna' k1 l1 m1 * CBnb' k2 l2 m2
      = (-1) ^ (ecomp q ca - ecomp q (k1, l1, m1) + (ecomp q cb - ecomp q (k2, l2, m2))) * (CAna k1 l1 m1 * CBnb k2 l2 m2) := by
    rw [hCA k1 l1 m1 ha, hCB k2 l2 m2 hb, pow_add]
    ring
  rw [hC, type1Term_reflect W keep hkeep radials radials' q σ hσ (k1 + k2) (l1 + l2) (m1 + m2)
    (fun lam idx h1 h2 => hW _ _ _ lam idx hdeg h1 h2) (fun lam idx h1 h2 => hR _ lam idx hdeg h1 h2), ecomp_add]
  congr 2
  omega

/-- **C08, local part**: the type-1 element computed from the reflected data is (−1)^(e_q ca + e_q cb) times the original -/
theorem type1Entry_reflect (W : Nat → Nat → Nat → Nat → Nat → K) (keep : K → Bool) (hkeep : ∀ x, keep (-x) = keep x)
    (radials radials' : Nat → Nat → Nat → K) (CAna CBnb CAna' CBnb' : Nat → Nat → Nat → K) (ca cb : Nat × Nat × Nat)
    (q : Nat) (σ : Nat → Nat → K) (hσ : ∀ l m, σ l m * σ l m = 1)
    (hW : ∀ k l m lam idx, k + l + m ≤ Contraction.tsum ca + Contraction.tsum cb → lam ≤ k + l + m → idx < 2 * lam + 1 →
      W k l m lam idx = (-1) ^ (ecomp q (k, l, m)) * σ lam idx * W k l m lam idx)
    (hR : ∀ ix lam idx, ix ≤ Contraction.tsum ca + Contraction.tsum cb → lam ≤ ix → idx < 2 * lam + 1 →
      radials' ix lam idx = σ lam idx * radials ix lam idx)
    (hCA : ∀ k l m, (k, l, m) ∈ subIdx ca → CAna' k l m = (-1) ^ (ecomp q ca - ecomp q (k, l, m)) * CAna k l m)
    (hCB : ∀ k l m, (k, l, m) ∈ subIdx cb → CBnb' k l m = (-1) ^ (ecomp q cb - ecomp q (k, l, m)) * CBnb k l m) :
    type1Entry W keep radials' CAna' CBnb' ca cb
      = (-1) ^ (ecomp q ca + ecomp q cb) * type1Entry W keep radials CAna CBnb ca cb := by
  rw [C07.type1Entry_eq_sum, C07.type1Entry_eq_sum]
  exact type1Sum_reflect W keep hkeep radials radials' CAna CBnb CAna' CBnb' ca cb q σ hσ hW hR hCA hCB

theorem eq_map_of_getD {a b : Array K} (s : K) (hs : a.size = b.size) (h : ∀ i, a.getD i 0 = s * b.getD i 0) :
    a = b.map fun v => s * v := by
  apply Array.ext (by simp [hs])
  intro i h1 h2
  have h3 : i < b.size := hs ▸ h1
  have := h i
  simp only [Array.getD, h1, h3, dite_true] at this
  simpa using this

/-- array form of `rolledUpBlock_reflect` -/
theorem rolledUpBlock_reflect_map (omega : Nat → Nat → Nat → Nat → Nat → Nat → Nat → K) (keep : K → Bool)
    (hkeep : ∀ x, keep (-x) = keep x) (prefac : K) (lam : Nat) (radials : Nat → Nat → Nat → K)
    (CAna CBnb CAna' CBnb' : Nat → Nat → Nat → K) (SA SB SA' SB' : Array (Array K)) (ca cb : Nat × Nat × Nat)
    (q : Nat) (σ : Nat → Nat → K) (hσ : ∀ l m, σ l m * σ l m = 1) (D : Nat)
    (hDa : Contraction.tsum ca ≤ D) (hDb : Contraction.tsum cb ≤ D)
    (hΩ : ∀ k l m mi lam1 m1, k + l + m ≤ D → mi < 2 * lam + 1 → lam1 ≤ lam + (k + l + m) → m1 < 2 * lam1 + 1 →
      omega k l m lam mi lam1 m1 = (-1) ^ (ecomp q (k, l, m)) * σ lam mi * σ lam1 m1 * omega k l m lam mi lam1 m1)
    (hSA : ∀ l m, l ≤ lam + Contraction.tsum ca → m < 2 * l + 1 → get2 SA' l m = σ l m * get2 SA l m)
    (hSB : ∀ l m, l ≤ lam + Contraction.tsum cb → m < 2 * l + 1 → get2 SB' l m = σ l m * get2 SB l m)
    (hCA : ∀ k l m, (k, l, m) ∈ subIdx ca → CAna' k l m = (-1) ^ (ecomp q ca - ecomp q (k, l, m)) * CAna k l m)
    (hCB : ∀ k l m, (k, l, m) ∈ subIdx cb → CBnb' k l m = (-1) ^ (ecomp q cb - ecomp q (k, l, m)) * CBnb k l m) :
    rolledUpBlock omega keep prefac lam radials CAna' CBnb' SA' SB' ca cb
      = (rolledUpBlock omega keep prefac lam radials CAna CBnb SA SB ca cb).map
          fun v => (-1) ^ (ecomp q ca + ecomp q cb) * v :=
  have h := rolledUpBlock_reflect omega keep hkeep prefac lam radials CAna CBnb CAna' CBnb' SA SB SA' SB' ca cb q σ hσ D
    hDa hDb hΩ hSA hSB hCA hCB
  eq_map_of_getD _ h.1 h.2

/-- array form of `rolledUpSpecialBlock_reflect` -/
theorem rolledUpSpecialBlock_reflect_map (omega : Nat → Nat → Nat → Nat → Nat → Nat → Nat → K) (keep : K → Bool)
    (hkeep : ∀ x, keep (-x) = keep x) (prefac : K) (lam : Nat) (radials : Nat → Nat → Nat → K)
    (CBnb CBnb' : Nat → Nat → Nat → K) (SB SB' : Array (Array K)) (ca cb : Nat × Nat × Nat)
    (q : Nat) (σ : Nat → Nat → K) (hσ : ∀ l m, σ l m * σ l m = 1) (hσ0 : σ 0 0 = 1) (D : Nat)
    (hDa : Contraction.tsum ca ≤ D) (hDb : Contraction.tsum cb ≤ D)
    (hΩ : ∀ k l m mi lam1 m1, k + l + m ≤ D → mi < 2 * lam + 1 → lam1 ≤ lam + (k + l + m) → m1 < 2 * lam1 + 1 →
      omega k l m lam mi lam1 m1 = (-1) ^ (ecomp q (k, l, m)) * σ lam mi * σ lam1 m1 * omega k l m lam mi lam1 m1)
    (hSB : ∀ l m, l ≤ lam + Contraction.tsum cb → m < 2 * l + 1 → get2 SB' l m = σ l m * get2 SB l m)
    (hCB : ∀ k l m, (k, l, m) ∈ subIdx cb → CBnb' k l m = (-1) ^ (ecomp q cb - ecomp q (k, l, m)) * CBnb k l m) :
    rolledUpSpecialBlock omega keep prefac lam radials CBnb' SB' ca cb
      = (rolledUpSpecialBlock omega keep prefac lam radials CBnb SB ca cb).map
          fun v => (-1) ^ (ecomp q ca + ecomp q cb) * v :=
  have h := rolledUpSpecialBlock_reflect omega keep hkeep prefac lam radials CBnb CBnb' SB SB' ca cb q σ hσ hσ0 D
    hDa hDb hΩ hSB hCB
  eq_map_of_getD _ h.1 h.2

/-! ### (hC): the binomial-shift tables of the reflected centres -/

/-- the reflection of a vector through the coordinate plane ⊥ axis q -/
def reflect3 (q : Nat) (A : K × K × K) : K × K × K :=
  if q = 0 then (-A.1, A.2.1, A.2.2) else if q = 1 then (A.1, -A.2.1, A.2.2) else (A.1, A.2.1, -A.2.2)

/-- the entry C(na; k, l, m) of `makeC` for the Cartesian component `c` and the centre difference `A` -/
def cProd [Div K] (fac : Array K) (pw : K → Nat → K) (c : Nat × Nat × Nat) (A : K × K × K) (k l m : Nat) : K :=
  if k ≤ c.1 ∧ l ≤ c.2.1 ∧ m ≤ c.2.2 then
    calcC fac pw c.1 k A.1 * calcC fac pw c.2.1 l A.2.1 * calcC fac pw c.2.2 m A.2.2
  else 0

/-- (hC) holds for the binomial-shift table of the reflected centre -/
theorem cProd_reflect [Div K] (fac : Array K) (pw : K → Nat → K) (hpw : ∀ x n, pw (-x) n = (-1) ^ n * pw x n)
    (c : Nat × Nat × Nat) (A : K × K × K) (q k l m : Nat) :
    cProd fac pw c (reflect3 q A) k l m = (-1) ^ (ecomp q c - ecomp q (k, l, m)) * cProd fac pw c A k l m := by
  unfold cProd reflect3 ecomp
  split_ifs <;> simp only [calcC_neg_of_pw fac pw hpw, mul_zero] <;> ring
end Stage1

section Tables
open Ecpint.ShellPair

/-! ### reading `makeCTab` through `cAt` -/

theorem idx_decomp (d na k l m : Nat) (hk : k < d) (hl : l < d) (hm : m < d) :
    (((na * d + k) * d + l) * d + m) % d = m ∧ ((((na * d + k) * d + l) * d + m) / d) % d = l ∧
    ((((na * d + k) * d + l) * d + m) / (d * d)) % d = k ∧ (((na * d + k) * d + l) * d + m) / (d * d * d) = na := by
  have hd : 0 < d := by omega
  have e1 : (((na * d + k) * d + l) * d + m) / d = (na * d + k) * d + l := by
    rw [Nat.mul_comm _ d, Nat.mul_add_div hd, Nat.div_eq_of_lt hm, Nat.add_zero]
  have e2 : ((na * d + k) * d + l) / d = na * d + k := by
    rw [Nat.mul_comm _ d, Nat.mul_add_div hd, Nat.div_eq_of_lt hl, Nat.add_zero]
  have e3 : (na * d + k) / d = na := by
    rw [Nat.mul_comm _ d, Nat.mul_add_div hd, Nat.div_eq_of_lt hk, Nat.add_zero]
  refine ⟨?_, ?_, ?_, ?_⟩
  · rw [Nat.mul_comm _ d, Nat.mul_add_mod, Nat.mod_eq_of_lt hm]
  · rw [e1, Nat.mul_comm _ d, Nat.mul_add_mod, Nat.mod_eq_of_lt hl]
  · rw [← Nat.div_div_eq_div_mul, e1, e2, Nat.mul_comm _ d, Nat.mul_add_mod, Nat.mod_eq_of_lt hk]
  · rw [← Nat.div_div_eq_div_mul, ← Nat.div_div_eq_div_mul, e1, e2, e3]

theorem idx_bound (n d na k l m : Nat) (hna : na < n) (hk : k < d) (hl : l < d) (hm : m < d) :
    ((na * d + k) * d + l) * d + m < n * d * d * d := by
  have h1 : na * d + k < n * d := by
    calc na * d + k < na * d + d := by omega
      _ = (na + 1) * d := by ring
      _ ≤ n * d := Nat.mul_le_mul_right _ hna
  have h2 : (na * d + k) * d + l < n * d * d := by
    calc (na * d + k) * d + l < (na * d + k) * d + d := by omega
      _ = (na * d + k + 1) * d := by ring
      _ ≤ n * d * d := Nat.mul_le_mul_right _ h1
  calc ((na * d + k) * d + l) * d + m < ((na * d + k) * d + l) * d + d := by omega
      _ = ((na * d + k) * d + l + 1) * d := by ring
      _ ≤ n * d * d * d := Nat.mul_le_mul_right _ h2

variable {α : Type} [Flt α]

theorem cAt_makeCTab (E : Engine α) (pw : α → Nat → α) (L : Nat) (A : α × α × α) (na k l m : Nat)
    (hna : na < (cartList L).length) (hk : k ≤ L) (hl : l ≤ L) (hm : m ≤ L) :
    cAt (makeCTab E pw L A) L na k l m =
      if k ≤ ((cartList L).toArray[na]!).1 ∧ l ≤ ((cartList L).toArray[na]!).2.1 ∧ m ≤ ((cartList L).toArray[na]!).2.2 then
        ShellPair.calcC E pw ((cartList L).toArray[na]!).1 k A.1 * ShellPair.calcC E pw ((cartList L).toArray[na]!).2.1 l A.2.1
          * ShellPair.calcC E pw ((cartList L).toArray[na]!).2.2 m A.2.2
      else 0 := by
  obtain ⟨e1, e2, e3, e4⟩ := idx_decomp (L + 1) na k l m (by omega) (by omega) (by omega)
  have hb := idx_bound (cartList L).length (L + 1) na k l m hna (by omega) (by omega) (by omega)
  unfold cAt makeCTab
  simp only []
  rw [getElem!_pos _ _ (by simpa using hb)]
  simp only [Array.getElem_map, Array.getElem_range, e1, e2, e3, e4]

end Tables

section Stage2
open MeasureTheory Set Metric Real
open Ecpint Ecpint.Angular Ecpint.C13 Ecpint.C13c Ecpint.C13d Ecpint.C13e

/-! ### Stage 2: the model's angular tables satisfy the selection rules (over ℝ) -/

/-- |mu| of the harmonic stored at index idx = lam + (signed mu) -/
def muOf (lam idx : ℕ) : ℕ := if idx ≥ lam then idx - lam else lam - idx
/-- 1 for the sin-type harmonics (idx < lam), 0 for the cos-type ones -/
def cOf (lam idx : ℕ) : ℕ := if idx < lam then 1 else 0

/-- parity of the exponent of coordinate q in every monomial of the harmonic polynomial S_{lam, idx − lam}:
x: |mu| + [sin-type], y: [sin-type], z: lam − |mu| ≡ idx -/
def parR (q lam idx : ℕ) : ℕ :=
  if q = 0 then muOf lam idx + cOf lam idx else if q = 1 then cOf lam idx else idx

/-- the sign the harmonic S_{lam, idx − lam} picks up under the reflection of coordinate q -/
def sigR (q lam idx : ℕ) : ℝ := (-1) ^ parR q lam idx

theorem sigR_mul_self (q lam idx : ℕ) : sigR q lam idx * sigR q lam idx = 1 := by
  unfold sigR
  rw [← pow_add, ← two_mul, pow_mul]
  simp

theorem sigR_zero (q : ℕ) : sigR q 0 0 = 1 := by
  unfold sigR parR muOf cOf
  simp

/-! sanity: the signs of the low harmonics (C13d: S_{1,1} ∝ x, S_{1,−1} ∝ y, S_{1,0} ∝ z, S_{2,−2} ∝ xy, S_{2,1} ∝ xz) -/
example : sigR 0 1 2 = -1 ∧ sigR 1 1 2 = 1 ∧ sigR 2 1 2 = 1 := by simp [sigR, parR, muOf, cOf]
example : sigR 0 1 0 = 1 ∧ sigR 1 1 0 = -1 ∧ sigR 2 1 0 = 1 := by simp [sigR, parR, muOf, cOf]
example : sigR 0 1 1 = 1 ∧ sigR 1 1 1 = 1 ∧ sigR 2 1 1 = -1 := by simp [sigR, parR, muOf, cOf]
example : sigR 0 2 0 = -1 ∧ sigR 1 2 0 = -1 ∧ sigR 2 2 0 = 1 := by norm_num [sigR, parR, muOf, cOf]
example : sigR 0 2 3 = -1 ∧ sigR 1 2 3 = 1 ∧ sigR 2 2 3 = -1 := by norm_num [sigR, parR, muOf, cOf]

theorem Sidx_def (fac : Array ℝ) (lam idx : ℕ) (v : E3) :
    Sidx fac lam idx v = SU (uklm fac) lam (muOf lam idx) (cOf lam idx) v := rfl

/-- the selection rules of `uklm` as a parity statement for coordinate q -/
theorem uklm_parity (fac : Array ℝ) (q lam idx i j : ℕ) (hi : i ≤ lam) (hj : j ≤ lam - i)
    (h : uklm fac lam (muOf lam idx) i j (cOf lam idx) ≠ 0) :
    ecomp q (i, j, lam - i - j) % 2 = parR q lam idx % 2 := by
  obtain ⟨r1, r2, r3⟩ := uklm_ne_zero _ _ _ _ _ _ h
  unfold ecomp parR
  unfold muOf cOf at *
  by_cases hge : idx ≥ lam
  · have hlt : ¬ idx < lam := by omega
    simp only [hge, hlt, if_true, if_false, or_true] at r1 r2 r3 ⊢
    split_ifs <;> omega
  · have hlt : idx < lam := by omega
    have hmu0 : lam - idx ≠ 0 := by omega
    simp only [hge, hlt, if_true, if_false, hmu0, one_ne_zero, or_self] at r1 r2 r3 ⊢
    split_ifs <;> omega

/-- the coordinate index of q (0, 1, anything else: x, y, z) -/
def qi (q : ℕ) : Fin 3 := if q = 0 then 0 else if q = 1 then 1 else 2

/-- reflection of ℝ³ through the coordinate plane ⊥ axis q -/
noncomputable def reflectE (q : ℕ) (v : E3) : E3 := WithLp.toLp 2 fun i => if i = qi q then - v i else v i

theorem reflectE_apply (q : ℕ) (v : E3) (i : Fin 3) : reflectE q v i = if i = qi q then - v i else v i := rfl

/-- a monomial under the reflection -/
theorem mono_reflect (q a b c : ℕ) (v : E3) :
    (reflectE q v) 0 ^ a * (reflectE q v) 1 ^ b * (reflectE q v) 2 ^ c
      = (-1) ^ ecomp q (a, b, c) * (v 0 ^ a * v 1 ^ b * v 2 ^ c) := by
  by_cases h0 : q = 0
  · subst h0
    simp [reflectE_apply, qi, ecomp]
    rw [neg_pow]; ring
  · by_cases h1 : q = 1
    · subst h1
      simp [reflectE_apply, qi, ecomp]
      rw [neg_pow]; ring
    · simp [reflectE_apply, qi, ecomp, h0, h1]
      rw [neg_pow]; ring

theorem neg_one_pow_congr {a b : ℕ} (h : a % 2 = b % 2) : (-1 : ℝ) ^ a = (-1) ^ b := by
  rw [neg_one_pow_eq_pow_mod_two (n := a), neg_one_pow_eq_pow_mod_two (n := b), h]

/-- **the harmonic polynomials of the model under the three reflections** (any factorial table) -/
theorem Sidx_reflect (fac : Array ℝ) (q lam idx : ℕ) (v : E3) :
    Sidx fac lam idx (reflectE q v) = sigR q lam idx * Sidx fac lam idx v := by
  rw [Sidx_def, Sidx_def]
  unfold SU
  rw [Finset.mul_sum]
  refine Finset.sum_congr rfl fun i hi => ?_
  rw [Finset.mul_sum]
  refine Finset.sum_congr rfl fun j hj => ?_
  simp only [Finset.mem_range] at hi hj
  by_cases hU : uklm fac lam (muOf lam idx) i j (cOf lam idx) = 0
  · rw [hU]; ring
  · have hp := uklm_parity fac q lam idx i j (by omega) (by omega) hU
    have hm := mono_reflect q i j (lam - i - j) v
    unfold sigR
    rw [← neg_one_pow_congr hp]
    linear_combination (uklm fac lam (muOf lam idx) i j (cOf lam idx)) * hm

/-- a monomial with an odd exponent in coordinate q integrates to zero -/
theorem monoInt_odd_q (q a b c : ℕ) (h : ecomp q (a, b, c) % 2 = 1) : monoInt a b c = 0 := by
  rw [monoInt_eq, if_neg]
  unfold ecomp at h
  dsimp only at h
  split_ifs at h <;> omega

/-- parity selection for monomial × harmonic -/
theorem mono_Sidx_integral_zero (fac : Array ℝ) (q k l m lam idx : ℕ)
    (h : (ecomp q (k, l, m) + parR q lam idx) % 2 = 1) :
    ∫ u : sphere (0 : E3) 1, (u.1 0) ^ k * (u.1 1) ^ l * (u.1 2) ^ m * Sidx fac lam idx u.1 ∂σ = 0 := by
  simp only [Sidx_def]
  rw [integral_mono_SU]
  refine Finset.sum_eq_zero fun i hi => Finset.sum_eq_zero fun j hj => ?_
  simp only [Finset.mem_range] at hi hj
  by_cases hU : uklm fac lam (muOf lam idx) i j (cOf lam idx) = 0
  · rw [hU, zero_mul]
  · have hp := uklm_parity fac q lam idx i j (by omega) (by omega) hU
    rw [monoInt_odd_q q, mul_zero]
    have e : m + lam - i - j = m + (lam - i - j) := by omega
    rw [e, ecomp_add]
    omega

/-- parity selection for monomial × harmonic × harmonic -/
theorem mono_Sidx_Sidx_integral_zero (fac : Array ℝ) (q k l m a ia b ib : ℕ)
    (h : (ecomp q (k, l, m) + parR q a ia + parR q b ib) % 2 = 1) :
    ∫ u : sphere (0 : E3) 1, (u.1 0) ^ k * (u.1 1) ^ l * (u.1 2) ^ m * Sidx fac a ia u.1 * Sidx fac b ib u.1 ∂σ = 0 := by
  have hT : Integrable (fun u : sphere (0 : E3) 1 => Sidx fac b ib u.1) σ :=
    integrable_of_continuous (continuous_Sidx fac b ib)
  have := integral_mono_SU_mul (uklm fac) (fun u : sphere (0 : E3) 1 => Sidx fac b ib u.1) hT k l m a (muOf a ia) (cOf a ia)
  simp only [← Sidx_def] at this
  rw [this]
  refine Finset.sum_eq_zero fun i hi => Finset.sum_eq_zero fun j hj => ?_
  simp only [Finset.mem_range] at hi hj
  by_cases hU : uklm fac a (muOf a ia) i j (cOf a ia) = 0
  · rw [hU, zero_mul]
  · have hp := uklm_parity fac q a ia i j (by omega) (by omega) hU
    rw [mono_Sidx_integral_zero fac q, mul_zero]
    have e : m + a - i - j = m + (a - i - j) := by omega
    rw [e, ecomp_add]
    omega

/-- a quantity that vanishes whenever the sign is −1 satisfies x = sign · x -/
theorem eq_sign_mul_of_odd_zero (n : ℕ) (x : ℝ) (h : n % 2 = 1 → x = 0) : x = (-1) ^ n * x := by
  rcases Nat.mod_two_eq_zero_or_one n with h0 | h1
  · rw [neg_one_pow_congr (b := 0) (by omega)]; simp
  · rw [h h1, mul_zero]

/-- **the model's type-1 table satisfies the selection rule**, for all entries with lam within the table limit -/
theorem wEntry_rule (nf maxLam q k l m lam idx : ℕ) (hnf : 2 * maxLam < nf) (h1 : lam ≤ maxLam) :
    wEntry (uklm (facTable (α := ℝ) nf)) (pijk (α := ℝ)) maxLam k l m lam idx
      = (-1) ^ ecomp q (k, l, m) * sigR q lam idx
          * wEntry (uklm (facTable (α := ℝ) nf)) (pijk (α := ℝ)) maxLam k l m lam idx := by
  unfold sigR
  rw [← pow_add]
  refine eq_sign_mul_of_odd_zero _ _ fun hodd => ?_
  rw [wEntry_model_all nf maxLam k l m lam idx hnf h1]
  exact mono_Sidx_integral_zero _ q k l m lam idx hodd

/-- **the model's type-2 table satisfies the selection rule (hΩ)**, for all entries within the table limits -/
theorem omegaEntry_rule (nf maxLam q k l m a ia b ib : ℕ) (hnf : 2 * maxLam < nf) (ha : a ≤ maxLam) (hb : b ≤ maxLam) :
    omegaEntry (uklm (facTable (α := ℝ) nf)) (wEntry (uklm (facTable (α := ℝ) nf)) (pijk (α := ℝ)) maxLam) k l m a ia b ib
      = (-1) ^ ecomp q (k, l, m) * sigR q a ia * sigR q b ib
          * omegaEntry (uklm (facTable (α := ℝ) nf)) (wEntry (uklm (facTable (α := ℝ) nf)) (pijk (α := ℝ)) maxLam)
              k l m a ia b ib := by
  unfold sigR
  rw [← pow_add, ← pow_add]
  refine eq_sign_mul_of_odd_zero _ _ fun hodd => ?_
  rw [omegaEntry_model_all nf maxLam k l m a ia b ib hnf ha hb]
  exact mono_Sidx_Sidx_integral_zero _ q k l m a ia b ib hodd

end Stage2
section Stage3
open MeasureTheory Set Metric Real
open Ecpint Ecpint.Angular Ecpint.C13 Ecpint.C13c Ecpint.C13d Ecpint.C13e Ecpint.ShellPair

/-! ### Stage 3: the model's contractions over ℝ, fed reflected data -/

/-- the table entry of `makeC` at ℝ is `cProd` -/
theorem cAt_makeCTab_real (E : Engine ℝ) (pw : ℝ → ℕ → ℝ) (L : ℕ) (A : ℝ × ℝ × ℝ) (na k l m : ℕ)
    (hna : na < (cartList L).length) (hk : k ≤ L) (hl : l ≤ L) (hm : m ≤ L) :
    cAt (makeCTab E pw L A) L na k l m = cProd E.fac pw ((cartList L).toArray[na]!) A k l m := by
  rw [cAt_makeCTab E pw L A na k l m hna hk hl hm]
  rfl

theorem cartList_getElem_mem (L na : ℕ) (hna : na < (cartList L).length) :
    (cartList L).toArray[na]! ∈ cartList L := by
  rw [getElem!_pos _ _ (by simpa using hna)]
  simp

theorem cartList_getElem_tsum (L na : ℕ) (hna : na < (cartList L).length) :
    Contraction.tsum ((cartList L).toArray[na]!) = L :=
  (C01.cartList_mem L _).mp (cartList_getElem_mem L na hna)

/-- (hC) for the model's own table, at ℝ with the honest power -/
theorem cAt_makeCTab_reflect (E : Engine ℝ) (L : ℕ) (A : ℝ × ℝ × ℝ) (q na k l m : ℕ)
    (hna : na < (cartList L).length) (h : (k, l, m) ∈ subIdx ((cartList L).toArray[na]!)) :
    cAt (makeCTab E (fun x n => x ^ n) L (reflect3 q A)) L na k l m
      = (-1) ^ (ecomp q ((cartList L).toArray[na]!) - ecomp q (k, l, m))
          * cAt (makeCTab E (fun x n => x ^ n) L A) L na k l m := by
  have hs := (C01.subIdx_mem _ _).mp h
  have ht := cartList_getElem_tsum L na hna
  unfold Contraction.tsum at ht
  dsimp only at hs
  rw [cAt_makeCTab_real E _ L _ na k l m hna (by omega) (by omega) (by omega),
    cAt_makeCTab_real E _ L _ na k l m hna (by omega) (by omega) (by omega)]
  exact cProd_reflect E.fac _ (fun x n => neg_pow x n) _ A q k l m
/-- the table of real spherical harmonics of the direction `v`, *defined as* the model's harmonic polynomials evaluated
at `v`: entry (l, m) = S_{l, m − l}(v), l ≤ lmax, m ≤ 2 l -/
noncomputable def harmTable (fac : Array ℝ) (lmax : ℕ) (v : E3) : Array (Array ℝ) :=
  (Array.range (lmax + 1)).map fun l => (Array.range (2 * l + 1)).map fun m => Sidx fac l m v

theorem get2_harmTable (fac : Array ℝ) (lmax : ℕ) (v : E3) (l m : ℕ) (hl : l ≤ lmax) (hm : m < 2 * l + 1) :
    get2 (harmTable fac lmax v) l m = Sidx fac l m v := by
  simp [get2, harmTable, Array.getD, Nat.lt_succ_of_le hl, hm]

/-- (hS) for the harmonics of the reflected direction -/
theorem harmTable_reflect (fac : Array ℝ) (lmax q : ℕ) (v : E3) (l m : ℕ) (hl : l ≤ lmax) (hm : m < 2 * l + 1) :
    get2 (harmTable fac lmax (reflectE q v)) l m = sigR q l m * get2 (harmTable fac lmax v) l m := by
  rw [get2_harmTable _ _ _ _ _ hl hm, get2_harmTable _ _ _ _ _ hl hm, Sidx_reflect]

/-- the model's type-2 angular table as a function -/
noncomputable def omegaModel (nf maxLam : ℕ) : ℕ → ℕ → ℕ → ℕ → ℕ → ℕ → ℕ → ℝ :=
  omegaEntry (uklm (facTable (α := ℝ) nf)) (wEntry (uklm (facTable (α := ℝ) nf)) (pijk (α := ℝ)) maxLam)

/-- the model's type-1 angular table as a function -/
noncomputable def wModel (nf maxLam : ℕ) : ℕ → ℕ → ℕ → ℕ → ℕ → ℝ :=
  wEntry (uklm (facTable (α := ℝ) nf)) (pijk (α := ℝ)) maxLam

/-- **Stage 3, type 2, general position**: the model's contraction over ℝ on the model's own angular table, with ANY
binomial tables / harmonics tables related by (hC), (hS) -/
theorem model_rolledUpBlock_reflect (nf maxLam q lam : ℕ) (hnf : 2 * maxLam < nf) (keep : ℝ → Bool)
    (hkeep : ∀ x, keep (-x) = keep x) (prefac : ℝ) (radials : ℕ → ℕ → ℕ → ℝ)
    (CAna CBnb CAna' CBnb' : ℕ → ℕ → ℕ → ℝ) (SA SB SA' SB' : Array (Array ℝ)) (ca cb : ℕ × ℕ × ℕ)
    (hla : lam + Contraction.tsum ca ≤ maxLam) (hlb : lam + Contraction.tsum cb ≤ maxLam)
    (hSA : ∀ l m, l ≤ lam + Contraction.tsum ca → m < 2 * l + 1 → get2 SA' l m = sigR q l m * get2 SA l m)
    (hSB : ∀ l m, l ≤ lam + Contraction.tsum cb → m < 2 * l + 1 → get2 SB' l m = sigR q l m * get2 SB l m)
    (hCA : ∀ k l m, (k, l, m) ∈ subIdx ca → CAna' k l m = (-1) ^ (ecomp q ca - ecomp q (k, l, m)) * CAna k l m)
    (hCB : ∀ k l m, (k, l, m) ∈ subIdx cb → CBnb' k l m = (-1) ^ (ecomp q cb - ecomp q (k, l, m)) * CBnb k l m)
    (mi : ℕ) :
    (rolledUpBlock (omegaModel nf maxLam) keep prefac lam radials CAna' CBnb' SA' SB' ca cb).getD mi 0
      = (-1) ^ (ecomp q ca + ecomp q cb)
          * (rolledUpBlock (omegaModel nf maxLam) keep prefac lam radials CAna CBnb SA SB ca cb).getD mi 0 :=
  (rolledUpBlock_reflect (omegaModel nf maxLam) keep hkeep prefac lam radials CAna CBnb CAna' CBnb' SA SB SA' SB' ca cb q
    (sigR q) (sigR_mul_self q) (max (Contraction.tsum ca) (Contraction.tsum cb)) (le_max_left _ _) (le_max_right _ _)
    (fun k l m mi lam1 m1 hD _ h1 _ =>
      omegaEntry_rule nf maxLam q k l m lam mi lam1 m1 hnf (by omega) (by
        rcases le_max_iff.mp hD with h | h <;> omega))
    hSA hSB hCA hCB).2 mi

/-- **Stage 3, type 2, shell A on the ECP centre** -/
theorem model_rolledUpSpecialBlock_reflect (nf maxLam q lam : ℕ) (hnf : 2 * maxLam < nf) (keep : ℝ → Bool)
    (hkeep : ∀ x, keep (-x) = keep x) (prefac : ℝ) (radials : ℕ → ℕ → ℕ → ℝ)
    (CBnb CBnb' : ℕ → ℕ → ℕ → ℝ) (SB SB' : Array (Array ℝ)) (ca cb : ℕ × ℕ × ℕ)
    (hla : lam + Contraction.tsum ca ≤ maxLam) (hlb : lam + Contraction.tsum cb ≤ maxLam)
    (hSB : ∀ l m, l ≤ lam + Contraction.tsum cb → m < 2 * l + 1 → get2 SB' l m = sigR q l m * get2 SB l m)
    (hCB : ∀ k l m, (k, l, m) ∈ subIdx cb → CBnb' k l m = (-1) ^ (ecomp q cb - ecomp q (k, l, m)) * CBnb k l m)
    (mi : ℕ) :
    (rolledUpSpecialBlock (omegaModel nf maxLam) keep prefac lam radials CBnb' SB' ca cb).getD mi 0
      = (-1) ^ (ecomp q ca + ecomp q cb)
          * (rolledUpSpecialBlock (omegaModel nf maxLam) keep prefac lam radials CBnb SB ca cb).getD mi 0 :=
  (rolledUpSpecialBlock_reflect (omegaModel nf maxLam) keep hkeep prefac lam radials CBnb CBnb' SB SB' ca cb q
    (sigR q) (sigR_mul_self q) (sigR_zero q) (max (Contraction.tsum ca) (Contraction.tsum cb)) (le_max_left _ _)
    (le_max_right _ _)
    (fun k l m mi lam1 m1 hD _ h1 _ =>
      omegaEntry_rule nf maxLam q k l m lam mi lam1 m1 hnf (by omega) (by
        rcases le_max_iff.mp hD with h | h <;> omega))
    hSB hCB).2 mi

/-- **Stage 3, type 1**: the radial factor of type 1 contains the harmonic of the combined direction (hR) -/
theorem model_type1Entry_reflect (nf maxLam q : ℕ) (hnf : 2 * maxLam < nf) (keep : ℝ → Bool)
    (hkeep : ∀ x, keep (-x) = keep x) (radials radials' : ℕ → ℕ → ℕ → ℝ)
    (CAna CBnb CAna' CBnb' : ℕ → ℕ → ℕ → ℝ) (ca cb : ℕ × ℕ × ℕ)
    (hlim : Contraction.tsum ca + Contraction.tsum cb ≤ maxLam)
    (hR : ∀ ix lam idx, ix ≤ Contraction.tsum ca + Contraction.tsum cb → lam ≤ ix → idx < 2 * lam + 1 →
      radials' ix lam idx = sigR q lam idx * radials ix lam idx)
    (hCA : ∀ k l m, (k, l, m) ∈ subIdx ca → CAna' k l m = (-1) ^ (ecomp q ca - ecomp q (k, l, m)) * CAna k l m)
    (hCB : ∀ k l m, (k, l, m) ∈ subIdx cb → CBnb' k l m = (-1) ^ (ecomp q cb - ecomp q (k, l, m)) * CBnb k l m) :
    type1Entry (wModel nf maxLam) keep radials' CAna' CBnb' ca cb
      = (-1) ^ (ecomp q ca + ecomp q cb) * type1Entry (wModel nf maxLam) keep radials CAna CBnb ca cb :=
  type1Entry_reflect (wModel nf maxLam) keep hkeep radials radials' CAna CBnb CAna' CBnb' ca cb q (sigR q)
    (sigR_mul_self q)
    (fun k l m lam idx h1 h2 _ => wEntry_rule nf maxLam q k l m lam idx hnf (by omega))
    hR hCA hCB

/-! #### with the model's own binomial tables (`makeCTab`, honest power) and the harmonics of the reflected directions -/

/-- **type 2, general position, concrete data**: entry (na, nb, mi) of `rolled_up` for the centres reflected through
the coordinate plane ⊥ axis q is (−1)^(e_q ca + e_q cb) times the entry for the original centres -/
theorem model_type2_reflect (E : Engine ℝ) (nf maxLam q lam LA LB na nb : ℕ) (hnf : 2 * maxLam < nf)
    (keep : ℝ → Bool) (hkeep : ∀ x, keep (-x) = keep x) (prefac : ℝ) (radials : ℕ → ℕ → ℕ → ℝ)
    (A B : ℝ × ℝ × ℝ) (vA vB : E3) (hna : na < (cartList LA).length) (hnb : nb < (cartList LB).length)
    (hla : lam + LA ≤ maxLam) (hlb : lam + LB ≤ maxLam) (mi : ℕ) :
    (rolledUpBlock (omegaModel nf maxLam) keep prefac lam radials
        (cAt (makeCTab E (fun x n => x ^ n) LA (reflect3 q A)) LA na)
        (cAt (makeCTab E (fun x n => x ^ n) LB (reflect3 q B)) LB nb)
        (harmTable E.fac (lam + LA) (reflectE q vA)) (harmTable E.fac (lam + LB) (reflectE q vB))
        ((cartList LA).toArray[na]!) ((cartList LB).toArray[nb]!)).getD mi 0
      = (-1) ^ (ecomp q ((cartList LA).toArray[na]!) + ecomp q ((cartList LB).toArray[nb]!))
        * (rolledUpBlock (omegaModel nf maxLam) keep prefac lam radials
            (cAt (makeCTab E (fun x n => x ^ n) LA A) LA na) (cAt (makeCTab E (fun x n => x ^ n) LB B) LB nb)
            (harmTable E.fac (lam + LA) vA) (harmTable E.fac (lam + LB) vB)
            ((cartList LA).toArray[na]!) ((cartList LB).toArray[nb]!)).getD mi 0 := by
  have hta := cartList_getElem_tsum LA na hna
  have htb := cartList_getElem_tsum LB nb hnb
  refine model_rolledUpBlock_reflect nf maxLam q lam hnf keep hkeep prefac radials _ _ _ _ _ _ _ _ _ _
    (by omega) (by omega) ?_ ?_ ?_ ?_ mi
  · intro l m hl hm
    exact harmTable_reflect _ _ q vA l m (by omega) hm
  · intro l m hl hm
    exact harmTable_reflect _ _ q vB l m (by omega) hm
  · intro k l m h
    exact cAt_makeCTab_reflect E LA A q na k l m hna h
  · intro k l m h
    exact cAt_makeCTab_reflect E LB B q nb k l m hnb h

/-- **type 2, shell A on the ECP centre, concrete data** -/
theorem model_type2_special_reflect (E : Engine ℝ) (nf maxLam q lam LA LB na nb : ℕ) (hnf : 2 * maxLam < nf)
    (keep : ℝ → Bool) (hkeep : ∀ x, keep (-x) = keep x) (prefac : ℝ) (radials : ℕ → ℕ → ℕ → ℝ)
    (B : ℝ × ℝ × ℝ) (vB : E3) (hna : na < (cartList LA).length) (hnb : nb < (cartList LB).length)
    (hla : lam + LA ≤ maxLam) (hlb : lam + LB ≤ maxLam) (mi : ℕ) :
    (rolledUpSpecialBlock (omegaModel nf maxLam) keep prefac lam radials
        (cAt (makeCTab E (fun x n => x ^ n) LB (reflect3 q B)) LB nb)
        (harmTable E.fac (lam + LB) (reflectE q vB))
        ((cartList LA).toArray[na]!) ((cartList LB).toArray[nb]!)).getD mi 0
      = (-1) ^ (ecomp q ((cartList LA).toArray[na]!) + ecomp q ((cartList LB).toArray[nb]!))
        * (rolledUpSpecialBlock (omegaModel nf maxLam) keep prefac lam radials
            (cAt (makeCTab E (fun x n => x ^ n) LB B) LB nb) (harmTable E.fac (lam + LB) vB)
            ((cartList LA).toArray[na]!) ((cartList LB).toArray[nb]!)).getD mi 0 := by
  have hta := cartList_getElem_tsum LA na hna
  have htb := cartList_getElem_tsum LB nb hnb
  refine model_rolledUpSpecialBlock_reflect nf maxLam q lam hnf keep hkeep prefac radials _ _ _ _ _ _
    (by omega) (by omega) ?_ ?_ mi
  · intro l m hl hm
    exact harmTable_reflect _ _ q vB l m (by omega) hm
  · intro k l m h
    exact cAt_makeCTab_reflect E LB B q nb k l m hnb h

/-- **type 1, concrete binomial tables** (the radial factor, which contains the harmonic of the combined direction,
enters through (hR)) -/
theorem model_type1_reflect (E : Engine ℝ) (nf maxLam q LA LB na nb : ℕ) (hnf : 2 * maxLam < nf)
    (keep : ℝ → Bool) (hkeep : ∀ x, keep (-x) = keep x) (radials radials' : ℕ → ℕ → ℕ → ℝ)
    (A B : ℝ × ℝ × ℝ) (hna : na < (cartList LA).length) (hnb : nb < (cartList LB).length)
    (hlim : LA + LB ≤ maxLam)
    (hR : ∀ ix lam idx, ix ≤ LA + LB → lam ≤ ix → idx < 2 * lam + 1 →
      radials' ix lam idx = sigR q lam idx * radials ix lam idx) :
    type1Entry (wModel nf maxLam) keep radials'
        (cAt (makeCTab E (fun x n => x ^ n) LA (reflect3 q A)) LA na)
        (cAt (makeCTab E (fun x n => x ^ n) LB (reflect3 q B)) LB nb)
        ((cartList LA).toArray[na]!) ((cartList LB).toArray[nb]!)
      = (-1) ^ (ecomp q ((cartList LA).toArray[na]!) + ecomp q ((cartList LB).toArray[nb]!))
        * type1Entry (wModel nf maxLam) keep radials
            (cAt (makeCTab E (fun x n => x ^ n) LA A) LA na) (cAt (makeCTab E (fun x n => x ^ n) LB B) LB nb)
            ((cartList LA).toArray[na]!) ((cartList LB).toArray[nb]!) := by
  have hta := cartList_getElem_tsum LA na hna
  have htb := cartList_getElem_tsum LB nb hnb
  refine model_type1Entry_reflect nf maxLam q hnf keep hkeep radials radials' _ _ _ _ _ _
    (by omega) ?_ ?_ ?_
  · intro ix lam idx h1 h2 h3
    exact hR ix lam idx (by omega) h2 h3
  · intro k l m h
    exact cAt_makeCTab_reflect E LA A q na k l m hna h
  · intro k l m h
    exact cAt_makeCTab_reflect E LB B q nb k l m hnb h


/-! #### the pipeline functions `rolledUp`, `rolledUpSpecial` of Model/ShellPair.lean at ℝ -/

/-- the data-dependent shortcut of the model (`|C| > num/den`) does not see the sign -/
theorem keep_model_neg (n : Int) (d : Nat) (x : ℝ) :
    (fun C : ℝ => decide (Flt.ofRat n d < Flt.abs C)) (-x) = (fun C : ℝ => decide (Flt.ofRat n d < Flt.abs C)) x := by
  have : (Flt.abs (-x) : ℝ) = Flt.abs x := abs_neg x
  simp only [this]

theorem getElemBang_map_range {β : Type} [Inhabited β] (n : ℕ) (f : ℕ → β) (i : ℕ) (hi : i < n) :
    ((Array.range n).map f)[i]! = f i := by
  rw [getElem!_pos _ _ (by simpa using hi)]
  simp

/-- block i = na · nB + nb of `rolled_up` -/
theorem rolledUp_getElem {α : Type} [Flt α] (E : Engine α) (lam LA LB : ℕ) (radials : ℕ → ℕ → ℕ → α)
    (CA CB : ℕ → ℕ → ℕ → ℕ → α) (SA SB : Array (Array α)) (i : ℕ)
    (hi : i < (cartList LA).length * (cartList LB).length) :
    (rolledUp E lam LA LB radials CA CB SA SB)[i]!
      = rolledUpBlock E.omega (fun C => decide (Flt.ofRat 1 1000000000000000 < Flt.abs C))
          (((16 : Nat) : α) * Flt.pi * Flt.pi) lam radials
          (CA (i / (cartList LB).length)) (CB (i % (cartList LB).length)) SA SB
          ((cartList LA).toArray[i / (cartList LB).length]!) ((cartList LB).toArray[i % (cartList LB).length]!) := by
  unfold rolledUp
  exact getElemBang_map_range _ _ i (by simpa using hi)

/-- block i = na · nB + nb of `rolled_up_special` -/
theorem rolledUpSpecial_getElem {α : Type} [Flt α] (E : Engine α) (lam LA LB : ℕ) (radials : ℕ → ℕ → ℕ → α)
    (CB : ℕ → ℕ → ℕ → ℕ → α) (SB : Array (Array α)) (i : ℕ)
    (hi : i < (cartList LA).length * (cartList LB).length) :
    (rolledUpSpecial E lam LA LB radials CB SB)[i]!
      = rolledUpSpecialBlock E.omega (fun C => decide (Flt.ofRat 1 1000000000000000 < Flt.abs C))
          (((8 : Nat) : α) * Flt.pi * Flt.sqrt Flt.pi) lam radials
          (CB (i % (cartList LB).length)) SB
          ((cartList LA).toArray[i / (cartList LB).length]!) ((cartList LB).toArray[i % (cartList LB).length]!) := by
  unfold rolledUpSpecial
  exact getElemBang_map_range _ _ i (by simpa using hi)

theorem div_mod_lt {i nA nB : ℕ} (hi : i < nA * nB) : i / nB < nA ∧ i % nB < nB := by
  have hB : 0 < nB := by
    rcases Nat.eq_zero_or_pos nB with h | h
    · rw [h] at hi; simp at hi
    · exact h
  exact ⟨by rw [Nat.div_lt_iff_lt_mul hB]; exact hi, Nat.mod_lt _ hB⟩

/-- **the pipeline's `rolled_up` at ℝ** (model's angular table in the engine, honest power in `makeC`, harmonics = the
model's harmonic polynomials at the directions): block (na, nb) for the reflected centres is the signed block -/
theorem rolledUp_reflect (E : Engine ℝ) (nf maxLam q lam LA LB : ℕ) (hnf : 2 * maxLam < nf)
    (hE : E.omega = omegaModel nf maxLam) (radials : ℕ → ℕ → ℕ → ℝ) (A B : ℝ × ℝ × ℝ) (vA vB : E3)
    (hla : lam + LA ≤ maxLam) (hlb : lam + LB ≤ maxLam) (i : ℕ)
    (hi : i < (cartList LA).length * (cartList LB).length) (mi : ℕ) :
    ((rolledUp E lam LA LB radials (cAt (makeCTab E (fun x n => x ^ n) LA (reflect3 q A)) LA)
        (cAt (makeCTab E (fun x n => x ^ n) LB (reflect3 q B)) LB)
        (harmTable E.fac (lam + LA) (reflectE q vA)) (harmTable E.fac (lam + LB) (reflectE q vB)))[i]!).getD mi 0
      = (-1) ^ (ecomp q ((cartList LA).toArray[i / (cartList LB).length]!)
                + ecomp q ((cartList LB).toArray[i % (cartList LB).length]!))
        * ((rolledUp E lam LA LB radials (cAt (makeCTab E (fun x n => x ^ n) LA A) LA)
            (cAt (makeCTab E (fun x n => x ^ n) LB B) LB)
            (harmTable E.fac (lam + LA) vA) (harmTable E.fac (lam + LB) vB))[i]!).getD mi 0 := by
  obtain ⟨hna, hnb⟩ := div_mod_lt hi
  rw [rolledUp_getElem E lam LA LB radials _ _ _ _ i hi, rolledUp_getElem E lam LA LB radials _ _ _ _ i hi, hE]
  exact model_type2_reflect E nf maxLam q lam LA LB _ _ hnf
    (fun C : ℝ => decide (Flt.ofRat 1 1000000000000000 < Flt.abs C)) (keep_model_neg _ _) _ radials A B vA vB
    hna hnb hla hlb mi

/-- **the pipeline's `rolled_up_special` at ℝ** -/
theorem rolledUpSpecial_reflect (E : Engine ℝ) (nf maxLam q lam LA LB : ℕ) (hnf : 2 * maxLam < nf)
    (hE : E.omega = omegaModel nf maxLam) (radials : ℕ → ℕ → ℕ → ℝ) (B : ℝ × ℝ × ℝ) (vB : E3)
    (hla : lam + LA ≤ maxLam) (hlb : lam + LB ≤ maxLam) (i : ℕ)
    (hi : i < (cartList LA).length * (cartList LB).length) (mi : ℕ) :
    ((rolledUpSpecial E lam LA LB radials (cAt (makeCTab E (fun x n => x ^ n) LB (reflect3 q B)) LB)
        (harmTable E.fac (lam + LB) (reflectE q vB)))[i]!).getD mi 0
      = (-1) ^ (ecomp q ((cartList LA).toArray[i / (cartList LB).length]!)
                + ecomp q ((cartList LB).toArray[i % (cartList LB).length]!))
        * ((rolledUpSpecial E lam LA LB radials (cAt (makeCTab E (fun x n => x ^ n) LB B) LB)
            (harmTable E.fac (lam + LB) vB))[i]!).getD mi 0 := by
  obtain ⟨hna, hnb⟩ := div_mod_lt hi
  rw [rolledUpSpecial_getElem E lam LA LB radials _ _ i hi, rolledUpSpecial_getElem E lam LA LB radials _ _ i hi, hE]
  exact model_type2_special_reflect E nf maxLam q lam LA LB _ _ hnf
    (fun C : ℝ => decide (Flt.ofRat 1 1000000000000000 < Flt.abs C)) (keep_model_neg _ _) _ radials B vB
    hna hnb hla hlb mi

end Stage3

/-! ### Stage 4: the model's harmonics evaluator `Angular.rsh` under the three reflections -/

section Stage4Rsh
open Ecpint Ecpint.Angular Ecpint.C13d

section RshDefs
variable {α : Type} [Flt α]

/-- the diagonal of the Legendre table: first loop of `rsh` -/
def legDiag (dfac : Array α) (lmax : Nat) (sox2 : α) (P0 : Array (Array α)) : Array (Array α) := Id.run do
  let mut P := P0
  let mut ox2m : α := 1
  for m in [1:lmax + 1] do
    ox2m := ox2m * (-sox2)
    P := P.set! m ((P[m]!).set! m (ox2m * dfac[2 * m - 1]!))
  return P

/-- the upward recursion in l: second loop of `rsh` -/
def legRec (lmax : Nat) (x : α) (P0 : Array (Array α)) : Array (Array α) := Id.run do
  let mut P := P0
  for l in [2:lmax + 1] do
    let o : α := x * (((2 * l - 1 : Nat) : Nat) : α)
    for m in [0:l] do
      let v := o * (P[l - 1]!)[m]! - (((l + m - 1 : Nat) : Nat) : α) * (P[l - 2]!)[m]!
      P := P.set! l ((P[l]!).set! m (v / (((l - m : Nat) : Nat) : α)))
    P := P.set! (l - 1) ((P[l - 1]!).set! l 0)
  return P

/-- the associated Legendre table P(l, m) of `rsh` -/
def legP (dfac : Array α) (lmax : Nat) (x : α) : Array (Array α) :=
  let x2 := x * x
  let P : Array (Array α) := Array.replicate (lmax + 1) (Array.replicate (lmax + 1) 0)
  let P := P.set! 0 ((P[0]!).set! 0 1)
  let t : α := 1 - x2
  let sox2 := Flt.sqrt (if (0 : α) < t then t else 0)
  let P := legDiag dfac lmax sox2 P
  let P := P.set! 1 ((P[1]!).set! 0 x)
  let P := P.set! 0 ((P[0]!).set! 1 0)
  legRec lmax x P

/-- one output row of `rsh` -/
def rshRow (fac : Array α) (P : Array (Array α)) (phi : α) (l : Nat) (row0 : Array α) : Array α := Id.run do
  let osq4pi : α := 1 / Flt.sqrt (((4 : Nat) : α) * Flt.pi)
  let mut row := row0
  row := row.set! l (osq4pi * Flt.sqrt (((2 : Nat) : α) * (l : α) + 1) * (P[l]!)[0]!)
  let mut sign : Int := -1
  for m in [1:l + 1] do
    let o : α := (((2 : Nat) : α) * (l : α) + 1) * fac[l - m]! / fac[l + m]!
    let o : α := ((sign : Int) : α) * osq4pi * Flt.sqrt (((2 : Nat) : α) * o) * (P[l]!)[m]!
    row := row.set! (l + m) (o * Flt.cos ((m : α) * phi))
    row := row.set! (l - m) (o * Flt.sin ((m : α) * phi))
    sign := -sign
  return row

/-- the output loop of `rsh` -/
def rshOut (fac : Array α) (lmax : Nat) (P : Array (Array α)) (phi : α) (out0 : Array (Array α)) : Array (Array α) := Id.run do
  let mut out := out0
  for l in [0:lmax + 1] do
    out := out.set! l (rshRow fac P phi l out[l]!)
  return out

theorem rsh_eq (fac dfac : Array α) (lmax : Nat) (x phi : α) :
    rsh fac dfac lmax x phi =
      if lmax > 0 then
        rshOut fac lmax (legP dfac lmax x) phi (Array.replicate (lmax + 1) (Array.replicate (2 * lmax + 1) 0))
      else
        (Array.replicate (lmax + 1) (Array.replicate (2 * lmax + 1) (0 : α))).set! 0
          (((Array.replicate (lmax + 1) (Array.replicate (2 * lmax + 1) (0 : α)))[0]!).set! 0 (1 / Flt.sqrt (((4 : Nat) : α) * Flt.pi))) := by
  rfl
end RshDefs

section RshRel
/- inside this section `a[i]!` on real arrays uses the same `Inhabited ℝ` instance as the model code specialised to ℝ -/
attribute [local instance 2000] Quad.instInhabitedOfNum

theorem default_real : (default : ℝ) = 0 := rfl

theorem getBang_set {β : Type} [Inhabited β] (a : Array β) (i j : ℕ) (v : β) :
    (a.setIfInBounds i v)[j]! = if i = j ∧ i < a.size then v else a[j]! := by
  simp only [Array.getElem!_eq_getD, Array.getD_eq_getD_getElem?, Array.getElem?_setIfInBounds]
  by_cases h : i = j
  · subst h
    by_cases h2 : i < a.size
    · simp [h2]
    · simp [h2]
  · simp [h]

theorem foldl_rel {σ τ ι : Type} (R : σ → τ → Prop) (f : σ → ι → σ) (g : τ → ι → τ) (l : List ι) (s : σ) (t : τ)
    (h0 : R s t) (hstep : ∀ i ∈ l, ∀ s t, R s t → R (f s i) (g t i)) : R (l.foldl f s) (l.foldl g t) := by
  induction l generalizing s t with
  | nil => exact h0
  | cons x l ih =>
    simp only [List.foldl_cons]
    exact ih _ _ (hstep x List.mem_cons_self s t h0) (fun i hi => hstep i (List.mem_cons_of_mem _ hi))

/-- two rows of the same length, entry m of the first = w m · entry m of the second -/
def Rel1 (w : ℕ → ℝ) (r' r : Array ℝ) : Prop := r'.size = r.size ∧ ∀ m, r'[m]! = w m * r[m]!

/-- two tables of the same shape, entry (l, m) of the first = w l m · entry (l, m) of the second -/
def Rel2 (w : ℕ → ℕ → ℝ) (P' P : Array (Array ℝ)) : Prop := P'.size = P.size ∧ ∀ l, Rel1 (w l) P'[l]! P[l]!

theorem Rel1_set {w : ℕ → ℝ} {r' r : Array ℝ} (h : Rel1 w r' r) (j : ℕ) {v' v : ℝ} (hv : v' = w j * v) :
    Rel1 w (r'.setIfInBounds j v') (r.setIfInBounds j v) := by
  refine ⟨by simp [h.1], fun m => ?_⟩
  rw [getBang_set, getBang_set, h.1]
  split_ifs with hc
  · rw [hv, hc.1]
  · exact h.2 m

theorem Rel2_set {w : ℕ → ℕ → ℝ} {P' P : Array (Array ℝ)} (h : Rel2 w P' P) (i : ℕ) {r' r : Array ℝ}
    (hr : Rel1 (w i) r' r) : Rel2 w (P'.setIfInBounds i r') (P.setIfInBounds i r) := by
  refine ⟨by simp [h.1], fun l => ?_⟩
  rw [getBang_set, getBang_set, h.1]
  split_ifs with hc
  · rw [← hc.1]; exact hr
  · exact h.2 l

theorem Rel2_set2 {w : ℕ → ℕ → ℝ} {P' P : Array (Array ℝ)} (h : Rel2 w P' P) (i j : ℕ) {v' v : ℝ}
    (hv : v' = w i j * v) :
    Rel2 w (P'.setIfInBounds i (P'[i]!.setIfInBounds j v')) (P.setIfInBounds i (P[i]!.setIfInBounds j v)) :=
  Rel2_set h i (Rel1_set (h.2 i) j hv)

theorem Rel2_get {w : ℕ → ℕ → ℝ} {P' P : Array (Array ℝ)} (h : Rel2 w P' P) (i j : ℕ) :
    (P'[i]!)[j]! = w i j * (P[i]!)[j]! := (h.2 i).2 j

theorem Rel1_replicate (w : ℕ → ℝ) (n : ℕ) : Rel1 w (Array.replicate n 0) (Array.replicate n 0) := by
  refine ⟨rfl, fun m => ?_⟩
  by_cases h : m < n
  · simp [h]
  · simp [h, default_real]

theorem Rel2_replicate (w : ℕ → ℕ → ℝ) (n k : ℕ) :
    Rel2 w (Array.replicate n (Array.replicate k 0)) (Array.replicate n (Array.replicate k 0)) := by
  refine ⟨rfl, fun l => ?_⟩
  by_cases h : l < n
  · simp only [getElem!_pos, Array.size_replicate, h, Array.getElem_replicate]
    exact Rel1_replicate _ _
  · have : (Array.replicate n (Array.replicate k (0 : ℝ)))[l]! = #[] := by simp [h]; rfl
    rw [this]
    exact ⟨rfl, fun m => by simp [default_real]⟩


theorem legDiag_eq (dfac : Array ℝ) (lmax : ℕ) (sox2 : ℝ) (P0 : Array (Array ℝ)) :
    legDiag dfac lmax sox2 P0
      = (List.foldl (fun (b : Array (Array ℝ) × ℝ) a =>
          (b.1.setIfInBounds a (b.1[a]!.setIfInBounds a (b.2 * -sox2 * dfac[2 * a - 1]!)), b.2 * -sox2))
        (P0, 1) (List.range' 1 lmax)).1 := by
  unfold legDiag
  simp

theorem legRec_eq (lmax : ℕ) (x : ℝ) (P0 : Array (Array ℝ)) :
    legRec lmax x P0
      = List.foldl (fun (b : Array (Array ℝ)) a =>
          (List.foldl (fun (b : Array (Array ℝ)) a_1 =>
              b.setIfInBounds a (b[a]!.setIfInBounds a_1
                ((x * ((2 * a - 1 : ℕ) : ℝ) * (b[a - 1]!)[a_1]! - ((a + a_1 - 1 : ℕ) : ℝ) * (b[a - 2]!)[a_1]!) / ((a - a_1 : ℕ) : ℝ))))
              b (List.range' 0 a)).setIfInBounds (a - 1)
            ((List.foldl (fun (b : Array (Array ℝ)) a_1 =>
              b.setIfInBounds a (b[a]!.setIfInBounds a_1
                ((x * ((2 * a - 1 : ℕ) : ℝ) * (b[a - 1]!)[a_1]! - ((a + a_1 - 1 : ℕ) : ℝ) * (b[a - 2]!)[a_1]!) / ((a - a_1 : ℕ) : ℝ))))
              b (List.range' 0 a))[a - 1]!.setIfInBounds a 0))
        P0 (List.range' 2 (lmax - 1)) := by
  unfold legRec
  simp

theorem pow_add_two_of_sq {s : ℝ} (hs : s * s = 1) (n : ℕ) : s ^ (n + 2) = s ^ n := by
  rw [pow_add, pow_two, hs, mul_one]

theorem pow_two_mul_of_sq {s : ℝ} (hs : s * s = 1) (n : ℕ) : s ^ (n + n) = 1 := by
  rw [← two_mul, pow_mul, pow_two, hs, one_pow]

/-- the associated Legendre table: P_l^m(s·x) = s^(l+m) P_l^m(x) for s = ±1, entry by entry, as the code computes it -/
theorem legP_rel (dfac : Array ℝ) (lmax : ℕ) (s x : ℝ) (hs : s * s = 1) :
    Rel2 (fun l m => s ^ (l + m)) (legP dfac lmax (s * x)) (legP dfac lmax x) := by
  have hx2 : s * x * (s * x) = x * x := by linear_combination (x * x) * hs
  unfold legP
  simp only [hx2, Array.set!_eq_setIfInBounds]
  rw [legRec_eq, legRec_eq]
  refine foldl_rel (Rel2 fun l m => s ^ (l + m)) _ _ _ _ _ ?_ ?_
  · -- the table before the recursion in l
    refine Rel2_set2 ?_ 0 1 (by simp)
    refine Rel2_set2 ?_ 1 0 (by simp)
    rw [legDiag_eq]
    refine (foldl_rel (fun (b' b : Array (Array ℝ) × ℝ) => Rel2 (fun l m => s ^ (l + m)) b'.1 b.1 ∧ b'.2 = b.2)
      _ _ _ _ _ ⟨?_, rfl⟩ ?_).1
    · exact Rel2_set2 (Rel2_replicate _ _ _) 0 0 (by simp)
    · rintro a - b' b ⟨h1, h2⟩
      refine ⟨Rel2_set2 h1 a a ?_, by rw [h2]⟩
      rw [h2, pow_two_mul_of_sq hs, one_mul]
  · intro a ha P' P hP
    have ha2 : 2 ≤ a := (List.mem_range'_1.mp ha).1
    have hin : Rel2 (fun l m => s ^ (l + m))
        (List.foldl (fun (b : Array (Array ℝ)) a_1 =>
              b.setIfInBounds a (b[a]!.setIfInBounds a_1
                ((s * x * ((2 * a - 1 : ℕ) : ℝ) * (b[a - 1]!)[a_1]! - ((a + a_1 - 1 : ℕ) : ℝ) * (b[a - 2]!)[a_1]!) / ((a - a_1 : ℕ) : ℝ))))
              P' (List.range' 0 a))
        (List.foldl (fun (b : Array (Array ℝ)) a_1 =>
              b.setIfInBounds a (b[a]!.setIfInBounds a_1
                ((x * ((2 * a - 1 : ℕ) : ℝ) * (b[a - 1]!)[a_1]! - ((a + a_1 - 1 : ℕ) : ℝ) * (b[a - 2]!)[a_1]!) / ((a - a_1 : ℕ) : ℝ))))
              P (List.range' 0 a)) := by
      refine foldl_rel (Rel2 fun l m => s ^ (l + m)) _ _ _ _ _ hP ?_
      intro m _ Q' Q hQ
      refine Rel2_set2 hQ a m ?_
      rw [Rel2_get hQ (a - 1) m, Rel2_get hQ (a - 2) m]
      have e1 : s * s ^ (a - 1 + m) = s ^ (a + m) := by
        rw [← pow_succ']; congr 1; omega
      have e2 : s ^ (a - 2 + m) = s ^ (a + m) := by
        rw [← pow_add_two_of_sq hs (a - 2 + m)]; congr 1; omega
      rw [e2, ← e1]
      ring
    exact Rel2_set2 hin (a - 1) a (by simp)

theorem flt_cos (x : ℝ) : Flt.cos x = Real.cos x := rfl
theorem flt_sin (x : ℝ) : Flt.sin x = Real.sin x := rfl

/-- one output row, relationally: the hypotheses are stated on the entries of the two Legendre tables -/
theorem rshRow_rel (fac : Array ℝ) (phi phi' : ℝ) (P' P : Array (Array ℝ)) (l : ℕ) (wr : ℕ → ℝ)
    (h0 : (P'[l]!)[0]! = wr l * (P[l]!)[0]!)
    (hcs : ∀ a : ℕ, 1 ≤ a → a ≤ l →
      (P'[l]!)[a]! * Real.cos (a * phi') = wr (l + a) * ((P[l]!)[a]! * Real.cos (a * phi)))
    (hsn : ∀ a : ℕ, 1 ≤ a → a ≤ l →
      (P'[l]!)[a]! * Real.sin (a * phi') = wr (l - a) * ((P[l]!)[a]! * Real.sin (a * phi)))
    (row' row : Array ℝ) (hrow : Rel1 wr row' row) :
    Rel1 wr (rshRow fac P' phi' l row') (rshRow fac P phi l row) := by
  unfold rshRow
  simp only [Array.set!_eq_setIfInBounds, Std.Legacy.Range.forIn_eq_forIn_range', Std.Legacy.Range.size,
    add_tsub_cancel_right, Nat.div_one, List.forIn_pure_yield_eq_foldl, bind_pure_comp, map_pure, Id.run_pure,
    flt_cos, flt_sin]
  refine (foldl_rel (fun (b' b : Array ℝ × ℤ) => Rel1 wr b'.1 b.1 ∧ b'.2 = b.2)
      _ _ _ _ _ (And.intro ?h1 ?h2) ?h3).1
  case h2 => rfl
  case h1 =>
    refine Rel1_set hrow l ?_
    rw [h0]
    ring
  case h3 =>
    rintro a ha b' b ⟨h1, h2⟩
    have ha1 : 1 ≤ a := (List.mem_range'_1.mp ha).1
    have ha2 : a ≤ l := by have := (List.mem_range'_1.mp ha).2; omega
    refine ⟨Rel1_set (Rel1_set h1 (l + a) ?_) (l - a) ?_, by rw [h2]⟩
    · rw [h2]
      linear_combination ((b.2 : ℝ) * (1 / Flt.sqrt (((4 : ℕ) : ℝ) * Flt.pi))
        * Flt.sqrt (((2 : ℕ) : ℝ) * ((((2 : ℕ) : ℝ) * (l : ℝ) + 1) * fac[l - a]! / fac[l + a]!))) * hcs a ha1 ha2
    · rw [h2]
      linear_combination ((b.2 : ℝ) * (1 / Flt.sqrt (((4 : ℕ) : ℝ) * Flt.pi))
        * Flt.sqrt (((2 : ℕ) : ℝ) * ((((2 : ℕ) : ℝ) * (l : ℝ) + 1) * fac[l - a]! / fac[l + a]!))) * hsn a ha1 ha2

theorem rshOut_rel (fac : Array ℝ) (lmax : ℕ) (phi phi' : ℝ) (P' P : Array (Array ℝ)) (w : ℕ → ℕ → ℝ)
    (h0 : ∀ l, (P'[l]!)[0]! = w l l * (P[l]!)[0]!)
    (hcs : ∀ l a : ℕ, 1 ≤ a → a ≤ l →
      (P'[l]!)[a]! * Real.cos (a * phi') = w l (l + a) * ((P[l]!)[a]! * Real.cos (a * phi)))
    (hsn : ∀ l a : ℕ, 1 ≤ a → a ≤ l →
      (P'[l]!)[a]! * Real.sin (a * phi') = w l (l - a) * ((P[l]!)[a]! * Real.sin (a * phi)))
    (out' out : Array (Array ℝ)) (hout : Rel2 w out' out) :
    Rel2 w (rshOut fac lmax P' phi' out') (rshOut fac lmax P phi out) := by
  unfold rshOut
  simp only [Array.set!_eq_setIfInBounds, Std.Legacy.Range.forIn_eq_forIn_range', Std.Legacy.Range.size,
    add_tsub_cancel_right, Nat.div_one, List.forIn_pure_yield_eq_foldl]
  refine foldl_rel (Rel2 w) _ _ _ _ _ hout ?_
  intro l _ o' o ho
  exact Rel2_set ho l (rshRow_rel fac phi phi' P' P l (w l) (h0 l) (hcs l) (hsn l) _ _ (ho.2 l))

/-- **the harmonics evaluator, relationally, general form**: if the Legendre tables and the angles of two calls are
related entry by entry in the way the output loop uses them, the two harmonics tables have the same shape and entry
(l, idx) of the first is w l idx times that of the second -/
theorem rsh_rel_gen (fac dfac : Array ℝ) (lmax : ℕ) (x x' phi phi' : ℝ) (w : ℕ → ℕ → ℝ) (hw0 : w 0 0 = 1)
    (h0 : ∀ l, ((legP dfac lmax x')[l]!)[0]! = w l l * ((legP dfac lmax x)[l]!)[0]!)
    (hcs : ∀ l a : ℕ, 1 ≤ a → a ≤ l → ((legP dfac lmax x')[l]!)[a]! * Real.cos (a * phi')
      = w l (l + a) * (((legP dfac lmax x)[l]!)[a]! * Real.cos (a * phi)))
    (hsn : ∀ l a : ℕ, 1 ≤ a → a ≤ l → ((legP dfac lmax x')[l]!)[a]! * Real.sin (a * phi')
      = w l (l - a) * (((legP dfac lmax x)[l]!)[a]! * Real.sin (a * phi))) :
    Rel2 w (rsh fac dfac lmax x' phi') (rsh fac dfac lmax x phi) := by
  rw [rsh_eq, rsh_eq]
  split_ifs with h
  · exact rshOut_rel fac lmax phi phi' _ _ w h0 hcs hsn _ _ (Rel2_replicate _ _ _)
  · exact Rel2_set2 (Rel2_replicate _ _ _) 0 0 (by rw [hw0, one_mul])

/-- the weight of entry (l, idx) of the harmonics table: s^(l + |mu|) times the factor of cos(|mu| φ) resp. sin(|mu| φ) -/
def wOut (s : ℝ) (c d : ℕ → ℝ) (l idx : ℕ) : ℝ :=
  s ^ (l + muOf l idx) * (if idx ≥ l then c (muOf l idx) else d (muOf l idx))

/-- **the harmonics evaluator under x ↦ s·x (s = ±1) and φ ↦ φ'** with cos(m φ') = c_m cos(m φ), sin(m φ') = d_m sin(m φ):
entry (l, idx) is multiplied by s^(l+|mu|) c_|mu| (idx ≥ l) resp. s^(l+|mu|) d_|mu| (idx < l) -/
theorem rsh_rel (fac dfac : Array ℝ) (lmax : ℕ) (s x : ℝ) (hs : s * s = 1) (c d : ℕ → ℝ) (hc0 : c 0 = 1) (phi phi' : ℝ)
    (hc : ∀ m : ℕ, 1 ≤ m → Real.cos (m * phi') = c m * Real.cos (m * phi))
    (hd : ∀ m : ℕ, 1 ≤ m → Real.sin (m * phi') = d m * Real.sin (m * phi)) :
    Rel2 (wOut s c d) (rsh fac dfac lmax (s * x) phi') (rsh fac dfac lmax x phi) := by
  have hP := legP_rel dfac lmax s x hs
  refine rsh_rel_gen fac dfac lmax x (s * x) phi phi' _ ?_ ?_ ?_ ?_
  · unfold wOut muOf; simp [hc0]
  · intro l
    rw [Rel2_get hP l 0]
    unfold wOut muOf
    simp [hc0]
  · intro l a ha1 ha2
    rw [Rel2_get hP l a, hc a ha1]
    have e : wOut s c d l (l + a) = s ^ (l + a) * c a := by
      unfold wOut muOf
      have h3 : l + a ≥ l := by omega
      simp only [h3, if_true, Nat.add_sub_cancel_left]
    rw [e]; ring
  · intro l a ha1 ha2
    rw [Rel2_get hP l a, hd a ha1]
    have e : wOut s c d l (l - a) = s ^ (l + a) * d a := by
      unfold wOut muOf
      have h3 : ¬ l - a ≥ l := by omega
      have h4 : l - (l - a) = a := by omega
      simp only [h3, if_false, h4]
    rw [e]; ring

/-- reading a table through `get2` -/
theorem get2_eq_bang (S : Array (Array ℝ)) (l m : ℕ) : get2 S l m = (S[l]!)[m]! := by
  unfold get2
  rw [Array.getElem!_eq_getD, Array.getElem!_eq_getD]
  rfl

theorem Rel2_get2 {w : ℕ → ℕ → ℝ} {P' P : Array (Array ℝ)} (h : Rel2 w P' P) (l m : ℕ) :
    get2 P' l m = w l m * get2 P l m := by
  rw [get2_eq_bang, get2_eq_bang]; exact Rel2_get h l m

/-- multiples of an angle whose cosine / sine are those of φ up to signs a, b = ±1 -/
theorem trig_mult (a b phi phi' : ℝ) (ha : a * a = 1) (hb : b * b = 1)
    (h1 : Real.cos phi' = a * Real.cos phi) (h2 : Real.sin phi' = b * Real.sin phi) (m : ℕ) :
    Real.cos (m * phi') = a ^ m * Real.cos (m * phi) ∧ Real.sin (m * phi') = a ^ (m + 1) * b * Real.sin (m * phi) := by
  induction m with
  | zero => simp
  | succ m ih =>
    obtain ⟨ic, is⟩ := ih
    have e : ∀ t : ℝ, ((m + 1 : ℕ) : ℝ) * t = m * t + t := fun t => by push_cast; ring
    rw [e, e, Real.cos_add, Real.sin_add, Real.cos_add, Real.sin_add, ic, is, h1, h2]
    have ha2 : a ^ 2 = 1 := by rw [pow_two, ha]
    have hb2 : b ^ 2 = 1 := by rw [pow_two, hb]
    constructor
    · linear_combination (-(a ^ (m + 1) * Real.sin (m * phi) * Real.sin phi)) * hb2
    · linear_combination (-(a ^ m * b * Real.cos (m * phi) * Real.sin phi)) * ha2

/-- at the poles (x² ≥ 1, so that sqrt(max(0, 1 − x²)) = 0) the associated Legendre table has P_l^m = 0 for m ≥ 1 -/
theorem legP_pole_rel (dfac : Array ℝ) (lmax : ℕ) (x : ℝ) (hx : 1 - x * x ≤ 0) :
    Rel2 (fun _ m => if m = 0 then 1 else 0) (legP dfac lmax x) (legP dfac lmax x) := by
  have hx' : ¬ (0 : ℝ) < 1 - x * x := not_lt.mpr hx
  unfold legP
  simp only [hx', if_false, flt_sqrt, Real.sqrt_zero, Array.set!_eq_setIfInBounds]
  rw [legRec_eq]
  refine foldl_rel (Rel2 fun _ m => if m = 0 then 1 else 0) _ _ _ _ _ ?_ ?_
  · refine Rel2_set2 ?_ 0 1 (by simp)
    refine Rel2_set2 ?_ 1 0 (by simp)
    rw [legDiag_eq]
    refine (foldl_rel (fun (b' b : Array (Array ℝ) × ℝ) => Rel2 (fun _ m => if m = 0 then (1 : ℝ) else 0) b'.1 b.1 ∧ b'.2 = b.2)
      _ _ _ _ _ (And.intro ?h1 ?h2) ?h3).1
    case h2 => rfl
    case h1 => exact Rel2_set2 (Rel2_replicate _ _ _) 0 0 (by simp)
    case h3 =>
      rintro a - b' b ⟨h1, h2⟩
      exact ⟨Rel2_set2 h1 a a (by simp), by rw [h2]⟩
  · intro a ha P' P hP
    refine Rel2_set2 ?_ (a - 1) a (by simp)
    refine foldl_rel (Rel2 fun _ m => if m = 0 then 1 else 0) _ _ _ _ _ hP ?_
    intro m _ Q' Q hQ
    refine Rel2_set2 hQ a m ?_
    rw [Rel2_get hQ (a - 1) m, Rel2_get hQ (a - 2) m]
    by_cases hm : m = 0
    · simp [hm]
    · simp [hm]

theorem legP_pole (dfac : Array ℝ) (lmax : ℕ) (x : ℝ) (hx : 1 - x * x ≤ 0) (l a : ℕ) (ha : 1 ≤ a) :
    ((legP dfac lmax x)[l]!)[a]! = 0 := by
  have := Rel2_get (legP_pole_rel dfac lmax x hx) l a
  rw [if_neg (by omega), zero_mul] at this
  exact this

/-- at the poles the harmonics with mu ≠ 0 vanish, whatever φ -/
theorem rsh_pole (fac dfac : Array ℝ) (lmax : ℕ) (x phi : ℝ) (hx : 1 - x * x ≤ 0) (l m : ℕ) (hm : m ≠ l) :
    get2 (rsh fac dfac lmax x phi) l m = 0 := by
  have h := rsh_rel_gen fac dfac lmax x x phi phi (fun l m => if m = l then 1 else 0) (by simp)
    (fun l => by simp)
    (fun l a ha1 _ => by rw [legP_pole dfac lmax x hx l a ha1]; simp)
    (fun l a ha1 _ => by rw [legP_pole dfac lmax x hx l a ha1]; simp)
  have := Rel2_get2 h l m
  rw [if_neg hm, zero_mul] at this
  exact this

/-- z ↦ −z: cos θ changes sign, φ stays -/
theorem rsh_reflect_z (fac dfac : Array ℝ) (lmax q : ℕ) (hq0 : q ≠ 0) (hq1 : q ≠ 1) (x phi : ℝ) (l m : ℕ) :
    get2 (rsh fac dfac lmax (-x) phi) l m = sigR q l m * get2 (rsh fac dfac lmax x phi) l m := by
  have h := rsh_rel fac dfac lmax (-1) x (by norm_num) (fun _ => 1) (fun _ => 1) rfl phi phi
    (fun m _ => by rw [one_mul]) (fun m _ => by rw [one_mul])
  rw [neg_one_mul] at h
  rw [Rel2_get2 h l m]
  congr 1
  unfold wOut sigR parR
  simp only [hq0, hq1, if_false, ite_self, mul_one]
  apply neg_one_pow_congr
  unfold muOf
  split_ifs <;> omega

/-- y ↦ −y: φ ↦ φ' with cos φ' = cos φ, sin φ' = −sin φ -/
theorem rsh_reflect_y (fac dfac : Array ℝ) (lmax : ℕ) (x phi phi' : ℝ)
    (h1 : Real.cos phi' = Real.cos phi) (h2 : Real.sin phi' = -Real.sin phi) (l m : ℕ) :
    get2 (rsh fac dfac lmax x phi') l m = sigR 1 l m * get2 (rsh fac dfac lmax x phi) l m := by
  have ht := trig_mult 1 (-1) phi phi' (by norm_num) (by norm_num) (by rw [h1, one_mul]) (by rw [h2]; ring)
  have h := rsh_rel fac dfac lmax 1 x (by norm_num) (fun m => 1 ^ m) (fun m => 1 ^ (m + 1) * (-1)) (by simp) phi phi'
    (fun m _ => (ht m).1) (fun m _ => (ht m).2)
  rw [one_mul] at h
  rw [Rel2_get2 h l m]
  congr 1
  unfold wOut sigR parR cOf
  simp only [one_pow, one_mul, one_ne_zero, if_false, if_true]
  split_ifs <;> first | rfl | omega | simp

/-- x ↦ −x: φ ↦ φ' with cos φ' = −cos φ, sin φ' = sin φ -/
theorem rsh_reflect_x (fac dfac : Array ℝ) (lmax : ℕ) (x phi phi' : ℝ)
    (h1 : Real.cos phi' = -Real.cos phi) (h2 : Real.sin phi' = Real.sin phi) (l m : ℕ) :
    get2 (rsh fac dfac lmax x phi') l m = sigR 0 l m * get2 (rsh fac dfac lmax x phi) l m := by
  have ht := trig_mult (-1) 1 phi phi' (by norm_num) (by norm_num) (by rw [h1]; ring) (by rw [h2, one_mul])
  have h := rsh_rel fac dfac lmax 1 x (by norm_num) (fun m => (-1) ^ m) (fun m => (-1) ^ (m + 1) * 1) (by simp) phi phi'
    (fun m _ => (ht m).1) (fun m _ => (ht m).2)
  rw [one_mul] at h
  rw [Rel2_get2 h l m]
  congr 1
  unfold wOut sigR parR cOf
  simp only [one_pow, one_mul, mul_one, if_true]
  split_ifs <;> first | rfl | omega

/-- cos θ of the direction of `A` as `type2` forms it (`Am` = |A|) -/
noncomputable def dirX (A : ℝ × ℝ × ℝ) (Am : ℝ) : ℝ := if 0 < Am then A.2.2 / Am else 0
/-- the azimuth of the direction of `A` as `type2` forms it -/
noncomputable def dirPhi (A : ℝ × ℝ × ℝ) : ℝ := Flt.atan2 A.2.1 A.1

theorem dirPhi_eq (A : ℝ × ℝ × ℝ) : dirPhi A = Complex.arg ⟨A.1, A.2.1⟩ := rfl

theorem norm_mk_neg_re (x y : ℝ) : ‖(⟨-x, y⟩ : ℂ)‖ = ‖(⟨x, y⟩ : ℂ)‖ := by
  simp [Complex.norm_def, Complex.normSq_mk]

theorem norm_mk_neg_im (x y : ℝ) : ‖(⟨x, -y⟩ : ℂ)‖ = ‖(⟨x, y⟩ : ℂ)‖ := by
  simp [Complex.norm_def, Complex.normSq_mk]

/-- **(hS) for the model's harmonics evaluator**: the table `type2` computes for the reflected centre difference is the
table for the original one with entry (l, m) multiplied by σ_q l m — all three reflections, all directions (at the
poles the entries whose sign would be −1 vanish) -/
theorem rsh_reflect_dir (fac dfac : Array ℝ) (lmax q : ℕ) (A : ℝ × ℝ × ℝ) (Am : ℝ) (hAm : 0 < Am)
    (hn : Am * Am = A.1 * A.1 + A.2.1 * A.2.1 + A.2.2 * A.2.2) (l m : ℕ) :
    get2 (rsh fac dfac lmax (dirX (reflect3 q A) Am) (dirPhi (reflect3 q A))) l m
      = sigR q l m * get2 (rsh fac dfac lmax (dirX A Am) (dirPhi A)) l m := by
  by_cases h0 : q = 0
  · subst h0
    have e1 : dirX (reflect3 0 A) Am = dirX A Am := by simp [dirX, reflect3]
    rw [e1]
    by_cases hz : (⟨A.1, A.2.1⟩ : ℂ) = 0
    · -- the direction is a pole
      have hx : A.1 = 0 := by have := congrArg Complex.re hz; simpa using this
      have hy : A.2.1 = 0 := by have := congrArg Complex.im hz; simpa using this
      have e2 : dirPhi (reflect3 0 A) = dirPhi A := by simp [dirPhi, reflect3, hx]
      rw [e2]
      by_cases hml : m = l
      · subst hml
        have : sigR 0 m m = 1 := by unfold sigR parR muOf cOf; simp
        rw [this, one_mul]
      · have hpole : 1 - dirX A Am * dirX A Am ≤ 0 := by
          unfold dirX
          rw [if_pos hAm, div_mul_div_comm, hn, hx, hy]
          have : A.2.2 * A.2.2 ≠ 0 := by
            intro h; rw [hx, hy, h] at hn; simp at hn; exact hAm.ne' hn
          simp only [mul_zero, zero_add]
          rw [div_self this]; norm_num
        rw [rsh_pole fac dfac lmax _ _ hpole l m hml, mul_zero]
    · have hz' : (⟨-A.1, A.2.1⟩ : ℂ) ≠ 0 := by
        intro h; apply hz
        have hx : A.1 = 0 := by have := congrArg Complex.re h; simpa using this
        have hy : A.2.1 = 0 := by have := congrArg Complex.im h; simpa using this
        rw [hx, hy]; rfl
      refine rsh_reflect_x fac dfac lmax _ _ _ ?_ ?_ l m
      · show Real.cos (Complex.arg ⟨-A.1, A.2.1⟩) = -Real.cos (Complex.arg ⟨A.1, A.2.1⟩)
        rw [Complex.cos_arg hz', Complex.cos_arg hz, norm_mk_neg_re]
        simp [neg_div]
      · show Real.sin (Complex.arg ⟨-A.1, A.2.1⟩) = Real.sin (Complex.arg ⟨A.1, A.2.1⟩)
        rw [Complex.sin_arg, Complex.sin_arg, norm_mk_neg_re]
  · by_cases h1 : q = 1
    · subst h1
      have e1 : dirX (reflect3 1 A) Am = dirX A Am := by simp [dirX, reflect3]
      rw [e1]
      refine rsh_reflect_y fac dfac lmax _ _ _ ?_ ?_ l m
      · show Real.cos (Complex.arg ⟨A.1, -A.2.1⟩) = Real.cos (Complex.arg ⟨A.1, A.2.1⟩)
        by_cases hz : (⟨A.1, A.2.1⟩ : ℂ) = 0
        · have hy : A.2.1 = 0 := by have := congrArg Complex.im hz; simpa using this
          rw [hy, neg_zero]
        · have hz' : (⟨A.1, -A.2.1⟩ : ℂ) ≠ 0 := by
            intro h; apply hz
            have hx : A.1 = 0 := by have := congrArg Complex.re h; simpa using this
            have hy : A.2.1 = 0 := by have := congrArg Complex.im h; simpa using this
            rw [hx, hy]; rfl
          rw [Complex.cos_arg hz', Complex.cos_arg hz, norm_mk_neg_im]
      · show Real.sin (Complex.arg ⟨A.1, -A.2.1⟩) = -Real.sin (Complex.arg ⟨A.1, A.2.1⟩)
        rw [Complex.sin_arg, Complex.sin_arg, norm_mk_neg_im]
        simp [neg_div]
    · have e1 : dirX (reflect3 q A) Am = -dirX A Am := by simp [dirX, reflect3, h0, h1, hAm, neg_div]
      have e2 : dirPhi (reflect3 q A) = dirPhi A := by simp [dirPhi, reflect3, h0, h1]
      rw [e1, e2]
      exact rsh_reflect_z fac dfac lmax q h0 h1 _ _ l m

end RshRel


end Stage4Rsh

section Stage4
open Ecpint Ecpint.Angular Ecpint.C13c Ecpint.C13d Ecpint.ShellPair

/-! ### Stage 4, assembled: the pipeline's `rolled_up` / `rolled_up_special` at ℝ with the model's own harmonics
evaluator `rsh` called the way `type2` calls it -/

/-- **type 2, general position, the model's own binomial tables AND harmonics evaluator** -/
theorem rolledUp_reflect_rsh (E : Engine ℝ) (nf maxLam q lam LA LB : ℕ) (hnf : 2 * maxLam < nf)
    (hE : E.omega = omegaModel nf maxLam) (radials : ℕ → ℕ → ℕ → ℝ) (A B : ℝ × ℝ × ℝ) (Am Bm : ℝ)
    (hAm : 0 < Am) (hnA : Am * Am = A.1 * A.1 + A.2.1 * A.2.1 + A.2.2 * A.2.2)
    (hBm : 0 < Bm) (hnB : Bm * Bm = B.1 * B.1 + B.2.1 * B.2.1 + B.2.2 * B.2.2)
    (hla : lam + LA ≤ maxLam) (hlb : lam + LB ≤ maxLam) (i : ℕ)
    (hi : i < (cartList LA).length * (cartList LB).length) (mi : ℕ) :
    ((rolledUp E lam LA LB radials (cAt (makeCTab E (fun x n => x ^ n) LA (reflect3 q A)) LA)
        (cAt (makeCTab E (fun x n => x ^ n) LB (reflect3 q B)) LB)
        (rsh E.fac E.dfac (lam + LA) (dirX (reflect3 q A) Am) (dirPhi (reflect3 q A)))
        (rsh E.fac E.dfac (lam + LB) (dirX (reflect3 q B) Bm) (dirPhi (reflect3 q B))))[i]!).getD mi 0
      = (-1) ^ (ecomp q ((cartList LA).toArray[i / (cartList LB).length]!)
                + ecomp q ((cartList LB).toArray[i % (cartList LB).length]!))
        * ((rolledUp E lam LA LB radials (cAt (makeCTab E (fun x n => x ^ n) LA A) LA)
            (cAt (makeCTab E (fun x n => x ^ n) LB B) LB)
            (rsh E.fac E.dfac (lam + LA) (dirX A Am) (dirPhi A))
            (rsh E.fac E.dfac (lam + LB) (dirX B Bm) (dirPhi B)))[i]!).getD mi 0 := by
  obtain ⟨hna, hnb⟩ := div_mod_lt hi
  rw [rolledUp_getElem E lam LA LB radials _ _ _ _ i hi, rolledUp_getElem E lam LA LB radials _ _ _ _ i hi, hE]
  have hta := cartList_getElem_tsum LA _ hna
  have htb := cartList_getElem_tsum LB _ hnb
  refine model_rolledUpBlock_reflect nf maxLam q lam hnf
    (fun C : ℝ => decide (Flt.ofRat 1 1000000000000000 < Flt.abs C)) (keep_model_neg _ _) _ radials _ _ _ _ _ _ _ _ _ _
    (by omega) (by omega) ?_ ?_ ?_ ?_ mi
  · intro l m _ _
    exact rsh_reflect_dir E.fac E.dfac (lam + LA) q A Am hAm hnA l m
  · intro l m _ _
    exact rsh_reflect_dir E.fac E.dfac (lam + LB) q B Bm hBm hnB l m
  · intro k l m h
    exact cAt_makeCTab_reflect E LA A q _ k l m hna h
  · intro k l m h
    exact cAt_makeCTab_reflect E LB B q _ k l m hnb h

/-- **type 2, shell A on the ECP centre, the model's own binomial table AND harmonics evaluator** -/
theorem rolledUpSpecial_reflect_rsh (E : Engine ℝ) (nf maxLam q lam LA LB : ℕ) (hnf : 2 * maxLam < nf)
    (hE : E.omega = omegaModel nf maxLam) (radials : ℕ → ℕ → ℕ → ℝ) (B : ℝ × ℝ × ℝ) (Bm : ℝ)
    (hBm : 0 < Bm) (hnB : Bm * Bm = B.1 * B.1 + B.2.1 * B.2.1 + B.2.2 * B.2.2)
    (hla : lam + LA ≤ maxLam) (hlb : lam + LB ≤ maxLam) (i : ℕ)
    (hi : i < (cartList LA).length * (cartList LB).length) (mi : ℕ) :
    ((rolledUpSpecial E lam LA LB radials (cAt (makeCTab E (fun x n => x ^ n) LB (reflect3 q B)) LB)
        (rsh E.fac E.dfac (lam + LB) (dirX (reflect3 q B) Bm) (dirPhi (reflect3 q B))))[i]!).getD mi 0
      = (-1) ^ (ecomp q ((cartList LA).toArray[i / (cartList LB).length]!)
                + ecomp q ((cartList LB).toArray[i % (cartList LB).length]!))
        * ((rolledUpSpecial E lam LA LB radials (cAt (makeCTab E (fun x n => x ^ n) LB B) LB)
            (rsh E.fac E.dfac (lam + LB) (dirX B Bm) (dirPhi B)))[i]!).getD mi 0 := by
  obtain ⟨hna, hnb⟩ := div_mod_lt hi
  rw [rolledUpSpecial_getElem E lam LA LB radials _ _ i hi, rolledUpSpecial_getElem E lam LA LB radials _ _ i hi, hE]
  have hta := cartList_getElem_tsum LA _ hna
  have htb := cartList_getElem_tsum LB _ hnb
  refine model_rolledUpSpecialBlock_reflect nf maxLam q lam hnf
    (fun C : ℝ => decide (Flt.ofRat 1 1000000000000000 < Flt.abs C)) (keep_model_neg _ _) _ radials _ _ _ _ _ _
    (by omega) (by omega) ?_ ?_ mi
  · intro l m _ _
    exact rsh_reflect_dir E.fac E.dfac (lam + LB) q B Bm hBm hnB l m
  · intro k l m h
    exact cAt_makeCTab_reflect E LB B q _ k l m hnb h

end Stage4

end Ecpint.C08b
