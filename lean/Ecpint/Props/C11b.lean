/- C11 (part b) — the remaining table accesses of the shell-pair routine stay inside the angular tables of an engine built
   for (LB, LE): type-1 table W with dims (wDim+1)³ × (maxL+1) × 2(maxL+1), wDim = max(4 LB, 3 LB + LE),
   maxL = max(2 LB, LB + LE); type-2 table as in C11.  Index arithmetic mirrored from angular.cpp, ecpint.cpp, qgen.cpp. -/
namespace Ecpint.C11

/-- `ECPIntegral::type1` reads W(k, l, m, lam, lam ± mu) with k = k1 + k2 etc. bounded by the two shells' exponents,
lam ≤ k + l + m, mu ≤ lam: all five indices are inside the table whenever both shells are within the engine's limit -/
theorem type1_W_in_range (LBe LE LA LB k l m lam mu : Nat)
    (hLA : LA ≤ LBe) (hLB : LB ≤ LBe) (hk : k + l + m ≤ LA + LB) (hlam : lam ≤ k + l + m) (hmu : mu ≤ lam) :
    k < max (4 * LBe) (3 * LBe + LE) + 1 ∧ l < max (4 * LBe) (3 * LBe + LE) + 1 ∧ m < max (4 * LBe) (3 * LBe + LE) + 1 ∧
      lam < max (2 * LBe) (LBe + LE) + 1 ∧ lam + mu < 2 * (max (2 * LBe) (LBe + LE) + 1) ∧ lam - mu < 2 * (max (2 * LBe) (LBe + LE) + 1) := by
  have h1 : 2 * LBe ≤ max (2 * LBe) (LBe + LE) := Nat.le_max_left _ _
  have h2 : 4 * LBe ≤ max (4 * LBe) (3 * LBe + LE) := Nat.le_max_left _ _
  omega

/-- `makeOmega` reads W(k+i, l+j, m+lam−i−j, rho, ·) for k, l, m ≤ LB, i + j ≤ lam ≤ LB + LE, rho ≤ LB + LE:
inside the type-1 table -/
theorem makeOmega_W_in_range (LBe LE k l m lam i j rho sig : Nat)
    (hk : k ≤ LBe) (hl : l ≤ LBe) (hm : m ≤ LBe) (hlam : lam ≤ LBe + LE) (hij : i + j ≤ lam) (hrho : rho ≤ LBe + LE)
    (hsig : sig ≤ 2 * rho) :
    k + i < max (4 * LBe) (3 * LBe + LE) + 1 ∧ l + j < max (4 * LBe) (3 * LBe + LE) + 1 ∧
      m + lam - i - j < max (4 * LBe) (3 * LBe + LE) + 1 ∧ rho < max (2 * LBe) (LBe + LE) + 1 ∧
      sig < 2 * (max (2 * LBe) (LBe + LE) + 1) := by
  have h1 : LBe + LE ≤ max (2 * LBe) (LBe + LE) := Nat.le_max_right _ _
  have h2 : 3 * LBe + LE ≤ max (4 * LBe) (3 * LBe + LE) := Nat.le_max_right _ _
  omega

/-- `rolled_up_special` reads omega(x1,y1,z1; lam, ·; 0, 0) and omega(bx,by,bz; lam, ·; lam2, ·) with lam2 ≤ lam + |b|:
in-range tuples of the type-2 table (dims (LB+1)³ × (LB+LE+1) × 2(LB+LE+1) × (LB+LE+1) × 2(LB+LE+1)) -/
theorem rolledUpSpecial_omega_in_range (LBe LE LA LB lam x1 y1 z1 bx bz by' lam2 mi m2 : Nat)
    (hLA : LA ≤ LBe) (hLB : LB ≤ LBe) (hlam : lam ≤ LE) (ha : x1 + y1 + z1 = LA) (hb : bx + by' + bz ≤ LB)
    (hl2 : lam2 ≤ lam + (bx + by' + bz)) (hmi : mi ≤ 2 * lam) (hm2 : m2 ≤ 2 * lam2) :
    x1 < LBe + 1 ∧ y1 < LBe + 1 ∧ z1 < LBe + 1 ∧ bx < LBe + 1 ∧ by' < LBe + 1 ∧ bz < LBe + 1 ∧
      lam < LBe + LE + 1 ∧ mi < 2 * (LBe + LE + 1) ∧ lam2 < LBe + LE + 1 ∧ m2 < 2 * (LBe + LE + 1) := by
  omega

end Ecpint.C11
