/- C14 — root of the property's theorems:
   C14   structure of the evaluators (regimes, agreement of the two evaluators, closed forms of the loops, budgets)
   C14b  the real function K_l(z) = e^{-z} i_l(z) defined by the power series the code tabulates: closed forms for l = 0, 1,
         three-term recurrence, derivative = the code's `recStep`, iterated derivatives = the recurrence iterated, the large-z
         polynomial is exact up to an e^{-2z} term (< 1e-12 for z > 16, l ≤ 15), the small-z formula is within 2 z^(l+2)
   C14c  what `tabulate` stores, over ℝ: every K[i][l] is e^{-z} times a J-term partial sum of the power series of i_l,
         the derivative tables are the recurrence applied n times, and for the shipped constants no table index is out of range
   C14d  C14b and C14c joined: stored rows converge to K_l(z) from below; derivative tables of an exact row are the true
         derivatives; the table regime evaluates the Taylor polynomial of K_l about the node
   C14e  accuracy in exact arithmetic: 0 ≤ K_l ≤ 1 and |K_l^(n)| ≤ 2^n on z ≥ 0; Lagrange remainder of the table regime < 1e-14 for
         the shipped grid; truncation error of every stored row entry is below the series accuracy (all l); end to end: the Taylor
         value computed from the tables `tabulate` stores is within 1e-14 + 1.02·acc of e^{-z} i_l(z)
   C14f  THE PROPERTY IN EXACT ARITHMETIC: for the table `build` makes with the shipped constants, every real z and every order
         l ≤ lMax ≤ 15, both evaluators (`calcAll`, `calcOne` - all four regimes and the node shortcut) are within 1e-12 of
         e^{-z} i_l(z) and within 2e-12 of each other; what `upper_bound` returns, and that it is NOT an upper bound
         (upperBound T (3/200) 1 < K 1 (3/200): the root of the recorded finding estimate-not-a-bound) -/
import Ecpint.Props.C14
import Ecpint.Props.C14b
import Ecpint.Props.C14c
import Ecpint.Props.C14d
import Ecpint.Props.C14e
import Ecpint.Props.C14f
