/- C14 — root of the property's theorems:
   C14   structure of the evaluators (regimes, agreement of the two evaluators, closed forms of the loops, budgets)
   C14c  what `tabulate` stores, over ℝ: every K[i][l] is e^{-z} times a J-term partial sum of the power series of i_l,
         the derivative tables are the recurrence applied n times, and for the shipped constants no table index is out of range -/
import Ecpint.Props.C14
import Ecpint.Props.C14c
