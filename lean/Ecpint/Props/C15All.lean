/- C15 — root of the property's theorems:
   C15   index sets of both nested schemes, trigonometric recurrence, mirror symmetry, derivative of the two interval maps
   C15b  the rule over ℝ: the change of variables that explains the sin⁴ weights, exactness on constants and on cosine
         polynomials of degree < 2(n+1), the nesting identities T_{2n+1} = T_n + new and the two-point step, convergence of the
         rule to ∫_{-1}^{1} f for every continuous f, and the half-line change of variables with its transformed rule -/
import Ecpint.Props.C15
import Ecpint.Props.C15b
