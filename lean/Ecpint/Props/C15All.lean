/- C15 — root of the property's theorems:
   C15   index sets of both nested schemes, trigonometric recurrence, mirror symmetry, derivative of the two interval maps
   C15b  the rule over ℝ: the change of variables that explains the sin⁴ weights, exactness on constants and on cosine
         polynomials of degree < 2(n+1), the nesting identities T_{2n+1} = T_n + new and the two-point step, convergence of the
         rule to ∫_{-1}^{1} f for every continuous f, and the half-line change of variables with its transformed rule
   C15c  the EXECUTABLE model at ℝ computes that rule: `initGrid` stores the Pérez-Jordá nodes and sin⁴ weights, and `integrate`
         (both schemes, plain and transformed grids) returns `rule F n` for the level n at which it stops, the finest one when it
         reports no convergence; what the start/stop clipping of `sumTerms` really adds -/
import Ecpint.Props.C15
import Ecpint.Props.C15b
import Ecpint.Props.C15c
