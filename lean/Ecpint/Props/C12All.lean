/- C12 — root of the property's theorems:
   C12        dispatch and indexing facts decided on the regenerated tables
   C12Cases   all 63 closed-form `case` bodies (re-translated from radial_gen.cpp every run) equal the recurrences they were
              generated from, over any field of characteristic 0
   C12b       the recurrences are TRUE OF THE INTEGRALS: Qint(i,j,k) = ∫_0^∞ r^k e^{-p r²} i_i(2xr) i_j(2yr) dr is integrable, satisfies the
              recurrence in either order (eqs 29/33) and the first-order lowering relation (eq 28, by integration by parts), the base
              families are integrals satisfying the four reduction relations on their convergent range, and for the 45 generated
              cases with k ≥ i + j the closed form the code evaluates, fed the integral values of its base integrals, IS the
              defining integral (`case_<key>_eq_integral`); the 18 cases with k < i + j pass through divergent base integrals and
              are not covered -/
import Ecpint.Props.C12
import Ecpint.Props.C12b
