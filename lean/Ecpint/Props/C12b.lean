/-
C12b - the radial recurrences (Shaw & Hill, JCP 147, 074108 (2017), eqs 28, 29, 33) are true of the defining integrals
   Q(i,j,k) = ∫_0^∞ r^k e^{-p r²} i_i(2x r) i_j(2y r) dr.
-/
import Ecpint.Props.C14b
import Ecpint.Props.C14e
import Ecpint.Lemmas.RadialReal
import Ecpint.Model.RadialRec
import Ecpint.Lemmas.RadialRec
import Ecpint.Props.C12Cases

namespace Ecpint.C12b
open MeasureTheory Set Ecpint.C14b Ecpint.RadialReal

/-! ## Stage 1: definition and integrability -/

noncomputable def Qint (p x y : ℝ) (i j : ℕ) (k : ℕ) : ℝ :=
  ∫ r in Set.Ioi (0:ℝ), r ^ k * Real.exp (-p * r ^ 2) * sphI i (2 * x * r) * sphI j (2 * y * r)

theorem sphI_continuous (l : ℕ) : Continuous (sphI l) :=
  continuous_iff_continuousAt.2 fun z => (sphI_hasDerivAt_G l z).continuousAt

theorem sphI_comp_continuous (l : ℕ) (a : ℝ) : Continuous fun r : ℝ => sphI l (a * r) :=
  (sphI_continuous l).comp (continuous_const.mul continuous_id)

theorem sphI_comp_bound (l : ℕ) (a : ℝ) (ha : 0 ≤ a) (r : ℝ) (hr : 0 < r) : |sphI l (a * r)| ≤ Real.exp (a * r) := by
  have h0 : 0 ≤ a * r := mul_nonneg ha hr.le
  rw [abs_of_nonneg (C14e.sphI_nonneg l _ h0)]
  exact C14e.sphI_le_exp l _ h0

theorem Qint_integrable (p x y : ℝ) (hp : 0 < p) (hx : 0 ≤ x) (hy : 0 ≤ y) (i j k : ℕ) :
    IntegrableOn (fun r : ℝ => r ^ k * Real.exp (-p * r ^ 2) * sphI i (2 * x * r) * sphI j (2 * y * r)) (Set.Ioi 0) :=
  integrableOn_gauss_mul p (2 * x) (2 * y) hp k _ _ (sphI_comp_continuous i (2 * x)) (sphI_comp_continuous j (2 * y))
    (sphI_comp_bound i (2 * x) (by positivity)) (sphI_comp_bound j (2 * y) (by positivity))

theorem Qint_nonneg (p x y : ℝ) (hx : 0 ≤ x) (hy : 0 ≤ y) (i j k : ℕ) : 0 ≤ Qint p x y i j k := by
  refine setIntegral_nonneg measurableSet_Ioi fun r hr => ?_
  have hr0 : (0 : ℝ) < r := hr
  have h1 := C14e.sphI_nonneg i (2 * x * r) (by positivity)
  have h2 := C14e.sphI_nonneg j (2 * y * r) (by positivity)
  positivity

/-! ## Stage 2: recurrence in one order (eqs 29/33) -/

theorem Qint_rec_j (p x y : ℝ) (hp : 0 < p) (hx : 0 ≤ x) (hy : 0 < y) (i j k : ℕ) (hk : 1 ≤ k) :
    Qint p x y i (j + 2) k = Qint p x y i j k - (2 * ((j : ℝ) + 1) + 1) / (2 * y) * Qint p x y i (j + 1) (k - 1) := by
  obtain ⟨m, rfl⟩ := Nat.exists_eq_add_of_le' hk
  simp only [Nat.add_sub_cancel]
  unfold Qint
  rw [← integral_const_mul, ← integral_sub (Qint_integrable p x y hp hx hy.le i j (m + 1))
    ((Qint_integrable p x y hp hx hy.le i (j + 1) m).const_mul _)]
  refine setIntegral_congr_fun measurableSet_Ioi fun r hr => ?_
  have hr0 : (0 : ℝ) < r := hr
  have hz : 2 * y * r ≠ 0 := by positivity
  have h := sphI_rec (j + 1) (by omega) (2 * y * r) hz
  simp only [Nat.add_sub_cancel] at h
  have e : sphI (j + 2) (2 * y * r) = sphI j (2 * y * r) - (2 * ((j : ℝ) + 1) + 1) / (2 * y * r) * sphI (j + 1) (2 * y * r) := by
    push_cast at h
    linarith
  simp only [e]
  field_simp
  ring

theorem Qint_rec_i (p x y : ℝ) (hp : 0 < p) (hx : 0 < x) (hy : 0 ≤ y) (i j k : ℕ) (hk : 1 ≤ k) :
    Qint p x y (i + 2) j k = Qint p x y i j k - (2 * ((i : ℝ) + 1) + 1) / (2 * x) * Qint p x y (i + 1) j (k - 1) := by
  obtain ⟨m, rfl⟩ := Nat.exists_eq_add_of_le' hk
  simp only [Nat.add_sub_cancel]
  unfold Qint
  rw [← integral_const_mul, ← integral_sub (Qint_integrable p x y hp hx.le hy i j (m + 1))
    ((Qint_integrable p x y hp hx.le hy (i + 1) j m).const_mul _)]
  refine setIntegral_congr_fun measurableSet_Ioi fun r hr => ?_
  have hr0 : (0 : ℝ) < r := hr
  have hz : 2 * x * r ≠ 0 := by positivity
  have h := sphI_rec (i + 1) (by omega) (2 * x * r) hz
  simp only [Nat.add_sub_cancel] at h
  have e : sphI (i + 2) (2 * x * r) = sphI i (2 * x * r) - (2 * ((i : ℝ) + 1) + 1) / (2 * x * r) * sphI (i + 1) (2 * x * r) := by
    push_cast at h
    linarith
  simp only [e]
  field_simp
  ring

/-- `Qint_rec_j` in the literal shape of `RadialRec.recJ` (coefficient `(1 − 2(j+2))/(2y)`, integer casts) -/
theorem Qint_rec_j_recJ_shape (p x y : ℝ) (hp : 0 < p) (hx : 0 ≤ x) (hy : 0 < y) (i j k : ℕ) (hk : 1 ≤ k) :
    Qint p x y i (j + 2) k = Qint p x y i j k
      + (((1 - 2 * ((j : Int) + 2) : Int) : ℝ) / (((2 : Int) : ℝ) * y)) * Qint p x y i (j + 1) (k - 1) := by
  rw [Qint_rec_j p x y hp hx hy i j k hk]
  push_cast
  ring

/-! ## Stage 3: lowering the first order (eq 28) by integration by parts -/

/-- `i_l'(t) = i_{l+1}(t) + l/t · i_l(t)` -/
theorem sphI_hasDerivAt_up (l : ℕ) (t : ℝ) (ht : t ≠ 0) :
    HasDerivAt (sphI l) (sphI (l + 1) t + (l : ℝ) / t * sphI l t) t := by
  rcases Nat.eq_zero_or_pos l with rfl | hl
  · simpa using sphI_hasDerivAt_zero t
  · have h := sphI_hasDerivAt l hl t
    have hr := sphI_rec l hl t ht
    have e : sphI (l - 1) t = sphI (l + 1) t + (2 * (l : ℝ) + 1) / t * sphI l t := by linarith
    refine h.congr_deriv ?_
    rw [e]
    have h3 : (2 * (l : ℝ) + 1) ≠ 0 := by positivity
    field_simp
    ring

/-- `i_{l+1}'(t) = i_l(t) − (l+2)/t · i_{l+1}(t)` -/
theorem sphI_hasDerivAt_down (l : ℕ) (t : ℝ) (ht : t ≠ 0) :
    HasDerivAt (sphI (l + 1)) (sphI l t - ((l : ℝ) + 2) / t * sphI (l + 1) t) t := by
  have h := sphI_hasDerivAt (l + 1) (by omega) t
  have hr := sphI_rec (l + 1) (by omega) t ht
  simp only [Nat.add_sub_cancel] at h hr
  push_cast at h hr
  have e : sphI (l + 1 + 1) t = sphI l t - (2 * ((l : ℝ) + 1) + 1) / t * sphI (l + 1) t := by linarith
  refine h.congr_deriv ?_
  rw [e]
  have h3 : (2 * ((l : ℝ) + 1) + 1) ≠ 0 := by positivity
  field_simp
  ring

theorem hasDerivAt_const_mul_id (c r : ℝ) : HasDerivAt (fun r : ℝ => c * r) c r := by
  simpa using (hasDerivAt_id r).const_mul c

theorem sphI_comp_hasDerivAt_up (l : ℕ) (c r : ℝ) (hc : 0 < c) (hr : 0 < r) :
    HasDerivAt (fun r : ℝ => sphI l (c * r)) (c * sphI (l + 1) (c * r) + (l : ℝ) / r * sphI l (c * r)) r := by
  have h := HasDerivAt.comp (h₂ := sphI l) (h := fun r : ℝ => c * r) r
    (sphI_hasDerivAt_up l (c * r) (by positivity)) (hasDerivAt_const_mul_id c r)
  refine h.congr_deriv ?_
  field_simp

theorem sphI_comp_hasDerivAt_down (l : ℕ) (c r : ℝ) (hc : 0 < c) (hr : 0 < r) :
    HasDerivAt (fun r : ℝ => sphI (l + 1) (c * r)) (c * sphI l (c * r) - ((l : ℝ) + 2) / r * sphI (l + 1) (c * r)) r := by
  have h := HasDerivAt.comp (h₂ := sphI (l + 1)) (h := fun r : ℝ => c * r) r
    (sphI_hasDerivAt_down l (c * r) (by positivity)) (hasDerivAt_const_mul_id c r)
  refine h.congr_deriv ?_
  field_simp

/-- the piece of the integration by parts that contains the derivative of the first Bessel factor -/
theorem up_piece (p c b : ℝ) (hp : 0 < p) (hc : 0 < c) (m l : ℕ) (B : ℝ → ℝ) (cB : Continuous B)
    (bB : ∀ r : ℝ, 0 < r → |B r| ≤ Real.exp (b * r)) :
    IntegrableOn (fun r : ℝ => r ^ (m + 1) * Real.exp (-p * r ^ 2)
        * (c * sphI (l + 1) (c * r) + (l : ℝ) / r * sphI l (c * r)) * B r) (Ioi 0)
    ∧ (∫ r in Ioi (0 : ℝ), r ^ (m + 1) * Real.exp (-p * r ^ 2)
        * (c * sphI (l + 1) (c * r) + (l : ℝ) / r * sphI l (c * r)) * B r)
      = c * (∫ r in Ioi (0 : ℝ), r ^ (m + 1) * Real.exp (-p * r ^ 2) * sphI (l + 1) (c * r) * B r)
        + (l : ℝ) * (∫ r in Ioi (0 : ℝ), r ^ m * Real.exp (-p * r ^ 2) * sphI l (c * r) * B r) := by
  have i1 := integrableOn_gauss_mul p c b hp (m + 1) _ B (sphI_comp_continuous (l + 1) c) cB
    (sphI_comp_bound (l + 1) c hc.le) bB
  have i2 := integrableOn_gauss_mul p c b hp m _ B (sphI_comp_continuous l c) cB (sphI_comp_bound l c hc.le) bB
  have j1 := i1.const_mul c
  have j2 := i2.const_mul (l : ℝ)
  have k : IntegrableOn (fun r : ℝ => c * (r ^ (m + 1) * Real.exp (-p * r ^ 2) * sphI (l + 1) (c * r) * B r)
      + (l : ℝ) * (r ^ m * Real.exp (-p * r ^ 2) * sphI l (c * r) * B r)) (Ioi 0) := j1.add j2
  have e : EqOn (fun r : ℝ => c * (r ^ (m + 1) * Real.exp (-p * r ^ 2) * sphI (l + 1) (c * r) * B r)
      + (l : ℝ) * (r ^ m * Real.exp (-p * r ^ 2) * sphI l (c * r) * B r))
      (fun r : ℝ => r ^ (m + 1) * Real.exp (-p * r ^ 2)
        * (c * sphI (l + 1) (c * r) + (l : ℝ) / r * sphI l (c * r)) * B r) (Ioi 0) := by
    intro r hr
    have hr0 : (0 : ℝ) < r := hr
    simp only
    field_simp
    ring
  refine ⟨k.congr_fun e measurableSet_Ioi, ?_⟩
  rw [← setIntegral_congr_fun measurableSet_Ioi e, integral_add j1 j2, integral_const_mul, integral_const_mul]

/-- the piece of the integration by parts that contains the derivative of the second Bessel factor (order ≥ 1) -/
theorem down_piece (p a c : ℝ) (hp : 0 < p) (hc : 0 < c) (m l : ℕ) (A : ℝ → ℝ) (cA : Continuous A)
    (bA : ∀ r : ℝ, 0 < r → |A r| ≤ Real.exp (a * r)) :
    IntegrableOn (fun r : ℝ => r ^ (m + 1) * Real.exp (-p * r ^ 2) * A r
        * (c * sphI l (c * r) - ((l : ℝ) + 2) / r * sphI (l + 1) (c * r))) (Ioi 0)
    ∧ (∫ r in Ioi (0 : ℝ), r ^ (m + 1) * Real.exp (-p * r ^ 2) * A r
        * (c * sphI l (c * r) - ((l : ℝ) + 2) / r * sphI (l + 1) (c * r)))
      = c * (∫ r in Ioi (0 : ℝ), r ^ (m + 1) * Real.exp (-p * r ^ 2) * A r * sphI l (c * r))
        - ((l : ℝ) + 2) * (∫ r in Ioi (0 : ℝ), r ^ m * Real.exp (-p * r ^ 2) * A r * sphI (l + 1) (c * r)) := by
  have i1 := integrableOn_gauss_mul p a c hp (m + 1) A _ cA (sphI_comp_continuous l c) bA
    (sphI_comp_bound l c hc.le)
  have i2 := integrableOn_gauss_mul p a c hp m A _ cA (sphI_comp_continuous (l + 1) c) bA
    (sphI_comp_bound (l + 1) c hc.le)
  have j1 := i1.const_mul c
  have j2 := i2.const_mul ((l : ℝ) + 2)
  have k : IntegrableOn (fun r : ℝ => c * (r ^ (m + 1) * Real.exp (-p * r ^ 2) * A r * sphI l (c * r))
      - ((l : ℝ) + 2) * (r ^ m * Real.exp (-p * r ^ 2) * A r * sphI (l + 1) (c * r))) (Ioi 0) := j1.sub j2
  have e : EqOn (fun r : ℝ => c * (r ^ (m + 1) * Real.exp (-p * r ^ 2) * A r * sphI l (c * r))
      - ((l : ℝ) + 2) * (r ^ m * Real.exp (-p * r ^ 2) * A r * sphI (l + 1) (c * r)))
      (fun r : ℝ => r ^ (m + 1) * Real.exp (-p * r ^ 2) * A r
        * (c * sphI l (c * r) - ((l : ℝ) + 2) / r * sphI (l + 1) (c * r))) (Ioi 0) := by
    intro r hr
    have hr0 : (0 : ℝ) < r := hr
    simp only
    field_simp
    ring
  refine ⟨k.congr_fun e measurableSet_Ioi, ?_⟩
  rw [← setIntegral_congr_fun measurableSet_Ioi e, integral_sub j1 j2, integral_const_mul, integral_const_mul]

/-- eq 28 before dividing by 2x, second order written j+1 and power m+1 -/
theorem Qint_ibp (p x y : ℝ) (hp : 0 < p) (hx : 0 < x) (hy : 0 < y) (i j m : ℕ) :
    2 * x * Qint p x y (i + 1) (j + 1) (m + 1)
      = ((j : ℝ) + 1 - i - m) * Qint p x y i (j + 1) m - 2 * y * Qint p x y i j (m + 1)
        + 2 * p * Qint p x y i (j + 1) (m + 2) := by
  have hx2 : 0 < 2 * x := by positivity
  have hy2 : 0 < 2 * y := by positivity
  obtain ⟨iA, eA⟩ := up_piece p (2 * x) (2 * y) hp hx2 m i (fun r => sphI (j + 1) (2 * y * r))
    (sphI_comp_continuous (j + 1) (2 * y)) (sphI_comp_bound (j + 1) (2 * y) hy2.le)
  obtain ⟨iB, eB⟩ := down_piece p (2 * x) (2 * y) hp hy2 m j (fun r => sphI i (2 * x * r))
    (sphI_comp_continuous i (2 * x)) (sphI_comp_bound i (2 * x) hx2.le)
  have h := ibp_core p (2 * x) (2 * y) hp m (fun r => sphI i (2 * x * r)) (fun r => sphI (j + 1) (2 * y * r)) _ _
    (fun r hr => sphI_comp_hasDerivAt_up i (2 * x) r hx2 hr)
    (fun r hr => sphI_comp_hasDerivAt_down j (2 * y) r hy2 hr)
    (sphI_comp_continuous i (2 * x)) (sphI_comp_continuous (j + 1) (2 * y))
    (sphI_comp_bound i (2 * x) hx2.le) (sphI_comp_bound (j + 1) (2 * y) hy2.le) iA iB
  rw [eA, eB] at h
  unfold Qint
  linarith

/-- **eq 28** (`RadialRec.recI`) for second order j ≥ 1: μ = (2 + j − (i+1) − k)/(2x), ν = −y/x, ξ = p/x -/
theorem Qint_lower_i (p x y : ℝ) (hp : 0 < p) (hx : 0 < x) (hy : 0 < y) (i j k : ℕ) (hj : 1 ≤ j) (hk : 1 ≤ k) :
    Qint p x y (i + 1) j k = (2 + (j : ℝ) - ((i : ℝ) + 1) - k) / (2 * x) * Qint p x y i j (k - 1)
      + (-y / x) * Qint p x y i (j - 1) k + (p / x) * Qint p x y i j (k + 1) := by
  obtain ⟨m, rfl⟩ := Nat.exists_eq_add_of_le' hk
  obtain ⟨j', rfl⟩ := Nat.exists_eq_add_of_le' hj
  simp only [Nat.add_sub_cancel]
  have h := Qint_ibp p x y hp hx hy i j' m
  have e : Qint p x y (i + 1) (j' + 1) (m + 1) = (2 * x * Qint p x y (i + 1) (j' + 1) (m + 1)) / (2 * x) := by
    field_simp
  rw [e, h]
  push_cast
  field_simp
  ring

/-- `Qint_lower_i` in the literal shape of `RadialRec.recI` (integer casts) -/
theorem Qint_lower_i_recI_shape (p x y : ℝ) (hp : 0 < p) (hx : 0 < x) (hy : 0 < y) (i j k : ℕ) (hj : 1 ≤ j) (hk : 1 ≤ k) :
    Qint p x y (i + 1) j k
      = (((2 + (j : Int) - ((i : Int) + 1) - (k : Int) : Int) : ℝ) / (((2 : Int) : ℝ) * x)) * Qint p x y i j (k - 1)
        + (-y / x) * Qint p x y i (j - 1) k + (p / x) * Qint p x y i j (k + 1) := by
  rw [Qint_lower_i p x y hp hx hy i j k hj hk]
  push_cast
  ring

/-! ### second order j = 0

`RadialRec.recI` at j = 0 has its ν-term at `j − 1 = 0` (truncated subtraction).  Read literally as Q(i,0,k) that is NOT
an identity of the integrals.  The true relation has either i_1 in the ν-term with μ-numerator −(i+k), or the function
i_{−1}(t) = cosh t / t in the ν-term with recI's own μ; the latter is what the model computes, because the ν-call flips the
parity of `k − start` and `leaf` then returns the G^B (sinh·cosh) family. -/

theorem sphI_zero_comp_hasDerivAt (c r : ℝ) :
    HasDerivAt (fun r : ℝ => sphI 0 (c * r)) (c * sphI 1 (c * r)) r := by
  have h := HasDerivAt.comp (h₂ := sphI 0) (h := fun r : ℝ => c * r) r
    (sphI_hasDerivAt_zero (c * r)) (hasDerivAt_const_mul_id c r)
  refine h.congr_deriv ?_
  ring

/-- j = 0 with i_1 in the ν-term (true for y ≥ 0) -/
theorem Qint_lower_i_zero (p x y : ℝ) (hp : 0 < p) (hx : 0 < x) (hy : 0 ≤ y) (i k : ℕ) (hk : 1 ≤ k) :
    Qint p x y (i + 1) 0 k = (-((i : ℝ) + k)) / (2 * x) * Qint p x y i 0 (k - 1)
      + (-y / x) * Qint p x y i 1 k + (p / x) * Qint p x y i 0 (k + 1) := by
  obtain ⟨m, rfl⟩ := Nat.exists_eq_add_of_le' hk
  simp only [Nat.add_sub_cancel]
  have hx2 : 0 < 2 * x := by positivity
  have hy2 : 0 ≤ 2 * y := by positivity
  obtain ⟨iA, eA⟩ := up_piece p (2 * x) (2 * y) hp hx2 m i (fun r => sphI 0 (2 * y * r))
    (sphI_comp_continuous 0 (2 * y)) (sphI_comp_bound 0 (2 * y) hy2)
  have i1 := integrableOn_gauss_mul p (2 * x) (2 * y) hp (m + 1) (fun r => sphI i (2 * x * r))
    (fun r => sphI 1 (2 * y * r)) (sphI_comp_continuous i (2 * x)) (sphI_comp_continuous 1 (2 * y))
    (sphI_comp_bound i (2 * x) hx2.le) (sphI_comp_bound 1 (2 * y) hy2)
  have j1 := i1.const_mul (2 * y)
  have eq1 : (fun r : ℝ => 2 * y * (r ^ (m + 1) * Real.exp (-p * r ^ 2) * sphI i (2 * x * r) * sphI 1 (2 * y * r)))
      = fun r : ℝ => r ^ (m + 1) * Real.exp (-p * r ^ 2) * sphI i (2 * x * r) * (2 * y * sphI 1 (2 * y * r)) := by
    funext r
    ring
  have iB : IntegrableOn (fun r : ℝ => r ^ (m + 1) * Real.exp (-p * r ^ 2) * sphI i (2 * x * r)
      * (2 * y * sphI 1 (2 * y * r))) (Ioi 0) := by
    rw [← eq1]
    exact j1
  have eB : (∫ r in Ioi (0 : ℝ), r ^ (m + 1) * Real.exp (-p * r ^ 2) * sphI i (2 * x * r) * (2 * y * sphI 1 (2 * y * r)))
      = 2 * y * Qint p x y i 1 (m + 1) := by
    rw [← eq1, integral_const_mul]
    rfl
  have h := ibp_core p (2 * x) (2 * y) hp m (fun r => sphI i (2 * x * r)) (fun r => sphI 0 (2 * y * r)) _ _
    (fun r hr => sphI_comp_hasDerivAt_up i (2 * x) r hx2 hr)
    (fun r _ => sphI_zero_comp_hasDerivAt (2 * y) r)
    (sphI_comp_continuous i (2 * x)) (sphI_comp_continuous 0 (2 * y))
    (sphI_comp_bound i (2 * x) hx2.le) (sphI_comp_bound 0 (2 * y) hy2) iA iB
  rw [eA, eB] at h
  have h' : 2 * x * Qint p x y (i + 1) 0 (m + 1) = -((i : ℝ) + (m + 1)) * Qint p x y i 0 m
      - 2 * y * Qint p x y i 1 (m + 1) + 2 * p * Qint p x y i 0 (m + 2) := by
    unfold Qint at h ⊢
    linarith
  have e : Qint p x y (i + 1) 0 (m + 1) = (2 * x * Qint p x y (i + 1) 0 (m + 1)) / (2 * x) := by
    field_simp
  rw [e, h']
  push_cast
  field_simp
  ring

/-- the same integral with `cosh(2y r)` in place of the second Bessel function -/
noncomputable def QintC (p x y : ℝ) (i : ℕ) (k : ℕ) : ℝ :=
  ∫ r in Set.Ioi (0:ℝ), r ^ k * Real.exp (-p * r ^ 2) * sphI i (2 * x * r) * Real.cosh (2 * y * r)

/-- "Q(i,−1,k)": second order −1 with i_{−1}(t) = cosh t / t, i.e. ∫ r^k e^{-p r²} i_i(2x r) cosh(2y r)/(2y r) dr (k ≥ 1) -/
noncomputable def QintM (p x y : ℝ) (i : ℕ) (k : ℕ) : ℝ := QintC p x y i (k - 1) / (2 * y)

theorem cosh_comp_continuous (c : ℝ) : Continuous fun r : ℝ => Real.cosh (c * r) :=
  Real.continuous_cosh.comp (continuous_const.mul continuous_id)

theorem cosh_comp_bound (c : ℝ) (hc : 0 ≤ c) (r : ℝ) (hr : 0 < r) : |Real.cosh (c * r)| ≤ Real.exp (c * r) := by
  rw [abs_of_pos (Real.cosh_pos _), Real.cosh_eq]
  have h0 : 0 ≤ c * r := mul_nonneg hc hr.le
  have : Real.exp (-(c * r)) ≤ Real.exp (c * r) := Real.exp_le_exp.2 (by linarith)
  linarith

theorem QintC_integrable (p x y : ℝ) (hp : 0 < p) (hx : 0 ≤ x) (hy : 0 ≤ y) (i k : ℕ) :
    IntegrableOn (fun r : ℝ => r ^ k * Real.exp (-p * r ^ 2) * sphI i (2 * x * r) * Real.cosh (2 * y * r)) (Set.Ioi 0) :=
  integrableOn_gauss_mul p (2 * x) (2 * y) hp k _ _ (sphI_comp_continuous i (2 * x)) (cosh_comp_continuous (2 * y))
    (sphI_comp_bound i (2 * x) (by positivity)) (cosh_comp_bound (2 * y) (by positivity))

/-- i_1(t) = i_{−1}(t) − i_0(t)/t under the integral: the j = 1 line of `RadialRec.recJ` -/
theorem Qint_one_eq (p x y : ℝ) (hp : 0 < p) (hx : 0 ≤ x) (hy : 0 < y) (i k : ℕ) (hk : 1 ≤ k) :
    Qint p x y i 1 k = QintM p x y i k + ((-1 : Int) : ℝ) / (((2 : Int) : ℝ) * y) * Qint p x y i 0 (k - 1) := by
  obtain ⟨m, rfl⟩ := Nat.exists_eq_add_of_le' hk
  simp only [Nat.add_sub_cancel, QintM]
  unfold Qint QintC
  rw [← integral_const_mul, ← integral_div, ← integral_add ((QintC_integrable p x y hp hx hy.le i m).div_const _)
    ((Qint_integrable p x y hp hx hy.le i 0 m).const_mul _)]
  refine setIntegral_congr_fun measurableSet_Ioi fun r hr => ?_
  have hr0 : (0 : ℝ) < r := hr
  have hz : 2 * y * r ≠ 0 := by positivity
  simp only [sphI_one _ hz, sphI_zero _ hz]
  push_cast
  field_simp
  ring

/-- j = 0 with i_{−1} in the ν-term: exactly `recI`'s coefficients -/
theorem Qint_lower_i_zero_cosh (p x y : ℝ) (hp : 0 < p) (hx : 0 < x) (hy : 0 < y) (i k : ℕ) (hk : 1 ≤ k) :
    Qint p x y (i + 1) 0 k
      = (((2 + ((0 : ℕ) : Int) - ((i : Int) + 1) - (k : Int) : Int) : ℝ) / (((2 : Int) : ℝ) * x)) * Qint p x y i 0 (k - 1)
        + (-y / x) * QintM p x y i k + (p / x) * Qint p x y i 0 (k + 1) := by
  rw [Qint_lower_i_zero p x y hp hx hy.le i k hk, Qint_one_eq p x y hp hx.le hy i k hk]
  push_cast
  field_simp
  ring

theorem cosh_comp_hasDerivAt (c r : ℝ) (hc : 0 < c) (hr : 0 < r) :
    HasDerivAt (fun r : ℝ => Real.cosh (c * r)) (c * (c * r * sphI 0 (c * r))) r := by
  have h := HasDerivAt.comp (h₂ := Real.cosh) (h := fun r : ℝ => c * r) r
    (Real.hasDerivAt_cosh (c * r)) (hasDerivAt_const_mul_id c r)
  refine h.congr_deriv ?_
  have hz : c * r ≠ 0 := by positivity
  rw [sphI_zero _ hz]
  field_simp

/-- eq 28 for the order-(−1) integrals, before dividing -/
theorem QintC_ibp (p x y : ℝ) (hp : 0 < p) (hx : 0 < x) (hy : 0 < y) (i m : ℕ) :
    2 * x * QintC p x y (i + 1) (m + 1)
      = -((i : ℝ) + m + 1) * QintC p x y i m - 4 * y ^ 2 * Qint p x y i 0 (m + 2) + 2 * p * QintC p x y i (m + 2) := by
  have hx2 : 0 < 2 * x := by positivity
  have hy2 : 0 < 2 * y := by positivity
  obtain ⟨iA, eA⟩ := up_piece p (2 * x) (2 * y) hp hx2 m i (fun r => Real.cosh (2 * y * r))
    (cosh_comp_continuous (2 * y)) (cosh_comp_bound (2 * y) hy2.le)
  have i1 := Qint_integrable p x y hp hx.le hy.le i 0 (m + 2)
  have j1 := i1.const_mul (4 * y ^ 2)
  have eq1 : (fun r : ℝ => 4 * y ^ 2 * (r ^ (m + 2) * Real.exp (-p * r ^ 2) * sphI i (2 * x * r) * sphI 0 (2 * y * r)))
      = fun r : ℝ => r ^ (m + 1) * Real.exp (-p * r ^ 2) * sphI i (2 * x * r)
          * (2 * y * (2 * y * r * sphI 0 (2 * y * r))) := by
    funext r
    ring
  have iB : IntegrableOn (fun r : ℝ => r ^ (m + 1) * Real.exp (-p * r ^ 2) * sphI i (2 * x * r)
      * (2 * y * (2 * y * r * sphI 0 (2 * y * r)))) (Ioi 0) := by
    rw [← eq1]
    exact j1
  have eB : (∫ r in Ioi (0 : ℝ), r ^ (m + 1) * Real.exp (-p * r ^ 2) * sphI i (2 * x * r)
      * (2 * y * (2 * y * r * sphI 0 (2 * y * r)))) = 4 * y ^ 2 * Qint p x y i 0 (m + 2) := by
    rw [← eq1, integral_const_mul]
    rfl
  have h := ibp_core p (2 * x) (2 * y) hp m (fun r => sphI i (2 * x * r)) (fun r => Real.cosh (2 * y * r)) _ _
    (fun r hr => sphI_comp_hasDerivAt_up i (2 * x) r hx2 hr)
    (fun r hr => cosh_comp_hasDerivAt (2 * y) r hy2 hr)
    (sphI_comp_continuous i (2 * x)) (cosh_comp_continuous (2 * y))
    (sphI_comp_bound i (2 * x) hx2.le) (cosh_comp_bound (2 * y) hy2.le) iA iB
  rw [eA, eB] at h
  unfold QintC
  linarith

/-- eq 28 with second order −1 (the state `recI` is in after a ν-call at j = 0): the same coefficients again -/
theorem QintM_lower_i (p x y : ℝ) (hp : 0 < p) (hx : 0 < x) (hy : 0 < y) (i k : ℕ) (hk : 2 ≤ k) :
    QintM p x y (i + 1) k
      = (((2 + ((0 : ℕ) : Int) - ((i : Int) + 1) - (k : Int) : Int) : ℝ) / (((2 : Int) : ℝ) * x)) * QintM p x y i (k - 1)
        + (-y / x) * Qint p x y i 0 k + (p / x) * QintM p x y i (k + 1) := by
  obtain ⟨m, rfl⟩ := Nat.exists_eq_add_of_le' hk
  have h := QintC_ibp p x y hp hx hy i m
  have e : QintC p x y (i + 1) (m + 1) = (2 * x * QintC p x y (i + 1) (m + 1)) / (2 * x) := by
    field_simp
  simp only [QintM, Nat.add_sub_cancel, show m + 2 - 1 = m + 1 from rfl]
  rw [e, h]
  push_cast
  field_simp
  ring

/-! ### the literal j = 0 reading of `recI` (ν-term at Q(i,0,k)) is false -/

theorem sphI_pos (l : ℕ) (t : ℝ) (ht : 0 < t) : 0 < sphI l t := by
  have h := (iTerm_summable l t).le_tsum 0 (fun j _ => C14e.iTerm_nonneg l j t ht.le)
  have h0 : 0 < iTerm l 0 t := by
    unfold iTerm
    have : (0 : ℝ) < (((2 * l + 2 * 0 + 1).doubleFactorial : ℕ) : ℝ) := by
      exact_mod_cast Nat.doubleFactorial_pos _
    positivity
  exact lt_of_lt_of_le h0 h

/-- "Q(i,−1,k)" is strictly larger than Q(i,0,k): the difference is ∫ r^(k−1) e^{-p r²} i_i(2x r) e^{−2y r}/(2y) dr -/
theorem Qint_zero_lt_QintM (p x y : ℝ) (hp : 0 < p) (hx : 0 < x) (hy : 0 < y) (i k : ℕ) (hk : 1 ≤ k) :
    Qint p x y i 0 k < QintM p x y i k := by
  obtain ⟨m, rfl⟩ := Nat.exists_eq_add_of_le' hk
  simp only [QintM, Nat.add_sub_cancel]
  have iC := (QintC_integrable p x y hp hx.le hy.le i m).div_const (2 * y)
  have iQ := Qint_integrable p x y hp hx.le hy.le i 0 (m + 1)
  have iD : IntegrableOn (fun r : ℝ => r ^ m * Real.exp (-p * r ^ 2) * sphI i (2 * x * r) * Real.cosh (2 * y * r) / (2 * y)
      - r ^ (m + 1) * Real.exp (-p * r ^ 2) * sphI i (2 * x * r) * sphI 0 (2 * y * r)) (Ioi 0) := iC.sub iQ
  have hpos : ∀ r ∈ Ioi (0 : ℝ), 0 < r ^ m * Real.exp (-p * r ^ 2) * sphI i (2 * x * r) * Real.cosh (2 * y * r) / (2 * y)
      - r ^ (m + 1) * Real.exp (-p * r ^ 2) * sphI i (2 * x * r) * sphI 0 (2 * y * r) := by
    intro r hr
    have hr0 : (0 : ℝ) < r := hr
    have hz : 2 * y * r ≠ 0 := by positivity
    have hs := sphI_pos i (2 * x * r) (by positivity)
    have he : Real.cosh (2 * y * r) - Real.sinh (2 * y * r) = Real.exp (-(2 * y * r)) := Real.cosh_sub_sinh _
    have e : r ^ m * Real.exp (-p * r ^ 2) * sphI i (2 * x * r) * Real.cosh (2 * y * r) / (2 * y)
        - r ^ (m + 1) * Real.exp (-p * r ^ 2) * sphI i (2 * x * r) * sphI 0 (2 * y * r)
        = r ^ m * Real.exp (-p * r ^ 2) * sphI i (2 * x * r) * Real.exp (-(2 * y * r)) / (2 * y) := by
      rw [sphI_zero _ hz, ← he]
      field_simp
      ring
    rw [e]
    positivity
  have h : 0 < ∫ r in Ioi (0 : ℝ), (r ^ m * Real.exp (-p * r ^ 2) * sphI i (2 * x * r) * Real.cosh (2 * y * r) / (2 * y)
      - r ^ (m + 1) * Real.exp (-p * r ^ 2) * sphI i (2 * x * r) * sphI 0 (2 * y * r)) := by
    rw [setIntegral_pos_iff_support_of_nonneg_ae
      ((ae_restrict_iff' measurableSet_Ioi).2 (Filter.Eventually.of_forall fun r hr => (hpos r hr).le)) iD]
    have hsub : Ioi (0 : ℝ) ⊆ Function.support (fun r : ℝ =>
        r ^ m * Real.exp (-p * r ^ 2) * sphI i (2 * x * r) * Real.cosh (2 * y * r) / (2 * y)
        - r ^ (m + 1) * Real.exp (-p * r ^ 2) * sphI i (2 * x * r) * sphI 0 (2 * y * r)) ∩ Ioi 0 :=
      fun r hr => ⟨(hpos r hr).ne', hr⟩
    refine lt_of_lt_of_le ?_ (measure_mono hsub)
    simp
  rw [integral_sub iC iQ, integral_div] at h
  unfold Qint QintC
  linarith

/-- `recI`'s j = 0 line with the ν-term read literally as Q(i, 0, k) is never an identity of the integrals -/
theorem recI_zero_literal_false (p x y : ℝ) (hp : 0 < p) (hx : 0 < x) (hy : 0 < y) (i k : ℕ) (hk : 1 ≤ k) :
    Qint p x y (i + 1) 0 k
      ≠ (((2 + ((0 : ℕ) : Int) - ((i : Int) + 1) - (k : Int) : Int) : ℝ) / (((2 : Int) : ℝ) * x)) * Qint p x y i 0 (k - 1)
        + (-y / x) * Qint p x y i (0 - 1) k + (p / x) * Qint p x y i 0 (k + 1) := by
  rw [Qint_lower_i_zero_cosh p x y hp hx hy i k hk]
  have h := Qint_zero_lt_QintM p x y hp hx hy i k hk
  have hyx : 0 < y / x := by positivity
  intro hEq
  simp only [Nat.zero_sub] at hEq
  have : (-y / x) * QintM p x y i k = (-y / x) * Qint p x y i 0 k := by linarith
  have h2 : (y / x) * QintM p x y i k = (y / x) * Qint p x y i 0 k := by
    have e1 : (-y / x) = -(y / x) := by ring
    rw [e1] at this
    linarith
  have := mul_left_cancel₀ hyx.ne' h2
  linarith

/-! ## The recurrence model computes the integral (convergent range k ≥ i + j)

With the base families read as F_N = Q(0,0,N) (sinh·sinh) and G^B_N = "Q(0,−1,N)" (sinh·cosh) - which is how the compiled
code uses `values[]` (case 2: Q(0,0,2) = values[0]; case 103: Q(0,1,3) = −values[0]/(2y) + values[1]) - `RadialRec.recJ`,
`RadialRec.recI` and `RadialRec.Q` evaluate to the defining integrals whenever `start = k − i − j ≥ 0`, so that every base
integral met has N ≥ start ≥ 0 and no divergent integral / reduction relation is involved. -/

open Ecpint.RadialRec

/-- hypotheses on the families: the two that the recurrences reach are the integrals -/
structure FamIsIntegral (p x y : ℝ) (fam : Fam ℝ) : Prop where
  hF : ∀ n : ℕ, fam.F (n : Int) = Qint p x y 0 0 n
  hGB : ∀ n : ℕ, 1 ≤ n → fam.GB (n : Int) = QintM p x y 0 n

theorem leaf_even (p x y : ℝ) (fam : Fam ℝ) (hfam : FamIsIntegral p x y fam) (s n t : ℕ) (h : n = s + 2 * t) :
    leaf fam (s : Int) (n : Int) = Qint p x y 0 0 n := by
  have : ((n : Int) - (s : Int)) % 2 = 0 := by omega
  rw [leaf, if_pos this, hfam.hF]

theorem leaf_odd (p x y : ℝ) (fam : Fam ℝ) (hfam : FamIsIntegral p x y fam) (s n t : ℕ) (h : n = s + 1 + 2 * t) :
    leaf fam (s : Int) (n : Int) = QintM p x y 0 n := by
  have : ¬ ((n : Int) - (s : Int)) % 2 = 0 := by omega
  rw [leaf, if_neg this, hfam.hGB n (by omega)]

theorem recJ_eq_Qint (p x y : ℝ) (hp : 0 < p) (hx : 0 ≤ x) (hy : 0 < y) (fam : Fam ℝ) (hfam : FamIsIntegral p x y fam) (s : ℕ) :
    ∀ (j n t : ℕ), n = s + j + 2 * t → recJ y fam (s : Int) j (n : Int) = Qint p x y 0 j n := by
  intro j
  induction j using Nat.strong_induction_on with
  | _ j ih =>
    intro n t h
    match j, ih with
    | 0, _ => exact leaf_even p x y fam hfam s n t (by omega)
    | 1, _ =>
      have h1 : 1 ≤ n := by omega
      have e : (n : Int) - 1 = ((n - 1 : ℕ) : Int) := by omega
      rw [recJ, e, leaf_odd p x y fam hfam s n t (by omega), leaf_even p x y fam hfam s (n - 1) t (by omega),
        Qint_one_eq p x y hp hx hy 0 n h1]
    | j + 2, ih =>
      have h1 : 1 ≤ n := by omega
      have e : (n : Int) - 1 = ((n - 1 : ℕ) : Int) := by omega
      rw [recJ, e, ih j (by omega) n (t + 1) (by omega), ih (j + 1) (by omega) (n - 1) t (by omega),
        Qint_rec_j_recJ_shape p x y hp hx hy 0 j n h1]

theorem recI_eq_Qint (p x y : ℝ) (hp : 0 < p) (hx : 0 < x) (hy : 0 < y) (fam : Fam ℝ) (hfam : FamIsIntegral p x y fam) (s : ℕ) :
    ∀ i : ℕ, (∀ (j n t : ℕ), n = s + i + j + 2 * t → recI p x y fam (s : Int) i j (n : Int) = Qint p x y i j n)
      ∧ (∀ (n t : ℕ), n = s + i + 1 + 2 * t → recI p x y fam (s : Int) i 0 (n : Int) = QintM p x y i n) := by
  intro i
  induction i with
  | zero =>
    refine ⟨fun j n t h => ?_, fun n t h => ?_⟩
    · rw [recI]
      exact recJ_eq_Qint p x y hp hx.le hy fam hfam s j n t (by omega)
    · rw [recI, recJ]
      exact leaf_odd p x y fam hfam s n t (by omega)
  | succ i ih =>
    obtain ⟨ihE, ihO⟩ := ih
    refine ⟨fun j n t h => ?_, fun n t h => ?_⟩
    · have h1 : 1 ≤ n := by omega
      have e : (n : Int) - 1 = ((n - 1 : ℕ) : Int) := by omega
      have e' : (n : Int) + 1 = ((n + 1 : ℕ) : Int) := by omega
      rw [recI, e, e']
      rcases Nat.eq_zero_or_pos j with rfl | hj
      · rw [ihE 0 (n - 1) t (by omega), ihO n t (by omega), ihE 0 (n + 1) (t + 1) (by omega),
          Qint_lower_i_zero_cosh p x y hp hx hy i n h1]
      · rw [ihE j (n - 1) t (by omega), ihE (j - 1) n (t + 1) (by omega), ihE j (n + 1) (t + 1) (by omega),
          Qint_lower_i_recI_shape p x y hp hx hy i j n hj h1]
    · have h2 : 2 ≤ n := by omega
      have e : (n : Int) - 1 = ((n - 1 : ℕ) : Int) := by omega
      have e' : (n : Int) + 1 = ((n + 1 : ℕ) : Int) := by omega
      rw [recI, e, e', ihO (n - 1) t (by omega), ihE 0 n (t + 1) (by omega), ihO (n + 1) (t + 1) (by omega),
        QintM_lower_i p x y hp hx hy i n h2]

/-- **the recurrences are true of the integrals**: for k ≥ i + j the model's `Q` is the defining integral -/
theorem Q_eq_Qint (p x y : ℝ) (hp : 0 < p) (hx : 0 < x) (hy : 0 < y) (fam : Fam ℝ) (hfam : FamIsIntegral p x y fam)
    (i j k : ℕ) (hk : i + j ≤ k) : RadialRec.Q p x y fam i j (k : Int) = Qint p x y i j k := by
  have e : (k : Int) - (i : Int) - (j : Int) = ((k - i - j : ℕ) : Int) := by omega
  rw [RadialRec.Q, e]
  exact (recI_eq_Qint p x y hp hx hy fam hfam (k - i - j) i).1 j k 0 (by omega)

/-! ## Stage 4: the base families as integrals, and the integration-by-parts relations between them

F_N = ∫ r^N e^{-p r²} i_0(2x r) i_0(2y r) dr                     (sinh·sinh / (4xy r²))
G^B_N = ∫ r^N e^{-p r²} i_0(2x r) cosh(2y r)/(2y r) dr           (sinh·cosh)
G^A_N = ∫ r^N e^{-p r²} cosh(2x r)/(2x r) i_0(2y r) dr           (cosh·sinh)
H_N = ∫ r^N e^{-p r²} cosh(2x r)/(2x r) cosh(2y r)/(2y r) dr     (cosh·cosh)
F converges for N ≥ 0, G^A and G^B for N ≥ 1, H for N ≥ 2.  The four relations of `RadialRec.Reductions` are proved for every
N in the convergent range (multiplied through by N − 1); of the instances N ≤ 0 that `Reductions` itself quantifies over,
exactly one - `hF` at N = 0 - is between convergent integrals, and it is proved in its literal form. -/

noncomputable def QintCS (p x y : ℝ) (k : ℕ) : ℝ :=
  ∫ r in Set.Ioi (0:ℝ), r ^ k * Real.exp (-p * r ^ 2) * Real.cosh (2 * x * r) * sphI 0 (2 * y * r)

noncomputable def QintCC (p x y : ℝ) (k : ℕ) : ℝ :=
  ∫ r in Set.Ioi (0:ℝ), r ^ k * Real.exp (-p * r ^ 2) * Real.cosh (2 * x * r) * Real.cosh (2 * y * r)

theorem sphI_zero_comp_hasDerivAt_cosh (c r : ℝ) (hc : 0 < c) (hr : 0 < r) :
    HasDerivAt (fun r : ℝ => sphI 0 (c * r)) ((Real.cosh (c * r) - sphI 0 (c * r)) / r) r := by
  refine (sphI_zero_comp_hasDerivAt c r).congr_deriv ?_
  have hz : c * r ≠ 0 := by positivity
  rw [sphI_one _ hz, sphI_zero _ hz]
  field_simp

/-- derivative piece for a factor i_0(c r) -/
theorem i0_piece (p c b : ℝ) (hp : 0 < p) (hc : 0 < c) (m : ℕ) (B : ℝ → ℝ) (cB : Continuous B)
    (bB : ∀ r : ℝ, 0 < r → |B r| ≤ Real.exp (b * r)) :
    IntegrableOn (fun r : ℝ => r ^ (m + 1) * Real.exp (-p * r ^ 2)
        * ((Real.cosh (c * r) - sphI 0 (c * r)) / r) * B r) (Ioi 0)
    ∧ (∫ r in Ioi (0 : ℝ), r ^ (m + 1) * Real.exp (-p * r ^ 2) * ((Real.cosh (c * r) - sphI 0 (c * r)) / r) * B r)
      = (∫ r in Ioi (0 : ℝ), r ^ m * Real.exp (-p * r ^ 2) * Real.cosh (c * r) * B r)
        - (∫ r in Ioi (0 : ℝ), r ^ m * Real.exp (-p * r ^ 2) * sphI 0 (c * r) * B r) := by
  have i1 := integrableOn_gauss_mul p c b hp m _ B (cosh_comp_continuous c) cB (cosh_comp_bound c hc.le) bB
  have i2 := integrableOn_gauss_mul p c b hp m _ B (sphI_comp_continuous 0 c) cB (sphI_comp_bound 0 c hc.le) bB
  have k : IntegrableOn (fun r : ℝ => r ^ m * Real.exp (-p * r ^ 2) * Real.cosh (c * r) * B r
      - r ^ m * Real.exp (-p * r ^ 2) * sphI 0 (c * r) * B r) (Ioi 0) := i1.sub i2
  have e : EqOn (fun r : ℝ => r ^ m * Real.exp (-p * r ^ 2) * Real.cosh (c * r) * B r
      - r ^ m * Real.exp (-p * r ^ 2) * sphI 0 (c * r) * B r)
      (fun r : ℝ => r ^ (m + 1) * Real.exp (-p * r ^ 2) * ((Real.cosh (c * r) - sphI 0 (c * r)) / r) * B r) (Ioi 0) := by
    intro r hr
    have hr0 : (0 : ℝ) < r := hr
    simp only
    field_simp
    ring
  refine ⟨k.congr_fun e measurableSet_Ioi, ?_⟩
  rw [← setIntegral_congr_fun measurableSet_Ioi e, integral_sub i1 i2]

/-- derivative piece for a factor cosh(c r) -/
theorem ch_piece (p c b : ℝ) (hp : 0 < p) (hc : 0 < c) (m : ℕ) (B : ℝ → ℝ) (cB : Continuous B)
    (bB : ∀ r : ℝ, 0 < r → |B r| ≤ Real.exp (b * r)) :
    IntegrableOn (fun r : ℝ => r ^ (m + 1) * Real.exp (-p * r ^ 2) * (c * (c * r * sphI 0 (c * r))) * B r) (Ioi 0)
    ∧ (∫ r in Ioi (0 : ℝ), r ^ (m + 1) * Real.exp (-p * r ^ 2) * (c * (c * r * sphI 0 (c * r))) * B r)
      = c ^ 2 * (∫ r in Ioi (0 : ℝ), r ^ (m + 2) * Real.exp (-p * r ^ 2) * sphI 0 (c * r) * B r) := by
  have i1 := integrableOn_gauss_mul p c b hp (m + 2) _ B (sphI_comp_continuous 0 c) cB (sphI_comp_bound 0 c hc.le) bB
  have j1 := i1.const_mul (c ^ 2)
  have e : (fun r : ℝ => c ^ 2 * (r ^ (m + 2) * Real.exp (-p * r ^ 2) * sphI 0 (c * r) * B r))
      = fun r : ℝ => r ^ (m + 1) * Real.exp (-p * r ^ 2) * (c * (c * r * sphI 0 (c * r))) * B r := by
    funext r
    ring
  rw [← e]
  exact ⟨j1, integral_const_mul _ _⟩

/-- F·(N−1) relation, m = N -/
theorem base_FF (p x y : ℝ) (hp : 0 < p) (hx : 0 < x) (hy : 0 < y) (m : ℕ) :
    ((m : ℝ) - 1) * Qint p x y 0 0 m = 2 * p * Qint p x y 0 0 (m + 2) - QintC p x y 0 m - QintCS p x y m := by
  have hx2 : 0 < 2 * x := by positivity
  have hy2 : 0 < 2 * y := by positivity
  obtain ⟨iA, eA⟩ := i0_piece p (2 * x) (2 * y) hp hx2 m (fun r => sphI 0 (2 * y * r))
    (sphI_comp_continuous 0 (2 * y)) (sphI_comp_bound 0 (2 * y) hy2.le)
  obtain ⟨iB, eB⟩ := i0_piece p (2 * y) (2 * x) hp hy2 m (fun r => sphI 0 (2 * x * r))
    (sphI_comp_continuous 0 (2 * x)) (sphI_comp_bound 0 (2 * x) hx2.le)
  have h := ibp_core2 p (2 * x) (2 * y) hp m (fun r => sphI 0 (2 * x * r)) (fun r => sphI 0 (2 * y * r)) _ _
    (fun r hr => sphI_zero_comp_hasDerivAt_cosh (2 * x) r hx2 hr)
    (fun r hr => sphI_zero_comp_hasDerivAt_cosh (2 * y) r hy2 hr)
    (sphI_comp_continuous 0 (2 * x)) (sphI_comp_continuous 0 (2 * y))
    (sphI_comp_bound 0 (2 * x) hx2.le) (sphI_comp_bound 0 (2 * y) hy2.le) iA iB
  rw [eA, eB] at h
  have s1 : (∫ r in Ioi (0 : ℝ), r ^ m * Real.exp (-p * r ^ 2) * Real.cosh (2 * y * r) * sphI 0 (2 * x * r))
      = QintC p x y 0 m := setIntegral_congr_fun measurableSet_Ioi fun r _ => by ring
  have s2 : (∫ r in Ioi (0 : ℝ), r ^ m * Real.exp (-p * r ^ 2) * sphI 0 (2 * y * r) * sphI 0 (2 * x * r))
      = Qint p x y 0 0 m := setIntegral_congr_fun measurableSet_Ioi fun r _ => by ring
  rw [s1, s2] at h
  unfold Qint QintCS at *
  linarith

/-- G^B·(N−1) relation, m = N − 1 -/
theorem base_SC (p x y : ℝ) (hp : 0 < p) (hx : 0 < x) (hy : 0 < y) (m : ℕ) :
    (m : ℝ) * QintC p x y 0 m = 2 * p * QintC p x y 0 (m + 2) - 4 * y ^ 2 * Qint p x y 0 0 (m + 2) - QintCC p x y m := by
  have hx2 : 0 < 2 * x := by positivity
  have hy2 : 0 < 2 * y := by positivity
  obtain ⟨iA, eA⟩ := i0_piece p (2 * x) (2 * y) hp hx2 m (fun r => Real.cosh (2 * y * r))
    (cosh_comp_continuous (2 * y)) (cosh_comp_bound (2 * y) hy2.le)
  obtain ⟨iB, eB⟩ := ch_piece p (2 * y) (2 * x) hp hy2 m (fun r => sphI 0 (2 * x * r))
    (sphI_comp_continuous 0 (2 * x)) (sphI_comp_bound 0 (2 * x) hx2.le)
  have h := ibp_core2 p (2 * x) (2 * y) hp m (fun r => sphI 0 (2 * x * r)) (fun r => Real.cosh (2 * y * r)) _ _
    (fun r hr => sphI_zero_comp_hasDerivAt_cosh (2 * x) r hx2 hr)
    (fun r hr => cosh_comp_hasDerivAt (2 * y) r hy2 hr)
    (sphI_comp_continuous 0 (2 * x)) (cosh_comp_continuous (2 * y))
    (sphI_comp_bound 0 (2 * x) hx2.le) (cosh_comp_bound (2 * y) hy2.le) iA iB
  rw [eA, eB] at h
  have s2 : (∫ r in Ioi (0 : ℝ), r ^ (m + 2) * Real.exp (-p * r ^ 2) * sphI 0 (2 * y * r) * sphI 0 (2 * x * r))
      = Qint p x y 0 0 (m + 2) := setIntegral_congr_fun measurableSet_Ioi fun r _ => by ring
  rw [s2] at h
  unfold QintC QintCC at *
  linarith

/-- G^A·(N−1) relation, m = N − 1 -/
theorem base_CS (p x y : ℝ) (hp : 0 < p) (hx : 0 < x) (hy : 0 < y) (m : ℕ) :
    (m : ℝ) * QintCS p x y m = 2 * p * QintCS p x y (m + 2) - 4 * x ^ 2 * Qint p x y 0 0 (m + 2) - QintCC p x y m := by
  have hx2 : 0 < 2 * x := by positivity
  have hy2 : 0 < 2 * y := by positivity
  obtain ⟨iA, eA⟩ := ch_piece p (2 * x) (2 * y) hp hx2 m (fun r => sphI 0 (2 * y * r))
    (sphI_comp_continuous 0 (2 * y)) (sphI_comp_bound 0 (2 * y) hy2.le)
  obtain ⟨iB, eB⟩ := i0_piece p (2 * y) (2 * x) hp hy2 m (fun r => Real.cosh (2 * x * r))
    (cosh_comp_continuous (2 * x)) (cosh_comp_bound (2 * x) hx2.le)
  have h := ibp_core2 p (2 * x) (2 * y) hp m (fun r => Real.cosh (2 * x * r)) (fun r => sphI 0 (2 * y * r)) _ _
    (fun r hr => cosh_comp_hasDerivAt (2 * x) r hx2 hr)
    (fun r hr => sphI_zero_comp_hasDerivAt_cosh (2 * y) r hy2 hr)
    (cosh_comp_continuous (2 * x)) (sphI_comp_continuous 0 (2 * y))
    (cosh_comp_bound (2 * x) hx2.le) (sphI_comp_bound 0 (2 * y) hy2.le) iA iB
  rw [eA, eB] at h
  have s1 : (∫ r in Ioi (0 : ℝ), r ^ m * Real.exp (-p * r ^ 2) * Real.cosh (2 * y * r) * Real.cosh (2 * x * r))
      = QintCC p x y m := setIntegral_congr_fun measurableSet_Ioi fun r _ => by ring
  have s2 : (∫ r in Ioi (0 : ℝ), r ^ m * Real.exp (-p * r ^ 2) * sphI 0 (2 * y * r) * Real.cosh (2 * x * r))
      = QintCS p x y m := setIntegral_congr_fun measurableSet_Ioi fun r _ => by ring
  rw [s1, s2] at h
  unfold Qint QintCS at *
  linarith

/-- H·(N−1) relation, m = N − 2 -/
theorem base_CC (p x y : ℝ) (hp : 0 < p) (hx : 0 < x) (hy : 0 < y) (m : ℕ) :
    ((m : ℝ) + 1) * QintCC p x y m = 2 * p * QintCC p x y (m + 2) - 4 * x ^ 2 * QintC p x y 0 (m + 2)
      - 4 * y ^ 2 * QintCS p x y (m + 2) := by
  have hx2 : 0 < 2 * x := by positivity
  have hy2 : 0 < 2 * y := by positivity
  obtain ⟨iA, eA⟩ := ch_piece p (2 * x) (2 * y) hp hx2 m (fun r => Real.cosh (2 * y * r))
    (cosh_comp_continuous (2 * y)) (cosh_comp_bound (2 * y) hy2.le)
  obtain ⟨iB, eB⟩ := ch_piece p (2 * y) (2 * x) hp hy2 m (fun r => Real.cosh (2 * x * r))
    (cosh_comp_continuous (2 * x)) (cosh_comp_bound (2 * x) hx2.le)
  have h := ibp_core2 p (2 * x) (2 * y) hp m (fun r => Real.cosh (2 * x * r)) (fun r => Real.cosh (2 * y * r)) _ _
    (fun r hr => cosh_comp_hasDerivAt (2 * x) r hx2 hr)
    (fun r hr => cosh_comp_hasDerivAt (2 * y) r hy2 hr)
    (cosh_comp_continuous (2 * x)) (cosh_comp_continuous (2 * y))
    (cosh_comp_bound (2 * x) hx2.le) (cosh_comp_bound (2 * y) hy2.le) iA iB
  rw [eA, eB] at h
  have s2 : (∫ r in Ioi (0 : ℝ), r ^ (m + 2) * Real.exp (-p * r ^ 2) * sphI 0 (2 * y * r) * Real.cosh (2 * x * r))
      = QintCS p x y (m + 2) := setIntegral_congr_fun measurableSet_Ioi fun r _ => by ring
  rw [s2] at h
  unfold QintC QintCC at *
  linarith

/-- the four families as the integrals they denote (value 0 outside the convergent range is irrelevant: junk) -/
noncomputable def famInt (p x y : ℝ) : Fam ℝ where
  F N := Qint p x y 0 0 N.toNat
  GB N := QintC p x y 0 (N - 1).toNat / (2 * y)
  GA N := QintCS p x y (N - 1).toNat / (2 * x)
  H N := QintCC p x y (N - 2).toNat / (2 * x * (2 * y))

theorem famInt_isIntegral (p x y : ℝ) : FamIsIntegral p x y (famInt p x y) where
  hF n := by simp [famInt]
  hGB n hn := by
    have e : ((n : Int) - 1).toNat = n - 1 := by omega
    simp only [famInt, QintM, e]

/-- `Reductions.hF` at N = 0, literally: the one instance of the four reduction relations (N ≤ 0) that is a relation
between convergent integrals -/
theorem famInt_hF_zero (p x y : ℝ) (hp : 0 < p) (hx : 0 < x) (hy : 0 < y) :
    (famInt p x y).F 0 = (2 * p * (famInt p x y).F (0 + 2) - 2 * y * (famInt p x y).GB (0 + 1)
      - 2 * x * (famInt p x y).GA (0 + 1)) / (((0 : Int) : ℝ) - 1) := by
  have h := base_FF p x y hp hx hy 0
  have e1 : ((0 : Int) + 2).toNat = 2 := rfl
  have e2 : ((0 : Int) + 1 - 1).toNat = 0 := rfl
  have e3 : (0 : Int).toNat = 0 := rfl
  simp only [famInt, e1, e2, e3]
  norm_num at h ⊢
  field_simp
  linarith

/-- the `hF` relation for every N ≥ 0 (multiplied by N − 1; N = 1 gives 0 on the left) -/
theorem famInt_hF (p x y : ℝ) (hp : 0 < p) (hx : 0 < x) (hy : 0 < y) (N : Int) (hN : 0 ≤ N) :
    ((N : ℝ) - 1) * (famInt p x y).F N = 2 * p * (famInt p x y).F (N + 2) - 2 * y * (famInt p x y).GB (N + 1)
      - 2 * x * (famInt p x y).GA (N + 1) := by
  obtain ⟨m, rfl⟩ := Int.eq_ofNat_of_zero_le hN
  have h := base_FF p x y hp hx hy m
  have e1 : ((m : Int) + 2).toNat = m + 2 := by omega
  have e2 : ((m : Int) + 1 - 1).toNat = m := by omega
  simp only [famInt, e1, e2, Int.toNat_natCast, Int.cast_natCast]
  field_simp
  linarith

/-- the `hGB` relation for every N ≥ 1 -/
theorem famInt_hGB (p x y : ℝ) (hp : 0 < p) (hx : 0 < x) (hy : 0 < y) (N : Int) (hN : 1 ≤ N) :
    ((N : ℝ) - 1) * (famInt p x y).GB N = 2 * p * (famInt p x y).GB (N + 2) - 2 * y * (famInt p x y).F (N + 1)
      - 2 * x * (famInt p x y).H (N + 1) := by
  obtain ⟨m, rfl⟩ : ∃ m : ℕ, N = (m : Int) + 1 := ⟨(N - 1).toNat, by omega⟩
  have h := base_SC p x y hp hx hy m
  have e1 : ((m : Int) + 1 - 1).toNat = m := by omega
  have e2 : ((m : Int) + 1 + 2 - 1).toNat = m + 2 := by omega
  have e3 : ((m : Int) + 1 + 1).toNat = m + 2 := by omega
  have e4 : ((m : Int) + 1 + 1 - 2).toNat = m := by omega
  simp only [famInt, e1, e2, e3, e4]
  push_cast
  field_simp
  linarith

/-- the `hGA` relation for every N ≥ 1 -/
theorem famInt_hGA (p x y : ℝ) (hp : 0 < p) (hx : 0 < x) (hy : 0 < y) (N : Int) (hN : 1 ≤ N) :
    ((N : ℝ) - 1) * (famInt p x y).GA N = 2 * p * (famInt p x y).GA (N + 2) - 2 * y * (famInt p x y).H (N + 1)
      - 2 * x * (famInt p x y).F (N + 1) := by
  obtain ⟨m, rfl⟩ : ∃ m : ℕ, N = (m : Int) + 1 := ⟨(N - 1).toNat, by omega⟩
  have h := base_CS p x y hp hx hy m
  have e1 : ((m : Int) + 1 - 1).toNat = m := by omega
  have e2 : ((m : Int) + 1 + 2 - 1).toNat = m + 2 := by omega
  have e3 : ((m : Int) + 1 + 1).toNat = m + 2 := by omega
  have e4 : ((m : Int) + 1 + 1 - 2).toNat = m := by omega
  simp only [famInt, e1, e2, e3, e4]
  push_cast
  field_simp
  linarith

/-- the `hH` relation for every N ≥ 2 -/
theorem famInt_hH (p x y : ℝ) (hp : 0 < p) (hx : 0 < x) (hy : 0 < y) (N : Int) (hN : 2 ≤ N) :
    ((N : ℝ) - 1) * (famInt p x y).H N = 2 * p * (famInt p x y).H (N + 2) - 2 * y * (famInt p x y).GA (N + 1)
      - 2 * x * (famInt p x y).GB (N + 1) := by
  obtain ⟨m, rfl⟩ : ∃ m : ℕ, N = (m : Int) + 2 := ⟨(N - 2).toNat, by omega⟩
  have h := base_CC p x y hp hx hy m
  have e1 : ((m : Int) + 2 - 2).toNat = m := by omega
  have e2 : ((m : Int) + 2 + 2 - 2).toNat = m + 2 := by omega
  have e3 : ((m : Int) + 2 + 1 - 1).toNat = m + 2 := by omega
  simp only [famInt, e1, e2, e3]
  push_cast
  field_simp
  linarith

/-- the recurrence model over the integral families is the defining integral, k ≥ i + j -/
theorem Q_famInt_eq_Qint (p x y : ℝ) (hp : 0 < p) (hx : 0 < x) (hy : 0 < y) (i j k : ℕ) (hk : i + j ≤ k) :
    RadialRec.Q p x y (famInt p x y) i j (k : Int) = Qint p x y i j k :=
  Q_eq_Qint p x y hp hx hy _ (famInt_isIntegral p x y) i j k hk

/-! ## Joining with C12Cases: the generated closed forms evaluate to the defining integral (k ≥ i + j)

`C12.case_<key>` needs families satisfying `Reductions` for ALL N ≤ 0, where (except F_0) the integrals diverge and the
relations are formal.  `famExt` takes the integrals for N ≥ 1 and DEFINES the entries at N ≤ 0 downwards by the four
relations; so `Reductions` holds by construction, the entries the compiled code is given (`values[n]` = N = n+2, G^A_1,
G^B_1, H_2) are the integrals, and the only entry at N ≤ 0 that the recurrences reach when k ≥ i + j, F_0, is the integral
F_0 by `famInt_hF_zero`. -/

structure Quad where
  F : ℝ
  GB : ℝ
  GA : ℝ
  H : ℝ

/-- entries at N from the entries `a` at N+1 and `b` at N+2, by the four reduction relations -/
noncomputable def redStep (p x y : ℝ) (N : Int) (a b : Quad) : Quad where
  F := (2 * p * b.F - 2 * y * a.GB - 2 * x * a.GA) / ((N : ℝ) - 1)
  GB := (2 * p * b.GB - 2 * y * a.F - 2 * x * a.H) / ((N : ℝ) - 1)
  GA := (2 * p * b.GA - 2 * y * a.H - 2 * x * a.F) / ((N : ℝ) - 1)
  H := (2 * p * b.H - 2 * y * a.GA - 2 * x * a.GB) / ((N : ℝ) - 1)

/-- entries at N = 2 − n -/
noncomputable def extDown (p x y : ℝ) : ℕ → Quad
  | 0 => ⟨(famInt p x y).F 2, (famInt p x y).GB 2, (famInt p x y).GA 2, (famInt p x y).H 2⟩
  | 1 => ⟨(famInt p x y).F 1, (famInt p x y).GB 1, (famInt p x y).GA 1, (famInt p x y).H 1⟩
  | n + 2 => redStep p x y (-(n : Int)) (extDown p x y (n + 1)) (extDown p x y n)

noncomputable def famExt (p x y : ℝ) : Fam ℝ where
  F N := if N ≤ 2 then (extDown p x y (2 - N).toNat).F else (famInt p x y).F N
  GB N := if N ≤ 2 then (extDown p x y (2 - N).toNat).GB else (famInt p x y).GB N
  GA N := if N ≤ 2 then (extDown p x y (2 - N).toNat).GA else (famInt p x y).GA N
  H N := if N ≤ 2 then (extDown p x y (2 - N).toNat).H else (famInt p x y).H N

theorem famExt_reductions (p x y : ℝ) : Reductions p x y (famExt p x y) := by
  refine ⟨?_, ?_, ?_, ?_⟩ <;> intro N hN <;>
  · obtain ⟨n, rfl⟩ : ∃ n : ℕ, N = -(n : Int) := ⟨(-N).toNat, by omega⟩
    have c0 : -(n : Int) ≤ 2 := by omega
    have c1 : -(n : Int) + 1 ≤ 2 := by omega
    have c2 : -(n : Int) + 2 ≤ 2 := by omega
    have e0 : (2 - -(n : Int)).toNat = n + 2 := by omega
    have e1 : (2 - (-(n : Int) + 1)).toNat = n + 1 := by omega
    have e2 : (2 - (-(n : Int) + 2)).toNat = n := by omega
    simp only [famExt, if_pos c0, if_pos c1, if_pos c2, e0, e1, e2]
    rfl

theorem famExt_eq_famInt (p x y : ℝ) (N : Int) (hN : 1 ≤ N) :
    (famExt p x y).F N = (famInt p x y).F N ∧ (famExt p x y).GB N = (famInt p x y).GB N
      ∧ (famExt p x y).GA N = (famInt p x y).GA N ∧ (famExt p x y).H N = (famInt p x y).H N := by
  obtain rfl | rfl | h : N = 1 ∨ N = 2 ∨ 3 ≤ N := by omega
  · have e : (2 - (1 : Int)).toNat = 1 := rfl
    simp only [famExt, if_pos (by norm_num : (1 : Int) ≤ 2), e, extDown, and_self]
  · have e : (2 - (2 : Int)).toNat = 0 := rfl
    simp only [famExt, if_pos (le_refl (2 : Int)), e, extDown, and_self]
  · have c : ¬ N ≤ 2 := by omega
    simp only [famExt, if_neg c, and_self]

theorem famExt_F_zero (p x y : ℝ) (hp : 0 < p) (hx : 0 < x) (hy : 0 < y) : (famExt p x y).F 0 = (famInt p x y).F 0 := by
  have e : (2 - (0 : Int)).toNat = 0 + 2 := rfl
  have h := famInt_hF_zero p x y hp hx hy
  simp only [famExt, if_pos (by norm_num : (0 : Int) ≤ 2), e, extDown, redStep]
  rw [h]
  norm_num

theorem famExt_isIntegral (p x y : ℝ) (hp : 0 < p) (hx : 0 < x) (hy : 0 < y) : FamIsIntegral p x y (famExt p x y) where
  hF n := by
    rcases Nat.eq_zero_or_pos n with rfl | hn
    · rw [Nat.cast_zero, famExt_F_zero p x y hp hx hy]
      exact (famInt_isIntegral p x y).hF 0
    · rw [(famExt_eq_famInt p x y n (by omega)).1]
      exact (famInt_isIntegral p x y).hF n
  hGB n hn := by
    rw [(famExt_eq_famInt p x y n (by omega)).2.1]
    exact (famInt_isIntegral p x y).hGB n hn

/-- what the compiled code is handed: `values[n]` (N = n + 2) and the three special values, as integrals -/
noncomputable def valuesInt (p x y : ℝ) (n : ℕ) : ℝ :=
  if n % 2 = 0 then Qint p x y 0 0 (n + 2) else QintC p x y 0 (n + 1) / (2 * y)

theorem valuesOf_famExt (p x y : ℝ) : valuesOf (famExt p x y) = valuesInt p x y := by
  funext n
  have h := famExt_eq_famInt p x y ((n : Int) + 2) (by omega)
  have e1 : ((n : Int) + 2).toNat = n + 2 := by omega
  have e2 : ((n : Int) + 2 - 1).toNat = n + 1 := by omega
  simp only [valuesOf, valuesInt, h.1, h.2.1, famInt, e1, e2]

theorem famExt_GA_one (p x y : ℝ) : (famExt p x y).GA 1 = QintCS p x y 0 / (2 * x) := by
  rw [(famExt_eq_famInt p x y 1 le_rfl).2.2.1]
  rfl

theorem famExt_GB_one (p x y : ℝ) : (famExt p x y).GB 1 = QintC p x y 0 0 / (2 * y) := by
  rw [(famExt_eq_famInt p x y 1 le_rfl).2.1]
  rfl

theorem famExt_H_two (p x y : ℝ) : (famExt p x y).H 2 = QintCC p x y 0 / (2 * x * (2 * y)) := by
  rw [(famExt_eq_famInt p x y 2 (by norm_num)).2.2.2]
  rfl

/-- for k ≥ i + j the recurrence model over `famExt` (which satisfies `Reductions`) is the defining integral -/
theorem Q_famExt_eq_Qint (p x y : ℝ) (hp : 0 < p) (hx : 0 < x) (hy : 0 < y) (i j k : ℕ) (hk : i + j ≤ k) :
    RadialRec.Q p x y (famExt p x y) i j (k : Int) = Qint p x y i j k :=
  Q_eq_Qint p x y hp hx hy _ (famExt_isIntegral p x y hp hx hy) i j k hk

/-- the shape shared by the per-case statements below -/
theorem closed_form_eq_Qint (p x y : ℝ) (hp : 0 < p) (hx : 0 < x) (hy : 0 < y) (i j k : ℕ) (hk : i + j ≤ k) (c : ℝ)
    (hc : c = RadialRec.Q p x y (famExt p x y) i j (k : Int)) : c = Qint p x y i j k :=
  hc.trans (Q_famExt_eq_Qint p x y hp hx hy i j k hk)

/-! ### the 45 generated cases with k ≥ i + j: closed form at the integral base values = the defining integral

(the other 18 keys, 301, 402, 10201, 10302, 10401, 10403, 20202, 20301, 20303, 20402, 20404, 30302, 30304, 30401, 30403, 30405, 40402, 40404, have k < i + j: their recurrences pass through divergent base integrals and only make sense through
the formal reductions; not covered here) -/

theorem case_2_eq_integral (p x y : ℝ) (hp : 0 < p) (hx : 0 < x) (hy : 0 < y) :
    Gen.radialCase_2 p x y (x*x) (y*y) (p*p) (valuesInt p x y) (QintCS p x y 0 / (2 * x)) (QintC p x y 0 0 / (2 * y))
      (QintCC p x y 0 / (2 * x * (2 * y))) = Qint p x y 0 0 2 := by
  rw [← valuesOf_famExt, ← famExt_GA_one, ← famExt_GB_one, ← famExt_H_two]
  exact closed_form_eq_Qint p x y hp hx hy 0 0 2 (by norm_num) _
    (C12.case_2 p x y hx.ne' hy.ne' _ (famExt_reductions p x y))

theorem case_4_eq_integral (p x y : ℝ) (hp : 0 < p) (hx : 0 < x) (hy : 0 < y) :
    Gen.radialCase_4 p x y (x*x) (y*y) (p*p) (valuesInt p x y) (QintCS p x y 0 / (2 * x)) (QintC p x y 0 0 / (2 * y))
      (QintCC p x y 0 / (2 * x * (2 * y))) = Qint p x y 0 0 4 := by
  rw [← valuesOf_famExt, ← famExt_GA_one, ← famExt_GB_one, ← famExt_H_two]
  exact closed_form_eq_Qint p x y hp hx hy 0 0 4 (by norm_num) _
    (C12.case_4 p x y hx.ne' hy.ne' _ (famExt_reductions p x y))

theorem case_6_eq_integral (p x y : ℝ) (hp : 0 < p) (hx : 0 < x) (hy : 0 < y) :
    Gen.radialCase_6 p x y (x*x) (y*y) (p*p) (valuesInt p x y) (QintCS p x y 0 / (2 * x)) (QintC p x y 0 0 / (2 * y))
      (QintCC p x y 0 / (2 * x * (2 * y))) = Qint p x y 0 0 6 := by
  rw [← valuesOf_famExt, ← famExt_GA_one, ← famExt_GB_one, ← famExt_H_two]
  exact closed_form_eq_Qint p x y hp hx hy 0 0 6 (by norm_num) _
    (C12.case_6 p x y hx.ne' hy.ne' _ (famExt_reductions p x y))

theorem case_8_eq_integral (p x y : ℝ) (hp : 0 < p) (hx : 0 < x) (hy : 0 < y) :
    Gen.radialCase_8 p x y (x*x) (y*y) (p*p) (valuesInt p x y) (QintCS p x y 0 / (2 * x)) (QintC p x y 0 0 / (2 * y))
      (QintCC p x y 0 / (2 * x * (2 * y))) = Qint p x y 0 0 8 := by
  rw [← valuesOf_famExt, ← famExt_GA_one, ← famExt_GB_one, ← famExt_H_two]
  exact closed_form_eq_Qint p x y hp hx hy 0 0 8 (by norm_num) _
    (C12.case_8 p x y hx.ne' hy.ne' _ (famExt_reductions p x y))

theorem case_10_eq_integral (p x y : ℝ) (hp : 0 < p) (hx : 0 < x) (hy : 0 < y) :
    Gen.radialCase_10 p x y (x*x) (y*y) (p*p) (valuesInt p x y) (QintCS p x y 0 / (2 * x)) (QintC p x y 0 0 / (2 * y))
      (QintCC p x y 0 / (2 * x * (2 * y))) = Qint p x y 0 0 10 := by
  rw [← valuesOf_famExt, ← famExt_GA_one, ← famExt_GB_one, ← famExt_H_two]
  exact closed_form_eq_Qint p x y hp hx hy 0 0 10 (by norm_num) _
    (C12.case_10 p x y hx.ne' hy.ne' _ (famExt_reductions p x y))

theorem case_12_eq_integral (p x y : ℝ) (hp : 0 < p) (hx : 0 < x) (hy : 0 < y) :
    Gen.radialCase_12 p x y (x*x) (y*y) (p*p) (valuesInt p x y) (QintCS p x y 0 / (2 * x)) (QintC p x y 0 0 / (2 * y))
      (QintCC p x y 0 / (2 * x * (2 * y))) = Qint p x y 0 0 12 := by
  rw [← valuesOf_famExt, ← famExt_GA_one, ← famExt_GB_one, ← famExt_H_two]
  exact closed_form_eq_Qint p x y hp hx hy 0 0 12 (by norm_num) _
    (C12.case_12 p x y hx.ne' hy.ne' _ (famExt_reductions p x y))

theorem case_101_eq_integral (p x y : ℝ) (hp : 0 < p) (hx : 0 < x) (hy : 0 < y) :
    Gen.radialCase_101 p x y (x*x) (y*y) (p*p) (valuesInt p x y) (QintCS p x y 0 / (2 * x)) (QintC p x y 0 0 / (2 * y))
      (QintCC p x y 0 / (2 * x * (2 * y))) = Qint p x y 0 1 1 := by
  rw [← valuesOf_famExt, ← famExt_GA_one, ← famExt_GB_one, ← famExt_H_two]
  exact closed_form_eq_Qint p x y hp hx hy 0 1 1 (by norm_num) _
    (C12.case_101 p x y hx.ne' hy.ne' _ (famExt_reductions p x y))

theorem case_103_eq_integral (p x y : ℝ) (hp : 0 < p) (hx : 0 < x) (hy : 0 < y) :
    Gen.radialCase_103 p x y (x*x) (y*y) (p*p) (valuesInt p x y) (QintCS p x y 0 / (2 * x)) (QintC p x y 0 0 / (2 * y))
      (QintCC p x y 0 / (2 * x * (2 * y))) = Qint p x y 0 1 3 := by
  rw [← valuesOf_famExt, ← famExt_GA_one, ← famExt_GB_one, ← famExt_H_two]
  exact closed_form_eq_Qint p x y hp hx hy 0 1 3 (by norm_num) _
    (C12.case_103 p x y hx.ne' hy.ne' _ (famExt_reductions p x y))

theorem case_105_eq_integral (p x y : ℝ) (hp : 0 < p) (hx : 0 < x) (hy : 0 < y) :
    Gen.radialCase_105 p x y (x*x) (y*y) (p*p) (valuesInt p x y) (QintCS p x y 0 / (2 * x)) (QintC p x y 0 0 / (2 * y))
      (QintCC p x y 0 / (2 * x * (2 * y))) = Qint p x y 0 1 5 := by
  rw [← valuesOf_famExt, ← famExt_GA_one, ← famExt_GB_one, ← famExt_H_two]
  exact closed_form_eq_Qint p x y hp hx hy 0 1 5 (by norm_num) _
    (C12.case_105 p x y hx.ne' hy.ne' _ (famExt_reductions p x y))

theorem case_107_eq_integral (p x y : ℝ) (hp : 0 < p) (hx : 0 < x) (hy : 0 < y) :
    Gen.radialCase_107 p x y (x*x) (y*y) (p*p) (valuesInt p x y) (QintCS p x y 0 / (2 * x)) (QintC p x y 0 0 / (2 * y))
      (QintCC p x y 0 / (2 * x * (2 * y))) = Qint p x y 0 1 7 := by
  rw [← valuesOf_famExt, ← famExt_GA_one, ← famExt_GB_one, ← famExt_H_two]
  exact closed_form_eq_Qint p x y hp hx hy 0 1 7 (by norm_num) _
    (C12.case_107 p x y hx.ne' hy.ne' _ (famExt_reductions p x y))

theorem case_109_eq_integral (p x y : ℝ) (hp : 0 < p) (hx : 0 < x) (hy : 0 < y) :
    Gen.radialCase_109 p x y (x*x) (y*y) (p*p) (valuesInt p x y) (QintCS p x y 0 / (2 * x)) (QintC p x y 0 0 / (2 * y))
      (QintCC p x y 0 / (2 * x * (2 * y))) = Qint p x y 0 1 9 := by
  rw [← valuesOf_famExt, ← famExt_GA_one, ← famExt_GB_one, ← famExt_H_two]
  exact closed_form_eq_Qint p x y hp hx hy 0 1 9 (by norm_num) _
    (C12.case_109 p x y hx.ne' hy.ne' _ (famExt_reductions p x y))

theorem case_111_eq_integral (p x y : ℝ) (hp : 0 < p) (hx : 0 < x) (hy : 0 < y) :
    Gen.radialCase_111 p x y (x*x) (y*y) (p*p) (valuesInt p x y) (QintCS p x y 0 / (2 * x)) (QintC p x y 0 0 / (2 * y))
      (QintCC p x y 0 / (2 * x * (2 * y))) = Qint p x y 0 1 11 := by
  rw [← valuesOf_famExt, ← famExt_GA_one, ← famExt_GB_one, ← famExt_H_two]
  exact closed_form_eq_Qint p x y hp hx hy 0 1 11 (by norm_num) _
    (C12.case_111 p x y hx.ne' hy.ne' _ (famExt_reductions p x y))

theorem case_202_eq_integral (p x y : ℝ) (hp : 0 < p) (hx : 0 < x) (hy : 0 < y) :
    Gen.radialCase_202 p x y (x*x) (y*y) (p*p) (valuesInt p x y) (QintCS p x y 0 / (2 * x)) (QintC p x y 0 0 / (2 * y))
      (QintCC p x y 0 / (2 * x * (2 * y))) = Qint p x y 0 2 2 := by
  rw [← valuesOf_famExt, ← famExt_GA_one, ← famExt_GB_one, ← famExt_H_two]
  exact closed_form_eq_Qint p x y hp hx hy 0 2 2 (by norm_num) _
    (C12.case_202 p x y hx.ne' hy.ne' _ (famExt_reductions p x y))

theorem case_204_eq_integral (p x y : ℝ) (hp : 0 < p) (hx : 0 < x) (hy : 0 < y) :
    Gen.radialCase_204 p x y (x*x) (y*y) (p*p) (valuesInt p x y) (QintCS p x y 0 / (2 * x)) (QintC p x y 0 0 / (2 * y))
      (QintCC p x y 0 / (2 * x * (2 * y))) = Qint p x y 0 2 4 := by
  rw [← valuesOf_famExt, ← famExt_GA_one, ← famExt_GB_one, ← famExt_H_two]
  exact closed_form_eq_Qint p x y hp hx hy 0 2 4 (by norm_num) _
    (C12.case_204 p x y hx.ne' hy.ne' _ (famExt_reductions p x y))

theorem case_206_eq_integral (p x y : ℝ) (hp : 0 < p) (hx : 0 < x) (hy : 0 < y) :
    Gen.radialCase_206 p x y (x*x) (y*y) (p*p) (valuesInt p x y) (QintCS p x y 0 / (2 * x)) (QintC p x y 0 0 / (2 * y))
      (QintCC p x y 0 / (2 * x * (2 * y))) = Qint p x y 0 2 6 := by
  rw [← valuesOf_famExt, ← famExt_GA_one, ← famExt_GB_one, ← famExt_H_two]
  exact closed_form_eq_Qint p x y hp hx hy 0 2 6 (by norm_num) _
    (C12.case_206 p x y hx.ne' hy.ne' _ (famExt_reductions p x y))

theorem case_208_eq_integral (p x y : ℝ) (hp : 0 < p) (hx : 0 < x) (hy : 0 < y) :
    Gen.radialCase_208 p x y (x*x) (y*y) (p*p) (valuesInt p x y) (QintCS p x y 0 / (2 * x)) (QintC p x y 0 0 / (2 * y))
      (QintCC p x y 0 / (2 * x * (2 * y))) = Qint p x y 0 2 8 := by
  rw [← valuesOf_famExt, ← famExt_GA_one, ← famExt_GB_one, ← famExt_H_two]
  exact closed_form_eq_Qint p x y hp hx hy 0 2 8 (by norm_num) _
    (C12.case_208 p x y hx.ne' hy.ne' _ (famExt_reductions p x y))

theorem case_210_eq_integral (p x y : ℝ) (hp : 0 < p) (hx : 0 < x) (hy : 0 < y) :
    Gen.radialCase_210 p x y (x*x) (y*y) (p*p) (valuesInt p x y) (QintCS p x y 0 / (2 * x)) (QintC p x y 0 0 / (2 * y))
      (QintCC p x y 0 / (2 * x * (2 * y))) = Qint p x y 0 2 10 := by
  rw [← valuesOf_famExt, ← famExt_GA_one, ← famExt_GB_one, ← famExt_H_two]
  exact closed_form_eq_Qint p x y hp hx hy 0 2 10 (by norm_num) _
    (C12.case_210 p x y hx.ne' hy.ne' _ (famExt_reductions p x y))

theorem case_303_eq_integral (p x y : ℝ) (hp : 0 < p) (hx : 0 < x) (hy : 0 < y) :
    Gen.radialCase_303 p x y (x*x) (y*y) (p*p) (valuesInt p x y) (QintCS p x y 0 / (2 * x)) (QintC p x y 0 0 / (2 * y))
      (QintCC p x y 0 / (2 * x * (2 * y))) = Qint p x y 0 3 3 := by
  rw [← valuesOf_famExt, ← famExt_GA_one, ← famExt_GB_one, ← famExt_H_two]
  exact closed_form_eq_Qint p x y hp hx hy 0 3 3 (by norm_num) _
    (C12.case_303 p x y hx.ne' hy.ne' _ (famExt_reductions p x y))

theorem case_305_eq_integral (p x y : ℝ) (hp : 0 < p) (hx : 0 < x) (hy : 0 < y) :
    Gen.radialCase_305 p x y (x*x) (y*y) (p*p) (valuesInt p x y) (QintCS p x y 0 / (2 * x)) (QintC p x y 0 0 / (2 * y))
      (QintCC p x y 0 / (2 * x * (2 * y))) = Qint p x y 0 3 5 := by
  rw [← valuesOf_famExt, ← famExt_GA_one, ← famExt_GB_one, ← famExt_H_two]
  exact closed_form_eq_Qint p x y hp hx hy 0 3 5 (by norm_num) _
    (C12.case_305 p x y hx.ne' hy.ne' _ (famExt_reductions p x y))

theorem case_307_eq_integral (p x y : ℝ) (hp : 0 < p) (hx : 0 < x) (hy : 0 < y) :
    Gen.radialCase_307 p x y (x*x) (y*y) (p*p) (valuesInt p x y) (QintCS p x y 0 / (2 * x)) (QintC p x y 0 0 / (2 * y))
      (QintCC p x y 0 / (2 * x * (2 * y))) = Qint p x y 0 3 7 := by
  rw [← valuesOf_famExt, ← famExt_GA_one, ← famExt_GB_one, ← famExt_H_two]
  exact closed_form_eq_Qint p x y hp hx hy 0 3 7 (by norm_num) _
    (C12.case_307 p x y hx.ne' hy.ne' _ (famExt_reductions p x y))

theorem case_309_eq_integral (p x y : ℝ) (hp : 0 < p) (hx : 0 < x) (hy : 0 < y) :
    Gen.radialCase_309 p x y (x*x) (y*y) (p*p) (valuesInt p x y) (QintCS p x y 0 / (2 * x)) (QintC p x y 0 0 / (2 * y))
      (QintCC p x y 0 / (2 * x * (2 * y))) = Qint p x y 0 3 9 := by
  rw [← valuesOf_famExt, ← famExt_GA_one, ← famExt_GB_one, ← famExt_H_two]
  exact closed_form_eq_Qint p x y hp hx hy 0 3 9 (by norm_num) _
    (C12.case_309 p x y hx.ne' hy.ne' _ (famExt_reductions p x y))

theorem case_404_eq_integral (p x y : ℝ) (hp : 0 < p) (hx : 0 < x) (hy : 0 < y) :
    Gen.radialCase_404 p x y (x*x) (y*y) (p*p) (valuesInt p x y) (QintCS p x y 0 / (2 * x)) (QintC p x y 0 0 / (2 * y))
      (QintCC p x y 0 / (2 * x * (2 * y))) = Qint p x y 0 4 4 := by
  rw [← valuesOf_famExt, ← famExt_GA_one, ← famExt_GB_one, ← famExt_H_two]
  exact closed_form_eq_Qint p x y hp hx hy 0 4 4 (by norm_num) _
    (C12.case_404 p x y hx.ne' hy.ne' _ (famExt_reductions p x y))

theorem case_406_eq_integral (p x y : ℝ) (hp : 0 < p) (hx : 0 < x) (hy : 0 < y) :
    Gen.radialCase_406 p x y (x*x) (y*y) (p*p) (valuesInt p x y) (QintCS p x y 0 / (2 * x)) (QintC p x y 0 0 / (2 * y))
      (QintCC p x y 0 / (2 * x * (2 * y))) = Qint p x y 0 4 6 := by
  rw [← valuesOf_famExt, ← famExt_GA_one, ← famExt_GB_one, ← famExt_H_two]
  exact closed_form_eq_Qint p x y hp hx hy 0 4 6 (by norm_num) _
    (C12.case_406 p x y hx.ne' hy.ne' _ (famExt_reductions p x y))

theorem case_408_eq_integral (p x y : ℝ) (hp : 0 < p) (hx : 0 < x) (hy : 0 < y) :
    Gen.radialCase_408 p x y (x*x) (y*y) (p*p) (valuesInt p x y) (QintCS p x y 0 / (2 * x)) (QintC p x y 0 0 / (2 * y))
      (QintCC p x y 0 / (2 * x * (2 * y))) = Qint p x y 0 4 8 := by
  rw [← valuesOf_famExt, ← famExt_GA_one, ← famExt_GB_one, ← famExt_H_two]
  exact closed_form_eq_Qint p x y hp hx hy 0 4 8 (by norm_num) _
    (C12.case_408 p x y hx.ne' hy.ne' _ (famExt_reductions p x y))

theorem case_10102_eq_integral (p x y : ℝ) (hp : 0 < p) (hx : 0 < x) (hy : 0 < y) :
    Gen.radialCase_10102 p x y (x*x) (y*y) (p*p) (valuesInt p x y) (QintCS p x y 0 / (2 * x)) (QintC p x y 0 0 / (2 * y))
      (QintCC p x y 0 / (2 * x * (2 * y))) = Qint p x y 1 1 2 := by
  rw [← valuesOf_famExt, ← famExt_GA_one, ← famExt_GB_one, ← famExt_H_two]
  exact closed_form_eq_Qint p x y hp hx hy 1 1 2 (by norm_num) _
    (C12.case_10102 p x y hx.ne' hy.ne' _ (famExt_reductions p x y))

theorem case_10104_eq_integral (p x y : ℝ) (hp : 0 < p) (hx : 0 < x) (hy : 0 < y) :
    Gen.radialCase_10104 p x y (x*x) (y*y) (p*p) (valuesInt p x y) (QintCS p x y 0 / (2 * x)) (QintC p x y 0 0 / (2 * y))
      (QintCC p x y 0 / (2 * x * (2 * y))) = Qint p x y 1 1 4 := by
  rw [← valuesOf_famExt, ← famExt_GA_one, ← famExt_GB_one, ← famExt_H_two]
  exact closed_form_eq_Qint p x y hp hx hy 1 1 4 (by norm_num) _
    (C12.case_10104 p x y hx.ne' hy.ne' _ (famExt_reductions p x y))

theorem case_10106_eq_integral (p x y : ℝ) (hp : 0 < p) (hx : 0 < x) (hy : 0 < y) :
    Gen.radialCase_10106 p x y (x*x) (y*y) (p*p) (valuesInt p x y) (QintCS p x y 0 / (2 * x)) (QintC p x y 0 0 / (2 * y))
      (QintCC p x y 0 / (2 * x * (2 * y))) = Qint p x y 1 1 6 := by
  rw [← valuesOf_famExt, ← famExt_GA_one, ← famExt_GB_one, ← famExt_H_two]
  exact closed_form_eq_Qint p x y hp hx hy 1 1 6 (by norm_num) _
    (C12.case_10106 p x y hx.ne' hy.ne' _ (famExt_reductions p x y))

theorem case_10108_eq_integral (p x y : ℝ) (hp : 0 < p) (hx : 0 < x) (hy : 0 < y) :
    Gen.radialCase_10108 p x y (x*x) (y*y) (p*p) (valuesInt p x y) (QintCS p x y 0 / (2 * x)) (QintC p x y 0 0 / (2 * y))
      (QintCC p x y 0 / (2 * x * (2 * y))) = Qint p x y 1 1 8 := by
  rw [← valuesOf_famExt, ← famExt_GA_one, ← famExt_GB_one, ← famExt_H_two]
  exact closed_form_eq_Qint p x y hp hx hy 1 1 8 (by norm_num) _
    (C12.case_10108 p x y hx.ne' hy.ne' _ (famExt_reductions p x y))

theorem case_10110_eq_integral (p x y : ℝ) (hp : 0 < p) (hx : 0 < x) (hy : 0 < y) :
    Gen.radialCase_10110 p x y (x*x) (y*y) (p*p) (valuesInt p x y) (QintCS p x y 0 / (2 * x)) (QintC p x y 0 0 / (2 * y))
      (QintCC p x y 0 / (2 * x * (2 * y))) = Qint p x y 1 1 10 := by
  rw [← valuesOf_famExt, ← famExt_GA_one, ← famExt_GB_one, ← famExt_H_two]
  exact closed_form_eq_Qint p x y hp hx hy 1 1 10 (by norm_num) _
    (C12.case_10110 p x y hx.ne' hy.ne' _ (famExt_reductions p x y))

theorem case_10203_eq_integral (p x y : ℝ) (hp : 0 < p) (hx : 0 < x) (hy : 0 < y) :
    Gen.radialCase_10203 p x y (x*x) (y*y) (p*p) (valuesInt p x y) (QintCS p x y 0 / (2 * x)) (QintC p x y 0 0 / (2 * y))
      (QintCC p x y 0 / (2 * x * (2 * y))) = Qint p x y 1 2 3 := by
  rw [← valuesOf_famExt, ← famExt_GA_one, ← famExt_GB_one, ← famExt_H_two]
  exact closed_form_eq_Qint p x y hp hx hy 1 2 3 (by norm_num) _
    (C12.case_10203 p x y hx.ne' hy.ne' _ (famExt_reductions p x y))

theorem case_10205_eq_integral (p x y : ℝ) (hp : 0 < p) (hx : 0 < x) (hy : 0 < y) :
    Gen.radialCase_10205 p x y (x*x) (y*y) (p*p) (valuesInt p x y) (QintCS p x y 0 / (2 * x)) (QintC p x y 0 0 / (2 * y))
      (QintCC p x y 0 / (2 * x * (2 * y))) = Qint p x y 1 2 5 := by
  rw [← valuesOf_famExt, ← famExt_GA_one, ← famExt_GB_one, ← famExt_H_two]
  exact closed_form_eq_Qint p x y hp hx hy 1 2 5 (by norm_num) _
    (C12.case_10205 p x y hx.ne' hy.ne' _ (famExt_reductions p x y))

theorem case_10207_eq_integral (p x y : ℝ) (hp : 0 < p) (hx : 0 < x) (hy : 0 < y) :
    Gen.radialCase_10207 p x y (x*x) (y*y) (p*p) (valuesInt p x y) (QintCS p x y 0 / (2 * x)) (QintC p x y 0 0 / (2 * y))
      (QintCC p x y 0 / (2 * x * (2 * y))) = Qint p x y 1 2 7 := by
  rw [← valuesOf_famExt, ← famExt_GA_one, ← famExt_GB_one, ← famExt_H_two]
  exact closed_form_eq_Qint p x y hp hx hy 1 2 7 (by norm_num) _
    (C12.case_10207 p x y hx.ne' hy.ne' _ (famExt_reductions p x y))

theorem case_10209_eq_integral (p x y : ℝ) (hp : 0 < p) (hx : 0 < x) (hy : 0 < y) :
    Gen.radialCase_10209 p x y (x*x) (y*y) (p*p) (valuesInt p x y) (QintCS p x y 0 / (2 * x)) (QintC p x y 0 0 / (2 * y))
      (QintCC p x y 0 / (2 * x * (2 * y))) = Qint p x y 1 2 9 := by
  rw [← valuesOf_famExt, ← famExt_GA_one, ← famExt_GB_one, ← famExt_H_two]
  exact closed_form_eq_Qint p x y hp hx hy 1 2 9 (by norm_num) _
    (C12.case_10209 p x y hx.ne' hy.ne' _ (famExt_reductions p x y))

theorem case_10304_eq_integral (p x y : ℝ) (hp : 0 < p) (hx : 0 < x) (hy : 0 < y) :
    Gen.radialCase_10304 p x y (x*x) (y*y) (p*p) (valuesInt p x y) (QintCS p x y 0 / (2 * x)) (QintC p x y 0 0 / (2 * y))
      (QintCC p x y 0 / (2 * x * (2 * y))) = Qint p x y 1 3 4 := by
  rw [← valuesOf_famExt, ← famExt_GA_one, ← famExt_GB_one, ← famExt_H_two]
  exact closed_form_eq_Qint p x y hp hx hy 1 3 4 (by norm_num) _
    (C12.case_10304 p x y hx.ne' hy.ne' _ (famExt_reductions p x y))

theorem case_10306_eq_integral (p x y : ℝ) (hp : 0 < p) (hx : 0 < x) (hy : 0 < y) :
    Gen.radialCase_10306 p x y (x*x) (y*y) (p*p) (valuesInt p x y) (QintCS p x y 0 / (2 * x)) (QintC p x y 0 0 / (2 * y))
      (QintCC p x y 0 / (2 * x * (2 * y))) = Qint p x y 1 3 6 := by
  rw [← valuesOf_famExt, ← famExt_GA_one, ← famExt_GB_one, ← famExt_H_two]
  exact closed_form_eq_Qint p x y hp hx hy 1 3 6 (by norm_num) _
    (C12.case_10306 p x y hx.ne' hy.ne' _ (famExt_reductions p x y))

theorem case_10308_eq_integral (p x y : ℝ) (hp : 0 < p) (hx : 0 < x) (hy : 0 < y) :
    Gen.radialCase_10308 p x y (x*x) (y*y) (p*p) (valuesInt p x y) (QintCS p x y 0 / (2 * x)) (QintC p x y 0 0 / (2 * y))
      (QintCC p x y 0 / (2 * x * (2 * y))) = Qint p x y 1 3 8 := by
  rw [← valuesOf_famExt, ← famExt_GA_one, ← famExt_GB_one, ← famExt_H_two]
  exact closed_form_eq_Qint p x y hp hx hy 1 3 8 (by norm_num) _
    (C12.case_10308 p x y hx.ne' hy.ne' _ (famExt_reductions p x y))

theorem case_10405_eq_integral (p x y : ℝ) (hp : 0 < p) (hx : 0 < x) (hy : 0 < y) :
    Gen.radialCase_10405 p x y (x*x) (y*y) (p*p) (valuesInt p x y) (QintCS p x y 0 / (2 * x)) (QintC p x y 0 0 / (2 * y))
      (QintCC p x y 0 / (2 * x * (2 * y))) = Qint p x y 1 4 5 := by
  rw [← valuesOf_famExt, ← famExt_GA_one, ← famExt_GB_one, ← famExt_H_two]
  exact closed_form_eq_Qint p x y hp hx hy 1 4 5 (by norm_num) _
    (C12.case_10405 p x y hx.ne' hy.ne' _ (famExt_reductions p x y))

theorem case_10407_eq_integral (p x y : ℝ) (hp : 0 < p) (hx : 0 < x) (hy : 0 < y) :
    Gen.radialCase_10407 p x y (x*x) (y*y) (p*p) (valuesInt p x y) (QintCS p x y 0 / (2 * x)) (QintC p x y 0 0 / (2 * y))
      (QintCC p x y 0 / (2 * x * (2 * y))) = Qint p x y 1 4 7 := by
  rw [← valuesOf_famExt, ← famExt_GA_one, ← famExt_GB_one, ← famExt_H_two]
  exact closed_form_eq_Qint p x y hp hx hy 1 4 7 (by norm_num) _
    (C12.case_10407 p x y hx.ne' hy.ne' _ (famExt_reductions p x y))

theorem case_20204_eq_integral (p x y : ℝ) (hp : 0 < p) (hx : 0 < x) (hy : 0 < y) :
    Gen.radialCase_20204 p x y (x*x) (y*y) (p*p) (valuesInt p x y) (QintCS p x y 0 / (2 * x)) (QintC p x y 0 0 / (2 * y))
      (QintCC p x y 0 / (2 * x * (2 * y))) = Qint p x y 2 2 4 := by
  rw [← valuesOf_famExt, ← famExt_GA_one, ← famExt_GB_one, ← famExt_H_two]
  exact closed_form_eq_Qint p x y hp hx hy 2 2 4 (by norm_num) _
    (C12.case_20204 p x y hx.ne' hy.ne' _ (famExt_reductions p x y))

theorem case_20206_eq_integral (p x y : ℝ) (hp : 0 < p) (hx : 0 < x) (hy : 0 < y) :
    Gen.radialCase_20206 p x y (x*x) (y*y) (p*p) (valuesInt p x y) (QintCS p x y 0 / (2 * x)) (QintC p x y 0 0 / (2 * y))
      (QintCC p x y 0 / (2 * x * (2 * y))) = Qint p x y 2 2 6 := by
  rw [← valuesOf_famExt, ← famExt_GA_one, ← famExt_GB_one, ← famExt_H_two]
  exact closed_form_eq_Qint p x y hp hx hy 2 2 6 (by norm_num) _
    (C12.case_20206 p x y hx.ne' hy.ne' _ (famExt_reductions p x y))

theorem case_20208_eq_integral (p x y : ℝ) (hp : 0 < p) (hx : 0 < x) (hy : 0 < y) :
    Gen.radialCase_20208 p x y (x*x) (y*y) (p*p) (valuesInt p x y) (QintCS p x y 0 / (2 * x)) (QintC p x y 0 0 / (2 * y))
      (QintCC p x y 0 / (2 * x * (2 * y))) = Qint p x y 2 2 8 := by
  rw [← valuesOf_famExt, ← famExt_GA_one, ← famExt_GB_one, ← famExt_H_two]
  exact closed_form_eq_Qint p x y hp hx hy 2 2 8 (by norm_num) _
    (C12.case_20208 p x y hx.ne' hy.ne' _ (famExt_reductions p x y))

theorem case_20305_eq_integral (p x y : ℝ) (hp : 0 < p) (hx : 0 < x) (hy : 0 < y) :
    Gen.radialCase_20305 p x y (x*x) (y*y) (p*p) (valuesInt p x y) (QintCS p x y 0 / (2 * x)) (QintC p x y 0 0 / (2 * y))
      (QintCC p x y 0 / (2 * x * (2 * y))) = Qint p x y 2 3 5 := by
  rw [← valuesOf_famExt, ← famExt_GA_one, ← famExt_GB_one, ← famExt_H_two]
  exact closed_form_eq_Qint p x y hp hx hy 2 3 5 (by norm_num) _
    (C12.case_20305 p x y hx.ne' hy.ne' _ (famExt_reductions p x y))

theorem case_20307_eq_integral (p x y : ℝ) (hp : 0 < p) (hx : 0 < x) (hy : 0 < y) :
    Gen.radialCase_20307 p x y (x*x) (y*y) (p*p) (valuesInt p x y) (QintCS p x y 0 / (2 * x)) (QintC p x y 0 0 / (2 * y))
      (QintCC p x y 0 / (2 * x * (2 * y))) = Qint p x y 2 3 7 := by
  rw [← valuesOf_famExt, ← famExt_GA_one, ← famExt_GB_one, ← famExt_H_two]
  exact closed_form_eq_Qint p x y hp hx hy 2 3 7 (by norm_num) _
    (C12.case_20307 p x y hx.ne' hy.ne' _ (famExt_reductions p x y))

theorem case_20406_eq_integral (p x y : ℝ) (hp : 0 < p) (hx : 0 < x) (hy : 0 < y) :
    Gen.radialCase_20406 p x y (x*x) (y*y) (p*p) (valuesInt p x y) (QintCS p x y 0 / (2 * x)) (QintC p x y 0 0 / (2 * y))
      (QintCC p x y 0 / (2 * x * (2 * y))) = Qint p x y 2 4 6 := by
  rw [← valuesOf_famExt, ← famExt_GA_one, ← famExt_GB_one, ← famExt_H_two]
  exact closed_form_eq_Qint p x y hp hx hy 2 4 6 (by norm_num) _
    (C12.case_20406 p x y hx.ne' hy.ne' _ (famExt_reductions p x y))

theorem case_30306_eq_integral (p x y : ℝ) (hp : 0 < p) (hx : 0 < x) (hy : 0 < y) :
    Gen.radialCase_30306 p x y (x*x) (y*y) (p*p) (valuesInt p x y) (QintCS p x y 0 / (2 * x)) (QintC p x y 0 0 / (2 * y))
      (QintCC p x y 0 / (2 * x * (2 * y))) = Qint p x y 3 3 6 := by
  rw [← valuesOf_famExt, ← famExt_GA_one, ← famExt_GB_one, ← famExt_H_two]
  exact closed_form_eq_Qint p x y hp hx hy 3 3 6 (by norm_num) _
    (C12.case_30306 p x y hx.ne' hy.ne' _ (famExt_reductions p x y))

end Ecpint.C12b
