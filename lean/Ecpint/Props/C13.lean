/- C13 — angular tables.  Root of the property's theorems:
   C13a  structural facts of the table construction (core Lean only)
   C13b  the monomial sphere integrals behind the tables: closed form 4π(2i−1)!!(2j−1)!!(2k−1)!!/(2(i+j+k)+1)!! of the
         recursion `Pijk` runs over any field of characteristic 0, its permutation symmetry (sorting the exponents is
         harmless), `sort3` sorts and permutes for all naturals, and exactly which entries `makeW` writes (Mathlib) -/
import Ecpint.Props.C13a
import Ecpint.Props.C13b
