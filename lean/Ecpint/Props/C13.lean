/- C13 — angular tables.  Root of the property's theorems:
   C13a  structural facts of the table construction (core Lean only)
   C13b  the monomial sphere integrals behind the tables: closed form 4π(2i−1)!!(2j−1)!!(2k−1)!!/(2(i+j+k)+1)!! of the
         recursion `Pijk` runs over any field of characteristic 0, its permutation symmetry (sorting the exponents is
         harmless), `sort3` sorts and permutes for all naturals, and exactly which entries `makeW` writes (Mathlib)
   C13c  the closed form IS the surface integral over the unit sphere of ℝ³ (Mathlib measure theory: polar decomposition of the
         Gaussian-weighted monomial): ∫_{S²} x^{2i}y^{2j}z^{2k} dσ = 4π(2i−1)!!(2j−1)!!(2k−1)!!/(2(i+j+k)+1)!!, odd exponents give 0,
         total mass 4π; hence the model's `Pijk` equals the sphere integral
   C13d  EVERY stored entry of the type-1 table W and of the type-2 table Ω of the model is the sphere integral of monomial × S (× S) for
         the model's own harmonic polynomials S = Σ uklm·x^i y^j z^(λ−i−j) (selection rules of uklm, unwritten entries vanish);
         the polynomials for λ ≤ 2 are the classical real harmonics and orthonormal
   C13e  the model's harmonics are homogeneous HARMONIC polynomials of degree λ (zero Laplacian), hence orthogonal to lower-degree
         monomials - which removes the degree conditions of C13d: the statements hold for every entry within the table limits -/
import Ecpint.Props.C13a
import Ecpint.Props.C13b
import Ecpint.Props.C13c
import Ecpint.Props.C13d
import Ecpint.Props.C13e
