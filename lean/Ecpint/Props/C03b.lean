/-
C03b — the analysis behind the derivative assembly (C02 / C03 / C04 prove the algebra of the assembly).

Stage 1  `hasDerivAt_dprim`, `second_deriv_gaussian_monomial`, `deriv_deriv_prim`: the second A-derivative of the
         1-D primitive (x−A)^k e^{−α(x−A)²}, as the derivative of C02's first-derivative formula;
         `ddprim_code_form`, `ddprim_coefficients`: its l−2 / l / l+2 form with the coefficients a(a−1), −2α(2a+1), 4α².
Stage 1b the 3-D primitive and its partial derivatives (`hasDerivAt_prim3`, `hasDerivAt_pair`) and the match with the
         MODEL routines: `leftFirst_is_first_derivative`, `leftSecond_is_second_derivative`,
         `mixedSecond_is_mixed_derivative` — the routines of Model/Deriv.lean, fed blocks of primitives of the shifted
         shells (raised shells scaled by the exponent), return exactly the partial derivatives.
Stage 2  `fderiv_diag_eq_zero`, `translation_sum_rule`, `translation_dC`, `translation_sum_rule_scalar`,
         `hasFDerivAt_partial`: translational invariance ⇒ ∂_A + ∂_B + ∂_C = 0, over any real normed space.
Stage 3  `hessian_sum_rules` (needs only: DF differentiable at p), `hessBlock_symm` (C²),
         `hessian_assembly_relations` (the relations of C03 `pairSecond_sum_rules` / C04);
         `integral_translation_invariant`: integrals of kernels of x−A, x−B, x−C are translation invariant.
Stage 4  `hasDerivAt_integral_prim`, `hasDerivAt_integral_dprim`: first and second derivative under the integral sign
         for G(A) = ∫ (x−A)^k e^{−α(x−A)²} u(x) dx, u bounded measurable, α > 0.
-/
import Ecpint.Props.C02
import Ecpint.Props.C03
import Mathlib.Tactic.Ring
import Mathlib.Tactic.Linarith
import Mathlib.Analysis.SpecialFunctions.ExpDeriv
import Mathlib.Analysis.Calculus.Deriv.Pow
import Mathlib.Analysis.Calculus.FDeriv.Symmetric
import Mathlib.Analysis.Calculus.FDeriv.Add
import Mathlib.Analysis.Calculus.FDeriv.Prod
import Mathlib.Analysis.Calculus.ParametricIntegral
import Mathlib.Analysis.SpecialFunctions.Gaussian.GaussianIntegral
import Mathlib.MeasureTheory.Group.Integral

namespace Ecpint.C03b
open Ecpint.Deriv Ecpint.C02 Ecpint.C03

/-! ## Stage 1: second derivative of a 1-D primitive -/

/-- the 1-D Cartesian Gaussian primitive (x−A)^k e^{−α(x−A)²} -/
noncomputable def prim (k : ℕ) (α x A : ℝ) : ℝ := (x - A) ^ k * Real.exp (-α * (x - A) ^ 2)

/-- its first derivative in A, in the form of `C02.deriv_gaussian_monomial` -/
noncomputable def dprim (k : ℕ) (α x A : ℝ) : ℝ :=
  -(k : ℝ) * (x - A) ^ (k - 1) * Real.exp (-α * (x - A) ^ 2)
    + 2 * α * (x - A) ^ (k + 1) * Real.exp (-α * (x - A) ^ 2)

/-- its second derivative in A -/
noncomputable def ddprim (k : ℕ) (α x A : ℝ) : ℝ :=
  (k : ℝ) * ((k : ℝ) - 1) * (x - A) ^ (k - 2) * Real.exp (-α * (x - A) ^ 2)
    - 2 * α * (2 * (k : ℝ) + 1) * (x - A) ^ k * Real.exp (-α * (x - A) ^ 2)
    + 4 * α ^ 2 * (x - A) ^ (k + 2) * Real.exp (-α * (x - A) ^ 2)

theorem hasDerivAt_prim (k : ℕ) (α x A : ℝ) :
    HasDerivAt (fun A : ℝ => prim k α x A) (dprim k α x A) A :=
  deriv_gaussian_monomial k α x A

/-- the first derivative as the code forms it: −k·(shell k−1) + 2·(α-scaled shell k+1) -/
theorem dprim_code_form (k : ℕ) (α x A : ℝ) :
    dprim k α x A = -((k : ℕ) : ℝ) * prim (k - 1) α x A + 2 * (α * prim (k + 1) α x A) := by
  unfold dprim prim; ring

/-- **second derivative of the primitive**, as the derivative of the first-derivative formula -/
theorem hasDerivAt_dprim (k : ℕ) (α x A : ℝ) :
    HasDerivAt (fun A : ℝ => dprim k α x A) (ddprim k α x A) A := by
  have hm := (deriv_gaussian_monomial (k - 1) α x A).const_mul (-(k : ℝ))
  have hp := (deriv_gaussian_monomial (k + 1) α x A).const_mul (2 * α)
  have h := hm.add hp
  have hfun : (fun A : ℝ => dprim k α x A) = fun A : ℝ =>
      -(k : ℝ) * ((x - A) ^ (k - 1) * Real.exp (-α * (x - A) ^ 2))
        + 2 * α * ((x - A) ^ (k + 1) * Real.exp (-α * (x - A) ^ 2)) := by
    funext A; unfold dprim; ring
  rw [hfun]
  refine h.congr_deriv ?_
  unfold ddprim
  rcases k with _ | _ | k
  · simp; ring
  · simp; ring
  · have e1 : k + 1 + 1 - 2 = k := rfl
    simp only [Nat.add_one_sub_one, Nat.cast_add, Nat.cast_one, e1]
    generalize Real.exp (-α * (x - A) ^ 2) = E
    ring

/-- the second derivative in the brief's form; for k < 2 the first term vanishes (natural subtraction in
the exponent is harmless because the coefficient k(k−1) is then 0) -/
theorem second_deriv_gaussian_monomial (k : ℕ) (α x A : ℝ) :
    HasDerivAt
      (fun A : ℝ => -(k : ℝ) * (x - A) ^ (k - 1) * Real.exp (-α * (x - A) ^ 2)
        + 2 * α * (x - A) ^ (k + 1) * Real.exp (-α * (x - A) ^ 2))
      ((k : ℝ) * ((k : ℝ) - 1) * (x - A) ^ (k - 2) * Real.exp (-α * (x - A) ^ 2)
        - 2 * α * (2 * (k : ℝ) + 1) * (x - A) ^ k * Real.exp (-α * (x - A) ^ 2)
        + 4 * α ^ 2 * (x - A) ^ (k + 2) * Real.exp (-α * (x - A) ^ 2)) A :=
  hasDerivAt_dprim k α x A

theorem ddprim_of_lt_two (k : ℕ) (hk : k < 2) (α x A : ℝ) :
    ddprim k α x A = - 2 * α * (2 * (k : ℝ) + 1) * (x - A) ^ k * Real.exp (-α * (x - A) ^ 2)
        + 4 * α ^ 2 * (x - A) ^ (k + 2) * Real.exp (-α * (x - A) ^ 2) := by
  unfold ddprim
  interval_cases k <;> simp

/-- `deriv` form: the second derivative of the primitive -/
theorem deriv_deriv_prim (k : ℕ) (α x A : ℝ) :
    deriv (deriv (fun A : ℝ => prim k α x A)) A = ddprim k α x A := by
  have h : deriv (fun A : ℝ => prim k α x A) = fun A => dprim k α x A :=
    funext fun A => (hasDerivAt_prim k α x A).deriv
  rw [h]
  exact (hasDerivAt_dprim k α x A).deriv

/-- **match with the code** (`left_shell_second_derivative`, diagonal components): the second derivative is
the combination of the l−2 / l / l+2 primitives with the integer coefficients a(a−1), −2(2a+1), 4 of the
routine, the powers α, α² being carried by the blocks (the shifted shells are built with
exponent-scaled contraction coefficients): with `Qm = prim (k−2)`, `Q0 = α·prim k`, `Qp = α²·prim (k+2)`
this is literally the expression in `Ecpint.Deriv.leftSecond` / `C03.leftSecond_spec`. -/
theorem ddprim_code_form (k : ℕ) (α x A : ℝ) :
    ddprim k α x A
      = ((k * (k - 1) : ℕ) : ℝ) * prim (k - 2) α x A
        - 2 * ((2 * k + 1 : ℕ) : ℝ) * (α * prim k α x A)
        + 4 * (α ^ 2 * prim (k + 2) α x A) := by
  unfold ddprim prim
  rcases k with _ | k
  · simp; ring
  · simp only [Nat.add_one_sub_one, Nat.cast_mul, Nat.cast_add, Nat.cast_one, Nat.cast_ofNat]
    ring

/-- the same with the coefficients the brief quotes: a(a−1), −2α(2a+1), 4α² -/
theorem ddprim_coefficients (k : ℕ) (α x A : ℝ) :
    ddprim k α x A
      = ((k : ℝ) * ((k : ℝ) - 1)) * prim (k - 2) α x A
        + (-2 * α * (2 * (k : ℝ) + 1)) * prim k α x A
        + (4 * α ^ 2) * prim (k + 2) α x A := by
  unfold ddprim prim; ring

/-! ## Stage 1b: the 3-D primitive and the match with the model routines -/

/-- 0th / 1st / 2nd A-derivative of the 1-D primitive -/
noncomputable def dfac (d k : ℕ) (α x A : ℝ) : ℝ :=
  match d with
  | 0 => prim k α x A
  | 1 => dprim k α x A
  | _ => ddprim k α x A

theorem hasDerivAt_dfac (d : ℕ) (hd : d ≤ 1) (k : ℕ) (α x A : ℝ) :
    HasDerivAt (fun A : ℝ => dfac d k α x A) (dfac (d + 1) k α x A) A := by
  interval_cases d
  · exact hasDerivAt_prim k α x A
  · exact hasDerivAt_dprim k α x A

/-- the 3-D Cartesian Gaussian primitive x^k y^l z^m e^{−α r²} about the centre A, differentiated
`d i` times with respect to the i-th coordinate of A (`d = 0`: the primitive itself) -/
noncomputable def dprim3 (d : Fin 3 → ℕ) (a : ℕ × ℕ × ℕ) (α : ℝ) (r A : Fin 3 → ℝ) : ℝ :=
  dfac (d 0) a.1 α (r 0) (A 0) * dfac (d 1) a.2.1 α (r 1) (A 1) * dfac (d 2) a.2.2 α (r 2) (A 2)

/-- the 3-D Cartesian Gaussian primitive -/
noncomputable def prim3 (a : ℕ × ℕ × ℕ) (α : ℝ) (r A : Fin 3 → ℝ) : ℝ := dprim3 0 a α r A

theorem prim3_eq (a : ℕ × ℕ × ℕ) (α : ℝ) (r A : Fin 3 → ℝ) :
    prim3 a α r A = ((r 0 - A 0) ^ a.1 * (r 1 - A 1) ^ a.2.1 * (r 2 - A 2) ^ a.2.2)
      * Real.exp (-α * ((r 0 - A 0) ^ 2 + (r 1 - A 1) ^ 2 + (r 2 - A 2) ^ 2)) := by
  simp only [prim3, dprim3, dfac, prim, Pi.zero_apply]
  rw [mul_add, mul_add, Real.exp_add, Real.exp_add]
  ring

/-- partial derivative with respect to the coordinate A_q raises the q-th derivative order -/
theorem hasDerivAt_dprim3 (d : Fin 3 → ℕ) (q : Fin 3) (hd : d q ≤ 1) (a : ℕ × ℕ × ℕ) (α : ℝ)
    (r A : Fin 3 → ℝ) :
    HasDerivAt (fun t : ℝ => dprim3 d a α r (Function.update A q t))
      (dprim3 (d + Pi.single q 1) a α r A) (A q) := by
  fin_cases q
  · have h := ((hasDerivAt_dfac (d 0) hd a.1 α (r 0) (A 0)).mul_const
      (dfac (d 1) a.2.1 α (r 1) (A 1))).mul_const (dfac (d 2) a.2.2 α (r 2) (A 2))
    simpa [dprim3] using h
  · have h := ((hasDerivAt_dfac (d 1) hd a.2.1 α (r 1) (A 1)).const_mul
      (dfac (d 0) a.1 α (r 0) (A 0))).mul_const (dfac (d 2) a.2.2 α (r 2) (A 2))
    simpa [dprim3] using h
  · have h := (hasDerivAt_dfac (d 2) hd a.2.2 α (r 2) (A 2)).const_mul
      (dfac (d 0) a.1 α (r 0) (A 0) * dfac (d 1) a.2.1 α (r 1) (A 1))
    simpa [dprim3] using h

/-- ∂/∂A_q of the 3-D primitive, and ∂²/∂A_p∂A_q as the derivative of that -/
theorem hasDerivAt_prim3 (p q : Fin 3) (a : ℕ × ℕ × ℕ) (α : ℝ) (r A : Fin 3 → ℝ) :
    HasDerivAt (fun t : ℝ => prim3 a α r (Function.update A q t))
      (dprim3 (Pi.single q 1) a α r A) (A q) ∧
    HasDerivAt (fun t : ℝ => dprim3 (Pi.single q 1) a α r (Function.update A p t))
      (dprim3 (Pi.single q 1 + Pi.single p 1) a α r A) (A p) := by
  refine ⟨?_, ?_⟩
  · have h := hasDerivAt_dprim3 0 q (by simp) a α r A
    simpa [prim3] using h
  · refine hasDerivAt_dprim3 (Pi.single q 1) p ?_ a α r A
    by_cases h : p = q
    · subst h; simp
    · simp [Pi.single_eq_of_ne h]

/-- a block holding `f b` in row `rowOf b` for the components b of the shell of degree L (every column) -/
noncomputable def shellBlk (L : ℕ) (f : ℕ × ℕ × ℕ → ℝ) : Blk ℝ := fun i _ =>
  match (cartList L)[i]? with
  | some b => f b
  | none => 0

theorem shellBlk_rowOf (L : ℕ) (f : ℕ × ℕ × ℕ → ℝ) (b : ℕ × ℕ × ℕ) (hb : deg b = L) (nB : ℕ) :
    shellBlk L f (rowOf b) nB = f b := by
  subst hb
  simp [shellBlk, cartList_rowOf]

/-- closes the per-component goals of the two "model = derivative" theorems below: discard the terms with
a zero integer multiplier, read the blocks at the rows of the shifted components, expand the 1-D
derivative formulas, compare polynomially -/
local macro "shell_finish" : tactic => `(tactic| (
  all_goals simp [comp, inc, dec]
  all_goals repeat rw [shellBlk_rowOf]
  any_goals (first | rfl | (simp only [deg]; omega))
  all_goals simp [prim3, dprim3, dfac, ddprim_code_form, dprim_code_form]
  all_goals ring))

/-- **the model routine `left_shell_second_derivative` computes the second derivatives of the primitive**:
feed `leftSecond` the blocks of the (L−2)-shell, the α-scaled L-shell and the α²-scaled (L+2)-shell of
primitives; its (p,q) component at the row of `a` is ∂²/∂A_p∂A_q of the primitive `a`. -/
theorem leftSecond_is_second_derivative (a : ℕ × ℕ × ℕ) (p q : Fin 3) (hpq : p ≤ q) (α : ℝ)
    (r A : Fin 3 → ℝ) (nB : ℕ) :
    leftSecond (deg a) (qmRows2 (deg a))
        (shellBlk (deg a - 2) fun b => prim3 b α r A)
        (shellBlk (deg a) fun b => α * prim3 b α r A)
        (shellBlk (deg a + 2) fun b => α ^ 2 * prim3 b α r A)
        (symIdx p q) (rowOf a) nB
      = dprim3 (Pi.single q 1 + Pi.single p 1) a α r A := by
  obtain ⟨k, l, m⟩ := a
  rw [leftSecond_spec _ p q hpq q.isLt]
  fin_cases p <;> fin_cases q <;> first | (exact absurd hpq (by decide)) | skip
  all_goals clear hpq
  all_goals simp only [Fin.reduceFinMk, Fin.isValue, dprim3, Pi.add_apply, Pi.single_apply]
  all_goals simp only [Fin.reduceEq, if_true, if_false, Nat.reduceAdd, dfac]
  · rcases k with _ | _ | k
    shell_finish
  · rcases k with _ | k <;> rcases l with _ | l
    shell_finish
  · rcases k with _ | k <;> rcases m with _ | m
    shell_finish
  · rcases l with _ | _ | l
    shell_finish
  · rcases l with _ | l <;> rcases m with _ | m
    shell_finish
  · rcases m with _ | _ | m
    shell_finish

/-- **and `left_shell_derivative` computes the first derivatives** (C02 `leftFirst_spec`) -/
theorem leftFirst_is_first_derivative (a : ℕ × ℕ × ℕ) (q : Fin 3) (α : ℝ) (r A : Fin 3 → ℝ) (nB : ℕ) :
    leftFirst (deg a) (qmRows (deg a))
        (shellBlk (deg a - 1) fun b => prim3 b α r A)
        (shellBlk (deg a + 1) fun b => α * prim3 b α r A)
        q (rowOf a) nB
      = dprim3 (Pi.single q 1) a α r A := by
  obtain ⟨k, l, m⟩ := a
  rw [leftFirst_spec _ _ q.isLt]
  rw [shellBlk_rowOf _ _ (inc (k, l, m) q) (by fin_cases q <;> simp [deg, inc] <;> omega)]
  fin_cases q
  · rcases k with _ | k
    · simp [comp, inc, prim3, dprim3, dfac, dprim_code_form]; ring
    · simp [comp, dec]
      rw [shellBlk_rowOf _ _ (k, l, m) (by simp only [deg]; omega)]
      simp [inc, prim3, dprim3, dfac, dprim_code_form]; ring
  · rcases l with _ | l
    · simp [comp, inc, prim3, dprim3, dfac, dprim_code_form]; ring
    · simp [comp, dec]
      rw [shellBlk_rowOf _ _ (k, l, m) (by simp only [deg]; omega)]
      simp [inc, prim3, dprim3, dfac, dprim_code_form]; ring
  · rcases m with _ | m
    · simp [comp, inc, prim3, dprim3, dfac, dprim_code_form]; ring
    · simp [comp, dec]
      rw [shellBlk_rowOf _ _ (k, l, m) (by simp only [deg]; omega)]
      simp [inc, prim3, dprim3, dfac, dprim_code_form]; ring

/-- a two-index block holding `f a b` at (row of a, row of b) for the components of the shells LA, LB -/
noncomputable def pairBlk (LA LB : ℕ) (f : ℕ × ℕ × ℕ → ℕ × ℕ × ℕ → ℝ) : Blk ℝ := fun i j =>
  match (cartList LA)[i]?, (cartList LB)[j]? with
  | some a, some b => f a b
  | _, _ => 0

theorem pairBlk_rowOf (LA LB : ℕ) (f : ℕ × ℕ × ℕ → ℕ × ℕ × ℕ → ℝ) (a b : ℕ × ℕ × ℕ)
    (ha : deg a = LA) (hb : deg b = LB) : pairBlk LA LB f (rowOf a) (rowOf b) = f a b := by
  subst ha; subst hb
  simp [pairBlk, cartList_rowOf]

/-- ∂/∂A_p then ∂/∂B_q of a product of a primitive on A (exponent α) and one on B (exponent β) -/
theorem hasDerivAt_pair (a b : ℕ × ℕ × ℕ) (p q : Fin 3) (α β : ℝ) (r A B : Fin 3 → ℝ) :
    HasDerivAt (fun t : ℝ => prim3 a α r (Function.update A p t) * prim3 b β r B)
      (dprim3 (Pi.single p 1) a α r A * prim3 b β r B) (A p) ∧
    HasDerivAt (fun t : ℝ => dprim3 (Pi.single p 1) a α r A * prim3 b β r (Function.update B q t))
      (dprim3 (Pi.single p 1) a α r A * dprim3 (Pi.single q 1) b β r B) (B q) :=
  ⟨(hasDerivAt_prim3 p p a α r A).1.mul_const _, (hasDerivAt_prim3 q q b β r B).1.const_mul _⟩

local macro "pair_finish" : tactic => `(tactic| (
  all_goals simp [comp, inc, dec]
  all_goals repeat rw [pairBlk_rowOf]
  any_goals (first | rfl | (simp only [deg]; omega))
  all_goals simp [prim3, dprim3, dfac, dprim_code_form]
  all_goals ring))

/-- **`mixed_second_derivative` computes ∂²/∂A_p∂B_q of the pair of primitives**: feed `mixedSecond` the
four blocks (l_A ∓ 1, l_B ∓ 1) of products of primitives, a raised shell carrying its exponent
(α for A, β for B); its component 3p+q at (row of a, row of b) is the mixed derivative. -/
theorem mixedSecond_is_mixed_derivative (a b : ℕ × ℕ × ℕ) (p q : Fin 3) (α β : ℝ)
    (r A B : Fin 3 → ℝ) :
    mixedSecond (deg a) (deg b) (mmDim (deg a)) (mmDim (deg b))
        (pairBlk (deg a - 1) (deg b - 1) fun a' b' => prim3 a' α r A * prim3 b' β r B)
        (pairBlk (deg a - 1) (deg b + 1) fun a' b' => β * (prim3 a' α r A * prim3 b' β r B))
        (pairBlk (deg a + 1) (deg b - 1) fun a' b' => α * (prim3 a' α r A * prim3 b' β r B))
        (pairBlk (deg a + 1) (deg b + 1) fun a' b' => α * β * (prim3 a' α r A * prim3 b' β r B))
        (3 * p + q) (rowOf a) (rowOf b)
      = dprim3 (Pi.single p 1) a α r A * dprim3 (Pi.single q 1) b β r B := by
  obtain ⟨k, l, m⟩ := a
  obtain ⟨k', l', m'⟩ := b
  rw [mixedSecond_spec _ _ p q p.isLt q.isLt]
  fin_cases p <;> fin_cases q
  all_goals simp only [Fin.reduceFinMk, Fin.isValue, dprim3, Pi.single_apply]
  all_goals simp only [Fin.reduceEq, if_true, if_false, dfac]
  · rcases k with _ | k <;> rcases k' with _ | k'
    pair_finish
  · rcases k with _ | k <;> rcases l' with _ | l'
    pair_finish
  · rcases k with _ | k <;> rcases m' with _ | m'
    pair_finish
  · rcases l with _ | l <;> rcases k' with _ | k'
    pair_finish
  · rcases l with _ | l <;> rcases l' with _ | l'
    pair_finish
  · rcases l with _ | l <;> rcases m' with _ | m'
    pair_finish
  · rcases m with _ | m <;> rcases k' with _ | k'
    pair_finish
  · rcases m with _ | m <;> rcases l' with _ | l'
    pair_finish
  · rcases m with _ | m <;> rcases m' with _ | m'
    pair_finish

/-! ## Stage 2: translational invariance ⇒ first-order sum rule -/

section Translation
open Filter Topology
variable {E G : Type*} [NormedAddCommGroup E] [NormedSpace ℝ E]
  [NormedAddCommGroup G] [NormedSpace ℝ G]

/-- embedding of a displacement of centre A into the configuration space (A, B, C) ∈ E × E × E -/
def iA : E →L[ℝ] E × E × E := ContinuousLinearMap.inl ℝ E (E × E)
/-- embedding of a displacement of centre B -/
def iB : E →L[ℝ] E × E × E :=
  (ContinuousLinearMap.inr ℝ E (E × E)).comp (ContinuousLinearMap.inl ℝ E E)
/-- embedding of a displacement of centre C (the ECP centre) -/
def iC : E →L[ℝ] E × E × E :=
  (ContinuousLinearMap.inr ℝ E (E × E)).comp (ContinuousLinearMap.inr ℝ E E)
/-- rigid translation of all three centres by the same vector -/
def diag : E →L[ℝ] E × E × E :=
  (ContinuousLinearMap.id ℝ E).prod ((ContinuousLinearMap.id ℝ E).prod (ContinuousLinearMap.id ℝ E))

@[simp] theorem iA_apply (v : E) : (iA v : E × E × E) = (v, 0, 0) := rfl
@[simp] theorem iB_apply (v : E) : (iB v : E × E × E) = (0, v, 0) := rfl
@[simp] theorem iC_apply (v : E) : (iC v : E × E × E) = (0, 0, v) := rfl
@[simp] theorem diag_apply (v : E) : (diag v : E × E × E) = (v, v, v) := rfl

theorem diag_eq (v : E) : (diag v : E × E × E) = iA v + iB v + iC v := by simp

/-- the three partial derivatives ARE the restrictions of the Fréchet derivative to the three summands -/
theorem hasFDerivAt_partial {F : E × E × E → G} {F' : E × E × E →L[ℝ] G} {a b c : E}
    (hF : HasFDerivAt F F' (a, b, c)) :
    HasFDerivAt (fun x => F (x, b, c)) (F'.comp iA) a ∧
    HasFDerivAt (fun y => F (a, y, c)) (F'.comp iB) b ∧
    HasFDerivAt (fun z => F (a, b, z)) (F'.comp iC) c := by
  refine ⟨?_, ?_, ?_⟩
  · exact hF.comp a (hasFDerivAt_prodMk_left a (b, c))
  · have h1 : HasFDerivAt (fun y : E => (a, y, c)) (iB : E →L[ℝ] E × E × E) b :=
      (hasFDerivAt_prodMk_right a (b, c)).comp b (hasFDerivAt_prodMk_left b c)
    exact hF.comp b h1
  · have h1 : HasFDerivAt (fun z : E => (a, b, z)) (iC : E →L[ℝ] E × E × E) c :=
      (hasFDerivAt_prodMk_right a (b, c)).comp c (hasFDerivAt_prodMk_right b c)
    exact hF.comp c h1

/-- **first-order sum rule**: if F is differentiable at p and invariant under small rigid translations of
the three centres, then the derivative in the direction of a rigid translation vanishes. -/
theorem fderiv_diag_eq_zero {F : E × E × E → G} {F' : E × E × E →L[ℝ] G} {p : E × E × E}
    (hF : HasFDerivAt F F' p) (hinv : ∀ᶠ t in 𝓝 (0 : E), F (p + diag t) = F p) (v : E) :
    F' (diag v) = 0 := by
  have hg : HasFDerivAt (fun t : E => p + diag t) (diag : E →L[ℝ] E × E × E) 0 :=
    (diag : E →L[ℝ] E × E × E).hasFDerivAt.const_add p
  have hp : p + (diag (0 : E) : E × E × E) = p := by simp
  have hF' : HasFDerivAt F F' (p + (diag (0 : E) : E × E × E)) := by rw [hp]; exact hF
  have hcomp : HasFDerivAt (fun t : E => F (p + diag t)) (F'.comp diag) 0 :=
    HasFDerivAt.comp (g := F) (0 : E) hF' hg
  have hconst : HasFDerivAt (fun _ : E => F p) (F'.comp diag) 0 :=
    hcomp.congr_of_eventuallyEq (hinv.mono fun t ht => ht.symm)
  have h0 := hconst.unique (hasFDerivAt_const (F p) (0 : E))
  have := congrArg (fun L : E →L[ℝ] G => L v) h0
  simpa using this

/-- **∂_A F + ∂_B F + ∂_C F = 0** (all components at once: `v` is any direction in E, the value space `G`
is arbitrary) -/
theorem translation_sum_rule {F : E × E × E → G} {F' : E × E × E →L[ℝ] G} {a b c : E}
    (hF : HasFDerivAt F F' (a, b, c)) (hinv : ∀ t : E, F (a + t, b + t, c + t) = F (a, b, c)) :
    F'.comp iA + F'.comp iB + F'.comp iC = 0 := by
  ext v
  have h := fderiv_diag_eq_zero hF (Eventually.of_forall fun t => by simpa using hinv t) v
  rw [diag_eq, map_add, map_add] at h
  simpa using h

/-- `∂_C = −(∂_A + ∂_B)` — how the code obtains the ECP-centre gradient -/
theorem translation_dC {F : E × E × E → G} {F' : E × E × E →L[ℝ] G} {a b c : E}
    (hF : HasFDerivAt F F' (a, b, c)) (hinv : ∀ t : E, F (a + t, b + t, c + t) = F (a, b, c)) :
    F'.comp iC = -(F'.comp iA + F'.comp iB) :=
  eq_neg_of_add_eq_zero_right (translation_sum_rule hF hinv)

/-- one Cartesian direction at a time: F : ℝ × ℝ × ℝ → ℝ, ordinary partial derivatives -/
theorem translation_sum_rule_scalar {F : ℝ × ℝ × ℝ → ℝ} {a b c : ℝ}
    (hF : DifferentiableAt ℝ F (a, b, c)) (hinv : ∀ t : ℝ, F (a + t, b + t, c + t) = F (a, b, c)) :
    deriv (fun x => F (x, b, c)) a + deriv (fun y => F (a, y, c)) b + deriv (fun z => F (a, b, z)) c = 0 := by
  obtain ⟨hA, hB, hC⟩ := hasFDerivAt_partial hF.hasFDerivAt
  have h := congrArg (fun L : ℝ →L[ℝ] ℝ => L 1) (translation_sum_rule hF.hasFDerivAt hinv)
  rw [hA.hasDerivAt.deriv, hB.hasDerivAt.deriv, hC.hasDerivAt.deriv]
  simpa using h

/-! ## Stage 3: second-order sum rules -/

/-- the Hessian (second Fréchet derivative) of F at p -/
noncomputable def hess (F : E × E × E → G) (p : E × E × E) : (E × E × E) →L[ℝ] (E × E × E) →L[ℝ] G :=
  fderiv ℝ (fderiv ℝ F) p

/-- the derivative of a translation-invariant function is translation invariant -/
theorem fderiv_translation_invariant {F : E × E × E → G}
    (hinv : ∀ (q : E × E × E) (t : E), F (q + diag t) = F q) (q : E × E × E) (t : E) :
    fderiv ℝ F (q + diag t) = fderiv ℝ F q := by
  have h : (fun x : E × E × E => F (x + diag t)) = F := funext fun x => hinv x t
  have := fderiv_comp_add_right (𝕜 := ℝ) (f := F) (x := q) (diag t : E × E × E)
  rw [h] at this
  exact this.symm

/-- first-order sum rule at every point, in `fderiv` form (no differentiability hypothesis needed:
`fderiv` is 0 where F is not differentiable) -/
theorem fderiv_apply_diag {F : E × E × E → G}
    (hinv : ∀ (q : E × E × E) (t : E), F (q + diag t) = F q) (q : E × E × E) (v : E) :
    fderiv ℝ F q (diag v) = 0 := by
  by_cases hd : DifferentiableAt ℝ F q
  · exact fderiv_diag_eq_zero hd.hasFDerivAt (Eventually.of_forall fun t => hinv q t) v
  · rw [fderiv_zero_of_not_differentiableAt hd]; rfl

/-- the Hessian annihilates rigid translations in its first slot … -/
theorem hess_diag_left {F : E × E × E → G}
    (hinv : ∀ (q : E × E × E) (t : E), F (q + diag t) = F q) {p : E × E × E}
    (h2 : DifferentiableAt ℝ (fderiv ℝ F) p) (v : E) (w : E × E × E) :
    hess F p (diag v) w = 0 := by
  have h := fderiv_diag_eq_zero (F := fderiv ℝ F) h2.hasFDerivAt
    (Eventually.of_forall fun t => fderiv_translation_invariant hinv p t) v
  unfold hess
  rw [h]; rfl

/-- … and in its second slot (no symmetry needed) -/
theorem hess_diag_right {F : E × E × E → G}
    (hinv : ∀ (q : E × E × E) (t : E), F (q + diag t) = F q) {p : E × E × E}
    (h2 : DifferentiableAt ℝ (fderiv ℝ F) p) (w : E × E × E) (v : E) :
    hess F p w (diag v) = 0 := by
  have happ : HasFDerivAt (fun q => fderiv ℝ F q (diag v))
      ((ContinuousLinearMap.apply ℝ G (diag v : E × E × E)).comp (hess F p)) p :=
    (ContinuousLinearMap.apply ℝ G (diag v : E × E × E)).hasFDerivAt.comp p h2.hasFDerivAt
  have hz : (fun q => fderiv ℝ F q (diag v)) = fun _ => (0 : G) :=
    funext fun q => fderiv_apply_diag hinv q v
  rw [hz] at happ
  have h0 := happ.unique (hasFDerivAt_const (0 : G) p)
  have := congrArg (fun L : (E × E × E) →L[ℝ] G => L w) h0
  simpa using this

/-- the Hessian block ∂_X ∂_Y F (X, Y ∈ {A, B, C} given by their embeddings) as a bilinear map on E:
`hessBlock F p iX iY u v = D²F(p)(iX u, iY v)` — the matrix of all 3×3 coordinate components when E = ℝ³ -/
noncomputable def hessBlock (F : E × E × E → G) (p : E × E × E) (iX iY : E →L[ℝ] E × E × E) :
    E →L[ℝ] E →L[ℝ] G :=
  (hess F p).bilinearComp iX iY

@[simp] theorem hessBlock_apply (F : E × E × E → G) (p : E × E × E) (iX iY : E →L[ℝ] E × E × E) (u v : E) :
    hessBlock F p iX iY u v = hess F p (iX u) (iY v) := rfl

/-- reading of a Hessian block as an iterated directional derivative: `hessBlock F p iX iY u v` is the
derivative at p, in the direction "centre X moves by u", of the first derivative q ↦ ∂_{Y,v} F(q) -/
theorem hessBlock_eq_iterated {F : E × E × E → G} {p : E × E × E}
    (h2 : DifferentiableAt ℝ (fderiv ℝ F) p) (iX iY : E →L[ℝ] E × E × E) (u v : E) :
    hessBlock F p iX iY u v = fderiv ℝ (fun q => fderiv ℝ F q (iY v)) p (iX u) := by
  have happ : HasFDerivAt (fun q => fderiv ℝ F q (iY v))
      ((ContinuousLinearMap.apply ℝ G (iY v : E × E × E)).comp (hess F p)) p :=
    (ContinuousLinearMap.apply ℝ G (iY v : E × E × E)).hasFDerivAt.comp p h2.hasFDerivAt
  rw [happ.fderiv]; rfl

/-- **second-order sum rules** (only: F translation invariant, DF differentiable at p):
H_XC = −(H_XA + H_XB) and H_CX = −(H_AX + H_BX) for every X, in particular
H_AC = −(H_AA + H_AB), H_BC = −(H_BA + H_BB), H_CC = H_AA + H_AB + H_BA + H_BB. -/
theorem hessian_sum_rules {F : E × E × E → G}
    (hinv : ∀ (q : E × E × E) (t : E), F (q + diag t) = F q) {p : E × E × E}
    (h2 : DifferentiableAt ℝ (fderiv ℝ F) p) :
    hessBlock F p iA iC = -(hessBlock F p iA iA + hessBlock F p iA iB) ∧
    hessBlock F p iB iC = -(hessBlock F p iB iA + hessBlock F p iB iB) ∧
    hessBlock F p iC iA = -(hessBlock F p iA iA + hessBlock F p iB iA) ∧
    hessBlock F p iC iB = -(hessBlock F p iA iB + hessBlock F p iB iB) ∧
    hessBlock F p iC iC
      = hessBlock F p iA iA + hessBlock F p iA iB + hessBlock F p iB iA + hessBlock F p iB iB := by
  have L : ∀ (v : E) (w : E × E × E),
      hess F p (iC v) w = -(hess F p (iA v) w + hess F p (iB v) w) := by
    intro v w
    have h := hess_diag_left hinv h2 v w
    rw [diag_eq, map_add, map_add, add_apply, add_apply] at h
    exact eq_neg_of_add_eq_zero_right h
  have R : ∀ (w : E × E × E) (v : E),
      hess F p w (iC v) = -(hess F p w (iA v) + hess F p w (iB v)) := by
    intro w v
    have h := hess_diag_right hinv h2 w v
    rw [diag_eq, map_add, map_add] at h
    exact eq_neg_of_add_eq_zero_right h
  refine ⟨?_, ?_, ?_, ?_, ?_⟩ <;> ext u v <;>
    simp only [hessBlock_apply, add_apply, neg_apply]
  · exact R _ v
  · exact R _ v
  · exact L u _
  · exact L u _
  · rw [R, L, L]; abel

/-- **symmetry of mixed partials**: for a C² function H_XY = H_YXᵀ (X, Y any two of the embeddings) -/
theorem hessBlock_symm {F : E × E × E → G} {p : E × E × E} (hF : ContDiffAt ℝ 2 F p)
    (iX iY : E →L[ℝ] E × E × E) :
    hessBlock F p iX iY = (hessBlock F p iY iX).flip := by
  have hs : IsSymmSndFDerivAt ℝ F p := hF.isSymmSndFDerivAt (by simp)
  ext u v
  simp only [hessBlock_apply, ContinuousLinearMap.flip_apply]
  exact hs.eq (iX u) (iY v)

/-- **the relations used by the assembly** (C03 `pairSecond_sum_rules`, C04): for a C² translation-invariant
F, with H_BA written through the stored block H_AB (H_BA(u,v) = H_AB(v,u)):
 AC(u,v) = −(AA(u,v) + AB(u,v)),  BC(u,v) = −(BB(u,v) + AB(v,u)),
 CC(u,v) = AA(u,v) + AB(u,v) + AB(v,u) + BB(u,v),
and AA, BB, CC are symmetric (so storing 6 of their 9 components is enough). -/
theorem hessian_assembly_relations {F : E × E × E → G}
    (hinv : ∀ (q : E × E × E) (t : E), F (q + diag t) = F q) (hF : ContDiff ℝ 2 F)
    (p : E × E × E) (u v : E) :
    hessBlock F p iA iC u v = -(hessBlock F p iA iA u v + hessBlock F p iA iB u v) ∧
    hessBlock F p iB iC u v = -(hessBlock F p iB iB u v + hessBlock F p iA iB v u) ∧
    hessBlock F p iC iC u v
      = hessBlock F p iA iA u v + hessBlock F p iA iB u v + hessBlock F p iA iB v u
        + hessBlock F p iB iB u v ∧
    hessBlock F p iA iA u v = hessBlock F p iA iA v u ∧
    hessBlock F p iB iB u v = hessBlock F p iB iB v u ∧
    hessBlock F p iC iC u v = hessBlock F p iC iC v u ∧
    hessBlock F p iB iA u v = hessBlock F p iA iB v u := by
  have h2 : DifferentiableAt ℝ (fderiv ℝ F) p :=
    ((hF.fderiv_right (m := 1) (by norm_num)).differentiable (by norm_num)).differentiableAt
  obtain ⟨hAC, hBC, -, -, hCC⟩ := hessian_sum_rules hinv h2
  have sym : ∀ (iX iY : E →L[ℝ] E × E × E) (u v : E),
      hessBlock F p iX iY u v = hessBlock F p iY iX v u := by
    intro iX iY u v
    rw [hessBlock_symm hF.contDiffAt iX iY]; rfl
  refine ⟨?_, ?_, ?_, sym _ _ u v, sym _ _ u v, sym _ _ u v, sym _ _ u v⟩
  · rw [hAC]; rfl
  · rw [hBC]
    simp only [add_apply, neg_apply]
    rw [sym iB iA u v, add_comm]
  · rw [hCC]
    simp only [add_apply]
    rw [sym iB iA u v]

/-! ### where the invariance comes from, and non-vacuity -/

omit [NormedAddCommGroup G] [NormedSpace ℝ G] in
/-- any function of the relative positions A − C, B − C is invariant under rigid translations -/
theorem invariant_of_relative (f : E × E → G) (q : E × E × E) (t : E) :
    (fun q : E × E × E => f (q.1 - q.2.2, q.2.1 - q.2.2)) (q + diag t)
      = (fun q : E × E × E => f (q.1 - q.2.2, q.2.1 - q.2.2)) q := by
  simp

/-- **the ECP integral is translation invariant**: any integral over all space (translation-invariant
measure μ) of a kernel depending on the positions relative to the three centres,
F(A, B, C) = ∫ K(x − A, x − B, x − C) dμ(x) — e.g. K = φ_a(x−A) · U(x−C) · φ_b(x−B) — is unchanged when
the three centres are moved together (substitute x ↦ x + t). -/
theorem integral_translation_invariant [MeasurableSpace E] [BorelSpace E]
    (μ : MeasureTheory.Measure E) [μ.IsAddRightInvariant] (K : E → E → E → G)
    (q : E × E × E) (t : E) :
    (fun q : E × E × E => ∫ x, K (x - q.1) (x - q.2.1) (x - q.2.2) ∂μ) (q + diag t)
      = (fun q : E × E × E => ∫ x, K (x - q.1) (x - q.2.1) (x - q.2.2) ∂μ) q := by
  obtain ⟨a, b, c⟩ := q
  have h := MeasureTheory.integral_sub_right_eq_self (μ := μ)
    (fun y => K (y - a) (y - b) (y - c)) t
  simp only [Prod.mk_add_mk, diag_apply]
  rw [← h]
  congr 1; funext x
  rw [sub_add_eq_sub_sub_swap, sub_add_eq_sub_sub_swap x b, sub_add_eq_sub_sub_swap x c]

/-- non-vacuity: a concrete C² translation-invariant function satisfies all hypotheses of
`hessian_assembly_relations`, so its conclusions hold for it -/
example (p : ℝ × ℝ × ℝ) (u v : ℝ) :
    let F : ℝ × ℝ × ℝ → ℝ := fun q => (q.1 - q.2.2) ^ 2 * (q.2.1 - q.2.2)
    hessBlock F p iA iC u v = -(hessBlock F p iA iA u v + hessBlock F p iA iB u v) := by
  intro F
  have hinv : ∀ (q : ℝ × ℝ × ℝ) (t : ℝ), F (q + diag t) = F q := fun q t => by simp [F]
  have hF : ContDiff ℝ 2 F := by fun_prop
  exact (hessian_assembly_relations hinv hF p u v).1

end Translation

/-! ## Stage 4: differentiation under the integral sign (model problem) -/

section UnderIntegral
open MeasureTheory Filter Topology

/-- y^n e^{−βy²} is integrable (β > 0) -/
theorem integrable_pow_mul_gauss (n : ℕ) {β : ℝ} (hβ : 0 < β) :
    Integrable fun y : ℝ => y ^ n * Real.exp (-β * y ^ 2) := by
  have h := integrable_rpow_mul_exp_neg_mul_sq hβ (s := (n : ℝ))
    (by have : (0 : ℝ) ≤ n := Nat.cast_nonneg n; linarith)
  simpa [Real.rpow_natCast] using h

/-- the dominating envelope (|y|+1)^n e^{−βy²} is integrable -/
theorem integrable_envelope (n : ℕ) {β : ℝ} (hβ : 0 < β) :
    Integrable fun y : ℝ => (|y| + 1) ^ n * Real.exp (-β * y ^ 2) := by
  have h1 := (integrable_pow_mul_gauss n hβ).norm
  have h2 := integrable_exp_neg_mul_sq hβ
  have hb : Integrable fun y : ℝ =>
      (2 : ℝ) ^ n * (‖y ^ n * Real.exp (-β * y ^ 2)‖ + Real.exp (-β * y ^ 2)) :=
    (h1.add h2).const_mul _
  refine hb.mono' (Continuous.aestronglyMeasurable (by fun_prop)) (Eventually.of_forall fun y => ?_)
  have he : 0 < Real.exp (-β * y ^ 2) := Real.exp_pos _
  have key : (|y| + 1) ^ n ≤ 2 ^ n * (|y| ^ n + 1) := by
    have hy := abs_nonneg y
    have hyn : 0 ≤ |y| ^ n := pow_nonneg hy n
    by_cases h : |y| ≤ 1
    · calc (|y| + 1) ^ n ≤ 2 ^ n := pow_le_pow_left₀ (by positivity) (by linarith) n
        _ ≤ 2 ^ n * (|y| ^ n + 1) := le_mul_of_one_le_right (by positivity) (by linarith)
    · calc (|y| + 1) ^ n ≤ (2 * |y|) ^ n := pow_le_pow_left₀ (by positivity) (by linarith) n
        _ = 2 ^ n * |y| ^ n := mul_pow _ _ _
        _ ≤ 2 ^ n * (|y| ^ n + 1) := by
            apply mul_le_mul_of_nonneg_left _ (by positivity); linarith
  rw [Real.norm_eq_abs, abs_mul, abs_of_pos he, Real.norm_eq_abs, abs_mul, abs_of_pos he,
    abs_of_nonneg (by positivity : (0 : ℝ) ≤ (|y| + 1) ^ n), abs_pow]
  calc (|y| + 1) ^ n * Real.exp (-β * y ^ 2)
      ≤ (2 ^ n * (|y| ^ n + 1)) * Real.exp (-β * y ^ 2) := mul_le_mul_of_nonneg_right key he.le
    _ = 2 ^ n * (|y| ^ n * Real.exp (-β * y ^ 2) + Real.exp (-β * y ^ 2)) := by ring

/-- uniform bound for A within distance 1 of A₀ -/
theorem pow_mul_gauss_le_envelope (n : ℕ) {α : ℝ} (hα : 0 < α) {A A₀ : ℝ} (hA : |A - A₀| ≤ 1) (x : ℝ) :
    |(x - A) ^ n * Real.exp (-α * (x - A) ^ 2)|
      ≤ Real.exp α * ((|x - A₀| + 1) ^ n * Real.exp (-(α / 2) * (x - A₀) ^ 2)) := by
  have h1 : |x - A| ≤ |x - A₀| + 1 := by
    have : x - A = (x - A₀) - (A - A₀) := by ring
    rw [this]
    exact (abs_sub _ _).trans (by linarith)
  have hq1 : (A - A₀) ^ 2 ≤ 1 := (sq_le_one_iff_abs_le_one _).2 hA
  have hq : (x - A₀) ^ 2 ≤ 2 * (x - A) ^ 2 + 2 := by
    nlinarith [sq_nonneg ((x - A) - (A - A₀))]
  have h2 : -α * (x - A) ^ 2 ≤ α + -(α / 2) * (x - A₀) ^ 2 := by
    have := mul_le_mul_of_nonneg_left hq hα.le
    linarith
  have h3 : Real.exp (-α * (x - A) ^ 2) ≤ Real.exp α * Real.exp (-(α / 2) * (x - A₀) ^ 2) := by
    rw [← Real.exp_add]; exact Real.exp_le_exp.2 h2
  rw [abs_mul, abs_of_pos (Real.exp_pos _), abs_pow]
  calc |x - A| ^ n * Real.exp (-α * (x - A) ^ 2)
      ≤ (|x - A₀| + 1) ^ n * (Real.exp α * Real.exp (-(α / 2) * (x - A₀) ^ 2)) :=
        mul_le_mul (pow_le_pow_left₀ (abs_nonneg _) h1 n) h3 (Real.exp_pos _).le (by positivity)
    _ = _ := by ring

/-- **differentiation under the integral sign**: for α > 0 and u bounded measurable,
G(A) = ∫ (x−A)^k e^{−α(x−A)²} u(x) dx is differentiable with G'(A) = ∫ ∂/∂A[(x−A)^k e^{−α(x−A)²}] u(x) dx,
and both integrands are integrable. -/
theorem hasDerivAt_integral_prim (k : ℕ) {α : ℝ} (hα : 0 < α) {u : ℝ → ℝ}
    (hu : AEStronglyMeasurable u volume) {M : ℝ} (hM : ∀ x, |u x| ≤ M) (A₀ : ℝ) :
    Integrable (fun x => prim k α x A₀ * u x) ∧
    Integrable (fun x => dprim k α x A₀ * u x) ∧
    HasDerivAt (fun A => ∫ x, prim k α x A * u x) (∫ x, dprim k α x A₀ * u x) A₀ := by
  have hM0 : 0 ≤ M := (abs_nonneg (u 0)).trans (hM 0)
  have hα2 : 0 < α / 2 := by linarith
  -- the envelope of the n-th primitive, centred at A₀
  set env : ℕ → ℝ → ℝ := fun n x =>
    Real.exp α * ((|x - A₀| + 1) ^ n * Real.exp (-(α / 2) * (x - A₀) ^ 2)) with henv
  have env_int : ∀ n, Integrable (env n) := fun n =>
    ((integrable_envelope n hα2).comp_sub_right A₀).const_mul (Real.exp α)
  set bound : ℝ → ℝ := fun x => ((k : ℝ) * env (k - 1) x + 2 * α * env (k + 1) x) * M with hbound
  have bound_int : Integrable bound :=
    (((env_int (k - 1)).const_mul (k : ℝ)).add ((env_int (k + 1)).const_mul (2 * α))).mul_const M
  have hprim_int : Integrable (fun x => prim k α x A₀ * u x) := by
    have h0 : Integrable (fun x => prim k α x A₀) := (integrable_pow_mul_gauss k hα).comp_sub_right A₀
    exact h0.mul_bdd hu (Eventually.of_forall fun x => by simpa using hM x)
  have hmeas : ∀ A, AEStronglyMeasurable (fun x => prim k α x A * u x) volume := fun A =>
    (Continuous.aestronglyMeasurable (by unfold prim; fun_prop)).mul hu
  have hmeas' : AEStronglyMeasurable (fun x => dprim k α x A₀ * u x) volume :=
    (Continuous.aestronglyMeasurable (by unfold dprim; fun_prop)).mul hu
  have hb : ∀ᵐ x ∂(volume : Measure ℝ), ∀ A ∈ Metric.ball A₀ 1, ‖dprim k α x A * u x‖ ≤ bound x := by
    refine Eventually.of_forall fun x A hA => ?_
    have hA' : |A - A₀| ≤ 1 := by
      have := Metric.mem_ball.1 hA
      rw [Real.dist_eq] at this
      exact this.le
    have e1 := pow_mul_gauss_le_envelope (k - 1) hα hA' x
    have e2 := pow_mul_gauss_le_envelope (k + 1) hα hA' x
    have hd : |dprim k α x A| ≤ (k : ℝ) * env (k - 1) x + 2 * α * env (k + 1) x := by
      have hsplit : dprim k α x A
          = -(k : ℝ) * ((x - A) ^ (k - 1) * Real.exp (-α * (x - A) ^ 2))
            + 2 * α * ((x - A) ^ (k + 1) * Real.exp (-α * (x - A) ^ 2)) := by
        unfold dprim; ring
      rw [hsplit]
      refine (abs_add_le _ _).trans ?_
      rw [abs_mul (-(k : ℝ)), abs_mul (2 * α), abs_neg, abs_of_nonneg (Nat.cast_nonneg k),
        abs_of_pos (by positivity : (0 : ℝ) < 2 * α)]
      exact add_le_add (mul_le_mul_of_nonneg_left e1 (Nat.cast_nonneg k))
        (mul_le_mul_of_nonneg_left e2 (by positivity))
    rw [Real.norm_eq_abs, abs_mul]
    exact mul_le_mul hd (hM x) (abs_nonneg _) ((abs_nonneg _).trans hd)
  have hdiff : ∀ᵐ x ∂(volume : Measure ℝ), ∀ A ∈ Metric.ball A₀ 1,
      HasDerivAt (fun A => prim k α x A * u x) (dprim k α x A * u x) A :=
    Eventually.of_forall fun x A _ => (hasDerivAt_prim k α x A).mul_const (u x)
  have key := hasDerivAt_integral_of_dominated_loc_of_deriv_le
    (F := fun A x => prim k α x A * u x) (F' := fun A x => dprim k α x A * u x)
    (Metric.ball_mem_nhds A₀ one_pos) (Eventually.of_forall hmeas) hprim_int hmeas' hb bound_int hdiff
  exact ⟨hprim_int, key.1, key.2⟩

/-- the second derivative is the first-derivative rule applied twice -/
theorem ddprim_eq_dprim_comb (k : ℕ) (α x A : ℝ) :
    ddprim k α x A = -(k : ℝ) * dprim (k - 1) α x A + 2 * α * dprim (k + 1) α x A := by
  unfold ddprim dprim
  rcases k with _ | _ | k
  · simp; ring
  · simp; ring
  · have e1 : k + 1 + 1 - 2 = k := rfl
    simp only [Nat.add_one_sub_one, Nat.cast_add, Nat.cast_one, e1]
    generalize Real.exp (-α * (x - A) ^ 2) = E
    ring

/-- **second derivative under the integral sign**: G''(A) = ∫ ∂²/∂A²[(x−A)^k e^{−α(x−A)²}] u(x) dx -/
theorem hasDerivAt_integral_dprim (k : ℕ) {α : ℝ} (hα : 0 < α) {u : ℝ → ℝ}
    (hu : AEStronglyMeasurable u volume) {M : ℝ} (hM : ∀ x, |u x| ≤ M) (A₀ : ℝ) :
    Integrable (fun x => ddprim k α x A₀ * u x) ∧
    HasDerivAt (fun A => ∫ x, dprim k α x A * u x) (∫ x, ddprim k α x A₀ * u x) A₀ := by
  have hm := fun A => hasDerivAt_integral_prim (k - 1) hα hu hM A
  have hp := fun A => hasDerivAt_integral_prim (k + 1) hα hu hM A
  have hfun : (fun A => ∫ x, dprim k α x A * u x) = fun A =>
      -(k : ℝ) * (∫ x, prim (k - 1) α x A * u x) + 2 * α * (∫ x, prim (k + 1) α x A * u x) := by
    funext A
    rw [← integral_const_mul (-(k : ℝ)) (fun x => prim (k - 1) α x A * u x),
      ← integral_const_mul (2 * α) (fun x => prim (k + 1) α x A * u x),
      ← integral_add ((hm A).1.const_mul _) ((hp A).1.const_mul _)]
    congr 1; funext x
    rw [dprim_code_form]; ring
  have hint : Integrable (fun x => ddprim k α x A₀ * u x) := by
    have h := ((hm A₀).2.1.const_mul (-(k : ℝ))).add ((hp A₀).2.1.const_mul (2 * α))
    refine h.congr (Eventually.of_forall fun x => ?_)
    simp only [Pi.add_apply]
    rw [ddprim_eq_dprim_comb]; ring
  refine ⟨hint, ?_⟩
  rw [hfun]
  have h := ((hm A₀).2.2.const_mul (-(k : ℝ))).fun_add ((hp A₀).2.2.const_mul (2 * α))
  refine h.congr_deriv ?_
  rw [← integral_const_mul (-(k : ℝ)) (fun x => dprim (k - 1) α x A₀ * u x),
    ← integral_const_mul (2 * α) (fun x => dprim (k + 1) α x A₀ * u x),
    ← integral_add ((hm A₀).2.1.const_mul _) ((hp A₀).2.1.const_mul _)]
  congr 1; funext x
  rw [ddprim_eq_dprim_comb]; ring

end UnderIntegral

end Ecpint.C03b
