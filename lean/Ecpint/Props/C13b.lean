/- C13 (part b) — the monomial sphere integrals the angular tables are built from: closed form and symmetry.
   Definitions: Ecpint/Model/Angular.lean (`pijkWith`, `sort3`, `wWritten`), bit for bit with angular.cpp at Float. -/
import Ecpint.Model.Angular
import Mathlib.Data.Nat.Factorial.DoubleFactorial
import Mathlib.Algebra.Field.Basic
import Mathlib.Algebra.CharZero.Defs
import Mathlib.Tactic.Ring
import Mathlib.Tactic.FieldSimp
import Mathlib.Tactic.Linarith
namespace Ecpint.C13
open Ecpint.Angular

/-- (2n − 1)!! with (−1)!! = 1 -/
def oddFact (n : Nat) : Nat := if n = 0 then 1 else (2 * n - 1).doubleFactorial

theorem oddFact_zero : oddFact 0 = 1 := rfl

theorem oddFact_succ' (n : Nat) : oddFact (n + 1) = (2 * n + 1).doubleFactorial := by
  have : 2 * (n + 1) - 1 = 2 * n + 1 := by omega
  simp [oddFact, this]

theorem oddFact_succ (n : Nat) : oddFact (n + 1) = (2 * n + 1) * oddFact n := by
  cases n with
  | zero => simp [oddFact]
  | succ m =>
    rw [oddFact_succ', oddFact_succ']
    have : 2 * (m + 1) + 1 = (2 * m + 1) + 2 := by ring
    rw [this, Nat.doubleFactorial_add_two]

theorem odd_df_succ (m : Nat) :
    (2 * (m + 1) + 1).doubleFactorial = (2 * m + 3) * (2 * m + 1).doubleFactorial := by
  have : 2 * (m + 1) + 1 = (2 * m + 1) + 2 := by ring
  rw [this, Nat.doubleFactorial_add_two]

/-- one of the two folds of `pijkWith`, started from A / (2c+1)!! -/
theorem fold_closed {K : Type} [Field K] [CharZero K] (c : Nat) (A : K) (n : Nat) :
    (List.range n).foldl (fun (v : K) (t : Nat) =>
      let jj : Nat := t + 1
      let ij : Nat := c + jj
      v * (((2 : Nat) : K) * (jj : K) - 1) / (((2 : Nat) : K) * (ij : K) + 1))
      (A / ((2 * c + 1).doubleFactorial : K))
    = A * (oddFact n : K) / ((2 * (c + n) + 1).doubleFactorial : K) := by
  induction n with
  | zero => simp [oddFact]
  | succ n ih =>
    rw [List.range_succ, List.foldl_append, ih]
    simp only [List.foldl_cons, List.foldl_nil]
    have e1 : c + (n + 1) = (c + n) + 1 := by ring
    rw [oddFact_succ, e1, odd_df_succ]
    have h1 : ((2 * (c + n) + 1).doubleFactorial : K) ≠ 0 :=
      Nat.cast_ne_zero.mpr (Nat.pos_iff_ne_zero.mp (Nat.doubleFactorial_pos _))
    have h2 : ((2 : K) * ((c : K) + (n : K)) + 3) ≠ 0 := by
      have : ((2 * (c + n) + 3 : Nat) : K) ≠ 0 := Nat.cast_ne_zero.mpr (by omega)
      push_cast at this
      exact this
    have h3 : ((2 : K) * ((c : K) + (n : K) + 1) + 1) ≠ 0 := by
      have : ((2 * (c + n + 1) + 1 : Nat) : K) ≠ 0 := Nat.cast_ne_zero.mpr (by omega)
      push_cast at this
      exact this
    push_cast
    field_simp
    ring

theorem v0_closed {K : Type} [Field K] [CharZero K] (pi4 : K) (i : Nat) :
    (if i = 0 then pi4 else pi4 / (((2 * i + 1 : Nat) : Nat) : K))
      = pi4 * (oddFact i : K) / ((2 * i + 1).doubleFactorial : K) := by
  cases i with
  | zero => simp [oddFact]
  | succ m =>
    rw [if_neg (Nat.succ_ne_zero m), oddFact_succ', odd_df_succ]
    have h1 : ((2 * m + 1).doubleFactorial : K) ≠ 0 :=
      Nat.cast_ne_zero.mpr (Nat.pos_iff_ne_zero.mp (Nat.doubleFactorial_pos _))
    have h2 : ((2 : K) * (m : K) + 3) ≠ 0 := by
      have : ((2 * m + 3 : Nat) : K) ≠ 0 := Nat.cast_ne_zero.mpr (by omega)
      push_cast at this
      exact this
    have h3 : ((2 : K) * ((m : K) + 1) + 1) ≠ 0 := by
      have : ((2 * (m + 1) + 1 : Nat) : K) ≠ 0 := Nat.cast_ne_zero.mpr (by omega)
      push_cast at this
      exact this
    push_cast
    field_simp
    ring

/-- the recursion `Pijk` runs (for any i, j, k — the code calls it with i ≥ j ≥ k) has the closed form
4π (2i−1)!! (2j−1)!! (2k−1)!! / (2(i+j+k)+1)!!, the classical value of ∫ x^{2i} y^{2j} z^{2k} over the unit sphere -/
theorem pijkWith_closed {K : Type} [Field K] [CharZero K] (pi4 : K) (i j k : Nat) :
    pijkWith pi4 i j k
      = pi4 * (oddFact i : K) * (oddFact j : K) * (oddFact k : K) / ((2 * (i + j + k) + 1).doubleFactorial : K) := by
  unfold pijkWith
  simp only []
  rw [v0_closed, fold_closed i, fold_closed (i + j)]

/-- hence the value does not depend on the order of the three exponents: sorting them first (as `makeW` does) is harmless -/
theorem pijkWith_perm {K : Type} [Field K] [CharZero K] (pi4 : K) (i j k : Nat) :
    pijkWith pi4 i j k = pijkWith pi4 j i k ∧ pijkWith pi4 i j k = pijkWith pi4 i k j := by
  simp only [pijkWith_closed]
  have e1 : j + i + k = i + j + k := by omega
  have e2 : i + k + j = i + j + k := by omega
  rw [e1, e2]
  constructor <;> ring

/-- `sort3` returns its three arguments in ascending order, for all naturals -/
theorem sort3_sorted_all (a b c : Nat) :
    (sort3 a b c).1 ≤ (sort3 a b c).2.1 ∧ (sort3 a b c).2.1 ≤ (sort3 a b c).2.2 := by
  unfold sort3
  by_cases h1 : a ≤ b
  · by_cases h2 : b ≤ c
    · simp [h1, h2]
    · by_cases h3 : a ≤ c
      · simp [h1, h2, h3]; omega
      · simp [h1, h2, h3]; omega
  · by_cases h2 : a ≤ c
    · have h3 : b ≤ a := by omega
      simp [h1, h2, h3]
    · by_cases h3 : b ≤ c
      · simp [h1, h2, h3]; omega
      · simp [h1, h2, h3]; omega

/-- … and returns a permutation of them -/
theorem sort3_perm (a b c : Nat) :
    [(sort3 a b c).1, (sort3 a b c).2.1, (sort3 a b c).2.2].Perm [a, b, c] := by
  unfold sort3
  by_cases h1 : a ≤ b
  · by_cases h2 : b ≤ c
    · simp [h1, h2]
    · by_cases h3 : a ≤ c
      · simp only [h1, h2, h3, if_true, if_false]
        exact (List.Perm.swap b c []).cons a
      · simp only [h1, h2, h3, if_true, if_false]
        exact (List.Perm.swap a c [b]).trans ((List.Perm.swap b c []).cons a)
  · by_cases h2 : a ≤ c
    · simp only [h1, h2, if_true, if_false]
      by_cases h3 : b ≤ a
      · simp only [h3, if_true]
        exact List.Perm.swap a b [c]
      · exact absurd (by omega) h3
    · by_cases h3 : b ≤ c
      · simp only [h1, h2, h3, if_true, if_false]
        exact ((List.Perm.swap a c []).cons b).trans (List.Perm.swap a b [c])
      · simp only [h1, h2, h3, if_false]
        exact (List.Perm.swap b c [a]).trans
          (((List.Perm.swap a c []).cons b).trans (List.Perm.swap a b [c]))

/-- which entries of the type-1 table `makeW` writes: exactly those with λ ≡ k+l+m (mod 2), λ ≤ min(maxLam, k+l+m),
μ ≡ k+l (mod 2), μ ≤ λ, stored at index λ+μ when l is even and λ−μ when l is odd -/
theorem wWritten_spec (maxLam k l m lam idx mu : Nat) :
    wWritten maxLam k l m lam idx = some mu ↔
      (lam % 2 = (k + l + m) % 2 ∧ lam ≤ min maxLam (k + l + m) ∧ mu % 2 = (k + l) % 2 ∧ mu ≤ lam ∧
        ((l % 2 = 0 ∧ idx = lam + mu) ∨ (l % 2 = 1 ∧ idx + mu = lam))) := by
  unfold wWritten
  simp only []
  constructor
  · intro h
    split_ifs at h with c1 c2 c3
    · have := Option.some.inj h
      obtain ⟨c11, c12⟩ := c1
      obtain ⟨c21, c22, c23, c24⟩ := c2
      refine ⟨c11, c12, ?_, ?_, ?_⟩
      · rw [← this]; exact c24
      · omega
      · left; omega
    · have := Option.some.inj h
      obtain ⟨c11, c12⟩ := c1
      obtain ⟨c31, c32, c33⟩ := c3
      refine ⟨c11, c12, ?_, ?_, ?_⟩
      · rw [← this]; exact c33
      · omega
      · right; omega
  · rintro ⟨h1, h2, h3, h4, h5⟩
    rw [if_pos ⟨h1, h2⟩]
    rcases h5 with ⟨h5, h6⟩ | ⟨h5, h6⟩
    · have e : idx - lam = mu := by omega
      rw [if_pos ⟨by omega, by omega, by omega, by rw [e]; exact h3⟩, e]
    · have e : lam - idx = mu := by omega
      rw [if_neg (by intro hh; exact hh.1 h5), if_pos ⟨h5, by omega, by rw [e]; exact h3⟩, e]

end Ecpint.C13
