/- C12 closed-form radial cases against the recurrence, part 5 of 8 (cases 101, 109, 208, 406, 10104, 10304, 10407, 20208).
   Each theorem: the generated case, fed with `valuesOf fam`, G^A_1, G^B_1, H_2, equals `Q p x y fam i j k`. -/
import Ecpint.Props.C12Cases.Tactic
namespace Ecpint.C12
open Ecpint.RadialRec Ecpint.Gen
set_option linter.unusedVariables false
set_option linter.unusedSimpArgs false
set_option linter.unusedSectionVars false
variable {K : Type} [Field K] [CharZero K]

theorem case_101 (p x y : K) (hx : x ≠ 0) (hy : y ≠ 0) (fam : Fam K) (h : Reductions p x y fam) :
    radialCase_101 p x y (x*x) (y*y) (p*p) (valuesOf fam) (fam.GA 1) (fam.GB 1) (fam.H 2) = Q p x y fam 0 1 1 := by
  radial_case radialCase_101 h

theorem case_109 (p x y : K) (hx : x ≠ 0) (hy : y ≠ 0) (fam : Fam K) (h : Reductions p x y fam) :
    radialCase_109 p x y (x*x) (y*y) (p*p) (valuesOf fam) (fam.GA 1) (fam.GB 1) (fam.H 2) = Q p x y fam 0 1 9 := by
  radial_case radialCase_109 h

theorem case_208 (p x y : K) (hx : x ≠ 0) (hy : y ≠ 0) (fam : Fam K) (h : Reductions p x y fam) :
    radialCase_208 p x y (x*x) (y*y) (p*p) (valuesOf fam) (fam.GA 1) (fam.GB 1) (fam.H 2) = Q p x y fam 0 2 8 := by
  radial_case radialCase_208 h

theorem case_406 (p x y : K) (hx : x ≠ 0) (hy : y ≠ 0) (fam : Fam K) (h : Reductions p x y fam) :
    radialCase_406 p x y (x*x) (y*y) (p*p) (valuesOf fam) (fam.GA 1) (fam.GB 1) (fam.H 2) = Q p x y fam 0 4 6 := by
  radial_case radialCase_406 h

theorem case_10104 (p x y : K) (hx : x ≠ 0) (hy : y ≠ 0) (fam : Fam K) (h : Reductions p x y fam) :
    radialCase_10104 p x y (x*x) (y*y) (p*p) (valuesOf fam) (fam.GA 1) (fam.GB 1) (fam.H 2) = Q p x y fam 1 1 4 := by
  radial_case radialCase_10104 h

theorem case_10304 (p x y : K) (hx : x ≠ 0) (hy : y ≠ 0) (fam : Fam K) (h : Reductions p x y fam) :
    radialCase_10304 p x y (x*x) (y*y) (p*p) (valuesOf fam) (fam.GA 1) (fam.GB 1) (fam.H 2) = Q p x y fam 1 3 4 := by
  radial_case radialCase_10304 h

theorem case_10407 (p x y : K) (hx : x ≠ 0) (hy : y ≠ 0) (fam : Fam K) (h : Reductions p x y fam) :
    radialCase_10407 p x y (x*x) (y*y) (p*p) (valuesOf fam) (fam.GA 1) (fam.GB 1) (fam.H 2) = Q p x y fam 1 4 7 := by
  radial_case radialCase_10407 h

theorem case_20208 (p x y : K) (hx : x ≠ 0) (hy : y ≠ 0) (fam : Fam K) (h : Reductions p x y fam) :
    radialCase_20208 p x y (x*x) (y*y) (p*p) (valuesOf fam) (fam.GA 1) (fam.GB 1) (fam.H 2) = Q p x y fam 2 2 8 := by
  radial_case radialCase_20208 h

end Ecpint.C12
