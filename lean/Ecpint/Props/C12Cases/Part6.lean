/- C12 closed-form radial cases against the recurrence, part 6 of 8 (cases 103, 210, 303, 10102, 10201, 20303, 20404).
   Each theorem: the generated case, fed with `valuesOf fam`, G^A_1, G^B_1, H_2, equals `Q p x y fam i j k`. -/
import Ecpint.Props.C12Cases.Tactic
namespace Ecpint.C12
open Ecpint.RadialRec Ecpint.Gen
set_option linter.unusedVariables false
set_option linter.unusedSimpArgs false
set_option linter.unusedSectionVars false
variable {K : Type} [Field K] [CharZero K]

theorem case_103 (p x y : K) (hx : x ≠ 0) (hy : y ≠ 0) (fam : Fam K) (h : Reductions p x y fam) :
    radialCase_103 p x y (x*x) (y*y) (p*p) (valuesOf fam) (fam.GA 1) (fam.GB 1) (fam.H 2) = Q p x y fam 0 1 3 := by
  radial_case radialCase_103 h

theorem case_210 (p x y : K) (hx : x ≠ 0) (hy : y ≠ 0) (fam : Fam K) (h : Reductions p x y fam) :
    radialCase_210 p x y (x*x) (y*y) (p*p) (valuesOf fam) (fam.GA 1) (fam.GB 1) (fam.H 2) = Q p x y fam 0 2 10 := by
  radial_case radialCase_210 h

theorem case_303 (p x y : K) (hx : x ≠ 0) (hy : y ≠ 0) (fam : Fam K) (h : Reductions p x y fam) :
    radialCase_303 p x y (x*x) (y*y) (p*p) (valuesOf fam) (fam.GA 1) (fam.GB 1) (fam.H 2) = Q p x y fam 0 3 3 := by
  radial_case radialCase_303 h

theorem case_10102 (p x y : K) (hx : x ≠ 0) (hy : y ≠ 0) (fam : Fam K) (h : Reductions p x y fam) :
    radialCase_10102 p x y (x*x) (y*y) (p*p) (valuesOf fam) (fam.GA 1) (fam.GB 1) (fam.H 2) = Q p x y fam 1 1 2 := by
  radial_case radialCase_10102 h

theorem case_10201 (p x y : K) (hx : x ≠ 0) (hy : y ≠ 0) (fam : Fam K) (h : Reductions p x y fam) :
    radialCase_10201 p x y (x*x) (y*y) (p*p) (valuesOf fam) (fam.GA 1) (fam.GB 1) (fam.H 2) = Q p x y fam 1 2 1 := by
  radial_case radialCase_10201 h

theorem case_20303 (p x y : K) (hx : x ≠ 0) (hy : y ≠ 0) (fam : Fam K) (h : Reductions p x y fam) :
    radialCase_20303 p x y (x*x) (y*y) (p*p) (valuesOf fam) (fam.GA 1) (fam.GB 1) (fam.H 2) = Q p x y fam 2 3 3 := by
  radial_case radialCase_20303 h

theorem case_20404 (p x y : K) (hx : x ≠ 0) (hy : y ≠ 0) (fam : Fam K) (h : Reductions p x y fam) :
    radialCase_20404 p x y (x*x) (y*y) (p*p) (valuesOf fam) (fam.GA 1) (fam.GB 1) (fam.H 2) = Q p x y fam 2 4 4 := by
  radial_case radialCase_20404 h

end Ecpint.C12
