/- C12 closed-form radial cases against the recurrence, part 3 of 8 (cases 6, 301, 305, 408, 10108, 10302, 30304, 40402).
   Each theorem: the generated case, fed with `valuesOf fam`, G^A_1, G^B_1, H_2, equals `Q p x y fam i j k`. -/
import Ecpint.Props.C12Cases.Tactic
namespace Ecpint.C12
open Ecpint.RadialRec Ecpint.Gen
set_option linter.unusedVariables false
set_option linter.unusedSimpArgs false
set_option linter.unusedSectionVars false
variable {K : Type} [Field K] [CharZero K]

theorem case_6 (p x y : K) (hx : x ≠ 0) (hy : y ≠ 0) (fam : Fam K) (h : Reductions p x y fam) :
    radialCase_6 p x y (x*x) (y*y) (p*p) (valuesOf fam) (fam.GA 1) (fam.GB 1) (fam.H 2) = Q p x y fam 0 0 6 := by
  radial_case radialCase_6 h

theorem case_301 (p x y : K) (hx : x ≠ 0) (hy : y ≠ 0) (fam : Fam K) (h : Reductions p x y fam) :
    radialCase_301 p x y (x*x) (y*y) (p*p) (valuesOf fam) (fam.GA 1) (fam.GB 1) (fam.H 2) = Q p x y fam 0 3 1 := by
  radial_case radialCase_301 h

theorem case_305 (p x y : K) (hx : x ≠ 0) (hy : y ≠ 0) (fam : Fam K) (h : Reductions p x y fam) :
    radialCase_305 p x y (x*x) (y*y) (p*p) (valuesOf fam) (fam.GA 1) (fam.GB 1) (fam.H 2) = Q p x y fam 0 3 5 := by
  radial_case radialCase_305 h

theorem case_408 (p x y : K) (hx : x ≠ 0) (hy : y ≠ 0) (fam : Fam K) (h : Reductions p x y fam) :
    radialCase_408 p x y (x*x) (y*y) (p*p) (valuesOf fam) (fam.GA 1) (fam.GB 1) (fam.H 2) = Q p x y fam 0 4 8 := by
  radial_case radialCase_408 h

theorem case_10108 (p x y : K) (hx : x ≠ 0) (hy : y ≠ 0) (fam : Fam K) (h : Reductions p x y fam) :
    radialCase_10108 p x y (x*x) (y*y) (p*p) (valuesOf fam) (fam.GA 1) (fam.GB 1) (fam.H 2) = Q p x y fam 1 1 8 := by
  radial_case radialCase_10108 h

theorem case_10302 (p x y : K) (hx : x ≠ 0) (hy : y ≠ 0) (fam : Fam K) (h : Reductions p x y fam) :
    radialCase_10302 p x y (x*x) (y*y) (p*p) (valuesOf fam) (fam.GA 1) (fam.GB 1) (fam.H 2) = Q p x y fam 1 3 2 := by
  radial_case radialCase_10302 h

theorem case_30304 (p x y : K) (hx : x ≠ 0) (hy : y ≠ 0) (fam : Fam K) (h : Reductions p x y fam) :
    radialCase_30304 p x y (x*x) (y*y) (p*p) (valuesOf fam) (fam.GA 1) (fam.GB 1) (fam.H 2) = Q p x y fam 3 3 4 := by
  radial_case radialCase_30304 h

theorem case_40402 (p x y : K) (hx : x ≠ 0) (hy : y ≠ 0) (fam : Fam K) (h : Reductions p x y fam) :
    radialCase_40402 p x y (x*x) (y*y) (p*p) (valuesOf fam) (fam.GA 1) (fam.GB 1) (fam.H 2) = Q p x y fam 4 4 2 := by
  radial_case radialCase_40402 h

end Ecpint.C12
