/- C12 closed-form radial cases against the recurrence, part 8 of 8 (cases 12, 206, 309, 10203, 10209, 10401, 20202, 30403).
   Each theorem: the generated case, fed with `valuesOf fam`, G^A_1, G^B_1, H_2, equals `Q p x y fam i j k`. -/
import Ecpint.Props.C12Cases.Tactic
namespace Ecpint.C12
open Ecpint.RadialRec Ecpint.Gen
set_option linter.unusedVariables false
set_option linter.unusedSimpArgs false
set_option linter.unusedSectionVars false
variable {K : Type} [Field K] [CharZero K]

theorem case_12 (p x y : K) (hx : x ≠ 0) (hy : y ≠ 0) (fam : Fam K) (h : Reductions p x y fam) :
    radialCase_12 p x y (x*x) (y*y) (p*p) (valuesOf fam) (fam.GA 1) (fam.GB 1) (fam.H 2) = Q p x y fam 0 0 12 := by
  radial_case radialCase_12 h

theorem case_206 (p x y : K) (hx : x ≠ 0) (hy : y ≠ 0) (fam : Fam K) (h : Reductions p x y fam) :
    radialCase_206 p x y (x*x) (y*y) (p*p) (valuesOf fam) (fam.GA 1) (fam.GB 1) (fam.H 2) = Q p x y fam 0 2 6 := by
  radial_case radialCase_206 h

theorem case_309 (p x y : K) (hx : x ≠ 0) (hy : y ≠ 0) (fam : Fam K) (h : Reductions p x y fam) :
    radialCase_309 p x y (x*x) (y*y) (p*p) (valuesOf fam) (fam.GA 1) (fam.GB 1) (fam.H 2) = Q p x y fam 0 3 9 := by
  radial_case radialCase_309 h

theorem case_10203 (p x y : K) (hx : x ≠ 0) (hy : y ≠ 0) (fam : Fam K) (h : Reductions p x y fam) :
    radialCase_10203 p x y (x*x) (y*y) (p*p) (valuesOf fam) (fam.GA 1) (fam.GB 1) (fam.H 2) = Q p x y fam 1 2 3 := by
  radial_case radialCase_10203 h

theorem case_10209 (p x y : K) (hx : x ≠ 0) (hy : y ≠ 0) (fam : Fam K) (h : Reductions p x y fam) :
    radialCase_10209 p x y (x*x) (y*y) (p*p) (valuesOf fam) (fam.GA 1) (fam.GB 1) (fam.H 2) = Q p x y fam 1 2 9 := by
  radial_case radialCase_10209 h

theorem case_10401 (p x y : K) (hx : x ≠ 0) (hy : y ≠ 0) (fam : Fam K) (h : Reductions p x y fam) :
    radialCase_10401 p x y (x*x) (y*y) (p*p) (valuesOf fam) (fam.GA 1) (fam.GB 1) (fam.H 2) = Q p x y fam 1 4 1 := by
  radial_case radialCase_10401 h

theorem case_20202 (p x y : K) (hx : x ≠ 0) (hy : y ≠ 0) (fam : Fam K) (h : Reductions p x y fam) :
    radialCase_20202 p x y (x*x) (y*y) (p*p) (valuesOf fam) (fam.GA 1) (fam.GB 1) (fam.H 2) = Q p x y fam 2 2 2 := by
  radial_case radialCase_20202 h

theorem case_30403 (p x y : K) (hx : x ≠ 0) (hy : y ≠ 0) (fam : Fam K) (h : Reductions p x y fam) :
    radialCase_30403 p x y (x*x) (y*y) (p*p) (valuesOf fam) (fam.GA 1) (fam.GB 1) (fam.H 2) = Q p x y fam 3 4 3 := by
  radial_case radialCase_30403 h

end Ecpint.C12
