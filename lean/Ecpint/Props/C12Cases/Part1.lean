/- C12 closed-form radial cases against the recurrence, part 1 of 8 (cases 8, 204, 404, 20206, 30302, 30401, 30405).
   Each theorem: the generated case, fed with `valuesOf fam`, G^A_1, G^B_1, H_2, equals `Q p x y fam i j k`. -/
import Ecpint.Props.C12Cases.Tactic
namespace Ecpint.C12
open Ecpint.RadialRec Ecpint.Gen
set_option linter.unusedVariables false
set_option linter.unusedSimpArgs false
set_option linter.unusedSectionVars false
variable {K : Type} [Field K] [CharZero K]

theorem case_8 (p x y : K) (hx : x ≠ 0) (hy : y ≠ 0) (fam : Fam K) (h : Reductions p x y fam) :
    radialCase_8 p x y (x*x) (y*y) (p*p) (valuesOf fam) (fam.GA 1) (fam.GB 1) (fam.H 2) = Q p x y fam 0 0 8 := by
  radial_case radialCase_8 h

theorem case_204 (p x y : K) (hx : x ≠ 0) (hy : y ≠ 0) (fam : Fam K) (h : Reductions p x y fam) :
    radialCase_204 p x y (x*x) (y*y) (p*p) (valuesOf fam) (fam.GA 1) (fam.GB 1) (fam.H 2) = Q p x y fam 0 2 4 := by
  radial_case radialCase_204 h

theorem case_404 (p x y : K) (hx : x ≠ 0) (hy : y ≠ 0) (fam : Fam K) (h : Reductions p x y fam) :
    radialCase_404 p x y (x*x) (y*y) (p*p) (valuesOf fam) (fam.GA 1) (fam.GB 1) (fam.H 2) = Q p x y fam 0 4 4 := by
  radial_case radialCase_404 h

theorem case_20206 (p x y : K) (hx : x ≠ 0) (hy : y ≠ 0) (fam : Fam K) (h : Reductions p x y fam) :
    radialCase_20206 p x y (x*x) (y*y) (p*p) (valuesOf fam) (fam.GA 1) (fam.GB 1) (fam.H 2) = Q p x y fam 2 2 6 := by
  radial_case radialCase_20206 h

theorem case_30302 (p x y : K) (hx : x ≠ 0) (hy : y ≠ 0) (fam : Fam K) (h : Reductions p x y fam) :
    radialCase_30302 p x y (x*x) (y*y) (p*p) (valuesOf fam) (fam.GA 1) (fam.GB 1) (fam.H 2) = Q p x y fam 3 3 2 := by
  radial_case radialCase_30302 h

set_option maxHeartbeats 800000 in
theorem case_30401 (p x y : K) (hx : x ≠ 0) (hy : y ≠ 0) (fam : Fam K) (h : Reductions p x y fam) :
    radialCase_30401 p x y (x*x) (y*y) (p*p) (valuesOf fam) (fam.GA 1) (fam.GB 1) (fam.H 2) = Q p x y fam 3 4 1 := by
  radial_case radialCase_30401 h

theorem case_30405 (p x y : K) (hx : x ≠ 0) (hy : y ≠ 0) (fam : Fam K) (h : Reductions p x y fam) :
    radialCase_30405 p x y (x*x) (y*y) (p*p) (valuesOf fam) (fam.GA 1) (fam.GB 1) (fam.H 2) = Q p x y fam 3 4 5 := by
  radial_case radialCase_30405 h

end Ecpint.C12
