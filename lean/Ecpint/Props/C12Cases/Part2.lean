/- C12 closed-form radial cases against the recurrence, part 2 of 8 (cases 2, 202, 10106, 10306, 10308, 20305, 20406, 40404).
   Each theorem: the generated case, fed with `valuesOf fam`, G^A_1, G^B_1, H_2, equals `Q p x y fam i j k`. -/
import Ecpint.Props.C12Cases.Tactic
namespace Ecpint.C12
open Ecpint.RadialRec Ecpint.Gen
set_option linter.unusedVariables false
set_option linter.unusedSimpArgs false
set_option linter.unusedSectionVars false
variable {K : Type} [Field K] [CharZero K]

theorem case_2 (p x y : K) (hx : x ≠ 0) (hy : y ≠ 0) (fam : Fam K) (h : Reductions p x y fam) :
    radialCase_2 p x y (x*x) (y*y) (p*p) (valuesOf fam) (fam.GA 1) (fam.GB 1) (fam.H 2) = Q p x y fam 0 0 2 := by
  radial_case radialCase_2 h

theorem case_202 (p x y : K) (hx : x ≠ 0) (hy : y ≠ 0) (fam : Fam K) (h : Reductions p x y fam) :
    radialCase_202 p x y (x*x) (y*y) (p*p) (valuesOf fam) (fam.GA 1) (fam.GB 1) (fam.H 2) = Q p x y fam 0 2 2 := by
  radial_case radialCase_202 h

theorem case_10106 (p x y : K) (hx : x ≠ 0) (hy : y ≠ 0) (fam : Fam K) (h : Reductions p x y fam) :
    radialCase_10106 p x y (x*x) (y*y) (p*p) (valuesOf fam) (fam.GA 1) (fam.GB 1) (fam.H 2) = Q p x y fam 1 1 6 := by
  radial_case radialCase_10106 h

theorem case_10306 (p x y : K) (hx : x ≠ 0) (hy : y ≠ 0) (fam : Fam K) (h : Reductions p x y fam) :
    radialCase_10306 p x y (x*x) (y*y) (p*p) (valuesOf fam) (fam.GA 1) (fam.GB 1) (fam.H 2) = Q p x y fam 1 3 6 := by
  radial_case radialCase_10306 h

theorem case_10308 (p x y : K) (hx : x ≠ 0) (hy : y ≠ 0) (fam : Fam K) (h : Reductions p x y fam) :
    radialCase_10308 p x y (x*x) (y*y) (p*p) (valuesOf fam) (fam.GA 1) (fam.GB 1) (fam.H 2) = Q p x y fam 1 3 8 := by
  radial_case radialCase_10308 h

theorem case_20305 (p x y : K) (hx : x ≠ 0) (hy : y ≠ 0) (fam : Fam K) (h : Reductions p x y fam) :
    radialCase_20305 p x y (x*x) (y*y) (p*p) (valuesOf fam) (fam.GA 1) (fam.GB 1) (fam.H 2) = Q p x y fam 2 3 5 := by
  radial_case radialCase_20305 h

theorem case_20406 (p x y : K) (hx : x ≠ 0) (hy : y ≠ 0) (fam : Fam K) (h : Reductions p x y fam) :
    radialCase_20406 p x y (x*x) (y*y) (p*p) (valuesOf fam) (fam.GA 1) (fam.GB 1) (fam.H 2) = Q p x y fam 2 4 6 := by
  radial_case radialCase_20406 h

theorem case_40404 (p x y : K) (hx : x ≠ 0) (hy : y ≠ 0) (fam : Fam K) (h : Reductions p x y fam) :
    radialCase_40404 p x y (x*x) (y*y) (p*p) (valuesOf fam) (fam.GA 1) (fam.GB 1) (fam.H 2) = Q p x y fam 4 4 4 := by
  radial_case radialCase_40404 h

end Ecpint.C12
