/- C12 closed-form radial cases against the recurrence, part 4 of 8 (cases 105, 111, 307, 402, 10403, 20301, 20402, 30306).
   Each theorem: the generated case, fed with `valuesOf fam`, G^A_1, G^B_1, H_2, equals `Q p x y fam i j k`. -/
import Ecpint.Props.C12Cases.Tactic
namespace Ecpint.C12
open Ecpint.RadialRec Ecpint.Gen
set_option linter.unusedVariables false
set_option linter.unusedSimpArgs false
set_option linter.unusedSectionVars false
variable {K : Type} [Field K] [CharZero K]

theorem case_105 (p x y : K) (hx : x ≠ 0) (hy : y ≠ 0) (fam : Fam K) (h : Reductions p x y fam) :
    radialCase_105 p x y (x*x) (y*y) (p*p) (valuesOf fam) (fam.GA 1) (fam.GB 1) (fam.H 2) = Q p x y fam 0 1 5 := by
  radial_case radialCase_105 h

theorem case_111 (p x y : K) (hx : x ≠ 0) (hy : y ≠ 0) (fam : Fam K) (h : Reductions p x y fam) :
    radialCase_111 p x y (x*x) (y*y) (p*p) (valuesOf fam) (fam.GA 1) (fam.GB 1) (fam.H 2) = Q p x y fam 0 1 11 := by
  radial_case radialCase_111 h

theorem case_307 (p x y : K) (hx : x ≠ 0) (hy : y ≠ 0) (fam : Fam K) (h : Reductions p x y fam) :
    radialCase_307 p x y (x*x) (y*y) (p*p) (valuesOf fam) (fam.GA 1) (fam.GB 1) (fam.H 2) = Q p x y fam 0 3 7 := by
  radial_case radialCase_307 h

theorem case_402 (p x y : K) (hx : x ≠ 0) (hy : y ≠ 0) (fam : Fam K) (h : Reductions p x y fam) :
    radialCase_402 p x y (x*x) (y*y) (p*p) (valuesOf fam) (fam.GA 1) (fam.GB 1) (fam.H 2) = Q p x y fam 0 4 2 := by
  radial_case radialCase_402 h

theorem case_10403 (p x y : K) (hx : x ≠ 0) (hy : y ≠ 0) (fam : Fam K) (h : Reductions p x y fam) :
    radialCase_10403 p x y (x*x) (y*y) (p*p) (valuesOf fam) (fam.GA 1) (fam.GB 1) (fam.H 2) = Q p x y fam 1 4 3 := by
  radial_case radialCase_10403 h

theorem case_20301 (p x y : K) (hx : x ≠ 0) (hy : y ≠ 0) (fam : Fam K) (h : Reductions p x y fam) :
    radialCase_20301 p x y (x*x) (y*y) (p*p) (valuesOf fam) (fam.GA 1) (fam.GB 1) (fam.H 2) = Q p x y fam 2 3 1 := by
  radial_case radialCase_20301 h

theorem case_20402 (p x y : K) (hx : x ≠ 0) (hy : y ≠ 0) (fam : Fam K) (h : Reductions p x y fam) :
    radialCase_20402 p x y (x*x) (y*y) (p*p) (valuesOf fam) (fam.GA 1) (fam.GB 1) (fam.H 2) = Q p x y fam 2 4 2 := by
  radial_case radialCase_20402 h

theorem case_30306 (p x y : K) (hx : x ≠ 0) (hy : y ≠ 0) (fam : Fam K) (h : Reductions p x y fam) :
    radialCase_30306 p x y (x*x) (y*y) (p*p) (valuesOf fam) (fam.GA 1) (fam.GB 1) (fam.H 2) = Q p x y fam 3 3 6 := by
  radial_case radialCase_30306 h

end Ecpint.C12
