/- C12 closed-form radial cases against the recurrence, part 7 of 8 (cases 4, 10, 107, 10205, 10207, 10405, 20204, 20307).
   Each theorem: the generated case, fed with `valuesOf fam`, G^A_1, G^B_1, H_2, equals `Q p x y fam i j k`. -/
import Ecpint.Props.C12Cases.Tactic
namespace Ecpint.C12
open Ecpint.RadialRec Ecpint.Gen
set_option linter.unusedVariables false
set_option linter.unusedSimpArgs false
set_option linter.unusedSectionVars false
variable {K : Type} [Field K] [CharZero K]

theorem case_4 (p x y : K) (hx : x ≠ 0) (hy : y ≠ 0) (fam : Fam K) (h : Reductions p x y fam) :
    radialCase_4 p x y (x*x) (y*y) (p*p) (valuesOf fam) (fam.GA 1) (fam.GB 1) (fam.H 2) = Q p x y fam 0 0 4 := by
  radial_case radialCase_4 h

theorem case_10 (p x y : K) (hx : x ≠ 0) (hy : y ≠ 0) (fam : Fam K) (h : Reductions p x y fam) :
    radialCase_10 p x y (x*x) (y*y) (p*p) (valuesOf fam) (fam.GA 1) (fam.GB 1) (fam.H 2) = Q p x y fam 0 0 10 := by
  radial_case radialCase_10 h

theorem case_107 (p x y : K) (hx : x ≠ 0) (hy : y ≠ 0) (fam : Fam K) (h : Reductions p x y fam) :
    radialCase_107 p x y (x*x) (y*y) (p*p) (valuesOf fam) (fam.GA 1) (fam.GB 1) (fam.H 2) = Q p x y fam 0 1 7 := by
  radial_case radialCase_107 h

theorem case_10205 (p x y : K) (hx : x ≠ 0) (hy : y ≠ 0) (fam : Fam K) (h : Reductions p x y fam) :
    radialCase_10205 p x y (x*x) (y*y) (p*p) (valuesOf fam) (fam.GA 1) (fam.GB 1) (fam.H 2) = Q p x y fam 1 2 5 := by
  radial_case radialCase_10205 h

theorem case_10207 (p x y : K) (hx : x ≠ 0) (hy : y ≠ 0) (fam : Fam K) (h : Reductions p x y fam) :
    radialCase_10207 p x y (x*x) (y*y) (p*p) (valuesOf fam) (fam.GA 1) (fam.GB 1) (fam.H 2) = Q p x y fam 1 2 7 := by
  radial_case radialCase_10207 h

theorem case_10405 (p x y : K) (hx : x ≠ 0) (hy : y ≠ 0) (fam : Fam K) (h : Reductions p x y fam) :
    radialCase_10405 p x y (x*x) (y*y) (p*p) (valuesOf fam) (fam.GA 1) (fam.GB 1) (fam.H 2) = Q p x y fam 1 4 5 := by
  radial_case radialCase_10405 h

theorem case_20204 (p x y : K) (hx : x ≠ 0) (hy : y ≠ 0) (fam : Fam K) (h : Reductions p x y fam) :
    radialCase_20204 p x y (x*x) (y*y) (p*p) (valuesOf fam) (fam.GA 1) (fam.GB 1) (fam.H 2) = Q p x y fam 2 2 4 := by
  radial_case radialCase_20204 h

theorem case_20307 (p x y : K) (hx : x ≠ 0) (hy : y ≠ 0) (fam : Fam K) (h : Reductions p x y fam) :
    radialCase_20307 p x y (x*x) (y*y) (p*p) (valuesOf fam) (fam.GA 1) (fam.GB 1) (fam.H 2) = Q p x y fam 2 3 7 := by
  radial_case radialCase_20307 h

end Ecpint.C12
