import sys, re
import os; HERE = os.path.dirname(os.path.abspath(__file__)); sys.path.insert(0, HERE)
from gen_common import keys, thm
FAILED = {10110}
HB = {30401: 800000}
# measured single-case times (s), from scratch/out/summary.txt
times = {}
for line in open('' + HERE + '/times.txt'):
    m = re.match(r'c(\d+) rc=\d+ t=([\d.]+)', line)
    times[int(m.group(1))] = float(m.group(2))
NP = 8
good = [k for k in keys if k not in FAILED]
parts = [[] for _ in range(NP)]
load = [0.0] * NP
for k in sorted(good, key=lambda k: -times[k]):
    i = min(range(NP), key=lambda i: (load[i], len(parts[i])))
    parts[i].append(k); load[i] += times[k]
HDR = '''/- C12 closed-form radial cases against the recurrence, part {n} of {NP} (cases {lst}).
   Each theorem: the generated case, fed with `valuesOf fam`, G^A_1, G^B_1, H_2, equals `Q p x y fam i j k`. -/
import Ecpint.Props.C12Cases.Tactic
namespace Ecpint.C12
open Ecpint.RadialRec Ecpint.Gen
set_option linter.unusedVariables false
set_option linter.unusedSimpArgs false
set_option linter.unusedSectionVars false
variable {{K : Type}} [Field K] [CharZero K]
'''
for n, ks in enumerate(parts, 1):
    ks.sort()
    s = HDR.format(n=n, NP=NP, lst=', '.join(map(str, ks)))
    for k in ks:
        s += '\n' + thm(k, HB.get(k))
    s += '\nend Ecpint.C12\n'
    open(os.path.join(HERE, '..', f'Part{n}.lean'), 'w').write(s)
    print(n, len(ks), round(load[n-1], 1), ks)
