import re
keys = [2, 4, 6, 8, 10, 12, 101, 103, 105, 107, 109, 111, 202, 204, 206, 208, 210, 301, 303, 305, 307, 309, 402, 404, 406, 408, 10102, 10104, 10106, 10108, 10110, 10201, 10203, 10205, 10207, 10209, 10302, 10304, 10306, 10308, 10401, 10403, 10405, 10407, 20202, 20204, 20206, 20208, 20301, 20303, 20305, 20307, 20402, 20404, 20406, 30302, 30304, 30306, 30401, 30403, 30405, 40402, 40404]
HDR = '''import Ecpint.Props.C12Cases.Tactic
namespace Ecpint.C12
open Ecpint.RadialRec Ecpint.Gen
set_option linter.unusedVariables false
set_option linter.unusedSimpArgs false
variable {K : Type} [Field K] [CharZero K]
'''
def thm(key, hb=None):
    i, j, k = key // 10000, (key // 100) % 100, key % 100
    s = ''
    if hb: s += f'set_option maxHeartbeats {hb} in\n'
    s += f'''theorem case_{key} (p x y : K) (hx : x ≠ 0) (hy : y ≠ 0) (fam : Fam K) (h : Reductions p x y fam) :
    radialCase_{key} p x y (x*x) (y*y) (p*p) (valuesOf fam) (fam.GA 1) (fam.GB 1) (fam.H 2) = Q p x y fam {i} {j} {k} := by
  radial_case radialCase_{key} h
'''
    return s
