/- The proof pipeline shared by all closed-form radial cases (C12):
   1. unfold the generated case and the recurrences `Q`/`recI`/`recJ`/`leaf`/`valuesOf`, normalising the integer
      arithmetic, the parity tests of `leaf`/`valuesOf` and the casts with `norm_num`;
   2. replace every base integral `fam.F N` (N ≤ 0 even) and `fam.GB N` (N < 0 odd) by its closed form in
      `F 2, G^B 1, G^A 1, H 2` (lemmas of `Closed.lean`, each derived from the four `Reductions`);
   3. clear denominators (`x ≠ 0`, `y ≠ 0` are found in the context) and finish with `ring`. -/
import Ecpint.Props.C12Cases.Closed
import Ecpint.Gen.RadialCases
import Mathlib.Tactic.Ring
import Mathlib.Tactic.FieldSimp
import Mathlib.Tactic.NormNum
import Mathlib.Tactic.LinearCombination
import Mathlib.Algebra.Field.Basic
namespace Ecpint.C12
open Ecpint.RadialRec Ecpint.Gen

/-- `radial_case radialCase_<key> h` proves `radialCase_<key> … = Q p x y fam i j k` from `h : Reductions p x y fam`
with `hx : x ≠ 0`, `hy : y ≠ 0` in the context. -/
macro "radial_case " d:ident h:ident : tactic => `(tactic| (
  norm_num [$d:ident, Q, recI, recJ, leaf, valuesOf]
  <;> (try simp only [F_0 $h, GB_m1 $h, F_m2 $h, GB_m3 $h, F_m4 $h, GB_m5 $h, F_m6 $h, GB_m7 $h, F_m8 $h])
  <;> (try field_simp)
  <;> ring))

end Ecpint.C12
