/- C12 — case 10110 = (1,1,10).  In the repository as pinned this case carried −1/(4xy) on F₈ and +1/(2x) on G^B₉
   (the generator parsed the two-digit k of its own term label as k = 1); the statement below was then FALSE, which
   is how the defect was confirmed after the numerical oracle flagged it.  With the repair ("fix: closed-form radial
   case (l1,l2,k) = (1,1,10) …") the translated case proves like the other 62. -/
import Ecpint.Props.C12Cases.Tactic
namespace Ecpint.C12
open Ecpint.RadialRec Ecpint.Gen
variable {K : Type} [Field K] [CharZero K]

theorem case_10110 (p x y : K) (hx : x ≠ 0) (hy : y ≠ 0) (fam : Fam K) (h : Reductions p x y fam) :
    radialCase_10110 p x y (x*x) (y*y) (p*p) (valuesOf fam) (fam.GA 1) (fam.GB 1) (fam.H 2) = Q p x y fam 1 1 10 := by
  radial_case radialCase_10110 h

end Ecpint.C12
