/-
C10 — the integral engine can be used from many threads at once.

Model: Ecpint/Model/Conc.lean (threads, shared memory, arbitrary schedules); effect table: Gen/Effects.lean
(linker inventory of writable static storage + clang AST effect analysis, regenerated on every run).
-/
import Ecpint.Model.Conc
import Ecpint.Gen.Effects
import Ecpint.Lemmas.Conc

namespace Ecpint.C10
open Ecpint.Conc

/-- **no operation writes, outside a once-guard, a process-global object that any operation (itself included,
running on another thread) reads or writes** — decided on the extracted table for every pair of API operations:
constructing an engine and the three const compute routines. -/
theorem effects_disjoint : ∀ a ∈ Gen.ops, ∀ b ∈ Gen.ops, compatible a b = true := by decide

/-- the compute routines are const member functions with no back door (no `mutable` member, no const_cast):
they cannot write the engine they share -/
theorem compute_const_safe : ∀ a ∈ Gen.ops, a.name ≠ "construct_engine" → constSafe a = true := by decide

/-- every writable object the linker sees is accounted for: no operation writes it unguarded -/
theorem inventory_never_written_unguarded :
    ∀ g ∈ Gen.writableGlobals, ∀ a ∈ Gen.ops, g ∉ a.globalWrites := by decide


/-! ### every schedule is equivalent to the serial one (Bernstein) -/

/-- two instructions of different threads conflict when they touch a common location and one writes it -/
def conflict (a b : Instr) : Prop :=
  (∃ l, l ∈ a.writes ∧ (l ∈ b.reads ∨ l ∈ b.writes)) ∨ (∃ l, l ∈ b.writes ∧ (l ∈ a.reads ∨ l ∈ a.writes))

/-- **data-race freedom**: under Bernstein's condition no two instructions of different threads conflict, so no
interleaving whatsoever contains a race (there is no pair of accesses that could be unordered and conflicting). -/
theorem no_conflicting_access (progs : List Prog) (hd : Disjoint progs) :
    ∀ i j : Nat, i ≠ j → ∀ pi pj : Prog, progs[i]? = some pi → progs[j]? = some pj →
      ∀ a ∈ pi, ∀ b ∈ pj, ¬ conflict a b := by
  intro i j hij pi pj hpi hpj a ha b hb hconf
  have hwa : ∀ l, l ∈ a.writes → l ∈ Prog.writes pi := fun l hl => List.mem_flatMap.mpr ⟨a, ha, hl⟩
  have hra : ∀ l, l ∈ a.reads → l ∈ Prog.reads pi := fun l hl => List.mem_flatMap.mpr ⟨a, ha, hl⟩
  have hwb : ∀ l, l ∈ b.writes → l ∈ Prog.writes pj := fun l hl => List.mem_flatMap.mpr ⟨b, hb, hl⟩
  have hrb : ∀ l, l ∈ b.reads → l ∈ Prog.reads pj := fun l hl => List.mem_flatMap.mpr ⟨b, hb, hl⟩
  rcases hconf with ⟨l, hl, h | h⟩ | ⟨l, hl, h | h⟩
  · exact (hd i j hij pi pj hpi hpj l (hwa l hl)).1 (hrb l h)
  · exact (hd i j hij pi pj hpi hpj l (hwa l hl)).2 (hwb l h)
  · exact (hd j i (Ne.symm hij) pj pi hpj hpi l (hwb l hl)).1 (hra l h)
  · exact (hd j i (Ne.symm hij) pj pi hpj hpi l (hwb l hl)).2 (hwa l h)

/-- **schedule independence**: under Bernstein's condition, after ANY schedule that lets every thread finish —
any number of threads, any program lengths — each thread has read exactly the values it reads when it runs
alone from the initial memory.  Its result, a function of what it read, is therefore bit for bit that of the
same call made serially. -/
theorem schedule_independent (m : Mem) (progs : List Prog) (hd : Disjoint progs) (sched : List Nat)
    (hf : Finished (run (start m progs) sched)) (i : Nat) (p : Prog) (hp : progs[i]? = some p) :
    ∃ t, (run (start m progs) sched).threads[i]? = some t ∧
      t.trace = (alone m { rest := p, trace := [] }).2.trace := by
  obtain ⟨_, hinv⟩ := inv_run m progs hd sched (start m progs) (inv_start m progs)
  obtain ⟨n, ht, _⟩ := hinv i p hp
  refine ⟨(aloneAfter m p n).2, ht, ?_⟩
  have hrest : (aloneAfter m p n).2.rest = [] := hf _ (List.mem_of_getElem? ht)
  rw [aloneAfter_finished m p n hrest]

/-- the serial execution (thread 0 to completion, then thread 1, …) is one of the schedules … -/
def serialSched (progs : List Prog) : List Nat :=
  (List.range progs.length).flatMap fun i => List.replicate (progs[i]?.getD []).length i

/-- … and it lets every thread finish, so `schedule_independent` is not vacuous and really equates every
finishing interleaving with the serial run -/
theorem serial_finished (m : Mem) (progs : List Prog) :
    Finished (run (start m progs) (serialSched progs)) := by
  have key : ∀ k i, restLen (run (start m progs)
      ((List.range k).flatMap fun i => List.replicate (progs[i]?.getD []).length i)) i =
      if i < k then 0 else (progs[i]?.getD []).length := by
    intro k
    induction k with
    | zero => intro i; simp [run, restLen_start]
    | succ k ih =>
      intro i
      rw [List.range_succ, List.flatMap_append, run_append]
      simp only [List.flatMap_cons, List.flatMap_nil, List.append_nil]
      by_cases hik : i = k
      · subst hik
        rw [restLen_replicate_self, ih]
        simp
      · rw [restLen_replicate_ne _ _ _ _ hik, ih]
        have : (i < k + 1) ↔ (i < k) := by omega
        simp [this]
  apply finished_of_restLen
  intro i
  unfold serialSched
  rw [key]
  split
  · rfl
  · rename_i h
    have : progs[i]? = none := List.getElem?_eq_none (by omega)
    simp [this]

/-! ### from the effect table to Bernstein's condition -/

/-- how the abstract objects are laid out in the model's memory -/
structure Layout where
  glob : String → Loc                     -- a process-global object
  priv : Nat → Loc → Prop                 -- objects private to thread i (its scratch, results, own engine)
  ro : Loc → Prop                         -- shared but read-only in the concurrent phase (a shared engine's tables)
  glob_inj : ∀ a b, glob a = glob b → a = b
  priv_disj : ∀ i j l, i ≠ j → priv i l → ¬ priv j l
  priv_not_glob : ∀ i l g, priv i l → l ≠ glob g
  ro_not_priv : ∀ i l, ro l → ¬ priv i l

/-- program `p` of thread `i` stays within the effects of operation `o` -/
def Conforms (L : Layout) (i : Nat) (o : OpEffects) (p : Prog) : Prop :=
  (∀ l ∈ Prog.writes p, (∃ g ∈ o.globalWrites, l = L.glob g) ∨ L.priv i l) ∧
  (∀ l ∈ Prog.reads p, (∃ g ∈ o.globalReads ++ o.onceWrites, l = L.glob g) ∨ L.priv i l ∨ L.ro l)

/-- pairwise compatible operations give Bernstein's condition for any programs that stay within them -/
theorem conforming_disjoint (L : Layout) (ops : List OpEffects)
    (hc : ∀ a ∈ ops, ∀ b ∈ ops, compatible a b = true)
    (hro : ∀ l g, L.ro l → ∀ a ∈ ops, g ∈ a.globalWrites → l ≠ L.glob g)
    (progs : List Prog) (assign : Nat → OpEffects) (ha : ∀ i, i < progs.length → assign i ∈ ops)
    (hconf : ∀ (i : Nat) (p : Prog), progs[i]? = some p → Conforms L i (assign i) p) :
    Disjoint progs := by
  intro i j hij pi pj hpi hpj l hl
  have hi : i < progs.length := (List.getElem?_eq_some_iff.mp hpi).1
  have hj : j < progs.length := (List.getElem?_eq_some_iff.mp hpj).1
  obtain ⟨hwi, _⟩ := hconf i pi hpi
  obtain ⟨hwj, hrj⟩ := hconf j pj hpj
  have hcomp := hc (assign i) (ha i hi) (assign j) (ha j hj)
  rcases hwi l hl with ⟨g, hg, rfl⟩ | hpriv
  · -- a process-global object written by thread i's operation
    have hg3 : g ∉ (assign j).globalReads ∧ g ∉ (assign j).globalWrites ∧ g ∉ (assign j).onceWrites := by
      simp only [compatible, Bool.and_eq_true, List.all_eq_true] at hcomp
      have := hcomp.1 g hg
      simpa [and_assoc] using this
    constructor
    · intro hr
      rcases hrj _ hr with ⟨g2, hg2, he⟩ | hp | hr2
      · have := L.glob_inj _ _ he
        subst this
        rcases List.mem_append.mp hg2 with h | h
        · exact hg3.1 h
        · exact hg3.2.2 h
      · exact L.priv_not_glob j _ g hp rfl
      · exact hro _ g hr2 (assign i) (ha i hi) hg rfl
    · intro hw
      rcases hwj _ hw with ⟨g2, hg2, he⟩ | hp
      · have := L.glob_inj _ _ he
        subst this
        exact hg3.2.1 hg2
      · exact L.priv_not_glob j _ g hp rfl
  · -- an object private to thread i
    constructor
    · intro hr
      rcases hrj _ hr with ⟨g2, _, he⟩ | hp | hr2
      · exact L.priv_not_glob i l g2 hpriv he
      · exact L.priv_disj i j l hij hpriv hp
      · exact L.ro_not_priv i l hr2 hpriv
    · intro hw
      rcases hwj _ hw with ⟨g2, _, he⟩ | hp
      · exact L.priv_not_glob i l g2 hpriv he
      · exact L.priv_disj i j l hij hpriv hp

/-- **C10 for the code as it is now**: any number of threads, each running any sequence of instructions that
stays within the extracted effects of an API operation (constructing and using a private engine, or calling the
const compute routines of a shared one), under any schedule, computes what the serial run computes. -/
theorem engine_thread_safe (L : Layout)
    (hro : ∀ l g, L.ro l → ∀ a ∈ Gen.ops, g ∈ a.globalWrites → l ≠ L.glob g)
    (m : Mem) (progs : List Prog) (assign : Nat → OpEffects) (ha : ∀ i, i < progs.length → assign i ∈ Gen.ops)
    (hconf : ∀ (i : Nat) (p : Prog), progs[i]? = some p → Conforms L i (assign i) p)
    (sched : List Nat) (hf : Finished (run (start m progs) sched)) (i : Nat) (p : Prog) (hp : progs[i]? = some p) :
    ∃ t, (run (start m progs) sched).threads[i]? = some t ∧
      t.trace = (alone m { rest := p, trace := [] }).2.trace :=
  schedule_independent m progs (conforming_disjoint L Gen.ops effects_disjoint hro progs assign ha hconf) sched hf i p hp

/-! ### non-vacuity and the historical counter-model -/

/-- two threads, disjoint footprints, an interleaved schedule: each reads what it reads alone -/
example :
    let progs : List Prog := [[.write 10 (fun _ => 7), .read 10, .read 0], [.read 0, .write 20 (fun t => t.sum + 1), .read 20]]
    let c := run (start (fun _ => 5) progs) [0, 1, 1, 0, 1, 0]
    c.threads.map (·.trace) = [[7, 5], [5, 6]] := by decide

/-- what the constructor did before the repair (rewriting a table another thread reads) is NOT schedule
independent: thread 1 reads 0 or 9 depending on the interleaving -/
example :
    let progs : List Prog := [[.write 1 (fun _ => 0), .write 1 (fun _ => 9)], [.read 1]]
    (run (start (fun _ => 9) progs) [0, 1, 0]).threads.map (·.trace) ≠
    (run (start (fun _ => 9) progs) [0, 0, 1]).threads.map (·.trace) := by decide

end Ecpint.C10
